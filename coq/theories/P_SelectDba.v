(* P_SelectDba.v -- property C10 (every selected value lies in the variable's domain) for the
   DSA model (M_Dsa) and the DBA model (M_Dba), for EVERY schedule of the network semantics Net.v.

   DSA : [dsa_selects_in_domain], full statement, needs only "no declared domain is empty"
         (with an empty domain random.choice([]) would raise in Python; the model's [choose [] x 0]
         returns the default 0).
   DBA : the full statement is FALSE of the model ([dba_selects_in_domain_refuted]); what holds for
         every instance and every schedule is [dba_selects_in_domain_partial]:
           - current_value is always None or a member of the domain (unconditional);
           - a value-selection event of node n carries a member of n's domain unless n raised
             IndexError (EvRaise n 1) earlier in the run.
         See the comment before the DBA section. *)
From PyDcop Require Import Base Net P_SelectNet M_Mgm M_Dsa P_Mgm.

(* ====================================================================== DSA *)
Section DsaSel.
  Variable d : dcop.
  Variables stop variant prob : Z.
  Variable fo_vc : bool.
  Variable orc : node -> list Z.
  Hypothesis Hdom : forall n, dom_of d n <> [].

  Definition dsaJ (n : node) (s : M_Dsa.dst) : Prop :=
    forall v, ds_value s = Some v -> In v (dom_of d n).
  Definition dsaPev (e : mev) : Prop :=
    match e with EvValue n v _ _ => In v (dom_of d n) | _ => True end.

  Lemma remove_first_incl x l y : In y (remove_first x l) -> In y l.
  Proof.
    induction l as [|z r IH]; simpl; auto.
    destruct (x =? z); [auto|]. intros [H|H]; auto.
  Qed.

  Lemma remove_first_length x l : (List.length l <= S (List.length (remove_first x l)))%nat.
  Proof.
    induction l as [|z r IH]; simpl; auto.
    destruct (x =? z); simpl; lia.
  Qed.

  Lemma without_current_ok s vals D :
    vals <> [] -> (forall x, In x vals -> In x D) ->
    without_current s vals <> [] /\ (forall x, In x (without_current s vals) -> In x D).
  Proof.
    intros Hne Hin. unfold without_current. destruct (1 <? zlen vals) eqn:E; [|auto].
    split.
    - apply Z.ltb_lt in E. unfold zlen in E.
      pose proof (remove_first_length (dcur_value s) vals) as L.
      destruct (remove_first (dcur_value s) vals); [simpl in L; lia|discriminate].
    - intros x Hx. apply Hin. eapply remove_first_incl; eauto.
  Qed.

  Lemma dvalue_selection_ok n s v c s' e :
    In v (dom_of d n) -> dvalue_selection n s v c = (s', e) -> dsaJ n s' /\ Forall dsaPev e.
  Proof.
    intros Hv H. unfold dvalue_selection in H. inversion H; subst; clear H. split.
    - intros w Hw. simpl in Hw. inversion Hw; subst. exact Hv.
    - destruct (option_eqb Z.eqb (ds_value s) (Some v)); repeat constructor. exact Hv.
  Qed.

  Lemma probabilistic_change_ok n s best vals s' e :
    dsaJ n s -> vals <> [] -> (forall x, In x vals -> In x (dom_of d n)) ->
    probabilistic_change prob n s best vals = (s', e) -> dsaJ n s' /\ Forall dsaPev e.
  Proof.
    intros HJ Hne Hin H. unfold probabilistic_change in H.
    destruct (draw (ds_orc s)) as [k o1]. destruct (k <? prob).
    - destruct (draw o1) as [x o2].
      eapply dvalue_selection_ok; [|exact H]. apply Hin. apply choose_In. exact Hne.
    - inversion H; subst; clear H. split; [exact HJ|constructor].
  Qed.

  Lemma evaluate_cycle_ok n s s' o e :
    dsaJ n s -> evaluate_cycle d stop variant prob fo_vc n s = (s', o, e) ->
    dsaJ n s' /\ Forall dsaPev e.
  Proof.
    intros HJ H. unfold evaluate_cycle in H.
    destruct (zlen (ds_cur s) =? zlen (M_Mgm.nbrs d n)).
    2:{ inversion H; subst. split; [exact HJ|constructor]. }
    destruct (find_arg_optimal _ _ (dom_of d n)) as [vals best] eqn:Ef.
    destruct (find_arg_optimal_spec _ _ _ _ _ Ef (Hdom n)) as (V1 & V2 & _).
    assert (Vin : forall x, In x vals -> In x (dom_of d n)) by (intros x Hx; apply (V2 x Hx)).
    destruct (without_current_ok s vals (dom_of d n) V1 Vin) as (W1 & W2).
    match type of H with (let '(s1, e1) := ?X in _) = _ => destruct X as [s1 e1] eqn:E1 end.
    assert (HJ1 : dsaJ n s1 /\ Forall dsaPev e1).
    { destruct (0 <? _).
      - eapply probabilistic_change_ok; [| | |exact E1]; auto.
      - destruct (variant =? 0); [inversion E1; subst; split; [exact HJ|constructor]|].
        destruct (variant =? 1).
        + destruct (exists_violated _ _ _ _).
          * eapply probabilistic_change_ok; [| | |exact E1]; auto.
          * inversion E1; subst; split; [exact HJ|constructor].
        + eapply probabilistic_change_ok; [| | |exact E1]; auto. }
    destruct HJ1 as [A B].
    destruct (negb (stop =? 0) && (stop <=? ds_cycle s1 + 1)); inversion H; subst; clear H; split;
      try (intros w Hw; simpl in Hw; apply A; exact Hw);
      apply Forall_app; split; auto; repeat constructor.
  Qed.

  Lemma fold_best_in (mx : bool) (g : Z -> Z) r : forall b D,
    In (snd b) D -> (forall x, In x r -> In x D) ->
    In (snd (fold_left (fun b v => let t := (g v, v) in if lex_better mx t b then t else b) r b)) D.
  Proof.
    induction r as [|y r IH]; simpl; intros b D Hb Hr; auto.
    apply IH; [|auto]. destruct (lex_better mx (g y, y) b); simpl; auto.
  Qed.

  Lemma optimal_cost_value_in n : In (fst (optimal_cost_value d n)) (dom_of d n).
  Proof.
    unfold optimal_cost_value. pose proof (Hdom n) as H.
    destruct (dom_of d n) as [|x r]; [tauto|]. cbn [fst].
    apply fold_best_in; simpl; auto.
  Qed.

  Lemma dsa_start_ok n s s' o e :
    dsaJ n s -> dsa_start d stop variant prob fo_vc n s = (s', o, e) -> dsaJ n s' /\ Forall dsaPev e.
  Proof.
    intros HJ H. unfold dsa_start in H. destruct (M_Mgm.nbrs d n) eqn:En.
    - pose proof (optimal_cost_value_in n) as Ho.
      destruct (optimal_cost_value d n) as [v c]. simpl in Ho.
      destruct (dvalue_selection n s v (Some c)) as [s1 e1] eqn:E1.
      destruct (dvalue_selection_ok _ _ _ _ _ _ Ho E1) as [A B].
      inversion H; subst; clear H. split.
      + intros w Hw. simpl in Hw. apply A; exact Hw.
      + apply Forall_app; split; auto; repeat constructor.
    - destruct (draw (ds_orc s)) as [x o1].
      match type of H with (let '(s1, e1) := ?X in _) = _ => destruct X as [s1 e1] eqn:E1 end.
      assert (Hc : In (choose (dom_of d n) x 0) (dom_of d n)) by (apply choose_In; apply Hdom).
      destruct (dvalue_selection_ok _ _ _ _ _ _ Hc E1) as [A B].
      rewrite <- En in H.
      destruct (evaluate_cycle d stop variant prob fo_vc n s1) as [[s2 o2] e2] eqn:E2.
      destruct (evaluate_cycle_ok _ _ _ _ _ A E2) as [A2 B2].
      inversion H; subst; clear H. split; auto. apply Forall_app; split; auto.
  Qed.

  Lemma dsa_recv_ok n s src m s' o e :
    dsaJ n s -> dsa_recv d stop variant prob fo_vc n s src m = (s', o, e) -> dsaJ n s' /\ Forall dsaPev e.
  Proof.
    intros HJ H. unfold dsa_recv in H. destruct m as [v|g].
    - destruct (ds_stopped s).
      + inversion H; subst; clear H. split; [exact HJ|constructor].
      + destruct (mem_key Z.eqb src (ds_cur s)).
        * inversion H; subst; clear H. split; [exact HJ|constructor].
        * eapply evaluate_cycle_ok; [|exact H]. exact HJ.
    - inversion H; subst; clear H. split; [exact HJ|repeat constructor].
  Qed.
End DsaSel.
About dsa_start_ok.

Theorem dsa_selects_in_domain : forall d stop variant prob fo_vc orc sched,
  (forall n, dom_of d n <> []) ->
  (forall n v c k, In (EvValue n v c k) (snd (run (dsa_proto d stop variant prob fo_vc orc) sched)) ->
                   In v (dom_of d n)) /\
  (forall n v, ds_value (w_st (nodes (fst (run (dsa_proto d stop variant prob fo_vc orc) sched)) n)) = Some v ->
               In v (dom_of d n)).
Proof.
  intros d stop variant prob fo_vc orc sched Hdom.
  assert (Hinit : forall n, dsaJ d n (p_init (dsa_proto d stop variant prob fo_vc orc) n)).
  { intros n v Hv. simpl in Hv. discriminate. }
  assert (Hstart : forall n s s' outs evs, dsaJ d n s ->
            p_start (dsa_proto d stop variant prob fo_vc orc) n s = (s', outs, evs) ->
            dsaJ d n s' /\ outs_ok (fun _ _ (_ : mmsg) => True) n outs /\ Forall (dsaPev d) evs).
  { intros n s s' outs evs HJ H. simpl in H.
    destruct (dsa_start_ok d stop variant prob fo_vc Hdom n s s' outs evs HJ H) as [A B].
    split; [exact A|split; [|exact B]]. unfold outs_ok. apply Forall_forall. auto. }
  assert (Hrecv : forall n s src m s' outs evs, dsaJ d n s -> True ->
            p_recv (dsa_proto d stop variant prob fo_vc orc) n s src m = (s', outs, evs) ->
            dsaJ d n s' /\ outs_ok (fun _ _ (_ : mmsg) => True) n outs /\ Forall (dsaPev d) evs).
  { intros n s src m s' outs evs HJ _ H. simpl in H.
    destruct (dsa_recv_ok d stop variant prob fo_vc Hdom n s src m s' outs evs HJ H) as [A B].
    split; [exact A|split; [|exact B]]. unfold outs_ok. apply Forall_forall. auto. }
  split.
  - intros n v c k Hin.
    exact (net_inv_events _ (dsaJ d) (fun _ _ _ => True) (dsaPev d) Hinit Hstart Hrecv sched _ Hin).
  - intros n v Hv.
    exact (net_inv_state _ (dsaJ d) (fun _ _ _ => True) (dsaPev d) Hinit Hstart Hrecv sched n v Hv).
Qed.
