(* P_SelectDba.v -- property C10 (every selected value lies in the variable's domain) for the
   DSA model (M_Dsa) and the DBA model (M_Dba), for EVERY schedule of the network semantics Net.v.

   DSA : [dsa_selects_in_domain_node] (per node: the node's own domain is not empty) and its
         corollary [dsa_selects_in_domain] (every declared variable has a non-empty domain); with
         an empty domain random.choice([]) would raise in Python while the model's [choose [] x 0]
         returns the default 0.  Non-vacuity: [dsa_selects_in_domain_nonvacuous].
   DBA : the full statement is FALSE of the model ([dba_selects_in_domain_refuted]); what holds for
         every instance and every schedule is [dba_selects_in_domain_partial]:
           - current_value is always None or a member of the domain (unconditional);
           - a value-selection event of node n carries a member of n's domain unless the run
             contains an IndexError of n (EvRaise n 1);
         hence the full statement on crash-free runs ([dba_selects_in_domain_nocrash]).
         See the comment before the DBA section. *)
From PyDcop Require Import Base Net P_SelectNet M_Mgm M_Dsa P_Mgm.

(* ====================================================================== DSA *)
Section DsaSel.
  Variable d : dcop.
  Variables stop variant prob : Z.
  Variable fo_vc : bool.

  Definition dsaJ (n : node) (s : M_Dsa.dst) : Prop :=
    forall v, ds_value s = Some v -> In v (dom_of d n).
  Definition dsaPev (e : mev) : Prop :=
    match e with EvValue n v _ _ => In v (dom_of d n) | _ => True end.

  Lemma remove_first_incl x l y : In y (remove_first x l) -> In y l.
  Proof.
    induction l as [|z r IH]; simpl; auto.
    destruct (x =? z); [auto|]. intros [H|H]; auto.
  Qed.

  Lemma remove_first_length x l : (List.length l <= S (List.length (remove_first x l)))%nat.
  Proof.
    induction l as [|z r IH]; simpl; auto.
    destruct (x =? z); simpl; lia.
  Qed.

  Lemma without_current_ok s vals D :
    vals <> [] -> (forall x, In x vals -> In x D) ->
    without_current s vals <> [] /\ (forall x, In x (without_current s vals) -> In x D).
  Proof.
    intros Hne Hin. unfold without_current. destruct (1 <? zlen vals) eqn:E; [|auto].
    split.
    - apply Z.ltb_lt in E. unfold zlen in E.
      pose proof (remove_first_length (dcur_value s) vals) as L.
      destruct (remove_first (dcur_value s) vals); [simpl in L; lia|discriminate].
    - intros x Hx. apply Hin. eapply remove_first_incl; eauto.
  Qed.

  Lemma dvalue_selection_ok n s v c s' e :
    In v (dom_of d n) -> dvalue_selection n s v c = (s', e) -> dsaJ n s' /\ Forall dsaPev e.
  Proof.
    intros Hv H. unfold dvalue_selection in H. inversion H; subst; clear H. split.
    - intros w Hw. simpl in Hw. inversion Hw; subst. exact Hv.
    - destruct (option_eqb Z.eqb (ds_value s) (Some v)); repeat constructor. exact Hv.
  Qed.

  Lemma probabilistic_change_ok n s best vals s' e :
    dsaJ n s -> vals <> [] -> (forall x, In x vals -> In x (dom_of d n)) ->
    probabilistic_change prob n s best vals = (s', e) -> dsaJ n s' /\ Forall dsaPev e.
  Proof.
    intros HJ Hne Hin H. unfold probabilistic_change in H.
    destruct (draw (ds_orc s)) as [k o1]. destruct (k <? prob).
    - destruct (draw o1) as [x o2].
      eapply dvalue_selection_ok; [|exact H]. apply Hin. apply choose_In. exact Hne.
    - inversion H; subst; clear H. split; [exact HJ|constructor].
  Qed.

  Lemma evaluate_cycle_ok n s s' o e :
    dom_of d n <> [] -> dsaJ n s -> evaluate_cycle d stop variant prob fo_vc n s = (s', o, e) ->
    dsaJ n s' /\ Forall dsaPev e.
  Proof.
    intros Hn HJ H. unfold evaluate_cycle in H.
    destruct (zlen (ds_cur s) =? zlen (M_Mgm.nbrs d n)).
    2:{ inversion H; subst. split; [exact HJ|constructor]. }
    destruct (find_arg_optimal _ _ (dom_of d n)) as [vals best] eqn:Ef.
    destruct (find_arg_optimal_spec _ _ _ _ _ Ef Hn) as (V1 & V2 & _).
    assert (Vin : forall x, In x vals -> In x (dom_of d n)) by (intros x Hx; apply (V2 x Hx)).
    destruct (without_current_ok s vals (dom_of d n) V1 Vin) as (W1 & W2).
    match type of H with (let '(s1, e1) := ?X in _) = _ => destruct X as [s1 e1] eqn:E1 end.
    assert (HJ1 : dsaJ n s1 /\ Forall dsaPev e1).
    { destruct (0 <? _).
      - eapply probabilistic_change_ok; [| | |exact E1]; auto.
      - destruct (variant =? 0); [inversion E1; subst; split; [exact HJ|constructor]|].
        destruct (variant =? 1).
        + destruct (exists_violated _ _ _ _).
          * eapply probabilistic_change_ok; [| | |exact E1]; auto.
          * inversion E1; subst; split; [exact HJ|constructor].
        + eapply probabilistic_change_ok; [| | |exact E1]; auto. }
    destruct HJ1 as [A B].
    destruct (negb (stop =? 0) && (stop <=? ds_cycle s1 + 1)); inversion H; subst; clear H; split;
      try (intros w Hw; simpl in Hw; apply A; exact Hw);
      apply Forall_app; split; auto; repeat constructor.
  Qed.

  Lemma fold_best_in (mx : bool) (g : Z -> Z) r : forall b D,
    In (snd b) D -> (forall x, In x r -> In x D) ->
    In (snd (fold_left (fun b v => let t := (g v, v) in if lex_better mx t b then t else b) r b)) D.
  Proof.
    induction r as [|y r IH]; simpl; intros b D Hb Hr; auto.
    apply IH; [|auto]. destruct (lex_better mx (g y, y) b); simpl; auto.
  Qed.

  Lemma optimal_cost_value_in n : dom_of d n <> [] -> In (fst (optimal_cost_value d n)) (dom_of d n).
  Proof.
    intros H. unfold optimal_cost_value.
    destruct (dom_of d n) as [|x r]; [tauto|]. cbn [fst].
    apply fold_best_in; simpl; auto.
  Qed.

  Lemma dsa_start_ok n s s' o e :
    dom_of d n <> [] -> dsaJ n s -> dsa_start d stop variant prob fo_vc n s = (s', o, e) -> dsaJ n s' /\ Forall dsaPev e.
  Proof.
    intros Hn HJ H. unfold dsa_start in H. destruct (M_Mgm.nbrs d n) eqn:En.
    - pose proof (optimal_cost_value_in n Hn) as Ho.
      destruct (optimal_cost_value d n) as [v c]. simpl in Ho.
      destruct (dvalue_selection n s v (Some c)) as [s1 e1] eqn:E1.
      destruct (dvalue_selection_ok _ _ _ _ _ _ Ho E1) as [A B].
      inversion H; subst; clear H. split.
      + intros w Hw. simpl in Hw. apply A; exact Hw.
      + apply Forall_app; split; auto; repeat constructor.
    - destruct (draw (ds_orc s)) as [x o1].
      match type of H with (let '(s1, e1) := ?X in _) = _ => destruct X as [s1 e1] eqn:E1 end.
      assert (Hc : In (choose (dom_of d n) x 0) (dom_of d n)) by (apply choose_In; exact Hn).
      destruct (dvalue_selection_ok _ _ _ _ _ _ Hc E1) as [A B].
      rewrite <- En in H.
      destruct (evaluate_cycle d stop variant prob fo_vc n s1) as [[s2 o2] e2] eqn:E2.
      destruct (evaluate_cycle_ok _ _ _ _ _ Hn A E2) as [A2 B2].
      inversion H; subst; clear H. split; auto. apply Forall_app; split; auto.
  Qed.

  Lemma dsa_recv_ok n s src m s' o e :
    dom_of d n <> [] -> dsaJ n s -> dsa_recv d stop variant prob fo_vc n s src m = (s', o, e) -> dsaJ n s' /\ Forall dsaPev e.
  Proof.
    intros Hn HJ H. unfold dsa_recv in H. destruct m as [v|g].
    - destruct (ds_stopped s).
      + inversion H; subst; clear H. split; [exact HJ|constructor].
      + destruct (mem_key Z.eqb src (ds_cur s)).
        * inversion H; subst; clear H. split; [exact HJ|constructor].
        * eapply evaluate_cycle_ok; [exact Hn| |exact H]. exact HJ.
    - inversion H; subst; clear H. split; [exact HJ|repeat constructor].
  Qed.
  (* ownership: a value-selection event emitted by a handler of node n is about n (no hypothesis) *)
  Definition dsaOwn (n : node) (e : mev) : Prop :=
    match e with EvValue m _ _ _ => m = n | _ => True end.

  Lemma dvalue_selection_own n s v c : Forall (dsaOwn n) (snd (dvalue_selection n s v c)).
  Proof.
    unfold dvalue_selection. cbn [snd].
    destruct (option_eqb Z.eqb (ds_value s) (Some v)); repeat constructor.
  Qed.

  Lemma probabilistic_change_own n s best vals :
    Forall (dsaOwn n) (snd (probabilistic_change prob n s best vals)).
  Proof.
    unfold probabilistic_change. destruct (draw (ds_orc s)) as [k o1]. destruct (k <? prob).
    - destruct (draw o1) as [x o2]. apply dvalue_selection_own.
    - constructor.
  Qed.

  Lemma evaluate_cycle_own n s :
    Forall (dsaOwn n) (snd (evaluate_cycle d stop variant prob fo_vc n s)).
  Proof.
    unfold evaluate_cycle.
    destruct (zlen (ds_cur s) =? zlen (M_Mgm.nbrs d n)); [|constructor].
    destruct (find_arg_optimal _ _ (dom_of d n)) as [vals best].
    match goal with |- context [let '(s1, e1) := ?X in _] =>
      assert (HX : Forall (dsaOwn n) (snd X)); [|destruct X as [s1 e1]] end.
    { destruct (0 <? _); [apply probabilistic_change_own|].
      destruct (variant =? 0); [constructor|].
      destruct (variant =? 1); [|apply probabilistic_change_own].
      destruct (exists_violated _ _ _ _); [apply probabilistic_change_own|constructor]. }
    cbn [snd] in HX.
    destruct (negb (stop =? 0) && (stop <=? ds_cycle s1 + 1)); cbn [snd];
      apply Forall_app; split; auto; repeat constructor.
  Qed.

  Lemma dsa_start_own n s : Forall (dsaOwn n) (snd (dsa_start d stop variant prob fo_vc n s)).
  Proof.
    unfold dsa_start. destruct (M_Mgm.nbrs d n) eqn:En.
    - destruct (optimal_cost_value d n) as [v c].
      pose proof (dvalue_selection_own n s v (Some c)) as H.
      destruct (dvalue_selection n s v (Some c)) as [s1 e1]. cbn [snd] in *.
      apply Forall_app; split; auto; repeat constructor.
    - destruct (draw (ds_orc s)) as [x o1].
      match goal with |- context [let '(s1, e1) := ?X in _] =>
        assert (HX : Forall (dsaOwn n) (snd X)) by apply dvalue_selection_own;
        destruct X as [s1 e1] end.
      rewrite <- En.
      pose proof (evaluate_cycle_own n s1) as H2.
      destruct (evaluate_cycle d stop variant prob fo_vc n s1) as [[s2 o2] e2]. cbn [snd] in *.
      apply Forall_app; split; auto.
  Qed.

  Lemma dsa_recv_own n s src m : Forall (dsaOwn n) (snd (dsa_recv d stop variant prob fo_vc n s src m)).
  Proof.
    unfold dsa_recv. destruct m as [v|g]; [|repeat constructor].
    destruct (ds_stopped s); [constructor|].
    destruct (mem_key Z.eqb src (ds_cur s)); [constructor|]. apply evaluate_cycle_own.
  Qed.
End DsaSel.

(* network level.  [dom_of d n] is empty for every undeclared id, so the hypothesis is per node:
   the invariant and the event predicate are conditional on the node's own domain being non-empty
   (for the other nodes they hold trivially, by ownership of the events). *)
Definition dsaJc (d : dcop) (n : node) (s : M_Dsa.dst) : Prop := dom_of d n <> [] -> dsaJ d n s.
Definition dsaPevc (d : dcop) (e : mev) : Prop :=
  match e with EvValue n v _ _ => dom_of d n <> [] -> In v (dom_of d n) | _ => True end.

Lemma dsa_handler_c d (n : node) (s' : M_Dsa.dst) (evs : list mev) :
  Forall (dsaOwn n) evs ->
  (dom_of d n <> [] -> dsaJ d n s' /\ Forall (dsaPev d) evs) ->
  dsaJc d n s' /\ Forall (dsaPevc d) evs.
Proof.
  intros Hown H. split.
  - intros Hn. apply (H Hn).
  - apply Forall_forall. intros e He. rewrite Forall_forall in Hown. specialize (Hown e He).
    destruct e as [m v c k| | |]; simpl; auto. simpl in Hown. subst m. intros Hn.
    destruct (H Hn) as [_ F]. rewrite Forall_forall in F. exact (F _ He).
Qed.

Lemma dsa_net_c d stop variant prob fo_vc orc sched :
  (forall e, In e (snd (run (dsa_proto d stop variant prob fo_vc orc) sched)) -> dsaPevc d e) /\
  (forall n, dsaJc d n (w_st (nodes (fst (run (dsa_proto d stop variant prob fo_vc orc) sched)) n))).
Proof.
  assert (Hinit : forall n, dsaJc d n (p_init (dsa_proto d stop variant prob fo_vc orc) n)).
  { intros n _ v Hv. simpl in Hv. discriminate. }
  assert (Hstart : forall n s s' outs evs, dsaJc d n s ->
            p_start (dsa_proto d stop variant prob fo_vc orc) n s = (s', outs, evs) ->
            dsaJc d n s' /\ outs_ok (fun _ _ (_ : mmsg) => True) n outs /\ Forall (dsaPevc d) evs).
  { intros n s s' outs evs HJ H. simpl in H.
    pose proof (dsa_start_own d stop variant prob fo_vc n s) as Hown. rewrite H in Hown. cbn [snd] in Hown.
    destruct (dsa_handler_c d n s' evs Hown) as [A B].
    { intros Hn. exact (dsa_start_ok d stop variant prob fo_vc n s s' outs evs Hn (HJ Hn) H). }
    split; [exact A|split; [|exact B]]. unfold outs_ok. apply Forall_forall. auto. }
  assert (Hrecv : forall n s src m s' outs evs, dsaJc d n s -> True ->
            p_recv (dsa_proto d stop variant prob fo_vc orc) n s src m = (s', outs, evs) ->
            dsaJc d n s' /\ outs_ok (fun _ _ (_ : mmsg) => True) n outs /\ Forall (dsaPevc d) evs).
  { intros n s src m s' outs evs HJ _ H. simpl in H.
    pose proof (dsa_recv_own d stop variant prob fo_vc n s src m) as Hown. rewrite H in Hown. cbn [snd] in Hown.
    destruct (dsa_handler_c d n s' evs Hown) as [A B].
    { intros Hn. exact (dsa_recv_ok d stop variant prob fo_vc n s src m s' outs evs Hn (HJ Hn) H). }
    split; [exact A|split; [|exact B]]. unfold outs_ok. apply Forall_forall. auto. }
  split.
  - intros e Hin.
    exact (net_inv_events _ (dsaJc d) (fun _ _ _ => True) (dsaPevc d) Hinit Hstart Hrecv sched _ Hin).
  - intros n.
    exact (net_inv_state _ (dsaJc d) (fun _ _ _ => True) (dsaPevc d) Hinit Hstart Hrecv sched n).
Qed.

(* per node: the only hypothesis is that THIS node's domain is not empty *)
Theorem dsa_selects_in_domain_node : forall d stop variant prob fo_vc orc sched n,
  dom_of d n <> [] ->
  (forall v c k, In (EvValue n v c k) (snd (run (dsa_proto d stop variant prob fo_vc orc) sched)) ->
                 In v (dom_of d n)) /\
  (forall v, ds_value (w_st (nodes (fst (run (dsa_proto d stop variant prob fo_vc orc) sched)) n)) = Some v ->
             In v (dom_of d n)).
Proof.
  intros d stop variant prob fo_vc orc sched n Hn.
  destruct (dsa_net_c d stop variant prob fo_vc orc sched) as [A B]. split.
  - intros v c k Hin. exact (A _ Hin Hn).
  - intros v Hv. exact (B n Hn v Hv).
Qed.

(* per instance: every DECLARED variable has a non-empty domain *)
Theorem dsa_selects_in_domain : forall d stop variant prob fo_vc orc sched,
  (forall n, In n (map fst (d_vars d)) -> dom_of d n <> []) ->
  (forall n v c k, In n (map fst (d_vars d)) ->
                   In (EvValue n v c k) (snd (run (dsa_proto d stop variant prob fo_vc orc) sched)) ->
                   In v (dom_of d n)) /\
  (forall n v, In n (map fst (d_vars d)) ->
               ds_value (w_st (nodes (fst (run (dsa_proto d stop variant prob fo_vc orc) sched)) n)) = Some v ->
               In v (dom_of d n)).
Proof.
  intros d stop variant prob fo_vc orc sched Hdom. split.
  - intros n v c k Hd. apply (dsa_selects_in_domain_node d stop variant prob fo_vc orc sched n (Hdom n Hd)).
  - intros n v Hd. apply (dsa_selects_in_domain_node d stop variant prob fo_vc orc sched n (Hdom n Hd)).
Qed.

(* non-vacuity: a 2-variable instance satisfying the hypothesis whose run selects values *)
Definition nv_dcop : dcop :=
  M_Mgm.mkD [(0, mkV [0;1] None []); (1, mkV [0;1] None [])]
            [mkC [0;1] [([0;0],1); ([1;1],1)]] false.
Definition nv_sched : list (@action) := [Start 0; Start 1; Deliver 0 1; Deliver 1 0].

Example dsa_selects_in_domain_nonvacuous :
  (forall n, In n (map fst (d_vars nv_dcop)) -> dom_of nv_dcop n <> []) /\
  (exists v c k, In (EvValue 0 v c k) (snd (run (dsa_proto nv_dcop 0 0 1000 false (fun _ => [1;0;1])) nv_sched))) /\
  (exists v, ds_value (w_st (nodes (fst (run (dsa_proto nv_dcop 0 0 1000 false (fun _ => [1;0;1])) nv_sched)) 1)) = Some v).
Proof.
  split; [|split].
  - intros n [<-|[<-|[]]]; vm_compute; discriminate.
  - exists 1, (Some 0), 0. vm_compute. auto.
  - eexists. vm_compute. reflexivity.
Qed.

(* ====================================================================== DBA
   Selections: on_start picks in the domain; _send_ok moves to _new_value when _can_move holds.
   _new_value is always None or a member of the domain (it is drawn from the best values found by
   _compute_best_improvement, a sub-list of the domain), so current_value is always None or in the
   domain.  But [improve] sets _can_move := True BEFORE random.choice(best_values) and that call
   raises IndexError when no value evaluates at or below [infinity] (EvRaise n 1 in the model): the
   computation is left with _can_move = True and a stale _new_value, possibly the initial None.  If
   it is then in 'improve' mode (the raise happened while replaying postponed ok messages) and
   receives its neighbours' improve messages, _send_ok runs value_selection(None, ...): the model
   records EvSelect n (oz None) = EvSelect n 0 and current_value := None.  0 need not be in the
   domain: [dba_selects_in_domain_refuted] is such a run.  (The witness needs two dba_ok of the same
   sender postponed while the node is in improve mode; the instance used has a neighbourhood
   function [ncs] that is NOT the one derived from the constraints, i.e. [wf_problem] fails.  On a
   well-formed instance a neighbour cannot get two phases ahead, so I believe the bad state is
   unreachable there, but that needs a cross-node invariant on the channels and is not proved.)
   What holds for EVERY instance, parameter, oracle and schedule: [dba_selects_in_domain_partial]. *)
From PyDcop Require Import M_Dba P_Dba.

Section DbaSel.
  Variable cs : list M_Dba.constr.
  Variable ncs : node -> list nat.
  Variable dom : node -> list Z.
  Variable infinity maxd : Z.

  Notation do_improve := (M_Dba.do_improve cs ncs dom infinity).
  Notation send_ok := (M_Dba.send_ok cs ncs maxd).
  Notation ok_step := (M_Dba.ok_step cs ncs dom infinity).
  Notation imp_step := (M_Dba.imp_step cs ncs maxd).
  Notation go_ok := (M_Dba.go_ok cs ncs dom infinity).
  Notation go_imp := (M_Dba.go_imp cs ncs maxd).
  Notation dba_recv := (M_Dba.dba_recv cs ncs dom infinity maxd).
  Notation dba_start := (M_Dba.dba_start cs ncs dom infinity).
  Notation res := (M_Dba.dst * list (node * dmsg) * list dev * bool)%type.

  Definition vin (n : node) (o : option Z) : Prop := forall v, o = Some v -> In v (dom n).
  (* always true: current_value and _new_value are None or in the domain *)
  Definition selW (n : node) (s : M_Dba.dst) : Prop := vin n (d_value s) /\ vin n (d_new s).
  (* true as long as the computation has not raised IndexError *)
  Definition selI (s : M_Dba.dst) : Prop := d_can s = true -> d_new s <> None.
  Definition selPev (e : dev) : Prop :=
    match e with EvSelect m v _ _ => In v (dom m) | _ => True end.

  Lemma best_imp_incl f : forall vals bests best b' be',
    best_imp f vals bests best = (b', be') -> forall x, In x b' -> In x bests \/ In x vals.
  Proof.
    induction vals as [|a r IH]; simpl; intros bests best b' be' H x Hx.
    - inversion H; subst; auto.
    - destruct (f a <? best).
      + destruct (IH _ _ _ _ H x Hx) as [[<-|[]]|]; auto.
      + destruct (f a =? best).
        * destruct (IH _ _ _ _ H x Hx) as [Hb|]; auto.
          apply in_app_or in Hb as [|[<-|[]]]; auto.
        * destruct (IH _ _ _ _ H x Hx); auto.
  Qed.

  Lemma pick_In o l v o' : pick o l = (Some v, o') -> In v l.
  Proof.
    unfold pick. destruct l as [|a r]; [discriminate|]. set (l := a :: r).
    destruct o as [|k o1]; intros H;
      match type of H with (?X, _) = _ => assert (H1 : X = Some v) by congruence end;
      apply nth_error_In in H1; exact H1.
  Qed.

  Lemma do_improve_sel n s : selW n s ->
    let '(s2, o2, raised) := do_improve n s in selW n s2 /\ (raised = false -> selI s2).
  Proof.
    intros [Wv Wn]. unfold M_Dba.do_improve.
    destruct (eval_at cs ncs infinity n s (oz (d_value s))) as [ce viol].
    destruct (best_imp _ (dom n) [] infinity) as [bests be] eqn:Eb.
    destruct (0 <? ce - be).
    - destruct (pick (d_orc s) bests) as [[nv|] o] eqn:Ep.
      + split; [split; [exact Wv|]|].
        * intros w Hw. simpl in Hw. inversion Hw; subst.
          apply pick_In in Ep. destruct (best_imp_incl _ _ _ _ _ _ Eb _ Ep) as [[]|]; auto.
        * intros _ _. simpl. discriminate.
      + split; [split; [exact Wv|exact Wn]|discriminate].
    - split; [split; [exact Wv|exact Wn]|]. intros _ H. simpl in H. discriminate.
  Qed.

  Lemma imp_core_sel n s src m :
    d_value (imp_core n s src m) = d_value s /\ d_new (imp_core n s src m) = d_new s
    /\ (d_can (imp_core n s src m) = true -> d_can s = true).
  Proof.
    destruct m as [[mi me] mtc]. simpl. repeat split.
    destruct (d_imp s <? mi); [discriminate|]. destruct ((mi =? d_imp s) && (src <? n)); [discriminate|auto].
  Qed.

  Lemma send_ok_sel n s : selW n s ->
    let '(s2, o2, e2) := send_ok n s in
    selW n s2 /\ d_can s2 = d_can s /\ d_new s2 = d_new s /\ (selI s -> Forall selPev e2).
  Proof.
    intros [Wv Wn]. unfold M_Dba.send_ok.
    destruct ((match d_cons s with Some true => true | _ => false end)
              && ((if match d_cons s with Some true => true | _ => false end then d_tc s + 1 else d_tc s) =? maxd)).
    - split; [split; [exact Wv|exact Wn]|]. repeat split. intros _. repeat constructor.
    - split; [split; [|exact Wn]|].
      + simpl. destruct (d_can s); auto.
      + repeat split. intros HI. constructor; [exact I|].
        destruct (d_can s) eqn:Ec; simpl; [|constructor].
        destruct (negb _); constructor; [|constructor]. simpl.
        specialize (HI Ec). destruct (d_new s) as [v|] eqn:En; [|congruence].
        simpl. apply Wn. reflexivity.
  Qed.

  (* result of a nested handler started from a state satisfying selW; [pre] = selI of that state *)
  Definition okr (n : node) (pre : Prop) (x : res) : Prop :=
    let '(s', o, e, r) := x in
    selW n s' /\ (pre -> Forall selPev e /\ (if r then selI s' \/ In (EvRaise n 1) e else selI s')).

  Lemma replay_sel {M} n (h : M_Dba.dst -> node -> M -> res) :
    (forall s src m, selW n s -> okr n (selI s) (h s src m)) ->
    forall l s, selW n s -> okr n (selI s) (replay h s l).
  Proof.
    intros Hh. induction l as [|[src m] l IH]; intros s HW; simpl.
    - split; [exact HW|]. intros HI. split; [constructor|exact HI].
    - specialize (Hh s src m HW). destruct (h s src m) as [[[s1 o1] e1] r1].
      destruct Hh as [W1 C1]. destruct r1.
      + split; auto.
      + specialize (IH s1 W1). destruct (replay h s1 l) as [[[s2 o2] e2] r2].
        destruct IH as [W2 C2]. split; [exact W2|].
        intros HI. destruct (C1 HI) as [P1 I1]. destruct (C2 I1) as [P2 I2].
        split; [apply Forall_app; auto|].
        destruct r2; auto. destruct I2; auto. right. apply in_app_iff. auto.
  Qed.

  Lemma guard_pok_sel n s : selW n s -> okr n (selI s) (guard_pok n s).
  Proof.
    intros HW. unfold guard_pok. destruct (d_pok s); (split; [exact HW|]); intros HI;
      (split; [repeat constructor|auto]).
  Qed.

  Lemma guard_pimp_sel n s : selW n s -> okr n (selI s) (guard_pimp n s).
  Proof.
    intros HW. unfold guard_pimp. destruct (d_pimp s); (split; [exact HW|]); intros HI;
      (split; [repeat constructor|auto]).
  Qed.

  Lemma imp_step_sel n nested s src m :
    (forall t, selW n t -> okr n (selI t) (nested t)) ->
    selW n s -> okr n (selI s) (imp_step n nested s src m).
  Proof.
    intros Hn [Wv Wn]. unfold M_Dba.imp_step.
    destruct (imp_core_sel n s src m) as (K1 & K2 & K3).
    assert (W1 : selW n (imp_core n s src m)) by (split; [rewrite K1|rewrite K2]; auto).
    assert (I1 : selI s -> selI (imp_core n s src m)).
    { intros HI Hc. rewrite K2. apply HI. auto. }
    destruct (Nat.eqb _ _).
    - pose proof (send_ok_sel n _ W1) as H.
      destruct (send_ok n (imp_core n s src m)) as [[s2 o2] e2].
      destruct H as ([V2 N2] & C2 & D2 & P2).
      assert (Wt : selW n (set_mode OkM (clear_view s2))) by (split; simpl; auto).
      specialize (Hn _ Wt). destruct (nested (set_mode OkM (clear_view s2))) as [[[s3 o3] e3] r3].
      destruct Hn as [W3 C3]. split; [exact W3|]. intros HI.
      assert (It : selI (set_mode OkM (clear_view s2))).
      { unfold selI. simpl. rewrite C2, D2. apply I1. exact HI. }
      destruct (C3 It) as [P3 I3]. split; [apply Forall_app; split; auto|].
      destruct r3; auto. destruct I3; auto. right. apply in_app_iff. auto.
    - split; [exact W1|]. intros HI. split; [constructor|auto].
  Qed.

  Lemma ok_step_sel n nested s src v :
    (forall t, selW n t -> okr n (selI t) (nested t)) ->
    selW n s -> okr n (selI s) (ok_step n nested s src v).
  Proof.
    intros Hn HW. unfold M_Dba.ok_step.
    set (s1 := set_nvals (dict_set Z.eqb src v (d_nvals s)) s).
    assert (W1 : selW n s1) by (destruct HW; split; simpl; auto).
    assert (I1 : selI s -> selI s1) by (unfold selI; simpl; auto).
    destruct (Nat.eqb _ _).
    - pose proof (do_improve_sel n s1 W1) as H.
      destruct (do_improve n s1) as [[s2 o2] raised]. destruct H as [W2 I2]. destruct raised.
      + split; [exact W2|]. intros _. split; [repeat constructor|]. right. now left.
      + assert (Wt : selW n (set_mode ImpM s2)) by (destruct W2; split; simpl; auto).
        specialize (Hn _ Wt). destruct (nested (set_mode ImpM s2)) as [[[s3 o3] e3] r3].
        destruct Hn as [W3 C3]. split; [exact W3|]. intros _.
        apply C3. unfold selI. simpl. apply I2. reflexivity.
    - split; [exact W1|]. intros HI. split; [constructor|auto].
  Qed.

  Lemma go_imp_sel n s : selW n s -> okr n (selI s) (go_imp n s).
  Proof.
    intros HW. unfold M_Dba.go_imp.
    pose proof (replay_sel n (imp_step n (guard_pok n))
                  (fun s0 src m H0 => imp_step_sel n _ s0 src m (guard_pok_sel n) H0) (d_pimp s) s HW) as H.
    destruct (replay _ s (d_pimp s)) as [[[s1 o] e] r]. destruct r; [exact H|].
    destruct H as [[A B] C]. split; [split; simpl; auto|]. intros HI. destruct (C HI) as [P1 I1].
    split; auto.
  Qed.

  Lemma go_ok_sel n s : selW n s -> okr n (selI s) (go_ok n s).
  Proof.
    intros HW. unfold M_Dba.go_ok.
    pose proof (replay_sel n (ok_step n (guard_pimp n))
                  (fun s0 src m H0 => ok_step_sel n _ s0 src m (guard_pimp_sel n) H0) (d_pok s) s HW) as H.
    destruct (replay _ s (d_pok s)) as [[[s1 o] e] r]. destruct r; [exact H|].
    destruct H as [[A B] C]. split; [split; simpl; auto|]. intros HI. destruct (C HI) as [P1 I1].
    split; auto.
  Qed.

  Lemma dba_recv_sel n s src m : selW n s ->
    let '(s', o, e) := dba_recv n s src m in
    selW n s' /\ (selI s -> Forall selPev e /\ (selI s' \/ In (EvRaise n 1) e)).
  Proof.
    intros HW.
    assert (Triv : forall s', d_value s' = d_value s -> d_new s' = d_new s -> d_can s' = d_can s ->
                   forall e, Forall selPev e ->
                   selW n s' /\ (selI s -> Forall selPev e /\ (selI s' \/ In (EvRaise n 1) e))).
    { intros s' A B C e He. destruct HW as [Wv Wn]. split; [split; [rewrite A|rewrite B]; auto|].
      intros HI. split; [exact He|]. left. unfold selI. rewrite B, C. exact HI. }
    destruct m as [v|mi me mtc|]; unfold M_Dba.dba_recv; destruct (d_mode s);
      try (apply Triv; [reflexivity|reflexivity|reflexivity|repeat constructor]).
    - pose proof (ok_step_sel n (go_imp n) s src v (go_imp_sel n) HW) as H.
      destruct (ok_step n (go_imp n) s src v) as [[[s' o] e] r]. simpl.
      destruct H as [W' C]. split; [exact W'|]. intros HI. destruct (C HI) as [P1 I1].
      split; auto. destruct r; auto.
    - pose proof (imp_step_sel n (go_ok n) s src (mi, me, mtc) (go_ok_sel n) HW) as H.
      destruct (imp_step n (go_ok n) s src (mi, me, mtc)) as [[[s' o] e] r]. simpl.
      destruct H as [W' C]. split; [exact W'|]. intros HI. destruct (C HI) as [P1 I1].
      split; auto. destruct r; auto.
  Qed.

  Lemma dba_start_sel n s : selW n s ->
    let '(s', o, e) := dba_start n s in
    selW n s' /\ (selI s -> Forall selPev e /\ (selI s' \/ In (EvRaise n 1) e)).
  Proof.
    intros HW. unfold M_Dba.dba_start. destruct (pick (d_orc s) (dom n)) as [[v|] o] eqn:Ep.
    - apply pick_In in Ep.
      match goal with |- context [go_ok n ?x] =>
        assert (Wx : selW n x) by (destruct HW; split; simpl; auto; intros w Hw; inversion Hw; subst; auto);
        assert (Ix : selI s -> selI x) by (unfold selI; simpl; auto);
        pose proof (go_ok_sel n x Wx) as H; destruct (go_ok n x) as [[[s2 o2] e2] r] end.
      destruct H as [W2 C]. split; [exact W2|]. intros HI. destruct (C (Ix HI)) as [P1 I1].
      split; [constructor; [exact Ep|exact P1]|].
      destruct r; [destruct I1; auto; right; now right|auto].
    - split; [exact HW|]. intros HI. split; [repeat constructor|auto].
  Qed.
End DbaSel.

(* ---------------------------------------------------------------- network level: every schedule *)
Section DbaSelNet.
  Variable cs : list M_Dba.constr.
  Variable ncs : node -> list nat.
  Variable dom : node -> list Z.
  Variable infinity maxd : Z.
  Variable orc0 : node -> list Z.

  Notation P := (dba_proto cs ncs dom infinity maxd orc0).
  Notation cfg := (config M_Dba.dst dmsg).

  Definition crashed (n : node) (h : list dev) : Prop := In (EvRaise n 1) h.

  (* [h] = the events emitted so far *)
  Definition sel_inv (cf : cfg) (h : list dev) : Prop :=
    (forall n, selW dom n (w_st (nodes cf n)))
    /\ (forall n, selI (w_st (nodes cf n)) \/ crashed n h)
    /\ (forall e, In e h -> selPev dom e \/ crashed (ev_node e) h).

  Lemma crashed_app_l n h e : crashed n h -> crashed n (h ++ e).
  Proof. unfold crashed. intros H. apply in_app_iff. now left. Qed.

  (* the effect of one handler call at node [x] on the invariant *)
  Lemma handler_inv (cf : cfg) h x (w : nwrap M_Dba.dst dmsg) ch e :
    sel_inv cf h ->
    selW dom x (w_st w) ->
    Forall (fun ev => ev_node ev = x) e ->
    (selI (w_st (nodes cf x)) -> Forall (selPev dom) e /\ (selI (w_st w) \/ In (EvRaise x 1) e)) ->
    sel_inv (mkConfig (upd_node (nodes cf) x w) ch) (h ++ e).
  Proof.
    intros (A & B & C) HW Hown HC. split; [|split]; cbn [nodes].
    - intros n. unfold upd_node. destruct (Z.eqb n x) eqn:E; [|apply A].
      apply Z.eqb_eq in E. subst. exact HW.
    - intros n. unfold upd_node. destruct (Z.eqb n x) eqn:E.
      + apply Z.eqb_eq in E. subst n. destruct (B x) as [HI|Hc]; [|right; now apply crashed_app_l].
        destruct (HC HI) as [_ [H|H]]; [now left|]. right. apply in_app_iff. now right.
      + destruct (B n) as [HI|Hc]; [now left|right; now apply crashed_app_l].
    - intros ev Hin. apply in_app_iff in Hin as [Hin|Hin].
      + destruct (C ev Hin) as [H|H]; [now left|right; now apply crashed_app_l].
      + rewrite Forall_forall in Hown. rewrite (Hown ev Hin).
        destruct (B x) as [HI|Hc]; [|right; now apply crashed_app_l].
        destruct (HC HI) as [Hp _]. rewrite Forall_forall in Hp. left. auto.
  Qed.

  Lemma sel_inv_same (cf : cfg) h x (w : nwrap M_Dba.dst dmsg) ch :
    sel_inv cf h -> w_st w = w_st (nodes cf x) ->
    sel_inv (mkConfig (upd_node (nodes cf) x w) ch) (h ++ []).
  Proof.
    intros H E. apply handler_inv; auto.
    - rewrite E. destruct H as (A & _). apply A.
    - intros HI. split; [constructor|]. left. rewrite E. exact HI.
  Qed.

  Lemma step_sel_inv cf h a :
    sel_inv cf h -> let '(cf1, e1) := step P cf a in sel_inv cf1 (h ++ e1).
  Proof.
    intros Hinv. pose proof Hinv as (A & B & C). destruct a as [n0|s0 d0]; simpl.
    - destruct (w_running (nodes cf n0)) eqn:Ru; [rewrite app_nil_r; exact Hinv|].
      pose proof (dba_start_sel cs ncs dom infinity n0 (w_st (nodes cf n0)) (A n0)) as H.
      pose proof (dba_start_ok cs ncs dom infinity orc0 n0 (w_st (nodes cf n0))) as G.
      destruct (M_Dba.dba_start cs ncs dom infinity n0 (w_st (nodes cf n0))) as [[s' o] e].
      destruct H as [HW HC]. destruct G as [[Fa _] _].
      apply handler_inv; auto.
    - destruct (chan cf s0 d0) as [|m q]; [rewrite app_nil_r; exact Hinv|].
      destruct (w_running (nodes cf d0)) eqn:Ru.
      + pose proof (dba_recv_sel cs ncs dom infinity maxd d0 (w_st (nodes cf d0)) s0 m (A d0)) as H.
        pose proof (dba_recv_ok cs ncs dom infinity maxd orc0 d0 (w_st (nodes cf d0)) s0 m) as G.
        destruct (M_Dba.dba_recv cs ncs dom infinity maxd d0 (w_st (nodes cf d0)) s0 m) as [[s' o] e].
        destruct H as [HW HC]. destruct G as [[Fa _] _].
        apply handler_inv; auto.
      + apply sel_inv_same; auto.
  Qed.

  Lemma exec_sel_inv sched : forall cf h,
    sel_inv cf h -> let '(cf2, e2) := exec P cf sched in sel_inv cf2 (h ++ e2).
  Proof.
    induction sched as [|a r IH]; intros cf h Hinv; simpl.
    - rewrite app_nil_r. exact Hinv.
    - pose proof (step_sel_inv cf h a Hinv) as S. destruct (step P cf a) as [cf1 e1].
      specialize (IH cf1 (h ++ e1) S). destruct (exec P cf1 r) as [cf2 e2].
      rewrite app_assoc. exact IH.
  Qed.

  Lemma init_sel_inv : sel_inv (init P) [].
  Proof.
    split; [|split].
    - intros n. split; intros v Hv; simpl in Hv; discriminate.
    - intros n. left. intros Hc. simpl in Hc. discriminate.
    - intros e [].
  Qed.

  Lemma run_sel_inv sched : sel_inv (fst (run P sched)) (snd (run P sched)).
  Proof.
    unfold run. pose proof (exec_sel_inv sched (init P) [] init_sel_inv) as H.
    destruct (exec P (init P) sched) as [cf evs]. exact H.
  Qed.
End DbaSelNet.

(* For every instance, parameter, oracle and schedule:
   - a value-selection event of node n carries a member of n's domain, unless n raised IndexError
     (random.choice([]) in improve / on_start, event EvRaise n 1) in the run (the invariant
     [sel_inv] shows more: the raise is in the history up to the handler call that selects);
   - current_value (and _new_value) of every computation is None or a member of its domain. *)
Theorem dba_selects_in_domain_partial : forall cs ncs dom infinity maxd orc0 sched,
  (forall n v c k, In (EvSelect n v c k) (snd (run (dba_proto cs ncs dom infinity maxd orc0) sched)) ->
                   In v (dom n) \/ In (EvRaise n 1) (snd (run (dba_proto cs ncs dom infinity maxd orc0) sched))) /\
  (forall n v, d_value (w_st (nodes (fst (run (dba_proto cs ncs dom infinity maxd orc0) sched)) n)) = Some v ->
               In v (dom n)) /\
  (forall n v, d_new (w_st (nodes (fst (run (dba_proto cs ncs dom infinity maxd orc0) sched)) n)) = Some v ->
               In v (dom n)).
Proof.
  intros cs ncs dom infinity maxd orc0 sched.
  destruct (run_sel_inv cs ncs dom infinity maxd orc0 sched) as (A & B & C).
  split; [|split].
  - intros n v c k Hin. exact (C _ Hin).
  - intros n v Hv. destruct (A n) as [Wv _]. apply Wv. exact Hv.
  - intros n v Hv. destruct (A n) as [_ Wn]. apply Wn. exact Hv.
Qed.

(* the full statement on the runs in which no computation raised IndexError *)
Corollary dba_selects_in_domain_nocrash : forall cs ncs dom infinity maxd orc0 sched,
  (forall n, ~ In (EvRaise n 1) (snd (run (dba_proto cs ncs dom infinity maxd orc0) sched))) ->
  (forall n v c k, In (EvSelect n v c k) (snd (run (dba_proto cs ncs dom infinity maxd orc0) sched)) ->
                   In v (dom n)) /\
  (forall n v, d_value (w_st (nodes (fst (run (dba_proto cs ncs dom infinity maxd orc0) sched)) n)) = Some v ->
               In v (dom n)).
Proof.
  intros cs ncs dom infinity maxd orc0 sched Hno.
  destruct (dba_selects_in_domain_partial cs ncs dom infinity maxd orc0 sched) as (A & B & _).
  split; [|exact B]. intros n v c k Hin. destruct (A n v c k Hin) as [H|H]; [exact H|]. destruct (Hno n H).
Qed.

(* ---------------------------------------------------------------- the full statement is false
   Node 0 (domain [5]) has two neighbours 1 and 2; nodes 3 and 4 list 0 as a neighbour but not
   conversely (ill-formed [ncs]); infinity = 0.  Their dba_ok put 0 in improve mode before 1 and 2
   start; 0 then postpones ok(1,0), ok(2,0) and, after node 1 moved, ok(1,1).  When its cycle ends
   the replay of the three postponed ok runs improve twice: the first time nothing is violated
   (no move, _new_value stays None), the second time every value of the domain is violated:
   _can_move := True, IndexError (EvRaise 0 1), mode 'improve'.  The next two improve messages
   make _send_ok select _new_value = None: EvSelect 0 0, and 0 is not in [5]. *)
Definition rf_cs : list M_Dba.constr :=
  [ ([0;1], [([5;0],-1)]);
    ([0;2], [([5;0],-1)]);
    ([3;0], []);
    ([4;0], []);
    ([1;0], [([1;5],-1)]) ].
Definition rf_ncs (n : node) : list nat :=
  if n =? 0 then [0;1]%nat else if n =? 1 then [4%nat] else if n =? 2 then [1%nat]
  else if n =? 3 then [2%nat] else if n =? 4 then [3%nat] else [].
Definition rf_dom (n : node) : list Z :=
  if n =? 0 then [5] else if n =? 1 then [0;1] else [0].
Definition rf_sched : list (@action) :=
  [Start 0; Start 3; Start 4; Deliver 3 0; Deliver 4 0;
   Start 1; Start 2; Deliver 1 0; Deliver 2 0;
   Deliver 0 1; Deliver 0 1; Deliver 1 0; Deliver 1 0;
   Deliver 0 2; Deliver 2 0;
   Deliver 0 1; Deliver 1 0;
   Deliver 0 2; Deliver 0 2; Deliver 2 0; Deliver 2 0].

Theorem dba_selects_in_domain_refuted :
  exists cs ncs dom infinity maxd orc0 sched n v c k,
    In (EvSelect n v c k) (snd (run (dba_proto cs ncs dom infinity maxd orc0) sched)) /\ ~ In v (dom n).
Proof.
  exists rf_cs, rf_ncs, rf_dom, 0, 100, (fun _ => []), rf_sched, 0, 0, (Some 0), 2.
  split.
  - assert (E : snd (run (dba_proto rf_cs rf_ncs rf_dom 0 100 (fun _ => [])) rf_sched) =
                [EvSelect 0 5 None 0; EvSelect 3 0 None 0; EvSelect 4 0 None 0; EvSelect 1 0 None 0;
                 EvSelect 2 0 None 0; M_Dba.EvCycle 1 1; EvSelect 1 1 (Some 0) 1; M_Dba.EvCycle 0 1;
                 EvRaise 0 1; M_Dba.EvCycle 2 1; M_Dba.EvCycle 0 2; EvSelect 0 0 (Some 0) 2; EvRaise 0 1])
      by (vm_compute; reflexivity).
    rewrite E. simpl. tauto.
  - simpl. intros [H|[]]. discriminate.
Qed.


