(* P_Dpop2Net.v -- a generic "pipe" view of Net.v configurations (any proto).

   pipe cf a b = the messages sent by a to b and not yet handled by b, oldest first: those b
   stored while it was not running (w_held, re-injected at the head of the channel by start())
   followed by the channel.  In terms of (running flag, state, pipes) a step of Net.v is
     - a stutter (no-op action, or a message moved from the channel into the hold buffer),
     - Start n  : p_start on n's state, outputs appended to n's outgoing pipes,
     - a receive: the head of pipe s d handled by p_recv on the running node d.
   [step_cases] states this once and for all, so protocol invariants can be written over
   rn / stt / pipe only. *)
From PyDcop Require Import Base Net.
Local Open Scope list_scope.

Section Pipes.
  Context {St Msg Ev : Type}.
  Variable PR : proto St Msg Ev.
  Notation config := (config St Msg).

  Definition from (a : node) (l : list (node * Msg)) : list Msg :=
    map snd (filter (fun p => Z.eqb (fst p) a) l).
  Definition rn (cf : config) (n : node) : bool := w_running (nodes cf n).
  Definition stt (cf : config) (n : node) : St := w_st (nodes cf n).
  Definition pipe (cf : config) (a b : node) : list Msg := from a (w_held (nodes cf b)) ++ chan cf a b.
  Definition held_ok (cf : config) : Prop := forall b, rn cf b = true -> w_held (nodes cf b) = [].

  Lemma from_app a l1 l2 : from a (l1 ++ l2) = from a l1 ++ from a l2.
  Proof. unfold from. rewrite filter_app, map_app. reflexivity. Qed.

  Lemma In_from a l m : In m (from a l) <-> In (a, m) l.
  Proof.
    unfold from. rewrite in_map_iff. split.
    - intros ([a' m'] & <- & H). apply filter_In in H. destruct H as [H E]. simpl in *.
      apply Z.eqb_eq in E. subst. exact H.
    - intros H. exists (a, m). split; auto. apply filter_In. split; auto. simpl. apply Z.eqb_refl.
  Qed.

  Lemma send_all_spec outs : forall (c : node -> node -> list Msg) src x y,
    send_all c src outs x y = if Z.eqb x src then c x y ++ from y outs else c x y.
  Proof.
    induction outs as [|[d m] r IH]; intros c src x y; simpl.
    - unfold from; simpl. rewrite app_nil_r. destruct (Z.eqb x src); auto.
    - rewrite IH. unfold upd_chan, from. simpl.
      destruct (Z.eqb x src) eqn:Ex; simpl; [|reflexivity].
      rewrite (Z.eqb_sym d y).
      destruct (Z.eqb y d) eqn:Ey; simpl.
      + apply Z.eqb_eq in Ex. apply Z.eqb_eq in Ey. subst. rewrite <- app_assoc. reflexivity.
      + reflexivity.
  Qed.

  Lemma reinject_all_spec l : forall (c : node -> node -> list Msg) dst x y,
    reinject_all c dst l x y = if Z.eqb y dst then from x l ++ c x y else c x y.
  Proof.
    induction l as [|[s0 m] r IH]; intros c dst x y; simpl.
    - unfold from; simpl. destruct (Z.eqb y dst); auto.
    - unfold upd_chan. rewrite !IH. unfold from. simpl.
      rewrite (Z.eqb_sym s0 x).
      destruct (Z.eqb x s0) eqn:Ex; simpl.
      + apply Z.eqb_eq in Ex; subst.
        destruct (Z.eqb y dst) eqn:Ey; simpl.
        * apply Z.eqb_eq in Ey; subst. rewrite Z.eqb_refl. reflexivity.
        * reflexivity.
      + destruct (Z.eqb y dst); reflexivity.
  Qed.

  Inductive step_kind (cf cf' : config) (evs : list Ev) : Prop :=
  | SK_stutter :
      (forall y, rn cf' y = rn cf y) -> (forall y, stt cf' y = stt cf y) ->
      (forall a b, pipe cf' a b = pipe cf a b) -> evs = [] -> step_kind cf cf' evs
  | SK_start n st' outs :
      rn cf n = false -> p_start PR n (stt cf n) = (st', outs, evs) ->
      (forall y, rn cf' y = if Z.eqb y n then true else rn cf y) ->
      (forall y, stt cf' y = if Z.eqb y n then st' else stt cf y) ->
      (forall a b, pipe cf' a b = pipe cf a b ++ (if Z.eqb a n then from b outs else [])) ->
      step_kind cf cf' evs
  | SK_recv s d m q st' outs :
      rn cf d = true -> pipe cf s d = m :: q -> p_recv PR d (stt cf d) s m = (st', outs, evs) ->
      (forall y, rn cf' y = rn cf y) ->
      (forall y, stt cf' y = if Z.eqb y d then st' else stt cf y) ->
      (forall a b, pipe cf' a b = (if Z.eqb a s && Z.eqb b d then q else pipe cf a b)
                                  ++ (if Z.eqb a d then from b outs else [])) ->
      step_kind cf cf' evs.

  Lemma step_cases cf a : held_ok cf ->
    step_kind cf (fst (step PR cf a)) (snd (step PR cf a)) /\ held_ok (fst (step PR cf a)).
  Proof.
    intros Hh. destruct a as [n|s d]; unfold step.
    - destruct (w_running (nodes cf n)) eqn:Er.
      + simpl. split; [apply SK_stutter; auto | exact Hh].
      + destruct (p_start PR n (w_st (nodes cf n))) as [[st' outs] evs] eqn:Es. cbn [fst snd]. split.
        * apply SK_start with (n := n) (st' := st') (outs := outs); auto.
          -- intros y. unfold rn; cbn [nodes]. unfold upd_node. destruct (Z.eqb y n); reflexivity.
          -- intros y. unfold stt; cbn [nodes]. unfold upd_node. destruct (Z.eqb y n); reflexivity.
          -- intros a b. unfold pipe; cbn [nodes chan]. rewrite reinject_all_spec, send_all_spec.
             unfold reinject, upd_node. destruct (Z.eqb b n) eqn:Eb.
             ++ apply Z.eqb_eq in Eb. subst b. cbn [w_held]. simpl.
                destruct (Z.eqb a n); rewrite <- ?app_assoc; rewrite ?app_nil_r; reflexivity.
             ++ destruct (Z.eqb a n); rewrite <- ?app_assoc; rewrite ?app_nil_r; reflexivity.
        * intros b. unfold rn; cbn [nodes]. unfold upd_node. destruct (Z.eqb b n) eqn:Eb; [reflexivity|].
          apply Hh.
    - destruct (chan cf s d) as [|m q] eqn:Ec.
      + simpl. split; [apply SK_stutter; auto | exact Hh].
      + destruct (w_running (nodes cf d)) eqn:Er.
        * destruct (p_recv PR d (w_st (nodes cf d)) s m) as [[st' outs] evs] eqn:Es. cbn [fst snd].
          assert (Hd : w_held (nodes cf d) = []) by (apply Hh; exact Er).
          split.
          -- apply SK_recv with (s := s) (d := d) (m := m) (q := q) (st' := st') (outs := outs); auto.
             ++ unfold pipe. rewrite Hd, Ec. reflexivity.
             ++ intros y. unfold rn; cbn [nodes]. unfold upd_node. destruct (Z.eqb y d) eqn:E; [|reflexivity].
                apply Z.eqb_eq in E; subst. simpl. symmetry. exact Er.
             ++ intros y. unfold stt; cbn [nodes]. unfold upd_node. destruct (Z.eqb y d); reflexivity.
             ++ intros a b. unfold pipe; cbn [nodes chan]. rewrite send_all_spec. unfold upd_chan, upd_node.
                destruct (Z.eqb b d) eqn:Eb.
                ** apply Z.eqb_eq in Eb; subst b. cbn [w_held]. rewrite Hd. simpl.
                   rewrite andb_true_r.
                   destruct (Z.eqb a s), (Z.eqb a d); rewrite ?app_nil_r; reflexivity.
                ** rewrite andb_false_r.
                   destruct (Z.eqb a d); rewrite <- ?app_assoc; rewrite ?app_nil_r; reflexivity.
          -- intros b. unfold rn; cbn [nodes]. unfold upd_node. destruct (Z.eqb b d) eqn:Eb.
             ++ intros _. simpl. exact Hd.
             ++ apply Hh.
        * cbn [fst snd]. split.
          -- apply SK_stutter; auto.
             ++ intros y. unfold rn; cbn [nodes]. unfold upd_node. destruct (Z.eqb y d) eqn:E; [|reflexivity].
                apply Z.eqb_eq in E; subst. simpl. symmetry. exact Er.
             ++ intros y. unfold stt; cbn [nodes]. unfold upd_node. destruct (Z.eqb y d) eqn:E; [|reflexivity].
                apply Z.eqb_eq in E; subst. reflexivity.
             ++ intros a b. unfold pipe; cbn [nodes chan]. unfold upd_chan, upd_node.
                destruct (Z.eqb b d) eqn:Eb.
                ** apply Z.eqb_eq in Eb; subst b. cbn [w_held]. rewrite from_app. rewrite andb_true_r.
                   unfold from at 2. simpl. rewrite (Z.eqb_sym s a).
                   destruct (Z.eqb a s) eqn:Ea; simpl.
                   --- apply Z.eqb_eq in Ea; subst a. rewrite Ec. rewrite <- app_assoc. reflexivity.
                   --- rewrite app_nil_r. reflexivity.
                ** rewrite andb_false_r. reflexivity.
          -- intros b. unfold rn; cbn [nodes]. unfold upd_node. destruct (Z.eqb b d) eqn:Eb.
             ++ simpl. discriminate.
             ++ apply Hh.
  Qed.

  Lemma held_ok_init : held_ok (init PR).
  Proof. intros b _. reflexivity. Qed.

  Lemma pipe_init a b : pipe (init PR) a b = [].
  Proof. reflexivity. Qed.

  (* a configuration in which nothing is in flight: every channel and hold buffer is empty *)
  Lemma pipe_nil_of_quiet cf a b : w_held (nodes cf b) = [] -> chan cf a b = [] -> pipe cf a b = [].
  Proof. intros H1 H2. unfold pipe. rewrite H1, H2. reflexivity. Qed.
End Pipes.
