(* P_Mgm2z.v -- MGM2, part 4 of the global barrier proof: from the abstract world of P_Mgm2y.v to the
   real network model (Net.v + M_Mgm2x.mgm2_proto_f): the pending bag of an ordered pair is
   pre-start buffer ++ channel ++ postponed lists of the receiver; one real handler execution (with
   the nested re-dispatch of postponed messages) is a sequence of micro-steps; every reachable
   configuration satisfies the invariant; consequences (termination after k cycles, no deadlock,
   no handler error, partner handshake). *)
From Coq Require Import ZArith List Bool Lia.
From PyDcop Require Import Base Net M_Mgm M_Mgm2 M_Mgm2x P_Mgm P_Mgm3 P_Mgm3c P_Mgm2x P_Mgm2y P_Mgm2s
  P_Mgm2sV P_Mgm2sO P_Mgm2sA P_Mgm2sG P_Mgm2sS P_Mgm2f.
Import ListNotations.
Open Scope Z_scope.

Local Notation length := List.length.

(* ------------------------------------------------------------------ generic extensionality *)
Section Ext.
  Variable d : dcop.
  Variable stop : Z.
  Notation nbr := (nbrs d).

  Lemma good_skel_ext n s s' : skel s' = skel s -> good d stop n s -> good d stop n s'.
  Proof.
    unfold skel. intros H G. injection H as H1 H2 H3 H4 H5 H6 H7 H8 H9 H10.
    destruct G. constructor; rewrite ?H1, ?H2, ?H3, ?H4, ?H5, ?H6, ?H7, ?H8, ?H9, ?H10; assumption.
  Qed.

  Lemma InvA_ext rn rn' S S' pd pd' :
    (forall n, rn' n = rn n) -> (forall n, skel (S' n) = skel (S n)) -> (forall a b, pd' a b = pd a b) ->
    InvA d stop rn S pd -> InvA d stop rn' S' pd'.
  Proof.
    intros Hr Hs Hp [I1 I2 I3 I4 I5]. constructor.
    - intros n Hn. rewrite Hr in Hn. unfold idle_skel. rewrite Hs. apply I1. exact Hn.
    - intros n Hn Hi. rewrite Hr in Hn. destruct (I2 n Hn Hi) as [A B].
      pose proof (Hs n) as E. unfold skel in E. injection E as E1 E2 E3 _ _ _ _ _ _ _. rewrite E2, E3. auto.
    - intros n Hn Ha. rewrite Hr in Hn. apply (good_skel_ext n (S n)); [apply Hs|apply I3; assumption].
    - intros x y Hxy. specialize (I4 x y Hxy).
      assert (I4' : pairI rn S' pd' x y).
      { apply (pairI_ext rn S pd); [apply skel_skelS; apply Hs|apply Hs|intros k; rewrite Hp; reflexivity
                                   |intros m; rewrite Hp; auto|exact I4]. }
      destruct I4'. constructor; unfold SV, CV, SO, CO, SG, CG in *; rewrite ?Hr; assumption.
    - intros x y Hxy. rewrite Hp. apply I5. exact Hxy.
  Qed.

  (* bags only matter through counts per kind and membership *)
  Lemma InvA_bag_ext rn S pd pd' :
    (forall a b k, cnt k (pd' a b) = cnt k (pd a b)) -> (forall a b m, In m (pd' a b) -> In m (pd a b)) ->
    InvA d stop rn S pd -> InvA d stop rn S pd'.
  Proof.
    intros Hc Hi [I1 I2 I3 I4 I5]. constructor; try assumption.
    - intros x y Hxy. apply (pairI_ext rn S pd); try reflexivity; [apply Hc|apply Hi|apply I4; exact Hxy].
    - intros x y Hxy. specialize (I5 x y Hxy). destruct (pd' x y) as [|m r] eqn:E; [reflexivity|].
      exfalso. assert (In m (pd x y)) by (apply Hi; rewrite E; left; reflexivity). rewrite I5 in H. exact H.
  Qed.
End Ext.

(* ------------------------------------------------------------------ postponed lists *)
Definition allposts (s : m2st) : list (Z * m2msg) :=
  t_pvalue s ++ t_poffer s ++ t_panswer s ++ t_pgainm s ++ t_pgo s.
Definition kinds_ok (s : m2st) : Prop :=
  Forall (fun sm => kind_of (snd sm) = 1) (t_pvalue s) /\ Forall (fun sm => kind_of (snd sm) = 2) (t_poffer s) /\
  Forall (fun sm => kind_of (snd sm) = 3) (t_panswer s) /\ Forall (fun sm => kind_of (snd sm) = 4) (t_pgainm s) /\
  Forall (fun sm => kind_of (snd sm) = 5) (t_pgo s).

Lemma posts_allposts s s' : posts s' = posts s -> allposts s' = allposts s.
Proof. unfold posts, allposts. intros H. injection H as -> -> -> -> ->. reflexivity. Qed.
Lemma posts_kinds s s' : posts s' = posts s -> kinds_ok s -> kinds_ok s'.
Proof. unfold posts, kinds_ok. intros H. injection H as -> -> -> -> ->. auto. Qed.
Lemma posts_get s s' k : posts s' = posts s -> get_post s' k = get_post s k.
Proof. unfold posts, get_post. intros H. injection H as -> -> -> -> ->. reflexivity. Qed.

Lemma skel_set_post s k l : skel (set_post s k l) = skel s.
Proof. unfold set_post. destruct (k =? 1), (k =? 2), (k =? 3), (k =? 4); destruct s; reflexivity. Qed.

Lemma get_set_post s k l : 1 <= k <= 5 -> get_post (set_post s k l) k = l.
Proof.
  intros H. unfold get_post, set_post.
  destruct (Z.eqb_spec k 1); [destruct s; reflexivity|]. destruct (Z.eqb_spec k 2); [destruct s; reflexivity|].
  destruct (Z.eqb_spec k 3); [destruct s; reflexivity|]. destruct (Z.eqb_spec k 4); destruct s; reflexivity.
Qed.
Lemma get_set_post_other s k k' l : 1 <= k <= 5 -> 1 <= k' <= 5 -> k' <> k -> get_post (set_post s k l) k' = get_post s k'.
Proof.
  intros H H' Hne. unfold get_post, set_post.
  destruct (Z.eqb_spec k 1); [|destruct (Z.eqb_spec k 2); [|destruct (Z.eqb_spec k 3); [|destruct (Z.eqb_spec k 4)]]];
  destruct (Z.eqb_spec k' 1); try lia; destruct (Z.eqb_spec k' 2); try lia; destruct (Z.eqb_spec k' 3); try lia;
  destruct (Z.eqb_spec k' 4); try lia; destruct s; reflexivity.
Qed.

(* the list of all postponed messages around the list of kind k *)
Lemma allposts_split s k : 1 <= k <= 5 ->
  exists A B, allposts s = A ++ get_post s k ++ B /\ forall l, allposts (set_post s k l) = A ++ l ++ B.
Proof.
  intros H. unfold allposts, get_post, set_post.
  destruct (Z.eqb_spec k 1).
  { exists [], (t_poffer s ++ t_panswer s ++ t_pgainm s ++ t_pgo s). split; [reflexivity|intros l; destruct s; reflexivity]. }
  destruct (Z.eqb_spec k 2).
  { exists (t_pvalue s), (t_panswer s ++ t_pgainm s ++ t_pgo s). split; [reflexivity|intros l; destruct s; reflexivity]. }
  destruct (Z.eqb_spec k 3).
  { exists (t_pvalue s ++ t_poffer s), (t_pgainm s ++ t_pgo s). split; [rewrite <- !app_assoc; reflexivity|].
    intros l; destruct s; simpl; rewrite <- !app_assoc; reflexivity. }
  destruct (Z.eqb_spec k 4).
  { exists (t_pvalue s ++ t_poffer s ++ t_panswer s), (t_pgo s). split; [rewrite <- !app_assoc; reflexivity|].
    intros l; destruct s; simpl; rewrite <- !app_assoc; reflexivity. }
  exists (t_pvalue s ++ t_poffer s ++ t_panswer s ++ t_pgainm s), []. split; [rewrite app_nil_r, <- !app_assoc; reflexivity|].
  intros l; destruct s; simpl; rewrite app_nil_r, <- !app_assoc; reflexivity.
Qed.

Lemma kinds_get s k : 1 <= k <= 5 -> kinds_ok s -> Forall (fun sm => kind_of (snd sm) = k) (get_post s k).
Proof.
  intros H (K1 & K2 & K3 & K4 & K5). unfold get_post.
  destruct (Z.eqb_spec k 1) as [->|]; [exact K1|]. destruct (Z.eqb_spec k 2) as [->|]; [exact K2|].
  destruct (Z.eqb_spec k 3) as [->|]; [exact K3|]. destruct (Z.eqb_spec k 4) as [->|]; [exact K4|].
  assert (k = 5) by lia. subst. exact K5.
Qed.
Lemma kinds_set s k l : 1 <= k <= 5 -> kinds_ok s -> Forall (fun sm => kind_of (snd sm) = k) l -> kinds_ok (set_post s k l).
Proof.
  intros H (K1 & K2 & K3 & K4 & K5) Hl. unfold kinds_ok, set_post.
  destruct (Z.eqb_spec k 1) as [->|]; [destruct s; simpl in *; auto 10|].
  destruct (Z.eqb_spec k 2) as [->|]; [destruct s; simpl in *; auto 10|].
  destruct (Z.eqb_spec k 3) as [->|]; [destruct s; simpl in *; auto 10|].
  destruct (Z.eqb_spec k 4) as [->|]; [destruct s; simpl in *; auto 10|].
  assert (k = 5) by lia. subst. destruct s; simpl in *; auto 10.
Qed.

Lemma pop_last_spec {A} (l : list A) : match pop_last l with None => l = [] | Some (r, x) => l = r ++ [x] end.
Proof.
  induction l as [|a r IH]; simpl; [reflexivity|].
  destruct (pop_last r) as [[r' y]|]; [rewrite IH; reflexivity|rewrite IH; reflexivity].
Qed.

Lemma loop_eq d stop thr favor n f st s :
  loop d stop thr favor n f st s =
  match pop_last (get_post s st) with
  | None => ret2 s
  | Some (rest, (src, m)) =>
      match f with
      | O => (s, [], [EvErr n 7])
      | S f' => andthen2 (on_msg d stop thr favor n (enter d stop thr favor n f') (set_post s st rest) src m)
                         (loop d stop thr favor n f' st)
      end
  end.
Proof. destruct f; reflexivity. Qed.

Lemma to_y2_single a x (m : m2msg) : to_y2 a [(x, m)] = if x =? a then [m] else [].
Proof. unfold to_y2. simpl. destruct (x =? a); reflexivity. Qed.

(* ------------------------------------------------------------------ events *)
Section Events.
  Variable d : dcop.
  Variable stop : Z.
  Notation doneb := (P_Mgm2x.doneb stop).

  Definition EvP (y : node) (s s' : m2st) (e : list mev) : Prop :=
    noerr e /\ (forall n k, In (EvFinished n k) e -> n = y /\ (0 <= stop -> k = stop)) /\
    t_fin s' = t_fin s + Z.of_nat (count_fin y e).

  Lemma EvP_nil y s s' : t_fin s' = t_fin s -> EvP y s s' [].
  Proof. intros H. split; [intros n k []|split; [intros n k []|simpl; lia]]. Qed.

  Lemma EvP_app y s s1 s2 e1 e2 : EvP y s s1 e1 -> EvP y s1 s2 e2 -> EvP y s s2 (e1 ++ e2).
  Proof.
    intros (A1 & A2 & A3) (B1 & B2 & B3). split; [|split].
    - intros n k H. apply in_app_or in H as [H|H]; [apply (A1 n k H)|apply (B1 n k H)].
    - intros n k H. apply in_app_or in H as [H|H]; [apply (A2 n k H)|apply (B2 n k H)].
    - rewrite count_fin_app, Nat2Z.inj_add. lia.
  Qed.

  Lemma done_cycle n s : good d stop n s -> doneb (t_cycle s) = true -> 0 <= stop -> t_cycle s = stop.
  Proof.
    intros G Hd Hs. unfold P_Mgm2x.doneb in Hd. apply andb_true_iff in Hd as [H1 H2].
    apply negb_true_iff in H1. apply Z.eqb_neq in H1. apply Z.leb_le in H2.
    destruct (g_prev _ _ _ _ G) as [Hc|Hc]; [lia|].
    unfold P_Mgm2x.doneb in Hc. apply andb_false_iff in Hc as [Hc|Hc].
    - apply negb_false_iff in Hc. apply Z.eqb_eq in Hc. lia.
    - apply Z.leb_gt in Hc. lia.
  Qed.

  Lemma evok_EvP y s s2 e : good d stop y s2 -> evok stop y s s2 e -> EvP y s s2 e.
  Proof.
    intros G (A1 & A2 & A3). split; [exact A1|split; [|exact A3]].
    intros n k H. destruct (A2 n k H) as (E1 & E2 & E3). split; [exact E1|]. intros Hs. subst k.
    apply (done_cycle y s2 G E3 Hs).
  Qed.
End Events.

(* ------------------------------------------------------------------ one real handler = micro-steps *)
Section Loop.
  Variable d : dcop.
  Variable stop thr favor : Z.
  Notation nbr := (nbrs d).
  Notation InvA := (InvA d stop).
  Notation loop := (loop d stop thr favor).
  Notation mstep := (mstep d stop thr favor).

  (* the micro-step lemmas (P_Mgm2sV/O/A/G) and the factorisation of the handlers (P_Mgm2f) *)
  Lemma step_any : forall rn S pd, InvA rn S pd -> forall y x m l1 l2,
    rn y = true -> pd x y = l1 ++ m :: l2 -> kind_of m = t_state (S y) ->
    step_ok d stop thr favor rn S pd y x m l1 l2.
  Proof.
    intros rn S pd HI y x m l1 l2 Ry Hp Hk. destruct m; simpl in Hk; symmetry in Hk.
    - apply step_V; assumption.
    - apply step_G; assumption.
    - apply step_O; assumption.
    - apply step_A; assumption.
    - apply step_Go; assumption.
  Qed.
  Definition on_msg_factor := on_msg_factor' d stop thr favor.

  Variable rn : node -> bool.
  Variable S0 : node -> m2st.
  Variable y : node.
  Hypothesis Ry : rn y = true.
  Hypothesis Hact : nbr y <> [].

  (* [base]: all bags, without the postponed lists of y *)
  Definition pdV (base : node -> node -> list m2msg) (s : m2st) (o : list (node * m2msg)) : node -> node -> list m2msg :=
    fun a b => if a =? y then base a b ++ to_y2 b o
               else if b =? y then base a y ++ to_y2 a (allposts s) else base a b.
  Definition VInv (base : node -> node -> list m2msg) (s : m2st) (o : list (node * m2msg)) : Prop :=
    InvA rn (updS S0 y s) (pdV base s o) /\ kinds_ok s /\ ~ In y (map fst (allposts s)).

  Lemma VInv_good base s o : VInv base s o -> good d stop y s.
  Proof. intros [HI _]. pose proof (i_good _ _ _ _ _ HI y Ry Hact) as G. rewrite updS_same in G. exact G. Qed.

  Lemma to_y2_nil_notin a (l : list (Z * m2msg)) : ~ In a (map fst l) -> to_y2 a l = [].
  Proof.
    unfold to_y2. induction l as [|[b m] r IH]; simpl; intros H; [reflexivity|].
    destruct (Z.eqb_spec b a) as [->|Hne]; [exfalso; apply H; left; reflexivity|]. apply IH. intros Hc. apply H. right. exact Hc.
  Qed.

  (* after a micro-step that left state [st], nothing of kind [st] is postponed any more *)
  Lemma drained base s o st : VInv base s o -> 1 <= st <= 5 ->
    (forall x', In x' (nbr y) -> cnt st (pdV base s o x' y) = 0) -> get_post s st = [].
  Proof.
    intros (HI & HK & HS) Hst H0. destruct (get_post s st) as [|[x m] r] eqn:E; [reflexivity|exfalso].
    pose proof (kinds_get s st Hst HK) as F. rewrite E in F. apply Forall_inv in F. simpl in F.
    destruct (allposts_split s st Hst) as (A & B & EA & _). rewrite E in EA.
    assert (Hne : x <> y).
    { intros ->. apply HS. rewrite EA, !map_app. apply in_or_app. right. apply in_or_app. left. left. reflexivity. }
    assert (Hin : In m (pdV base s o x y)).
    { unfold pdV. apply Z.eqb_neq in Hne. rewrite Hne, Z.eqb_refl. apply in_or_app. right.
      rewrite EA, !to_y2_app. apply in_or_app. right. apply in_or_app. left.
      unfold to_y2. simpl. rewrite Z.eqb_refl. left. reflexivity. }
    destruct (in_dec Z.eq_dec x (nbr y)) as [Hx|Hx].
    - pose proof (in_cnt_pos _ _ Hin) as Hc. rewrite F, (H0 x Hx) in Hc. lia.
    - rewrite (i_far _ _ _ _ _ HI x y Hx) in Hin. destruct Hin.
  Qed.

  Definition noself (s : m2st) : Prop := ~ In y (map fst (allposts s)).

  (* one micro-step inside a handler execution: the consumed message is somewhere in bag (x, y) *)
  Lemma micro base base' s o x m l1 l2 s1 :
    VInv base s o -> pdV base s o x y = l1 ++ m :: l2 -> kind_of m = t_state s ->
    skel s1 = skel s -> kinds_ok s1 -> noself s1 ->
    (forall a b, b <> y \/ a = y -> base' a b = base a b) ->
    (forall a, a <> y -> (if a =? x then l1 ++ l2 else pdV base s o a y) = base' a y ++ to_y2 a (allposts s1)) ->
    forall s2 o2 e2, mstep y s1 x m = (s2, o2, e2) ->
      VInv base' s2 (o ++ o2) /\ EvP stop y s s2 e2 /\ posts s2 = posts s1 /\
      (t_state s2 <> t_state s -> get_post s2 (t_state s) = []).
  Proof.
    intros (HI & HK & HS) Hp Hk Hsk HK1 HS1 Hb' Hbag s2 o2 e2 Hm.
    assert (Kst : t_state s1 = t_state s) by (unfold skel in Hsk; injection Hsk; auto).
    assert (Kfin : t_fin s1 = t_fin s) by (unfold skel in Hsk; injection Hsk; auto).
    assert (HI1 : InvA rn (updS S0 y s1) (pdV base s o)).
    { apply (InvA_ext d stop rn rn (updS S0 y s) (updS S0 y s1) (pdV base s o) (pdV base s o)); auto.
      intros n0. unfold updS. destruct (n0 =? y); [exact Hsk|reflexivity]. }
    assert (Hxy : In x (nbr y)) by (apply (pending_nbr d stop rn _ _ HI1 x y l1 m l2 Hp)).
    assert (Hne : x <> y) by (intros ->; eapply nbrs_irrefl; eauto).
    pose proof (step_any rn _ _ HI1 y x m l1 l2 Ry Hp) as Hstep. unfold step_ok in Hstep. rewrite !updS_same in Hstep.
    rewrite Kst in Hstep. specialize (Hstep Hk s2 o2 e2 Hm).
    destruct Hstep as (HI2 & Hev & Hpo & Hdr).
    assert (Hbags : forall a b, pdV base' s2 (o ++ o2) a b = pd_step (pdV base s o) x y (l1 ++ l2) o2 a b).
    { intros a b. unfold pd_step. destruct (Z.eqb_spec a y) as [->|Ha].
      - unfold pdV. rewrite Z.eqb_refl. rewrite to_y2_app, app_assoc, Hb' by (right; reflexivity). reflexivity.
      - destruct (Z.eqb_spec b y) as [->|Hb].
        + rewrite andb_true_r. specialize (Hbag a Ha). unfold pdV at 1. apply Z.eqb_neq in Ha. rewrite Ha, Z.eqb_refl.
          rewrite (posts_allposts _ _ Hpo). symmetry. exact Hbag.
        + rewrite andb_false_r. unfold pdV. rewrite Hb' by (left; exact Hb). apply Z.eqb_neq in Ha, Hb. rewrite Ha, Hb. reflexivity. }
    assert (HV2 : VInv base' s2 (o ++ o2)).
    { split; [|split].
      - apply (InvA_ext d stop rn rn (updS (updS S0 y s1) y s2) (updS S0 y s2) (pd_step (pdV base s o) x y (l1 ++ l2) o2) (pdV base' s2 (o ++ o2))); auto.
        intros n0. unfold updS. destruct (n0 =? y); reflexivity.
      - apply (posts_kinds _ _ Hpo HK1).
      - unfold noself in *. rewrite (posts_allposts _ _ Hpo). exact HS1. }
    split; [exact HV2|]. split; [|split; [exact Hpo|]].
    - destruct (evok_EvP d stop y s1 s2 e2 (VInv_good _ _ _ HV2) Hev) as (E1 & E2 & E3).
      split; [exact E1|split; [exact E2|rewrite <- Kfin; exact E3]].
    - intros Hc. specialize (Hdr Hc).
      apply (drained base' s2 (o ++ o2) (t_state s) HV2).
      + pose proof (g_k _ _ _ _ (VInv_good base _ _ (conj HI (conj HK HS)))). assumption.
      + intros x' Hx'. rewrite Hbags. apply Hdr. exact Hx'.
  Qed.

  Definition LoopPost (base : node -> node -> list m2msg) (s : m2st) (o : list (node * m2msg)) (r : res2) : Prop :=
    VInv base (fst (fst r)) (o ++ snd (fst r)) /\ get_post (fst (fst r)) (t_state (fst (fst r))) = [] /\
    (length (allposts (fst (fst r))) <= length (allposts s))%nat /\
    (forall k, 1 <= k <= 5 -> get_post s k = [] -> get_post (fst (fst r)) k = []) /\
    EvP stop y s (fst (fst r)) (snd r).

  Lemma LoopPost_then base s o s2 o2 e2 r :
    (length (allposts s2) <= length (allposts s))%nat ->
    (forall k, 1 <= k <= 5 -> get_post s k = [] -> get_post s2 k = []) ->
    EvP stop y s s2 e2 -> LoopPost base s2 (o ++ o2) r ->
    LoopPost base s o (let '(s', o', e') := r in (s', o2 ++ o', e2 ++ e')).
  Proof.
    intros Hl Hk He. destruct r as [[s' o'] e']. unfold LoopPost. simpl.
    intros (A1 & A2 & A3 & A4 & A5). rewrite app_assoc. split; [exact A1|split; [exact A2|split; [lia|split]]].
    - intros k Hk1 Hk2. apply A4; [exact Hk1|]. apply Hk; assumption.
    - eapply EvP_app; eassumption.
  Qed.

  Lemma loop_ok base : forall f st s o, VInv base s o -> 1 <= st <= 5 ->
    (t_state s = st \/ (get_post s st = [] /\ get_post s (t_state s) = [])) ->
    (2 * length (allposts s) <= f)%nat -> LoopPost base s o (loop y f st s).
  Proof.
    induction f as [f IH] using lt_wf_ind. intros st s o HV Hst Hdis Hfuel.
    rewrite loop_eq. pose proof (pop_last_spec (get_post s st)) as Hpop.
    destruct (pop_last (get_post s st)) as [[rest [x m]]|].
    - assert (Hts : t_state s = st).
      { destruct Hdis as [H|[H _]]; [exact H|]. rewrite H in Hpop. destruct rest; discriminate. }
      destruct HV as (HI & HK & HS).
      destruct (allposts_split s st Hst) as (A & B & EA & ES). rewrite Hpop in EA.
      assert (Hlen : length (allposts s) = S (length (A ++ rest ++ B))).
      { rewrite EA, !app_length. simpl. lia. }
      destruct f as [|[|f2]]; [lia|lia|].
      pose proof (kinds_get s st Hst HK) as HF. rewrite Hpop in HF. apply Forall_app in HF as [HFr HFm].
      apply Forall_inv in HFm. simpl in HFm.
      assert (Hxy : x <> y).
      { intros ->. apply HS. rewrite EA, !map_app. apply in_or_app. right. apply in_or_app. left.
        apply in_or_app. right. left. reflexivity. }
      set (s1 := set_post s st rest).
      assert (EA1 : allposts s1 = A ++ rest ++ B) by apply ES.
      rewrite on_msg_factor. cbv zeta.
      destruct (mstep y s1 x m) as [[s2 o2] e2] eqn:Hm. simpl fst.
      destruct (micro base base s o x m (base x y ++ to_y2 x (A ++ rest)) (to_y2 x B) s1 (conj HI (conj HK HS))) with (s2 := s2) (o2 := o2) (e2 := e2)
        as (HV2 & Ev2 & Hpo & Hdr).
      { unfold pdV. apply Z.eqb_neq in Hxy. rewrite Hxy, Z.eqb_refl. rewrite EA.
        rewrite !to_y2_app, to_y2_single, Z.eqb_refl. rewrite <- !app_assoc. reflexivity. }
      { rewrite Hts. exact HFm. }
      { apply skel_set_post. }
      { apply kinds_set; assumption. }
      { unfold noself. rewrite EA1. intros Hc. apply HS. rewrite EA. rewrite !map_app in *.
        apply in_app_or in Hc as [Hc|Hc]; [apply in_or_app; left; exact Hc|].
        apply in_or_app. right. apply in_app_or in Hc as [Hc|Hc]; apply in_or_app; [left; apply in_or_app; left; exact Hc|right; exact Hc]. }
      { reflexivity. }
      { intros a Ha. rewrite EA1. destruct (Z.eqb_spec a x) as [->|Hax].
        - rewrite !to_y2_app, <- !app_assoc. reflexivity.
        - unfold pdV. apply Z.eqb_neq in Ha. rewrite Ha, Z.eqb_refl. rewrite EA.
          rewrite !to_y2_app, to_y2_single. assert (Hxa : (x =? a) = false) by (apply Z.eqb_neq; congruence).
          rewrite Hxa. rewrite app_nil_r. reflexivity. }
      { exact Hm. }
      assert (Kst1 : t_state s1 = st) by (unfold s1; pose proof (skel_set_post s st rest) as K; unfold skel in K; injection K; intros; congruence).
      assert (Hl2 : length (allposts s2) = length (A ++ rest ++ B)) by (rewrite (posts_allposts _ _ Hpo), EA1; reflexivity).
      assert (Hk2 : forall k, 1 <= k <= 5 -> get_post s k = [] -> get_post s2 k = []).
      { intros k Hk Hk0. rewrite (posts_get _ _ k Hpo). unfold s1. destruct (Z.eq_dec k st) as [->|Hne].
        - rewrite Hpop in Hk0. destruct rest; discriminate.
        - rewrite get_set_post_other; assumption. }
      rewrite Kst1. destruct (Z.eqb_spec (t_state s2) st) as [Heq|Hneq].
      + (* the message was filed, same state: go on popping *)
        apply (LoopPost_then base s o s2 o2 e2); [lia|exact Hk2|exact Ev2|].
        apply IH; [lia|exact HV2|exact Hst|left; exact Heq|lia].
      + (* a phase completed: the nested _enter_state first, then back to this loop *)
        rewrite andthen2_assoc.
        apply (LoopPost_then base s o s2 o2 e2); [lia|exact Hk2|exact Ev2|].
        pose proof (g_k _ _ _ _ (VInv_good _ _ _ HV2)) as Hk2st.
        pose proof (IH f2 ltac:(lia) (t_state s2) s2 (o ++ o2) HV2 Hk2st (or_introl eq_refl) ltac:(lia)) as Hin.
        destruct (loop y f2 (t_state s2) s2) as [[s3 o3] e3]. unfold LoopPost in Hin. simpl in Hin.
        destruct Hin as (B1 & B2 & B3 & B4 & B5).
        assert (Hd2 : get_post s2 st = []) by (rewrite <- Hts; apply Hdr; rewrite Hts; exact Hneq).
        change (LoopPost base s2 (o ++ o2) (let '(s', o', e') := loop y (S f2) st s3 in (s', o3 ++ o', e3 ++ e'))).
        apply (LoopPost_then base s2 (o ++ o2) s3 o3 e3); [exact B3|exact B4|exact B5|].
        apply IH; [lia|exact B1|exact Hst|right; split; [apply B4; assumption|exact B2]|lia].
    - (* nothing postponed for this state *)
      unfold LoopPost, ret2. cbn [fst snd]. rewrite app_nil_r. split; [exact HV|]. split.
      + destruct Hdis as [<-|[_ H]]; [exact Hpop|exact H].
      + split; [lia|]. split; [auto|]. apply EvP_nil. reflexivity.
  Qed.

  (* a whole handler execution on a message of the awaited kind taken from the head of a channel *)
  Lemma recv_ok base base' s0 x m q f :
    VInv base s0 [] -> get_post s0 (t_state s0) = [] -> base x y = m :: q -> kind_of m = t_state s0 ->
    (forall a b, base' a b = if (a =? x) && (b =? y) then q else base a b) ->
    (2 * length (allposts s0) <= f)%nat ->
    LoopPost base' s0 [] (on_msg d stop thr favor y (enter d stop thr favor y (S f)) s0 x m).
  Proof.
    intros HV Hrest Hb Hk Hb' Hfuel.
    assert (Hxy : In x (nbr y)).
    { destruct HV as (HI & _). destruct (in_dec Z.eq_dec x (nbr y)) as [H|H]; [exact H|exfalso].
      pose proof (i_far _ _ _ _ _ HI x y H) as Hf. unfold pdV in Hf.
      destruct (Z.eqb_spec x y) as [->|Hne].
      - rewrite Hb in Hf. discriminate.
      - rewrite Z.eqb_refl, Hb in Hf. discriminate. }
    assert (Hne : x <> y) by (intros ->; eapply nbrs_irrefl; eauto).
    rewrite on_msg_factor. cbv zeta.
    destruct (mstep y s0 x m) as [[s2 o2] e2] eqn:Hm. simpl fst.
    destruct (micro base base' s0 [] x m [] (q ++ to_y2 x (allposts s0)) s0 HV) with (s2 := s2) (o2 := o2) (e2 := e2)
      as (HV2 & Ev2 & Hpo & Hdr); try reflexivity; try assumption.
    { unfold pdV. apply Z.eqb_neq in Hne. rewrite Hne, Z.eqb_refl, Hb. reflexivity. }
    { apply HV. }
    { apply HV. }
    { intros a b [Hb0|Ha]; rewrite Hb'.
      - apply Z.eqb_neq in Hb0. rewrite Hb0, andb_false_r. reflexivity.
      - subst a. assert (E : (y =? x) = false) by (apply Z.eqb_neq; congruence). rewrite E. reflexivity. }
    { intros a Ha. rewrite Hb', Z.eqb_refl, andb_true_r. destruct (Z.eqb_spec a x) as [->|Hax]; [reflexivity|].
      unfold pdV. apply Z.eqb_neq in Ha. rewrite Ha, Z.eqb_refl. reflexivity. }
    simpl app in HV2.
    destruct (Z.eqb_spec (t_state s2) (t_state s0)) as [Heq|Hneq].
    - unfold LoopPost. simpl. split; [exact HV2|]. split; [rewrite (posts_get _ _ _ Hpo), Heq; exact Hrest|].
      split; [rewrite (posts_allposts _ _ Hpo); lia|]. split; [|exact Ev2].
      intros k _ Hk0. rewrite (posts_get _ _ _ Hpo). exact Hk0.
    - change (LoopPost base' s0 [] (let '(s', o', e') := loop y f (t_state s2) s2 in (s', o2 ++ o', e2 ++ e'))).
      apply (LoopPost_then base' s0 [] s2 o2 e2); [rewrite (posts_allposts _ _ Hpo); lia| |exact Ev2|].
      + intros k _ Hk0. rewrite (posts_get _ _ _ Hpo). exact Hk0.
      + apply loop_ok; [exact HV2|apply (g_k _ _ _ _ (VInv_good _ _ _ HV2))|left; reflexivity|rewrite (posts_allposts _ _ Hpo); lia].
  Qed.
End Loop.

(* ------------------------------------------------------------------ Net.v helpers for m2msg *)
Lemma send_all_spec2 outs : forall (c : node -> node -> list m2msg) src x y,
  send_all c src outs x y = if Z.eqb x src then c x y ++ to_y2 y outs else c x y.
Proof.
  induction outs as [|[t m] r IH]; intros c src x y; simpl.
  - unfold to_y2; simpl. rewrite app_nil_r. destruct (Z.eqb x src); auto.
  - rewrite IH. unfold upd_chan, to_y2. simpl.
    destruct (Z.eqb x src) eqn:Ex; simpl; [|reflexivity].
    rewrite (Z.eqb_sym t y).
    destruct (Z.eqb y t) eqn:Ey; simpl.
    + apply Z.eqb_eq in Ex. apply Z.eqb_eq in Ey. subst. rewrite <- app_assoc. reflexivity.
    + reflexivity.
Qed.

Lemma reinject_all_spec2 l : forall (c : node -> node -> list m2msg) dst x y,
  reinject_all c dst l x y = if Z.eqb y dst then to_y2 x l ++ c x y else c x y.
Proof.
  induction l as [|[s0 m] r IH]; intros c dst x y; simpl.
  - unfold to_y2; simpl. destruct (Z.eqb y dst); auto.
  - unfold upd_chan. rewrite !IH. unfold to_y2. simpl.
    rewrite (Z.eqb_sym s0 x).
    destruct (Z.eqb x s0) eqn:Ex; simpl.
    + apply Z.eqb_eq in Ex; subst.
      destruct (Z.eqb y dst) eqn:Ey; simpl.
      * apply Z.eqb_eq in Ey; subst. rewrite Z.eqb_refl. reflexivity.
      * reflexivity.
    + destruct (Z.eqb y dst); reflexivity.
Qed.

Lemma len_kinds (l : list m2msg) : Z.of_nat (length l) = cnt 1 l + cnt 2 l + cnt 3 l + cnt 4 l + cnt 5 l.
Proof.
  induction l as [|m r IH]; [reflexivity|]. rewrite !cnt_cons. simpl length. rewrite Nat2Z.inj_succ, IH.
  destruct m; cbn [kind_of b2z Z.eqb Pos.eqb]; lia.
Qed.

Fixpoint sum_by (L : list Z) (l : list (Z * m2msg)) : nat :=
  match L with [] => 0%nat | x :: r => (length (to_y2 x l) + sum_by r l)%nat end.

Lemma sum_by_cons L a m l : NoDup L -> sum_by L ((a, m) :: l) = ((if zmem a L then 1 else 0) + sum_by L l)%nat.
Proof.
  induction L as [|x r IH]; intros Hnd; [reflexivity|].
  inversion Hnd as [|? ? Hn Hnd']; subst.
  simpl sum_by. rewrite (IH Hnd'). unfold to_y2 at 1. simpl.
  unfold zmem. simpl. rewrite (Z.eqb_sym a x).
  destruct (Z.eqb_spec x a) as [->|Hne]; simpl.
  - fold (zmem a r). destruct (zmem a r) eqn:E; [apply zmem_In in E; contradiction|]. unfold to_y2. lia.
  - fold (zmem a r). unfold to_y2. lia.
Qed.

Lemma len_by_sender L (l : list (Z * m2msg)) : NoDup L -> (forall p, In p l -> In (fst p) L) -> length l = sum_by L l.
Proof.
  intros Hnd. induction l as [|[a m] r IH]; intros Hin.
  - clear Hin. induction L; simpl; [reflexivity|]. inversion Hnd; subst. rewrite <- IHL; auto.
  - rewrite (sum_by_cons L a m r Hnd).
    assert (Ha : zmem a L = true) by (apply zmem_In; apply (Hin (a, m)); left; reflexivity).
    rewrite Ha. simpl. f_equal. apply IH. intros p Hp. apply Hin. right. exact Hp.
Qed.

Lemma sum_by_bound L l c : (forall x, In x L -> (length (to_y2 x l) <= c)%nat) -> (sum_by L l <= c * length L)%nat.
Proof.
  induction L as [|x r IH]; intros H; simpl; [lia|].
  pose proof (H x (or_introl eq_refl)). specialize (IH (fun z Hz => H z (or_intror Hz))). lia.
Qed.

(* ================================================================== the real network *)
Section Global.
  Variable d : dcop.
  Variable stop thr favor : Z.
  Variable orc : node -> list Z.
  Variable fuel : nat.
  Notation nbr := (nbrs d).
  Notation P := (mgm2_proto_f d stop thr favor orc fuel).
  Notation config := (config m2st m2msg).
  Notation InvA := (InvA d stop).
  Notation doneb := (P_Mgm2x.doneb stop).

  (* enough fuel for the nested re-dispatch: the real code has none *)
  Definition fuel_ok : Prop := forall n, (10 * length (nbr n) + 2 <= fuel)%nat.
  Hypothesis Hfuel : fuel_ok.

  Definition st (cf : config) (n : node) : m2st := w_st (nodes cf n).
  Definition rnc (cf : config) (n : node) : bool := w_running (nodes cf n).
  (* everything x has sent to y and y has not consumed yet *)
  Definition pend (cf : config) (x y : node) : list m2msg :=
    to_y2 x (w_held (nodes cf y)) ++ chan cf x y ++ to_y2 x (allposts (st cf y)).

  Record InvC (cf : config) : Prop := {
    c_inv : InvA (rnc cf) (st cf) (pend cf);
    c_held : forall n, rnc cf n = true -> w_held (nodes cf n) = [];
    c_idle : forall n, rnc cf n = false -> st cf n = mgm2_init orc n;
    c_kinds : forall n, kinds_ok (st cf n);
    c_noself : forall n, ~ In n (map fst (allposts (st cf n)));
    c_rest : forall n, rnc cf n = true -> nbr n <> [] -> get_post (st cf n) (t_state (st cf n)) = []
  }.

  Lemma cnt_le1 cf x y k : InvC cf -> rnc cf y = true -> In x (nbr y) -> cnt k (pend cf x y) <= 1.
  Proof.
    intros HC Ry Hxy. pose proof (c_inv cf HC) as HI. pose proof (i_pair _ _ _ _ _ HI x y Hxy) as Pxy.
    pose proof (i_good _ _ _ _ _ HI y Ry (act_of d x y Hxy)) as Gy.
    pose proof (g_c _ _ _ _ Gy) as Cy.
    pose proof (cnt_nonneg k (pend cf x y)) as Hn.
    assert (Hk : k = 1 \/ k = 2 \/ k = 3 \/ k = 4 \/ k = 5 \/ (k < 1 \/ 5 < k)) by lia.
    destruct (rnc cf x) eqn:Rx.
    - destruct (pos_facts d stop _ _ _ HI x y Hxy Rx Ry) as (Q1 & Q2 & _).
      destruct (tabf d stop y _ x Gy Hxy) as (T1 & _ & T3 & _ & _ & _ & _ & _).
      pose proof (b2z_leb 2 (t_state (st cf x))) as B2. pose proof (b2z_leb 4 (t_state (st cf x))) as B4.
      pose proof (i_good _ _ _ _ _ HI x Rx (act_of d y x (nbrs_sym d y x Hxy))) as Gx.
      pose proof (b2z_range (doneb (t_cycle (st cf x)))) as Fx. rewrite <- (g_fin _ _ _ _ Gx) in Fx.
      destruct Hk as [->|[->|[->|[->|[->|Hk]]]]].
      + pose proof (p_V _ _ _ _ _ Pxy) as E. unfold CV, SV in E. rewrite Rx, Ry in E.
        pose proof (b2z_range (kinv x (t_nv (st cf y)))).
        destruct (Z.eq_dec (t_cycle (st cf x)) (t_cycle (st cf y) + 1)) as [Ec|Ec].
        * destruct (Q2 Ec) as (_ & K4 & _). specialize (T1 ltac:(clear - K4; lia)). clear - E Ec T1 Fx. lia.
        * clear - E Q1 Ec Fx H. lia.
      + pose proof (p_O _ _ _ _ _ Pxy) as E. unfold CO, SO in E. rewrite Rx, Ry in E.
        pose proof (b2z_range (kino x (t_offers (st cf y)))). pose proof (b2z_range (2 <=? t_state (st cf x))).
        destruct (Z.eq_dec (t_cycle (st cf x)) (t_cycle (st cf y) + 1)) as [Ec|Ec].
        * destruct (Q2 Ec) as (K1 & K4 & _). specialize (T3 ltac:(clear - K4; lia)). clear - E Ec T3 K1 B2. lia.
        * clear - E Q1 Ec H H0. lia.
      + destruct (Z_le_gt_dec (cnt 3 (pend cf x y)) 1) as [H|H]; [lia|exfalso].
        assert (Hnot : ~ (expA (st cf) y x /\ 3 <= t_state (st cf x))).
        { intros [A B]. rewrite (p_A1 _ _ _ _ _ Pxy A B) in H. lia. }
        rewrite (p_A0 _ _ _ _ _ Pxy Hnot) in H. lia.
      + pose proof (p_G _ _ _ _ _ Pxy) as E. unfold CG, SG in E. rewrite Rx, Ry in E.
        pose proof (b2z_range (kinv x (t_ng (st cf y)))). pose proof (b2z_range (4 <=? t_state (st cf x))).
        destruct (Z.eq_dec (t_cycle (st cf x)) (t_cycle (st cf y) + 1)) as [Ec|Ec].
        * destruct (Q2 Ec) as (K1 & _ & _). clear - E Ec K1 B4 H. lia.
        * clear - E Q1 Ec H H0. lia.
      + destruct (Z_le_gt_dec (cnt 5 (pend cf x y)) 1) as [H|H]; [lia|exfalso].
        assert (Hnot : ~ (expG (st cf) y x /\ sentGo (st cf) x y)).
        { intros [A B]. rewrite (p_Go1 _ _ _ _ _ Pxy A B) in H. lia. }
        rewrite (p_Go0 _ _ _ _ _ Pxy Hnot) in H. lia.
      + assert (cnt k (pend cf x y) = 0); [|lia].
        unfold cnt. assert (E : filter (fun m => kind_of m =? k) (pend cf x y) = []); [|rewrite E; reflexivity].
        clear Hn. induction (pend cf x y) as [|m r IHr]; [reflexivity|]. simpl.
        assert (Hm : (kind_of m =? k) = false) by (apply Z.eqb_neq; destruct m; simpl; lia). rewrite Hm. exact IHr.
    - (* x not started: it has sent nothing *)
      assert (Hall : forall m, In m (pend cf x y) -> False).
      { intros m Hm. pose proof (in_cnt_pos _ _ Hm) as Hp.
        pose proof (idle_tabf (st cf x) y (i_idle _ _ _ _ _ HI x Rx)) as (T1 & T2 & T3 & _ & _ & _ & T7 & T8 & T9 & _).
        destruct m; simpl in Hp.
        - pose proof (p_V _ _ _ _ _ Pxy) as E. unfold CV, SV in E. rewrite Rx, Ry in E.
          pose proof (b2z_range (kinv x (t_nv (st cf y)))). clear - E Hp Cy H. lia.
        - pose proof (p_G _ _ _ _ _ Pxy) as E. unfold CG, SG in E. rewrite Rx, Ry in E.
          pose proof (b2z_range (kinv x (t_ng (st cf y)))). clear - E Hp Cy H. lia.
        - pose proof (p_O _ _ _ _ _ Pxy) as E. unfold CO, SO in E. rewrite Rx, Ry in E.
          pose proof (b2z_range (kino x (t_offers (st cf y)))). clear - E Hp Cy H. lia.
        - rewrite (p_A0 _ _ _ _ _ Pxy) in Hp; [lia|]. intros [_ B]. rewrite T1 in B. lia.
        - rewrite (p_Go0 _ _ _ _ _ Pxy) in Hp; [lia|]. intros [_ [[_ B]|B]]; [rewrite T1 in B; lia|rewrite T2 in B; lia]. }
      destruct (pend cf x y) as [|m r]; [rewrite cnt_nil; lia|]. exfalso. apply (Hall m). left. reflexivity.
  Qed.

  Lemma tp_bound cf y : InvC cf -> rnc cf y = true -> nbr y <> [] ->
    (length (allposts (st cf y)) <= 5 * length (nbr y))%nat.
  Proof.
    intros HC Ry Hact. pose proof (c_inv cf HC) as HI.
    assert (Hs : forall p, In p (allposts (st cf y)) -> In (fst p) (nbr y)).
    { intros [x m] Hp. simpl. destruct (in_dec Z.eq_dec x (nbr y)) as [H|H]; [exact H|exfalso].
      pose proof (i_far _ _ _ _ _ HI x y H) as Hf. unfold pend in Hf.
      apply app_eq_nil in Hf as [_ Hf]. apply app_eq_nil in Hf as [_ Hf].
      assert (Hin : In m (to_y2 x (allposts (st cf y)))).
      { unfold to_y2. apply in_map_iff. exists (x, m). split; [reflexivity|]. apply filter_In. split; [exact Hp|simpl; apply Z.eqb_refl]. }
      rewrite Hf in Hin. exact Hin. }
    rewrite (len_by_sender (nbr y) _ (nbrs_nodup d y) Hs).
    apply sum_by_bound. intros x Hx.
    assert (Hle : (length (to_y2 x (allposts (st cf y))) <= length (pend cf x y))%nat).
    { unfold pend. rewrite !app_length. lia. }
    pose proof (len_kinds (pend cf x y)) as Hk.
    pose proof (cnt_le1 cf x y 1 HC Ry Hx). pose proof (cnt_le1 cf x y 2 HC Ry Hx). pose proof (cnt_le1 cf x y 3 HC Ry Hx).
    pose proof (cnt_le1 cf x y 4 HC Ry Hx). pose proof (cnt_le1 cf x y 5 HC Ry Hx). lia.
  Qed.

  Lemma inv_init : InvC (init P).
  Proof.
    constructor; unfold rnc, st, pend; simpl; try (intros; reflexivity || discriminate).
    - constructor; simpl.
      + intros n _. reflexivity.
      + intros n Hn. discriminate.
      + intros n Hn. discriminate.
      + intros x y _. constructor; unfold SV, CV, SO, CO, SG, CG, expA, expG, link; simpl; try reflexivity;
          try (intros; discriminate); try (intros [H _]; discriminate H); try (intros ? ? []); try (intros ? ? ? []).
        * intros [].
        * intros [].
      + intros x y _. reflexivity.
    - intros n. unfold kinds_ok. simpl. auto.
    - intros n [].
  Qed.

  Notation fin_cycle := (P_Mgm3c.fin_cycle d stop).
  Definition StepEv (cf cf' : config) (e : list mev) : Prop :=
    noerr e /\ (forall n k, In (EvFinished n k) e -> 0 <= stop -> k = fin_cycle n) /\
    (forall x, t_fin (st cf' x) = t_fin (st cf x) + Z.of_nat (count_fin x e)).

  Lemma count_fin_other y x e : (forall n k, In (EvFinished n k) e -> n = y) -> x <> y -> count_fin x e = 0%nat.
  Proof.
    intros H Hne. induction e as [|ev r IH]; [reflexivity|].
    assert (IH' : count_fin x r = 0%nat) by (apply IH; intros n k Hn; apply (H n k); right; exact Hn).
    destruct ev; simpl; try exact IH'.
    assert (n = y) by (apply (H n k); left; reflexivity). subst n.
    assert (E : (y =? x) = false) by (apply Z.eqb_neq; congruence). rewrite E. simpl. exact IH'.
  Qed.

  Lemma fin_cycle_active n : nbr n <> [] -> fin_cycle n = stop.
  Proof. unfold P_Mgm3c.fin_cycle. destruct (nbr n); [congruence|reflexivity]. Qed.

  Ltac bag_cnt := intros; rewrite ?cnt_app, ?cnt_nil; lia.
  Ltac bag_in := intros ?; rewrite ?in_app_iff; simpl; tauto.

  (* ---------------------------------------------------------------- a message reaches a computation not yet started *)
  Lemma inv_hold cf s d0 m q : InvC cf -> chan cf s d0 = m :: q -> rnc cf d0 = false ->
    InvC (mkConfig (upd_node (nodes cf) d0 (mkWrap false (w_held (nodes cf d0) ++ [(s, m)]) (w_st (nodes cf d0))))
                   (upd_chan (chan cf) s d0 q)).
  Proof.
    intros HC Hch Rd. set (cf' := mkConfig _ _).
    assert (Hst : forall n, st cf' n = st cf n).
    { intros n. unfold st, cf', upd_node. simpl. destruct (n =? d0) eqn:E; [apply Z.eqb_eq in E; subst; reflexivity|reflexivity]. }
    assert (Hrn : forall n, rnc cf' n = rnc cf n).
    { intros n. unfold rnc, cf', upd_node. simpl. destruct (n =? d0) eqn:E; [apply Z.eqb_eq in E; subst; simpl; symmetry; exact Rd|reflexivity]. }
    assert (Hpd : forall a b, pend cf' a b = pend cf a b).
    { intros a b. unfold pend. rewrite Hst. unfold cf', upd_node, upd_chan. simpl.
      destruct (Z.eqb_spec b d0) as [->|Hb].
      - simpl. rewrite to_y2_app, to_y2_single. destruct (Z.eqb_spec a s) as [->|Ha].
        + rewrite !Z.eqb_refl. simpl. rewrite Hch, <- !app_assoc. reflexivity.
        + assert (E : (s =? a) = false) by (apply Z.eqb_neq; congruence). rewrite E, andb_false_l, app_nil_r. reflexivity.
      - rewrite andb_false_r. reflexivity. }
    destruct HC as [C1 C2 C3 C4 C5 C6]. constructor.
    - apply (InvA_ext d stop (rnc cf) (rnc cf') (st cf) (st cf') (pend cf) (pend cf')); auto.
      intros n. rewrite Hst. reflexivity.
    - intros n Hn. rewrite Hrn in Hn. unfold cf', upd_node. simpl.
      destruct (Z.eqb_spec n d0) as [->|Hne]; [congruence|apply C2; exact Hn].
    - intros n Hn. rewrite Hrn in Hn. rewrite Hst. apply C3. exact Hn.
    - intros n. rewrite Hst. apply C4.
    - intros n. rewrite Hst. apply C5.
    - intros n Hn Ha. rewrite Hrn in Hn. rewrite Hst. apply C6; assumption.
  Qed.

  (* ---------------------------------------------------------------- a message reaches a running computation *)
  Definition baseR (cf : config) (d0 : node) : node -> node -> list m2msg :=
    fun a b => if b =? d0 then chan cf a d0 else pend cf a b.
  Definition baseR' (cf : config) (s d0 : node) (q : list m2msg) : node -> node -> list m2msg :=
    fun a b => if (a =? s) && (b =? d0) then q else baseR cf d0 a b.

  Lemma VInv_of_InvC cf d0 : InvC cf -> rnc cf d0 = true ->
    VInv d stop (rnc cf) (st cf) d0 (baseR cf d0) (st cf d0) [].
  Proof.
    intros [C1 C2 C3 C4 C5 C6] Rd. split; [|split; [apply C4|apply C5]].
    apply (InvA_ext d stop (rnc cf) (rnc cf) (st cf) _ (pend cf) _); auto.
    - intros n. unfold updS. destruct (Z.eqb_spec n d0) as [->|]; reflexivity.
    - intros a b. unfold pdV, baseR, pend.
      destruct (Z.eqb_spec a d0) as [->|Ha].
      + simpl. rewrite app_nil_r. destruct (Z.eqb_spec b d0) as [->|Hb]; [|reflexivity].
        rewrite ?Z.eqb_refl, (C2 d0 Rd), (to_y2_nil_notin d0 _ (C5 d0)), app_nil_r. reflexivity.
      + destruct (Z.eqb_spec b d0) as [->|Hb]; [rewrite ?Z.eqb_refl, (C2 d0 Rd)|]; reflexivity.
  Qed.

  Lemma recv_finish cf s d0 m q st' outs :
    InvC cf -> chan cf s d0 = m :: q -> rnc cf d0 = true -> s <> d0 ->
    VInv d stop (rnc cf) (st cf) d0 (baseR' cf s d0 q) st' outs -> get_post st' (t_state st') = [] ->
    InvC (mkConfig (upd_node (nodes cf) d0 (mkWrap true (w_held (nodes cf d0)) st'))
                   (send_all (upd_chan (chan cf) s d0 q) d0 outs)).
  Proof.
    intros HC Hch Rd Hsd (HV & HK & HS) Hrest. set (cf' := mkConfig _ _).
    destruct HC as [C1 C2 C3 C4 C5 C6].
    assert (Hst : forall n, st cf' n = updS (st cf) d0 st' n).
    { intros n. unfold st, cf', upd_node, updS. simpl. destruct (n =? d0); reflexivity. }
    assert (Hrn : forall n, rnc cf' n = rnc cf n).
    { intros n. unfold rnc, cf', upd_node. simpl. destruct (Z.eqb_spec n d0) as [->|]; [simpl; symmetry; exact Rd|reflexivity]. }
    assert (Hheld : forall n, w_held (nodes cf' n) = w_held (nodes cf n)).
    { intros n. unfold cf', upd_node. simpl. destruct (Z.eqb_spec n d0) as [->|]; reflexivity. }
    assert (Hchan : forall a b, chan cf' a b =
               (if a =? d0 then (if (a =? s) && (b =? d0) then q else chan cf a b) ++ to_y2 b outs
                else (if (a =? s) && (b =? d0) then q else chan cf a b))).
    { intros a b. unfold cf'. simpl. rewrite send_all_spec2. unfold upd_chan. reflexivity. }
    assert (Hbag : forall a b, (forall k, cnt k (pend cf' a b) = cnt k (pdV d0 (baseR' cf s d0 q) st' outs a b)) /\
                               (forall m0, In m0 (pend cf' a b) -> In m0 (pdV d0 (baseR' cf s d0 q) st' outs a b))).
    { intros a b. unfold pend. rewrite Hheld, Hchan, Hst. unfold pdV, baseR', baseR, updS, pend.
      assert (Eds : (d0 =? s) = false) by (apply Z.eqb_neq; congruence).
      destruct (Z.eqb_spec a d0) as [->|Ha].
      - rewrite Eds. simpl andb. destruct (Z.eqb_spec b d0) as [->|Hb].
        + rewrite ?Z.eqb_refl, (C2 d0 Rd), (to_y2_nil_notin d0 _ HS). simpl. split; [bag_cnt|bag_in].
        + split; [bag_cnt|bag_in].
      - destruct (Z.eqb_spec b d0) as [->|Hb].
        + rewrite ?Z.eqb_refl, (C2 d0 Rd), ?andb_true_r. simpl. destruct (a =? s); split; [bag_cnt|bag_in|bag_cnt|bag_in].
        + rewrite ?andb_false_r. split; [bag_cnt|bag_in]. }
    constructor.
    - apply (InvA_bag_ext d stop (rnc cf') (st cf') (pdV d0 (baseR' cf s d0 q) st' outs) (pend cf')).
      + intros a b k. apply (proj1 (Hbag a b)).
      + intros a b m0. apply (proj2 (Hbag a b)).
      + apply (InvA_ext d stop (rnc cf) (rnc cf') (updS (st cf) d0 st') (st cf') (pdV d0 (baseR' cf s d0 q) st' outs) (pdV d0 (baseR' cf s d0 q) st' outs)); auto.
        intros n. rewrite Hst. reflexivity.
    - intros n Hn. rewrite Hrn in Hn. rewrite Hheld. apply C2. exact Hn.
    - intros n Hn. rewrite Hrn in Hn. rewrite Hst. unfold updS.
      destruct (Z.eqb_spec n d0) as [->|]; [congruence|apply C3; exact Hn].
    - intros n. rewrite Hst. unfold updS. destruct (n =? d0); [exact HK|apply C4].
    - intros n. rewrite Hst. unfold updS. destruct (Z.eqb_spec n d0) as [->|]; [exact HS|apply C5].
    - intros n Hn Ha. rewrite Hrn in Hn. rewrite Hst. unfold updS.
      destruct (Z.eqb_spec n d0) as [->|]; [exact Hrest|apply C6; assumption].
  Qed.

  Lemma inv_recv cf s d0 m q st' outs evs : InvC cf -> chan cf s d0 = m :: q -> rnc cf d0 = true ->
    mgm2_recv_f d stop thr favor fuel d0 (st cf d0) s m = (st', outs, evs) ->
    InvC (mkConfig (upd_node (nodes cf) d0 (mkWrap true (w_held (nodes cf d0)) st'))
                   (send_all (upd_chan (chan cf) s d0 q) d0 outs)) /\
    EvP stop d0 (st cf d0) st' evs /\ nbr d0 <> [].
  Proof.
    intros HC Hch Rd Hr. pose proof (c_inv cf HC) as HI.
    assert (Hin : In m (pend cf s d0)).
    { unfold pend. apply in_or_app. right. apply in_or_app. left. rewrite Hch. left. reflexivity. }
    assert (Hsd : In s (nbr d0)).
    { destruct (in_dec Z.eq_dec s (nbr d0)) as [H|H]; [exact H|]. rewrite (i_far _ _ _ _ _ HI s d0 H) in Hin. destruct Hin. }
    pose proof (act_of d s d0 Hsd) as Hact.
    assert (Hne : s <> d0) by (intros ->; eapply nbrs_irrefl; eauto).
    pose proof (VInv_of_InvC cf d0 HC Rd) as HV0.
    pose proof (tp_bound cf d0 HC Rd Hact) as Htp.
    pose proof (Hfuel d0) as Hf. destruct fuel as [|f]; [lia|].
    pose proof (i_good _ _ _ _ _ HI d0 Rd Hact) as G0.
    unfold mgm2_recv_f in Hr.
    destruct (Z.eq_dec (kind_of m) (t_state (st cf d0))) as [Hk|Hk].
    - assert (Hb : baseR cf d0 s d0 = m :: q) by (unfold baseR; rewrite Z.eqb_refl; exact Hch).
      pose proof (recv_ok d stop thr favor (rnc cf) (st cf) d0 Rd Hact (baseR cf d0) (baseR' cf s d0 q) (st cf d0) s m q f
                    HV0 (c_rest cf HC d0 Rd Hact) Hb Hk (fun a b => eq_refl) ltac:(lia)) as HL.
      rewrite Hr in HL. unfold LoopPost in HL. simpl in HL. destruct HL as (A1 & A2 & _ & _ & A5).
      split; [apply (recv_finish cf s d0 m q st' outs HC Hch Rd Hne A1 A2)|split; [exact A5|exact Hact]].
    - (* not the awaited kind: postponed *)
      assert (Hkm : 1 <= kind_of m <= 5) by (destruct m; simpl; lia).
      unfold on_msg in Hr. cbv zeta in Hr.
      assert (Eg : negb (t_state (st cf d0) =? kind_of m) = true).
      { apply negb_true_iff. apply Z.eqb_neq. congruence. }
      rewrite Eg in Hr. unfold ret2 in Hr. injection Hr as <- <- <-.
      set (k := kind_of m) in *. set (s0 := st cf d0) in *.
      destruct (allposts_split s0 k Hkm) as (A & B & EA & ES).
      set (s1 := set_post s0 k (get_post s0 k ++ [(s, m)])).
      assert (EA1 : allposts s1 = A ++ (get_post s0 k ++ [(s, m)]) ++ B) by apply ES.
      destruct HV0 as (HV & HK & HS).
      assert (HV1 : VInv d stop (rnc cf) (st cf) d0 (baseR' cf s d0 q) s1 []).
      { split; [|split].
        - apply (InvA_bag_ext d stop (rnc cf) (updS (st cf) d0 s1) (pdV d0 (baseR cf d0) s0 [])).
          + intros a b k0. unfold pdV, baseR'. destruct (Z.eqb_spec a d0) as [->|Ha].
            * assert (E : (d0 =? s) = false) by (apply Z.eqb_neq; congruence). rewrite E. reflexivity.
            * destruct (Z.eqb_spec b d0) as [->|Hb0]; [|rewrite andb_false_r; reflexivity].
              rewrite Z.eqb_refl, andb_true_r, EA1, EA. unfold baseR. rewrite Z.eqb_refl.
              destruct (Z.eqb_spec a s) as [->|Has].
              -- rewrite Hch, !to_y2_app, to_y2_single, Z.eqb_refl, !cnt_app, !cnt_cons, cnt_nil. lia.
              -- rewrite !to_y2_app, to_y2_single. assert (E : (s =? a) = false) by (apply Z.eqb_neq; congruence).
                 rewrite E, app_nil_r. reflexivity.
          + intros a b m0. unfold pdV, baseR'. destruct (Z.eqb_spec a d0) as [->|Ha].
            * assert (E : (d0 =? s) = false) by (apply Z.eqb_neq; congruence). rewrite E. auto.
            * destruct (Z.eqb_spec b d0) as [->|Hb0]; [|rewrite andb_false_r; auto].
              rewrite Z.eqb_refl, andb_true_r, EA1, EA. unfold baseR. rewrite Z.eqb_refl.
              destruct (Z.eqb_spec a s) as [->|Has].
              -- rewrite Hch, !to_y2_app, to_y2_single, Z.eqb_refl. rewrite !in_app_iff. simpl. rewrite ?in_app_iff. tauto.
              -- rewrite !to_y2_app, to_y2_single. assert (E : (s =? a) = false) by (apply Z.eqb_neq; congruence).
                 rewrite E, app_nil_r. auto.
          + apply (InvA_ext d stop (rnc cf) (rnc cf) (updS (st cf) d0 s0) (updS (st cf) d0 s1)
                     (pdV d0 (baseR cf d0) s0 []) (pdV d0 (baseR cf d0) s0 [])); auto.
            intros n. unfold updS. destruct (n =? d0); [apply skel_set_post|reflexivity].
        - apply kinds_set; [exact Hkm|exact HK|]. apply Forall_app. split; [apply kinds_get; assumption|].
          constructor; [reflexivity|constructor].
        - rewrite EA1. intros Hc. rewrite !map_app in Hc. apply in_app_or in Hc as [Hc|Hc].
          + apply HS. rewrite EA, !map_app. apply in_or_app. left. exact Hc.
          + apply in_app_or in Hc as [Hc|Hc].
            * apply in_app_or in Hc as [Hc|Hc].
              -- apply HS. rewrite EA, !map_app. apply in_or_app. right. apply in_or_app. left. exact Hc.
              -- simpl in Hc. destruct Hc as [Hc|[]]. congruence.
            * apply HS. rewrite EA, !map_app. apply in_or_app. right. apply in_or_app. right. exact Hc. }
      assert (Hst1 : t_state s1 = t_state s0).
      { pose proof (skel_set_post s0 k (get_post s0 k ++ [(s, m)])) as K. unfold skel in K. injection K. auto. }
      assert (Hfin1 : t_fin s1 = t_fin s0).
      { pose proof (skel_set_post s0 k (get_post s0 k ++ [(s, m)])) as K. unfold skel in K. injection K. auto. }
      split; [|split; [apply EvP_nil; exact Hfin1|exact Hact]].
      apply (recv_finish cf s d0 m q s1 [] HC Hch Rd Hne HV1).
      rewrite Hst1. unfold s1. rewrite get_set_post_other; [apply (c_rest cf HC d0 Rd Hact)|exact Hkm|apply (g_k _ _ _ _ G0)|congruence].
  Qed.

  (* ---------------------------------------------------------------- a computation starts *)
  Lemma init_posts n k : get_post (mgm2_init orc n) k = [].
  Proof. unfold get_post, mgm2_init. simpl. destruct (k =? 1), (k =? 2), (k =? 3), (k =? 4); reflexivity. Qed.

  Lemma inv_start cf n st' outs evs : InvC cf -> rnc cf n = false ->
    mgm2_start_f d stop thr favor fuel n (st cf n) = (st', outs, evs) ->
    InvC (mkConfig (upd_node (nodes cf) n (mkWrap true [] st'))
                   (reinject_all (send_all (chan cf) n outs) n (reinject (w_held (nodes cf n))))) /\
    noerr evs /\ (forall x k, In (EvFinished x k) evs -> x = n /\ (0 <= stop -> k = fin_cycle n)) /\
    t_fin st' = t_fin (st cf n) + Z.of_nat (count_fin n evs).
  Proof.
    intros HC Rn Hs. pose proof (c_inv cf HC) as HI.
    pose proof (c_idle cf HC n Rn) as Hinit.
    pose proof (Hfuel n) as Hf. destruct fuel as [|f]; [lia|].
    assert (Hs0 : start0 d stop thr favor n (st cf n) = (st', outs, evs) /\ posts st' = posts (st cf n)).
    { destruct (nbr n) as [|z r] eqn:En.
      - rewrite (start_iso d stop thr favor n (S f) (st cf n) En) in Hs. split; [exact Hs|].
        destruct (step_start d stop thr favor _ _ _ HI n Rn _ _ _ Hs) as (_ & Hpo & _). exact Hpo.
      - assert (Hact : nbr n <> []) by (rewrite En; discriminate).
        rewrite (start_factor d stop thr favor n f (st cf n) Hact) in Hs.
        destruct (start0 d stop thr favor n (st cf n)) as [[s2 o2] e2] eqn:E0.
        destruct (step_start d stop thr favor _ _ _ HI n Rn _ _ _ E0) as (_ & Hpo & _).
        unfold andthen2 in Hs. rewrite loop_eq in Hs.
        rewrite (posts_get _ _ 1 Hpo), Hinit, init_posts in Hs. simpl in Hs. unfold ret2 in Hs.
        rewrite !app_nil_r in Hs. injection Hs as <- <- <-. split; [reflexivity|exact Hpo]. }
    destruct Hs0 as [Hs0 Hpo].
    destruct (step_start d stop thr favor _ _ _ HI n Rn _ _ _ Hs0) as (HI2 & _ & Hne & Hfin & Hcnt & Hst1).
    set (cf' := mkConfig _ _).
    destruct HC as [C1 C2 C3 C4 C5 C6].
    assert (Hst : forall x, st cf' x = updS (st cf) n st' x).
    { intros x. unfold st, cf', upd_node, updS. simpl. destruct (x =? n); reflexivity. }
    assert (Hrn : forall x, rnc cf' x = start_rn (rnc cf) n x).
    { intros x. unfold rnc, cf', upd_node, start_rn. simpl. destruct (x =? n); reflexivity. }
    assert (Hbag : forall a b, (forall k, cnt k (pend cf' a b) = cnt k (pd_start (pend cf) n outs a b)) /\
                               (forall m0, In m0 (pend cf' a b) -> In m0 (pd_start (pend cf) n outs a b))).
    { intros a b. unfold pend. rewrite Hst. unfold cf', upd_node, updS. simpl.
      rewrite reinject_all_spec2, send_all_spec2. unfold reinject, pd_start, pend.
      destruct (Z.eqb_spec b n) as [->|Hb].
      - simpl. rewrite (posts_allposts _ _ Hpo). destruct (a =? n); split; [bag_cnt|bag_in|bag_cnt|bag_in].
      - destruct (a =? n); split; [bag_cnt|bag_in|bag_cnt|bag_in]. }
    split; [|split; [exact Hne|split; [|exact Hcnt]]].
    - constructor.
      + apply (InvA_bag_ext d stop (rnc cf') (st cf') (pd_start (pend cf) n outs) (pend cf')).
        * intros a b k. apply (proj1 (Hbag a b)).
        * intros a b m0. apply (proj2 (Hbag a b)).
        * apply (InvA_ext d stop (start_rn (rnc cf) n) (rnc cf') (updS (st cf) n st') (st cf')
                   (pd_start (pend cf) n outs) (pd_start (pend cf) n outs)); auto.
          intros x. rewrite Hst. reflexivity.
      + intros x Hx. unfold cf', upd_node. simpl. destruct (Z.eqb_spec x n) as [->|Hxn]; [reflexivity|].
        apply C2. rewrite Hrn in Hx. unfold start_rn in Hx. apply Z.eqb_neq in Hxn. rewrite Hxn in Hx. exact Hx.
      + intros x Hx. rewrite Hrn in Hx. unfold start_rn in Hx. rewrite Hst. unfold updS.
        destruct (x =? n); [discriminate|apply C3; exact Hx].
      + intros x. rewrite Hst. unfold updS. destruct (Z.eqb_spec x n) as [->|]; [apply (posts_kinds _ _ Hpo (C4 n))|apply C4].
      + intros x. rewrite Hst. unfold updS. destruct (Z.eqb_spec x n) as [->|]; [rewrite (posts_allposts _ _ Hpo); apply C5|apply C5].
      + intros x Hx Ha. rewrite Hst. unfold updS. destruct (Z.eqb_spec x n) as [->|Hxn].
        * rewrite (posts_get _ _ _ Hpo), Hinit. apply init_posts.
        * apply C6; [|exact Ha]. rewrite Hrn in Hx. unfold start_rn in Hx. apply Z.eqb_neq in Hxn. rewrite Hxn in Hx. exact Hx.
    - intros x k Hin. destruct (Hfin x k Hin) as (E1 & E2 & E3). split; [exact E1|]. intros Hs1. subst x k.
      assert (Rn' : start_rn (rnc cf) n n = true) by (unfold start_rn; rewrite Z.eqb_refl; reflexivity).
      destruct (nbr n) as [|z r] eqn:En.
      + destruct (i_iso _ _ _ _ _ HI2 n Rn' En) as [_ Hc]. rewrite updS_same in Hc. unfold P_Mgm3c.fin_cycle. rewrite En. exact Hc.
      + assert (Hact : nbr n <> []) by (rewrite En; discriminate).
        pose proof (i_good _ _ _ _ _ HI2 n Rn' Hact) as G. rewrite updS_same in G.
        rewrite (fin_cycle_active n Hact). apply (done_cycle d stop n st' G (E3 ltac:(discriminate)) Hs1).
  Qed.

  (* ---------------------------------------------------------------- one step, every schedule *)
  Lemma StepEv_refl cf : StepEv cf cf [].
  Proof. split; [intros n k []|split; [intros n k []|intros x; simpl; lia]]. Qed.

  Lemma inv_step cf a : InvC cf -> InvC (fst (step P cf a)) /\ StepEv cf (fst (step P cf a)) (snd (step P cf a)).
  Proof.
    intros HC. destruct a as [n|s d0]; simpl.
    - destruct (w_running (nodes cf n)) eqn:Rn; [simpl; split; [exact HC|apply StepEv_refl]|].
      destruct (mgm2_start_f d stop thr favor fuel n (w_st (nodes cf n))) as [[st' outs] evs] eqn:Es. simpl.
      destruct (inv_start cf n st' outs evs HC Rn Es) as (H1 & H2 & H3 & H4).
      split; [exact H1|]. split; [exact H2|split].
      + intros x k Hin Hs. destruct (H3 x k Hin) as [-> Hk]. apply Hk. exact Hs.
      + intros x. unfold st. simpl. unfold upd_node. destruct (Z.eqb_spec x n) as [->|Hne]; simpl; [exact H4|].
        rewrite (count_fin_other n x evs); [lia| |exact Hne]. intros n0 k Hin. apply (H3 n0 k Hin).
    - destruct (chan cf s d0) as [|m q] eqn:Hch; [simpl; split; [exact HC|apply StepEv_refl]|].
      destruct (w_running (nodes cf d0)) eqn:Rd.
      + destruct (mgm2_recv_f d stop thr favor fuel d0 (w_st (nodes cf d0)) s m) as [[st' outs] evs] eqn:Er. simpl.
        destruct (inv_recv cf s d0 m q st' outs evs HC Hch Rd Er) as (H1 & (E1 & E2 & E3) & Hact).
        split; [exact H1|]. split; [exact E1|split].
        * intros x k Hin Hs. destruct (E2 x k Hin) as [-> Hk]. rewrite (fin_cycle_active d0 Hact). apply Hk. exact Hs.
        * intros x. unfold st. simpl. unfold upd_node. destruct (Z.eqb_spec x d0) as [->|Hne]; simpl; [exact E3|].
          rewrite (count_fin_other d0 x evs); [lia| |exact Hne]. intros n0 k Hin. apply (E2 n0 k Hin).
      + simpl. split; [apply (inv_hold cf s d0 m q HC Hch Rd)|].
        split; [intros n k []|split; [intros n k []|]]. intros x. unfold st. simpl. unfold upd_node.
        destruct (Z.eqb_spec x d0) as [->|]; simpl; lia.
  Qed.

  Lemma reachable_inv cf : reachable P cf -> InvC cf.
  Proof. induction 1; [apply inv_init|apply inv_step; assumption]. Qed.

  Lemma exec_inv sched : forall cf, InvC cf ->
    InvC (fst (exec P cf sched)) /\ StepEv cf (fst (exec P cf sched)) (snd (exec P cf sched)).
  Proof.
    induction sched as [|a r IH]; intros cf HC; simpl; [split; [exact HC|apply StepEv_refl]|].
    destruct (inv_step cf a HC) as [H1 (A1 & A2 & A3)].
    destruct (step P cf a) as [cf1 e1]. simpl in *.
    destruct (IH cf1 H1) as [H2 (B1 & B2 & B3)].
    destruct (exec P cf1 r) as [cf2 e2]. simpl in *. split; [exact H2|]. split; [|split].
    - intros n k Hin. apply in_app_or in Hin as [Hin|Hin]; [apply (A1 n k Hin)|apply (B1 n k Hin)].
    - intros n k Hin. apply in_app_or in Hin as [Hin|Hin]; [apply (A2 n k Hin)|apply (B2 n k Hin)].
    - intros x. rewrite count_fin_app, Nat2Z.inj_add, B3, A3. lia.
  Qed.

  Lemma fin_le1 cf x : InvC cf -> 0 <= t_fin (st cf x) <= 1.
  Proof.
    intros HC. pose proof (c_inv cf HC) as HI. destruct (rnc cf x) eqn:Rx.
    - destruct (nbr x) eqn:En.
      + destruct (i_iso _ _ _ _ _ HI x Rx En) as [H _]. lia.
      + assert (Ha : nbr x <> []) by (rewrite En; discriminate).
        rewrite (g_fin _ _ _ _ (i_good _ _ _ _ _ HI x Rx Ha)). apply b2z_range.
    - rewrite (c_idle cf HC x Rx). simpl. lia.
  Qed.

  (* ---------------------------------------------------------------- quiescence *)
  Lemma cnt_state_zero w s : kinds_ok s -> 1 <= t_state s <= 5 -> get_post s (t_state s) = [] ->
    cnt (t_state s) (to_y2 w (allposts s)) = 0.
  Proof.
    intros (K1 & K2 & K3 & K4 & K5) Hk Hp. unfold allposts. rewrite !to_y2_app, !cnt_app.
    assert (Hz : forall k l, Forall (fun sm : Z * m2msg => kind_of (snd sm) = k) l -> (k <> t_state s \/ l = []) ->
                 cnt (t_state s) (to_y2 w l) = 0).
    { intros k l HF [Hne|Hnil]; [|subst l; reflexivity]. induction l as [|[a m] r IH]; [reflexivity|].
      inversion HF; subst. simpl in *. unfold to_y2. simpl. destruct (a =? w); simpl; [|apply IH; assumption].
      rewrite cnt_cons. fold (to_y2 w r). rewrite (IH H2).
      assert (E : (kind_of m =? t_state s) = false) by (apply Z.eqb_neq; exact Hne). rewrite E. reflexivity. }
    unfold get_post in Hp.
    rewrite (Hz 1 _ K1), (Hz 2 _ K2), (Hz 3 _ K3), (Hz 4 _ K4), (Hz 5 _ K5); try lia;
      destruct (Z.eqb_spec (t_state s) 1), (Z.eqb_spec (t_state s) 2), (Z.eqb_spec (t_state s) 3), (Z.eqb_spec (t_state s) 4);
      try (left; lia); try (right; exact Hp).
  Qed.

  Definition quiet (cf : config) : Prop :=
    (forall x, nbr x <> [] -> rnc cf x = true) /\ (forall a b, chan cf a b = []).

  Lemma quiet_cnt cf w x : InvC cf -> quiet cf -> nbr x <> [] ->
    cnt (t_state (st cf x)) (pend cf w x) = 0.
  Proof.
    intros HC [Q1 Q2] Ha. pose proof (Q1 x Ha) as Rx. unfold pend. rewrite (c_held cf HC x Rx), Q2. simpl.
    apply cnt_state_zero; [apply (c_kinds cf HC)|apply (g_k _ _ _ _ (i_good _ _ _ _ _ (c_inv cf HC) x Rx Ha))|apply (c_rest cf HC x Rx Ha)].
  Qed.

  Lemma pick_smaller cf x : InvC cf -> quiet cf -> nbr x <> [] -> doneb (t_cycle (st cf x)) = false ->
    exists w, In w (nbr x) /\ doneb (t_cycle (st cf w)) = false /\
              5 * t_cycle (st cf w) + t_state (st cf w) < 5 * t_cycle (st cf x) + t_state (st cf x).
  Proof.
    intros HC HQ Ha Hnd. pose proof (c_inv cf HC) as HI. destruct HQ as [Q1 Q2].
    pose proof (Q1 x Ha) as Rx. pose proof (i_good _ _ _ _ _ HI x Rx Ha) as Gx.
    pose proof (g_k _ _ _ _ Gx) as Kx.
    assert (Hnd' : forall w, t_cycle (st cf w) <= t_cycle (st cf x) -> doneb (t_cycle (st cf w)) = false).
    { intros w Hle. destruct (doneb (t_cycle (st cf w))) eqn:E; [|reflexivity].
      rewrite (doneb_mono stop _ _ Hle E) in Hnd. discriminate. }
    assert (Hcand : forall w, In w (nbr x) -> rnc cf w = true /\ good d stop w (st cf w) /\ In x (nbr w)).
    { intros w Hw. pose proof (nbrs_sym d x w Hw) as Hxw. pose proof (Q1 w (act_of d x w Hxw)) as Rw.
      split; [exact Rw|split; [apply (i_good _ _ _ _ _ HI w Rw (act_of d x w Hxw))|exact Hxw]]. }
    assert (Hk : t_state (st cf x) = 1 \/ t_state (st cf x) = 2 \/ t_state (st cf x) = 3 \/ t_state (st cf x) = 4 \/ t_state (st cf x) = 5) by lia.
    destruct Hk as [K|[K|[K|[K|K]]]].
    - (* waiting for a value *)
      destruct (g_nv _ _ _ _ Gx) as [_ Hinc]. pose proof (g_nv1 _ _ _ _ Gx K) as Hl. rewrite <- (map_length fst) in Hl.
      destruct (notfull_ex _ _ Hinc (nbrs_nodup d x) Hl) as (w & Hw & Hnw). exists w. split; [exact Hw|].
      destruct (Hcand w Hw) as (Rw & Gw & Hxw). pose proof (g_k _ _ _ _ Gw) as Kw.
      pose proof (p_V _ _ _ _ _ (i_pair _ _ _ _ _ HI w x Hw)) as E. unfold CV, SV in E. rewrite Rw, Rx in E.
      pose proof (quiet_cnt cf w x HC (conj Q1 Q2) Ha) as Hc. rewrite K in Hc. rewrite Hc in E.
      rewrite (proj2 (kinv_false w (t_nv (st cf x))) Hnw) in E. simpl in E.
      pose proof (g_fin _ _ _ _ Gw) as Fw. destruct (doneb (t_cycle (st cf w))) eqn:Ed; simpl in Fw.
      + exfalso. assert (t_cycle (st cf w) = t_cycle (st cf x)) by (clear - E Fw; lia). rewrite H in Ed. congruence.
      + split; [reflexivity|]. clear - E Fw Kw Kx K. lia.
    - (* waiting for an offer *)
      destruct (g_of _ _ _ _ Gx) as [_ [Hinc _]]. pose proof (g_of2 _ _ _ _ Gx K) as Hl. rewrite <- (map_length fst) in Hl.
      destruct (notfull_ex _ _ Hinc (nbrs_nodup d x) Hl) as (w & Hw & Hnw). exists w. split; [exact Hw|].
      destruct (Hcand w Hw) as (Rw & Gw & Hxw). pose proof (g_k _ _ _ _ Gw) as Kw.
      pose proof (p_O _ _ _ _ _ (i_pair _ _ _ _ _ HI w x Hw)) as E. unfold CO, SO in E. rewrite Rw, Rx in E.
      pose proof (quiet_cnt cf w x HC (conj Q1 Q2) Ha) as Hc. rewrite K in Hc. rewrite Hc in E.
      rewrite (proj2 (kino_false w (t_offers (st cf x))) Hnw) in E. simpl in E.
      pose proof (b2z_leb 2 (t_state (st cf w))) as B2.
      assert (Hle : t_cycle (st cf w) <= t_cycle (st cf x)) by (clear - E B2 Kw; lia).
      split; [apply Hnd'; exact Hle|]. clear - E B2 Kw Kx K. lia.
    - (* waiting for the answer of the partner *)
      pose proof (g_k3 _ _ _ _ Gx K) as Ho. destruct (g_off _ _ _ _ Gx Ho) as (w & Hp & Hw). exists w. split; [exact Hw|].
      destruct (Hcand w Hw) as (Rw & Gw & Hxw). pose proof (g_k _ _ _ _ Gw) as Kw.
      pose proof (i_pair _ _ _ _ _ HI w x Hw) as Pwx.
      pose proof (quiet_cnt cf w x HC (conj Q1 Q2) Ha) as Hc. rewrite K in Hc.
      assert (HA : expA (st cf) x w) by (unfold expA; rewrite K; repeat split; try assumption; lia).
      assert (Hk2 : t_state (st cf w) <= 2).
      { destruct (Z_le_gt_dec (t_state (st cf w)) 2) as [H|H]; [exact H|exfalso].
        rewrite (p_A1 _ _ _ _ _ Pwx HA ltac:(clear - H; lia)) in Hc. discriminate. }
      destruct (pos_facts d stop _ _ _ HI w x Hw Rw Rx) as (P1 & P2 & _).
      assert (Hle : t_cycle (st cf w) <= t_cycle (st cf x)).
      { destruct (Z_le_gt_dec (t_cycle (st cf w)) (t_cycle (st cf x))) as [H|H]; [exact H|exfalso].
        assert (E : t_cycle (st cf w) = t_cycle (st cf x) + 1) by (clear - P1 H; lia). destruct (P2 E) as (_ & H4 & _). clear - H4 K. lia. }
      split; [apply Hnd'; exact Hle|]. clear - Hle Hk2 Kw K. lia.
    - (* waiting for a gain *)
      destruct (g_ng _ _ _ _ Gx) as [_ Hinc]. pose proof (g_ng4 _ _ _ _ Gx K) as Hl. rewrite <- (map_length fst) in Hl.
      destruct (notfull_ex _ _ Hinc (nbrs_nodup d x) Hl) as (w & Hw & Hnw). exists w. split; [exact Hw|].
      destruct (Hcand w Hw) as (Rw & Gw & Hxw). pose proof (g_k _ _ _ _ Gw) as Kw.
      pose proof (p_G _ _ _ _ _ (i_pair _ _ _ _ _ HI w x Hw)) as E. unfold CG, SG in E. rewrite Rw, Rx in E.
      pose proof (quiet_cnt cf w x HC (conj Q1 Q2) Ha) as Hc. rewrite K in Hc. rewrite Hc in E.
      rewrite (proj2 (kinv_false w (t_ng (st cf x))) Hnw) in E. simpl in E.
      pose proof (b2z_leb 4 (t_state (st cf w))) as B4.
      assert (Hle : t_cycle (st cf w) <= t_cycle (st cf x)) by (clear - E B4 Kw; lia).
      split; [apply Hnd'; exact Hle|]. clear - E B4 Kw Kx K. lia.
    - (* waiting for the go / no-go of the partner *)
      pose proof (g_k5 _ _ _ _ Gx K) as Hcm. destruct (g_com _ _ _ _ Gx Hcm) as (_ & w & Hp & Hw). exists w. split; [exact Hw|].
      destruct (Hcand w Hw) as (Rw & Gw & Hxw). pose proof (g_k _ _ _ _ Gw) as Kw.
      pose proof (i_pair _ _ _ _ _ HI w x Hw) as Pwx.
      pose proof (quiet_cnt cf w x HC (conj Q1 Q2) Ha) as Hc. rewrite K in Hc.
      assert (HG : expG (st cf) x w) by (unfold expG; rewrite K; repeat split; try assumption; lia).
      pose proof (p_L _ _ _ _ _ (i_pair _ _ _ _ _ HI x w Hxw) Hcm Hp) as HL. unfold link in HL.
      assert (Hns : ~ sentGo (st cf) w x).
      { intros Hs. rewrite (p_Go1 _ _ _ _ _ Pwx HG Hs) in Hc. discriminate. }
      unfold sentGo in Hns.
      destruct HL as [[E1 _]|[E1 _]]; [exfalso; apply Hns; right; exact E1|].
      split; [apply Hnd'; lia|].
      assert (t_state (st cf w) <> 5) by (intros E5; apply Hns; left; split; assumption).
      clear - E1 H Kw K. lia.
  Qed.

  Lemma quiescent_all_done cf : InvC cf -> quiet cf -> forall x, nbr x <> [] -> doneb (t_cycle (st cf x)) = true.
  Proof.
    intros HC HQ.
    assert (H : forall N x, nbr x <> [] -> (Z.to_nat (5 * t_cycle (st cf x) + t_state (st cf x)) <= N)%nat ->
                doneb (t_cycle (st cf x)) = true).
    { induction N as [|N IH]; intros x Ha Hm.
      - exfalso. pose proof (i_good _ _ _ _ _ (c_inv cf HC) x (proj1 HQ x Ha) Ha) as G.
        pose proof (g_c _ _ _ _ G). pose proof (g_k _ _ _ _ G). lia.
      - destruct (doneb (t_cycle (st cf x))) eqn:E; [reflexivity|exfalso].
        destruct (pick_smaller cf x HC HQ Ha E) as (w & Hw & Hnw & Hlt).
        pose proof (act_of d x w (nbrs_sym d x w Hw)) as Haw.
        pose proof (i_good _ _ _ _ _ (c_inv cf HC) w (proj1 HQ w Haw) Haw) as G.
        pose proof (g_c _ _ _ _ G). pose proof (g_k _ _ _ _ G).
        rewrite (IH w Haw ltac:(lia)) in Hnw. discriminate. }
    intros x Ha. apply (H _ x Ha (le_n _)).
  Qed.

  (* ---------------------------------------------------------------- theorems *)
  Lemma pend_nil_final cf x w : InvC cf -> quiet cf -> In w (nbr x) -> pend cf w x = [].
  Proof.
    intros HC HQ Hw. pose proof (c_inv cf HC) as HI. destruct HQ as [Q1 Q2].
    pose proof (act_of d w x Hw) as Hax. pose proof (nbrs_sym d x w Hw) as Hxw. pose proof (act_of d x w Hxw) as Haw.
    pose proof (Q1 x Hax) as Rx. pose proof (Q1 w Haw) as Rw.
    pose proof (i_good _ _ _ _ _ HI x Rx Hax) as Gx. pose proof (i_good _ _ _ _ _ HI w Rw Haw) as Gw.
    pose proof (quiescent_all_done cf HC (conj Q1 Q2) x Hax) as Dx.
    pose proof (quiescent_all_done cf HC (conj Q1 Q2) w Haw) as Dw.
    pose proof (g_done _ _ _ _ Gx Dx) as Kx. pose proof (g_done _ _ _ _ Gw Dw) as Kw.
    pose proof (g_fin _ _ _ _ Gx) as Fx. pose proof (g_fin _ _ _ _ Gw) as Fw. rewrite Dx in Fx. rewrite Dw in Fw. simpl in Fx, Fw.
    pose proof (i_pair _ _ _ _ _ HI w x Hw) as Pwx. pose proof (i_pair _ _ _ _ _ HI x w Hxw) as Pxw.
    destruct (le_facts d stop _ _ _ HI w x Hw Rw Rx) as (L1 & _ & _).
    destruct (le_facts d stop _ _ _ HI x w Hxw Rx Rw) as (M1 & _ & _).
    pose proof (b2z_range (kinv w (t_nv (st cf x)))) as B1. pose proof (b2z_range (kinv x (t_nv (st cf w)))) as B2.
    assert (Ec : t_cycle (st cf w) = t_cycle (st cf x)) by (clear - L1 M1 Fx Fw B1 B2; lia).
    pose proof (len_kinds (pend cf w x)) as Hlen.
    pose proof (cnt_nonneg 1 (pend cf w x)). pose proof (cnt_nonneg 2 (pend cf w x)). pose proof (cnt_nonneg 4 (pend cf w x)).
    pose proof (p_V _ _ _ _ _ Pwx) as EV. unfold CV, SV in EV. rewrite Rw, Rx in EV.
    pose proof (p_O _ _ _ _ _ Pwx) as EO. unfold CO, SO in EO. rewrite Rw, Rx, (g_of1 _ _ _ _ Gx Kx), Kw in EO. simpl in EO.
    pose proof (p_G _ _ _ _ _ Pwx) as EG. unfold CG, SG in EG. rewrite Rw, Rx, (g_ng3 _ _ _ _ Gx ltac:(lia)), Kw in EG. simpl in EG.
    assert (E3 : cnt 3 (pend cf w x) = 0).
    { apply (p_A0 _ _ _ _ _ Pwx). intros [(_ & _ & H2) _]. clear - H2 Kx. lia. }
    assert (E5 : cnt 5 (pend cf w x) = 0).
    { apply (p_Go0 _ _ _ _ _ Pwx). intros [(_ & _ & H2) _]. clear - H2 Kx. lia. }
    assert (Hz : length (pend cf w x) = 0%nat) by (clear - Hlen EV EO EG E3 E5 Ec Fw B1 H H0 H1; lia).
    destruct (pend cf w x); [reflexivity|discriminate].
  Qed.

  Theorem mgm2_terminates_k_l cf : 0 < stop -> reachable P cf -> quiet cf ->
    forall x, rnc cf x = true ->
      t_fin (st cf x) = 1 /\ t_cycle (st cf x) = fin_cycle x /\ w_held (nodes cf x) = [] /\
      (nbr x <> [] -> t_state (st cf x) = 1 /\ t_nv (st cf x) = [] /\ t_offers (st cf x) = [] /\
                      t_ng (st cf x) = [] /\ allposts (st cf x) = []).
  Proof.
    intros Hs Hre HQ x Rx. pose proof (reachable_inv cf Hre) as HC. pose proof (c_inv cf HC) as HI.
    split; [|split; [|split; [apply (c_held cf HC x Rx)|]]].
    - destruct (nbr x) eqn:En; [apply (i_iso _ _ _ _ _ HI x Rx En)|].
      assert (Ha : nbr x <> []) by (rewrite En; discriminate).
      rewrite (g_fin _ _ _ _ (i_good _ _ _ _ _ HI x Rx Ha)), (quiescent_all_done cf HC HQ x Ha). reflexivity.
    - destruct (nbr x) eqn:En.
      + unfold P_Mgm3c.fin_cycle. rewrite En. apply (i_iso _ _ _ _ _ HI x Rx En).
      + assert (Ha : nbr x <> []) by (rewrite En; discriminate). rewrite (fin_cycle_active x Ha).
        apply (done_cycle d stop x _ (i_good _ _ _ _ _ HI x Rx Ha) (quiescent_all_done cf HC HQ x Ha)). lia.
    - intros Ha. pose proof (i_good _ _ _ _ _ HI x Rx Ha) as G.
      pose proof (g_done _ _ _ _ G (quiescent_all_done cf HC HQ x Ha)) as K.
      assert (Hposts : allposts (st cf x) = []).
      { assert (Hs0 : forall p, In p (allposts (st cf x)) -> False).
        { intros [w m] Hp. destruct (in_dec Z.eq_dec w (nbr x)) as [H|H].
          - pose proof (pend_nil_final cf x w HC HQ H) as Hn. unfold pend in Hn.
            apply app_eq_nil in Hn as [_ Hn]. apply app_eq_nil in Hn as [_ Hn].
            assert (Hin : In m (to_y2 w (allposts (st cf x)))).
            { unfold to_y2. apply in_map_iff. exists (w, m). split; [reflexivity|]. apply filter_In. split; [exact Hp|simpl; apply Z.eqb_refl]. }
            rewrite Hn in Hin. exact Hin.
          - pose proof (i_far _ _ _ _ _ HI w x H) as Hn. unfold pend in Hn.
            apply app_eq_nil in Hn as [_ Hn]. apply app_eq_nil in Hn as [_ Hn].
            assert (Hin : In m (to_y2 w (allposts (st cf x)))).
            { unfold to_y2. apply in_map_iff. exists (w, m). split; [reflexivity|]. apply filter_In. split; [exact Hp|simpl; apply Z.eqb_refl]. }
            rewrite Hn in Hin. exact Hin. }
        destruct (allposts (st cf x)) as [|p r]; [reflexivity|exfalso; apply (Hs0 p); left; reflexivity]. }
      split; [exact K|]. split; [|split; [apply (g_of1 _ _ _ _ G K)|split; [apply (g_ng3 _ _ _ _ G); lia|exact Hposts]]].
      (* no value of a cycle that nobody runs is ever sent *)
      destruct (t_nv (st cf x)) as [|[w v] r] eqn:Env; [reflexivity|exfalso].
      destruct (g_nv _ _ _ _ G) as [_ Hinc]. rewrite Env in Hinc.
      assert (Hw : In w (nbr x)) by (apply Hinc; left; reflexivity).
      pose proof (pend_nil_final cf x w HC HQ Hw) as Hn.
      pose proof (nbrs_sym d x w Hw) as Hxw. pose proof (act_of d x w Hxw) as Haw.
      pose proof (proj1 HQ w Haw) as Rw. pose proof (i_good _ _ _ _ _ HI w Rw Haw) as Gw.
      pose proof (quiescent_all_done cf HC HQ w Haw) as Dw. pose proof (quiescent_all_done cf HC HQ x Ha) as Dx.
      pose proof (p_V _ _ _ _ _ (i_pair _ _ _ _ _ HI w x Hw)) as EV. unfold CV, SV in EV. rewrite Rw, Rx, Hn, Env in EV.
      unfold kinv in EV. simpl in EV. rewrite Z.eqb_refl in EV. simpl in EV.
      pose proof (g_fin _ _ _ _ Gw) as Fw. rewrite Dw in Fw. simpl in Fw.
      pose proof (done_cycle d stop w _ Gw Dw ltac:(lia)). pose proof (done_cycle d stop x _ G Dx ltac:(lia)).
      unfold cnt in EV. simpl in EV. lia.
  Qed.

  Theorem mgm2_no_deadlock_l cf : reachable P cf -> (forall x, nbr x <> [] -> rnc cf x = true) ->
    (exists x, nbr x <> [] /\ doneb (t_cycle (st cf x)) = false) -> ~ (forall a b, chan cf a b = []).
  Proof.
    intros Hre Hrun (x & Ha & Hnd) Hq. pose proof (reachable_inv cf Hre) as HC.
    rewrite (quiescent_all_done cf HC (conj Hrun Hq) x Ha) in Hnd. discriminate.
  Qed.

  Theorem mgm2_trace_ok_l sched : 0 <= stop ->
    let cf := fst (run P sched) in let evs := snd (run P sched) in
    (forall n k, ~ In (EvErr n k) evs) /\
    (forall n k, In (EvFinished n k) evs -> k = fin_cycle n) /\
    (forall x, (count_fin x evs <= 1)%nat /\ Z.of_nat (count_fin x evs) = t_fin (st cf x)).
  Proof.
    intros Hs cf evs. destruct (exec_inv sched (init P) inv_init) as [HC (E1 & E2 & E3)].
    fold cf evs in HC, E1, E2, E3. split; [exact E1|]. split; [intros n k H; apply (E2 n k H Hs)|].
    intros x. specialize (E3 x). pose proof (fin_le1 cf x HC).
    assert (t_fin (st (init P) x) = 0) by reflexivity. unfold cf, evs, run in *. lia.
  Qed.

  (* the answer / go-no-go handshake: who may have what pending, and exactly once *)
  Theorem mgm2_partner_handshake_l cf x y : reachable P cf ->
    (forall a v g, In (M2Answer a v g) (pend cf x y) ->
       t_offerer (st cf y) = true /\ t_partner (st cf y) = Some x /\ 2 <= t_state (st cf y) <= 3 /\
       cnt 3 (pend cf x y) = 1 /\ (forall z, z <> x -> cnt 3 (pend cf z y) = 0)) /\
    (forall go, In (M2Go go) (pend cf x y) ->
       t_committed (st cf y) = true /\ t_partner (st cf y) = Some x /\ 4 <= t_state (st cf y) /\
       cnt 5 (pend cf x y) = 1 /\ (forall z, z <> x -> cnt 5 (pend cf z y) = 0)) /\
    (In x (nbr y) -> t_state (st cf y) = 3 -> t_partner (st cf y) = Some x -> 3 <= t_state (st cf x) ->
       cnt 3 (pend cf x y) = 1) /\
    (In x (nbr y) -> t_state (st cf y) = 5 -> t_partner (st cf y) = Some x -> sentGo (st cf) x y ->
       cnt 5 (pend cf x y) = 1).
  Proof.
    intros Hre. pose proof (reachable_inv cf Hre) as HC. pose proof (c_inv cf HC) as HI.
    assert (Hnb : forall m, In m (pend cf x y) -> In x (nbr y)).
    { intros m Hm. destruct (in_dec Z.eq_dec x (nbr y)) as [H|H]; [exact H|]. rewrite (i_far _ _ _ _ _ HI x y H) in Hm. destruct Hm. }
    assert (Hoth : forall k z, cnt k (pend cf z y) = 0 \/ In z (nbr y)).
    { intros k z. destruct (in_dec Z.eq_dec z (nbr y)) as [H|H]; [right; exact H|left]. rewrite (i_far _ _ _ _ _ HI z y H). reflexivity. }
    split; [|split; [|split]].
    - intros a v g Hin. pose proof (Hnb _ Hin) as Hxy. pose proof (i_pair _ _ _ _ _ HI x y Hxy) as Pxy.
      pose proof (in_cnt_pos _ _ Hin) as Hc. simpl in Hc.
      assert (HA : expA (st cf) y x /\ 3 <= t_state (st cf x)).
      { unfold expA. destruct (t_offerer (st cf y)) eqn:Eo.
        2:{ exfalso. rewrite (p_A0 _ _ _ _ _ Pxy) in Hc; [lia|]. unfold expA. intros [(E & _) _]. congruence. }
        destruct (t_partner (st cf y)) as [p|] eqn:Ep.
        2:{ exfalso. rewrite (p_A0 _ _ _ _ _ Pxy) in Hc; [lia|]. unfold expA. intros [(_ & E & _) _]. congruence. }
        destruct (Z.eq_dec p x) as [->|Hne].
        2:{ exfalso. rewrite (p_A0 _ _ _ _ _ Pxy) in Hc; [lia|]. unfold expA. intros [(_ & E & _) _]. congruence. }
        destruct (Z_le_gt_dec 2 (t_state (st cf y))) as [H2|H2].
        2:{ exfalso. rewrite (p_A0 _ _ _ _ _ Pxy) in Hc; [lia|]. unfold expA. intros [(_ & _ & E) _]. lia. }
        destruct (Z_le_gt_dec (t_state (st cf y)) 3) as [H3|H3].
        2:{ exfalso. rewrite (p_A0 _ _ _ _ _ Pxy) in Hc; [lia|]. unfold expA. intros [(_ & _ & E) _]. lia. }
        destruct (Z_le_gt_dec 3 (t_state (st cf x))) as [H4|H4].
        2:{ exfalso. rewrite (p_A0 _ _ _ _ _ Pxy) in Hc; [lia|]. intros [_ E]. lia. }
        repeat split; auto. }
      destruct HA as [(A1 & A2 & A3) A4]. repeat split; try assumption; try lia.
      + apply (p_A1 _ _ _ _ _ Pxy); [unfold expA; auto|exact A4].
      + intros z Hz. destruct (Hoth 3 z) as [H|H]; [exact H|].
        apply (p_A0 _ _ _ _ _ (i_pair _ _ _ _ _ HI z y H)). unfold expA. intros [(_ & E & _) _]. congruence.
    - intros go Hin. pose proof (Hnb _ Hin) as Hxy. pose proof (i_pair _ _ _ _ _ HI x y Hxy) as Pxy.
      pose proof (in_cnt_pos _ _ Hin) as Hc. simpl in Hc.
      assert (HG : expG (st cf) y x /\ sentGo (st cf) x y).
      { unfold expG, sentGo. destruct (t_committed (st cf y)) eqn:Eo.
        2:{ exfalso. rewrite (p_Go0 _ _ _ _ _ Pxy) in Hc; [lia|]. unfold expG. intros [(E & _) _]. congruence. }
        destruct (t_partner (st cf y)) as [p|] eqn:Ep.
        2:{ exfalso. rewrite (p_Go0 _ _ _ _ _ Pxy) in Hc; [lia|]. unfold expG. intros [(_ & E & _) _]. congruence. }
        destruct (Z.eq_dec p x) as [->|Hne].
        2:{ exfalso. rewrite (p_Go0 _ _ _ _ _ Pxy) in Hc; [lia|]. unfold expG. intros [(_ & E & _) _]. congruence. }
        destruct (Z_le_gt_dec 4 (t_state (st cf y))) as [H2|H2].
        2:{ exfalso. rewrite (p_Go0 _ _ _ _ _ Pxy) in Hc; [lia|]. unfold expG. intros [(_ & _ & E) _]. lia. }
        destruct (Z.eq_dec (t_cycle (st cf x)) (t_cycle (st cf y) + 1)) as [H3|H3]; [repeat split; auto|].
        destruct (Z.eq_dec (t_cycle (st cf x)) (t_cycle (st cf y))) as [H4|H4].
        2:{ exfalso. rewrite (p_Go0 _ _ _ _ _ Pxy) in Hc; [lia|]. unfold sentGo. intros [_ [[E _]|E]]; lia. }
        destruct (Z.eq_dec (t_state (st cf x)) 5) as [H5|H5]; [repeat split; auto|].
        exfalso. rewrite (p_Go0 _ _ _ _ _ Pxy) in Hc; [lia|]. unfold sentGo. intros [_ [[_ E]|E]]; lia. }
      destruct HG as [(A1 & A2 & A3) A4]. repeat split; try assumption.
      + apply (p_Go1 _ _ _ _ _ Pxy); [unfold expG; auto|exact A4].
      + intros z Hz. destruct (Hoth 5 z) as [H|H]; [exact H|].
        apply (p_Go0 _ _ _ _ _ (i_pair _ _ _ _ _ HI z y H)). unfold expG. intros [(_ & E & _) _]. congruence.
    - intros Hxy K Hp H3. pose proof (i_pair _ _ _ _ _ HI x y Hxy) as Pxy.
      destruct (rnc cf y) eqn:Ry.
      + pose proof (i_good _ _ _ _ _ HI y Ry (act_of d x y Hxy)) as G.
        apply (p_A1 _ _ _ _ _ Pxy); [|exact H3]. unfold expA. rewrite K. repeat split; try lia; [apply (g_k3 _ _ _ _ G K)|exact Hp].
      + pose proof (idle_tabf (st cf y) x (i_idle _ _ _ _ _ HI y Ry)) as (T1 & _). rewrite T1 in K. discriminate.
    - intros Hxy K Hp Hs. pose proof (i_pair _ _ _ _ _ HI x y Hxy) as Pxy.
      destruct (rnc cf y) eqn:Ry.
      + pose proof (i_good _ _ _ _ _ HI y Ry (act_of d x y Hxy)) as G.
        apply (p_Go1 _ _ _ _ _ Pxy); [|exact Hs]. unfold expG. rewrite K. repeat split; try lia; [apply (g_k5 _ _ _ _ G K)|exact Hp].
      + pose proof (idle_tabf (st cf y) x (i_idle _ _ _ _ _ HI y Ry)) as (T1 & _). rewrite T1 in K. discriminate.
  Qed.
End Global.

(* ================================================================ closed statements *)
(* phases of neighbours: at most one cycle apart, and then only "value of the next cycle" against
   "gain / go of this cycle"; inside a cycle nobody is two phases ahead of a neighbour it depends on *)
Lemma mgm2_phase_order_l d stop thr favor orc fuel cf a b : fuel_ok d fuel ->
  reachable (mgm2_proto_f d stop thr favor orc fuel) cf -> In a (nbrs d b) ->
  w_running (nodes cf a) = true -> w_running (nodes cf b) = true ->
  let sa := w_st (nodes cf a) in let sb := w_st (nodes cf b) in
  t_cycle sa <= t_cycle sb + 1 /\
  (t_cycle sa = t_cycle sb + 1 -> t_state sa = 1 /\ 4 <= t_state sb) /\
  (t_cycle sa = t_cycle sb -> (3 <= t_state sa -> 2 <= t_state sb) /\ (t_state sa = 5 -> 4 <= t_state sb)).
Proof.
  intros Hf Hre Hab Ra Rb sa sb. pose proof (c_inv _ _ _ _ (reachable_inv d stop thr favor orc fuel Hf cf Hre)) as HI.
  destruct (pos_facts d stop _ _ _ HI a b Hab Ra Rb) as (Q1 & Q2 & Q3).
  split; [exact Q1|]. split.
  - intros E. destruct (Q2 E) as (A & B & _). auto.
  - intros E. destruct (Q3 E) as (A & B & _). auto.
Qed.

Lemma mgm2_terminates_k_run_l d stop thr favor orc fuel sched : fuel_ok d fuel -> 0 < stop ->
  let cf := fst (run (mgm2_proto_f d stop thr favor orc fuel) sched) in
  let evs := snd (run (mgm2_proto_f d stop thr favor orc fuel) sched) in
  (forall x, nbrs d x <> [] -> w_running (nodes cf x) = true) -> (forall a b, chan cf a b = []) ->
  (forall n k, ~ In (EvErr n k) evs) /\
  (forall x, w_running (nodes cf x) = true ->
     count_fin x evs = 1%nat /\ (forall k, In (EvFinished x k) evs -> k = P_Mgm3c.fin_cycle d stop x) /\
     t_cycle (w_st (nodes cf x)) = P_Mgm3c.fin_cycle d stop x /\ t_fin (w_st (nodes cf x)) = 1 /\
     w_held (nodes cf x) = [] /\
     (nbrs d x <> [] ->
        t_state (w_st (nodes cf x)) = 1 /\ t_nv (w_st (nodes cf x)) = [] /\ t_offers (w_st (nodes cf x)) = [] /\
        t_ng (w_st (nodes cf x)) = [] /\ allposts (w_st (nodes cf x)) = [])).
Proof.
  intros Hf Hs cf evs Hrun Hempty.
  destruct (mgm2_trace_ok_l d stop thr favor orc fuel Hf sched ltac:(lia)) as (E1 & E2 & E3). fold cf evs in E1, E2, E3.
  split; [exact E1|]. intros x Rx.
  assert (Hre : reachable (mgm2_proto_f d stop thr favor orc fuel) cf) by (apply exec_reachable; constructor).
  destruct (mgm2_terminates_k_l d stop thr favor orc fuel Hf cf Hs Hre (conj Hrun Hempty) x Rx) as (B1 & B2 & B3 & B4).
  destruct (E3 x) as [C1 C2]. unfold st in *.
  split; [lia|]. split; [intros k Hk; apply (E2 x k Hk)|]. auto.
Qed.

(* the model checked against the real code (M_Mgm2.mgm2_proto) is the instance fuel = FUEL *)
Lemma mgm2_start_FUEL d stop thr favor n s : mgm2_start_f d stop thr favor FUEL n s = mgm2_start d stop thr favor n s.
Proof. unfold mgm2_start_f, mgm2_start. destruct (nbrs d n); reflexivity. Qed.

Lemma mgm2_reachable_FUEL d stop thr favor orc cf :
  reachable (mgm2_proto d stop thr favor orc) cf -> reachable (mgm2_proto_f d stop thr favor orc FUEL) cf.
Proof.
  induction 1 as [|cf a Hre IH]; [apply (reach_init (mgm2_proto_f d stop thr favor orc FUEL))|].
  assert (E : step (mgm2_proto d stop thr favor orc) cf a = step (mgm2_proto_f d stop thr favor orc FUEL) cf a).
  { destruct a as [n|s0 d0]; simpl; [rewrite mgm2_start_FUEL; reflexivity|reflexivity]. }
  rewrite E. apply reach_step. exact IH.
Qed.

Lemma mgm2_run_FUEL d stop thr favor orc sched :
  run (mgm2_proto d stop thr favor orc) sched = run (mgm2_proto_f d stop thr favor orc FUEL) sched.
Proof.
  unfold run. change (init (mgm2_proto d stop thr favor orc)) with (init (mgm2_proto_f d stop thr favor orc FUEL)).
  generalize (init (mgm2_proto_f d stop thr favor orc FUEL)) as cf.
  induction sched as [|a r IH]; intros cf; [reflexivity|]. simpl.
  assert (E : step (mgm2_proto d stop thr favor orc) cf a = step (mgm2_proto_f d stop thr favor orc FUEL) cf a).
  { destruct a as [n|s0 d0]; simpl; [rewrite mgm2_start_FUEL; reflexivity|reflexivity]. }
  rewrite E. destruct (step (mgm2_proto_f d stop thr favor orc FUEL) cf a) as [cf1 e1]. rewrite IH. reflexivity.
Qed.

(* every variable has at most 5 neighbours: FUEL = 60 is enough *)
Lemma fuel_ok_FUEL d : (forall n, (length (nbrs d n) <= 5)%nat) -> fuel_ok d FUEL.
Proof. intros H n. specialize (H n). unfold FUEL. lia. Qed.

Lemma mgm2_terminates_k_FUEL_l d stop thr favor orc sched : (forall n, (length (nbrs d n) <= 5)%nat) -> 0 < stop ->
  let cf := fst (run (mgm2_proto d stop thr favor orc) sched) in
  let evs := snd (run (mgm2_proto d stop thr favor orc) sched) in
  (forall x, nbrs d x <> [] -> w_running (nodes cf x) = true) -> (forall a b, chan cf a b = []) ->
  (forall n k, ~ In (EvErr n k) evs) /\
  (forall x, w_running (nodes cf x) = true ->
     count_fin x evs = 1%nat /\ (forall k, In (EvFinished x k) evs -> k = P_Mgm3c.fin_cycle d stop x) /\
     t_cycle (w_st (nodes cf x)) = P_Mgm3c.fin_cycle d stop x /\ t_fin (w_st (nodes cf x)) = 1).
Proof.
  intros Hd Hs. rewrite mgm2_run_FUEL. intros cf evs Hrun Hempty.
  destruct (mgm2_terminates_k_run_l d stop thr favor orc FUEL sched (fuel_ok_FUEL d Hd) Hs Hrun Hempty) as [A B].
  split; [exact A|]. intros x Rx. destruct (B x Rx) as (B1 & B2 & B3 & B4 & _). auto.
Qed.
