(* P_Mgm2z.v -- MGM2, part 4 of the global barrier proof: from the abstract world of P_Mgm2y.v to the
   real network model (Net.v + M_Mgm2x.mgm2_proto_f): the pending bag of an ordered pair is
   pre-start buffer ++ channel ++ postponed lists of the receiver; one real handler execution (with
   the nested re-dispatch of postponed messages) is a sequence of micro-steps; every reachable
   configuration satisfies the invariant; consequences (termination after k cycles, no deadlock,
   no handler error, partner handshake). *)
From Coq Require Import ZArith List Bool Lia.
From PyDcop Require Import Base Net M_Mgm M_Mgm2 M_Mgm2x P_Mgm P_Mgm3 P_Mgm3c P_Mgm2x P_Mgm2y P_Mgm2s.
Import ListNotations.
Open Scope Z_scope.

Local Notation length := List.length.

(* ------------------------------------------------------------------ generic extensionality *)
Section Ext.
  Variable d : dcop.
  Variable stop : Z.
  Notation nbr := (nbrs d).

  Lemma good_skel_ext n s s' : skel s' = skel s -> good d stop n s -> good d stop n s'.
  Proof.
    unfold skel. intros H G. injection H as H1 H2 H3 H4 H5 H6 H7 H8 H9 H10.
    destruct G. constructor; rewrite ?H1, ?H2, ?H3, ?H4, ?H5, ?H6, ?H7, ?H8, ?H9, ?H10; assumption.
  Qed.

  Lemma InvA_ext rn rn' S S' pd pd' :
    (forall n, rn' n = rn n) -> (forall n, skel (S' n) = skel (S n)) -> (forall a b, pd' a b = pd a b) ->
    InvA d stop rn S pd -> InvA d stop rn' S' pd'.
  Proof.
    intros Hr Hs Hp [I1 I2 I3 I4 I5]. constructor.
    - intros n Hn. rewrite Hr in Hn. unfold idle_skel. rewrite Hs. apply I1. exact Hn.
    - intros n Hn Hi. rewrite Hr in Hn. destruct (I2 n Hn Hi) as [A B].
      pose proof (Hs n) as E. unfold skel in E. injection E as E1 E2 E3 _ _ _ _ _ _ _. rewrite E2, E3. auto.
    - intros n Hn Ha. rewrite Hr in Hn. apply (good_skel_ext n (S n)); [apply Hs|apply I3; assumption].
    - intros x y Hxy. specialize (I4 x y Hxy).
      assert (I4' : pairI rn S' pd' x y).
      { apply (pairI_ext rn S pd); [apply skel_skelS; apply Hs|apply Hs|intros k; rewrite Hp; reflexivity
                                   |intros m; rewrite Hp; auto|exact I4]. }
      destruct I4'. constructor; unfold SV, CV, SO, CO, SG, CG in *; rewrite ?Hr; assumption.
    - intros x y Hxy. rewrite Hp. apply I5. exact Hxy.
  Qed.

  (* bags only matter through counts per kind and membership *)
  Lemma InvA_bag_ext rn S pd pd' :
    (forall a b k, cnt k (pd' a b) = cnt k (pd a b)) -> (forall a b m, In m (pd' a b) -> In m (pd a b)) ->
    InvA d stop rn S pd -> InvA d stop rn S pd'.
  Proof.
    intros Hc Hi [I1 I2 I3 I4 I5]. constructor; try assumption.
    - intros x y Hxy. apply (pairI_ext rn S pd); try reflexivity; [apply Hc|apply Hi|apply I4; exact Hxy].
    - intros x y Hxy. specialize (I5 x y Hxy). destruct (pd' x y) as [|m r] eqn:E; [reflexivity|].
      exfalso. assert (In m (pd x y)) by (apply Hi; rewrite E; left; reflexivity). rewrite I5 in H. exact H.
  Qed.
End Ext.

(* ------------------------------------------------------------------ postponed lists *)
Definition allposts (s : m2st) : list (Z * m2msg) :=
  t_pvalue s ++ t_poffer s ++ t_panswer s ++ t_pgainm s ++ t_pgo s.
Definition kinds_ok (s : m2st) : Prop :=
  Forall (fun sm => kind_of (snd sm) = 1) (t_pvalue s) /\ Forall (fun sm => kind_of (snd sm) = 2) (t_poffer s) /\
  Forall (fun sm => kind_of (snd sm) = 3) (t_panswer s) /\ Forall (fun sm => kind_of (snd sm) = 4) (t_pgainm s) /\
  Forall (fun sm => kind_of (snd sm) = 5) (t_pgo s).

Lemma posts_allposts s s' : posts s' = posts s -> allposts s' = allposts s.
Proof. unfold posts, allposts. intros H. injection H as -> -> -> -> ->. reflexivity. Qed.
Lemma posts_kinds s s' : posts s' = posts s -> kinds_ok s -> kinds_ok s'.
Proof. unfold posts, kinds_ok. intros H. injection H as -> -> -> -> ->. auto. Qed.
Lemma posts_get s s' k : posts s' = posts s -> get_post s' k = get_post s k.
Proof. unfold posts, get_post. intros H. injection H as -> -> -> -> ->. reflexivity. Qed.

Lemma skel_set_post s k l : skel (set_post s k l) = skel s.
Proof. unfold set_post. destruct (k =? 1), (k =? 2), (k =? 3), (k =? 4); destruct s; reflexivity. Qed.

Lemma get_set_post s k l : 1 <= k <= 5 -> get_post (set_post s k l) k = l.
Proof.
  intros H. unfold get_post, set_post.
  destruct (Z.eqb_spec k 1); [destruct s; reflexivity|]. destruct (Z.eqb_spec k 2); [destruct s; reflexivity|].
  destruct (Z.eqb_spec k 3); [destruct s; reflexivity|]. destruct (Z.eqb_spec k 4); destruct s; reflexivity.
Qed.
Lemma get_set_post_other s k k' l : 1 <= k <= 5 -> 1 <= k' <= 5 -> k' <> k -> get_post (set_post s k l) k' = get_post s k'.
Proof.
  intros H H' Hne. unfold get_post, set_post.
  destruct (Z.eqb_spec k 1); [|destruct (Z.eqb_spec k 2); [|destruct (Z.eqb_spec k 3); [|destruct (Z.eqb_spec k 4)]]];
  destruct (Z.eqb_spec k' 1); try lia; destruct (Z.eqb_spec k' 2); try lia; destruct (Z.eqb_spec k' 3); try lia;
  destruct (Z.eqb_spec k' 4); try lia; destruct s; reflexivity.
Qed.

(* the list of all postponed messages around the list of kind k *)
Lemma allposts_split s k : 1 <= k <= 5 ->
  exists A B, allposts s = A ++ get_post s k ++ B /\ forall l, allposts (set_post s k l) = A ++ l ++ B.
Proof.
  intros H. unfold allposts, get_post, set_post.
  destruct (Z.eqb_spec k 1).
  { exists [], (t_poffer s ++ t_panswer s ++ t_pgainm s ++ t_pgo s). split; [reflexivity|intros l; destruct s; reflexivity]. }
  destruct (Z.eqb_spec k 2).
  { exists (t_pvalue s), (t_panswer s ++ t_pgainm s ++ t_pgo s). split; [reflexivity|intros l; destruct s; reflexivity]. }
  destruct (Z.eqb_spec k 3).
  { exists (t_pvalue s ++ t_poffer s), (t_pgainm s ++ t_pgo s). split; [rewrite <- !app_assoc; reflexivity|].
    intros l; destruct s; simpl; rewrite <- !app_assoc; reflexivity. }
  destruct (Z.eqb_spec k 4).
  { exists (t_pvalue s ++ t_poffer s ++ t_panswer s), (t_pgo s). split; [rewrite <- !app_assoc; reflexivity|].
    intros l; destruct s; simpl; rewrite <- !app_assoc; reflexivity. }
  exists (t_pvalue s ++ t_poffer s ++ t_panswer s ++ t_pgainm s), []. split; [rewrite app_nil_r, <- !app_assoc; reflexivity|].
  intros l; destruct s; simpl; rewrite app_nil_r, <- !app_assoc; reflexivity.
Qed.

Lemma kinds_get s k : 1 <= k <= 5 -> kinds_ok s -> Forall (fun sm => kind_of (snd sm) = k) (get_post s k).
Proof.
  intros H (K1 & K2 & K3 & K4 & K5). unfold get_post.
  destruct (Z.eqb_spec k 1) as [->|]; [exact K1|]. destruct (Z.eqb_spec k 2) as [->|]; [exact K2|].
  destruct (Z.eqb_spec k 3) as [->|]; [exact K3|]. destruct (Z.eqb_spec k 4) as [->|]; [exact K4|].
  assert (k = 5) by lia. subst. exact K5.
Qed.
Lemma kinds_set s k l : 1 <= k <= 5 -> kinds_ok s -> Forall (fun sm => kind_of (snd sm) = k) l -> kinds_ok (set_post s k l).
Proof.
  intros H (K1 & K2 & K3 & K4 & K5) Hl. unfold kinds_ok, set_post.
  destruct (Z.eqb_spec k 1) as [->|]; [destruct s; simpl in *; auto 10|].
  destruct (Z.eqb_spec k 2) as [->|]; [destruct s; simpl in *; auto 10|].
  destruct (Z.eqb_spec k 3) as [->|]; [destruct s; simpl in *; auto 10|].
  destruct (Z.eqb_spec k 4) as [->|]; [destruct s; simpl in *; auto 10|].
  assert (k = 5) by lia. subst. destruct s; simpl in *; auto 10.
Qed.

Lemma pop_last_spec {A} (l : list A) : match pop_last l with None => l = [] | Some (r, x) => l = r ++ [x] end.
Proof.
  induction l as [|a r IH]; simpl; [reflexivity|].
  destruct (pop_last r) as [[r' y]|]; [rewrite IH; reflexivity|rewrite IH; reflexivity].
Qed.

Lemma loop_eq d stop thr favor n f st s :
  loop d stop thr favor n f st s =
  match pop_last (get_post s st) with
  | None => ret2 s
  | Some (rest, (src, m)) =>
      match f with
      | O => (s, [], [EvErr n 7])
      | S f' => andthen2 (on_msg d stop thr favor n (enter d stop thr favor n f') (set_post s st rest) src m)
                         (loop d stop thr favor n f' st)
      end
  end.
Proof. destruct f; reflexivity. Qed.

Lemma to_y2_single a x (m : m2msg) : to_y2 a [(x, m)] = if x =? a then [m] else [].
Proof. unfold to_y2. simpl. destruct (x =? a); reflexivity. Qed.

(* ------------------------------------------------------------------ events *)
Section Events.
  Variable d : dcop.
  Variable stop : Z.
  Notation doneb := (P_Mgm2x.doneb stop).

  Definition EvP (y : node) (s s' : m2st) (e : list mev) : Prop :=
    noerr e /\ (forall n k, In (EvFinished n k) e -> n = y /\ (0 <= stop -> k = stop)) /\
    t_fin s' = t_fin s + Z.of_nat (count_fin y e).

  Lemma EvP_nil y s s' : t_fin s' = t_fin s -> EvP y s s' [].
  Proof. intros H. split; [intros n k []|split; [intros n k []|simpl; lia]]. Qed.

  Lemma EvP_app y s s1 s2 e1 e2 : EvP y s s1 e1 -> EvP y s1 s2 e2 -> EvP y s s2 (e1 ++ e2).
  Proof.
    intros (A1 & A2 & A3) (B1 & B2 & B3). split; [|split].
    - intros n k H. apply in_app_or in H as [H|H]; [apply (A1 n k H)|apply (B1 n k H)].
    - intros n k H. apply in_app_or in H as [H|H]; [apply (A2 n k H)|apply (B2 n k H)].
    - rewrite count_fin_app, Nat2Z.inj_add. lia.
  Qed.

  Lemma done_cycle n s : good d stop n s -> doneb (t_cycle s) = true -> 0 <= stop -> t_cycle s = stop.
  Proof.
    intros G Hd Hs. unfold P_Mgm2x.doneb in Hd. apply andb_true_iff in Hd as [H1 H2].
    apply negb_true_iff in H1. apply Z.eqb_neq in H1. apply Z.leb_le in H2.
    destruct (g_prev _ _ _ _ G) as [Hc|Hc]; [lia|].
    unfold P_Mgm2x.doneb in Hc. apply andb_false_iff in Hc as [Hc|Hc].
    - apply negb_false_iff in Hc. apply Z.eqb_eq in Hc. lia.
    - apply Z.leb_gt in Hc. lia.
  Qed.

  Lemma evok_EvP y s s2 e : good d stop y s2 -> evok stop y s s2 e -> EvP y s s2 e.
  Proof.
    intros G (A1 & A2 & A3). split; [exact A1|split; [|exact A3]].
    intros n k H. destruct (A2 n k H) as (E1 & E2 & E3). split; [exact E1|]. intros Hs. subst k.
    apply (done_cycle y s2 G E3 Hs).
  Qed.
End Events.

(* ------------------------------------------------------------------ one real handler = micro-steps *)
Section Loop.
  Variable d : dcop.
  Variable stop thr favor : Z.
  Notation nbr := (nbrs d).
  Notation InvA := (InvA d stop).
  Notation loop := (loop d stop thr favor).
  Notation mstep := (mstep d stop thr favor).

  (* the micro-step lemmas (P_Mgm2sV/O/A/G) and the factorisation of the handlers (P_Mgm2f) *)
  Hypothesis step_any : forall rn S pd, InvA rn S pd -> forall y x m l1 l2,
    rn y = true -> pd x y = l1 ++ m :: l2 -> kind_of m = t_state (S y) ->
    step_ok d stop thr favor rn S pd y x m l1 l2.
  Hypothesis on_msg_factor : forall n f s x m,
    on_msg d stop thr favor n (enter d stop thr favor n (S f)) s x m =
      (let r := mstep n s x m in
       if t_state (fst (fst r)) =? t_state s then r
       else andthen2 r (fun s' => loop n f (t_state s') s')).

  Variable rn : node -> bool.
  Variable S0 : node -> m2st.
  Variable y : node.
  Hypothesis Ry : rn y = true.
  Hypothesis Hact : nbr y <> [].

  (* [base]: all bags, without the postponed lists of y *)
  Definition pdV (base : node -> node -> list m2msg) (s : m2st) (o : list (node * m2msg)) : node -> node -> list m2msg :=
    fun a b => if a =? y then base a b ++ to_y2 b o
               else if b =? y then base a y ++ to_y2 a (allposts s) else base a b.
  Definition VInv (base : node -> node -> list m2msg) (s : m2st) (o : list (node * m2msg)) : Prop :=
    InvA rn (updS S0 y s) (pdV base s o) /\ kinds_ok s /\ ~ In y (map fst (allposts s)).

  Lemma VInv_good base s o : VInv base s o -> good d stop y s.
  Proof. intros [HI _]. pose proof (i_good _ _ _ _ _ HI y Ry Hact) as G. rewrite updS_same in G. exact G. Qed.

  Lemma to_y2_nil_notin a (l : list (Z * m2msg)) : ~ In a (map fst l) -> to_y2 a l = [].
  Proof.
    unfold to_y2. induction l as [|[b m] r IH]; simpl; intros H; [reflexivity|].
    destruct (Z.eqb_spec b a) as [->|Hne]; [exfalso; apply H; left; reflexivity|]. apply IH. intros Hc. apply H. right. exact Hc.
  Qed.

  (* after a micro-step that left state [st], nothing of kind [st] is postponed any more *)
  Lemma drained base s o st : VInv base s o -> 1 <= st <= 5 ->
    (forall x', In x' (nbr y) -> cnt st (pdV base s o x' y) = 0) -> get_post s st = [].
  Proof.
    intros (HI & HK & HS) Hst H0. destruct (get_post s st) as [|[x m] r] eqn:E; [reflexivity|exfalso].
    pose proof (kinds_get s st Hst HK) as F. rewrite E in F. apply Forall_inv in F. simpl in F.
    destruct (allposts_split s st Hst) as (A & B & EA & _). rewrite E in EA.
    assert (Hne : x <> y).
    { intros ->. apply HS. rewrite EA, !map_app. apply in_or_app. right. apply in_or_app. left. left. reflexivity. }
    assert (Hin : In m (pdV base s o x y)).
    { unfold pdV. apply Z.eqb_neq in Hne. rewrite Hne, Z.eqb_refl. apply in_or_app. right.
      rewrite EA, !to_y2_app. apply in_or_app. right. apply in_or_app. left.
      unfold to_y2. simpl. rewrite Z.eqb_refl. left. reflexivity. }
    destruct (in_dec Z.eq_dec x (nbr y)) as [Hx|Hx].
    - pose proof (in_cnt_pos _ _ Hin) as Hc. rewrite F, (H0 x Hx) in Hc. lia.
    - rewrite (i_far _ _ _ _ _ HI x y Hx) in Hin. destruct Hin.
  Qed.

  Definition noself (s : m2st) : Prop := ~ In y (map fst (allposts s)).

  (* one micro-step inside a handler execution: the consumed message is somewhere in bag (x, y) *)
  Lemma micro base base' s o x m l1 l2 s1 :
    VInv base s o -> pdV base s o x y = l1 ++ m :: l2 -> kind_of m = t_state s ->
    skel s1 = skel s -> kinds_ok s1 -> noself s1 ->
    (forall a b, b <> y \/ a = y -> base' a b = base a b) ->
    (forall a, a <> y -> (if a =? x then l1 ++ l2 else pdV base s o a y) = base' a y ++ to_y2 a (allposts s1)) ->
    forall s2 o2 e2, mstep y s1 x m = (s2, o2, e2) ->
      VInv base' s2 (o ++ o2) /\ EvP stop y s s2 e2 /\ posts s2 = posts s1 /\
      (t_state s2 <> t_state s -> get_post s2 (t_state s) = []).
  Proof.
    intros (HI & HK & HS) Hp Hk Hsk HK1 HS1 Hb' Hbag s2 o2 e2 Hm.
    assert (Kst : t_state s1 = t_state s) by (unfold skel in Hsk; injection Hsk; auto).
    assert (Kfin : t_fin s1 = t_fin s) by (unfold skel in Hsk; injection Hsk; auto).
    assert (HI1 : InvA rn (updS S0 y s1) (pdV base s o)).
    { apply (InvA_ext d stop rn rn (updS S0 y s) (updS S0 y s1) (pdV base s o) (pdV base s o)); auto.
      intros n0. unfold updS. destruct (n0 =? y); [exact Hsk|reflexivity]. }
    assert (Hxy : In x (nbr y)) by (apply (pending_nbr d stop rn _ _ HI1 x y l1 m l2 Hp)).
    assert (Hne : x <> y) by (intros ->; eapply nbrs_irrefl; eauto).
    pose proof (step_any rn _ _ HI1 y x m l1 l2 Ry Hp) as Hstep. unfold step_ok in Hstep. rewrite !updS_same in Hstep.
    rewrite Kst in Hstep. specialize (Hstep Hk s2 o2 e2 Hm).
    destruct Hstep as (HI2 & Hev & Hpo & Hdr).
    assert (Hbags : forall a b, pdV base' s2 (o ++ o2) a b = pd_step (pdV base s o) x y (l1 ++ l2) o2 a b).
    { intros a b. unfold pd_step. destruct (Z.eqb_spec a y) as [->|Ha].
      - unfold pdV. rewrite Z.eqb_refl. rewrite to_y2_app, app_assoc, Hb' by (right; reflexivity). reflexivity.
      - destruct (Z.eqb_spec b y) as [->|Hb].
        + rewrite andb_true_r. specialize (Hbag a Ha). unfold pdV at 1. apply Z.eqb_neq in Ha. rewrite Ha, Z.eqb_refl.
          rewrite (posts_allposts _ _ Hpo). symmetry. exact Hbag.
        + rewrite andb_false_r. unfold pdV. rewrite Hb' by (left; exact Hb). apply Z.eqb_neq in Ha, Hb. rewrite Ha, Hb. reflexivity. }
    assert (HV2 : VInv base' s2 (o ++ o2)).
    { split; [|split].
      - apply (InvA_ext d stop rn rn (updS (updS S0 y s1) y s2) (updS S0 y s2) (pd_step (pdV base s o) x y (l1 ++ l2) o2) (pdV base' s2 (o ++ o2))); auto.
        intros n0. unfold updS. destruct (n0 =? y); reflexivity.
      - apply (posts_kinds _ _ Hpo HK1).
      - unfold noself in *. rewrite (posts_allposts _ _ Hpo). exact HS1. }
    split; [exact HV2|]. split; [|split; [exact Hpo|]].
    - destruct (evok_EvP d stop y s1 s2 e2 (VInv_good _ _ _ HV2) Hev) as (E1 & E2 & E3).
      split; [exact E1|split; [exact E2|rewrite <- Kfin; exact E3]].
    - intros Hc. specialize (Hdr Hc).
      apply (drained base' s2 (o ++ o2) (t_state s) HV2).
      + pose proof (g_k _ _ _ _ (VInv_good base _ _ (conj HI (conj HK HS)))). assumption.
      + intros x' Hx'. rewrite Hbags. apply Hdr. exact Hx'.
  Qed.

  Definition LoopPost (base : node -> node -> list m2msg) (s : m2st) (o : list (node * m2msg)) (r : res2) : Prop :=
    VInv base (fst (fst r)) (o ++ snd (fst r)) /\ get_post (fst (fst r)) (t_state (fst (fst r))) = [] /\
    (length (allposts (fst (fst r))) <= length (allposts s))%nat /\
    (forall k, 1 <= k <= 5 -> get_post s k = [] -> get_post (fst (fst r)) k = []) /\
    EvP stop y s (fst (fst r)) (snd r).

  Lemma LoopPost_then base s o s2 o2 e2 r :
    (length (allposts s2) <= length (allposts s))%nat ->
    (forall k, 1 <= k <= 5 -> get_post s k = [] -> get_post s2 k = []) ->
    EvP stop y s s2 e2 -> LoopPost base s2 (o ++ o2) r ->
    LoopPost base s o (let '(s', o', e') := r in (s', o2 ++ o', e2 ++ e')).
  Proof.
    intros Hl Hk He. destruct r as [[s' o'] e']. unfold LoopPost. simpl.
    intros (A1 & A2 & A3 & A4 & A5). rewrite app_assoc. split; [exact A1|split; [exact A2|split; [lia|split]]].
    - intros k Hk1 Hk2. apply A4; [exact Hk1|]. apply Hk; assumption.
    - eapply EvP_app; eassumption.
  Qed.

  Lemma loop_ok base : forall f st s o, VInv base s o -> 1 <= st <= 5 ->
    (t_state s = st \/ (get_post s st = [] /\ get_post s (t_state s) = [])) ->
    (2 * length (allposts s) <= f)%nat -> LoopPost base s o (loop y f st s).
  Proof.
    induction f as [f IH] using lt_wf_ind. intros st s o HV Hst Hdis Hfuel.
    rewrite loop_eq. pose proof (pop_last_spec (get_post s st)) as Hpop.
    destruct (pop_last (get_post s st)) as [[rest [x m]]|].
    - assert (Hts : t_state s = st).
      { destruct Hdis as [H|[H _]]; [exact H|]. rewrite H in Hpop. destruct rest; discriminate. }
      destruct HV as (HI & HK & HS).
      destruct (allposts_split s st Hst) as (A & B & EA & ES). rewrite Hpop in EA.
      assert (Hlen : length (allposts s) = S (length (A ++ rest ++ B))).
      { rewrite EA, !app_length. simpl. lia. }
      destruct f as [|[|f2]]; [lia|lia|].
      pose proof (kinds_get s st Hst HK) as HF. rewrite Hpop in HF. apply Forall_app in HF as [HFr HFm].
      apply Forall_inv in HFm. simpl in HFm.
      assert (Hxy : x <> y).
      { intros ->. apply HS. rewrite EA, !map_app. apply in_or_app. right. apply in_or_app. left.
        apply in_or_app. right. left. reflexivity. }
      set (s1 := set_post s st rest).
      assert (EA1 : allposts s1 = A ++ rest ++ B) by apply ES.
      rewrite on_msg_factor. cbv zeta.
      destruct (mstep y s1 x m) as [[s2 o2] e2] eqn:Hm. simpl fst.
      destruct (micro base base s o x m (base x y ++ to_y2 x (A ++ rest)) (to_y2 x B) s1 (conj HI (conj HK HS))) with (s2 := s2) (o2 := o2) (e2 := e2)
        as (HV2 & Ev2 & Hpo & Hdr).
      { unfold pdV. apply Z.eqb_neq in Hxy. rewrite Hxy, Z.eqb_refl. rewrite EA.
        rewrite !to_y2_app, to_y2_single, Z.eqb_refl. rewrite <- !app_assoc. reflexivity. }
      { rewrite Hts. exact HFm. }
      { apply skel_set_post. }
      { apply kinds_set; assumption. }
      { unfold noself. rewrite EA1. intros Hc. apply HS. rewrite EA. rewrite !map_app in *.
        apply in_app_or in Hc as [Hc|Hc]; [apply in_or_app; left; exact Hc|].
        apply in_or_app. right. apply in_app_or in Hc as [Hc|Hc]; apply in_or_app; [left; apply in_or_app; left; exact Hc|right; exact Hc]. }
      { reflexivity. }
      { intros a Ha. rewrite EA1. destruct (Z.eqb_spec a x) as [->|Hax].
        - rewrite !to_y2_app, <- !app_assoc. reflexivity.
        - unfold pdV. apply Z.eqb_neq in Ha. rewrite Ha, Z.eqb_refl. rewrite EA.
          rewrite !to_y2_app, to_y2_single. assert (Hxa : (x =? a) = false) by (apply Z.eqb_neq; congruence).
          rewrite Hxa. rewrite app_nil_r. reflexivity. }
      { exact Hm. }
      assert (Kst1 : t_state s1 = st) by (unfold s1; pose proof (skel_set_post s st rest) as K; unfold skel in K; injection K; intros; congruence).
      assert (Hl2 : length (allposts s2) = length (A ++ rest ++ B)) by (rewrite (posts_allposts _ _ Hpo), EA1; reflexivity).
      assert (Hk2 : forall k, 1 <= k <= 5 -> get_post s k = [] -> get_post s2 k = []).
      { intros k Hk Hk0. rewrite (posts_get _ _ k Hpo). unfold s1. destruct (Z.eq_dec k st) as [->|Hne].
        - rewrite Hpop in Hk0. destruct rest; discriminate.
        - rewrite get_set_post_other; assumption. }
      rewrite Kst1. destruct (Z.eqb_spec (t_state s2) st) as [Heq|Hneq].
      + (* the message was filed, same state: go on popping *)
        apply (LoopPost_then base s o s2 o2 e2); [lia|exact Hk2|exact Ev2|].
        apply IH; [lia|exact HV2|exact Hst|left; exact Heq|lia].
      + (* a phase completed: the nested _enter_state first, then back to this loop *)
        rewrite andthen2_assoc.
        apply (LoopPost_then base s o s2 o2 e2); [lia|exact Hk2|exact Ev2|].
        pose proof (g_k _ _ _ _ (VInv_good _ _ _ HV2)) as Hk2st.
        pose proof (IH f2 ltac:(lia) (t_state s2) s2 (o ++ o2) HV2 Hk2st (or_introl eq_refl) ltac:(lia)) as Hin.
        destruct (loop y f2 (t_state s2) s2) as [[s3 o3] e3]. unfold LoopPost in Hin. simpl in Hin.
        destruct Hin as (B1 & B2 & B3 & B4 & B5).
        assert (Hd2 : get_post s2 st = []) by (rewrite <- Hts; apply Hdr; rewrite Hts; exact Hneq).
        change (LoopPost base s2 (o ++ o2) (let '(s', o', e') := loop y (S f2) st s3 in (s', o3 ++ o', e3 ++ e'))).
        apply (LoopPost_then base s2 (o ++ o2) s3 o3 e3); [exact B3|exact B4|exact B5|].
        apply IH; [lia|exact B1|exact Hst|right; split; [apply B4; assumption|exact B2]|lia].
    - (* nothing postponed for this state *)
      unfold LoopPost, ret2. cbn [fst snd]. rewrite app_nil_r. split; [exact HV|]. split.
      + destruct Hdis as [<-|[_ H]]; [exact Hpop|exact H].
      + split; [lia|]. split; [auto|]. apply EvP_nil. reflexivity.
  Qed.

  (* a whole handler execution on a message of the awaited kind taken from the head of a channel *)
  Lemma recv_ok base base' s0 x m q f :
    VInv base s0 [] -> get_post s0 (t_state s0) = [] -> base x y = m :: q -> kind_of m = t_state s0 ->
    (forall a b, base' a b = if (a =? x) && (b =? y) then q else base a b) ->
    (2 * length (allposts s0) <= f)%nat ->
    LoopPost base' s0 [] (on_msg d stop thr favor y (enter d stop thr favor y (S f)) s0 x m).
  Proof.
    intros HV Hrest Hb Hk Hb' Hfuel.
    assert (Hxy : In x (nbr y)).
    { destruct HV as (HI & _). destruct (in_dec Z.eq_dec x (nbr y)) as [H|H]; [exact H|exfalso].
      pose proof (i_far _ _ _ _ _ HI x y H) as Hf. unfold pdV in Hf.
      destruct (Z.eqb_spec x y) as [->|Hne].
      - rewrite Hb in Hf. discriminate.
      - rewrite Z.eqb_refl, Hb in Hf. discriminate. }
    assert (Hne : x <> y) by (intros ->; eapply nbrs_irrefl; eauto).
    rewrite on_msg_factor. cbv zeta.
    destruct (mstep y s0 x m) as [[s2 o2] e2] eqn:Hm. simpl fst.
    destruct (micro base base' s0 [] x m [] (q ++ to_y2 x (allposts s0)) s0 HV) with (s2 := s2) (o2 := o2) (e2 := e2)
      as (HV2 & Ev2 & Hpo & Hdr); try reflexivity; try assumption.
    { unfold pdV. apply Z.eqb_neq in Hne. rewrite Hne, Z.eqb_refl, Hb. reflexivity. }
    { apply HV. }
    { apply HV. }
    { intros a b [Hb0|Ha]; rewrite Hb'.
      - apply Z.eqb_neq in Hb0. rewrite Hb0, andb_false_r. reflexivity.
      - subst a. assert (E : (y =? x) = false) by (apply Z.eqb_neq; congruence). rewrite E. reflexivity. }
    { intros a Ha. rewrite Hb', Z.eqb_refl, andb_true_r. destruct (Z.eqb_spec a x) as [->|Hax]; [reflexivity|].
      unfold pdV. apply Z.eqb_neq in Ha. rewrite Ha, Z.eqb_refl. reflexivity. }
    simpl app in HV2.
    destruct (Z.eqb_spec (t_state s2) (t_state s0)) as [Heq|Hneq].
    - unfold LoopPost. simpl. split; [exact HV2|]. split; [rewrite (posts_get _ _ _ Hpo), Heq; exact Hrest|].
      split; [rewrite (posts_allposts _ _ Hpo); lia|]. split; [|exact Ev2].
      intros k _ Hk0. rewrite (posts_get _ _ _ Hpo). exact Hk0.
    - change (LoopPost base' s0 [] (let '(s', o', e') := loop y f (t_state s2) s2 in (s', o2 ++ o', e2 ++ e'))).
      apply (LoopPost_then base' s0 [] s2 o2 e2); [rewrite (posts_allposts _ _ Hpo); lia| |exact Ev2|].
      + intros k _ Hk0. rewrite (posts_get _ _ _ Hpo). exact Hk0.
      + apply loop_ok; [exact HV2|apply (g_k _ _ _ _ (VInv_good _ _ _ HV2))|left; reflexivity|rewrite (posts_allposts _ _ Hpo); lia].
  Qed.
End Loop.

(* ------------------------------------------------------------------ Net.v helpers for m2msg *)
Lemma send_all_spec2 outs : forall (c : node -> node -> list m2msg) src x y,
  send_all c src outs x y = if Z.eqb x src then c x y ++ to_y2 y outs else c x y.
Proof.
  induction outs as [|[t m] r IH]; intros c src x y; simpl.
  - unfold to_y2; simpl. rewrite app_nil_r. destruct (Z.eqb x src); auto.
  - rewrite IH. unfold upd_chan, to_y2. simpl.
    destruct (Z.eqb x src) eqn:Ex; simpl; [|reflexivity].
    rewrite (Z.eqb_sym t y).
    destruct (Z.eqb y t) eqn:Ey; simpl.
    + apply Z.eqb_eq in Ex. apply Z.eqb_eq in Ey. subst. rewrite <- app_assoc. reflexivity.
    + reflexivity.
Qed.

Lemma reinject_all_spec2 l : forall (c : node -> node -> list m2msg) dst x y,
  reinject_all c dst l x y = if Z.eqb y dst then to_y2 x l ++ c x y else c x y.
Proof.
  induction l as [|[s0 m] r IH]; intros c dst x y; simpl.
  - unfold to_y2; simpl. destruct (Z.eqb y dst); auto.
  - unfold upd_chan. rewrite !IH. unfold to_y2. simpl.
    rewrite (Z.eqb_sym s0 x).
    destruct (Z.eqb x s0) eqn:Ex; simpl.
    + apply Z.eqb_eq in Ex; subst.
      destruct (Z.eqb y dst) eqn:Ey; simpl.
      * apply Z.eqb_eq in Ey; subst. rewrite Z.eqb_refl. reflexivity.
      * reflexivity.
    + destruct (Z.eqb y dst); reflexivity.
Qed.

Lemma len_kinds (l : list m2msg) : Z.of_nat (length l) = cnt 1 l + cnt 2 l + cnt 3 l + cnt 4 l + cnt 5 l.
Proof.
  induction l as [|m r IH]; [reflexivity|]. rewrite !cnt_cons. simpl length. rewrite Nat2Z.inj_succ, IH.
  destruct m; cbn [kind_of b2z Z.eqb Pos.eqb]; lia.
Qed.

Fixpoint sum_by (L : list Z) (l : list (Z * m2msg)) : nat :=
  match L with [] => 0%nat | x :: r => (length (to_y2 x l) + sum_by r l)%nat end.

Lemma sum_by_cons L a m l : NoDup L -> sum_by L ((a, m) :: l) = ((if zmem a L then 1 else 0) + sum_by L l)%nat.
Proof.
  induction L as [|x r IH]; intros Hnd; [reflexivity|].
  inversion Hnd as [|? ? Hn Hnd']; subst.
  simpl sum_by. rewrite (IH Hnd'). unfold to_y2 at 1. simpl.
  unfold zmem. simpl. rewrite (Z.eqb_sym a x).
  destruct (Z.eqb_spec x a) as [->|Hne]; simpl.
  - fold (zmem a r). destruct (zmem a r) eqn:E; [apply zmem_In in E; contradiction|]. unfold to_y2. lia.
  - fold (zmem a r). unfold to_y2. lia.
Qed.

Lemma len_by_sender L (l : list (Z * m2msg)) : NoDup L -> (forall p, In p l -> In (fst p) L) -> length l = sum_by L l.
Proof.
  intros Hnd. induction l as [|[a m] r IH]; intros Hin.
  - clear Hin. induction L; simpl; [reflexivity|]. inversion Hnd; subst. rewrite <- IHL; auto.
  - rewrite (sum_by_cons L a m r Hnd).
    assert (Ha : zmem a L = true) by (apply zmem_In; apply (Hin (a, m)); left; reflexivity).
    rewrite Ha. simpl. f_equal. apply IH. intros p Hp. apply Hin. right. exact Hp.
Qed.

Lemma sum_by_bound L l c : (forall x, In x L -> (length (to_y2 x l) <= c)%nat) -> (sum_by L l <= c * length L)%nat.
Proof.
  induction L as [|x r IH]; intros H; simpl; [lia|].
  pose proof (H x (or_introl eq_refl)). specialize (IH (fun z Hz => H z (or_intror Hz))). lia.
Qed.
