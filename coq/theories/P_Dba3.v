(* P_Dba3.v -- C09 deepening 2: safety at EVERY finished() of every run.

   After the first finished() of a run the barrier invariant M_Dba2.Inv no longer holds (the stopped
   computation skips one ok? broadcast and is put back in 'ok' mode - a quirk of dba.py kept in the model).
   This file proves the simpler FROZEN-ASSIGNMENT invariant [Fz A] for a satisfying assignment A:
     - every variable that occurs in a constraint is started and holds A; its weights are positive;
       every ok? value it has stored (agent view, postponed list) is A; in wait_improve mode _can_move
       is False;
     - every ok? message in a channel carries A; only neighbours send to each other.
   [Fz A] is preserved by EVERY step of the network, with no phase accounting at all: whatever arrives,
   in whatever order, every later improve() evaluates the current value to 0, nobody moves, and the
   dba_end flood changes no value.  It is established from the barrier invariant in the configuration
   just before the first finished() (with A = the assignment of the first all-zero round).  Hence
   [finish_safe_all]: from the first finished() on the assignment never changes and violates no
   constraint - in particular at every later finished().  *)
From PyDcop Require Import Base Net M_Dba P_Dba M_Dba2 P_Dba2.
From Coq Require Import ZifyBool Permutation.

Local Notation length := List.length.

(* ---------------------------------------------------------------------- dict_set *)
Lemma dict_set_keys (k : node) (v : Z) l :
  map fst (dict_set Z.eqb k v l) = if zmem k (map fst l) then map fst l else map fst l ++ [k].
Proof.
  induction l as [|[k' v'] r IH]; simpl; [reflexivity|].
  unfold zmem in *. simpl. destruct (Z.eqb k k') eqn:E; simpl; [reflexivity|].
  rewrite IH. destruct (existsb (Z.eqb k) (map fst r)); reflexivity.
Qed.

Lemma dict_set_in (k : node) (v : Z) l a x :
  In (a, x) (dict_set Z.eqb k v l) -> In (a, x) l \/ (a = k /\ x = v).
Proof.
  induction l as [|[k' v'] r IH]; simpl.
  - intros [H|[]]. inversion H. auto.
  - destruct (Z.eqb k k') eqn:E; simpl.
    + intros [H|H]; [|auto]. inversion H; subst. apply Z.eqb_eq in E. auto.
    + intros [H|H]; [auto|]. destruct (IH H); auto.
Qed.

Lemma dict_set_nodup (k : node) (v : Z) l : NoDup (map fst l) -> NoDup (map fst (dict_set Z.eqb k v l)).
Proof.
  intros H. rewrite dict_set_keys. destruct (zmem k (map fst l)) eqn:E; auto.
  apply NoDup_app_intro'; auto; [repeat constructor; auto|].
  intros y Hy [<-|[]]. apply zmem_In in Hy. congruence.
Qed.

Lemma in_upd_chan' (c : node -> node -> list dmsg) s d l x y m :
  In m (upd_chan c s d l x y) -> (x = s /\ y = d /\ In m l) \/ In m (c x y).
Proof.
  unfold upd_chan. destruct (Z.eqb_spec x s), (Z.eqb_spec y d); simpl; auto.
Qed.

Lemma in_fromH y (o : list (node * dmsg)) m : In m (fromH y o) <-> In (y, m) o.
Proof.
  unfold fromH. rewrite in_map_iff. split.
  - intros [[t m'] [E H]]. apply filter_In in H as [H1 H2]. simpl in *. apply Z.eqb_eq in H2. now subst.
  - intros H. exists (y, m). split; auto. apply filter_In. split; auto. simpl. apply Z.eqb_refl.
Qed.

Lemma in_send_all' outs (c : node -> node -> list dmsg) src x y m :
  In m (send_all c src outs x y) -> In m (c x y) \/ (x = src /\ In (y, m) outs).
Proof.
  rewrite send_all_spec. destruct (Z.eqb_spec x src); auto.
  intros H. apply in_app_or in H as [H|H]; auto. right. split; auto. now apply in_fromH.
Qed.

Lemma exec_app {St Msg Ev} (P : proto St Msg Ev) l1 : forall l2 cf,
  exec P cf (l1 ++ l2) =
  (fst (exec P (fst (exec P cf l1)) l2), snd (exec P cf l1) ++ snd (exec P (fst (exec P cf l1)) l2)).
Proof.
  induction l1 as [|a r IH]; intros l2 cf; simpl.
  - destruct (exec P cf l2); reflexivity.
  - destruct (step P cf a) as [cf1 e1]. rewrite IH.
    destruct (exec P cf1 r) as [cf2 e2]. simpl.
    destruct (exec P cf2 l2) as [cf3 e3]. simpl. now rewrite app_assoc.
Qed.

(* ====================================================================== the frozen invariant *)
Section Frozen.
  Variable cs : list constr.
  Variable ncs : node -> list nat.
  Variable dom : node -> list Z.
  Variable infinity maxd : Z.
  Variable orc0 : node -> list Z.
  Variable A : node -> Z.                       (* the frozen assignment *)

  Hypothesis Hwf : wf_problem cs ncs.
  Hypothesis Hinf : 0 < infinity.
  Hypothesis HA : satisfying cs infinity A.

  Notation node_cs := (node_cs cs ncs).
  Notation nbrs := (nbrs cs ncs).
  Notation nnb := (nnb cs ncs).
  Notation to_all := (to_all cs ncs).
  Notation eval_at := (eval_at cs ncs infinity).
  Notation do_improve := (do_improve cs ncs dom infinity).
  Notation send_ok := (send_ok cs ncs maxd).
  Notation ok_step := (ok_step cs ncs dom infinity).
  Notation imp_step := (imp_step cs ncs maxd).
  Notation go_ok := (go_ok cs ncs dom infinity).
  Notation go_imp := (go_imp cs ncs maxd).
  Notation dba_recv := (dba_recv cs ncs dom infinity maxd).
  Notation dba_start := (dba_start cs ncs dom infinity).
  Notation dba_init := (dba_init ncs orc0).
  Notation P := (dba_proto cs ncs dom infinity maxd orc0).
  Notation cfg := (config dst dmsg).

  Lemma nbr_occurs a b : In a (nbrs b) -> occurs cs a /\ occurs cs b.
  Proof.
    intros Hab. destruct Hwf as [_ [_ W3]].
    unfold M_Dba.nbrs in Hab. apply nodup_In in Hab. apply filter_In in Hab as [Hab _].
    apply in_flat_map in Hab as [c [Hc Ha]]. destruct (W3 b c Hc) as [Hcs Hb].
    split; exists c; auto.
  Qed.

  (* ---------------------------------------------------------------- node level *)
  Definition fn0 (b : node) (s : dst) : Prop :=
    oz (d_value s) = A b /\ Forall posw (d_w s)
    /\ (forall a v, In (a, v) (d_pok s) -> In a (nbrs b) /\ v = A a).
  Definition fv (b : node) (s : dst) : Prop :=
    NoDup (map fst (d_nvals s)) /\ (forall a v, In (a, v) (d_nvals s) -> In a (nbrs b) /\ v = A a).
  (* what holds of a started computation between two deliveries *)
  Definition fi (b : node) (s : dst) : Prop :=
    fn0 b s /\ match d_mode s with ImpM => d_can s = false | OkM => fv b s | _ => True end.
  (* loop invariants of the two replay loops *)
  Definition Qi (b : node) (s : dst) : Prop :=
    fn0 b s /\ d_can s = false /\ (d_mode s <> ImpM -> fv b s).
  Definition Qo (b : node) (s : dst) : Prop :=
    fn0 b s /\ fv b s /\ (d_mode s = ImpM -> d_can s = false).

  Definition outs_ok (b : node) (o : list (node * dmsg)) : Prop :=
    forall t m, In (t, m) o -> In t (nbrs b) /\ (forall v, m = MOk v -> v = A b).

  Lemma outs_ok_nil b : outs_ok b [].
  Proof. intros t m []. Qed.
  Lemma outs_ok_app b o1 o2 : outs_ok b o1 -> outs_ok b o2 -> outs_ok b (o1 ++ o2).
  Proof. intros H1 H2 t m H. apply in_app_or in H as [H|H]; auto. Qed.
  Lemma to_all_ok b m : (forall v, m = MOk v -> v = A b) -> outs_ok b (to_all b m).
  Proof.
    intros H t m' Hin. unfold M_Dba.to_all in Hin. apply in_map_iff in Hin as [x [E Hx]].
    inversion E; subst. auto.
  Qed.

  Lemma Qi_fi b s : Qi b s -> fi b s.
  Proof. intros [H0 [Hc Hv]]. split; auto. destruct (d_mode s) eqn:E; auto. apply Hv; congruence. Qed.
  Lemma Qo_fi b s : Qo b s -> fi b s.
  Proof. intros [H0 [Hv Hc]]. split; auto. destruct (d_mode s) eqn:E; auto. Qed.

  (* with a complete view of frozen values the current value evaluates to 0 *)
  Lemma eval_frozen b s own : fv b s -> length (d_nvals s) = nnb b -> own = A b ->
    eval_at b s own = (0, []).
  Proof.
    intros [Hnd Hv] Hlen ->. unfold M_Dba.eval_at. apply eval_value_all_sat. intros c Hc.
    destruct Hwf as [_ [_ W3]]. destruct (W3 b c Hc) as [Hcs _].
    rewrite (violated_ext infinity c _ A); [now apply HA|].
    intros v Hin. unfold asg. destruct (Z.eqb_spec v b) as [->|Hne]; [reflexivity|].
    destruct (scope_in_nbrs cs ncs b c v Hc Hin) as [E|Hnb]; [contradiction|].
    assert (Hk : In v (map fst (d_nvals s))).
    { assert (I : incl (nbrs b) (map fst (d_nvals s))).
      { apply NoDup_length_incl; auto.
        - rewrite map_length. unfold M_Dba.nnb in Hlen. lia.
        - intros y Hy. apply in_map_iff in Hy as [[a x] [E Hy]]. simpl in E. subst. now apply (Hv y x). }
      now apply I. }
    destruct (zlookup_some v (d_nvals s) Hk) as [x [E Hx]]. rewrite E. simpl. now apply (Hv v x).
  Qed.

  Lemma do_improve_frozen b s : fn0 b s -> fv b s -> length (d_nvals s) = nnb b ->
    exists s2 o2, do_improve b s = (s2, o2, false)
      /\ fn0 b s2 /\ fv b s2 /\ d_can s2 = false /\ d_mode s2 = d_mode s /\ outs_ok b o2.
  Proof.
    intros [Hval [Hw Hp]] Hv Hlen. unfold M_Dba.do_improve.
    rewrite (eval_frozen b s (oz (d_value s)) Hv Hlen Hval).
    destruct (best_imp (fun v => fst (eval_at b s v)) (dom b) [] infinity) as [bests be] eqn:B.
    assert (Hbe : 0 <= be).
    { change be with (snd (bests, be)). rewrite <- B. apply best_imp_nonneg; [|lia].
      intros v. unfold M_Dba.eval_at. now apply eval_value_nonneg. }
    replace (0 <? 0 - be) with false by lia.
    eexists. eexists. split; [reflexivity|].
    split; [split; [exact Hval | split; [exact Hw | exact Hp]]|].
    split; [exact Hv|]. split; [reflexivity|]. split; [reflexivity|].
    apply to_all_ok. intros v E. discriminate.
  Qed.

  Lemma imp_core_fz b s src m : Qi b s -> Qi b (imp_core b s src m) /\ d_mode (imp_core b s src m) = d_mode s.
  Proof.
    intros [[Hval [Hw Hp]] [Hc Hv]]. destruct m as [[mi me] mtc].
    split; [|reflexivity]. split; [split; [exact Hval | split; [exact Hw | exact Hp]]|].
    split; [|exact Hv]. simpl. rewrite Hc.
    destruct (d_imp s <? mi); auto. destruct ((mi =? d_imp s) && (src <? b)); auto.
  Qed.

  Lemma send_ok_fz b s : fn0 b s -> d_can s = false ->
    fn0 b (fst (fst (send_ok b s))) /\ d_can (fst (fst (send_ok b s))) = false
    /\ outs_ok b (snd (fst (send_ok b s))).
  Proof.
    intros [Hval [Hw Hp]] Hc. unfold M_Dba.send_ok, fn0. rewrite Hc.
    assert (Hw' : Forall posw (if d_qlm s then incr_weights (d_viol s) (d_w s) else d_w s))
      by (destruct (d_qlm s); auto using incr_weights_pos).
    assert (Ho : outs_ok b (to_all b (MOk (oz (d_value s))))).
    { apply to_all_ok. intros v E. inversion E. congruence. }
    assert (He : outs_ok b (to_all b MEnd)) by (apply to_all_ok; intros v E; discriminate).
    destruct (d_cons s) as [[|]|]; simpl; [destruct (d_tc s + 1 =? maxd); simpl|..];
      (split; [split; [assumption | split; [assumption | exact Hp]] | split; [reflexivity | assumption]]).
  Qed.

  (* handler results: final state and sent messages (whether or not the handler raised) *)
  Definition gres (b : node) (Q : dst -> Prop) (r : res) : Prop :=
    let '(s, o, _, _) := r in Q s /\ outs_ok b o.

  Lemma replay_g {M} b (Q : dst -> Prop) (h : dst -> node -> M -> res) l :
    (forall s src m, In (src, m) l -> Q s -> gres b Q (h s src m)) ->
    forall s, Q s -> gres b Q (replay h s l).
  Proof.
    induction l as [|[src m] l IH]; intros Hh s Hs; simpl.
    - split; [auto | apply outs_ok_nil].
    - pose proof (Hh s src m (or_introl eq_refl) Hs) as H1.
      destruct (h s src m) as [[[s1 o1] e1] r1]. destruct H1 as [Q1 O1]. destruct r1; [split; auto|].
      assert (H2 : gres b Q (replay h s1 l)) by (apply IH; auto; intros; apply Hh; auto; now right).
      destruct (replay h s1 l) as [[[s2 o2] e2] r2]. destruct H2 as [Q2 O2].
      split; auto. now apply outs_ok_app.
  Qed.

  Lemma guard_pok_g b (Q : dst -> Prop) s : Q s -> gres b Q (guard_pok b s).
  Proof. intros H. unfold M_Dba.guard_pok. destruct (d_pok s); split; auto; apply outs_ok_nil. Qed.
  Lemma guard_pimp_g b (Q : dst -> Prop) s : Q s -> gres b Q (guard_pimp b s).
  Proof. intros H. unfold M_Dba.guard_pimp. destruct (d_pimp s); split; auto; apply outs_ok_nil. Qed.

  (* _handle_improve_message *)
  Lemma imp_step_g b (QR : dst -> Prop) nested s src m :
    Qi b s ->
    (forall s', fn0 b s' -> d_can s' = false -> d_mode s' = OkM -> d_nvals s' = [] -> gres b QR (nested s')) ->
    (forall s', Qi b s' -> d_mode s' = d_mode s -> QR s') ->
    gres b QR (imp_step b nested s src m).
  Proof.
    intros Hs Hn Hi. unfold M_Dba.imp_step.
    destruct (imp_core_fz b s src m Hs) as [H1 Hm1].
    destruct (Nat.eqb _ _).
    - destruct H1 as [H0 [Hc _]].
      destruct (send_ok_fz b _ H0 Hc) as [F2 [C2 O2]].
      destruct (send_ok b (imp_core b s src m)) as [[s2 o2] e2]. simpl in F2, C2, O2.
      assert (H3 : gres b QR (nested (set_mode OkM (clear_view s2)))).
      { apply Hn; auto. }
      destruct (nested (set_mode OkM (clear_view s2))) as [[[s3 o3] e3] r3]. destruct H3 as [Q3 O3].
      split; auto. now apply outs_ok_app.
    - split; [now apply Hi | apply outs_ok_nil].
  Qed.

  (* _handle_ok_message *)
  Lemma ok_step_g b (QR : dst -> Prop) nested s src v :
    fn0 b s -> fv b s -> In src (nbrs b) -> v = A src ->
    (forall s', fn0 b s' -> fv b s' -> d_can s' = false -> d_mode s' = ImpM -> gres b QR (nested s')) ->
    (forall s', fn0 b s' -> fv b s' -> d_mode s' = d_mode s -> d_can s' = d_can s -> QR s') ->
    (forall s', fn0 b s' -> fv b s' -> d_can s' = false -> QR s') ->
    gres b QR (ok_step b nested s src v).
  Proof.
    intros H0 [Hnd Hv] Hsrc -> Hn Hi Hr. unfold M_Dba.ok_step.
    set (s1 := set_nvals (dict_set Z.eqb src (A src) (d_nvals s)) s).
    assert (F1 : fn0 b s1) by exact H0.
    assert (V1 : fv b s1).
    { split; simpl; [now apply dict_set_nodup|].
      intros a x Hin. apply dict_set_in in Hin as [Hin|[-> ->]]; auto. }
    destruct (Nat.eqb (length (d_nvals s1)) (nnb b)) eqn:E.
    - apply Nat.eqb_eq in E.
      destruct (do_improve_frozen b s1 F1 V1 E) as [s2 [o2 [Ed [F2 [V2 [C2 [M2 O2]]]]]]].
      rewrite Ed.
      assert (H3 : gres b QR (nested (set_mode ImpM s2))) by (apply Hn; auto).
      destruct (nested (set_mode ImpM s2)) as [[[s3 o3] e3] r3]. destruct H3 as [Q3 O3].
      split; auto. now apply outs_ok_app.
    - split; [apply Hi; auto | apply outs_ok_nil].
  Qed.

  Lemma Qi_set_pimp b x s : Qi b s -> Qi b (set_pimp x s).
  Proof. intros H. exact H. Qed.

  Lemma go_imp_g b s : Qi b s -> gres b (Qi b) (go_imp b s).
  Proof.
    intros Hs. unfold M_Dba.go_imp.
    assert (H : gres b (Qi b) (replay (imp_step b (guard_pok b)) s (d_pimp s))).
    { apply replay_g; auto. intros s0 src m _ H0. apply imp_step_g; auto.
      intros s' F C M N. apply guard_pok_g. split; auto. split; auto.
      intros _. split; rewrite N; [constructor | intros a v []]. }
    destruct (replay _ s (d_pimp s)) as [[[s1 o] e] r]. destruct H as [Q1 O1].
    destruct r; split; auto.
  Qed.

  Lemma go_ok_g b s : Qo b s -> gres b (Qo b) (go_ok b s).
  Proof.
    intros Hs. unfold M_Dba.go_ok.
    assert (Hp : forall a v, In (a, v) (d_pok s) -> In a (nbrs b) /\ v = A a) by (apply Hs).
    assert (H : gres b (Qo b) (replay (ok_step b (guard_pimp b)) s (d_pok s))).
    { apply replay_g; auto. intros s0 src v Hin [F0 [V0 C0]]. destruct (Hp src v Hin) as [Hsrc Hv].
      apply ok_step_g; auto.
      - intros s' F V C M. apply guard_pimp_g. split; auto.
      - intros s' F V M C. split; auto. split; auto. rewrite M, C. exact C0.
      - intros s' F V C. split; auto. }
    destruct (replay _ s (d_pok s)) as [[[s1 o] e] r]. destruct H as [Q1 O1].
    destruct r; split; auto.
    destruct Q1 as [[Hval [Hw _]] [V1 C1]]. split; [|split; auto].
    split; auto. split; auto. intros a v [].
  Qed.

  (* the message handler preserves the frozen node invariant *)
  Lemma recv_fz b s src m :
    fi b s -> In src (nbrs b) -> (forall v, m = MOk v -> v = A src) ->
    fi b (fst (fst (dba_recv b s src m))) /\ outs_ok b (snd (fst (dba_recv b s src m))).
  Proof.
    intros [H0 Hm] Hsrc Hv. destruct m as [v|mi me mtc|]; unfold M_Dba.dba_recv.
    - (* ok? *)
      destruct (d_mode s) eqn:Mo.
      + simpl. split; [|apply outs_ok_nil]. split; [|simpl; now rewrite Mo].
        destruct H0 as [Hval [Hw Hp]]. split; auto. split; auto. simpl. intros a x Hin.
        apply in_app_or in Hin as [Hin|[Hin|[]]]; auto. inversion Hin; subst. split; auto.
      + assert (H : gres b (fi b) (ok_step b (go_imp b) s src v)).
        { apply ok_step_g; auto.
          - intros s' F V C M.
            assert (H : gres b (Qi b) (go_imp b s')).
            { apply go_imp_g. split; [exact F | split; [exact C | intros _; exact V]]. }
            destruct (go_imp b s') as [[[s3 o3] e3] r3]. destruct H as [Q3 O3]. split; auto. now apply Qi_fi.
          - intros s' F V M C. split; auto. now rewrite M, Mo.
          - intros s' F V C. apply Qo_fi. split; auto. }
        destruct (ok_step b (go_imp b) s src v) as [[[s' o] e] r]. exact H.
      + simpl. split; [|apply outs_ok_nil]. split; [|simpl; now rewrite Mo].
        destruct H0 as [Hval [Hw Hp]]. split; auto. split; auto. simpl. intros a x Hin.
        apply in_app_or in Hin as [Hin|[Hin|[]]]; auto. inversion Hin; subst. split; auto.
      + simpl. split; [|apply outs_ok_nil]. split; [|simpl; now rewrite Mo].
        destruct H0 as [Hval [Hw Hp]]. split; auto. split; auto. simpl. intros a x Hin.
        apply in_app_or in Hin as [Hin|[Hin|[]]]; auto. inversion Hin; subst. split; auto.
    - (* improve *)
      destruct (d_mode s) eqn:Mo; try (simpl; split; [split; [exact H0 | simpl; now rewrite Mo] | apply outs_ok_nil]).
      assert (H : gres b (fi b) (imp_step b (go_ok b) s src (mi, me, mtc))).
      { apply imp_step_g.
        - split; auto. split; auto. intros E. congruence.
        - intros s' F C M N.
          assert (H : gres b (Qo b) (go_ok b s')).
          { apply go_ok_g. split; auto. split; [|intros E; congruence].
            split; rewrite N; [constructor | intros a x []]. }
          destruct (go_ok b s') as [[[s3 o3] e3] r3]. destruct H as [Q3 O3]. split; auto. now apply Qo_fi.
        - intros s' Q M. now apply Qi_fi. }
      destruct (imp_step b (go_ok b) s src (mi, me, mtc)) as [[[s' o] e] r]. exact H.
    - (* dba_end: mode 'finished' is absorbing, nothing else changes *)
      destruct (d_mode s) eqn:Mo; simpl;
        try (split; [split; [exact H0 | exact I] | apply to_all_ok; intros v E; discriminate]).
      split; [split; [exact H0 | simpl; now rewrite Mo] | apply outs_ok_nil].
  Qed.

  (* ---------------------------------------------------------------- network level *)
  Record Fz (cf : cfg) : Prop := {
    Z_node : forall b, occurs cs b -> w_running (nodes cf b) = true /\ fi b (st cf b);
    Z_chan : forall a b m, In m (chan cf a b) -> In a (nbrs b) /\ (forall v, m = MOk v -> v = A a);
    Z_held : forall a b m, In (a, m) (w_held (nodes cf b)) -> In a (nbrs b);
    Z_idle : forall b, w_running (nodes cf b) = false -> w_st (nodes cf b) = dba_init b
  }.

  Lemma start_isolated n : nbrs n = [] ->
    snd (fst (dba_start n (dba_init n))) = [].
  Proof.
    intros Hn. unfold M_Dba.dba_start, M_Dba.dba_init. simpl.
    destruct (pick (orc0 n) (dom n)) as [[v|] o]; simpl; [|reflexivity].
    unfold M_Dba.to_all. now rewrite Hn.
  Qed.

  (* every step of the network preserves the frozen invariant *)
  Lemma Fz_step cf a : Fz cf -> Fz (fst (step P cf a)).
  Proof.
    intros HZ. pose proof (wf_sym cs ncs Hwf) as Hsym.
    destruct a as [n0|a0 b0]; simpl.
    - (* start() of a computation: only variables outside every constraint are still unstarted *)
      destruct (w_running (nodes cf n0)) eqn:Ru; [exact HZ|].
      assert (Hno : ~ occurs cs n0).
      { intros Ho. destruct (Z_node cf HZ n0 Ho) as [R _]. congruence. }
      assert (Hn : nbrs n0 = []).
      { destruct (nbrs n0) as [|x l] eqn:E; auto. exfalso. apply Hno.
        apply (nbr_occurs x n0). rewrite E. now left. }
      assert (Hh : w_held (nodes cf n0) = []).
      { destruct (w_held (nodes cf n0)) as [|[x m] l] eqn:E; auto. exfalso.
        assert (In x (nbrs n0)) by (apply (Z_held cf HZ x n0 m); rewrite E; now left).
        rewrite Hn in H. destruct H. }
      rewrite (Z_idle cf HZ n0 Ru), Hh.
      pose proof (start_isolated n0 Hn) as Ho.
      destruct (dba_start n0 (dba_init n0)) as [[s' o] e]. simpl in Ho. subst o. simpl.
      constructor; simpl.
      + intros b Hb. unfold st. simpl. rewrite upd_node_at.
        destruct (Z.eqb_spec b n0) as [->|Hne]; [contradiction|]. apply (Z_node cf HZ b Hb).
      + apply (Z_chan cf HZ).
      + intros x b m. rewrite upd_node_at. destruct (Z.eqb b n0); simpl; [intros []|]. apply (Z_held cf HZ).
      + intros b. rewrite upd_node_at. destruct (Z.eqb b n0); simpl; [discriminate|]. apply (Z_idle cf HZ).
    - destruct (chan cf a0 b0) as [|m q] eqn:Hc; [exact HZ|].
      destruct (Z_chan cf HZ a0 b0 m) as [Hab Hmv]; [rewrite Hc; now left|].
      destruct (nbr_occurs a0 b0 Hab) as [_ Hob].
      destruct (Z_node cf HZ b0 Hob) as [Ru Hfi]. rewrite Ru.
      destruct (recv_fz b0 (st cf b0) a0 m Hfi Hab Hmv) as [Hf' Ho']. unfold st in *.
      destruct (dba_recv b0 (w_st (nodes cf b0)) a0 m) as [[s' o] e]. simpl in Hf', Ho'. simpl.
      constructor; simpl.
      + intros b Hb. unfold st. simpl. rewrite upd_node_at.
        destruct (Z.eqb_spec b b0) as [->|Hne]; [simpl; auto|]. apply (Z_node cf HZ b Hb).
      + intros x y m' Hin. apply in_send_all' in Hin as [Hin|[-> Hin]].
        * apply in_upd_chan' in Hin as [[-> [-> Hin]]|Hin].
          -- apply (Z_chan cf HZ a0 b0). rewrite Hc. now right.
          -- now apply (Z_chan cf HZ).
        * destruct (Ho' y m' Hin) as [Hy Hv']. split; auto.
      + intros x b m'. rewrite upd_node_at. destruct (Z.eqb_spec b b0) as [->|]; simpl; apply (Z_held cf HZ).
      + intros b. rewrite upd_node_at. destruct (Z.eqb b b0); simpl; [discriminate|]. apply (Z_idle cf HZ).
  Qed.

  Lemma Fz_exec sched : forall cf, Fz cf -> Fz (fst (exec P cf sched)).
  Proof.
    induction sched as [|a r IH]; intros cf HZ; simpl; auto.
    pose proof (Fz_step cf a HZ) as H1. destruct (step P cf a) as [cf1 e1].
    specialize (IH cf1 H1). destruct (exec P cf1 r) as [cf2 e2]. exact IH.
  Qed.

  Lemma Fz_held cf : Fz cf -> forall x, occurs cs x -> held cf x = A x.
  Proof.
    intros HZ x Hx. destruct (Z_node cf HZ x Hx) as [_ [[Hv _] _]]. exact Hv.
  Qed.

  Lemma Fz_sat cf : Fz cf -> satisfying cs infinity (held cf).
  Proof.
    intros HZ c Hc. rewrite (violated_ext infinity c _ A); [now apply HA|].
    intros v Hv. apply Fz_held; auto. now exists c.
  Qed.
End Frozen.

(* ====================================================================== establishing the frozen invariant
   from the barrier invariant, in a configuration in which every variable of a constraint has reached
   a round r from which all evaluations are 0 *)
Section Establish.
  Variable cs : list constr.
  Variable ncs : node -> list nat.
  Variable dom : node -> list Z.
  Variable infinity maxd : Z.
  Variable orc0 : node -> list Z.
  Notation nbrs := (nbrs cs ncs).
  Notation P := (dba_proto cs ncs dom infinity maxd orc0).
  Notation G := (G cs ncs dom infinity maxd orc0).
  Notation Inv := (Inv cs ncs dom infinity maxd orc0).
  Notation aok := (aok cs ncs dom infinity maxd orc0).
  Notation aimp := (aimp cs ncs dom infinity maxd orc0).
  Notation mimp := (mimp cs ncs dom infinity maxd orc0).
  Notation msg_of := (msg_of cs ncs dom infinity maxd orc0).
  Notation cfg := (config dst dmsg).

  Hypothesis Hwf : wf_problem cs ncs.
  Hypothesis Hinf : 0 < infinity.

  Lemma after_ok_no_raise g n : gst_ok ncs g -> seval cs ncs infinity g n = 0 ->
    snd (after_ok cs ncs dom infinity g n) = false.
  Proof.
    intros Hok E. unfold M_Dba.after_ok, M_Dba.do_improve.
    set (s := set_nvals (nvals_of cs ncs g n) (g n)).
    change (oz (d_value s)) with (oz (d_value (g n))).
    unfold M_Dba.seval in E. fold s in E.
    destruct (eval_at cs ncs infinity n s (oz (d_value (g n)))) as [ce viol]. simpl in E. subst ce.
    destruct (best_imp (fun v => fst (eval_at cs ncs infinity n s v)) (dom n) [] infinity) as [bests be] eqn:B.
    assert (Hbe : 0 <= be).
    { change be with (snd (bests, be)). rewrite <- B. apply best_imp_nonneg; [|lia].
      intros v. unfold M_Dba.eval_at. apply eval_value_nonneg. apply (Hok n). }
    replace (0 <? 0 - be) with false by lia. reflexivity.
  Qed.

  Local Open Scope nat_scope.

  Lemma Fz_from_Inv cf r :
    Inv cf -> all_zero cs ncs infinity (G r) ->
    (forall x, occurs cs x -> w_running (nodes cf x) = true
                 /\ (d_mode (st cf x) = OkM \/ d_mode (st cf x) = ImpM) /\ r <= cyc (st cf x)) ->
    Fz cs ncs orc0 (sassign (G r)) cf.
  Proof.
    intros HI Hzero Hall.
    pose proof (wf_sym cs ncs Hwf) as Hsym.
    pose proof (sinit_init cs ncs dom infinity orc0) as [Hok0 _].
    assert (HokK : forall k, gst_ok ncs (G k)) by (intros k; apply srounds_ok; exact Hok0).
    assert (Hz : forall c, r <= c -> all_zero cs ncs infinity (G c)
                           /\ forall x, sassign (G c) x = sassign (G r) x).
    { intros c Hc. replace c with ((c - r) + r) by lia. unfold M_Dba2.G. rewrite srounds_add.
      apply (all_zero_forever cs ncs dom infinity maxd (G r) (c - r) (HokK r)); [lia | exact Hzero]. }
    constructor.
    - (* nodes *)
      intros x Hx. destruct (Hall x Hx) as [Rx [Mx Cx]]. split; [exact Rx|].
      destruct (Hz _ Cx) as [Zc Ac].
      destruct (I_node _ _ _ _ _ _ cf HI x Rx) as [Hcy Hn]. fold (st cf x) in Hcy, Hn.
      destruct Mx as [Mx|Mx]; rewrite Mx in Hn; unfold fi; rewrite Mx.
      + destruct Hn as [Hval [Hnd [Hincl [Hvals Hld]]]].
        destruct Hld as [[_ [Hcore [Hpok _]]] | [_ [_ Hraise]]].
        2:{ rewrite (after_ok_no_raise _ _ (HokK _) (Zc x)) in Hraise. discriminate. }
        core_inj Hcore.
        split; [split; [|split]|split].
        * unfold sassign in Ac. rewrite Hval. apply Ac.
        * rewrite Cw. apply (HokK (cyc (st cf x)) x).
        * rewrite Hpok. intros a v [].
        * exact Hnd.
        * intros a v Hin. split.
          -- apply Hincl. apply in_map_iff. now exists (a, v).
          -- rewrite (Hvals a v Hin). apply Ac.
      + destruct Hn as [Hval [_ [_ [_ [_ Hcore]]]]].
        destruct (pok_facts cs ncs dom infinity maxd orc0 Hsym cf x HI Rx Mx) as [_ [Pincl [Pcont _]]].
        core_inj Hcore. rewrite aimp_F in Cw, Cca.
        destruct (F_proj x (mimp (cyc (st cf x))) (d_nimps (st cf x)) (aok (cyc (st cf x)) x))
          as [_ [W' [_ [_ [_ [_ K']]]]]].
        destruct (do_improve_proj cs ncs dom infinity x (s0 cs ncs (G (cyc (st cf x))) x))
          as [_ [W [_ [_ [_ CAN]]]]]. simpl in W, CAN.
        split; [split; [|split]|].
        * unfold sassign in Ac. rewrite Hval. apply Ac.
        * rewrite Cw, W'. unfold M_Dba2.aok, M_Dba.after_ok. fold (s0 cs ncs (G (cyc (st cf x))) x).
          rewrite W. apply (HokK (cyc (st cf x)) x).
        * intros a v Hin. split.
          -- apply Pincl. apply in_map_iff. now exists (a, v).
          -- pose proof (Pcont (a, v) Hin) as Ev. simpl in Ev. rewrite Ev.
             destruct (Hz (S (cyc (st cf x)))) as [_ E]; [lia|]. apply E.
        * rewrite Cca. apply K'. unfold M_Dba2.aok, M_Dba.after_ok. fold (s0 cs ncs (G (cyc (st cf x))) x).
          apply CAN; [|lia|apply (HokK (cyc (st cf x)) x)].
          rewrite ce_of_s0. apply Zc.
    - (* channels *)
      intros a b m Hin.
      assert (Hab : In a (nbrs b)).
      { destruct (chan cf a b) as [|m0 q0] eqn:Hc; [destruct Hin|].
        eapply (deliver_nbr cs ncs dom infinity maxd orc0); eauto. }
      split; [exact Hab|]. intros v ->.
      destruct (nbr_occurs cs ncs Hwf a b Hab) as [_ Hob].
      destruct (Hall b Hob) as [Rb [Mb Cb]].
      destruct (pipe_run cs ncs dom infinity maxd orc0 Hsym cf a b HI Rb Hab) as [Hp _].
      assert (Hin' : In (MOk v) (map (msg_of a) (seq (hd (st cf b) a) (ph (nodes cf a) - hd (st cf b) a)))).
      { rewrite <- Hp. apply in_or_app. now right. }
      apply in_map_iff in Hin' as [i [Ei Hi]]. apply in_seq in Hi as [Hi _].
      assert (Hb : 2 * cyc (st cf b) <= hd (st cf b) a).
      { unfold hd, base. destruct Mb as [Mb|Mb]; rewrite Mb; lia. }
      unfold M_Dba2.msg_of in Ei. destruct (Nat.even i) eqn:Ev.
      + injection Ei as <-. apply Nat.even_spec in Ev as [k ->]. rewrite Nat.div2_double.
        destruct (Hz k) as [_ E]; [lia|]. apply E.
      + exfalso. symmetry in Ei. eapply impm_not_ok; eauto.
    - (* buffers *)
      intros a b m Hin. destruct (in_dec Z.eq_dec a (nbrs b)) as [H|H]; auto. exfalso.
      pose proof (I_non _ _ _ _ _ _ cf HI a b H) as Hp. unfold pipe in Hp.
      apply app_eq_nil in Hp as [_ Hp]. apply app_eq_nil in Hp as [Hp _].
      assert (In m (fromH a (w_held (nodes cf b)))) by (now apply in_fromH). rewrite Hp in H0. destruct H0.
    - apply (I_idle _ _ _ _ _ _ cf HI).
  Qed.
End Establish.

(* ====================================================================== every finished() of every run *)
Section FinalAll.
  Variable cs : list constr.
  Variable ncs : node -> list nat.
  Variable dom : node -> list Z.
  Variable infinity maxd : Z.
  Variable orc0 : node -> list Z.
  Notation P := (dba_proto cs ncs dom infinity maxd orc0).
  Notation G := (G cs ncs dom infinity maxd orc0).

  Hypothesis Hwf : wf_problem cs ncs.
  Hypothesis Hinf : 0 < infinity.

  (* the configuration in which the first finished() of a run is about to happen is frozen *)
  Lemma first_finish_frozen sched a n :
    (forall m, ~ In (EvFinished m) (snd (run P sched))) ->
    In (EvFinished n) (snd (step P (fst (run P sched)) a)) ->
    (forall x, occurs cs x -> within cs ncs (Z.to_nat maxd) n x) ->
    exists A, satisfying cs infinity A /\ Fz cs ncs orc0 A (fst (run P sched)).
  Proof.
    intros Hno Hin Hconn.
    pose proof (wf_sym cs ncs Hwf) as Hsym.
    pose proof (refines_rounds cs ncs dom infinity maxd orc0 Hsym sched Hno) as HI.
    set (cf := fst (run P sched)) in *.
    destruct (step_cases cs ncs dom infinity maxd orc0 Hsym cf a HI)
      as [[Hnf _]|[s0 [n' [_ [Hr [Hm [Hs [Hheld [_ Honly]]]]]]]]]; [exfalso; now apply (Hnf n)|].
    assert (n' = n) by (symmetry; now apply Honly). subst n'.
    set (K := cyc (st cf n)) in *.
    pose proof (sinit_init cs ncs dom infinity orc0) as Hinit. destruct Hinit as [Hok Hz].
    assert (HokK : forall k, gst_ok ncs (G k)) by (intros k; apply srounds_ok; exact Hok).
    pose proof (stops_pos _ _ _ _ _ _ _ (HokK K) Hs) as Hpos.
    pose proof (stops_tc _ _ _ _ _ _ _ Hs) as Htc.
    change (sround cs ncs dom infinity maxd (G K) n) with (G (S K) n) in Htc.
    destruct (counter_radius cs ncs dom infinity maxd _ (conj Hok Hz) (Z.to_nat maxd) (S K) n) as [Hle R];
      [unfold M_Dba2.G in Htc; lia|].
    set (D := Z.to_nat maxd) in *.
    set (r := (S K - D)%nat).
    assert (Hzero : all_zero cs ncs infinity (G r)).
    { intros x. destruct (occurs_dec cs x) as [Ho|Hn].
      - replace r with (S K - 1 - (D - 1))%nat by (unfold r; lia). apply R; [lia|].
        replace (S (D - 1)) with D by lia. now apply Hconn.
      - now apply no_occurrence_zero. }
    exists (sassign (G r)). split.
    - apply (all_zero_sat cs ncs infinity (G r) Hwf (HokK r) Hzero).
    - apply (Fz_from_Inv cs ncs dom infinity maxd orc0 Hwf Hinf cf r HI Hzero).
      intros x Hx.
      pose proof (within_ph cs ncs dom infinity maxd orc0 Hsym cf D n x HI (Hconn x Hx)) as Hph.
      assert (Pn : ph (nodes cf n) = S (2 * K + 1)) by (apply ph_impm; auto).
      destruct (ph_pos_running (nodes cf x)) as [Rx [Mx Lx]]; [lia|].
      split; [exact Rx|]. split; [exact Mx|]. unfold st. unfold r. lia.
  Qed.

  (* From the first finished() of a run on - so in particular at EVERY later finished() - the assignment
     held by all computations violates no constraint and never changes again, whatever the rest of the
     schedule does (further ok?/improve messages, the dba_end flood, late start() calls). *)
  Theorem finish_safe_all pre a rest n1 :
    (forall m, ~ In (EvFinished m) (snd (run P pre))) ->
    In (EvFinished n1) (snd (step P (fst (run P pre)) a)) ->
    (forall x, occurs cs x -> within cs ncs (Z.to_nat maxd) n1 x) ->
    satisfying cs infinity (held (fst (run P (pre ++ a :: rest))))
    /\ forall x, occurs cs x ->
         held (fst (run P (pre ++ a :: rest))) x = held (fst (step P (fst (run P pre)) a)) x.
  Proof.
    intros Hno Hin Hconn.
    destruct (first_finish_frozen pre a n1 Hno Hin Hconn) as [A [HA HZ]].
    pose proof (Fz_step cs ncs dom infinity maxd orc0 A Hwf Hinf HA _ a HZ) as HZ1.
    pose proof (Fz_exec cs ncs dom infinity maxd orc0 A Hwf Hinf HA rest _ HZ1) as HZ2.
    assert (E : fst (run P (pre ++ a :: rest)) = fst (exec P (fst (step P (fst (run P pre)) a)) rest)).
    { unfold run. rewrite exec_app. simpl fst. simpl.
      destruct (step P (fst (exec P (init P) pre)) a) as [cf1 e1]. simpl.
      destruct (exec P cf1 rest) as [cf2 e2]. reflexivity. }
    rewrite E. split.
    - apply (Fz_sat cs ncs infinity orc0 A HA _ HZ2).
    - intros x Hx. rewrite (Fz_held cs ncs orc0 A _ HZ2 x Hx). symmetry. apply (Fz_held cs ncs orc0 A _ HZ1 x Hx).
  Qed.

  (* the statement of C09 in its plain form: whenever a step of a run makes a computation call finished(),
     the assignment held by all computations right after that step violates no constraint
     (max_distance at or above the hop distance between any two variables that occur in constraints) *)
  Theorem finish_safe_every sched a n :
    (forall y x, occurs cs y -> occurs cs x -> within cs ncs (Z.to_nat maxd) y x) ->
    In (EvFinished n) (snd (step P (fst (run P sched)) a)) ->
    satisfying cs infinity (held (fst (step P (fst (run P sched)) a))).
  Proof.
    intros Hconn Hin.
    assert (E : fst (step P (fst (run P sched)) a) = fst (run P (sched ++ [a]))).
    { unfold run. rewrite exec_app. simpl. destruct (step P (fst (exec P (init P) sched)) a). reflexivity. }
    assert (Hrun : In (EvFinished n) (snd (run P (sched ++ [a])))).
    { unfold run. rewrite exec_app. simpl snd. apply in_or_app. right. simpl.
      unfold run in Hin.
      destruct (step P (fst (exec P (init P) sched)) a) as [cf1 e1]. simpl in *. now rewrite app_nil_r. }
    destruct (first_finish_split cs ncs dom infinity maxd orc0 (sched ++ [a]) (init P) n Hrun)
      as [pre [a' [rest [n1 [Es [Hno Hf]]]]]].
    rewrite E, Es.
    apply (finish_safe_all pre a' rest n1 Hno Hf).
    (* the first computation to finish occurs in a constraint: it finished on the delivery of a message *)
    destruct (first_finish_by_counter cs ncs dom infinity maxd orc0 pre a' n1 Hno Hf) as [s [m [q [-> [Hc _]]]]].
    pose proof (wf_sym cs ncs Hwf) as Hsym.
    pose proof (refines_rounds cs ncs dom infinity maxd orc0 Hsym pre Hno) as HI.
    pose proof (deliver_nbr cs ncs dom infinity maxd orc0 _ s n1 m q HI Hc) as Hab.
    destruct (nbr_occurs cs ncs Hwf s n1 Hab) as [_ Ho].
    intros x Hx. now apply Hconn.
  Qed.
End FinalAll.
