(* P_SelectMaxSum.v -- property C10 for the two Max-Sum models of M_MaxSum.v:
   every value selected (value_selection call) by a variable computation of A-Max-Sum
   ([amaxsum_proto], asynchronous) and of Max-Sum ([maxsum_proto], hosted by the synchronous mixin)
   is an index of the variable's domain, for EVERY schedule, every problem instance, every
   parameter setting.  Factor computations never select a value.

   Hypothesis on the instance ([wf_vars]): every declared variable has a non-empty domain and its
   declared initial value (if any) is a member of the domain -- what pyDCOP's Variable constructor
   enforces.  Both parts are needed: on_start selects [initial_value] verbatim when there is one,
   and select_value on an empty domain raises ValueError in the code (the model returns the dummy 0).

   The file starts with a generic lemma about the synchronous mixin ([sync_algo_inv]): a predicate on
   the hosted algorithm's state established by [a_init] and preserved by [a_start] / [a_cycle] (for
   arbitrary received messages) holds of [ast] in every reachable configuration. *)
From Coq Require Import QArith Lia.
From PyDcop Require Import Base Net P_SelectNet P_SelectSync M_SyncMixin M_MaxSum P_MaxSum.
Local Open Scope Z_scope.

(* ------------------------------------------------------------------ generic: the synchronous mixin
   touches the algorithm state only through a_start / a_cycle *)

(* ------------------------------------------------------------------ Max-Sum / A-Max-Sum *)
(* every declared variable has a non-empty domain, and its initial value (if any) is in the domain *)
Definition wf_vars (G : dcop) : Prop :=
  forall n vd, zlookup n (d_vars G) = Some vd ->
    (0 < v_dom vd)%nat /\ (forall i, v_init vd = Some i -> (i < v_dom vd)%nat).

(* ---- what the setters / senders do to the selection log *)
Lemma n_sel_log_out st o : n_sel (log_out st o) = n_sel st.
Proof. reflexivity. Qed.
Lemma n_sel_set_costs st c : n_sel (set_costs st c) = n_sel st.
Proof. reflexivity. Qed.
Lemma n_sel_log_sel st d c : n_sel (log_sel st d c) = n_sel st ++ [(d, c)].
Proof. reflexivity. Qed.

Lemma n_sel_var_send P G x vd st skip : n_sel (fst (var_send P G x vd st skip)) = n_sel st.
Proof. unfold var_send. destruct (emit_all _ _ _ _ _) as [outs prev']. reflexivity. Qed.

Lemma n_sel_fac_send P G fd st skip : n_sel (fst (fac_send P G fd st skip)) = n_sel st.
Proof. unfold fac_send. destruct (emit_all _ _ _ _ _) as [outs prev']. reflexivity. Qed.

Lemma n_sel_fac_start P G fd st : n_sel (fst (fac_start P G fd st)) = n_sel st.
Proof. reflexivity. Qed.

Lemma current_value_In st d : current_value st = Some d -> exists c, In (d, c) (n_sel st).
Proof.
  unfold current_value. destruct (rev (n_sel st)) as [|[d' c] r] eqn:E; intros H; [discriminate|].
  inversion H; subst. exists c. apply in_rev. rewrite E. left. reflexivity.
Qed.

Section Sel.
  Variable P : params.
  Variable G : dcop.

  Definition in_dom (vd : vdef) (dc : nat * option Q) : Prop := (fst dc < v_dom vd)%nat.

  (* the invariant: a variable has logged only domain indices, a non-variable nothing *)
  Definition sel_ok (n : node) (st : nst) : Prop :=
    match zlookup n (d_vars G) with
    | Some vd => Forall (in_dom vd) (n_sel st)
    | None => n_sel st = []
    end.

  (* ---- non-variable computations never touch the log (no hypothesis needed) *)
  Lemma nonvar_node_start sync n st :
    zlookup n (d_vars G) = None -> n_sel (fst (node_start P G sync n st)) = n_sel st.
  Proof.
    intros E. unfold node_start. rewrite E.
    destruct (zlookup n (d_facs G)); [apply n_sel_fac_start|reflexivity].
  Qed.

  Lemma nonvar_ms_cycle n st k msgs :
    zlookup n (d_vars G) = None -> n_sel (fst (fst (ms_cycle P G n st k msgs))) = n_sel st.
  Proof.
    intros E. unfold ms_cycle. rewrite E.
    destruct (zlookup n (d_facs G)) as [fd|]; [|reflexivity].
    match goal with |- context [fac_send P G fd ?s0 ?sk] =>
      pose proof (n_sel_fac_send P G fd s0 sk) as H; destruct (fac_send P G fd s0 sk) as [st2 outs] end.
    cbn [fst] in *. rewrite H. reflexivity.
  Qed.

  Lemma nonvar_ams_recv n st src m :
    zlookup n (d_vars G) = None -> n_sel (fst (fst (ams_recv P G n st src m))) = n_sel st.
  Proof.
    intros E. unfold ams_recv. rewrite E.
    destruct (zlookup n (d_facs G)) as [fd|]; [|reflexivity].
    match goal with |- context [if ?b then _ else _] => destruct b end; [|reflexivity].
    match goal with |- context [fac_send P G fd ?s0 ?sk] =>
      pose proof (n_sel_fac_send P G fd s0 sk) as H; destruct (fac_send P G fd s0 sk) as [st2 outs] end.
    cbn [fst] in *. rewrite H. reflexivity.
  Qed.

  (* ---- variable computations *)
  Lemma var_select_ok vd st :
    (0 < v_dom vd)%nat -> Forall (in_dom vd) (n_sel st) -> Forall (in_dom vd) (n_sel (var_select P vd st)).
  Proof.
    intros Hpos H. unfold var_select.
    pose proof (select_value_spec (p_max P) vd (n_costs st) Hpos) as S.
    destruct (select_value (p_max P) vd (n_costs st)) as [d c].
    rewrite n_sel_log_sel. apply Forall_app. split; [exact H|].
    constructor; [|constructor]. unfold in_dom. cbn [fst]. tauto.
  Qed.

  Lemma var_start_ok sync x vd st :
    (0 < v_dom vd)%nat -> (forall i, v_init vd = Some i -> (i < v_dom vd)%nat) ->
    Forall (in_dom vd) (n_sel st) -> Forall (in_dom vd) (n_sel (fst (var_start P G sync x vd st))).
  Proof.
    intros Hpos Hini H. unfold var_start. cbv zeta. cbn [fst]. rewrite n_sel_log_out.
    destruct (v_init vd) as [i|] eqn:Ei.
    - rewrite n_sel_log_sel. apply Forall_app. split; [exact H|].
      constructor; [|constructor]. unfold in_dom. cbn [fst]. auto.
    - pose proof (select_value_spec (p_max P) vd (n_costs st) Hpos) as S.
      destruct (select_value (p_max P) vd (n_costs st)) as [d c].
      rewrite n_sel_log_sel. apply Forall_app. split; [exact H|].
      constructor; [|constructor]. unfold in_dom. cbn [fst]. tauto.
  Qed.

  Hypothesis WF : wf_vars G.

  Lemma node_start_ok sync n st : sel_ok n st -> sel_ok n (fst (node_start P G sync n st)).
  Proof.
    unfold sel_ok. destruct (zlookup n (d_vars G)) as [vd|] eqn:E; intros H.
    - unfold node_start. rewrite E. destruct (WF n vd E) as [Hpos Hini].
      apply var_start_ok; auto.
    - rewrite nonvar_node_start by exact E. exact H.
  Qed.

  Lemma ms_cycle_ok n st k msgs : sel_ok n st -> sel_ok n (fst (fst (ms_cycle P G n st k msgs))).
  Proof.
    unfold sel_ok. destruct (zlookup n (d_vars G)) as [vd|] eqn:E; intros H.
    - unfold ms_cycle. rewrite E. destruct (WF n vd E) as [Hpos _].
      match goal with |- context [var_send P G n vd ?s0 ?sk] =>
        pose proof (n_sel_var_send P G n vd s0 sk) as H1; destruct (var_send P G n vd s0 sk) as [st2 outs] end.
      cbn [fst] in *. rewrite H1. apply var_select_ok; [exact Hpos|].
      rewrite n_sel_set_costs. exact H.
    - rewrite nonvar_ms_cycle by exact E. exact H.
  Qed.

  Lemma ams_recv_ok n st src m : sel_ok n st -> sel_ok n (fst (fst (ams_recv P G n st src m))).
  Proof.
    unfold sel_ok. destruct (zlookup n (d_vars G)) as [vd|] eqn:E; intros H.
    - unfold ams_recv. rewrite E. destruct (WF n vd E) as [Hpos _]. cbv zeta.
      match goal with |- context [var_send P G n vd ?s0 ?sk] =>
        pose proof (n_sel_var_send P G n vd s0 sk) as H1; destruct (var_send P G n vd s0 sk) as [st2 outs] end.
      cbn [fst] in *. rewrite H1. apply var_select_ok; [exact Hpos|].
      rewrite n_sel_set_costs. exact H.
    - rewrite nonvar_ams_recv by exact E. exact H.
  Qed.

  (* ---- A-Max-Sum events *)
  Definition asel_ok (e : aev) : Prop :=
    match e with ASel n d c => exists vd, zlookup n (d_vars G) = Some vd /\ (d < v_dom vd)%nat end.

  Lemma sel_events_ok n before after : sel_ok n after -> Forall asel_ok (sel_events n before after).
  Proof.
    unfold sel_ok, sel_events. destruct (zlookup n (d_vars G)) as [vd|] eqn:E; intros H.
    - apply Forall_forall. intros e He. apply in_map_iff in He as [dc [<- Hin]].
      cbn. rewrite E. exists vd. split; [reflexivity|].
      rewrite Forall_forall in H. apply H.
      rewrite <- (firstn_skipn (List.length (n_sel before)) (n_sel after)).
      apply in_or_app. right. exact Hin.
    - rewrite H. rewrite skipn_nil. constructor.
  Qed.

  Lemma amaxsum_inv sched :
    good sel_ok (fun _ _ _ => True) (fst (run (amaxsum_proto P G) sched))
    /\ Forall asel_ok (snd (run (amaxsum_proto P G) sched)).
  Proof.
    apply net_inv.
    - intros n. unfold sel_ok. cbn. destruct (zlookup n (d_vars G)); [constructor|reflexivity].
    - intros n s s' outs evs Hs E. cbn in E. unfold ams_start in E.
      pose proof (node_start_ok false n s Hs) as H.
      destruct (node_start P G false n s) as [st1 o1]. inversion E; subst. cbn [fst] in H.
      split; [exact H|]. split; [apply Forall_forall; intros; exact I|].
      apply sel_events_ok. exact H.
    - intros n s src m s' outs evs Hs _ E. cbn in E.
      pose proof (ams_recv_ok n s src m Hs) as H. rewrite E in H. cbn [fst] in H.
      split; [exact H|]. split; [apply Forall_forall; intros; exact I|].
      (* the events of ams_recv are sel_events n s s' (variable) or [] (otherwise) *)
      revert E. unfold ams_recv. destruct (zlookup n (d_vars G)) as [vd|] eqn:Ev.
      + cbv zeta. destruct (var_send _ _ _ _ _ _) as [st2 o2]. intros E. inversion E; subst.
        apply sel_events_ok. exact H.
      + destruct (zlookup n (d_facs G)) as [fd|].
        * match goal with |- context [if ?b then _ else _] => destruct b end.
          -- destruct (fac_send _ _ _ _ _) as [st2 o2]. intros E. inversion E; subst. constructor.
          -- intros E. inversion E; subst. constructor.
        * intros E. inversion E; subst. constructor.
  Qed.
End Sel.

(* ------------------------------------------------------------------ C10, asynchronous A-Max-Sum *)
Theorem amaxsum_selects_in_domain : forall P G sched,
  wf_vars G ->
  (forall n d c, In (ASel n d c) (snd (run (amaxsum_proto P G) sched)) ->
     exists vd, zlookup n (d_vars G) = Some vd /\ (d < v_dom vd)%nat) /\
  (forall n vd d, zlookup n (d_vars G) = Some vd ->
     current_value (w_st (nodes (fst (run (amaxsum_proto P G) sched)) n)) = Some d -> (d < v_dom vd)%nat).
Proof.
  intros P G sched WF. destruct (amaxsum_inv P G WF sched) as [[HJ _] HE]. split.
  - intros n d c Hin. rewrite Forall_forall in HE. exact (HE _ Hin).
  - intros n vd d Ev Hc. specialize (HJ n). unfold sel_ok in HJ. rewrite Ev in HJ.
    apply current_value_In in Hc as [c Hin]. rewrite Forall_forall in HJ. exact (HJ _ Hin).
Qed.

(* every logged selection (not only the last one), and nothing is ever logged by a non-variable *)
Theorem amaxsum_log_in_domain : forall P G sched n vd dc,
  wf_vars G -> zlookup n (d_vars G) = Some vd ->
  In dc (n_sel (w_st (nodes (fst (run (amaxsum_proto P G) sched)) n))) -> (fst dc < v_dom vd)%nat.
Proof.
  intros P G sched n vd dc WF Ev Hin. destruct (amaxsum_inv P G WF sched) as [[HJ _] _].
  specialize (HJ n). unfold sel_ok in HJ. rewrite Ev in HJ. rewrite Forall_forall in HJ. exact (HJ _ Hin).
Qed.

(* no hypothesis on the instance for this one *)
Theorem amaxsum_nonvar_never_selects : forall P G sched n,
  zlookup n (d_vars G) = None ->
  n_sel (w_st (nodes (fst (run (amaxsum_proto P G) sched)) n)) = [] /\
  (forall d c, ~ In (ASel n d c) (snd (run (amaxsum_proto P G) sched))).
Proof.
  intros P G sched n En.
  pose (J := fun (x : node) (st : nst) => zlookup x (d_vars G) = None -> n_sel st = []).
  pose (Pev := fun e : aev => match e with ASel x _ _ => zlookup x (d_vars G) <> None end).
  assert (Hev : forall x b a, J x a -> Forall Pev (sel_events x b a)).
  { intros x b a Ha. unfold sel_events. apply Forall_forall. intros e He.
    apply in_map_iff in He as [dc [<- Hin]]. cbn. intros Hx. rewrite (Ha Hx), skipn_nil in Hin. exact Hin. }
  assert (H : good J (fun _ _ _ => True) (fst (run (amaxsum_proto P G) sched))
              /\ Forall Pev (snd (run (amaxsum_proto P G) sched))).
  { apply net_inv.
    - intros x _. reflexivity.
    - intros x s s' outs evs Hs E. cbn in E. unfold ams_start in E.
      assert (J x (fst (node_start P G false x s))) as H.
      { intros Hx. rewrite nonvar_node_start by exact Hx. auto. }
      destruct (node_start P G false x s) as [st1 o1]. inversion E; subst. cbn [fst] in H.
      split; [exact H|]. split; [apply Forall_forall; intros; exact I|]. apply Hev. exact H.
    - intros x s src m s' outs evs Hs _ E. cbn in E.
      assert (J x (fst (fst (ams_recv P G x s src m)))) as H.
      { intros Hx. rewrite nonvar_ams_recv by exact Hx. auto. }
      rewrite E in H. cbn [fst] in H.
      split; [exact H|]. split; [apply Forall_forall; intros; exact I|].
      revert E. unfold ams_recv. destruct (zlookup x (d_vars G)) as [vd|] eqn:Ev.
      + cbv zeta. destruct (var_send _ _ _ _ _ _) as [st2 o2]. intros E. inversion E; subst.
        apply Hev. exact H.
      + destruct (zlookup x (d_facs G)) as [fd|].
        * match goal with |- context [if ?b then _ else _] => destruct b end.
          -- destruct (fac_send _ _ _ _ _) as [st2 o2]. intros E. inversion E; subst. constructor.
          -- intros E. inversion E; subst. constructor.
        * intros E. inversion E; subst. constructor. }
  destruct H as [[HJ _] HE]. split.
  - apply HJ. exact En.
  - intros d c Hin. rewrite Forall_forall in HE. apply (HE _ Hin). exact En.
Qed.

(* ------------------------------------------------------------------ C10, synchronous Max-Sum *)
Lemma maxsum_sel_ok P G sched n : wf_vars G ->
  sel_ok G n (ast (w_st (nodes (fst (run (maxsum_proto P G) sched)) n))).
Proof.
  intros WF. unfold maxsum_proto.
  apply (sync_algo_inv (nbrs G) (maxsum_algo P G) (sel_ok G)).
  - intros x. cbn. unfold sel_ok. destruct (zlookup x (d_vars G)); [constructor|reflexivity].
  - intros x a a' outs Ha E. cbn in E.
    pose proof (node_start_ok P G WF true x a Ha) as H. rewrite E in H. exact H.
  - intros x a k msgs a' po re Ha E. cbn in E.
    pose proof (ms_cycle_ok P G WF x a k msgs Ha) as H. rewrite E in H. exact H.
Qed.

Theorem maxsum_selects_in_domain : forall P G sched n vd dc,
  wf_vars G -> zlookup n (d_vars G) = Some vd ->
  In dc (n_sel (ast (w_st (nodes (fst (run (maxsum_proto P G) sched)) n)))) -> (fst dc < v_dom vd)%nat.
Proof.
  intros P G sched n vd dc WF Ev Hin.
  pose proof (maxsum_sel_ok P G sched n WF) as H. unfold sel_ok in H. rewrite Ev in H.
  rewrite Forall_forall in H. exact (H _ Hin).
Qed.

Corollary maxsum_current_value_in_domain : forall P G sched n vd d,
  wf_vars G -> zlookup n (d_vars G) = Some vd ->
  current_value (ast (w_st (nodes (fst (run (maxsum_proto P G) sched)) n))) = Some d -> (d < v_dom vd)%nat.
Proof.
  intros P G sched n vd d WF Ev Hc. apply current_value_In in Hc as [c Hin].
  exact (maxsum_selects_in_domain P G sched n vd (d, c) WF Ev Hin).
Qed.

(* factor (and undeclared) computations never log a selection; no hypothesis on the instance *)
Theorem maxsum_nonvar_never_selects : forall P G sched n,
  zlookup n (d_vars G) = None ->
  n_sel (ast (w_st (nodes (fst (run (maxsum_proto P G) sched)) n))) = [].
Proof.
  intros P G sched n En. unfold maxsum_proto.
  apply (sync_algo_inv (nbrs G) (maxsum_algo P G)
           (fun x st => zlookup x (d_vars G) = None -> n_sel st = [])); [| | |exact En].
  - intros x _. reflexivity.
  - intros x a a' outs Ha E Hx. cbn in E.
    pose proof (nonvar_node_start P G true x a Hx) as H. rewrite E in H. cbn [fst] in H.
    rewrite H. auto.
  - intros x a k msgs a' po re Ha E Hx. cbn in E.
    pose proof (nonvar_ms_cycle P G x a k msgs Hx) as H. rewrite E in H. cbn [fst] in H.
    rewrite H. auto.
Qed.

(* ------------------------------------------------------------------ the two halves of [wf_vars] are
   both necessary (of the model): on_start selects a declared initial value verbatim, whatever it
   is; and on an empty domain the model's select_value returns the dummy index 0 (the code raises
   ValueError there). *)
Definition par0 : params := mkPar false 0%Q 0%Q false false 0%nat.

Example amaxsum_needs_init_in_domain :
  exists G sched n d c, In (ASel n d c) (snd (run (amaxsum_proto par0 G) sched)) /\
    exists vd, zlookup n (d_vars G) = Some vd /\ (0 < v_dom vd)%nat /\ ~ (d < v_dom vd)%nat.
Proof.
  exists (mkD [(1, mkV 2 [] (Some 5%nat))] []), [Start 1], 1, 5%nat, None.
  split; [vm_compute; auto|]. eexists. split; [reflexivity|]. cbn. lia.
Qed.

Example amaxsum_needs_nonempty_domain :
  exists G sched n d c, In (ASel n d c) (snd (run (amaxsum_proto par0 G) sched)) /\
    exists vd, zlookup n (d_vars G) = Some vd /\ v_init vd = None /\ ~ (d < v_dom vd)%nat.
Proof.
  exists (mkD [(1, mkV 0 [] None)] []), [Start 1], 1, 0%nat, (Some 0%Q).
  split; [vm_compute; auto|]. eexists. split; [reflexivity|]. cbn. split; [reflexivity|lia].
Qed.
