(* P_IlpRowsObj.v -- the linear objective of oilp_cgdp.ilp_cgdp at row level (C24):
   the betas created by the loop (with its `in betas: continue` de-duplication) carry, at the
   indicator of a distribution D, exactly the communication cost per distinct ordered pair of
   computations, so the row-level objective is [M_Ilp.oilp_obj]; hence a 0/1 solution of the
   rows that minimises the linear objective decodes to a cost-minimal distribution. *)
From PyDcop Require Import Base M_Dist M_Ilp P_Ilp M_IlpRows P_IlpRows.
From Coq Require Import ZifyBool Permutation.

(* ------------------------------------------------------------------ sums *)
Lemma zsum_perm l l' : Permutation l l' -> zsum l = zsum l'.
Proof. induction 1; simpl; lia. Qed.

Lemma zsum_map_flat_map {A B} (W : B -> Z) (f : A -> list B) l :
  zsum (map W (flat_map f l)) = zsum (map (fun x => zsum (map W (f x))) l).
Proof. induction l as [|x l IH]; simpl; auto. rewrite map_app, zsum_app_ilp, IH. reflexivity. Qed.

Lemma zsum_filter_zero {A} (W : A -> Z) (P : A -> bool) l :
  (forall x, In x l -> P x = false -> W x = 0) -> zsum (map W (filter P l)) = zsum (map W l).
Proof.
  induction l as [|x l IH]; intros H; simpl; auto.
  destruct (P x) eqn:E; simpl; rewrite IH; auto; try (intros y Hy; apply H; now right).
  rewrite (H x (or_introl eq_refl) E). lia.
Qed.

Lemma zsum_map_ext_in {A} (f g : A -> Z) l :
  (forall x, In x l -> f x = g x) -> zsum (map f l) = zsum (map g l).
Proof. intros H. f_equal. now apply map_ext_in. Qed.

(* sum against an indicator over a duplicate-free list *)
Lemma sum_ind (A : list Z) (F : Z -> Z) x : NoDup A -> In x A ->
  zsum (map (fun a => F a * b2z (x =? a)) A) = F x.
Proof.
  induction A as [|a A IH]; intros Hnd Hin; [destruct Hin|].
  inversion Hnd as [|? ? Hnin Hnd']; subst. cbn [map zsum].
  destruct Hin as [->|Hin].
  - rewrite Z.eqb_refl. cbn [b2z].
    assert (zsum (map (fun a => F a * b2z (x =? a)) A) = 0); [|lia].
    clear IH Hnd Hnd'. induction A as [|b A IH]; cbn [map zsum]; auto.
    assert (x =? b = false) as -> by (apply Z.eqb_neq; intros ->; apply Hnin; now left).
    cbn [b2z]. rewrite IH; [lia|]. intros H. apply Hnin. now right.
  - assert (x =? a = false) as -> by (apply Z.eqb_neq; intros ->; contradiction).
    cbn [b2z]. rewrite IH; auto. lia.
Qed.

(* ------------------------------------------------------------------ keys *)
Lemma key_eqb_eq k k' : key_eqb k k' = true <-> k = k'.
Proof.
  destruct k as [[[c1 a1] c2] a2], k' as [[[d1 b1] d2] b2]. unfold key_eqb.
  rewrite !andb_true_iff, !Z.eqb_eq. split.
  - intros [[[-> ->] ->] ->]. reflexivity.
  - intros H. inversion H. auto.
Qed.

Lemma key_eq_dec (k k' : key) : {k = k'} + {k <> k'}.
Proof. repeat decide equality. Qed.

Lemma zz_eq_dec (p q : Z * Z) : {p = q} + {p <> q}.
Proof. repeat decide equality. Qed.

Lemma existsb_key k seen : existsb (key_eqb k) seen = true <-> In k seen.
Proof.
  rewrite existsb_exists. split.
  - intros [q [Hq E]]. apply key_eqb_eq in E. now subst.
  - intros H. exists k. split; auto. now apply key_eqb_eq.
Qed.

Lemma swap_invol k : swap_key (swap_key k) = k.
Proof. destruct k as [[[c1 a1] c2] a2]. reflexivity. Qed.

Definition swap_closed (seen : list key) : Prop := forall k, In k seen -> In (swap_key k) seen.

Lemma swap_closed_step k seen : swap_closed seen -> swap_closed (swap_key k :: k :: seen).
Proof.
  intros H q [<-|[<-|Hq]].
  - rewrite swap_invol. right; now left.
  - now left.
  - right; right. auto.
Qed.

Lemma beta_loop_in cands : forall seen, swap_closed seen -> forall k',
  In k' (map fst (beta_loop cands seen)) <->
  (In k' cands \/ In (swap_key k') cands) /\ ~ In k' seen.
Proof.
  induction cands as [|k r IH]; intros seen Hc k'; simpl.
  - tauto.
  - destruct (existsb (key_eqb k) seen) eqn:E.
    + apply existsb_key in E. rewrite (IH seen Hc). split.
      * intros [[H|H] Hn]; split; auto.
      * intros [[[H|H]|[H|H]] Hn].
        -- subst. contradiction.
        -- split; auto.
        -- exfalso. apply Hn. rewrite <- (swap_invol k'). apply Hc. now rewrite <- H.
        -- split; auto.
    + assert (Hk : ~ In k seen).
      { intros H. apply existsb_key in H. congruence. }
      simpl. rewrite (IH _ (swap_closed_step k seen Hc)). simpl. split.
      * intros [<-|[<-|[[H|H] Hn]]].
        -- split; auto.
        -- split; [right; left; symmetry; apply swap_invol|]. intros H. apply Hk.
           rewrite <- (swap_invol k). now apply Hc.
        -- split; auto.
        -- split; auto.
      * intros [H Hn]. destruct (key_eq_dec k k') as [->|Hne1]; [now left|].
        destruct (key_eq_dec (swap_key k) k') as [<-|Hne2]; [right; now left|].
        right; right. split.
        -- destruct H as [[->|H]|[H|H]]; auto; [congruence|].
           exfalso. apply Hne2. rewrite H. apply swap_invol.
        -- intros [H'|[H'|H']]; auto.
Qed.

Lemma beta_loop_nodup cands : forall seen, swap_closed seen ->
  (forall k, In k cands -> swap_key k <> k) -> NoDup (map fst (beta_loop cands seen)).
Proof.
  induction cands as [|k r IH]; intros seen Hc Hne; simpl.
  - constructor.
  - destruct (existsb (key_eqb k) seen) eqn:E.
    + apply IH; auto. intros q Hq. apply Hne. now right.
    + simpl. pose proof (swap_closed_step k seen Hc) as Hc'.
      constructor; [|constructor].
      * intros [H|H].
        -- apply (Hne k); auto. now left.
        -- apply (beta_loop_in r _ Hc') in H as [_ Hn]. apply Hn. right; now left.
      * intros H. apply (beta_loop_in r _ Hc') in H as [_ Hn]. apply Hn. now left.
      * apply IH; auto. intros q Hq. apply Hne. now right.
Qed.

(* ------------------------------------------------------------------ combinations(l, 2) *)
Lemma in_pairs_l (l : list Z) x y : In (x, y) (pairs l) -> In x l /\ In y l.
Proof.
  induction l as [|z l IH]; simpl; [tauto|]. rewrite in_app_iff, in_map_iff.
  intros [[w [E H]]|H].
  - inversion E; subst. auto.
  - destruct (IH H). auto.
Qed.

Lemma in_pairs_neq (l : list Z) x y : NoDup l -> In (x, y) (pairs l) -> x <> y.
Proof.
  induction l as [|z l IH]; simpl; [tauto|]. intros Hnd. inversion Hnd; subst.
  rewrite in_app_iff, in_map_iff. intros [[w [E H]]|H].
  - inversion E; subst. intros ->. contradiction.
  - auto.
Qed.

Lemma pairs_total (l : list Z) x y :
  In x l -> In y l -> x <> y -> In (x, y) (pairs l) \/ In (y, x) (pairs l).
Proof.
  induction l as [|z l IH]; simpl; [tauto|]. rewrite !in_app_iff, !in_map_iff.
  intros [->|Hx] [->|Hy] Hne.
  - congruence.
  - left; left. eauto.
  - right; left. eauto.
  - destruct (IH Hx Hy Hne); auto.
Qed.

(* ------------------------------------------------------------------ dedup_pairs *)
Lemma dedup_pairs_in l : forall seen p,
  In p (dedup_pairs l seen) <-> In p l /\ ~ In p seen.
Proof.
  induction l as [|q r IH]; intros seen p; simpl; [tauto|].
  destruct (existsb (zz_eqb q) seen) eqn:E.
  - apply zzmem_In in E. rewrite IH. split.
    + intros [H Hn]. auto.
    + intros [[->|H] Hn]; [contradiction|auto].
  - assert (Hq : ~ In q seen) by (intros H; apply zzmem_In in H; unfold zzmem in H; congruence).
    simpl. rewrite IH. simpl. split.
    + intros [<-|[H Hn]]; auto.
    + intros [[->|H] Hn]; auto. destruct (zz_eq_dec q p); auto. right. split; auto. tauto.
Qed.

Lemma dedup_pairs_NoDup l : forall seen, NoDup (dedup_pairs l seen).
Proof.
  induction l as [|q r IH]; intros seen; simpl; [constructor|].
  destruct (existsb (zz_eqb q) seen); auto. constructor; auto.
  rewrite dedup_pairs_in. simpl. tauto.
Qed.

(* ------------------------------------------------------------------ NoDup of products *)
Lemma NoDup_app_disj {B} (a b : list B) :
  NoDup a -> NoDup b -> (forall x, In x a -> ~ In x b) -> NoDup (a ++ b).
Proof.
  induction a as [|x a IH]; intros Ha Hb Hd; simpl; auto.
  inversion Ha; subst. constructor.
  - rewrite in_app_iff. intros [H|H]; [contradiction|]. apply (Hd x); auto. now left.
  - apply IH; auto. intros y Hy. apply Hd. now right.
Qed.

Lemma NoDup_flat_map_disj {A B} (f : A -> list B) l :
  NoDup l -> (forall x, In x l -> NoDup (f x)) ->
  (forall x y b, In x l -> In y l -> In b (f x) -> In b (f y) -> x = y) ->
  NoDup (flat_map f l).
Proof.
  induction l as [|x l IH]; intros Hnd Hf Hd; simpl; [constructor|].
  inversion Hnd as [|? ? Hnin Hnd']; subst.
  apply NoDup_app_disj.
  - apply Hf. now left.
  - apply IH; auto.
    + intros y Hy. apply Hf. now right.
    + intros y z b Hy Hz. apply Hd; now right.
  - intros b Hb H. apply in_flat_map in H as [y [Hy Hby]].
    assert (x = y) by (apply (Hd x y b); auto; [now left|now right]).
    subst. contradiction.
Qed.

Definition key_universe (A : list Z) (ps : list (Z * Z)) : list key :=
  flat_map (fun p => flat_map (fun a1 => map (fun a2 => (fst p, a1, snd p, a2)) A) A) ps.

Lemma key_universe_in A ps c1 a1 c2 a2 :
  In (c1, a1, c2, a2) (key_universe A ps) <-> In (c1, c2) ps /\ In a1 A /\ In a2 A.
Proof.
  unfold key_universe. rewrite in_flat_map. split.
  - intros [[p1 p2] [Hp H]]. apply in_flat_map in H as [b1 [Hb1 H]].
    apply in_map_iff in H as [b2 [E Hb2]]. simpl in E. inversion E; subst. auto.
  - intros (Hp & H1 & H2). exists (c1, c2). split; auto. apply in_flat_map. exists a1. split; auto.
    apply in_map_iff. exists a2. split; auto.
Qed.

Lemma key_universe_NoDup A ps : NoDup A -> NoDup ps -> NoDup (key_universe A ps).
Proof.
  intros HA Hps. unfold key_universe. apply NoDup_flat_map_disj; auto.
  - intros p _. apply NoDup_flat_map_disj; auto.
    + intros a1 _. clear -HA. induction HA; simpl; constructor; auto.
      rewrite in_map_iff. intros [y [E Hy]]. inversion E; subst. contradiction.
    + intros x y b _ _ Hx Hy. apply in_map_iff in Hx as [? [<- _]].
      apply in_map_iff in Hy as [? [E _]]. inversion E; auto.
  - intros [p1 p2] [q1 q2] b _ _ Hx Hy.
    apply in_flat_map in Hx as [? [_ Hx]]. apply in_map_iff in Hx as [? [<- _]].
    apply in_flat_map in Hy as [? [_ Hy]]. apply in_map_iff in Hy as [? [E _]].
    simpl in E. inversion E; subst; auto.
Qed.

(* ------------------------------------------------------------------ the betas of the loop *)
Lemma beta_cands_in G c1 a1 c2 a2 :
  In (c1, a1, c2, a2) (beta_cands G) <->
  In (a1, a2) (pairs (agent_ids (g_inst G))) /\ In (c1, c2) (link_pairs G).
Proof.
  unfold beta_cands. rewrite in_flat_map. split.
  - intros [[b1 b2] [Hb H]]. apply in_map_iff in H as [[d1 d2] [E Hd]]. simpl in E.
    inversion E; subst. auto.
  - intros [Ha Hc]. exists (a1, a2). split; auto. apply in_map_iff. exists (c1, c2). split; auto.
Qed.

Definition distinct_agents (k : key) : bool := let '(_, a1, _, a2) := k in negb (a1 =? a2).

Lemma beta_keys_in G c1 a1 c2 a2 : NoDup (agent_ids (g_inst G)) ->
  (In (c1, a1, c2, a2) (map fst (beta_keys G)) <->
   In (c1, c2) (link_pairs G) /\ In a1 (agent_ids (g_inst G)) /\ In a2 (agent_ids (g_inst G)) /\
   a1 <> a2).
Proof.
  intros Hnd. unfold beta_keys. rewrite beta_loop_in by (intros k []). simpl swap_key.
  rewrite !beta_cands_in. split.
  - intros [[[Ha Hc]|[Ha Hc]] _]; destruct (in_pairs_l _ _ _ Ha); pose proof (in_pairs_neq _ _ _ Hnd Ha);
      repeat split; auto.
  - intros (Hc & H1 & H2 & Hne). split; [|tauto].
    destruct (pairs_total _ _ _ H1 H2 Hne); auto.
Qed.

Lemma beta_keys_NoDup G : NoDup (agent_ids (g_inst G)) -> NoDup (map fst (beta_keys G)).
Proof.
  intros Hnd. apply beta_loop_nodup; [intros k []|].
  intros [[[c1 a1] c2] a2] H. apply beta_cands_in in H as [Ha _].
  pose proof (in_pairs_neq _ _ _ Hnd Ha). simpl. intros E. inversion E. congruence.
Qed.

Lemma beta_keys_perm G : NoDup (agent_ids (g_inst G)) ->
  Permutation (map fst (beta_keys G))
    (filter distinct_agents (key_universe (agent_ids (g_inst G)) (dedup_pairs (link_pairs G) []))).
Proof.
  intros Hnd. apply NoDup_Permutation.
  - now apply beta_keys_NoDup.
  - apply NoDup_filter. apply key_universe_NoDup; auto. apply dedup_pairs_NoDup.
  - intros [[[c1 a1] c2] a2]. rewrite (beta_keys_in G c1 a1 c2 a2 Hnd), filter_In, key_universe_in,
      dedup_pairs_in. simpl. split.
    + intros (Hc & H1 & H2 & Hne). repeat split; auto. lia.
    + intros [[[Hc _] [H1 H2]] Hne]. repeat split; auto. lia.
Qed.

(* ------------------------------------------------------------------ objective at an indicator *)
Definition links_wf (G : ginst) : Prop :=
  forall l c, In l (g_links G) -> In c l -> In c (node_ids (g_inst G)).

Lemma link_pairs_nodes G c1 c2 : links_wf G -> In (c1, c2) (link_pairs G) ->
  In c1 (node_ids (g_inst G)) /\ In c2 (node_ids (g_inst G)).
Proof.
  intros Hw H. unfold link_pairs in H. apply in_flat_map in H as [l [Hl H]].
  apply in_pairs_l in H as [H1 H2]. split; eapply Hw; eauto.
Qed.

Lemma valid_dist_id I D c : valid_dist I D -> In c (node_ids I) -> In (dget D c) (agent_ids I).
Proof.
  intros Hv Hc. apply in_map_iff in Hc as [nd [<- Hn]]. destruct (Hv nd Hn) as [g [Hg ->]].
  now apply in_map.
Qed.

Lemma route_f_same I a : route_f I a a = 0.
Proof.
  unfold route_f, agent_of. destruct (find (fun g => g_id g =? a) (i_agents I)) as [g|] eqn:E; auto.
  apply find_some in E as [_ E]. unfold route. now rewrite E.
Qed.

Definition key_weight (I : inst) (D : list (Z * Z)) (k : key) : Z :=
  let '(c1, a1, c2, a2) := k in
  key_coef I k * b2z ((dget D c1 =? a1) && (dget D c2 =? a2)).

Lemma comm_at_encode G D :
  lin_eval (oilp_encode D) (oilp_comm_coefs G) =
  zsum (map (key_weight (g_inst G) D) (map fst (beta_keys G))).
Proof.
  unfold oilp_comm_coefs. rewrite lin_eval_map, map_map. apply zsum_map_ext_in.
  intros [[[[c1 a1] c2] a2] second] _. reflexivity.
Qed.

Lemma universe_sum G D p : NoDup (agent_ids (g_inst G)) ->
  In (dget D (fst p)) (agent_ids (g_inst G)) -> In (dget D (snd p)) (agent_ids (g_inst G)) ->
  zsum (map (key_weight (g_inst G) D)
         (flat_map (fun a1 => map (fun a2 => (fst p, a1, snd p, a2)) (agent_ids (g_inst G)))
                   (agent_ids (g_inst G)))) = comm_term (g_inst G) D p.
Proof.
  intros Hnd H1 H2. destruct p as [c1 c2]. simpl fst in *. simpl snd in *.
  rewrite zsum_map_flat_map.
  rewrite (zsum_map_ext_in _ (fun a1 => (route_f (g_inst G) a1 (dget D c2) * msg_load (g_inst G) c1 c2)
                                        * b2z (dget D c1 =? a1))).
  - rewrite (sum_ind _ (fun a1 => route_f (g_inst G) a1 (dget D c2) * msg_load (g_inst G) c1 c2)); auto.
  - intros a1 _. rewrite map_map. unfold key_weight, key_coef.
    rewrite (zsum_map_ext_in _ (fun a2 => (route_f (g_inst G) a1 a2 * msg_load (g_inst G) c1 c2
                                           * b2z (dget D c1 =? a1)) * b2z (dget D c2 =? a2))).
    + rewrite (sum_ind _ (fun a2 => route_f (g_inst G) a1 a2 * msg_load (g_inst G) c1 c2
                                    * b2z (dget D c1 =? a1))); auto.
    + intros a2 _. destruct (dget D c1 =? a1), (dget D c2 =? a2); simpl; lia.
Qed.

Lemma comm_obj_at_encode G D : NoDup (agent_ids (g_inst G)) -> links_wf G -> valid_dist (g_inst G) D ->
  lin_eval (oilp_encode D) (oilp_comm_coefs G) = fst (oilp_obj G D).
Proof.
  intros Hnd Hw Hv. rewrite comm_at_encode.
  rewrite (zsum_perm _ _ (Permutation_map _ (beta_keys_perm G Hnd))).
  rewrite zsum_filter_zero.
  - unfold key_universe. rewrite zsum_map_flat_map. unfold oilp_obj. simpl fst.
    apply zsum_map_ext_in. intros [c1 c2] Hp. apply dedup_pairs_in in Hp as [Hp _].
    destruct (link_pairs_nodes G c1 c2 Hw Hp). apply universe_sum; auto; apply valid_dist_id; auto.
  - intros [[[c1 a1] c2] a2] _ E. simpl in E. assert (a1 = a2) as -> by lia.
    unfold key_weight, key_coef. rewrite route_f_same. lia.
Qed.

Lemma host_obj_at_encode G D : NoDup (agent_ids (g_inst G)) -> valid_dist (g_inst G) D ->
  lin_eval (oilp_encode D) (oilp_host_coefs G) = snd (oilp_obj G D).
Proof.
  intros Hnd Hv. unfold oilp_host_coefs, lin_eval. rewrite zsum_map_flat_map.
  unfold oilp_obj, hosting_sum. simpl snd. apply zsum_map_ext_in. intros nd Hn.
  rewrite map_map. simpl.
  change (map (fun g => hosting_f (g_inst G) (g_id g) (n_id nd) * b2z (dget D (n_id nd) =? g_id g))
              (i_agents (g_inst G)))
    with (map (fun g => (fun a => hosting_f (g_inst G) a (n_id nd) * b2z (dget D (n_id nd) =? a)) (g_id g))
              (i_agents (g_inst G))).
  rewrite <- (map_map g_id (fun a => hosting_f (g_inst G) a (n_id nd) * b2z (dget D (n_id nd) =? a))).
  apply (sum_ind _ (fun a => hosting_f (g_inst G) a (n_id nd))); auto.
  destruct (Hv nd Hn) as [g [Hg ->]]. now apply in_map.
Qed.

Lemma oilp_lin_obj_encode_l G D : NoDup (agent_ids (g_inst G)) -> links_wf G -> valid_dist (g_inst G) D ->
  oilp_lin_obj G (oilp_encode D) = oilp_obj G D.
Proof.
  intros Hnd Hw Hv. unfold oilp_lin_obj. rewrite comm_obj_at_encode, host_obj_at_encode; auto.
Qed.

(* ------------------------------------------------------------------ any solution of the rows *)
Lemma lin_eval_ext s s' l : (forall p, In p l -> s (fst p) = s' (fst p)) -> lin_eval s l = lin_eval s' l.
Proof. intros H. unfold lin_eval. apply zsum_map_ext_in. intros p Hp. now rewrite (H p Hp). Qed.

Lemma oilp_lin_obj_decode_l G s : NoDup (agent_ids (g_inst G)) -> links_wf G ->
  rows_sat s (oilp_rows G) = true ->
  oilp_lin_obj G s = oilp_lin_obj G (oilp_encode (oilp_decode G s)).
Proof.
  intros Hnd Hw Hs. apply (oilp_rows_feasible_iff_l G s Hnd) in Hs as (Hv & Hi & _ & Hb).
  unfold oilp_lin_obj. f_equal; apply lin_eval_ext.
  - intros p Hp. unfold oilp_comm_coefs in Hp. apply in_map_iff in Hp as [kb [<- Hkb]].
    pose proof (Hb kb Hkb) as Hprod. destruct kb as [[[[c1 a1] c2] a2] second]. simpl in *.
    assert (Hin : In (c1, a1, c2, a2) (map fst (beta_keys G))).
    { apply in_map_iff. eexists; split; eauto. reflexivity. }
    apply (beta_keys_in G c1 a1 c2 a2 Hnd) in Hin as (Hc & H1 & H2 & _).
    destruct (link_pairs_nodes G c1 c2 Hw Hc) as [N1 N2].
    apply in_map_iff in N1 as [n1 [<- N1]]. apply in_map_iff in N2 as [n2 [<- N2]].
    apply in_map_iff in H1 as [g1 [<- H1]]. apply in_map_iff in H2 as [g2 [<- H2]].
    rewrite Hprod, (Hi n1 g1 N1 H1), (Hi n2 g2 N2 H2). reflexivity.
  - intros p Hp. unfold oilp_host_coefs in Hp. apply in_flat_map in Hp as [nd [Hn Hp]].
    apply in_map_iff in Hp as [g [<- Hg]]. simpl. apply Hi; auto.
Qed.

(* (3) the solver as an oracle on the ROWS: an assignment that satisfies the rows and minimises
   the linear objective decodes to a distribution that meets the hard rules and minimises
   [oilp_obj] -- and therefore distribution_cost when no ordered pair of computations is shared by
   two links -- among all distributions (on declared agents) meeting the hard rules *)
Lemma oilp_rows_optimal_min_obj_l G sstar :
  NoDup (agent_ids (g_inst G)) -> links_wf G ->
  rows_sat sstar (oilp_rows G) = true ->
  (forall s, rows_sat s (oilp_rows G) = true ->
             scal (oilp_lin_obj G sstar) <= scal (oilp_lin_obj G s)) ->
  valid_dist (g_inst G) (oilp_decode G sstar) /\ oilp_feasible G (oilp_decode G sstar) = true /\
  forall D, valid_dist (g_inst G) D -> oilp_feasible G D = true ->
            scal (oilp_obj G (oilp_decode G sstar)) <= scal (oilp_obj G D).
Proof.
  intros Hnd Hw Hs Hopt.
  pose proof (proj1 (oilp_rows_feasible_iff_l G sstar Hnd) Hs) as (Hv & _ & Hf & _).
  repeat split; auto. intros D HvD HfD.
  rewrite <- (oilp_lin_obj_encode_l G (oilp_decode G sstar)), <- (oilp_lin_obj_encode_l G D); auto.
  rewrite <- (oilp_lin_obj_decode_l G sstar); auto.
  apply Hopt. apply oilp_encode_sat_l; auto.
Qed.

Lemma oilp_rows_optimal_is_min_cost_l G sstar :
  NoDup (agent_ids (g_inst G)) -> links_wf G -> NoDup (link_pairs G) ->
  rows_sat sstar (oilp_rows G) = true ->
  (forall s, rows_sat s (oilp_rows G) = true ->
             scal (oilp_lin_obj G sstar) <= scal (oilp_lin_obj G s)) ->
  valid_dist (g_inst G) (oilp_decode G sstar) /\ oilp_feasible G (oilp_decode G sstar) = true /\
  forall D, valid_dist (g_inst G) D -> oilp_feasible G D = true ->
            scal (oilp_cost G (oilp_decode G sstar)) <= scal (oilp_cost G D).
Proof.
  intros Hnd Hw Hp Hs Hopt.
  destruct (oilp_rows_optimal_min_obj_l G sstar Hnd Hw Hs Hopt) as (Hv & Hf & Hmin).
  repeat split; auto. intros D HvD HfD.
  rewrite <- !(oilp_objective_is_cost_l G) by auto. auto.
Qed.
