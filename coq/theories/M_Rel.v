(* M_Rel.v -- executable model of pydcop/dcop/relations.py: NAryMatrixRelation (slice, get, set by
   list and by dict), generate_assignment_as_dict, filter_assignment_dict, assignment_cost, join,
   projection, find_arg_optimal, find_optimal, optimal_cost_value, and of the value choice of
   dsa.py / adsa.py / dsatuto.py.  Models only; proofs are in P_Rel.v.

   Conventions.  Variable names are [Z] ids, domain values are [Z] (the code looks values up with
   list.index, modelled by [index_of]).  A matrix relation is its dimension list plus the numpy
   array flattened in row-major (C) order.  Python dicts are association lists in insertion
   order.  Exceptions are [Err e].  Costs are [ECost.ecost]. *)
From PyDcop Require Import Base ECost.

Inductive err := ErrValue | ErrKey | ErrIndex | ErrAttr.
Inductive res (A : Type) : Type := Ok (a : A) | Err (e : err).
Arguments Ok {A} a.
Arguments Err {A} e.
Definition bind {A B} (r : res A) (f : A -> res B) : res B :=
  match r with Ok a => f a | Err e => Err e end.
Notation "x <- r ;; k" := (bind r (fun x => k)) (at level 61, r at next level, right associativity).

(* Variable / VariableWithCostDict / VariableWithCostFunc: [v_costs] is the cost table
   (value -> cost); a value without an entry costs 0 (Variable.cost_for_val returns 0,
   VariableWithCostDict maps KeyError to 0.0). *)
Record var := mkVar { v_name : Z; v_dom : list Z; v_costs : list (Z * ecost) }.
Definition assignment := list (Z * Z).
Record rel := mkRel { r_dims : list var; r_data : list ecost }.

Definition cost_for_val (v : var) (val : Z) : ecost :=
  match zlookup val (v_costs v) with Some c => c | None => Fin 0 end.

Definition names (dims : list var) : list Z := map v_name dims.
Definition dsize (v : var) : nat := List.length (v_dom v).
Definition shape_of (dims : list var) : list nat := map dsize dims.

(* Variable.__eq__ : same name, same domain (and same costs) *)
Definition var_eqb (a b : var) : bool :=
  Z.eqb (v_name a) (v_name b) && list_eqb Z.eqb (v_dom a) (v_dom b)
  && list_eqb (pair_eqb Z.eqb ec_same) (v_costs a) (v_costs b).
Definition var_mem (v : var) (l : list var) : bool := existsb (var_eqb v) l.

(* ---------- row-major arrays ---------- *)
Fixpoint prod (l : list nat) : nat :=
  match l with [] => 1%nat | n :: r => (n * prod r)%nat end.

Fixpoint offset (shape idx : list nat) : nat :=
  match shape, idx with
  | n :: ss, i :: is_ => (i * prod ss + offset ss is_)%nat
  | _, _ => 0%nat
  end.

(* the array of the given shape whose cell at index tuple [idx] is [f idx] *)
Fixpoint tab {A} (shape : list nat) (f : list nat -> A) : list A :=
  match shape with
  | [] => [f []]
  | n :: ss => flat_map (fun i => tab ss (fun is_ => f (i :: is_))) (seq 0 n)
  end.

Fixpoint upd {A} (n : nat) (x : A) (l : list A) : list A :=
  match l, n with
  | [], _ => []
  | _ :: r, O => x :: r
  | y :: r, S k => y :: upd k x r
  end.

(* list.index *)
Fixpoint index_of (x : Z) (l : list Z) : option nat :=
  match l with
  | [] => None
  | y :: r => if Z.eqb x y then Some 0%nat else option_map S (index_of x r)
  end.

Definition wf_rel (r : rel) : Prop := List.length (r_data r) = prod (shape_of (r_dims r)).
Definition wf_relb (r : rel) : bool := Nat.eqb (List.length (r_data r)) (prod (shape_of (r_dims r))).

(* ---------- NAryMatrixRelation._slice_matrix ---------- *)
(* per dimension: [Some i] = integer index i, [None] = slice(None) *)
Fixpoint slice_sel (dims : list var) (s_vars s_vals : list Z) : res (list (option nat)) :=
  match dims with
  | [] => Ok []
  | v :: ds =>
      match index_of (v_name v) s_vars with
      | Some i =>
          match nth_error s_vals i with
          | None => Err ErrIndex
          | Some val =>
              match index_of val (v_dom v) with
              | None => Err ErrValue
              | Some vi => rest <- slice_sel ds s_vars s_vals ;; Ok (Some vi :: rest)
              end
          end
      | None => rest <- slice_sel ds s_vars s_vals ;; Ok (None :: rest)
      end
  end.

Definition slice_matrix (dims : list var) (s_vars s_vals : list Z) : res (list (option nat)) :=
  if forallb (fun n => zmem n (names dims)) s_vars then slice_sel dims s_vars s_vals
  else Err ErrAttr.

Fixpoint kept (dims : list var) (sel : list (option nat)) : list var :=
  match dims, sel with
  | v :: ds, None :: s => v :: kept ds s
  | _ :: ds, Some _ :: s => kept ds s
  | _, _ => []
  end.

(* full index tuple from the fixed indices and an index tuple of the kept dimensions *)
Fixpoint merge (sel : list (option nat)) (idx : list nat) : list nat :=
  match sel with
  | [] => []
  | Some i :: s => i :: merge s idx
  | None :: s => match idx with j :: t => j :: merge s t | [] => 0%nat :: merge s [] end
  end.

Definition cell (r : rel) (idx : list nat) : ecost :=
  nth (offset (shape_of (r_dims r)) idx) (r_data r) (Fin 0).

(* numpy basic indexing  m[s] *)
Definition slice_with (r : rel) (sel : list (option nat)) : rel :=
  let kd := kept (r_dims r) sel in
  mkRel kd (tab (shape_of kd) (fun idx => cell r (merge sel idx))).

(* NAryMatrixRelation.slice(partial_assignment) *)
Definition slice (r : rel) (pa : assignment) : res rel :=
  match pa with
  | [] => Ok r
  | _ => sel <- slice_matrix (r_dims r) (map fst pa) (map snd pa) ;; Ok (slice_with r sel)
  end.

(* ndarray.item(): ValueError unless the array has exactly one element *)
Definition item (r : rel) : res ecost :=
  match r_data r with [c] => Ok c | _ => Err ErrValue end.

(* get_value_for_assignment(dict) *)
Definition get_dict (r : rel) (a : assignment) : res ecost := u <- slice r a ;; item u.

(* get_value_for_assignment(list): {self._variables[i].name: val for i, val in enumerate(l)} *)
Definition get_list (r : rel) (vals : list Z) : res ecost :=
  if Nat.ltb (List.length (r_dims r)) (List.length vals) then Err ErrIndex
  else get_dict r (dict_of_list Z.eqb (combine (names (r_dims r)) vals)).

(* __call__ with keyword arguments: empty kwargs means the positional form with no argument *)
Definition call_kw (r : rel) (a : assignment) : res ecost :=
  match a with [] => get_list r [] | _ => get_dict r a end.

(* set_value_for_assignment(list, value) *)
Definition set_list (r : rel) (vals : list Z) (c : ecost) : res rel :=
  sel <- slice_matrix (r_dims r) (names (r_dims r)) vals ;;
  let idx := map (fun o => match o with Some i => i | None => 0%nat end) sel in
  Ok (mkRel (r_dims r) (upd (offset (shape_of (r_dims r)) idx) c (r_data r))).

Fixpoint dict_values (dims : list var) (a : assignment) : res (list Z) :=
  match dims with
  | [] => Ok []
  | v :: ds =>
      match zlookup (v_name v) a with
      | None => Err ErrKey
      | Some x => rest <- dict_values ds a ;; Ok (x :: rest)
      end
  end.

(* set_value_for_assignment(dict, value) *)
Definition set_dict (r : rel) (a : assignment) (c : ecost) : res rel :=
  vals <- dict_values (r_dims r) a ;; set_list r vals c.

(* NAryMatrixRelation(dims): zero-filled *)
Definition zero_rel (dims : list var) : rel :=
  mkRel dims (repeat (Fin 0) (prod (shape_of dims))).

(* ---------- module-level helpers ---------- *)
(* generate_assignment_as_dict: the LAST variable is the outermost loop *)
Fixpoint gen_assign_rev (rvars : list var) : list assignment :=
  match rvars with
  | [] => [[]]
  | v :: rest =>
      flat_map (fun d => map (fun a => dict_set Z.eqb (v_name v) d a) (gen_assign_rev rest))
               (v_dom v)
  end.
Definition gen_assign (vars : list var) : list assignment := gen_assign_rev (rev vars).

Definition filter_asg (a : assignment) (targets : list var) : assignment :=
  filter (fun kv => zmem (fst kv) (names targets)) a.

(* assignment_cost(assignment, constraints, consider_variable_cost)  (no extra kwargs) *)
Fixpoint ac_dims (a : assignment) (consider : bool) (dims : list var)
         (st : ecost * list Z * assignment) : res (ecost * list Z * assignment) :=
  match dims with
  | [] => Ok st
  | v :: ds =>
      let '(cost, seen, filt) := st in
      match zlookup (v_name v) a with
      | None => Err ErrKey
      | Some x =>
          let '(cost1, seen1) :=
            if consider && negb (zmem (v_name v) seen)
            then (ec_add cost (cost_for_val v x), v_name v :: seen) else (cost, seen) in
          ac_dims a consider ds (cost1, seen1, dict_set Z.eqb (v_name v) x filt)
      end
  end.

Fixpoint ac_loop (a : assignment) (consider : bool) (cs : list rel) (st : ecost * list Z)
  : res ecost :=
  match cs with
  | [] => Ok (fst st)
  | c :: rest =>
      st1 <- ac_dims a consider (r_dims c) (fst st, snd st, []) ;;
      let '(cost, seen, filt) := st1 in
      x <- call_kw c filt ;;
      ac_loop a consider rest (ec_add cost x, seen)
  end.

Definition assignment_cost (a : assignment) (cs : list rel) (consider : bool) : res ecost :=
  ac_loop a consider cs (Fin 0, []).

(* the loop body of find_arg_optimal *)
Definition arg_opt_step (m : mode) (acc : list Z * ecost) (v : Z) (cur : ecost) : list Z * ecost :=
  if better m cur (snd acc) then ([v], cur)
  else if ec_eqb cur (snd acc) then (fst acc ++ [v], snd acc)
  else acc.

(* find_arg_optimal(variable, relation, mode) for a matrix relation *)
Definition find_arg_optimal (x : var) (r : rel) (m : mode) : res (list Z * ecost) :=
  match r_dims r with
  | [d] =>
      if var_eqb d x then
        fold_left (fun acc v => a <- acc ;; c <- get_list r [v] ;; Ok (arg_opt_step m a v c))
                  (v_dom x) (Ok ([], worst m))
      else Err ErrValue
  | _ => Err ErrValue
  end.

(* the loop body of find_optimal: the equality test comes first *)
Definition opt_step (m : mode) (acc : list Z * ecost) (v : Z) (cur : ecost) : list Z * ecost :=
  if ec_eqb cur (snd acc) then (fst acc ++ [v], snd acc)
  else if better m cur (snd acc) then ([v], cur)
  else acc.

(* find_optimal(variable, assignment, constraints, mode); the assignment dict is updated in
   place by the loop, so it is threaded through *)
Definition find_optimal (x : var) (a : assignment) (cs : list rel) (m : mode)
  : res (list Z * ecost) :=
  r <- fold_left (fun st v =>
                    s <- st ;;
                    let a1 := dict_set Z.eqb (v_name x) v (fst s) in
                    c <- assignment_cost a1 cs false ;;
                    Ok (a1, opt_step m (snd s) v (ec_add c (cost_for_val x v))))
                 (v_dom x) (Ok (a, ([], worst m))) ;;
  Ok (snd r).

(* Python's tuple < on (cost, value) pairs *)
Definition tuple_lt (a b : ecost * Z) : bool :=
  if ec_eqb (fst a) (fst b) then Z.ltb (snd a) (snd b) else ec_ltb (fst a) (fst b).

(* optimal_cost_value: min / max over ((cost_for_val(v), v) for v in domain) *)
Definition optimal_cost_value (x : var) (m : mode) : res (Z * ecost) :=
  match v_dom x with
  | [] => Err ErrValue
  | d :: rest =>
      let best := fold_left (fun b v =>
                     let it := (cost_for_val x v, v) in
                     if (match m with Min => tuple_lt it b | Max => tuple_lt b it end) then it else b)
                  rest (cost_for_val x d, d) in
      Ok (snd best, fst best)
  end.

(* join(u1, u2) *)
Definition join_dims (d1 d2 : list var) : list var :=
  fold_left (fun acc d => if var_mem d acc then acc else acc ++ [d]) d2 d1.

Definition join_step (u1 u2 : rel) (acc : res rel) (ass : assignment) : res rel :=
  uj <- acc ;;
  a <- call_kw u1 (filter_asg ass (r_dims u1)) ;;
  b <- call_kw u2 (filter_asg ass (r_dims u2)) ;;
  set_dict uj ass (ec_add a b).

Definition join (u1 u2 : rel) : res rel :=
  let dims := join_dims (r_dims u1) (r_dims u2) in
  fold_left (join_step u1 u2) (gen_assign dims) (Ok (zero_rel dims)).

(* list.remove: first occurrence, ValueError when absent *)
Fixpoint remove_first (x : var) (l : list var) : res (list var) :=
  match l with
  | [] => Err ErrValue
  | y :: r => if var_eqb y x then Ok r else rest <- remove_first x r ;; Ok (y :: rest)
  end.

Definition proj_step (r : rel) (x : var) (m : mode) (acc : res rel) (pa : assignment) : res rel :=
  pj <- acc ;;
  sl <- slice r pa ;;
  oc <- find_arg_optimal x sl m ;;
  set_dict pj pa (snd oc).

(* projection(a_rel, a_var, mode) *)
Definition projection (r : rel) (x : var) (m : mode) : res rel :=
  remaining <- remove_first x (r_dims r) ;;
  fold_left (proj_step r x m) (gen_assign remaining) (Ok (zero_rel remaining)).

(* ---------- meaning of a relation ---------- *)
(* index tuple selected by an assignment (None when a variable is missing or its value is not
   in its domain) *)
Fixpoint idx_of (dims : list var) (a : assignment) : option (list nat) :=
  match dims with
  | [] => Some []
  | v :: ds =>
      match zlookup (v_name v) a with
      | None => None
      | Some x =>
          match index_of x (v_dom v), idx_of ds a with
          | Some i, Some rest => Some (i :: rest)
          | _, _ => None
          end
      end
  end.

(* [sem r a]: the value of the relation under an assignment covering its scope (0 otherwise) *)
Definition sem (r : rel) (a : assignment) : ecost :=
  match idx_of (r_dims r) a with Some idx => cell r idx | None => Fin 0 end.

(* ---------- DSA value choice (dsa.py evaluate_cycle + variants, adsa.py tick, dsatuto) ---------- *)
Inductive variant := VA | VB | VC.

(* abs(current_cost - best_cost) > 0 / == 0 on extended costs *)
Definition ec_neg (a : ecost) : ecost :=
  match a with Fin x => Fin (- x) | PInf => NInf | NInf => PInf | NaN => NaN end.
Definition ec_abs (a : ecost) : ecost :=
  match a with Fin x => Fin (Z.abs x) | PInf | NInf => PInf | NaN => NaN end.
Definition delta (cur best : ecost) : ecost := ec_abs (ec_add cur (ec_neg best)).

(* list.remove(current) when more than one best value *)
Fixpoint remove_z (x : Z) (l : list Z) : list Z :=
  match l with [] => [] | y :: r => if Z.eqb y x then r else y :: remove_z x r end.

(* The random draws are arguments: [draw_ok] = (probability > random.random()),
   [pick] = the index random.choice used.  Result: Ok (Some v) = value_selection(v, best) was
   called, Ok None = no change, Err ErrIndex = random.choice on an empty list of best values
   (only possible when every candidate cost is nan). *)
Definition dsa_choice (vr : variant) (violated : bool) (cur_val : Z)
           (cur_cost : ecost) (best : list Z * ecost) (draw_ok : bool) (pick : nat)
  : res (option Z) :=
  let d := delta cur_cost (snd best) in
  let change (cands : list Z) : res (option Z) :=
    if draw_ok then match cands with [] => Err ErrIndex | _ => Ok (nth_error cands pick) end
    else Ok None in
  let trimmed := if Nat.ltb 1 (List.length (fst best)) then remove_z cur_val (fst best) else fst best in
  if ec_ltb (Fin 0) d then change (fst best)
  else if ec_eqb d (Fin 0) then
    match vr with
    | VA => Ok None
    | VB => if violated then change trimmed else Ok None
    | VC => change trimmed
    end
  else Ok None.

(* one evaluation of DsaComputation.evaluate_cycle: neighbours' values [a] (own value already
   stored in it), constraints [cs] *)
Definition dsa_evaluate (x : var) (vr : variant) (m : mode) (a : assignment) (cs : list rel)
           (cur_val : Z) (violated draw_ok : bool) (pick : nat) : res (option Z) :=
  let a1 := dict_set Z.eqb (v_name x) cur_val a in
  best <- find_optimal x a1 cs m ;;
  cur <- assignment_cost a1 cs false ;;
  dsa_choice vr violated cur_val cur best draw_ok pick.

(* DsaTutoComputation.on_new_cycle: the cost of the current assignment is computed first; moves
   to the FIRST best value when current - best > 0 and the coin (0.5 > random.random()) allows *)
Definition dsatuto_evaluate (x : var) (m : mode) (a : assignment) (cs : list rel)
           (cur_val : Z) (draw_ok : bool) : res (option Z) :=
  let a1 := dict_set Z.eqb (v_name x) cur_val a in
  cur <- assignment_cost a1 cs false ;;
  best <- find_optimal x a1 cs m ;;
  if ec_ltb (Fin 0) (ec_add cur (ec_neg (snd best))) && draw_ok
  then match fst best with [] => Err ErrIndex | v :: _ => Ok (Some v) end   (* arg_min[0] *)
  else Ok None.

(* ---------- correspondence ---------- *)
Definition err_eqb (a b : err) : bool :=
  match a, b with
  | ErrValue, ErrValue | ErrKey, ErrKey | ErrIndex, ErrIndex | ErrAttr, ErrAttr => true
  | _, _ => false
  end.
Definition res_eqb {A} (e : A -> A -> bool) (a b : res A) : bool :=
  match a, b with
  | Ok x, Ok y => e x y
  | Err x, Err y => err_eqb x y
  | _, _ => false
  end.
Definition data_eqb := list_eqb ec_same.
(* a relation as the harness observes it: dimension names + flattened table *)
Definition obs_rel := (list Z * list ecost)%type.
Definition rel_obs (r : rel) : obs_rel := (names (r_dims r), r_data r).
Definition obs_rel_eqb : obs_rel -> obs_rel -> bool := pair_eqb (list_eqb Z.eqb) data_eqb.
Definition asg_eqb : assignment -> assignment -> bool := list_eqb (pair_eqb Z.eqb Z.eqb).
Definition opt_eqb : (list Z * ecost) -> (list Z * ecost) -> bool := pair_eqb (list_eqb Z.eqb) ec_same.

Inductive case :=
| CSetList (r : rel) (vals : list Z) (c : ecost) (o : res obs_rel)
| CSetDict (r : rel) (a : assignment) (c : ecost) (o : res obs_rel)
| CGetList (r : rel) (vals : list Z) (o : res ecost)
| CGetDict (r : rel) (a : assignment) (o : res ecost)
| CSlice (r : rel) (a : assignment) (o : res obs_rel)
| CGen (dims : list var) (o : list assignment)
| CJoin (u1 u2 : rel) (o : res obs_rel)
| CProj (r : rel) (x : var) (m : mode) (o : res obs_rel)
| CArgOpt (x : var) (r : rel) (m : mode) (o : res (list Z * ecost))
| CFindOpt (x : var) (a : assignment) (cs : list rel) (m : mode) (o : res (list Z * ecost))
| COptCost (x : var) (m : mode) (o : res (Z * ecost))
| CAsgCost (a : assignment) (cs : list rel) (consider : bool) (o : res ecost)
| CDsa (x : var) (vr : variant) (m : mode) (a : assignment) (cs : list rel) (cur_val : Z)
       (violated draw_ok : bool) (pick : nat) (o : res (option Z))
| CDsaTuto (x : var) (m : mode) (a : assignment) (cs : list rel) (cur_val : Z)
       (draw_ok : bool) (o : res (option Z))
| CMulti (l : list case).   (* successive cycles of one computation, each checked as a step *)

Fixpoint check_case (c : case) : bool :=
  match c with
  | CMulti l => (fix all (l : list case) : bool :=
                   match l with [] => true | c :: r => check_case c && all r end) l
  | CSetList r vals c o => res_eqb obs_rel_eqb (x <- set_list r vals c ;; Ok (rel_obs x)) o
  | CSetDict r a c o => res_eqb obs_rel_eqb (x <- set_dict r a c ;; Ok (rel_obs x)) o
  | CGetList r vals o => res_eqb ec_same (get_list r vals) o
  | CGetDict r a o => res_eqb ec_same (get_dict r a) o
  | CSlice r a o => res_eqb obs_rel_eqb (x <- slice r a ;; Ok (rel_obs x)) o
  | CGen dims o => list_eqb asg_eqb (gen_assign dims) o
  | CJoin u1 u2 o => res_eqb obs_rel_eqb (x <- join u1 u2 ;; Ok (rel_obs x)) o
  | CProj r x m o => res_eqb obs_rel_eqb (y <- projection r x m ;; Ok (rel_obs y)) o
  | CArgOpt x r m o => res_eqb opt_eqb (find_arg_optimal x r m) o
  | CFindOpt x a cs m o => res_eqb opt_eqb (find_optimal x a cs m) o
  | COptCost x m o => res_eqb (pair_eqb Z.eqb ec_same) (optimal_cost_value x m) o
  | CAsgCost a cs consider o => res_eqb ec_same (assignment_cost a cs consider) o
  | CDsa x vr m a cs cur_val violated draw_ok pick o =>
      res_eqb (option_eqb Z.eqb) (dsa_evaluate x vr m a cs cur_val violated draw_ok pick) o
  | CDsaTuto x m a cs cur_val draw_ok o =>
      res_eqb (option_eqb Z.eqb) (dsatuto_evaluate x m a cs cur_val draw_ok) o
  end.
