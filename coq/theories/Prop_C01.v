(* Prop_C01.v -- C01: DPOP returns an optimal assignment on every DCOP and schedule.
   Statements only (closed by [exact]); proofs are in P_Dpop.v and P_Dpop2*.v, the model in
   M_Dpop.v, the executable hypothesis checker in M_DpopValid.v.

   THE PROPERTY (last theorem of this file, proved for all sizes / inputs / schedules):
     dpop_all_schedules : forall P sched, dpop_check P = true ->
        no handler of a tree node raises on ANY schedule, and if the final configuration of
        run (dpop_proto P) sched is complete (all tree nodes started, no message left in a channel
        between tree nodes): every node finished, emitted EvFinished and EvSelect exactly once with a
        value of its domain, and the assignment has the brute-force optimal cost of P (dcop_cost =
        variable costs + all constraints) for dc_mode P, for any number of components.
   Hypothesis: dpop_check P (executable, evaluated by the correspondence on every pseudo-tree
   pydcop builds) -- forest shape with converse links, non-empty domains, kept constraints mention
   only the node and its ancestors, every child is tied to its parent by a cost kept in its
   subtree, the ownership filter keeps every constraint exactly once.  dpop_check_valid is its
   soundness; the intermediate theorems are stated with the Prop-level validity dpop_valid.
   Also proved, for all inputs / sizes:
     - the meaning of join / projection / slice / find_arg_optimal            (full)
     - dpop_util_sem_partial : the UTIL a node sends is one exact dynamic-programming step over
       the table it accumulated (children's UTILs + its variable costs) and the constraints it owns
     - dpop_util_sem / dpop_choice_opt : the induction steps in flat form, for any node of any tree
     - dpop_value_opt, dpop_root_opt, dpop_value_forward : VALUE phase choices  (full, handler level)
     - dpop_all_schedules_partial : for EVERY dcop, even with an INVALID pseudo-tree input, and every
       schedule: finished and value selection happen at most once per node, every selected value is
       a domain index and a finished node holds one. *)
From PyDcop Require Import Base Net M_Dpop P_Dpop M_DpopValid P_Dpop2Net P_Dpop2Tree P_Dpop2 P_Dpop2Valid.
From Coq Require Import Permutation.

(* ---- relation helpers *)
Theorem sem_join : forall D u1 u2 a, in_dom D a (r_dims (join D u1 u2)) ->
  eval (join D u1 u2) a = eval u1 a + eval u2 a.
Proof. exact sem_join_l. Qed.

Theorem sem_projection : forall D r x m p a, projection D r x m = Some p -> in_dom D a (r_dims p) ->
  (0 < D x)%nat ->
  is_best m (map (fun v => eval r ((x, Z.of_nat v) :: a)) (seq 0 (D x))) (eval p a).
Proof. exact sem_projection_l. Qed.

Theorem sem_slice : forall D r vd p a, slice D r vd = Some p -> in_dom D a (r_dims p) ->
  eval p a = eval r (vd ++ a)%list.
Proof. exact sem_slice_l. Qed.

Theorem fao_optimal : forall D x r m v c, fao D x r m = inl (v, c) ->
  r_dims r = [x] /\ 0 <= v /\ (Z.to_nat v < D x)%nat /\ c = eval r [(x, v)] /\
  is_best m (map (fun w => eval r [(x, Z.of_nat w)]) (seq 0 (D x))) c.
Proof. exact fao_spec. Qed.

(* ---- UTIL phase: one dynamic-programming step *)
Theorem dpop_util_sem_partial : forall P x s s' outs evs p u a,
  send_util P x s = (s', outs, evs) -> In (p, MUtil u) outs ->
  in_dom (dsize P) a (r_dims u) -> (0 < dsize P x)%nat ->
  parent P x = Some p /\
  is_best (dc_mode P)
    (map (fun v => eval (s_joined s) ((x, Z.of_nat v) :: a) + own_cost P x ((x, Z.of_nat v) :: a))
         (seq 0 (dsize P x))) (eval u a).
Proof. exact send_util_sem. Qed.

Theorem dpop_util_accumulates : forall P x s src u s' outs evs,
  on_util P x s src u = (s', outs, evs) -> zmem src (s_waited s) = true ->
  remove_first src (s_waited s) <> [] ->
  outs = [] /\ evs = [] /\ s_waited s' = remove_first src (s_waited s) /\
  forall a, in_dom (dsize P) a (r_dims (s_joined s')) -> eval (s_joined s') a = eval (s_joined s) a + eval u a.
Proof. exact on_util_accumulates. Qed.

(* the same step in flat form ("UTIL message = optimum over the subtree"), for any node x of any
   tree: desc gives the subtree of each node, sv the variables its owned costs mention; if the
   accumulated table means variable cost + the subtree optimum of each child, the UTIL sent means
   the optimum over all assignments of subtree(x) of the costs owned in subtree(x) *)
Theorem dpop_util_sem : forall P desc x s s' outs evs p u a,
  send_util P x s = (s', outs, evs) -> In (p, MUtil u) outs ->
  in_dom (dsize P) a (r_dims u) -> (0 < dsize P x)%nat ->
  desc x = x :: flat_map desc (children P x) ->
  NoDup (children P x) ->
  (forall d, In d (sv P [x]) -> ~ In d (flat_map desc (children P x))) ->
  (forall c c', In c (children P x) -> In c' (children P x) -> c <> c' ->
                forall d, In d (sv P (desc c)) -> ~ In d (desc c')) ->
  (forall v, (v < dsize P x)%nat -> exists fv,
      eval (s_joined s) ((x, Z.of_nat v) :: a) = vc P x ((x, Z.of_nat v) :: a) + zsum fv /\
      Forall2 (fun c f => is_best (dc_mode P) (map (cost_in P (desc c)) (ext P (desc c) ((x, Z.of_nat v) :: a))) f)
              (children P x) fv) ->
  is_best (dc_mode P) (map (cost_in P (desc x)) (ext P (desc x) a)) (eval u a).
Proof. exact util_step_flat. Qed.

(* VALUE phase in flat form: if x's value in the global assignment sigma optimises the table x
   holds and sigma is an optimal completion below every child, sigma is an optimal completion
   below x (at a root: the cost of the component under sigma is its brute-force optimum) *)
Theorem dpop_choice_opt : forall P desc x sigma (g : nat -> Z),
  desc x = x :: flat_map desc (children P x) ->
  NoDup (children P x) ->
  (forall d, In d (sv P [x]) -> ~ In d (flat_map desc (children P x))) ->
  (forall c c', In c (children P x) -> In c' (children P x) -> c <> c' ->
                forall d, In d (sv P (desc c)) -> ~ In d (desc c')) ->
  (forall w, (w < dsize P x)%nat -> exists fv,
      g w = local P x ((x, Z.of_nat w) :: sigma) + zsum fv /\
      Forall2 (fun c f => is_best (dc_mode P) (map (cost_in P (desc c)) (ext P (desc c) ((x, Z.of_nat w) :: sigma))) f)
              (children P x) fv) ->
  (aval sigma x < dsize P x)%nat ->
  is_best (dc_mode P) (map g (seq 0 (dsize P x))) (g (aval sigma x)) ->
  (forall c, In c (children P x) ->
      is_best (dc_mode P) (map (cost_in P (desc c)) (ext P (desc c) sigma)) (cost_in P (desc c) sigma)) ->
  is_best (dc_mode P) (map (cost_in P (desc x)) (ext P (desc x) sigma)) (cost_in P (desc x) sigma).
Proof. exact choice_step_flat. Qed.

(* ---- VALUE phase *)
Theorem dpop_value_opt : forall P x s vars vals s' outs evs v c vd,
  vd = dict_of_list Z.eqb (combine vars vals) ->
  on_value P x s vars vals = (s', outs, evs) -> In (EvSelect x v c) evs ->
  0 <= v /\ (Z.to_nat v < dsize P x)%nat /\
  c = eval (s_joined s) (vd ++ [(x, v)])%list /\
  is_best (dc_mode P) (map (fun w => eval (s_joined s) (vd ++ [(x, Z.of_nat w)])%list) (seq 0 (dsize P x))) c /\
  (forall d, In d (r_dims (s_joined s)) -> d = x \/ mem_key Z.eqb d vd = true).
Proof. exact on_value_sem. Qed.

Theorem dpop_root_opt : forall P x s s' outs evs v c,
  root_select P x s = (s', outs, evs) -> In (EvSelect x v c) evs ->
  0 <= v /\ (Z.to_nat v < dsize P x)%nat /\
  is_best (dc_mode P) (map (fun w => eval (s_joined s) [(x, Z.of_nat w)] + own_cost P x [(x, Z.of_nat w)])
                           (seq 0 (dsize P x))) c /\
  c = eval (s_joined s) [(x, v)] + own_cost P x [(x, v)] /\
  outs = map (fun ch => (ch, MValue [x] [v])) (children P x).
Proof. exact root_select_sem. Qed.

Theorem dpop_value_forward : forall x sel vd csep cs outs evs ok,
  value_msgs x sel vd csep cs = (outs, evs, ok) ->
  forall c vars vals, In (c, MValue vars vals) outs ->
    In c cs /\ exists sep, zlookup c csep = Some sep /\
    vars = x :: filter (fun v => mem_key Z.eqb v vd) sep /\
    vals = sel :: map (fun v => match zlookup v vd with Some w => w | None => 0 end)
                      (filter (fun v => mem_key Z.eqb v vd) sep).
Proof. exact value_msgs_forward. Qed.

(* ---- every schedule *)
Theorem dpop_all_schedules_partial : forall P sched,
  let r := run (dpop_proto P) sched in
  (forall x, (count_finished x (snd r) <= 1)%nat /\ (count_selected x (snd r) <= 1)%nat) /\
  (forall x v c, In (EvSelect x v c) (snd r) -> 0 <= v < Z.of_nat (dsize P x)) /\
  (forall x, s_fin (w_st (nodes (fst r) x)) = true ->
      exists v c, s_value (w_st (nodes (fst r) x)) = Some (v, c) /\ 0 <= v < Z.of_nat (dsize P x)).
Proof. exact all_schedules_once_in_domain. Qed.

(* ---- non-vacuity: a 3-variable chain, UTIL held before start and re-injected, run to completion *)
Definition ex_t01 := Node [Node [Leaf 3; Leaf 1]; Node [Leaf 0; Leaf 4]].
Definition ex_t12 := Node [Node [Leaf 2; Leaf 5; Leaf 1]; Node [Leaf 0; Leaf 2; Leaf 7]].
Definition ex_dcop : dcop := mkDcop Min [(0,2);(1,2);(2,3)] [(0,[0;0]);(1,[1;0]);(2,[0;0;0])]
  [(0, mkRel [0;1] ex_t01); (1, mkRel [1;2] ex_t12)]
  [mkPN 0 None [1] [] [] [0]; mkPN 1 (Some 0) [2] [] [] [0;1]; mkPN 2 (Some 1) [] [] [] [1]].
Definition ex_sched : list (@action) :=
  [Start 2; Deliver 2 1; Start 0; Start 1; Deliver 2 1; Deliver 1 0; Deliver 0 1; Deliver 1 2].

Example dpop_nonvacuous :
  let r := run (dpop_proto ex_dcop) ex_sched in
  snd r = [EvUtil 2 1 (mkRel [1] (Node [Leaf 1; Leaf 0]));
           EvUtil 1 0 (mkRel [0] (Node [Leaf 1; Leaf 2]));
           EvValue 0 1 [0] [0]; EvSelect 0 0 1; EvFinished 0;
           EvValue 1 2 [1] [1]; EvSelect 1 1 1; EvFinished 1;
           EvSelect 2 0 0; EvFinished 2]
  /\ map (fun x => s_value (w_st (nodes (fst r) x))) [0; 1; 2] = [Some (0, 1); Some (1, 1); Some (0, 0)].
Proof. vm_compute. split; reflexivity. Qed.

(* non-vacuity of the flat specification on the same instance: the costs owned in subtree(1) =
   {1,2} over all assignments of {1,2}, for x0 = 0 and x0 = 1; their minima 1 and 2 are exactly
   the UTIL table [1; 2] node 1 sent above, and the minimum over all assignments of the whole
   tree is the cost 1 of the selected assignment *)
Example dpop_flat_nonvacuous :
  map (cost_in ex_dcop [1; 2]) (ext ex_dcop [1; 2] [(0, 0)]) = [6; 9; 5; 1; 3; 8] /\
  map (cost_in ex_dcop [1; 2]) (ext ex_dcop [1; 2] [(0, 1)]) = [3; 6; 2; 4; 6; 11] /\
  map (cost_in ex_dcop [0; 1; 2]) (ext ex_dcop [0; 1; 2] []) = [6; 9; 5; 1; 3; 8; 3; 6; 2; 4; 6; 11] /\
  cost_in ex_dcop [0; 1; 2] [(0, 0); (1, 1); (2, 0)] = 1.
Proof. vm_compute. repeat split; reflexivity. Qed.

(* ================================================================== *)
(*  every schedule, valid pseudo-tree: the headline theorem             *)
(* ================================================================== *)
(* soundness of the executable hypothesis: tree validity + the ownership filter is a partition *)
Theorem dpop_check_valid : forall P, dpop_check P = true ->
  dpop_valid P /\ Permutation (all_owned P) (cons_ids P) /\ NoDup (cons_ids P).
Proof. exact dpop_check_sound. Qed.

(* safety on EVERY schedule (complete or not): no handler of a tree node raises *)
Theorem dpop_no_raise_all_schedules : forall P sched, dpop_valid P ->
  forall n k, In (EvRaise n k) (snd (run (dpop_proto P) sched)) -> ~ In n (tree_ids P).
Proof. exact no_raise_all_schedules. Qed.

(* the global invariant behind it holds in every reachable configuration of every schedule *)
Theorem dpop_invariant_all_schedules : forall P dep B, dvalid P dep B -> forall sched,
  Inv P dep B (fst (run (dpop_proto P) sched)).
Proof. exact inv_all_schedules. Qed.

(* completeness of the schedule => every node finished, one finished / selection event each *)
Theorem dpop_complete_all_finished : forall P sched, dpop_valid P ->
  let r := run (dpop_proto P) sched in complete P (fst r) ->
  forall x, In x (tree_ids P) ->
    s_fin (w_st (nodes (fst r) x)) = true /\
    count_finished x (snd r) = 1%nat /\ count_selected x (snd r) = 1%nat /\
    exists v c, s_value (w_st (nodes (fst r) x)) = Some (v, c) /\ In (EvSelect x v c) (snd r) /\
                0 <= v < Z.of_nat (dsize P x).
Proof. exact complete_all_finished. Qed.

(* optimality, every constraint counted at the node that keeps it *)
Theorem dpop_optimal : forall P sched, dpop_valid P ->
  let r := run (dpop_proto P) sched in complete P (fst r) ->
  let sg := assignment P (fst r) in
  in_dom (dsize P) sg (tree_ids P) /\
  forall a, in_dom (dsize P) a (tree_ids P) -> mle (dc_mode P) (total_cost P sg) (total_cost P a).
Proof. exact optimal_at_completion. Qed.

(* ... which is the cost of the dcop when the ownership filter is a partition *)
Theorem dpop_cost_is_dcop_cost : forall P a,
  Permutation (all_owned P) (cons_ids P) -> NoDup (cons_ids P) -> total_cost P a = dcop_cost P a.
Proof. exact total_cost_dcop. Qed.

Theorem dpop_all_schedules : forall P sched, dpop_check P = true ->
  let r := run (dpop_proto P) sched in
  (forall n k, In (EvRaise n k) (snd r) -> ~ In n (tree_ids P)) /\
  (complete P (fst r) ->
     (forall x, In x (tree_ids P) ->
        s_fin (w_st (nodes (fst r) x)) = true /\
        count_finished x (snd r) = 1%nat /\ count_selected x (snd r) = 1%nat /\
        exists v c, s_value (w_st (nodes (fst r) x)) = Some (v, c) /\ In (EvSelect x v c) (snd r) /\
                    0 <= v < Z.of_nat (dsize P x)) /\
     let sg := assignment P (fst r) in
     in_dom (dsize P) sg (tree_ids P) /\
     (forall a, in_dom (dsize P) a (tree_ids P) -> mle (dc_mode P) (dcop_cost P sg) (dcop_cost P a)) /\
     is_best (dc_mode P) (map (dcop_cost P) (ext P (tree_ids P) [])) (dcop_cost P sg)).
Proof. exact all_schedules. Qed.

(* non-vacuity of the hypotheses: the 3-variable chain above passes the checker, its schedule is
   complete, and the optimum the theorem speaks about is the cost 1 of the selected assignment *)
Example dpop_all_schedules_nonvacuous :
  dpop_check ex_dcop = true /\
  completeb ex_dcop (fst (run (dpop_proto ex_dcop) ex_sched)) = true /\
  assignment ex_dcop (fst (run (dpop_proto ex_dcop) ex_sched)) = [(0, 0); (1, 1); (2, 0)] /\
  dcop_cost ex_dcop [(0, 0); (1, 1); (2, 0)] = 1 /\
  map (dcop_cost ex_dcop) (ext ex_dcop [0; 1; 2] []) = [6; 9; 5; 1; 3; 8; 3; 6; 2; 4; 6; 11].
Proof. vm_compute. repeat split; reflexivity. Qed.

(* ================================================================== *)
(*  END TO END (C01 x C17): DPOP on the pseudo-tree pydcop builds        *)
(* ================================================================== *)
(* The hypothesis dpop_check of dpop_all_schedules is DERIVED, for every DCOP, from what C17 proves
   about the model of the real pseudo-tree builder (M_PseudoTree.build = build_computation_graph).
     rdcop            a DCOP without tree: objective, variables (dcop.variables order), domain sizes,
                      variable costs, constraints (dcop.constraints order, id = position)
     graph_of R       the constraint graph the builder receives
     dpop_of_built R t  the input of the DpopAlgo objects for tree t: per node parent / children /
                      pseudo-parents / pseudo-children / node.constraints, as __init__ reads them
     dpop_of R        = dpop_of_built R (tree returned by the builder model on graph_of R)
     wf_rdcop R       := wf_graph (graph_of R)  (distinct variables; a constraint does not list a
                      variable twice and ranges over the variables)
                      /\ every variable has a non-empty domain /\ no constraint has an empty scope
   No hypothesis on the tree, none on the shape of the cost tables (out-of-shape entries read 0 in
   the model), none on the schedule. *)
From PyDcop Require Import M_PseudoTree M_PseudoTree2 P_PseudoTree P_PseudoTree3 M_DpopBuilt
  P_DpopBuilt P_DpopBuilt2 P_DpopBuilt3.

Theorem wf_rdcopb_sound : forall R, wf_rdcopb R = true -> wf_rdcop R.
Proof. exact wf_rdcopb_sound_l. Qed.

(* the ownership filter of DpopAlgo.__init__ (drop every constraint that mentions a child or a
   pseudo-child) keeps constraint k at node x iff x is THE LOWEST node of k's scope in the built
   tree: every other variable of the scope is a proper ancestor of x *)
Theorem ownership_lowest : forall R, wf_rdcop R ->
  forall roots t, M_PseudoTree.build (graph_of R) = Some (roots, t) ->
  forall x k, In k (owned (dpop_of_built R t) x) <->
    exists sc, scope_of (graph_of R) k = Some sc /\ In x sc /\ forall b, In b sc -> b = x \/ anc t b x.
Proof. exact built_lowest_l. Qed.

(* ... hence every constraint of the DCOP is kept by exactly one computation *)
Theorem ownership_partition : forall R, wf_rdcop R ->
  forall roots t, M_PseudoTree.build (graph_of R) = Some (roots, t) ->
  Permutation (all_owned (dpop_of_built R t)) (cons_ids (dpop_of_built R t)) /\
  NoDup (cons_ids (dpop_of_built R t)) /\
  forall k, In k (cons_ids (dpop_of_built R t)) ->
    exists x, In x (tree_ids (dpop_of_built R t)) /\ In k (owned (dpop_of_built R t) x) /\
              forall y, In k (owned (dpop_of_built R t) y) -> y = x.
Proof. exact built_partition_l. Qed.

(* the tree hypothesis of the all-schedules theorems holds for the built tree: forest with converse
   links and a depth function (PT_valid of C17), kept constraints mention only the node and its
   ancestors (ownership_lowest), every child is tied to its parent by a cost kept in its subtree
   (a tree edge is a constraint-graph edge: build_parent_shares_constraint of C17, and the lowest
   node of that constraint lies in the child's subtree) *)
Theorem built_tree_valid : forall R, wf_rdcop R ->
  forall roots t, M_PseudoTree.build (graph_of R) = Some (roots, t) -> dpop_valid (dpop_of_built R t).
Proof. exact built_valid_l. Qed.

(* the executable checker is complete (with dpop_check_valid: an exact characterisation) ... *)
Theorem dpop_check_complete : forall P,
  dpop_check P = true <-> dpop_valid P /\ Permutation (all_owned P) (cons_ids P) /\ NoDup (cons_ids P).
Proof. exact dpop_check_iff_l. Qed.

(* ... so that it accepts the built tree of every well-formed DCOP: what the correspondence
   evaluates on every tree pydcop builds is a theorem about the builder model *)
Theorem built_tree_check : forall R, wf_rdcop R ->
  forall roots t, M_PseudoTree.build (graph_of R) = Some (roots, t) -> dpop_check (dpop_of_built R t) = true.
Proof. exact built_check_l. Qed.

(* THE PROPERTY, end to end: for every well-formed DCOP the builder model returns a tree (never out
   of fuel), one computation per variable, and DPOP on that tree, under EVERY schedule of starts and
   per-channel FIFO deliveries, never raises and at a complete final configuration has every node
   finished exactly once with a domain value and an assignment of brute-force optimal cost. *)
Theorem dpop_on_built_tree : forall R, wf_rdcop R ->
  exists P, dpop_of R = Some P /\
    (forall x, In x (tree_ids P) <-> In x (rd_vars R)) /\ NoDup (tree_ids P) /\
    forall sched,
      let r := run (dpop_proto P) sched in
      (forall n k, In (EvRaise n k) (snd r) -> ~ In n (tree_ids P)) /\
      (complete P (fst r) ->
         (forall x, In x (tree_ids P) ->
            s_fin (w_st (nodes (fst r) x)) = true /\
            count_finished x (snd r) = 1%nat /\ count_selected x (snd r) = 1%nat /\
            exists v c, s_value (w_st (nodes (fst r) x)) = Some (v, c) /\ In (EvSelect x v c) (snd r) /\
                        0 <= v < Z.of_nat (dsize P x)) /\
         let sg := assignment P (fst r) in
         in_dom (dsize P) sg (tree_ids P) /\
         (forall a, in_dom (dsize P) a (tree_ids P) -> mle (dc_mode P) (dcop_cost P sg) (dcop_cost P a)) /\
         is_best (dc_mode P) (map (dcop_cost P) (ext P (tree_ids P) [])) (dcop_cost P sg)).
Proof. exact dpop_on_built_tree_l. Qed.

(* the same conclusion for the dcop + tree EXTRACTED FROM THE REAL OBJECTS of a run, from the boolean
   the correspondence evaluates on every case: built_ok P = wf_rdcopb (raw_of P) && constraint ids
   are positions && the tree part of P is, node by node and in list order, the output of the builder
   model on the constraint graph of P *)
Theorem dpop_built_ok_correct : forall P, built_ok P = true ->
  forall sched,
    let r := run (dpop_proto P) sched in
    (forall n k, In (EvRaise n k) (snd r) -> ~ In n (tree_ids P)) /\
    (complete P (fst r) ->
       (forall x, In x (tree_ids P) ->
          s_fin (w_st (nodes (fst r) x)) = true /\
          count_finished x (snd r) = 1%nat /\ count_selected x (snd r) = 1%nat /\
          exists v c, s_value (w_st (nodes (fst r) x)) = Some (v, c) /\ In (EvSelect x v c) (snd r) /\
                      0 <= v < Z.of_nat (dsize P x)) /\
       let sg := assignment P (fst r) in
       in_dom (dsize P) sg (tree_ids P) /\
       (forall a, in_dom (dsize P) a (tree_ids P) -> mle (dc_mode P) (dcop_cost P sg) (dcop_cost P a)) /\
       is_best (dc_mode P) (map (dcop_cost P) (ext P (tree_ids P) [])) (dcop_cost P sg)).
Proof. exact built_ok_correct_l. Qed.

(* non-vacuity: 5 variables, a triangle (-> a back edge / pseudo-parent), a ternary constraint, a
   unary constraint and an isolated variable (two components); the hypothesis holds, the builder
   model returns a tree with a pseudo-parent, all variables started then every channel served
   round-robin is a complete schedule, and the selected assignment has the brute-force optimum *)
Definition ex_R : rdcop := mkRD Min [0; 1; 2; 3; 4] [(0,2);(1,2);(2,2);(3,3);(4,2)]
  [(0,[0;0]);(1,[1;0]);(2,[0;0]);(3,[0;2;0]);(4,[3;1])]
  [mkRel [0;1] (Node [Node [Leaf 3; Leaf 1]; Node [Leaf 0; Leaf 4]]);
   mkRel [1;2] (Node [Node [Leaf 2; Leaf 5]; Node [Leaf 0; Leaf 2]]);
   mkRel [2;0] (Node [Node [Leaf 1; Leaf 6]; Node [Leaf 4; Leaf 0]]);
   mkRel [3;1;2] (Node [Node [Node [Leaf 0; Leaf 2]; Node [Leaf 1; Leaf 1]];
                        Node [Node [Leaf 5; Leaf 0]; Node [Leaf 2; Leaf 2]];
                        Node [Node [Leaf 1; Leaf 1]; Node [Leaf 0; Leaf 3]]]);
   mkRel [2] (Node [Leaf 1; Leaf 0])].
Definition ex_pairs : list (@action) :=
  flat_map (fun a => map (fun b => Deliver a b) [0; 1; 2; 3; 4]) [0; 1; 2; 3; 4].
Definition ex_sched2 : list (@action) :=
  map Start [4; 3; 2; 1; 0] ++ ex_pairs ++ ex_pairs ++ ex_pairs ++ ex_pairs ++ ex_pairs ++ ex_pairs
    ++ ex_pairs ++ ex_pairs.

Example dpop_on_built_tree_nonvacuous :
  wf_rdcopb ex_R = true /\
  exists P, dpop_of ex_R = Some P /\ built_ok P = true /\
    map (fun n => (pn_id n, pn_parent n, pn_pps n)) (dc_tree P)
      = [(2, None, []); (1, Some 2, []); (0, Some 1, [2]); (3, Some 1, [2]); (4, None, [])] /\
    completeb P (fst (run (dpop_proto P) ex_sched2)) = true /\
    assignment P (fst (run (dpop_proto P) ex_sched2)) = [(2, 0); (1, 1); (0, 0); (3, 2); (4, 1)] /\
    dcop_cost P (assignment P (fst (run (dpop_proto P) ex_sched2))) = 4 /\
    lbest Min (map (dcop_cost P) (ext P (tree_ids P) [])) = 4.
Proof.
  split; [vm_compute; reflexivity|].
  eexists. split; [vm_compute; reflexivity|].
  vm_compute. repeat split; reflexivity.
Qed.

(* ---- the same WITHOUT "no constraint has an empty scope" (P_DpopBuilt4.v).  A zero-ary constraint (a
   constant) is attached to no node by the builder and ignored by DPOP: the ownership filter keeps
   exactly the constraints with a non-empty scope, once each, the cost of the DCOP is the cost DPOP
   optimises plus the constant const_cost, and optimal assignments are the same.  Hypothesis left:
   well-formed constraint graph and non-empty domains. *)
From PyDcop Require Import P_DpopBuilt4.

Theorem dpop_cost_offset_zeroary : forall R,
  wf_graph (graph_of R) /\ (forall x, In x (rd_vars R) -> (0 < rd_size R x)%nat) ->
  forall roots t, M_PseudoTree.build (graph_of R) = Some (roots, t) ->
  dpop_valid (dpop_of_built R t) /\
  (forall a, dcop_cost (dpop_of_built R t) a
             = total_cost (dpop_of_built R t) a + const_cost (dpop_of_built R t)) /\
  dpop_correct (dpop_of_built R t).
Proof. exact built_correct0_l. Qed.

Theorem dpop_on_built_tree_general : forall R,
  wf_graph (graph_of R) /\ (forall x, In x (rd_vars R) -> (0 < rd_size R x)%nat) ->
  exists P, dpop_of R = Some P /\
    (forall x, In x (tree_ids P) <-> In x (rd_vars R)) /\ NoDup (tree_ids P) /\
    forall sched,
      let r := run (dpop_proto P) sched in
      (forall n k, In (EvRaise n k) (snd r) -> ~ In n (tree_ids P)) /\
      (complete P (fst r) ->
         (forall x, In x (tree_ids P) ->
            s_fin (w_st (nodes (fst r) x)) = true /\
            count_finished x (snd r) = 1%nat /\ count_selected x (snd r) = 1%nat /\
            exists v c, s_value (w_st (nodes (fst r) x)) = Some (v, c) /\ In (EvSelect x v c) (snd r) /\
                        0 <= v < Z.of_nat (dsize P x)) /\
         let sg := assignment P (fst r) in
         in_dom (dsize P) sg (tree_ids P) /\
         (forall a, in_dom (dsize P) a (tree_ids P) -> mle (dc_mode P) (dcop_cost P sg) (dcop_cost P a)) /\
         is_best (dc_mode P) (map (dcop_cost P) (ext P (tree_ids P) [])) (dcop_cost P sg)).
Proof. exact dpop_on_built_tree0_l. Qed.

(* non-vacuity: the instance above plus the constant 7; the checker dpop_check rejects it (the
   constant is kept by no node), the general theorem applies, the optimum moves from 4 to 11 *)
Definition ex_R0 : rdcop :=
  mkRD (rd_mode ex_R) (rd_vars ex_R) (rd_dom ex_R) (rd_vcost ex_R) (rd_cons ex_R ++ [mkRel [] (Leaf 7)]).
Example dpop_on_built_tree_general_nonvacuous :
  wf_graphb (graph_of ex_R0) = true /\ wf_rdcopb ex_R0 = false /\
  exists P, dpop_of ex_R0 = Some P /\ dpop_check P = false /\ const_cost P = 7 /\
    completeb P (fst (run (dpop_proto P) ex_sched2)) = true /\
    assignment P (fst (run (dpop_proto P) ex_sched2)) = [(2, 0); (1, 1); (0, 0); (3, 2); (4, 1)] /\
    dcop_cost P (assignment P (fst (run (dpop_proto P) ex_sched2))) = 11 /\
    lbest Min (map (dcop_cost P) (ext P (tree_ids P) [])) = 11.
Proof.
  split; [vm_compute; reflexivity|]. split; [vm_compute; reflexivity|].
  eexists. split; [vm_compute; reflexivity|].
  vm_compute. repeat split; reflexivity.
Qed.
