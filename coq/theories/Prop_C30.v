(* Prop_C30.v -- C30: problem and scenario generators produce well-formed instances.
   Only statements; each closed by an exact lemma from P_Gen.  No bound on the number of
   variables, colours, edges, grid sizes, events or agents. *)
From PyDcop Require Import Base M_AgentDef M_Gen P_Gen P_Gen2.

(* ---- graph colouring ---- *)

(* Full statement: generate(args) yields exactly the requested colours and the variables
   v00 .. v<n-1>, one per graph node.
   Proved under the hypothesis that the rendering f"v{i:02d}" (model: var_name) is injective,
   which is not proved here (string formatting); everything else is unconditional. *)
Theorem gc_variables_and_colours_partial :
  forall colors kind soft intentional noagents nodes edges rnd o,
  (forall i j, var_name i = var_name j -> i = j) ->
  NoDup nodes ->
  gc_generate_checked colors kind soft intentional noagents nodes edges rnd = GOk o ->
  (colors <= 8)%nat /\ gc_domain o = firstn colors COLORS /\ List.length (gc_domain o) = colors /\
  gc_vars o = map var_name (seq 0 (List.length nodes)) /\ NoDup (gc_vars o) /\
  List.length (gc_vars o) = List.length nodes.
Proof. exact gc_variables_and_colours_l. Qed.

(* hard constraints: constraint number i is named c<i>, ranges over the variables of the two
   ends of edge number i and has the requested form; as many constraints as edges; names are
   pairwise distinct (so none is overwritten in the dict) *)
Theorem gc_one_constraint_per_edge : forall k vars intentional edges,
  known vars edges ->
  hard_loop k vars intentional 0 edges [] = GOk (hard_spec k vars intentional 0 edges) /\
  List.length (hard_spec k vars intentional 0 edges) = List.length edges /\
  NoDup (map fst (hard_spec k vars intentional 0 edges)).
Proof. exact gc_one_constraint_per_edge_hard. Qed.

(* ... whose table is 1000 on equal colours and 0 otherwise, in both forms *)
Theorem gc_hard_value : forall k i j, (i < k)%nat -> (j < k)%nat ->
  cell (ext_hard k) i j = (if Nat.eqb i j then 1000 else 0) /\
  cell (int_hard k) i j = (if Nat.eqb i j then 1000 else 0).
Proof. exact gc_hard_value_l. Qed.

(* soft constraints: same shape, one per edge in order, extensional k x k tables *)
Theorem gc_one_constraint_per_edge_soft : forall k vars edges rnd,
  known vars edges ->
  soft_loop k vars 0 edges rnd []
  = match soft_spec k vars 0 edges rnd with Some l => GOk ([] ++ l) | None => GErr EOracle end.
Proof. intros. apply soft_loop_closed; auto. Qed.

(* ... whose cells are all values drawn by random.randint (hence within 0..9) *)
Theorem gc_soft_values : forall k vars edges i rnd l,
  soft_spec k vars i edges rnd = Some l ->
  map fst l = map cname (seq i (List.length edges)) /\
  Forall2 (fun e kc => fst kc = c_name (snd kc) /\
                       c_scope (snd kc) = [vn vars (fst e); vn vars (snd e)] /\
                       c_int (snd kc) = false /\
                       List.length (c_table (snd kc)) = k /\
                       Forall (fun row => List.length row = k /\ incl row rnd) (c_table (snd kc)))
          edges l.
Proof. exact soft_spec_props. Qed.

(* ---- Ising ---- *)

(* for every drawn value the intentional and the extensive tables are the same *)
Theorem ising_forms_agree : forall value,
  unary_ext value = unary_int value /\ binary_ext value = binary_int value /\
  unary_ext value = [[value; - value]] /\
  binary_ext value = [[value; - value]; [- value; value]].
Proof. exact ising_forms_agree_l. Qed.

(* the variable distribution hosts every variable exactly once and nothing else *)
Theorem ising_var_distribution_hosts_once : forall nodes, NoDup nodes -> forall n,
  countb n (hosted (var_loop nodes []))
  = if existsb (iname_eqb n) (map NV nodes) then 1%nat else 0%nat.
Proof. exact ising_var_distribution_hosts_once_l. Qed.

(* the factor-graph distribution hosts every variable, unary and binary constraint exactly
   once and nothing else, on every grid whose edges join a node to its upper or right
   neighbour modulo the grid size (any size >= 1; follows the code after fix e9bb60c) *)
Theorem ising_fg_distribution_hosts_once : forall R C bin nodes,
  NoDup nodes -> NoDup bin ->
  (forall e, In e bin -> exists n, In n nodes /\ (e = up_of R n \/ e = right_of C n)) ->
  forall n, countb n (hosted (fg_loop R C bin nodes [] []))
            = if existsb (iname_eqb n) (map NV nodes ++ map NCU nodes ++ map NCB bin)
              then 1%nat else 0%nat.
Proof. exact ising_fg_distribution_hosts_once_l. Qed.

(* the same with the executable check of the networkx edge list used by the correspondence *)
Theorem ising_fg_distribution_hosts_once_grid : forall R C nodes edges,
  grid_ok R C nodes edges = true ->
  forall n, countb n (hosted (fg_loop R C (sorted_edges edges) nodes [] []))
            = if existsb (iname_eqb n)
                   (map NV nodes ++ map NCU nodes ++ map NCB (sorted_edges edges))
              then 1%nat else 0%nat.
Proof. exact ising_fg_hosts_once_grid. Qed.

(* ---- scenario ---- *)

(* whatever random.sample returns within its contract (k distinct elements of the population),
   there are exactly evts_count removal events, each removes actions_count distinct agents of
   the given list, and no agent is removed by two events *)
Theorem scenario_removals_distinct_fresh :
  forall evts actions delay i0 e0 agents samples evs,
  generate_scenario evts actions delay i0 e0 agents samples = GOk evs ->
  samples_ok (sdedup agents) actions (Z.to_nat evts) samples ->
  List.length (removals evs) = Z.to_nat evts /\
  removals evs = firstn (Z.to_nat evts) samples /\
  Forall (fun r => NoDup r /\ Z.of_nat (List.length r) = actions /\ incl r agents) (removals evs) /\
  ForallOrdPairs disjoint (removals evs).
Proof. exact scenario_removals_distinct_fresh_l. Qed.

(* ---- deepening: name rendering is injective, generate_ising end to end ---- *)

(* str(n) and the zero-padded f"{n:0{w}d}" are injective on all naturals (whatever the widths) *)
Theorem decimal_rendering_injective :
  (forall a b, str_of_N a = str_of_N b -> a = b) /\
  (forall w1 w2 a b, zero_pad w1 a = zero_pad w2 b -> a = b) /\
  (forall i j, var_name i = var_name j -> i = j) /\
  (forall i j, agt_name i = agt_name j -> i = j).
Proof. exact (conj str_of_N_inj (conj zero_pad_inj (conj var_name_inj agt_name_inj))). Qed.

(* gc_variables_and_colours_partial without its hypothesis: generate(args) yields exactly the
   requested colours and the pairwise distinct variables v00 .. v<n-1>, one per graph node,
   for every number of nodes (f"v{i:02d}" keeps growing past 99 and stays injective) *)
Theorem gc_variables_and_colours :
  forall colors kind soft intentional noagents nodes edges rnd o,
  NoDup nodes ->
  gc_generate_checked colors kind soft intentional noagents nodes edges rnd = GOk o ->
  (colors <= 8)%nat /\ gc_domain o = firstn colors COLORS /\ List.length (gc_domain o) = colors /\
  gc_vars o = map var_name (seq 0 (List.length nodes)) /\ NoDup (gc_vars o) /\
  List.length (gc_vars o) = List.length nodes.
Proof. exact gc_variables_and_colours_l2. Qed.

(* ... and one agent a00 .. a<n-1> per variable, pairwise distinct (none with --noagents) *)
Theorem gc_agents_exact :
  forall colors kind soft intentional noagents nodes edges rnd o,
  NoDup nodes ->
  gc_generate_checked colors kind soft intentional noagents nodes edges rnd = GOk o ->
  gc_agents o = (if noagents then [] else map agt_name (seq 0 (List.length nodes))) /\
  NoDup (gc_agents o).
Proof. exact gc_agents_exact_l. Qed.

(* the strings generate_ising builds for variables, unary / binary constraints and agents
   (f"v_{r}_{c}", f"cu_v_{r}_{c}", f"cb_v_{r1}_{c1}_v_{r2}_{c2}", f"a_{r}_{c}") are pairwise
   different for different (kind, coordinates): the structured names of the model and the
   string keys of the implementation's dicts identify the same things *)
Theorem ising_names_injective : forall a b,
  nonneg_name a -> nonneg_name b -> render a = render b -> a = b.
Proof. exact ising_names_injective_l. Qed.

(* the link between the constraint dict and the factor-graph distribution, on generate_ising
   itself: every name the distribution maps is a variable or a constraint the generator
   produced (for ANY graph handed in), and on a periodic grid every variable and every
   constraint produced is mapped *)
Theorem ising_fg_mapping_uses_existing_constraints :
  forall R C ext na vd nodes edges rnd o,
  generate_ising R C ext na true vd nodes edges rnd = GOk o ->
  (forall n, In n (hosted (io_fg_mapping o)) -> In n (io_vars o ++ map fst (io_constraints o))) /\
  (grid_ok R C nodes edges = true ->
   forall n, In n (io_vars o ++ map fst (io_constraints o)) -> In n (hosted (io_fg_mapping o))).
Proof. exact ising_fg_mapping_uses_existing_constraints_l. Qed.

(* what generate_ising returns on a periodic grid: one variable per node, one unary constraint
   per node and one binary constraint per edge, all names distinct *)
Theorem ising_generate_grid : forall R C ext na fg vd nodes edges rnd o,
  grid_ok R C nodes edges = true ->
  generate_ising R C ext na fg vd nodes edges rnd = GOk o ->
  io_vars o = map NV nodes /\
  map fst (io_constraints o) = map NCU nodes ++ map NCB (sorted_edges edges) /\
  NoDup (io_vars o ++ map fst (io_constraints o)) /\
  io_fg_mapping o = (if fg then fg_loop R C (sorted_edges edges) nodes [] [] else []).
Proof. exact generate_ising_grid. Qed.

(* end to end: the returned factor-graph distribution hosts every computation of the returned
   DCOP exactly once and nothing else; same for the variable distribution *)
Theorem ising_generate_fg_hosts_once : forall R C ext na vd nodes edges rnd o,
  grid_ok R C nodes edges = true ->
  generate_ising R C ext na true vd nodes edges rnd = GOk o ->
  forall n, countb n (hosted (io_fg_mapping o))
            = if existsb (iname_eqb n) (io_vars o ++ map fst (io_constraints o)) then 1%nat else 0%nat.
Proof. exact ising_generate_fg_hosts_once_l. Qed.

Theorem ising_generate_var_hosts_once : forall R C ext na fg nodes edges rnd o,
  NoDup nodes ->
  generate_ising R C ext na fg true nodes edges rnd = GOk o ->
  forall n, countb n (hosted (io_var_mapping o))
            = if existsb (iname_eqb n) (io_vars o) then 1%nat else 0%nat.
Proof. exact ising_generate_var_hosts_once_l. Qed.

(* the hypotheses above are met on every periodic grid: generate_ising succeeds as soon as
   random.uniform delivers one value per node and per edge *)
Theorem ising_generate_total : forall R C ext na fg vd nodes edges rnd,
  grid_ok R C nodes edges = true ->
  (List.length nodes + List.length edges <= List.length rnd)%nat ->
  exists o, generate_ising R C ext na fg vd nodes edges rnd = GOk o.
Proof. exact ising_generate_total_l. Qed.

(* non-vacuity: a 2 x 2 periodic grid (the case the unfixed code got wrong), a 3-edge hard
   colouring, a 2-event scenario *)
Example c30_nonvacuous :
  let nodes := [(0, 0); (0, 1); (1, 0); (1, 1)] in
  let edges := [((0, 0), (1, 0)); ((0, 0), (0, 1)); ((0, 1), (1, 1)); ((1, 0), (1, 1))] in
  grid_ok 2 2 nodes edges = true /\
  map (fun kv => List.length (snd kv)) (fg_loop 2 2 (sorted_edges edges) nodes [] []) = [4; 3; 3; 2]%nat /\
  countb (NCB ((0, 0), (1, 0))) (hosted (fg_loop 2 2 (sorted_edges edges) nodes [] [])) = 1%nat /\
  (exists l, hard_loop 3 [(5, "v00"); (7, "v01"); (9, "v02")]%string false 0 [(5, 7); (7, 9); (9, 5)] [] = GOk l
             /\ map fst l = ["c0"; "c1"; "c2"]%string) /\
  (exists evs, generate_scenario 2 2 10 5 5 ["a"; "b"; "c"; "d"; "e"]%string [["b"; "e"]; ["a"; "c"]]%string = GOk evs
               /\ removals evs = [["b"; "e"]; ["a"; "c"]]%string).
Proof. vm_compute. repeat split; try reflexivity; eexists; split; reflexivity. Qed.
