(* P_DpopBuilt.v -- C01 x C17: the pseudo-tree hypothesis of the all-schedules theorem of DPOP
   (dpop_valid + "the ownership filter is a partition") DERIVED from what C17 proves about the
   model of the real pseudo-tree builder, hence the end-to-end theorem: DPOP run on the tree
   that build_computation_graph builds is optimal on every schedule, for every well-formed DCOP,
   with no hypothesis on the tree.

   1. translation lemmas (M_Dpop accessors of [dpop_of_built R t] = M_PseudoTree accessors of t);
   2. [ownership_lowest]   : the filter of DpopAlgo.__init__ keeps a constraint exactly at the
                             lowest node of its scope (pt_valid_scope_chain gives that node);
   3. [ownership_partition]: every constraint is kept by exactly one node;
   4. [built_dvalid]       : dvalid of the translated instance (dv_sv from ptv_edges / ptv_pp_anc,
                             dv_link from "a tree edge is a constraint-graph edge" = build_links_l);
   5. [all_schedules_valid]: the headline of P_Dpop2Valid with the Prop-level hypotheses;
   6. [dpop_on_built_tree_l]. *)
From PyDcop Require Import Base Net M_Dpop P_Dpop M_DpopValid P_Dpop2Net P_Dpop2Tree P_Dpop2Aux P_Dpop2
  P_Dpop2Valid M_PseudoTree M_PseudoTree2 P_PseudoTree P_PseudoTree2 P_PseudoTree3 P_PseudoTree4 M_DpopBuilt.
From Coq Require Import ZifyBool Permutation.
Local Open Scope list_scope.

(* ------------------------------------------------------------------ *)
(*  list facts                                                          *)
(* ------------------------------------------------------------------ *)
Lemma zlookup_number_from {A} (l : list A) : forall i k,
  zlookup k (number_from i l) = if k <? i then None else nth_error l (Z.to_nat (k - i)).
Proof.
  unfold zlookup. induction l as [|x r IH]; intros i k; simpl.
  - destruct (k <? i); auto. destruct (Z.to_nat (k - i)); auto.
  - destruct (Z.eqb k i) eqn:E.
    + apply Z.eqb_eq in E. subst k. rewrite Z.ltb_irrefl, Z.sub_diag. reflexivity.
    + rewrite IH. destruct (k <? i) eqn:L.
      * assert (k <? i + 1 = true) as -> by lia. reflexivity.
      * destruct (k <? i + 1) eqn:L'; [lia|].
        replace (Z.to_nat (k - i)) with (S (Z.to_nat (k - (i + 1)))) by lia. reflexivity.
Qed.

Lemma fst_number_from {A} (l : list A) : forall i k,
  In k (map fst (number_from i l)) <-> i <= k < i + Z.of_nat (List.length l).
Proof.
  induction l as [|x r IH]; intros i k; simpl.
  - lia.
  - rewrite IH. lia.
Qed.

Lemma NoDup_number_from {A} (l : list A) : forall i, NoDup (map fst (number_from i l)).
Proof.
  induction l as [|x r IH]; intros i; simpl; constructor; auto.
  rewrite fst_number_from. lia.
Qed.

Lemma nth_error_map_inv {A B} (f : A -> B) l : forall n y,
  nth_error (map f l) n = Some y -> exists x, nth_error l n = Some x /\ f x = y.
Proof.
  induction l as [|a r IH]; intros [|n] y; simpl; try discriminate.
  - intros H. inversion H. eauto.
  - apply IH.
Qed.

Lemma NoDup_flat_map {A} (f : A -> list Z) (l : list A) :
  NoDup l -> (forall x, In x l -> NoDup (f x)) ->
  (forall x y k, In x l -> In y l -> x <> y -> In k (f x) -> ~ In k (f y)) ->
  NoDup (flat_map f l).
Proof.
  induction l as [|a r IH]; intros Hnd H1 H2; simpl; [constructor|].
  inversion Hnd as [|? ? Ha Hr]; subst.
  assert (G : forall l1 l2 : list Z, NoDup l1 -> NoDup l2 -> (forall k, In k l1 -> ~ In k l2) -> NoDup (l1 ++ l2)).
  { induction l1 as [|z l1 IH1]; intros l2 N1 N2 Hd; simpl; auto.
    inversion N1; subst. constructor.
    - intros Hin. apply in_app_or in Hin. destruct Hin as [Hin|Hin]; [contradiction|].
      apply (Hd z); [left; auto|exact Hin].
    - apply IH1; auto. intros k Hk. apply Hd. right; auto. }
  apply G.
  - apply H1. left; auto.
  - apply IH; auto.
    + intros x Hx. apply H1. right; auto.
    + intros x y k Hx Hy. apply H2; right; auto.
  - intros k Hk Hin. apply in_flat_map in Hin. destruct Hin as (y & Hy & Hin).
    apply (H2 a y k); auto; [left; auto|right; auto|]. intros ->. contradiction.
Qed.

(* ------------------------------------------------------------------ *)
(*  1. translation lemmas                                               *)
(* ------------------------------------------------------------------ *)
Section Built.
  Variable R : rdcop.
  Variable t : tree.
  Let g := graph_of R.
  Let P := dpop_of_built R t.

  Lemma find_pn_map x : find_pn (map pn_of_node t) x = option_map pn_of_node (find_node t x).
  Proof.
    induction t as [|n r IH]; simpl; auto.
    destruct (Z.eqb x (n_id n)); auto.
  Qed.

  Lemma b_parent x : parent P x = t_parent t x.
  Proof.
    unfold parent, pn_of, t_parent, P. simpl. rewrite find_pn_map.
    destruct (find_node t x); reflexivity.
  Qed.
  Lemma b_children x : children P x = t_children t x.
  Proof.
    unfold children, pn_of, t_children, P. simpl. rewrite find_pn_map.
    destruct (find_node t x); reflexivity.
  Qed.
  Lemma b_pcs x : pn_pcs (pn_of P x) = t_pcs t x.
  Proof.
    unfold pn_of, t_pcs, P. simpl. rewrite find_pn_map.
    destruct (find_node t x); reflexivity.
  Qed.
  Lemma b_cons x : pn_cons (pn_of P x) = t_rels t x.
  Proof.
    unfold pn_of, t_rels, P. simpl. rewrite find_pn_map.
    destruct (find_node t x); reflexivity.
  Qed.
  Lemma b_ids : tree_ids P = t_ids t.
  Proof. unfold tree_ids, t_ids, P. simpl. rewrite map_map. reflexivity. Qed.
  Lemma b_dsize x : dsize P x = rd_size R x.
  Proof. reflexivity. Qed.
  Lemma b_cons_ids : cons_ids P = map fst (number_from 0 (rd_cons R)).
  Proof. reflexivity. Qed.

  Lemma b_anc a b : Anc P a b <-> anc t a b.
  Proof.
    split; induction 1.
    - apply M_PseudoTree.anc_parent. rewrite <- b_parent. assumption.
    - eapply M_PseudoTree.anc_up; eauto. rewrite <- b_parent. eassumption.
    - apply P_Dpop2Tree.anc_parent. rewrite b_parent. assumption.
    - eapply P_Dpop2Tree.anc_up; eauto. rewrite b_parent. eassumption.
  Qed.

  (* the dimensions of constraint k are its scope in the constraint graph *)
  Lemma b_dims k sc : scope_of g k = Some sc -> r_dims (con P k) = sc.
  Proof.
    unfold scope_of, con, P, g. simpl. rewrite zlookup_number_from.
    destruct (k <? 0); [discriminate|]. rewrite Z.sub_0_r. intros H.
    apply nth_error_map_inv in H. destruct H as (r & -> & Hr). exact Hr.
  Qed.

  Lemma scope_in k sc : scope_of g k = Some sc -> In sc (g_rels g) /\ In k (cons_ids P).
  Proof.
    unfold scope_of. destruct (k <? 0) eqn:L; [discriminate|]. intros H. split.
    - eapply nth_error_In; eauto.
    - rewrite b_cons_ids. apply fst_number_from.
      assert (Hlt : (Z.to_nat k < List.length (g_rels g))%nat) by (apply nth_error_Some; congruence).
      unfold g in Hlt. simpl in Hlt. rewrite map_length in Hlt. lia.
  Qed.

  Lemma cons_id_scope k : In k (cons_ids P) -> exists sc, scope_of g k = Some sc.
  Proof.
    rewrite b_cons_ids, fst_number_from. intros H. unfold scope_of.
    destruct (k <? 0) eqn:L; [lia|].
    destruct (nth_error (g_rels g) (Z.to_nat k)) as [sc|] eqn:E; [eauto|].
    apply nth_error_None in E. unfold g in E. simpl in E. rewrite map_length in E. lia.
  Qed.

  (* DpopAlgo.__init__'s filter *)
  Lemma b_owned x k : In k (owned P x) <->
    In k (t_rels t x) /\ forall d, In d (t_pcs t x ++ t_children t x) -> ~ In d (r_dims (con P k)).
  Proof.
    unfold owned. rewrite filter_In, b_cons, b_pcs. fold (children P x). rewrite b_children.
    split; intros [H1 H2]; split; auto.
    - intros d Hd Hin. apply negb_true_iff in H2.
      assert (E : existsb (fun d0 => zmem d0 (r_dims (con P k))) (t_pcs t x ++ t_children t x) = true).
      { apply existsb_exists. exists d. split; auto. apply zmem_In. exact Hin. }
      congruence.
    - apply negb_true_iff. destruct (existsb _ _) eqn:E; auto.
      apply existsb_exists in E. destruct E as (d & Hd & E). apply zmem_In in E.
      exfalso. eapply H2; eauto.
  Qed.

  (* ---------------------------------------------------------------- *)
  (*  what is assumed from here on: the tree is valid for the graph and  *)
  (*  every tree edge is an edge of the constraint graph                 *)
  (* ---------------------------------------------------------------- *)
  Hypothesis V : PT_valid g t.
  Hypothesis Hedge : forall a p, t_parent t a = Some p ->
    exists sc, In sc (g_rels g) /\ In a sc /\ In p sc.
  Hypothesis Hscv : forall sc, In sc (g_rels g) -> incl sc (g_vars g).

  Lemma anc_irr a : ~ anc t a a.
  Proof. apply (ptv_acyclic g t V). Qed.

  Lemma below_anc x d : In d (t_pcs t x ++ t_children t x) -> anc t x d.
  Proof.
    destruct (pt_valid_order_l g t V) as (_ & Hch & Hpc & _).
    intros H. apply in_app_or in H. destruct H; auto.
  Qed.

  Lemma in_ids_rels x k : In k (t_rels t x) -> In x (t_ids t).
  Proof.
    unfold t_rels. destruct (find_node t x) as [n|] eqn:E; [|intros []].
    intros _. apply find_node_Some in E. destruct E as [E <-]. apply in_map. exact E.
  Qed.

  (* 2. the filter keeps constraint k at x iff x is the lowest node of k's scope *)
  Lemma ownership_lowest_l x k : In k (owned P x) <->
    exists sc, scope_of g k = Some sc /\ In x sc /\ forall b, In b sc -> b = x \/ anc t b x.
  Proof.
    rewrite b_owned. split.
    - intros [Hk Hf]. pose proof (in_ids_rels x k Hk) as Hx.
      apply (ptv_rels g t V x k Hx) in Hk. destruct Hk as (sc & Hsc & Hxs).
      exists sc. split; auto. split; auto. intros b Hb.
      destruct (Z.eq_dec b x) as [|Hne]; [left; auto|right].
      destruct (scope_in k sc Hsc) as [Hin _].
      pose proof (ptv_edges g t V sc b x Hin Hb Hxs Hne) as L.
      rewrite (b_dims k sc Hsc) in Hf.
      destruct L as [L|[L|[L|L]]].
      + (* parent b = x : b is a child of x *)
        exfalso. apply (Hf b); auto. apply in_or_app. right. apply (ptv_parent_children g t V). exact L.
      + (* x is a pseudo-parent of b : b is a pseudo-child of x *)
        exfalso. apply (Hf b); auto. apply in_or_app. left. apply (ptv_pp_pc g t V). exact L.
      + apply M_PseudoTree.anc_parent. exact L.
      + apply (ptv_pp_anc g t V). exact L.
    - intros (sc & Hsc & Hxs & Hlow). destruct (scope_in k sc Hsc) as [Hin _]. split.
      + apply (ptv_rels g t V x k).
        * apply (ptv_nodes g t V). apply (Hscv sc Hin). exact Hxs.
        * exists sc. auto.
      + intros d Hd Hds. rewrite (b_dims k sc Hsc) in Hds. apply below_anc in Hd.
        destruct (Hlow d Hds) as [->|Ha]; [exact (anc_irr x Hd)|].
        apply (anc_irr x). eapply P_PseudoTree.anc_trans; eauto.
  Qed.

  Hypothesis Hne : forall sc, In sc (g_rels g) -> sc <> [].

  (* 3. every constraint of the dcop is kept by exactly one node of the tree *)
  Lemma owned_some k : In k (cons_ids P) -> exists x, In x (t_ids t) /\ In k (owned P x).
  Proof.
    intros Hk. destruct (cons_id_scope k Hk) as (sc & Hsc).
    destruct (scope_in k sc Hsc) as [Hin _].
    destruct (pt_valid_scope_chain_l g t V sc Hin (Hne sc Hin)) as (a & Ha & Hlow).
    exists a. split.
    - apply (ptv_nodes g t V). apply (Hscv sc Hin). exact Ha.
    - apply ownership_lowest_l. exists sc. auto.
  Qed.

  Lemma owned_unique x y k : In k (owned P x) -> In k (owned P y) -> x = y.
  Proof.
    intros Hx Hy. apply ownership_lowest_l in Hx, Hy.
    destruct Hx as (sc & Hsc & Hxs & Hlx). destruct Hy as (sc' & Hsc' & Hys & Hly).
    rewrite Hsc in Hsc'. inversion Hsc'; subst sc'.
    destruct (Hlx y Hys) as [|A1]; auto. destruct (Hly x Hxs) as [|A2]; auto.
    exfalso. apply (anc_irr x). eapply P_PseudoTree.anc_trans; eauto.
  Qed.

  Lemma owned_is_constraint x k : In k (owned P x) -> In k (cons_ids P).
  Proof.
    intros H. apply ownership_lowest_l in H. destruct H as (sc & Hsc & _).
    apply (scope_in k sc Hsc).
  Qed.

  Lemma owned_nodup x : NoDup (owned P x).
  Proof. unfold owned. apply NoDup_filter. rewrite b_cons. apply (ptv_rels_nodup g t V). Qed.

  Theorem ownership_partition_l :
    Permutation (all_owned P) (cons_ids P) /\ NoDup (cons_ids P) /\
    forall k, In k (cons_ids P) -> exists x, In x (tree_ids P) /\ In k (owned P x) /\
                                             forall y, In k (owned P y) -> y = x.
  Proof.
    assert (Hnd : NoDup (cons_ids P)) by (rewrite b_cons_ids; apply NoDup_number_from).
    split; [|split; auto].
    - apply NoDup_Permutation; auto.
      + unfold all_owned. apply NoDup_flat_map.
        * rewrite b_ids. apply (ptv_nodup g t V).
        * intros x _. apply owned_nodup.
        * intros x y k _ _ Hxy Hx Hy. apply Hxy. eapply owned_unique; eauto.
      + intros k. unfold all_owned. rewrite in_flat_map. split.
        * intros (x & _ & Hk). eapply owned_is_constraint; eauto.
        * intros Hk. destruct (owned_some k Hk) as (x & Hx & Hkx). exists x. rewrite b_ids. auto.
    - intros k Hk. destruct (owned_some k Hk) as (x & Hx & Hkx). exists x. rewrite b_ids.
      split; auto. split; auto. intros y Hy. eapply owned_unique; eauto.
  Qed.

  (* 4. the validity hypothesis of the all-schedules theorem *)
  Hypothesis Hdom : forall x, In x (g_vars g) -> (0 < rd_size R x)%nat.

  Lemma parent_ids c p : t_parent t c = Some p -> In c (t_ids t) /\ In p (t_ids t).
  Proof.
    intros H. split.
    - unfold t_parent in H. destruct (find_node t c) as [n|] eqn:E; [|discriminate].
      apply find_node_Some in E. destruct E as [E <-]. apply in_map. exact E.
    - apply (ptv_parent_children g t V) in H. unfold t_children in H.
      destruct (find_node t p) as [n|] eqn:E; [|destruct H].
      apply find_node_Some in E. destruct E as [E <-]. apply in_map. exact E.
  Qed.

  Theorem built_dvalid_l : dpop_valid P.
  Proof.
    destruct (ptv_ranked g t V) as (d & N & HB & HD).
    exists d, N. constructor.
    - rewrite b_ids. apply (ptv_nodup g t V).
    - intros x Hx. rewrite b_ids in Hx. rewrite b_dsize. apply Hdom. apply (ptv_nodes g t V). exact Hx.
    - intros c p Hp. rewrite b_parent in Hp. rewrite b_ids. apply parent_ids. exact Hp.
    - intros x c. rewrite b_children, b_parent. symmetry. apply (ptv_parent_children g t V).
    - intros x. rewrite b_children. apply (ptv_children_nodup g t V).
    - intros x _. apply HB.
    - intros c p Hp. rewrite b_parent in Hp. apply HD. exact Hp.
    - (* dv_sv *)
      intros x dd Hx Hd. apply sv_svars in Hd. unfold svars in Hd. destruct Hd as [<-|Hd]; [left; auto|].
      apply in_flat_map in Hd. destruct Hd as (k & Hk & Hd).
      apply ownership_lowest_l in Hk. destruct Hk as (sc & Hsc & _ & Hlow).
      rewrite (b_dims k sc Hsc) in Hd. destruct (Hlow dd Hd) as [|A]; [left; auto|right].
      apply b_anc. exact A.
    - (* dv_link *)
      intros c p Hp. rewrite b_parent in Hp.
      destruct (Hedge c p Hp) as (sc & Hin & Hcs & Hps).
      assert (Hnz : sc <> []) by (intros ->; destruct Hcs).
      destruct (pt_valid_scope_chain_l g t V sc Hin Hnz) as (a & Ha & Hlow).
      destruct (In_nth_error _ _ Hin) as (n & Hn).
      assert (Hsc : scope_of g (Z.of_nat n) = Some sc).
      { unfold scope_of. destruct (Z.of_nat n <? 0) eqn:L; [lia|]. rewrite Nat2Z.id. exact Hn. }
      exists a. split.
      + destruct (Hlow c Hcs) as [->|A]; [left; auto|right]. apply b_anc. exact A.
      + apply sv_svars. unfold svars. right. apply in_flat_map. exists (Z.of_nat n). split.
        * apply ownership_lowest_l. exists sc. auto.
        * rewrite (b_dims _ sc Hsc). exact Hps.
  Qed.
End Built.

(* ------------------------------------------------------------------ *)
(*  5. the headline of P_Dpop2Valid from the Prop-level hypotheses       *)
(* ------------------------------------------------------------------ *)
Definition dpop_correct (P : dcop) : Prop := forall sched,
  let r := run (dpop_proto P) sched in
  (forall n k, In (EvRaise n k) (snd r) -> ~ In n (tree_ids P)) /\
  (complete P (fst r) ->
     (forall x, In x (tree_ids P) ->
        s_fin (w_st (nodes (fst r) x)) = true /\
        count_finished x (snd r) = 1%nat /\ count_selected x (snd r) = 1%nat /\
        exists v c, s_value (w_st (nodes (fst r) x)) = Some (v, c) /\ In (EvSelect x v c) (snd r) /\
                    0 <= v < Z.of_nat (dsize P x)) /\
     let sg := assignment P (fst r) in
     in_dom (dsize P) sg (tree_ids P) /\
     (forall a, in_dom (dsize P) a (tree_ids P) -> mle (dc_mode P) (dcop_cost P sg) (dcop_cost P a)) /\
     is_best (dc_mode P) (map (dcop_cost P) (ext P (tree_ids P) [])) (dcop_cost P sg)).

Theorem all_schedules_valid P :
  dpop_valid P -> Permutation (all_owned P) (cons_ids P) -> NoDup (cons_ids P) -> dpop_correct P.
Proof.
  intros Hv Hperm Hnd sched r.
  split; [apply no_raise_all_schedules; exact Hv|].
  intros Hc. split; [apply (complete_all_finished P sched Hv Hc)|].
  destruct (optimal_at_completion P sched Hv Hc) as [Hdom Hopt]. fold r in Hdom, Hopt.
  cbv zeta. split; [exact Hdom|].
  assert (Hopt' : forall a, in_dom (dsize P) a (tree_ids P) ->
            mle (dc_mode P) (dcop_cost P (assignment P (fst r))) (dcop_cost P a)).
  { intros a Ha. rewrite <- !(total_cost_dcop P _ Hperm Hnd). apply Hopt. exact Ha. }
  split; [exact Hopt'|]. split.
  - destruct Hv as (dep & B & V).
    destruct (ext_complete P (tree_ids P) [] (assignment P (fst r)) Hdom) as (e & He & Hag).
    apply in_map_iff. exists e. split; [|exact He].
    rewrite <- !(total_cost_dcop P _ Hperm Hnd). unfold total_cost. apply cost_in_dep.
    intros d Hd. apply Hag. apply in_sv in Hd. destruct Hd as (y & Hy & Hd). eapply (sv_in P dep B V); eauto.
  - intros c Hc'. apply in_map_iff in Hc'. destruct Hc' as (e & <- & He). apply Hopt'.
    intros d Hd. eapply ext_in_dom; eauto.
Qed.

(* ------------------------------------------------------------------ *)
(*  6. end to end                                                       *)
(* ------------------------------------------------------------------ *)
(* a DCOP: well-formed constraint graph, non-empty domains, no zero-ary constraint *)
Definition wf_rdcop (R : rdcop) : Prop :=
  wf_graph (graph_of R) /\
  (forall x, In x (rd_vars R) -> (0 < rd_size R x)%nat) /\
  (forall r, In r (rd_cons R) -> r_dims r <> []).

Lemma wf_rdcopb_sound_l R : wf_rdcopb R = true -> wf_rdcop R.
Proof.
  unfold wf_rdcopb. intros H. apply andb_true_iff in H. destruct H as [H H3].
  apply andb_true_iff in H. destruct H as [H1 H2].
  rewrite forallb_forall in H2, H3. split; [apply wf_graphb_sound_l; exact H1|]. split.
  - intros x Hx. apply Nat.ltb_lt. apply H2. exact Hx.
  - intros r Hr E. specialize (H3 r Hr). rewrite E in H3. discriminate.
Qed.

Section EndToEnd.
  Variable R : rdcop.
  Hypothesis W : wf_rdcop R.
  Variable roots : list Z.
  Variable t : tree.
  Hypothesis HB : M_PseudoTree.build (graph_of R) = Some (roots, t).

  Let g := graph_of R.

  Lemma e_valid : PT_valid g t.
  Proof. destruct W as (Wg & _). eapply build_PT_valid_l; eauto. Qed.

  (* every tree edge of the built tree is an edge of the constraint graph: the DFS token only
     moves along constraint-graph edges (P_PseudoTree4, i.e. pt_links_partial of C17) *)
  Lemma e_edge a p : t_parent t a = Some p -> exists sc, In sc (g_rels g) /\ In a sc /\ In p sc.
  Proof. intros H. apply (build_parent_shares_constraint_l g roots t HB a p H). Qed.

  Lemma e_scv sc : In sc (g_rels g) -> incl sc (g_vars g).
  Proof. destruct W as ((_ & Wg) & _). intros H. apply (Wg sc H). Qed.

  Lemma e_ne sc : In sc (g_rels g) -> sc <> [].
  Proof.
    destruct W as (_ & _ & Wn). unfold g, graph_of. simpl. intros H.
    apply in_map_iff in H. destruct H as (r & <- & Hr). apply Wn. exact Hr.
  Qed.

  Lemma e_dom x : In x (g_vars g) -> (0 < rd_size R x)%nat.
  Proof. destruct W as (_ & Wd & _). apply Wd. Qed.

  Theorem built_valid_l : dpop_valid (dpop_of_built R t).
  Proof.
    apply (built_dvalid_l R t e_valid e_edge e_scv e_dom).
  Qed.

  Theorem built_partition_l :
    Permutation (all_owned (dpop_of_built R t)) (cons_ids (dpop_of_built R t)) /\
    NoDup (cons_ids (dpop_of_built R t)) /\
    forall k, In k (cons_ids (dpop_of_built R t)) ->
      exists x, In x (tree_ids (dpop_of_built R t)) /\ In k (owned (dpop_of_built R t) x) /\
                forall y, In k (owned (dpop_of_built R t) y) -> y = x.
  Proof. apply (ownership_partition_l R t e_valid e_scv e_ne). Qed.

  Theorem built_lowest_l x k : In k (owned (dpop_of_built R t) x) <->
    exists sc, scope_of (graph_of R) k = Some sc /\ In x sc /\ forall b, In b sc -> b = x \/ anc t b x.
  Proof. apply (ownership_lowest_l R t e_valid e_scv). Qed.

  Theorem built_correct_l : dpop_correct (dpop_of_built R t).
  Proof.
    destruct built_partition_l as (Hp & Hn & _).
    apply all_schedules_valid; auto. apply built_valid_l.
  Qed.
End EndToEnd.

Theorem dpop_on_built_tree_l R : wf_rdcop R ->
  exists P, dpop_of R = Some P /\
            (forall x, In x (tree_ids P) <-> In x (rd_vars R)) /\ NoDup (tree_ids P) /\
            dpop_correct P.
Proof.
  intros W. pose proof W as (Wg & _).
  destruct (build_valid_l (graph_of R) Wg) as (roots & t & HB & V).
  exists (dpop_of_built R t). unfold dpop_of. rewrite HB. split; auto.
  rewrite b_ids. split; [apply (ptv_nodes _ _ V)|]. split; [apply (ptv_nodup _ _ V)|].
  eapply built_correct_l; eauto.
Qed.

(* ------------------------------------------------------------------ *)
(*  7. what the correspondence evaluates on every case is the hypothesis  *)
(*     of the theorem for the dcop + tree extracted from the real objects  *)
(* ------------------------------------------------------------------ *)
Lemma zl_eqb_eq a b : M_Dpop.zl_eqb a b = true -> a = b.
Proof. apply (list_eqb_spec Z.eqb Z.eqb_eq). Qed.

Lemma pnode_eqb_eq a b : pnode_eqb a b = true -> a = b.
Proof.
  unfold pnode_eqb. intros H.
  apply andb_true_iff in H. destruct H as [H H6]. apply andb_true_iff in H. destruct H as [H H5].
  apply andb_true_iff in H. destruct H as [H H4]. apply andb_true_iff in H. destruct H as [H H3].
  apply andb_true_iff in H. destruct H as [H1 H2].
  apply Z.eqb_eq in H1. apply zl_eqb_eq in H3, H4, H5, H6.
  destruct a as [i1 p1 c1 pp1 pc1 k1], b as [i2 p2 c2 pp2 pc2 k2]. simpl in *. subst.
  f_equal. destruct p1 as [x|], p2 as [y|]; simpl in H2; try discriminate; auto.
  apply Z.eqb_eq in H2. subst. reflexivity.
Qed.

Lemma number_from_ids {A} (l : list (Z * A)) : forall i,
  map fst l = zrange_from i (List.length l) -> number_from i (map snd l) = l.
Proof.
  induction l as [|[k x] r IH]; intros i H; simpl in *; auto.
  inversion H; subst. f_equal. apply IH. assumption.
Qed.

Lemma built_ok_sound_l P : built_ok P = true ->
  wf_rdcop (raw_of P) /\ dpop_of (raw_of P) = Some P.
Proof.
  unfold built_ok. intros H. apply andb_true_iff in H. destruct H as [H H3].
  apply andb_true_iff in H. destruct H as [H1 H2].
  split; [apply wf_rdcopb_sound_l; exact H1|].
  unfold dpop_of. destruct (M_PseudoTree.build (graph_of (raw_of P))) as [[roots t]|]; [|discriminate].
  f_equal. apply zl_eqb_eq in H2.
  apply (list_eqb_spec pnode_eqb) in H3.
  2:{ intros x y. split; [apply pnode_eqb_eq|]. intros <-. unfold pnode_eqb.
      rewrite Z.eqb_refl. simpl.
      assert (E : forall l, M_Dpop.zl_eqb l l = true) by (intros l; apply (list_eqb_spec Z.eqb Z.eqb_eq); auto).
      rewrite !E. destruct (pn_parent x); simpl; [rewrite Z.eqb_refl|]; reflexivity. }
  unfold dpop_of_built. destruct P as [m dm vc cs tr]. simpl in *. rewrite H3.
  rewrite (number_from_ids cs 0 H2). reflexivity.
Qed.

Theorem built_ok_correct_l P : built_ok P = true -> dpop_correct P.
Proof.
  intros H. destruct (built_ok_sound_l P H) as [W E].
  unfold dpop_of in E. destruct (M_PseudoTree.build (graph_of (raw_of P))) as [[roots t]|] eqn:HB; [|discriminate].
  injection E as E'.
  assert (G : dpop_correct (dpop_of_built (raw_of P) t)) by (eapply built_correct_l; eauto).
  exact (eq_ind _ dpop_correct G _ E').
Qed.
