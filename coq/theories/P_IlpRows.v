(* P_IlpRows.v -- proofs about the row-level model of oilp_cgdp.ilp_cgdp (M_IlpRows, C24):
   the rows force every beta to the product of its two x variables, a 0/1 vector satisfies the
   rows iff its x part is the indicator of a distribution meeting the hard rules and the betas
   are those products.  (Objective / optimality: P_IlpRowsObj.v; ilp_fgdp: P_IlpRows2.v.) *)
From PyDcop Require Import Base M_Dist M_Ilp P_Ilp M_IlpRows.
From Coq Require Import ZifyBool.

(* ------------------------------------------------------------------ generalities *)
Lemma rows_sat_forall s rows : rows_sat s rows = true <-> forall r, In r rows -> row_sat s r = true.
Proof. apply forallb_forall. Qed.

Lemma rows_sat_app s a b : rows_sat s (a ++ b) = rows_sat s a && rows_sat s b.
Proof. unfold rows_sat. apply forallb_app. Qed.

Lemma rows_sat_flat_map {A} s (f : A -> list lrow) l :
  rows_sat s (flat_map f l) = true <-> forall x, In x l -> rows_sat s (f x) = true.
Proof.
  induction l as [|x l IH]; simpl.
  - split; [intros _ y Hy; destruct Hy | reflexivity].
  - rewrite rows_sat_app, andb_true_iff, IH. split.
    + intros [H1 H2] y [<-|Hy]; auto.
    + intros H. split; auto.
Qed.

Lemma zzmem_In p l : zzmem p l = true <-> In p l.
Proof.
  unfold zzmem. rewrite existsb_exists. split.
  - intros [q [Hq E]]. apply zz_eqb_eq in E. now subst.
  - intros H. exists p. split; auto. apply zz_eqb_eq. reflexivity.
Qed.

Lemma lin_eval_map {A} s (f : A -> lvar * Z) l :
  lin_eval s (map f l) = zsum (map (fun x => snd (f x) * b2z (s (fst (f x)))) l).
Proof. unfold lin_eval. now rewrite map_map. Qed.

Lemma lin_eval_app s a b : lin_eval s (a ++ b) = lin_eval s a + lin_eval s b.
Proof. unfold lin_eval. rewrite map_app. apply zsum_app_ilp. Qed.

Lemma b2z_range b : 0 <= b2z b <= 1.
Proof. destruct b; simpl; lia. Qed.

(* ------------------------------------------------------------------ pinning rows *)
Lemma in_pin_entries I c a one :
  In (c, a, one) (pin_entries I) <->
  exists g nd, In g (i_agents I) /\ In nd (i_nodes I) /\ hosting_cost g (n_id nd) = 0 /\ c = n_id nd /\
    if one then a = g_id g else exists o, In o (i_agents I) /\ g_id o <> g_id g /\ a = g_id o.
Proof.
  unfold pin_entries. rewrite in_flat_map. split.
  - intros [g [Hg H]]. apply in_flat_map in H as [nd [Hn H]].
    destruct (hosting_cost g (n_id nd) =? 0) eqn:E; [|contradiction].
    apply Z.eqb_eq in E. destruct H as [H|H].
    + inversion H; subst. exists g, nd. repeat split; auto.
    + apply in_map_iff in H as [o [Ho Hin]]. inversion Ho; subst.
      apply filter_In in Hin as [Hin Hne]. exists g, nd. repeat split; auto.
      exists o. repeat split; auto. lia.
  - intros (g & nd & Hg & Hn & E & -> & H). exists g. split; auto.
    apply in_flat_map. exists nd. split; auto. rewrite (proj2 (Z.eqb_eq _ _) E).
    destruct one.
    + subst. left; reflexivity.
    + destruct H as (o & Ho & Hne & ->). right. apply in_map_iff. exists o. split; auto.
      apply filter_In. split; auto. lia.
Qed.

Lemma in_fixed1 I c a : In (c, a) (fixed1 I) <-> In (c, a, true) (pin_entries I).
Proof.
  unfold fixed1. rewrite in_map_iff. split.
  - intros [[[c' a'] o] [E H]]. simpl in E. inversion E; subst.
    apply filter_In in H as [H Ho]. simpl in Ho. now subst o.
  - intros H. exists (c, a, true). split; auto. apply filter_In. split; auto.
Qed.

Lemma in_fixed0 I c a : In (c, a) (fixed0 I) <-> In (c, a, false) (pin_entries I).
Proof.
  unfold fixed0. rewrite in_map_iff. split.
  - intros [[[c' a'] o] [E H]]. simpl in E. inversion E; subst.
    apply filter_In in H as [H Ho]. simpl in Ho. destruct o; [discriminate|exact H].
  - intros H. exists (c, a, false). split; auto. apply filter_In. split; auto.
Qed.

Lemma pin_row_sat s c a one : row_sat s (pin_row (c, a, one)) = true <-> s (VX c a) = one.
Proof.
  unfold row_sat, pin_row, lin_eval; simpl.
  destruct (s (VX c a)), one; simpl; split; intros; try reflexivity; try discriminate.
Qed.

Lemma pin_rows_sat I s :
  rows_sat s (map pin_row (pin_entries I)) = true <->
  forall c a one, In (c, a, one) (pin_entries I) -> s (VX c a) = one.
Proof.
  rewrite rows_sat_forall. split.
  - intros H c a one Hin. apply pin_row_sat. apply H. apply in_map_iff. eexists; split; eauto.
  - intros H r Hr. apply in_map_iff in Hr as [[[c a] one] [<- Hin]]. apply pin_row_sat. auto.
Qed.

(* ------------------------------------------------------------------ linearisation rows *)
Lemma beta_rows_spec f0 f1 s c1 a1 c2 a2 second :
  (forall c a, In (c, a) f0 -> s (VX c a) = false) ->
  (forall c a, In (c, a) f1 -> s (VX c a) = true) ->
  (rows_sat s (beta_rows f0 f1 ((c1, a1, c2, a2), second)) = true <->
   s (VB c1 a1 c2 a2) = s (VX c1 a1) && s (VX c2 a2)).
Proof.
  intros H0 H1. unfold beta_rows.
  destruct (zzmem (c1, a1) f0) eqn:E1.
  { apply zzmem_In in E1. rewrite (H0 _ _ E1). simpl.
    unfold rows_sat, row_sat, lin_eval; simpl. destruct (s (VB c1 a1 c2 a2)); simpl; split; congruence. }
  destruct (zzmem (c2, a2) f0) eqn:E2.
  { apply zzmem_In in E2. rewrite (H0 _ _ E2). simpl. rewrite andb_false_r.
    unfold rows_sat, row_sat, lin_eval; simpl. destruct (s (VB c1 a1 c2 a2)); simpl; split; congruence. }
  simpl orb. cbv iota.
  destruct (zzmem (c1, a1) f1) eqn:E3.
  { apply zzmem_In in E3. rewrite (H1 _ _ E3). simpl.
    unfold rows_sat, row_sat, lin_eval; simpl.
    destruct (s (VB c1 a1 c2 a2)), (s (VX c2 a2)); simpl; split; congruence. }
  destruct (zzmem (c2, a2) f1) eqn:E4.
  { apply zzmem_In in E4. rewrite (H1 _ _ E4). rewrite andb_true_r.
    unfold rows_sat, row_sat, lin_eval; simpl.
    destruct (s (VB c1 a1 c2 a2)), (s (VX c1 a1)); simpl; split; congruence. }
  destruct second; unfold rows_sat, row_sat, lin_eval; simpl;
    destruct (s (VB c1 a1 c2 a2)), (s (VX c1 a1)), (s (VX c2 a2)); simpl; split; congruence.
Qed.

Definition pins_hold (I : inst) (s : assignment) : Prop :=
  (forall c a, In (c, a) (fixed0 I) -> s (VX c a) = false) /\
  (forall c a, In (c, a) (fixed1 I) -> s (VX c a) = true).

Lemma pin_rows_pins_hold I s :
  rows_sat s (map pin_row (pin_entries I)) = true -> pins_hold I s.
Proof.
  intros H. rewrite pin_rows_sat in H. split; intros c a Hin.
  - apply in_fixed0 in Hin. auto.
  - apply in_fixed1 in Hin. auto.
Qed.

Definition key_product (s : assignment) (k : key) : Prop :=
  let '(c1, a1, c2, a2) := k in s (VB c1 a1 c2 a2) = s (VX c1 a1) && s (VX c2 a2).

Lemma beta_part_sat G s : pins_hold (g_inst G) s ->
  (rows_sat s (flat_map (beta_rows (fixed0 (g_inst G)) (fixed1 (g_inst G))) (beta_keys G)) = true <->
   forall kb, In kb (beta_keys G) -> key_product s (fst kb)).
Proof.
  intros [H0 H1]. rewrite rows_sat_flat_map. split; intros H kb Hkb; specialize (H kb Hkb);
    destruct kb as [[[[c1 a1] c2] a2] second]; simpl fst; unfold key_product;
    eapply beta_rows_spec; eauto.
Qed.

Lemma oilp_rows_split G s :
  rows_sat s (oilp_rows G) = true <->
  rows_sat s (map pin_row (pin_entries (g_inst G))) = true /\
  rows_sat s (flat_map (beta_rows (fixed0 (g_inst G)) (fixed1 (g_inst G))) (beta_keys G)) = true /\
  rows_sat s (map (cap_row (g_inst G)) (i_agents (g_inst G))) = true /\
  rows_sat s (map (hosted_row (g_inst G)) (i_nodes (g_inst G))) = true.
Proof. unfold oilp_rows. rewrite !rows_sat_app, !andb_true_iff. tauto. Qed.

(* (1) the rows force each beta to the product of its two x variables *)
Lemma oilp_rows_force_product_l G s :
  rows_sat s (oilp_rows G) = true ->
  forall kb, In kb (beta_keys G) -> key_product s (fst kb).
Proof.
  intros H. apply oilp_rows_split in H as (Hp & Hb & _ & _).
  apply beta_part_sat; auto. apply pin_rows_pins_hold; auto.
Qed.

(* ------------------------------------------------------------------ "hosted once" rows *)
Lemma zsum_b2z_zero {A} (f : A -> bool) l :
  zsum (map (fun x => b2z (f x)) l) = 0 <-> forall x, In x l -> f x = false.
Proof.
  induction l as [|x l IH]; simpl.
  - split; auto. intros _ x [].
  - assert (0 <= zsum (map (fun x => b2z (f x)) l)).
    { clear. induction l as [|y l IHl]; simpl; [lia|]. pose proof (b2z_range (f y)). lia. }
    pose proof (b2z_range (f x)). split.
    + intros E y [<-|Hy].
      * destruct (f x); [cbn [b2z] in *; lia|reflexivity].
      * apply IH; auto. lia.
    + intros Hall. rewrite (Hall x (or_introl eq_refl)). cbn [b2z]. rewrite Z.add_0_l.
      apply IH. intros y Hy. apply Hall. now right.
Qed.

Lemma hosted_sum_spec (X : Z -> Z -> lvar) l s c : NoDup (map g_id l) ->
  (zsum (map (fun g => b2z (s (X c (g_id g)))) l) = 1 <->
   exists g, In g l /\ forall g', In g' l -> s (X c (g_id g')) = (g_id g =? g_id g')).
Proof.
  induction l as [|g0 l IH]; intros Hnd; cbn [map zsum].
  - split; [lia|]. intros [g [[] _]].
  - inversion Hnd as [|? ? Hnin Hnd']; subst. specialize (IH Hnd').
    assert (Hne : forall g, In g l -> g_id g <> g_id g0).
    { intros g Hg E. apply Hnin. rewrite <- E. now apply in_map. }
    split.
    + intros E. destruct (s (X c (g_id g0))) eqn:E0; cbn [b2z] in E.
      * assert (Ez : zsum (map (fun g => b2z (s (X c (g_id g)))) l) = 0) by lia.
        rewrite (zsum_b2z_zero (fun g => s (X c (g_id g)))) in Ez.
        exists g0. split; [now left|]. intros g' [<-|Hg'].
        -- rewrite E0. symmetry. apply Z.eqb_refl.
        -- rewrite (Ez g' Hg'). symmetry. apply Z.eqb_neq. intros E'. apply (Hne g' Hg'). auto.
      * assert (E1 : zsum (map (fun g => b2z (s (X c (g_id g)))) l) = 1) by lia.
        apply IH in E1 as [g [Hg Hind]]. exists g. split; [now right|].
        intros g' [<-|Hg']; auto. rewrite E0. symmetry. apply Z.eqb_neq. apply Hne; auto.
    + intros [g [[<-|Hg] Hind]].
      * rewrite (Hind g0 (or_introl eq_refl)), Z.eqb_refl. cbn [b2z].
        assert (Ez : zsum (map (fun g => b2z (s (X c (g_id g)))) l) = 0).
        { apply (zsum_b2z_zero (fun g => s (X c (g_id g)))). intros g' Hg'.
          rewrite (Hind g' (or_intror Hg')). apply Z.eqb_neq. intros E. apply (Hne g' Hg'). auto. }
        lia.
      * rewrite (Hind g0 (or_introl eq_refl)).
        assert (g_id g =? g_id g0 = false) as -> by (apply Z.eqb_neq; apply Hne; auto).
        cbn [b2z]. assert (zsum (map (fun g => b2z (s (X c (g_id g)))) l) = 1); [|lia].
        apply IH. exists g. split; auto. intros g' Hg'. apply Hind. now right.
Qed.

Lemma find_of_indicator (X : Z -> Z -> lvar) l s c g :
  In g l -> (forall g', In g' l -> s (X c (g_id g')) = (g_id g =? g_id g')) ->
  match find (fun g => s (X c (g_id g))) l with Some g' => g_id g' | None => -1 end = g_id g.
Proof.
  intros Hg Hind. destruct (find (fun g => s (X c (g_id g))) l) as [g'|] eqn:E.
  - apply find_some in E as [Hg' E]. rewrite (Hind g' Hg') in E. lia.
  - pose proof (find_none _ _ E g Hg) as H. simpl in H. rewrite (Hind g Hg), Z.eqb_refl in H.
    discriminate.
Qed.

Lemma hosted_row_sat I s nd : NoDup (agent_ids I) ->
  (row_sat s (hosted_row I nd) = true <->
   exists g, In g (i_agents I) /\ decode_agent I s (n_id nd) = g_id g /\
     forall g', In g' (i_agents I) -> s (VX (n_id nd) (g_id g')) = (g_id g =? g_id g')).
Proof.
  intros Hnd. unfold row_sat, hosted_row. cbn [lr_sense lr_rhs lr_coefs]. rewrite lin_eval_map.
  cbn [fst snd]. change (0 =? 0) with true. cbv iota. rewrite Z.eqb_eq.
  rewrite (map_ext _ (fun g => b2z (s (VX (n_id nd) (g_id g))))) by (intros; apply Z.mul_1_l).
  rewrite (hosted_sum_spec VX (i_agents I) s (n_id nd) Hnd). split.
  - intros [g [Hg Hind]]. exists g. repeat split; auto. unfold decode_agent.
    apply (find_of_indicator VX); auto.
  - intros [g [Hg [_ Hind]]]. exists g. split; auto.
Qed.

(* ------------------------------------------------------------------ decoding *)
Lemma dget_map_nodes (f : Z -> Z) nodes nd :
  In nd nodes -> dget (map (fun nd => (n_id nd, f (n_id nd))) nodes) (n_id nd) = f (n_id nd).
Proof.
  unfold dget, zlookup. induction nodes as [|n0 nodes IH]; intros H; [destruct H|]. simpl.
  destruct (n_id nd =? n_id n0) eqn:E.
  - apply Z.eqb_eq in E. now rewrite E.
  - destruct H as [->|H]; [rewrite Z.eqb_refl in E; discriminate|]. now apply IH.
Qed.

Lemma dget_decode G s nd : In nd (i_nodes (g_inst G)) ->
  dget (oilp_decode G s) (n_id nd) = decode_agent (g_inst G) s (n_id nd).
Proof. intros H. unfold oilp_decode. now apply (dget_map_nodes (decode_agent (g_inst G) s)). Qed.

Definition valid_dist (I : inst) (D : list (Z * Z)) : Prop :=
  forall nd, In nd (i_nodes I) -> exists g, In g (i_agents I) /\ dget D (n_id nd) = g_id g.
Definition x_indicator (I : inst) (s : assignment) (D : list (Z * Z)) : Prop :=
  forall nd g, In nd (i_nodes I) -> In g (i_agents I) ->
    s (VX (n_id nd) (g_id g)) = (dget D (n_id nd) =? g_id g).
Definition betas_products (G : ginst) (s : assignment) : Prop :=
  forall kb, In kb (beta_keys G) -> key_product s (fst kb).

Lemma hosted_part_sat I s D : NoDup (agent_ids I) ->
  (forall nd, In nd (i_nodes I) -> dget D (n_id nd) = decode_agent I s (n_id nd)) ->
  (rows_sat s (map (hosted_row I) (i_nodes I)) = true <-> valid_dist I D /\ x_indicator I s D).
Proof.
  intros Hnd HD. rewrite rows_sat_forall. split.
  - intros H. assert (H' : forall nd, In nd (i_nodes I) -> row_sat s (hosted_row I nd) = true).
    { intros nd Hn. apply H. now apply in_map. }
    split.
    + intros nd Hn. apply (hosted_row_sat I s nd Hnd) in H'; auto.
      destruct H' as [g [Hg [E _]]]. exists g. split; auto. rewrite HD; auto.
    + intros nd g' Hn Hg'. apply (hosted_row_sat I s nd Hnd) in H'; auto.
      destruct H' as [g [Hg [E Hind]]]. rewrite HD, E; auto.
  - intros [Hv Hi] r Hr. apply in_map_iff in Hr as [nd [<- Hn]].
    apply (hosted_row_sat I s nd Hnd). destruct (Hv nd Hn) as [g [Hg E]].
    exists g. repeat split; auto.
    + rewrite <- HD; auto.
    + intros g' Hg'. rewrite (Hi nd g' Hn Hg'), E. reflexivity.
Qed.

(* ------------------------------------------------------------------ capacity rows *)
Lemma cap_part_sat I s D : x_indicator I s D ->
  (rows_sat s (map (cap_row I) (i_agents I)) = true <-> cap_ok I D = true).
Proof.
  intros Hi. unfold cap_ok. rewrite rows_sat_forall, forallb_forall.
  assert (E : forall g, In g (i_agents I) ->
              lin_eval s (lr_coefs (cap_row I g)) = hosted_on I D (g_id g)).
  { intros g Hg. unfold cap_row, hosted_on. simpl. rewrite lin_eval_map. simpl. f_equal.
    apply map_ext_in. intros nd Hn. rewrite (Hi nd g Hn Hg).
    destruct (dget D (n_id nd) =? g_id g); simpl; lia. }
  split.
  - intros H g Hg. specialize (H (cap_row I g) (in_map _ _ _ Hg)).
    unfold row_sat in H. rewrite (E g Hg) in H. simpl in H. exact H.
  - intros H r Hr. apply in_map_iff in Hr as [g [<- Hg]]. unfold row_sat. rewrite (E g Hg). simpl.
    apply H; auto.
Qed.

(* ------------------------------------------------------------------ pinning rows vs pin_ok *)
Lemma pin_part_sat I s D : valid_dist I D -> x_indicator I s D ->
  (rows_sat s (map pin_row (pin_entries I)) = true <-> pin_ok I D = true).
Proof.
  intros Hv Hi. rewrite pin_rows_sat. unfold pin_ok. rewrite forallb_forall. split.
  - intros H g Hg. apply forallb_forall. intros nd Hn.
    destruct (hosting_cost g (n_id nd) =? 0) eqn:E; auto. apply Z.eqb_eq in E.
    rewrite <- (Hi nd g Hn Hg). apply H. apply in_pin_entries. exists g, nd. repeat split; auto.
  - intros H c a one Hin. apply in_pin_entries in Hin as (g & nd & Hg & Hn & E & -> & Hone).
    specialize (H g Hg). rewrite forallb_forall in H. specialize (H nd Hn).
    rewrite (proj2 (Z.eqb_eq _ _) E) in H. apply Z.eqb_eq in H.
    destruct one.
    + subst a. rewrite (Hi nd g Hn Hg). now apply Z.eqb_eq.
    + destruct Hone as (o & Ho & Hne & ->). rewrite (Hi nd o Hn Ho), H. apply Z.eqb_neq. auto.
Qed.

(* (2) a 0/1 vector satisfies all rows iff its x part is the indicator of a distribution that
   hosts every computation on a declared agent and meets the hard rules, and the betas are the
   products *)
Lemma oilp_rows_feasible_iff_l G s : NoDup (agent_ids (g_inst G)) ->
  (rows_sat s (oilp_rows G) = true <->
   valid_dist (g_inst G) (oilp_decode G s) /\ x_indicator (g_inst G) s (oilp_decode G s) /\
   oilp_feasible G (oilp_decode G s) = true /\ betas_products G s).
Proof.
  intros Hnd. rewrite oilp_rows_split. unfold oilp_feasible, betas_products. rewrite andb_true_iff.
  pose proof (hosted_part_sat (g_inst G) s (oilp_decode G s) Hnd (fun nd H => dget_decode G s nd H)) as Hh.
  split.
  - intros (Hp & Hb & Hc & Hho). apply Hh in Hho as [Hv Hi]. repeat split; auto.
    + apply (cap_part_sat _ s); auto.
    + apply (pin_part_sat _ s); auto.
    + apply beta_part_sat; auto. apply pin_rows_pins_hold; auto.
  - intros (Hv & Hi & [Hc Hp] & Hb).
    assert (Hpr : rows_sat s (map pin_row (pin_entries (g_inst G))) = true)
      by (apply (pin_part_sat _ s (oilp_decode G s)); auto).
    repeat split; auto.
    + apply beta_part_sat; auto. apply pin_rows_pins_hold; auto.
    + apply (cap_part_sat _ s (oilp_decode G s)); auto.
    + apply Hh. split; auto.
Qed.

(* the indicator (with product betas) of a distribution that meets the hard rules satisfies
   the rows, and decodes back to that distribution *)
Lemma decode_encode I D nd : valid_dist I D -> In nd (i_nodes I) ->
  decode_agent I (oilp_encode D) (n_id nd) = dget D (n_id nd).
Proof.
  intros Hv Hn. destruct (Hv nd Hn) as [g [Hg E]]. unfold decode_agent. rewrite E.
  apply (find_of_indicator VX); auto. intros g' Hg'. simpl. now rewrite E.
Qed.

Lemma oilp_encode_sat_l G D : NoDup (agent_ids (g_inst G)) ->
  valid_dist (g_inst G) D -> oilp_feasible G D = true ->
  rows_sat (oilp_encode D) (oilp_rows G) = true.
Proof.
  intros Hnd Hv Hf. unfold oilp_feasible in Hf. apply andb_true_iff in Hf as [Hc Hp].
  assert (Hi : x_indicator (g_inst G) (oilp_encode D) D) by (intros nd g _ _; reflexivity).
  apply oilp_rows_split.
  assert (Hpr : rows_sat (oilp_encode D) (map pin_row (pin_entries (g_inst G))) = true)
    by (apply (pin_part_sat _ _ D); auto).
  repeat split; auto.
  - apply beta_part_sat; [apply pin_rows_pins_hold; auto|].
    intros [[[[c1 a1] c2] a2] second] _. reflexivity.
  - apply (cap_part_sat _ _ D); auto.
  - apply (hosted_part_sat _ _ D); auto. intros nd Hn. symmetry. now apply decode_encode.
Qed.
