(* P_Gen.v -- lemmas and proofs about M_Gen (C30) *)
From PyDcop Require Import Base P_Base M_AgentDef M_Gen.
From Coq Require Import Permutation ZifyBool DecimalString DecimalN DecimalPos Nnat FinFun.

(* ================= scenario ================= *)
(* contract of random.sample(population, k), event after event: k distinct elements of the
   current population *)
Fixpoint samples_ok (pool : list string) (k : Z) (n : nat) (samples : list (list string)) : Prop :=
  match n with
  | O => True
  | S n' =>
      match samples with
      | [] => False
      | s :: rest =>
          NoDup s /\ Z.of_nat (List.length s) = k /\ incl s pool /\
          samples_ok (filter (fun a => negb (smem a s)) pool) k n' rest
      end
  end.

(* the removal lists of the action events, in order *)
Definition removals (evs : list event) : list (list string) :=
  flat_map (fun e => match e with EActions _ r => [r] | EDelay _ _ => [] end) evs.

Definition disjoint (r1 r2 : list string) : Prop := forall a, In a r1 -> ~ In a r2.

Lemma In_sdedup x l : In x (sdedup l) <-> In x l.
Proof.
  induction l as [|y l IH]; simpl; [tauto|].
  destruct (smem y l) eqn:E.
  - rewrite IH. split; auto. intros [->|H]; auto. now apply smem_In.
  - simpl. rewrite IH. tauto.
Qed.

Lemma removals_app a b : removals (a ++ b) = removals a ++ removals b.
Proof. unfold removals. now rewrite flat_map_app. Qed.

Lemma scenario_loop_spec n : forall i evts k d pool samples evs,
  scenario_loop n i evts k d pool samples = GOk evs ->
  samples_ok pool k n samples ->
  removals evs = firstn n samples /\ List.length (removals evs) = n /\
  Forall (fun r => NoDup r /\ Z.of_nat (List.length r) = k /\ incl r pool) (removals evs) /\
  ForallOrdPairs disjoint (removals evs).
Proof.
  induction n as [|n IH]; cbn [scenario_loop samples_ok]; intros i evts k d pool samples evs H Hs.
  - inversion H; subst. simpl. repeat split; constructor.
  - destruct ((k <? 0) || (Z.of_nat (List.length pool) <? k)); [discriminate|].
    destruct samples as [|s rest]; [contradiction|].
    destruct Hs as (Hnd & Hlen & Hincl & Hrest).
    destruct (scenario_loop n (S i) evts k d _ rest) as [evs'|] eqn:E; [|discriminate].
    inversion H; subst evs; clear H.
    destruct (IH _ _ _ _ _ _ _ E Hrest) as (A & B & C & D).
    assert (Hr : forall id mid, (mid = [] \/ exists a b, mid = [EDelay a b]) ->
                 removals (EActions id s :: mid ++ evs') = s :: removals evs').
    { intros id mid [->|[a [b ->]]]; reflexivity. }
    rewrite Hr by (destruct evts as [|m]; [right; eauto
                   | destruct (Nat.eqb i m); [left; reflexivity | right; eauto]]).
    split; [simpl; now rewrite A|]. split; [simpl; now rewrite B|]. split.
    + constructor; [auto|]. eapply Forall_impl; [|exact C].
      intros r (H1 & H2 & H3). repeat split; auto.
      intros a Ha. apply H3 in Ha. apply filter_In in Ha. tauto.
    + constructor; auto. rewrite Forall_forall. intros r Hr' a Ha Ha'.
      rewrite Forall_forall in C. destruct (C r Hr') as (_ & _ & H3).
      apply H3 in Ha'. apply filter_In in Ha' as [_ Hb].
      apply smem_In in Ha. rewrite Ha in Hb. discriminate.
Qed.

Lemma scenario_removals_distinct_fresh_l evts actions delay i0 e0 agents samples evs :
  generate_scenario evts actions delay i0 e0 agents samples = GOk evs ->
  samples_ok (sdedup agents) actions (Z.to_nat evts) samples ->
  List.length (removals evs) = Z.to_nat evts /\
  removals evs = firstn (Z.to_nat evts) samples /\
  Forall (fun r => NoDup r /\ Z.of_nat (List.length r) = actions /\ incl r agents) (removals evs) /\
  ForallOrdPairs disjoint (removals evs).
Proof.
  unfold generate_scenario.
  destruct (scenario_loop _ _ _ _ _ _ _) as [evs'|] eqn:E; [|discriminate].
  intros H Hs. inversion H; subst evs; clear H.
  destruct (scenario_loop_spec _ _ _ _ _ _ _ _ E Hs) as (A & B & C & D).
  assert (Hr : removals (EDelay "init" i0 :: evs' ++ [EDelay "end" e0]) = removals evs').
  { change (EDelay "init" i0 :: ?l) with ([EDelay "init" i0] ++ l).
    rewrite !removals_app. simpl. now rewrite app_nil_r. }
  rewrite Hr. repeat split; auto.
  eapply Forall_impl; [|exact C]. intros r (H1 & H2 & H3). repeat split; auto.
  intros a Ha. apply H3 in Ha. now rewrite In_sdedup in Ha.
Qed.

(* the model refuses (ValueError) exactly when an event asks for more agents than remain *)
Lemma scenario_error_iff n : forall i evts k d pool samples,
  samples_ok pool k n samples \/ True ->
  (exists evs, scenario_loop n i evts k d pool samples = GOk evs) ->
  n = O \/ (0 <= k /\ k <= Z.of_nat (List.length pool)).
Proof.
  destruct n as [|n]; simpl; intros; auto. right.
  destruct H0 as [evs H0].
  destruct ((k <? 0) || (Z.of_nat (List.length pool) <? k)) eqn:E; [discriminate|].
  apply orb_false_iff in E as [E1 E2]. lia.
Qed.

(* ================= Ising: the two forms ================= *)
Lemma ising_forms_agree_l value :
  unary_ext value = unary_int value /\ binary_ext value = binary_int value /\
  unary_ext value = [[value; - value]] /\
  binary_ext value = [[value; - value]; [- value; value]].
Proof. repeat split; reflexivity. Qed.

(* ================= graph colouring: tables ================= *)
Lemma length_upd {A} i (v : A) l : List.length (upd i v l) = List.length l.
Proof. revert i; induction l as [|x r IH]; intros [|i]; simpl; auto. Qed.

Lemma nth_upd_same {A} i (v d : A) l : (i < List.length l)%nat -> nth i (upd i v l) d = v.
Proof.
  revert i; induction l as [|x r IH]; intros [|i]; simpl; intros H; try lia; auto.
  apply IH. lia.
Qed.

Lemma nth_upd_other {A} i j (v d : A) l : i <> j -> nth j (upd i v l) d = nth j l d.
Proof.
  revert i j; induction l as [|x r IH]; intros [|i] [|j]; simpl; intros H; auto; try lia.
Qed.

Definition square (k : nat) (m : list (list Z)) : Prop :=
  List.length m = k /\ forall i, (i < k)%nat -> List.length (nth i m []) = k.

Lemma square_upd2 k a b v m : square k m -> square k (upd2 a b v m).
Proof.
  intros [H1 H2]. unfold upd2. split; [now rewrite length_upd|].
  intros i Hi. destruct (Nat.eq_dec a i) as [->|Hne].
  - rewrite nth_upd_same by lia. rewrite length_upd. auto.
  - rewrite nth_upd_other by auto. auto.
Qed.

Lemma cell_upd2 k a b v m i j : square k m -> (a < k)%nat -> (b < k)%nat ->
  cell (upd2 a b v m) i j = if Nat.eqb i a && Nat.eqb j b then v else cell m i j.
Proof.
  intros [H1 H2] Ha Hb. unfold cell, upd2.
  destruct (Nat.eqb i a) eqn:Ei; simpl.
  - apply Nat.eqb_eq in Ei; subst i. rewrite nth_upd_same by lia.
    destruct (Nat.eqb j b) eqn:Ej.
    + apply Nat.eqb_eq in Ej; subst j. apply nth_upd_same. rewrite H2; auto.
    + apply Nat.eqb_neq in Ej. apply nth_upd_other. auto.
  - apply Nat.eqb_neq in Ei. rewrite nth_upd_other by auto. reflexivity.
Qed.

Lemma nth_repeat_lt {A} (x d : A) k i : (i < k)%nat -> nth i (repeat x k) d = x.
Proof. revert i; induction k; intros [|i] H; simpl; auto; try lia. apply IHk. lia. Qed.

Lemma square_zeros k : square k (zeros2 k).
Proof.
  unfold zeros2. split; [apply repeat_length|]. intros i Hi.
  rewrite nth_repeat_lt by auto. apply repeat_length.
Qed.

Lemma cell_zeros k i j : (i < k)%nat -> (j < k)%nat -> cell (zeros2 k) i j = 0.
Proof. intros Hi Hj. unfold cell, zeros2. rewrite nth_repeat_lt by auto. now apply nth_repeat_lt. Qed.

Lemma ext_hard_prefix k n : (n <= k)%nat ->
  square k (fold_left (fun m i => upd2 i i 1000 m) (seq 0 n) (zeros2 k)) /\
  forall i j, (i < k)%nat -> (j < k)%nat ->
    cell (fold_left (fun m i => upd2 i i 1000 m) (seq 0 n) (zeros2 k)) i j
    = if Nat.eqb i j && Nat.ltb i n then 1000 else 0.
Proof.
  induction n as [|n IH]; intros Hn.
  - simpl. split; [apply square_zeros|]. intros i j Hi Hj. rewrite andb_false_r. now apply cell_zeros.
  - rewrite seq_S, fold_left_app. cbn [fold_left Nat.add]. destruct (IH ltac:(lia)) as [Hs Hc].
    split; [now apply square_upd2|]. intros i j Hi Hj.
    rewrite (cell_upd2 k) by (auto; lia). rewrite Hc by auto.
    destruct (Nat.eqb_spec i n) as [E1|E1], (Nat.eqb_spec j n) as [E2|E2],
             (Nat.eqb_spec i j) as [E3|E3]; cbn [andb]; subst; try lia; try reflexivity.
    + assert (Hlt : Nat.ltb n (S n) = true) by (apply Nat.ltb_lt; lia). now rewrite Hlt.
    + destruct (Nat.ltb_spec j n), (Nat.ltb_spec j (S n)); auto; lia.
Qed.

Lemma nth_map_seq {A} (g : nat -> A) k i d : (i < k)%nat -> nth i (map g (seq 0 k)) d = g i.
Proof.
  intros H. rewrite (nth_indep _ d (g 0%nat)) by (rewrite map_length, seq_length; lia).
  rewrite (map_nth g (seq 0 k) 0%nat i). now rewrite seq_nth by lia.
Qed.

Lemma cell_tabulate2 k f i j : (i < k)%nat -> (j < k)%nat -> cell (tabulate2 k f) i j = f i j.
Proof.
  intros Hi Hj. unfold cell, tabulate2. rewrite (nth_map_seq _ k i []) by auto.
  now rewrite nth_map_seq by auto.
Qed.

(* both forms of the hard constraint: 1000 on equal colours, 0 otherwise *)
Lemma gc_hard_value_l k i j : (i < k)%nat -> (j < k)%nat ->
  cell (ext_hard k) i j = (if Nat.eqb i j then 1000 else 0) /\
  cell (int_hard k) i j = (if Nat.eqb i j then 1000 else 0).
Proof.
  intros Hi Hj. split.
  - unfold ext_hard. destruct (ext_hard_prefix k k (le_n k)) as [_ Hc]. rewrite Hc by auto.
    assert (Hlt : Nat.ltb i k = true) by now apply Nat.ltb_lt. now rewrite Hlt, andb_true_r.
  - unfold int_hard. now apply cell_tabulate2.
Qed.

(* ----- constraint names are distinct ----- *)
Lemma str_of_N_inj a b : str_of_N a = str_of_N b -> a = b.
Proof.
  unfold str_of_N. intros H.
  assert (Hn : forall n, N.to_uint n <> Decimal.Nil).
  { intros [|p]; simpl; [discriminate|apply DecimalPos.Unsigned.to_uint_nonnil]. }
  apply (f_equal NilZero.uint_of_string) in H. rewrite !NilZero.usu in H by apply Hn.
  inversion H as [H']. rewrite <- (DecimalN.Unsigned.of_to a), <- (DecimalN.Unsigned.of_to b).
  now rewrite H'.
Qed.

Lemma cname_inj i j : cname i = cname j -> i = j.
Proof.
  unfold cname, str_of_nat. simpl. intros H. inversion H as [H'].
  apply str_of_N_inj in H'. now apply Nat2N.inj.
Qed.

Lemma dict_set_fresh {V} k (v : V) l :
  ~ In k (map fst l) -> dict_set String.eqb k v l = l ++ [(k, v)].
Proof.
  induction l as [|[k' v'] r IH]; simpl; intros H; auto.
  destruct (String.eqb k k') eqn:E.
  - apply String.eqb_eq in E. subst. exfalso. auto.
  - rewrite IH by tauto. reflexivity.
Qed.

Definition vn (vars : list (Z * string)) (u : Z) : string :=
  match zlookup u vars with Some s => s | None => EmptyString end.

Definition known (vars : list (Z * string)) (edges : list (Z * Z)) : Prop :=
  forall u v, In (u, v) edges -> zlookup u vars <> None /\ zlookup v vars <> None.

Lemma enumerate_from_fst {A} i (l : list A) :
  map fst (enumerate_from i l) = seq i (List.length l).
Proof. revert i; induction l; simpl; intros; auto. now rewrite IHl. Qed.

(* generate_hard_constraints: constraint number i is for edge number i, named c<i>, over the
   variables of the two ends, with the hard table *)
Definition hard_spec (k : nat) (vars : list (Z * string)) (intentional : bool) (i : nat)
  (edges : list (Z * Z)) : list (string * constraint) :=
  map (fun p => (cname (fst p),
                 mkC (cname (fst p)) [vn vars (fst (snd p)); vn vars (snd (snd p))] intentional
                     (if intentional then int_hard k else ext_hard k)))
      (enumerate_from i edges).

Lemma hard_loop_closed k vars intentional edges : forall i acc,
  known vars edges ->
  (forall j, (i <= j)%nat -> ~ In (cname j) (map fst acc)) ->
  hard_loop k vars intentional i edges acc = GOk (acc ++ hard_spec k vars intentional i edges).
Proof.
  induction edges as [|[u v] r IH]; simpl; intros i acc Hk Hf.
  - now rewrite app_nil_r.
  - destruct (Hk u v (or_introl eq_refl)) as [Hu Hv]. unfold vn.
    destruct (zlookup u vars) as [v1|] eqn:E1; [|congruence].
    destruct (zlookup v vars) as [v2|] eqn:E2; [|congruence].
    rewrite dict_set_fresh by (apply Hf; lia). rewrite IH.
    + rewrite <- app_assoc. simpl. unfold hard_spec, vn. simpl. now rewrite E1, E2.
    + intros u' v' H'. apply Hk. simpl; auto.
    + intros j Hj. rewrite map_app, in_app_iff. simpl. intros [H'|[H'|[]]].
      * apply (Hf j); auto. lia.
      * apply cname_inj in H'. lia.
Qed.

Lemma gc_one_constraint_per_edge_hard k vars intentional edges :
  known vars edges ->
  hard_loop k vars intentional 0 edges [] = GOk (hard_spec k vars intentional 0 edges) /\
  List.length (hard_spec k vars intentional 0 edges) = List.length edges /\
  NoDup (map fst (hard_spec k vars intentional 0 edges)).
Proof.
  intros Hk. split; [|split].
  - rewrite hard_loop_closed; auto.
  - unfold hard_spec. rewrite map_length. rewrite <- (map_length fst), enumerate_from_fst.
    apply seq_length.
  - unfold hard_spec. rewrite map_map. simpl.
    rewrite <- (map_map fst cname), enumerate_from_fst.
    apply FinFun.Injective_map_NoDup; [intros a b; apply cname_inj | apply seq_NoDup].
Qed.

(* ----- soft constraints ----- *)
Fixpoint soft_spec (k : nat) (vars : list (Z * string)) (i : nat) (edges : list (Z * Z))
  (rnd : list Z) : option (list (string * constraint)) :=
  match edges with
  | [] => Some []
  | (u, v) :: r =>
      match take_rows k k rnd with
      | None => None
      | Some (m, rest) =>
          match soft_spec k vars (S i) r rest with
          | None => None
          | Some l => Some ((cname i, mkC (cname i) [vn vars u; vn vars v] false m) :: l)
          end
      end
  end.

Lemma soft_loop_closed k vars edges : forall i rnd acc,
  known vars edges ->
  (forall j, (i <= j)%nat -> ~ In (cname j) (map fst acc)) ->
  soft_loop k vars i edges rnd acc
  = match soft_spec k vars i edges rnd with Some l => GOk (acc ++ l) | None => GErr EOracle end.
Proof.
  induction edges as [|[u v] r IH]; simpl; intros i rnd acc Hk Hf.
  - now rewrite app_nil_r.
  - destruct (Hk u v (or_introl eq_refl)) as [Hu Hv]. unfold vn.
    destruct (zlookup u vars) as [v1|] eqn:E1; [|congruence].
    destruct (zlookup v vars) as [v2|] eqn:E2; [|congruence].
    destruct (take_rows k k rnd) as [[m rest]|]; [|reflexivity].
    rewrite dict_set_fresh by (apply Hf; lia). rewrite IH.
    + destruct (soft_spec k vars (S i) r rest); [|reflexivity].
      rewrite <- app_assoc. reflexivity.
    + intros u' v' H'. apply Hk. simpl; auto.
    + intros j Hj. rewrite map_app, in_app_iff. simpl. intros [H'|[H'|[]]].
      * apply (Hf j); auto. lia.
      * apply cname_inj in H'. lia.
Qed.

Lemma take_rows_spec rows k : forall rnd m rest,
  take_rows rows k rnd = Some (m, rest) ->
  List.length m = rows /\ Forall (fun row => List.length row = k /\ incl row rnd) m /\ incl rest rnd.
Proof.
  induction rows as [|n IH]; simpl; intros rnd m rest H.
  - inversion H; subst. repeat split; auto. apply incl_refl.
  - destruct (Nat.ltb (List.length rnd) k) eqn:E; [discriminate|]. apply Nat.ltb_ge in E.
    destruct (take_rows n k (skipn k rnd)) as [[m' rest']|] eqn:Et; [|discriminate].
    inversion H; subst. destruct (IH _ _ _ Et) as (A & B & C).
    assert (Hsk : incl (skipn k rnd) rnd).
    { intros x Hx. rewrite <- (firstn_skipn k rnd). apply in_or_app; auto. }
    split; [simpl; now rewrite A|]. split.
    + constructor.
      * split; [rewrite firstn_length; lia|].
        intros x Hx. rewrite <- (firstn_skipn k rnd). apply in_or_app; auto.
      * eapply Forall_impl; [|exact B]. intros row [H1 H2]. split; auto.
        intros x Hx. apply Hsk. auto.
    + intros x Hx. apply Hsk. auto.
Qed.

Lemma soft_spec_props k vars edges : forall i rnd l,
  soft_spec k vars i edges rnd = Some l ->
  map fst l = map cname (seq i (List.length edges)) /\
  Forall2 (fun e kc => fst kc = c_name (snd kc) /\
                       c_scope (snd kc) = [vn vars (fst e); vn vars (snd e)] /\
                       c_int (snd kc) = false /\
                       List.length (c_table (snd kc)) = k /\
                       Forall (fun row => List.length row = k /\ incl row rnd) (c_table (snd kc)))
          edges l.
Proof.
  induction edges as [|[u v] r IH]; simpl; intros i rnd l H.
  - inversion H; subst. split; [reflexivity|constructor].
  - destruct (take_rows k k rnd) as [[m rest]|] eqn:Et; [|discriminate].
    destruct (soft_spec k vars (S i) r rest) as [l'|] eqn:Es; [|discriminate].
    inversion H; subst. destruct (IH _ _ _ Es) as [A B].
    destruct (take_rows_spec _ _ _ _ _ Et) as (T1 & T2 & T3).
    split; [simpl; now rewrite A|]. constructor.
    + simpl. repeat split; auto.
    + clear -B T3. induction B as [|e kc r' l'' Hh Ht IHB]; constructor; auto.
      destruct Hh as (H1 & H2 & H3 & H4 & H5). repeat split; auto.
      eapply Forall_impl; [|exact H5]. intros row [R1 R2]. split; auto.
      intros x Hx. apply T3. auto.
Qed.

(* ================= Ising: distributions ================= *)
Lemma node_eqb_iff a b : node_eqb a b = true <-> a = b.
Proof.
  destruct a, b; unfold node_eqb; simpl. rewrite andb_true_iff, !Z.eqb_eq.
  split; [intros [-> ->]; auto | intros H; inversion H; auto].
Qed.
Lemma edge_eqb_iff a b : edge_eqb a b = true <-> a = b.
Proof.
  destruct a, b; unfold edge_eqb; simpl. rewrite andb_true_iff, !node_eqb_iff.
  split; [intros [-> ->]; auto | intros H; inversion H; auto].
Qed.
Lemma iname_eqb_iff a b : iname_eqb a b = true <-> a = b.
Proof.
  destruct a, b; simpl; try (split; [discriminate|intros H; inversion H]);
    rewrite ?node_eqb_iff, ?edge_eqb_iff; split; intros H; try (inversion H; subst); auto; now subst.
Qed.
Lemma edge_eqb_false a b : edge_eqb a b = false -> a <> b.
Proof. intros H ->. rewrite (proj2 (edge_eqb_iff b b) eq_refl) in H. discriminate. Qed.
Lemma edge_mem_In e l : edge_mem e l = true <-> In e l.
Proof.
  unfold edge_mem. rewrite existsb_exists. split.
  - intros [y [Hy E]]. apply edge_eqb_iff in E. now subst.
  - intros H. exists e. split; auto. now apply edge_eqb_iff.
Qed.
Lemma edge_mem_false e l : edge_mem e l = false <-> ~ In e l.
Proof. rewrite <- edge_mem_In. destruct (edge_mem e l); split; congruence. Qed.

Definition hosted (m : list (iname * list iname)) : list iname := List.concat (map snd m).

Lemma NoDup_app_intro {A} (a b : list A) :
  NoDup a -> NoDup b -> (forall y, In y a -> In y b -> False) -> NoDup (a ++ b).
Proof.
  induction a as [|x r IH]; simpl; intros Ha Hb Hd; auto.
  inversion Ha; subst. constructor.
  - rewrite in_app_iff. intros [H|H]; [contradiction|]. apply (Hd x); auto.
  - apply IH; auto. intros y Hy Hy'. apply (Hd y); auto.
Qed.
Definition countb (n : iname) (l : list iname) : nat := List.length (filter (iname_eqb n) l).

Lemma countb_app n a b : countb n (a ++ b) = (countb n a + countb n b)%nat.
Proof. unfold countb. now rewrite filter_app, app_length. Qed.

Lemma countb_dict_extend n k l m :
  countb n (hosted (dict_extend k l m)) = (countb n (hosted m) + countb n l)%nat.
Proof.
  induction m as [|[k' l'] r IH]; simpl.
  - unfold hosted. simpl. now rewrite app_nil_r.
  - destruct (iname_eqb k k'); unfold hosted in *; simpl; rewrite !countb_app.
    + lia.
    + rewrite IH. lia.
Qed.

Lemma countb_nodup n l : NoDup l ->
  countb n l = if existsb (iname_eqb n) l then 1%nat else 0%nat.
Proof.
  unfold countb. induction l as [|x r IH]; intros Hnd; simpl; auto.
  inversion Hnd as [|? ? Hnin Hnd']; subst. specialize (IH Hnd').
  destruct (iname_eqb n x) eqn:E; simpl.
  - apply iname_eqb_iff in E; subst x. rewrite IH.
    destruct (existsb (iname_eqb n) r) eqn:E'; auto.
    apply existsb_exists in E' as [y [Hy E']]. apply iname_eqb_iff in E'. subst. contradiction.
  - exact IH.
Qed.

(* ----- variable distribution ----- *)
Lemma var_loop_count n nodes : forall acc,
  countb n (hosted (var_loop nodes acc)) = (countb n (hosted acc) + countb n (map NV nodes))%nat.
Proof.
  induction nodes as [|x r IH]; simpl; intros acc; [unfold countb; simpl; lia|].
  rewrite IH, countb_dict_extend. change (NV x :: map NV r) with ([NV x] ++ map NV r).
  rewrite countb_app. lia.
Qed.

Lemma ising_var_distribution_hosts_once_l nodes : NoDup nodes -> forall n,
  countb n (hosted (var_loop nodes [])) = if existsb (iname_eqb n) (map NV nodes) then 1%nat else 0%nat.
Proof.
  intros Hnd n. rewrite var_loop_count. simpl. apply countb_nodup.
  apply FinFun.Injective_map_NoDup; auto. intros a b H. now inversion H.
Qed.

(* ----- factor-graph distribution ----- *)
Definition up_of (R : Z) (n : node) : edge := sortp n ((fst n - 1) mod R, snd n).
Definition right_of (C : Z) (n : node) : edge := sortp n (fst n, (snd n + 1) mod C).

(* what the loop appends, agent after agent *)
Fixpoint fg_emit (R C : Z) (bin : list edge) (nodes : list node) (seen : list edge) : list iname :=
  match nodes with
  | [] => []
  | n :: rest =>
      let up := up_of R n in
      let right := right_of C n in
      let t1 := edge_mem up bin && negb (edge_mem up seen) in
      let seen1 := if t1 then up :: seen else seen in
      let t2 := edge_mem right bin && negb (edge_mem right seen1) in
      let seen2 := if t2 then right :: seen1 else seen1 in
      ([NV n; NCU n] ++ (if t1 then [NCB up] else []) ++ (if t2 then [NCB right] else []))
        ++ fg_emit R C bin rest seen2
  end.

Lemma fg_loop_count R C bin n nodes : forall seen acc,
  countb n (hosted (fg_loop R C bin nodes seen acc))
  = (countb n (hosted acc) + countb n (fg_emit R C bin nodes seen))%nat.
Proof.
  induction nodes as [|[row col] r IH]; intros seen acc.
  - simpl. unfold countb at 3. simpl. lia.
  - cbn [fg_loop fg_emit]. unfold up_of, right_of. cbn [fst snd].
    rewrite IH, countb_dict_extend, (countb_app n (_ ++ _ ++ _)). lia.
Qed.

Lemma fg_emit_spec R C bin nodes : forall seen,
  (forall x, In (NV x) (fg_emit R C bin nodes seen) <-> In x nodes) /\
  (forall x, In (NCU x) (fg_emit R C bin nodes seen) <-> In x nodes) /\
  (forall x, ~ In (NA x) (fg_emit R C bin nodes seen)) /\
  (forall e, In (NCB e) (fg_emit R C bin nodes seen) <->
     In e bin /\ ~ In e seen /\ exists n, In n nodes /\ (e = up_of R n \/ e = right_of C n)) /\
  (NoDup nodes -> NoDup (fg_emit R C bin nodes seen)).
Proof.
  induction nodes as [|n rest IH]; intros seen.
  - simpl. repeat split; try tauto; try constructor.
    + intros (_ & _ & x & [] & _).
  - cbn [fg_emit].
    set (up := up_of R n). set (right := right_of C n).
    set (t1 := edge_mem up bin && negb (edge_mem up seen)).
    set (seen1 := if t1 then up :: seen else seen).
    set (t2 := edge_mem right bin && negb (edge_mem right seen1)).
    set (seen2 := if t2 then right :: seen1 else seen1).
    destruct (IH seen2) as (M1 & M2 & M3 & M4 & ND).
    assert (Ht1 : t1 = true <-> In up bin /\ ~ In up seen).
    { unfold t1. rewrite andb_true_iff, negb_true_iff, edge_mem_In, edge_mem_false. tauto. }
    assert (Ht2 : t2 = true <-> In right bin /\ ~ In right seen1).
    { unfold t2. rewrite andb_true_iff, negb_true_iff, edge_mem_In, edge_mem_false. tauto. }
    assert (Hs1 : forall e, In e seen1 <-> (t1 = true /\ e = up) \/ In e seen).
    { intros e. unfold seen1. destruct t1; simpl; split; intros H; try tauto.
      - destruct H as [<-|H]; auto.
      - destruct H as [[_ ->]|H]; auto.
      - destruct H as [[H _]|H]; auto. discriminate. }
    assert (Hs2 : forall e, In e seen2 <-> (t2 = true /\ e = right) \/ In e seen1).
    { intros e. unfold seen2. destruct t2; simpl; split; intros H; try tauto.
      - destruct H as [<-|H]; auto.
      - destruct H as [[_ ->]|H]; auto.
      - destruct H as [[H _]|H]; auto. discriminate. }
    assert (Hin : forall y, In y (([NV n; NCU n] ++ (if t1 then [NCB up] else [])
                                   ++ (if t2 then [NCB right] else [])) ++ fg_emit R C bin rest seen2)
                  <-> y = NV n \/ y = NCU n \/ (t1 = true /\ y = NCB up) \/ (t2 = true /\ y = NCB right)
                      \/ In y (fg_emit R C bin rest seen2)).
    { intros y. rewrite !in_app_iff. simpl. destruct t1, t2; simpl; intuition (auto; try discriminate). }
    split; [|split; [|split; [|split]]].
    + intros x. rewrite Hin, M1. simpl. split.
      * intros [H|[H|[[_ H]|[[_ H]|H]]]]; try discriminate; auto. inversion H; auto.
      * intros [->|H]; auto.
    + intros x. rewrite Hin, M2. simpl. split.
      * intros [H|[H|[[_ H]|[[_ H]|H]]]]; try discriminate; auto. inversion H; auto.
      * intros [->|H]; auto.
    + intros x. rewrite Hin. intros [H|[H|[[_ H]|[[_ H]|H]]]]; try discriminate. eapply M3; eauto.
    + intros e. rewrite Hin, M4. split.
      * intros [H|[H|[[T H]|[[T H]|H]]]]; try discriminate.
        -- inversion H; subst e. apply Ht1 in T as [T1 T2]. repeat split; auto.
           exists n. simpl; auto.
        -- inversion H; subst e. apply Ht2 in T as [T1 T2]. repeat split; auto.
           ++ intro Hs. apply T2. apply Hs1. auto.
           ++ exists n. simpl; auto.
        -- destruct H as (H1 & H2 & x & Hx & Hor). repeat split; auto.
           ++ intro Hs. apply H2. apply Hs2. right. apply Hs1. auto.
           ++ exists x. simpl; auto.
      * intros (H1 & H2 & x & Hx & Hor).
        destruct (edge_eqb e up) eqn:Eu.
        { apply edge_eqb_iff in Eu. right; right; left. split; [|now rewrite Eu].
          apply Ht1. rewrite <- Eu. auto. }
        apply edge_eqb_false in Eu.
        destruct (edge_eqb e right) eqn:Er.
        { apply edge_eqb_iff in Er. right; right; right; left. split; [|now rewrite Er].
          apply Ht2. rewrite <- Er. split; auto. intro Hs. apply Hs1 in Hs as [[_ Hs]|Hs]; auto. }
        apply edge_eqb_false in Er.
        right; right; right; right. repeat split; auto.
        -- intro Hs. apply Hs2 in Hs as [[_ Hs]|Hs]; auto. apply Hs1 in Hs as [[_ Hs]|Hs]; auto.
        -- destruct Hx as [<-|Hx]; [destruct Hor; contradiction|]. exists x. auto.
    + intros Hnd. inversion Hnd as [|? ? Hnin Hnd']; subst.
      assert (Hup_seen2 : t1 = true -> In up seen2).
      { intros T. apply Hs2. right. apply Hs1. auto. }
      assert (Hright_seen2 : t2 = true -> In right seen2).
      { intros T. apply Hs2. auto. }
      cbn [app]. constructor.
      { intros H. destruct H as [H|H]; [discriminate|]. rewrite !in_app_iff in H.
        destruct H as [[H|H]|H].
        - destruct t1; simpl in H; [destruct H as [H|[]]; discriminate|contradiction].
        - destruct t2; simpl in H; [destruct H as [H|[]]; discriminate|contradiction].
        - apply M1 in H. contradiction. }
      constructor.
      { intros H. rewrite !in_app_iff in H. destruct H as [[H|H]|H].
        - destruct t1; simpl in H; [destruct H as [H|[]]; discriminate|contradiction].
        - destruct t2; simpl in H; [destruct H as [H|[]]; discriminate|contradiction].
        - apply M2 in H. contradiction. }
      apply NoDup_app_intro.
      * apply NoDup_app_intro.
        -- destruct t1; constructor; [intros []|constructor].
        -- destruct t2; constructor; [intros []|constructor].
        -- intros y Hy Hy'. destruct t1 eqn:T1; simpl in Hy; [|contradiction].
           destruct Hy as [<-|[]].
           destruct t2 eqn:T2; simpl in Hy'; [|contradiction]. destruct Hy' as [Hy'|[]].
           inversion Hy' as [Hy'']. destruct (proj1 Ht2 ltac:(first [exact T2 | reflexivity])) as [_ T2'].
           apply T2'. apply Hs1. left. split; [first [exact T1 | reflexivity] | auto].
      * auto.
      * intros y Hy Hy'. apply in_app_iff in Hy as [Hy|Hy].
        -- destruct t1 eqn:T1; simpl in Hy; [|contradiction]. destruct Hy as [<-|[]].
           apply M4 in Hy' as (_ & Hy' & _). apply Hy'. apply Hup_seen2. first [exact T1 | reflexivity].
        -- destruct t2 eqn:T2; simpl in Hy; [|contradiction]. destruct Hy as [<-|[]].
           apply M4 in Hy' as (_ & Hy' & _). apply Hy'. apply Hright_seen2. first [exact T2 | reflexivity].
Qed.

Lemma bool_iff (a b : bool) : (a = true <-> b = true) -> a = b.
Proof. destruct a, b; intros [H1 H2]; auto; try (symmetry; now auto); now auto. Qed.

Lemma existsb_iname_In n l : existsb (iname_eqb n) l = true <-> In n l.
Proof.
  rewrite existsb_exists. split.
  - intros [y [Hy E]]. apply iname_eqb_iff in E. now subst.
  - intros H. exists n. split; auto. now apply iname_eqb_iff.
Qed.

(* every computation of the DCOP (variables, unary and binary constraints) is hosted exactly
   once by the factor-graph distribution, and nothing else is hosted *)
Lemma ising_fg_distribution_hosts_once_l R C bin nodes :
  NoDup nodes -> NoDup bin ->
  (forall e, In e bin -> exists n, In n nodes /\ (e = up_of R n \/ e = right_of C n)) ->
  forall n, countb n (hosted (fg_loop R C bin nodes [] []))
            = if existsb (iname_eqb n) (map NV nodes ++ map NCU nodes ++ map NCB bin)
              then 1%nat else 0%nat.
Proof.
  intros Hn Hb Hcov n. rewrite fg_loop_count.
  destruct (fg_emit_spec R C bin nodes []) as (M1 & M2 & M3 & M4 & ND).
  change (countb n (hosted [])) with 0%nat. rewrite Nat.add_0_l, (countb_nodup _ _ (ND Hn)).
  match goal with |- (if ?a then _ else _) = (if ?b then _ else _) =>
    assert (Hab : a = b); [|now rewrite Hab] end.
  apply bool_iff. rewrite !existsb_iname_In, !in_app_iff, !in_map_iff.
  destruct n as [x|x|e|x].
  - rewrite M1. split.
    + intros H. left. exists x. auto.
    + intros [[y [Hy H]]|[[y [Hy H]]|[y [Hy H]]]]; inversion Hy; subst; auto.
  - rewrite M2. split.
    + intros H. right; left. exists x. auto.
    + intros [[y [Hy H]]|[[y [Hy H]]|[y [Hy H]]]]; inversion Hy; subst; auto.
  - rewrite M4. split.
    + intros (H & _). right; right. exists e. auto.
    + intros [[y [Hy H]]|[[y [Hy H]]|[y [Hy H]]]]; inversion Hy; subst. repeat split; auto.
  - split.
    + intros H. exfalso. eapply M3; eauto.
    + intros [[y [Hy H]]|[[y [Hy H]]|[y [Hy H]]]]; inversion Hy.
Qed.

(* ================= graph colouring: variables and colours ================= *)
Lemma dict_set_fresh_g {K V} (keq : K -> K -> bool) (Hk : forall a b, keq a b = true <-> a = b)
  k (v : V) l : ~ In k (map fst l) -> dict_set keq k v l = l ++ [(k, v)].
Proof.
  induction l as [|[k' v'] r IH]; simpl; intros H; auto.
  destruct (keq k k') eqn:E.
  - apply Hk in E. subst. exfalso. auto.
  - rewrite IH by tauto. reflexivity.
Qed.

Lemma dict_of_list_nodup_g {K V} (keq : K -> K -> bool) (Hk : forall a b, keq a b = true <-> a = b)
  (l : list (K * V)) : NoDup (map fst l) -> dict_of_list keq l = l.
Proof.
  unfold dict_of_list.
  assert (H : forall acc, NoDup (map fst (acc ++ l)) ->
                fold_left (fun d kv => dict_set keq (fst kv) (snd kv) d) l acc = acc ++ l).
  { induction l as [|[k v] r IH]; intros acc Hnd; simpl; [now rewrite app_nil_r|].
    rewrite (dict_set_fresh_g keq Hk).
    - rewrite IH; rewrite <- app_assoc; auto.
    - rewrite map_app in Hnd. simpl in Hnd. apply NoDup_remove_2 in Hnd.
      intro Hin. apply Hnd. apply in_or_app. auto. }
  intros Hnd. apply (H []). exact Hnd.
Qed.

Lemma insert_sorted_perm {A} (leb : A -> A -> bool) x l : Permutation (insert_sorted leb x l) (x :: l).
Proof.
  induction l as [|y r IH]; simpl; auto. destruct (leb x y); auto.
  eapply perm_trans; [apply perm_skip, IH|apply perm_swap].
Qed.

Lemma isort_perm {A} (leb : A -> A -> bool) l : Permutation (isort leb l) l.
Proof.
  unfold isort. induction l as [|x r IH]; simpl; auto.
  eapply perm_trans; [apply insert_sorted_perm|]. now apply perm_skip.
Qed.

Lemma enumerate_from_snd {A} i (l : list A) : map snd (enumerate_from i l) = l.
Proof. revert i; induction l; simpl; intros; auto. now rewrite IHl. Qed.

Lemma gc_variables_and_colours_l colors kind soft intentional noagents nodes edges rnd o :
  (forall i j, var_name i = var_name j -> i = j) ->      (* f"v{i:02d}" is injective *)
  NoDup nodes ->
  gc_generate_checked colors kind soft intentional noagents nodes edges rnd = GOk o ->
  (colors <= 8)%nat /\ gc_domain o = firstn colors COLORS /\ List.length (gc_domain o) = colors /\
  gc_vars o = map var_name (seq 0 (List.length nodes)) /\ NoDup (gc_vars o) /\
  List.length (gc_vars o) = List.length nodes.
Proof.
  intros Hinj Hnd. unfold gc_generate_checked.
  destruct (Nat.ltb (List.length COLORS) colors) eqn:E; [discriminate|].
  apply Nat.ltb_ge in E. simpl in E. unfold gc_generate.
  match goal with |- context [match ?c with GErr e => _ | GOk cs => _ end] => destruct c as [cs|]; [|discriminate] end.
  intros H. inversion H; subst o; clear H. cbn [gc_domain gc_vars].
  split; [auto|]. split; [auto|]. split; [rewrite firstn_length; simpl; lia|].
  set (s := isort Z.leb nodes).
  assert (Hs : NoDup s) by (eapply Permutation_NoDup; [apply Permutation_sym, isort_perm|auto]).
  assert (Hl : List.length s = List.length nodes) by (apply Permutation_length, isort_perm).
  assert (Hv : gc_variables nodes = map (fun p => (snd p, var_name (fst p))) (enumerate_from 0 s)).
  { unfold gc_variables. apply dict_of_list_nodup_g; [apply Z.eqb_eq|].
    rewrite map_map. simpl. fold s. now rewrite enumerate_from_snd. }
  rewrite Hv.
  assert (Hnames : map fst (map (fun p : Z * string => (snd p, tt))
                     (map (fun p : nat * Z => (snd p, var_name (fst p))) (enumerate_from 0 s)))
                   = map var_name (seq 0 (List.length nodes))).
  { rewrite !map_map. simpl. rewrite <- (map_map fst var_name), enumerate_from_fst. now rewrite Hl. }
  assert (Hnd2 : NoDup (map var_name (seq 0 (List.length nodes)))).
  { apply FinFun.Injective_map_NoDup; [exact Hinj|apply seq_NoDup]. }
  rewrite dict_of_list_nodup_g; [|apply String.eqb_eq|now rewrite Hnames].
  rewrite Hnames. split; auto. split; auto. now rewrite map_length, seq_length.
Qed.

(* the boolean check of the networkx input (run on every correspondence case) implies the
   hypotheses of the hosting theorem *)
Lemma nodupb_NoDup {A} (e : A -> A -> bool) (He : forall a b, e a b = true <-> a = b) l :
  nodupb e l = true -> NoDup l.
Proof.
  induction l as [|a r IH]; simpl; intros H; constructor; apply andb_true_iff in H as [H1 H2]; auto.
  intro Hin. apply negb_true_iff in H1.
  assert (Hex : existsb (e a) r = true) by (apply existsb_exists; exists a; split; auto; now apply He).
  congruence.
Qed.

Definition sorted_edges (edges : list edge) : list edge := map (fun ab => sortp (fst ab) (snd ab)) edges.

Lemma grid_ok_sound R C nodes edges : grid_ok R C nodes edges = true ->
  NoDup nodes /\ NoDup (sorted_edges edges) /\
  forall e, In e (sorted_edges edges) ->
    exists n, In n nodes /\ (e = up_of R n \/ e = right_of C n).
Proof.
  unfold grid_ok. rewrite !andb_true_iff. intros [[H1 H2] H3].
  split; [eapply nodupb_NoDup; eauto; apply node_eqb_iff|].
  split; [eapply nodupb_NoDup; eauto; apply edge_eqb_iff|].
  intros e He. unfold sorted_edges in He. apply in_map_iff in He as [ab [<- Hab]].
  rewrite forallb_forall in H3. specialize (H3 ab Hab).
  rewrite !andb_true_iff in H3. destruct H3 as [[[Hc _] _] _].
  unfold covered in Hc. apply existsb_exists in Hc as [n [Hn Hc]].
  exists n. split; auto. apply orb_true_iff in Hc as [Hc|Hc]; apply edge_eqb_iff in Hc; auto.
Qed.

Lemma ising_fg_hosts_once_grid R C nodes edges :
  grid_ok R C nodes edges = true ->
  forall n, countb n (hosted (fg_loop R C (sorted_edges edges) nodes [] []))
            = if existsb (iname_eqb n)
                   (map NV nodes ++ map NCU nodes ++ map NCB (sorted_edges edges))
              then 1%nat else 0%nat.
Proof.
  intros H. destruct (grid_ok_sound _ _ _ _ H) as (A & B & Cv).
  now apply ising_fg_distribution_hosts_once_l.
Qed.
