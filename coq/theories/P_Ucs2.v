(* P_Ucs2.v -- C25 deepening, part 1: no handler of the UCS replication protocol raises
   (except, possibly, the KeyError of computation_replicated, which needs the global tracker
   invariant of P_Ucs3.v) under the guards
     - route costs between agents are symmetric,
     - route costs and hosting costs are non-negative.
   The invariant is PURE (it only talks about the fields of a token):
     - every entry (cost, p) of the paths table has cost = the cost of p (sum of the routes along p,
       plus the hosting cost of the last agent when p ends with __hosting__), starts at the owner
       and consists of agents (and possibly a final __hosting__),
     - spent = cost of the request path, budget >= 0,
     - no entry of the table is a prefix of the position of the token. *)
From PyDcop Require Import Base Net M_Ucs P_Ucs.
From Coq Require Import Lia ZifyBool.

(* ------------------------------------------------------------------ list facts *)
Lemma is_prefix_refl p : is_prefix p p = true.
Proof. induction p; simpl; auto. rewrite Z.eqb_refl. auto. Qed.

Lemma is_prefix_length p : forall q, is_prefix p q = true -> (List.length p <= List.length q)%nat.
Proof.
  induction p as [|x p IH]; intros q H; simpl; [lia|].
  destruct q as [|y q]; simpl in H; [discriminate|].
  apply andb_true_iff in H as [_ H]. apply IH in H. simpl. lia.
Qed.

Lemma is_prefix_app p : forall q r, is_prefix p q = true -> is_prefix p (q ++ r) = true.
Proof.
  induction p as [|x p IH]; intros q r H; simpl; auto.
  destruct q as [|y q]; simpl in H; [discriminate|].
  apply andb_true_iff in H as [E H]. simpl. rewrite E. simpl. auto.
Qed.

Lemma is_prefix_snoc p : forall q x, is_prefix p (q ++ [x]) = true -> p = q ++ [x] \/ is_prefix p q = true.
Proof.
  induction p as [|y p IH]; intros q x H; [right; destruct q; reflexivity|].
  destruct q as [|z q]; simpl in H.
  - apply andb_true_iff in H as [E H]. apply Z.eqb_eq in E. subst.
    destruct p; [left; reflexivity|discriminate].
  - apply andb_true_iff in H as [E H]. apply Z.eqb_eq in E. subst.
    apply IH in H as [->|H]; [left; reflexivity|right]. simpl. rewrite Z.eqb_refl. exact H.
Qed.

Lemma path_eqb_eq a b : path_eqb a b = true <-> a = b.
Proof. unfold path_eqb. apply list_eqb_spec. intros; apply Z.eqb_eq. Qed.

Lemma remove_path_In paths p e : In e (remove_path paths p) <-> In e paths /\ snd e <> p.
Proof.
  unfold remove_path. rewrite filter_In. split; intros [A B]; split; auto.
  - intro E. rewrite (proj2 (path_eqb_eq _ _) E) in B. discriminate.
  - destruct (path_eqb (snd e) p) eqn:E; auto. apply path_eqb_eq in E. contradiction.
Qed.

Lemma remove_path_length paths p : (List.length (remove_path paths p) <= List.length paths)%nat.
Proof. unfold remove_path. induction paths; simpl; [lia|]. destruct (negb _); simpl; lia. Qed.

Lemma psort_In l e : In e (psort l) <-> In e l.
Proof. unfold psort. apply isort_In. Qed.

Lemma last_z_cons x y l : last_z (x :: y :: l) = last_z (y :: l).
Proof. reflexivity. Qed.

Lemma last_z_In p : p <> [] -> In (last_z p) p.
Proof.
  induction p as [|x p IH]; intros H; [contradiction|].
  destruct p as [|y p]; [left; reflexivity|]. rewrite last_z_cons. right. apply IH. discriminate.
Qed.

Lemma split_last (p : path) : p <> [] -> p = removelast p ++ [last_z p].
Proof. intros H. unfold last_z. apply app_removelast_last. exact H. Qed.

Lemma snoc_cases (l : list Z) : l = [] \/ exists l' a, l = l' ++ [a].
Proof. induction l using rev_ind; eauto. Qed.

Lemma hd_app (p q : path) d : p <> [] -> hd d (p ++ q) = hd d p.
Proof. destruct p; [contradiction|reflexivity]. Qed.

Lemma min_cost_le l : forall acc, min_cost l acc <= acc.
Proof. induction l as [|[c p] r IH]; simpl; intros acc; [lia|]. specialize (IH (Z.min c acc)). lia. Qed.

Lemma min_cost_attained l : forall acc, min_cost l acc = acc \/ exists p, In (min_cost l acc, p) l.
Proof.
  induction l as [|[c p] r IH]; simpl; intros acc; auto.
  destruct (IH (Z.min c acc)) as [H|[p' H]].
  - rewrite H. destruct (Z.min_spec c acc) as [[_ ->]|[_ ->]]; eauto.
  - right. exists p'. right. exact H.
Qed.

Lemma min_entry c0 (q0 : path) r :
  exists cost p, In (cost, p) ((c0, q0) :: r) /\ cost <= min_cost r c0.
Proof.
  destruct (min_cost_attained r c0) as [E|[p E]].
  - exists c0, q0. split; [left; reflexivity|lia].
  - exists (min_cost r c0), p. split; [right; exact E|lia].
Qed.

Section NoRaise.
  Variable C : cfg.

  (* ---- the guards *)
  Record guards : Prop := mkGuards {
    g_sym : forall a b, is_agent C a = true -> is_agent C b = true -> route C a b = route C b a;
    g_rpos : forall a b, 0 <= route C a b;
    g_hpos : forall a c, 0 <= hosting_cost C a c
  }.
  Hypothesis G : guards.

  (* ---- the cost of a path *)
  Definition step_cost (c x y : Z) : Z := if y =? HOSTING then hosting_cost C x c else route C x y.
  Fixpoint pcost (c : Z) (p : path) : Z :=
    match p with
    | [] => 0
    | x :: r => match r with [] => 0 | y :: _ => step_cost c x y + pcost c r end
    end.

  Lemma step_cost_nonneg c x y : 0 <= step_cost c x y.
  Proof. unfold step_cost. destruct (y =? HOSTING); [apply (g_hpos G)|apply (g_rpos G)]. Qed.

  Lemma pcost_nonneg c p : 0 <= pcost c p.
  Proof.
    induction p as [|x r IH]; simpl; [lia|]. destruct r as [|y r']; [lia|].
    pose proof (step_cost_nonneg c x y). lia.
  Qed.

  Lemma pcost_snoc c p y : p <> [] -> pcost c (p ++ [y]) = pcost c p + step_cost c (last_z p) y.
  Proof.
    induction p as [|x p IH]; intros H; [contradiction|].
    destruct p as [|x' p].
    - simpl. unfold last_z. simpl. lia.
    - rewrite last_z_cons. change ((x :: x' :: p) ++ [y]) with (x :: (x' :: p) ++ [y]).
      change (pcost c (x :: (x' :: p) ++ [y])) with (step_cost c x x' + pcost c ((x' :: p) ++ [y])).
      rewrite IH by discriminate. simpl. lia.
  Qed.

  Lemma pcost_app_ge c p q : pcost c p <= pcost c (p ++ q).
  Proof.
    induction q as [|y q IH] using rev_ind; [rewrite app_nil_r; lia|].
    rewrite app_assoc. destruct (p ++ q) as [|z l] eqn:E.
    - destruct p; [|discriminate]. simpl. lia.
    - rewrite pcost_snoc by discriminate. pose proof (step_cost_nonneg c (last_z (z :: l)) y). lia.
  Qed.

  Lemma agent_nonneg x : is_agent C x = true -> 0 <= x.
  Proof. unfold is_agent. lia. Qed.
  Lemma agent_not_hosting x : is_agent C x = true -> (x =? HOSTING) = false.
  Proof. intros H. apply agent_nonneg in H. unfold HOSTING. lia. Qed.

  (* ---- the pure token invariant *)
  Definition apath (p : path) : Prop := forall x, In x p -> is_agent C x = true.
  Definition NP (paths : ptable) (q : path) : Prop :=
    forall e, In e paths -> is_prefix (snd e) q = false.
  Definition entry_ok (c o : Z) (e : Z * path) : Prop :=
    fst e = pcost c (snd e)
    /\ (forall x, In x (snd e) -> is_agent C x = true \/ x = HOSTING)
    /\ (exists tl, snd e = o :: tl)
    /\ hosting_ok C c (snd e).
  Definition entries_ok (c o : Z) (paths : ptable) : Prop := forall e, In e paths -> entry_ok c o e.
  (* table facts relative to a position q *)
  Definition PQ (c o : Z) (paths : ptable) (q : path) : Prop := entries_ok c o paths /\ NP paths q.

  Lemma PQ_subset c o paths paths' q :
    (forall e, In e paths' -> In e paths) -> PQ c o paths q -> PQ c o paths' q.
  Proof. intros S [A B]. split; intros e He; [apply A|apply B]; auto. Qed.

  Lemma NP_prefix paths q q' : is_prefix q' q = true -> NP paths q -> NP paths q'.
  Proof.
    intros H N e He. destruct (is_prefix (snd e) q') eqn:E; auto.
    rewrite <- (N e He). symmetry.
    (* transitivity of is_prefix *)
    clear - H E. revert q q' H E. induction (snd e) as [|x p IH]; intros q q' H E; auto.
    destruct q' as [|y q']; [discriminate|]. simpl in E. apply andb_true_iff in E as [E1 E2].
    destruct q as [|z q]; [discriminate|]. simpl in H. apply andb_true_iff in H as [H1 H2].
    simpl. apply Z.eqb_eq in E1, H1. subst. rewrite Z.eqb_refl. simpl. eapply IH; eauto.
  Qed.

  Definition TK (c : Z) (rq : path) (paths : ptable) (q : path) : Prop :=
    apath rq /\ rq <> [] /\ owns C (hd (-2) rq) c = true /\ PQ c (hd (-2) rq) paths q.

  Lemma TK_intro c rq paths q :
    apath rq -> rq <> [] -> owns C (hd (-2) rq) c = true -> entries_ok c (hd (-2) rq) paths -> NP paths q ->
    TK c rq paths q.
  Proof. intros. unfold TK, PQ. tauto. Qed.

  Definition mok2 (d : Z) (m : msg) : Prop :=
    match m with
    | MReplicate k => True
    | MRequest t =>
        TK (t_comp t) (t_path t) (t_paths t) (removelast (t_path t))
        /\ last_z (t_path t) = d /\ (2 <= List.length (t_path t))%nat
        /\ t_spent t = pcost (t_comp t) (t_path t) /\ 0 <= t_budget t
    | MAnswer t =>
        TK (t_comp t) (t_path t) (t_paths t) (t_path t)
        /\ (exists pre s, t_path t = pre ++ [d; s])
        /\ t_spent t = pcost (t_comp t) (removelast (t_path t)) /\ 0 <= t_budget t
    end.

  Lemma mok2_dest_agent d m : mok2 d m -> (exists k, m = MReplicate k) \/ is_agent C d = true.
  Proof.
    destruct m as [k|t|t]; simpl; [eauto| |].
    - intros ((A & N & _) & L & _). right. subst d. apply A. apply last_z_In. exact N.
    - intros ((A & _) & (pre & s & E) & _). right. apply A. rewrite E. apply in_or_app. right. left. auto.
  Qed.

  (* ---- handler-local reasoning; raising is allowed only when [X] holds *)
  Section Handler.
    Variable me : Z.
    Hypothesis me_agent : is_agent C me = true.
    Variable X : Prop.
    Variable s0 : nstate.
    Variable c : Z.

    Definition NRp (evs : list ev) : Prop := forall n k, In (EvRaise n k) evs -> X.
    Definition Mid2 (s : nstate) (evs : list ev) : Prop :=
      s_inprog s = s_inprog s0 /\ s_rhosts s = s_rhosts s0 /\ NRp evs.
    Definition Post2 (r : hres) : Prop :=
      let '(s', outs, evs, _) := r in NRp evs /\ forall d m, In (d, m) outs -> mok2 d m.

    Lemma NRp_snoc evs e : NRp evs -> (forall n k, e <> EvRaise n k) -> NRp (evs ++ [e]).
    Proof.
      intros N H n k I. apply in_app_or in I as [I|[I|[]]]; [eapply N; eauto|]. exfalso. eapply H; eauto.
    Qed.

    (* _send_answer from [me] = last of rq, |rq| >= 2 *)
    Lemma send_answer_nr s budget spent rq paths visited fp count hosts evs :
      Mid2 s evs -> TK c rq paths rq -> last_z rq = me -> (2 <= List.length rq)%nat ->
      spent = pcost c rq -> 0 <= budget ->
      Post2 (send_answer C me s budget spent rq paths visited c fp count hosts evs).
    Proof.
      intros (_ & _ & N) T L Len Hsp Hb. unfold send_answer.
      rewrite L, Z.eqb_refl. simpl.
      destruct T as (AP & NE & OW & PQr).
      assert (E : exists pre target, rq = pre ++ [target; me]).
      { pose proof (split_last rq NE) as S. rewrite L in S.
        destruct (snoc_cases (removelast rq)) as [E0|(l & a & E0)]; rewrite E0 in S.
        - rewrite S in Len. simpl in Len. lia.
        - exists l, a. rewrite S, <- app_assoc. reflexivity. }
      destruct E as (pre & target & E).
      assert (Erev : rev rq = me :: target :: rev pre).
      { rewrite E, rev_app_distr. reflexivity. }
      rewrite Erev.
      assert (At : is_agent C target = true) by (apply AP; rewrite E; apply in_or_app; right; left; auto).
      assert (Cost : pcost c rq = pcost c (pre ++ [target]) + route C me target).
      { rewrite E. change [target; me] with ([target] ++ [me]). rewrite app_assoc.
        rewrite pcost_snoc by (destruct pre; discriminate). rewrite last_z_app.
        unfold step_cost. rewrite (agent_not_hosting me me_agent).
        rewrite (g_sym G target me At me_agent). reflexivity. }
      pose proof (g_rpos G me target) as R0. pose proof (pcost_nonneg c (pre ++ [target])) as P0.
      assert (Eb : ((budget + route C me target <? 0) || (spent - route C me target <? 0)) = false) by lia.
      rewrite Eb. split; [exact N|].
      intros d m [I|[]]. inversion I; subst d m. simpl.
      split; [exact (conj AP (conj NE (conj OW PQr)))|]. split; [exists pre, me; exact E|]. split; [|lia].
      rewrite E. change [target; me] with ([target] ++ [me]). rewrite app_assoc, removelast_last.
      lia.
    Qed.

    (* _send_request to prefix ++ [x] for an affordable entry prefix ++ x :: tl *)
    Lemma send_request_nr s budget spent prefix x tl cost paths0 paths visited fp count hosts evs :
      Mid2 s evs -> TK c prefix paths prefix -> last_z prefix = me ->
      spent = pcost c prefix -> entry_ok c (hd (-2) prefix) (cost, prefix ++ x :: tl) ->
      In (cost, prefix ++ x :: tl) paths0 ->
      cost <= budget + spent -> (x =? HOSTING) = false ->
      Post2 (send_request C me s budget spent (prefix ++ [x]) paths visited c fp count hosts evs).
    Proof.
      intros (_ & _ & N) (AP & NE & OW & PQr) L Hsp (E1 & E2 & _) _ Haff Hx. unfold send_request.
      rewrite last_z_app. simpl in E1, E2.
      assert (Cx : pcost c (prefix ++ [x]) = spent + route C me x).
      { rewrite pcost_snoc by exact NE. rewrite L. unfold step_cost. rewrite Hx. lia. }
      assert (Ge : pcost c (prefix ++ [x]) <= cost).
      { rewrite E1. replace (prefix ++ x :: tl) with ((prefix ++ [x]) ++ tl) by (rewrite <- app_assoc; reflexivity).
        apply pcost_app_ge. }
      pose proof (g_rpos G me x) as R0. pose proof (pcost_nonneg c prefix) as P0.
      assert (Eb : ((budget - route C me x <? 0) || (spent + route C me x <? 0)) = false) by lia.
      rewrite Eb. split; [exact N|].
      intros d m [I|[]]. inversion I; subst d m. simpl.
      assert (Ax : is_agent C x = true).
      { destruct (E2 x) as [A|A]; [apply in_or_app; right; left; reflexivity|exact A|]. subst x. discriminate. }
      unfold TK. rewrite removelast_last, last_z_app, hd_app by exact NE.
      split; [|split; [reflexivity|split; [rewrite app_length; simpl; destruct prefix; [contradiction|simpl; lia]|split; lia]]].
      split; [|split; [destruct prefix; discriminate|split; [exact OW|exact PQr]]].
      intros y Hy. apply in_app_or in Hy as [Hy|[<-|[]]]; auto.
    Qed.

    (* ---- the visiting loop *)
    Lemma visit_loop_nr prefix skip budget spent visited fp
          (Hlast : last_z prefix = me) (Hsp : spent = pcost c prefix) (Hb : 0 <= budget) :
      forall fuel i s paths count hosts evs,
        (List.length paths - i < fuel)%nat ->
        Mid2 s evs -> TK c prefix paths prefix -> paths_ok C c paths ->
        match visit_loop C fuel i me prefix skip budget spent visited c fp s paths count hosts evs with
        | LDone r => Post2 r
        | LCont s' paths' count' hosts' evs' => Mid2 s' evs' /\ forall e, In e paths' -> In e paths
        end.
    Proof.
      induction fuel as [|fuel IH]; intros i s paths count hosts evs F M T PO; [lia|]. simpl.
      destruct (nth_error paths i) as [[cost p]|] eqn:En; [|split; auto].
      assert (Hi : (i < List.length paths)%nat) by (apply nth_error_Some; congruence).
      assert (Hin : In (cost, p) paths) by (eapply nth_error_In; eauto).
      destruct (is_prefix prefix p && (cost <=? budget + spent)) eqn:Ec; [|apply IH; auto; lia].
      apply andb_true_iff in Ec as [Epre Eaff]. apply Z.leb_le in Eaff.
      destruct T as (AP & NE & OW & (EO & N)).
      pose proof (is_prefix_split _ _ Epre) as Esp.
      destruct (skipn (List.length prefix) p) as [|x tl] eqn:Esk.
      { exfalso. rewrite app_nil_r in Esp. subst p. specialize (N _ Hin). simpl in N.
        rewrite is_prefix_refl in N. discriminate. }
      assert (T : TK c prefix paths prefix) by (apply TK_intro; auto).
      destruct (match skip with Some sp => path_eqb (prefix ++ [x]) sp | None => false end); [apply IH; auto; lia|].
      destruct (x =? HOSTING) eqn:Ex.
      - apply Z.eqb_eq in Ex. subst x.
        set (paths' := remove_path paths (prefix ++ [HOSTING])).
        assert (SUB : forall e, In e paths' -> In e paths) by (intros e He; apply remove_path_In in He; tauto).
        assert (LEN : (List.length paths' <= List.length paths)%nat) by apply remove_path_length.
        assert (T' : TK c prefix paths' prefix).
        { apply TK_intro; auto; intros e He; first [apply EO; solve [auto] | apply N; solve [auto]]. }
        assert (PO' : paths_ok C c paths') by (apply paths_ok_remove; auto).
        assert (L2 : (2 <= List.length prefix)%nat).
        { destruct prefix as [|a [|b l]]; [contradiction| |simpl; lia].
          exfalso. specialize (PO cost p Hin [a] tl). rewrite Esp in PO. specialize (PO eq_refl).
          simpl in OW. unfold last_z in PO. simpl in PO. congruence. }
        destruct (can_host C me (s_hosted s) c fp).
        + destruct M as (M1 & M2 & M3).
          assert (M' : forall h, Mid2 (set_hosted s h) (evs ++ [EvAccept me c (hd (-2) (prefix ++ [HOSTING])) fp (s_hosted s)])).
          { intros h. split; [exact M1|]. split; [exact M2|]. apply NRp_snoc; auto. intros; discriminate. }
          destruct (count - 1 =? 0).
          * apply send_answer_nr; auto.
          * match goal with |- context [visit_loop C fuel ?i' me prefix skip budget spent visited c fp ?s' ?p' ?c' ?h' ?e'] =>
              specialize (IH i' s' p' c' h' e') end.
            destruct (visit_loop _ _ _ _ _ _ _ _ _ _ _ _ _ _ _ _) as [r|s2 p2 c2 h2 e2].
            -- apply IH; auto. fold paths'. lia.
            -- destruct IH as [A B]; auto. { fold paths'. lia. }
        + match goal with |- context [visit_loop C fuel ?i' me prefix skip budget spent visited c fp ?s' ?p' ?c' ?h' ?e'] =>
            specialize (IH i' s' p' c' h' e') end.
          destruct (visit_loop _ _ _ _ _ _ _ _ _ _ _ _ _ _ _ _) as [r|s2 p2 c2 h2 e2].
          * apply IH; auto. fold paths'. lia.
          * destruct IH as [A B]; auto. fold paths'. lia.
      - eapply (send_request_nr s budget spent prefix x tl cost paths); eauto.
        + rewrite <- Esp. apply EO. exact Hin.
        + rewrite <- Esp. exact Hin.
    Qed.

    (* the loop at the root (owner, prefix = [me]) always forwards when some entry is affordable *)
    Lemma visit_loop_root budget visited fp (Hb : 0 <= budget) (Hown : owns C me c = true) :
      forall fuel i s paths count hosts evs,
        Mid2 s evs -> TK c [me] paths [me] -> paths_ok C c paths ->
        (exists j cost p, (i <= j < i + fuel)%nat /\ nth_error paths j = Some (cost, p) /\ cost <= budget) ->
        match visit_loop C fuel i me [me] None budget 0 visited c fp s paths count hosts evs with
        | LDone r => Post2 r
        | LCont _ _ _ _ _ => False
        end.
    Proof.
      induction fuel as [|fuel IH]; intros i s paths count hosts evs M T PO (j & cj & pj & Hj & Ej & Aj); [lia|].
      cbn [visit_loop].
      assert (Hi : nth_error paths i <> None).
      { apply nth_error_Some. assert (j < List.length paths)%nat by (apply nth_error_Some; congruence). lia. }
      destruct (nth_error paths i) as [[cost p]|] eqn:En; [|congruence].
      assert (Hin : In (cost, p) paths) by (eapply nth_error_In; eauto).
      destruct T as (AP & NE & OW & (EO & N)).
      destruct (EO _ Hin) as (E1 & E2 & (tl0 & E3) & E4). simpl in E1, E2, E3, E4.
      assert (Epre : is_prefix [me] p = true) by (rewrite E3; simpl; rewrite Z.eqb_refl; reflexivity).
      rewrite Epre. simpl.
      destruct (cost <=? budget + 0) eqn:Eaff.
      - apply Z.leb_le in Eaff. rewrite E3. simpl.
        destruct tl0 as [|x tl].
        { exfalso. specialize (N _ Hin). simpl in N. rewrite E3 in N. simpl in N. rewrite Z.eqb_refl in N. discriminate. }
        destruct (x =? HOSTING) eqn:Ex.
        { exfalso. apply Z.eqb_eq in Ex. subst x. specialize (E4 [me] tl). rewrite E3 in E4. specialize (E4 eq_refl).
          unfold last_z in E4. simpl in E4. congruence. }
        eapply (send_request_nr s budget 0 [me] x tl cost paths); eauto.
        + apply TK_intro; auto.
        + change (entry_ok c me (cost, me :: x :: tl)). rewrite <- E3. apply (EO _ Hin).
        + change (In (cost, me :: x :: tl) paths). rewrite <- E3. exact Hin.
      - apply IH; auto. { apply TK_intro; auto. }
        exists j, cj, pj. split; [|split; auto].
        assert (j <> i). { intro. subst j. rewrite En in Ej. inversion Ej; subst. lia. }
        lia.
    Qed.

    (* entries added by the neighbour loop *)
    Lemma add_neighbor_In nbrs : forall visited spent rq paths e,
      In e (add_neighbor_paths nbrs visited spent rq paths) ->
      In e paths \/ exists n r, In (n, r) nbrs /\ e = (spent + r, rq ++ [n]).
    Proof.
      induction nbrs as [|[n r] rest IH]; simpl; intros visited spent rq paths e H; auto.
      apply IH in H as [H|(n' & r' & A & B)]; [|right; exists n', r'; auto].
      destruct (zmem n visited); auto.
      destruct (cheapest_path_to n paths) as [[ch cp]|].
      - destruct (spent + r <? ch); auto. apply (proj1 (psort_In _ _)) in H. apply in_app_or in H as [H|[H|[]]].
        + apply remove_path_In in H. tauto.
        + right. exists n, r. auto.
      - apply (proj1 (psort_In _ _)) in H. apply in_app_or in H as [H|[H|[]]]; auto. right. exists n, r. auto.
    Qed.

    Lemma neighbors_spec n r : In (n, r) (neighbors C me) -> is_agent C n = true /\ r = route C me n.
    Proof.
      unfold neighbors. intros H. apply in_map_iff in H as [j [E H]]. inversion E; subst.
      apply filter_In in H as [H _]. apply zrange_from_In in H. split; auto.
      unfold is_agent, nagents. lia.
    Qed.

    Lemma snoc_not_prefix (rq : path) x : is_prefix (rq ++ [x]) rq = false.
    Proof.
      destruct (is_prefix (rq ++ [x]) rq) eqn:E; auto. apply is_prefix_length in E.
      rewrite app_length in E. simpl in E. lia.
    Qed.

    Lemma apath_not_hosting rq : apath rq -> ~ In HOSTING rq.
    Proof. intros A H. apply A in H. unfold is_agent, HOSTING in H. lia. Qed.

    (* on_replicate_request for a request that arrived in a message (|rq| >= 2) *)
    Lemma on_request_nr s budget spent rq paths visited fp count hosts evs :
      Mid2 s evs -> TK c rq paths (removelast rq) -> paths_ok C c paths -> last_z rq = me ->
      (2 <= List.length rq)%nat -> spent = pcost c rq -> 0 <= budget ->
      Post2 (on_request C me s budget spent rq paths visited c fp count hosts evs).
    Proof.
      intros M (AP & NE & OW & (EO & N)) PO L Len Hsp Hb. unfold on_request.
      destruct (negb (last_z rq =? me)) eqn:El; [rewrite L, Z.eqb_refl in El; discriminate|]. clear El.
      set (paths1 := remove_path paths rq).
      assert (PQ1 : PQ c (hd (-2) rq) paths1 rq).
      { split.
        - intros e He. apply remove_path_In in He as [He _]. apply EO; auto.
        - intros e He. apply remove_path_In in He as [He Hne].
          destruct (is_prefix (snd e) rq) eqn:E; auto. rewrite (split_last rq NE) in E.
          apply is_prefix_snoc in E as [E|E].
          + rewrite <- (split_last rq NE) in E. contradiction.
          + rewrite (N e He) in E. discriminate. }
      assert (PO1 : paths_ok C c paths1) by (apply paths_ok_remove; auto).
      set (paths2 := if _ && _ then _ else paths1).
      assert (NH : ~ In HOSTING rq) by (apply apath_not_hosting; auto).
      assert (P2 : PQ c (hd (-2) rq) paths2 rq /\ paths_ok C c paths2).
      { unfold paths2. destruct (negb (zmem me visited) && negb (owns C me c)) eqn:E; [|auto].
        apply andb_true_iff in E as [_ E]. apply negb_true_iff in E.
        assert (HO : hosting_ok C c (rq ++ [HOSTING])) by (apply hosting_path_ok; auto; rewrite L; auto).
        split; [|apply paths_ok_psort_snoc; auto].
        destruct PQ1 as [A B]. split; intros e He; apply (proj1 (psort_In _ _)) in He; apply in_app_or in He as [He|[<-|[]]]; auto.
        - split; [|split; [|split]]; simpl; auto.
          + rewrite pcost_snoc by exact NE. rewrite L. unfold step_cost. simpl. lia.
          + intros x Hx. apply in_app_or in Hx as [Hx|[<-|[]]]; auto.
          + destruct rq; [contradiction|]. simpl. eauto.
        - simpl. apply snoc_not_prefix. }
      destruct P2 as [PQ2 PO2].
      pose proof (visit_loop_nr rq None budget spent (if negb (zmem me visited) then visited ++ [me] else visited) fp
                    L Hsp Hb (S (List.length paths2)) 0 s paths2 count hosts evs) as V.
      destruct (visit_loop _ _ _ _ _ _ _ _ _ _ _ _ _ _ _ _) as [r|s' p3 c3 h3 e3].
      - apply V; auto; [lia|apply TK_intro; auto; apply PQ2].
      - destruct V as [M3 SUB]; auto; [lia|apply TK_intro; auto; apply PQ2|].
        apply send_answer_nr; auto.
        destruct PQ2 as [A B].
        apply TK_intro; auto; intros e He; apply add_neighbor_In in He as [He|(n & r & I & ->)]; auto.
        + apply neighbors_spec in I as [An ->]. split; [|split; [|split]]; simpl.
          * rewrite pcost_snoc by exact NE. rewrite L. unfold step_cost. rewrite (agent_not_hosting n An). lia.
          * intros x Hx. apply in_app_or in Hx as [Hx|[<-|[]]]; auto.
          * destruct rq; [contradiction|]. simpl. eauto.
          * apply no_hosting_ok. intro Hx. apply in_app_or in Hx as [Hx|[Hx|[]]]; [auto|].
            apply agent_nonneg in An. unfold HOSTING in Hx. lia.
        + simpl. apply snoc_not_prefix.
    Qed.

    (* on_replicate_request called at the root (replicate / budget increase): rq = [me] *)
    Lemma on_request_root_nr s budget paths visited fp count hosts evs :
      Mid2 s evs -> TK c [me] paths [me] -> paths_ok C c paths -> owns C me c = true ->
      (exists cost p, In (cost, p) paths /\ cost <= budget) ->
      Post2 (on_request C me s budget 0 [me] paths visited c fp count hosts evs).
    Proof.
      intros M (AP & NE & OW & (EO & N)) PO Hown (cost & p & Hin & Aff). unfold on_request.
      change (last_z [me]) with me. rewrite Z.eqb_refl. cbn [negb]. cbv zeta.
      rewrite Hown. cbn [negb]. rewrite andb_false_r.
      set (paths1 := remove_path paths [me]).
      assert (SUB : forall e, In e paths1 -> In e paths) by (intros e He; apply remove_path_In in He; tauto).
      assert (Hin1 : In (cost, p) paths1).
      { apply remove_path_In. split; auto. simpl. intro E. specialize (N _ Hin). simpl in N. rewrite E in N.
        simpl in N. rewrite Z.eqb_refl in N. discriminate. }
      assert (B0 : 0 <= budget).
      { destruct (EO _ Hin) as (E1 & _). simpl in E1. pose proof (pcost_nonneg c p). lia. }
      destruct (In_nth_error _ _ Hin1) as [j Ej].
      assert (Lj : (j < List.length paths1)%nat) by (apply nth_error_Some; congruence).
      pose proof (visit_loop_root budget (if negb (zmem me visited) then visited ++ [me] else visited) fp B0 Hown
                    (S (List.length paths1)) 0 s paths1 count hosts evs M) as V.
      destruct (visit_loop _ _ _ _ _ _ _ _ _ _ _ _ _ _ _ _) as [r|s' p3 c3 h3 e3].
      - apply V.
        + apply TK_intro; auto; intros e He; first [apply EO; solve [auto] | apply N; solve [auto]].
        + apply paths_ok_remove; auto.
        + exists j, cost, p. split; [lia|auto].
      - exfalso. apply V.
        + apply TK_intro; auto; intros e He; first [apply EO; solve [auto] | apply N; solve [auto]].
        + apply paths_ok_remove; auto.
        + exists j, cost, p. split; [lia|auto].
    Qed.

    Lemma entries_paths_ok o paths : entries_ok c o paths -> paths_ok C c paths.
    Proof. intros EO cost p Hin. apply (EO (cost, p) Hin). Qed.

    Lemma computation_replicated_nr s hosts evs :
      (zlookup c (s_inprog s0) = None -> X) -> Mid2 s evs ->
      Post2 (computation_replicated me s c hosts evs).
    Proof.
      intros HX (M1 & M2 & N). unfold computation_replicated. rewrite M1.
      destruct (zlookup c (s_inprog s0)) as [v|] eqn:E.
      - split; [|intros d m []]. intros n k I. apply in_app_or in I as [I|I]; [eapply N; eauto|].
        simpl in I. destruct I as [I|I]; [discriminate|]. destruct (filter _ _); simpl in I; [|contradiction].
        destruct I as [I|[]]. discriminate.
      - split; [|intros d m []]. intros n k I. auto.
    Qed.


    (* on_replicate_answer at [me]: rq = pre ++ [me; sd] *)
    Lemma on_answer_nr s budget spent rq paths visited fp count hosts evs pre sd :
      (zlookup c (s_inprog s0) = None -> owns C me c = true -> X) ->
      Mid2 s evs -> TK c rq paths rq -> rq = pre ++ [me; sd] ->
      spent = pcost c (pre ++ [me]) -> 0 <= budget ->
      Post2 (on_answer C me s budget spent rq paths visited c fp count hosts evs).
    Proof.
      intros HX M (AP & NE & OW & (EO & N)) Erq Hsp Hb. unfold on_answer.
      assert (Erev : rev rq = sd :: me :: rev pre).
      { rewrite Erq, rev_app_distr. reflexivity. }
      rewrite Erev.
      assert (Einit : removelast rq = pre ++ [me]).
      { rewrite Erq. change [me; sd] with ([me] ++ [sd]). rewrite app_assoc. apply removelast_last. }
      rewrite Einit.
      assert (Hlast : last_z (pre ++ [me]) = me) by apply last_z_app.
      assert (AP' : apath (pre ++ [me])).
      { intros x Hx. apply AP. rewrite Erq. apply in_app_or in Hx as [Hx|[Hx|[]]]; apply in_or_app; [left; auto|right; left; auto]. }
      assert (NE' : pre ++ [me] <> []) by (destruct pre; discriminate).
      assert (Hhd : hd (-2) (pre ++ [me]) = hd (-2) rq) by (rewrite Erq; destruct pre; reflexivity).
      assert (Hpre : is_prefix (pre ++ [me]) rq = true).
      { rewrite Erq. change [me; sd] with ([me] ++ [sd]). rewrite app_assoc. apply is_prefix_app, is_prefix_refl. }
      assert (TKsub : forall paths', (forall e, In e paths' -> In e paths) -> TK c (pre ++ [me]) paths' (pre ++ [me])).
      { intros paths' SUB. apply TK_intro; auto; rewrite ?Hhd; auto.
        - intros e He. apply EO; auto.
        - apply (NP_prefix _ rq); auto. intros e He. apply N; auto. }
      assert (Hlong : (3 <=? Z.of_nat (List.length rq)) = true -> (2 <= List.length (pre ++ [me]))%nat).
      { intros H. apply Z.leb_le in H. rewrite Erq, app_length in H. rewrite app_length. simpl in *. lia. }
      assert (Hshort : (3 <=? Z.of_nat (List.length rq)) = false -> pre = []).
      { intros H. apply Z.leb_gt in H. rewrite Erq, app_length in H. simpl in H. destruct pre; [reflexivity|simpl in H; lia]. }
      assert (HX' : (3 <=? Z.of_nat (List.length rq)) = false -> zlookup c (s_inprog s0) = None -> X).
      { intros H Z0. apply HX; auto. rewrite (Hshort H) in Erq. rewrite Erq in OW. exact OW. }
      destruct (count =? 0).
      - destruct (3 <=? Z.of_nat (List.length rq)) eqn:Elong.
        + apply send_answer_nr; auto.
        + apply computation_replicated_nr; auto.
      - pose proof (visit_loop_nr (pre ++ [me]) (Some rq) budget spent visited fp Hlast Hsp Hb
                      (S (List.length paths)) 0 s paths count hosts evs) as V.
        destruct (visit_loop _ _ _ _ _ _ _ _ _ _ _ _ _ _ _ _) as [r|s' p3 c3 h3 e3].
        { apply V; auto; [lia|eapply entries_paths_ok; eauto]. }
        destruct V as [M3 SUB]; auto; [lia|eapply entries_paths_ok; eauto|].
        destruct (3 <=? Z.of_nat (List.length rq)) eqn:Elong.
        + apply send_answer_nr; auto.
        + destruct p3 as [|e0 p3'] eqn:Ep3; [apply computation_replicated_nr; auto|].
          rewrite <- Ep3 in *.
          assert (Hf : forall e, In e p3 -> In e (filter (fun e => negb (path_eqb (snd e) rq)) p3)).
          { intros e He. apply filter_In. split; auto. destruct (path_eqb (snd e) rq) eqn:E; auto.
            apply path_eqb_eq in E. specialize (N e (SUB e He)). rewrite E, is_prefix_refl in N. discriminate. }
          destruct (filter _ p3) as [|[c0 q0] r0] eqn:EF.
          { exfalso. apply (Hf e0). rewrite Ep3. left; reflexivity. }
          specialize (Hshort eq_refl). subst pre.
          assert (Hown : owns C me c = true) by (rewrite Erq in OW; exact OW).
          assert (EX : exists cost p, In (cost, p) p3 /\ cost <= min_cost r0 c0).
          { destruct (min_entry c0 q0 r0) as (cost & p & I & Le). exists cost, p. split; auto.
            rewrite <- EF in I. apply filter_In in I. tauto. }
          assert (PO3 : paths_ok C c p3).
          { apply (entries_paths_ok (hd (-2) rq)). intros e He. apply EO; auto. }
          exact (on_request_root_nr s' (min_cost r0 c0) p3 visited fp c3 h3 e3 M3 (TKsub p3 SUB) PO3 Hown EX).
    Qed.
  End Handler.

  (* ---- replicate(k): one root request per computation, never raises *)
  Lemma initial_paths_ok me c (me_agent : is_agent C me = true) :
    owns C me c = true ->
    TK c [me] (psort (map (fun nr => (snd nr, [me; fst nr])) (neighbors C me))) [me].
  Proof.
    intros Hown. apply TK_intro; auto.
    - intros x [<-|[]]. exact me_agent.
    - discriminate.
    - intros e He. apply (proj1 (psort_In _ _)) in He. apply in_map_iff in He as [[n r] [<- Hn]].
      apply (neighbors_spec me) in Hn as [An ->]; try exact me_agent. simpl.
      split; [|split; [|split]]; simpl.
      + unfold step_cost. rewrite (agent_not_hosting n An). lia.
      + intros x [<-|[<-|[]]]; auto.
      + eauto.
      + apply no_hosting_ok. simpl. intros [H|[H|[]]].
        * apply agent_nonneg in me_agent. unfold HOSTING in H. lia.
        * apply agent_nonneg in An. unfold HOSTING in H. lia.
    - intros e He. apply (proj1 (psort_In _ _)) in He. apply in_map_iff in He as [[n r] [<- Hn]].
      simpl. rewrite Z.eqb_refl. reflexivity.
  Qed.

  Lemma replicate_loop_nr me k (me_agent : is_agent C me = true) : forall comps s outs evs,
    (forall x, In x comps -> In x (a_comps (agent C me))) -> neighbors C me <> [] ->
    NRp False evs -> (forall d m, In (d, m) outs -> mok2 d m) ->
    Post2 False (replicate_loop C me k comps s outs evs).
  Proof.
    induction comps as [|x rest IH]; intros s outs evs Hin NN N HO; simpl; [split; auto|].
    assert (Hown : owns C me (comp_name x) = true).
    { unfold owns, own_names. apply zmem_In. apply in_map. apply Hin. left; reflexivity. }
    pose proof (initial_paths_ok me (comp_name x) me_agent Hown) as T.
    set (paths := psort _) in *.
    destruct paths as [|[c0 q0] r0] eqn:Ep.
    { exfalso.
      assert (EXN : exists n r, In (n, r) (neighbors C me)).
      { revert NN. clear. destruct (neighbors C me) as [|[n r] l]; intros NN; [contradiction|]. exists n, r. left; reflexivity. }
      destruct EXN as (n & r & In0).
      assert (I : In (r, [me; n]) paths).
      { unfold paths. apply psort_In. apply in_map_iff. exists (n, r). split; auto. }
      rewrite Ep in I. destruct I. }
    rewrite <- Ep in *.
    assert (EX : exists cost p, In (cost, p) paths /\ cost <= min_cost r0 c0).
    { rewrite Ep. apply min_entry. }
    assert (M : Mid2 False s s evs) by (split; [reflexivity|split; [reflexivity|exact N]]).
    pose proof (on_request_root_nr me me_agent False s (comp_name x) s (min_cost r0 c0) paths [me] (comp_fp x) k [] evs
                  M T (entries_paths_ok (comp_name x) _ _ (proj1 (proj2 (proj2 (proj2 T))))) Hown EX) as R.
    destruct (on_request _ _ _ _ _ _ _ _ _ _ _ _ _) as [[[s1 o1] e1] raised].
    destruct R as [N1 O1].
    assert (OUTS : forall d m, In (d, m) (outs ++ o1) -> mok2 d m).
    { intros d m I. apply in_app_or in I as [I|I]; auto. }
    destruct raised; [split; auto|].
    apply IH; auto. intros y Hy. apply Hin. right; auto.
  Qed.

  Lemma replicate_nr me s k (me_agent : is_agent C me = true) : Post2 False (replicate C me s k).
  Proof.
    unfold replicate.
    assert (D : forall s' rh, Post2 False (s', [], [EvDone me rh], false)).
    { intros s' rh. split; [|intros d m []]. intros n k' [I|[]]. discriminate. }
    destruct (a_comps (agent C me)) as [|x0 r0] eqn:Ec; [apply D|].
    destruct (neighbors C me) eqn:En; [apply D|].
    apply replicate_loop_nr; auto.
    - intros x Hx. rewrite Ec. exact Hx.
    - rewrite En. discriminate.
    - intros n k' [].
    - intros d m [].
  Qed.

  (* ---- the handlers of the protocol: outputs keep the pure invariant, and the only exception a
     handler can raise is the KeyError of computation_replicated on an answer whose computation
     is not being tracked *)
  Lemma ucs_recv_nr n s src m :
    mok2 n m ->
    let '(s', outs, evs) := ucs_recv C n s src m in
    (forall d m', In (d, m') outs -> mok2 d m') /\
    (forall x k, In (EvRaise x k) evs ->
       exists t, m = MAnswer t /\ zlookup (t_comp t) (s_inprog s) = None /\ owns C n (t_comp t) = true).
  Proof.
    intros MO. unfold ucs_recv. destruct (is_agent C n) eqn:Ea; simpl.
    2:{ split; [intros d m' []|intros x k []]. }
    destruct m as [k|t|t]; simpl in MO.
    - pose proof (replicate_nr n s k Ea) as R. destruct (replicate C n s k) as [[[s' o] e] b]. simpl.
      destruct R as [N O]. split; auto. intros x k' I. destruct (N x k' I).
    - destruct MO as (T & L & Len & Hsp & Hb).
      assert (M : Mid2 False s s []) by (split; [reflexivity|split; [reflexivity|intros ? ? []]]).
      pose proof (on_request_nr n Ea False s (t_comp t) s (t_budget t) (t_spent t) (t_path t) (t_paths t) (t_visited t)
                    (t_fp t) (t_count t) (t_hosts t) [] M T
                    (entries_paths_ok (t_comp t) _ _ (proj1 (proj2 (proj2 (proj2 T))))) L Len Hsp Hb) as R.
      destruct (on_request _ _ _ _ _ _ _ _ _ _ _ _ _) as [[[s' o] e] b]. simpl.
      destruct R as [N O]. split; auto. intros x k' I. destruct (N x k' I).
    - destruct MO as (T & (pre & sd & E) & Hsp & Hb).
      set (s1 := set_pending s _).
      assert (M : Mid2 (zlookup (t_comp t) (s_inprog s) = None /\ owns C n (t_comp t) = true) s1 s1 [])
        by (split; [reflexivity|split; [reflexivity|intros ? ? []]]).
      assert (Hsp' : t_spent t = pcost (t_comp t) (pre ++ [n])).
      { rewrite Hsp, E. change [n; sd] with ([n] ++ [sd]). rewrite app_assoc, removelast_last. reflexivity. }
      pose proof (on_answer_nr n Ea (zlookup (t_comp t) (s_inprog s) = None /\ owns C n (t_comp t) = true) s1 (t_comp t) s1
                    (t_budget t) (t_spent t) (t_path t)
                    (t_paths t) (t_visited t) (t_fp t) (t_count t) (t_hosts t) [] pre sd (fun H1 H2 => conj H1 H2) M T E Hsp' Hb) as R.
      destruct (on_answer _ _ _ _ _ _ _ _ _ _ _ _ _) as [[[s' o] e] b]. simpl.
      destruct R as [N O]. split; auto. intros x k' I. exists t. split; auto. exact (N x k' I).
  Qed.

  (* ---- the network: every message in flight satisfies the pure invariant *)
  Notation P := (ucs_proto C).
  Definition Inv2 (cf : config nstate msg) : Prop :=
    (forall s d m, In m (chan cf s d) -> mok2 d m) /\
    (forall d s m, In (s, m) (w_held (nodes cf d)) -> mok2 d m).

  Lemma step_inv2 cf a : Inv2 cf -> Inv2 (fst (step P cf a)).
  Proof.
    intros (IC & IH). destruct a as [n|s d]; simpl.
    - destruct (w_running (nodes cf n)) eqn:Er; [split; auto|].
      change (p_start P n (w_st (nodes cf n))) with (ucs_start C n (w_st (nodes cf n))).
      assert (SO : forall d m, In (d, m) (snd (fst (ucs_start C n (w_st (nodes cf n))))) -> mok2 d m).
      { unfold ucs_start. destruct (n =? ORCH); simpl; [|intros d m []].
        intros d m I. apply in_map_iff in I as [a [E _]]. inversion E; subst. exact I. }
      destruct (ucs_start C n (w_st (nodes cf n))) as [[st' outs] evs]. simpl in *. split.
      + intros s d m I. apply In_reinject_all in I as [I|[E I]].
        * apply In_send_all in I as [I|[E I]]; eauto.
        * subst. unfold reinject in I. eauto.
      + intros d s m. simpl. unfold upd_node. cbv beta. destruct (d =? n); simpl; intros I; [destruct I|eauto].
    - destruct (chan cf s d) as [|m q] eqn:Ech; [split; auto|].
      assert (MOK : mok2 d m) by (apply (IC s d); rewrite Ech; left; auto).
      assert (C0 : forall x y m', In m' (upd_chan (chan cf) s d q x y) -> mok2 y m').
      { intros x y m' I. apply In_upd_chan in I as [(E1 & E2 & I)|I]; [subst|eauto].
        apply (IC s d). rewrite Ech. right; auto. }
      destruct (w_running (nodes cf d)) eqn:Er.
      + change (p_recv P d (w_st (nodes cf d)) s m) with (ucs_recv C d (w_st (nodes cf d)) s m).
        pose proof (ucs_recv_nr d (w_st (nodes cf d)) s m MOK) as R.
        destruct (ucs_recv C d (w_st (nodes cf d)) s m) as [[st' outs] evs]. destruct R as [O _]. simpl. split.
        * intros x y m' I. apply In_send_all in I as [I|[E I]]; eauto.
        * intros y x m'. simpl. unfold upd_node. cbv beta. destruct (y =? d) eqn:Ey; simpl; intros I; [|eauto].
          apply Z.eqb_eq in Ey. subst. eauto.
      + simpl. split; [eauto|].
        intros y x m'. simpl. unfold upd_node. cbv beta. destruct (y =? d) eqn:Ey; simpl; intros I; [|eauto].
        apply Z.eqb_eq in Ey. subst. apply in_app_or in I as [I|[I|[]]]; [eauto|].
        inversion I; subst. exact MOK.
  Qed.

  Lemma reachable_inv2 cf : reachable P cf -> Inv2 cf.
  Proof.
    induction 1 as [|cf a R IH]; [split; [intros s d m []|intros d s m []]|]. apply step_inv2; auto.
  Qed.
End NoRaise.
