(* P_Rel.v -- lemmas about the relation model M_Rel.v.
   Interface for other developments (use these instead of unfolding the model):
     covers / agree_on / lk_eq           hypotheses on assignments
     sem_lk_eq, sem_agree                [sem] only reads the scope's variables
     get_dict_total                      the code's dict read = [sem]
     set_dict_ok, sem_set_same/other     set_value_for_assignment
     gen_assign_covers/complete/keys     generate_assignment_as_dict
     sem_slice, dims_slice               slice
     join_ok (dims_join, sem_join)       join
     projection_ok (dims_projection, sem_projection), opt_cost_spec
     arg_opt_spec, find_arg_optimal_ok, find_optimal_ok, optimal_cost_value_ok
   Stdlib only. *)
From PyDcop Require Import Base ECost M_Rel.
From Coq Require Import ZifyBool Arith PeanoNat.

Local Notation len := List.length.

(* ================================================================== arrays *)
Definition valid (shape idx : list nat) : Prop := Forall2 (fun n i => (i < n)%nat) shape idx.

Lemma tab_length {A} shape (f : list nat -> A) : len (tab shape f) = prod shape.
Proof.
  revert f; induction shape as [|n ss IH]; intro f; simpl; auto.
  assert (H : forall l, len (flat_map (fun i => tab ss (fun is_ => f (i :: is_))) l)
                        = (len l * prod ss)%nat).
  { induction l as [|x l IHl]; simpl; auto. rewrite app_length, IH, IHl. reflexivity. }
  rewrite H, seq_length. reflexivity.
Qed.

Lemma nth_flat_map_block {A B} (g : A -> list B) (P : nat) (l : list A) (i o : nat) (a0 : A) (d : B) :
  (forall x, len (g x) = P) -> (i < len l)%nat -> (o < P)%nat ->
  nth (i * P + o) (flat_map g l) d = nth o (g (nth i l a0)) d.
Proof.
  intros HP. revert i. induction l as [|x l IH]; intros i Hi Ho; simpl in *; [lia|].
  destruct i as [|i].
  - simpl. rewrite app_nth1; auto. rewrite HP. exact Ho.
  - rewrite app_nth2; rewrite HP; [|nia].
    replace (S i * P + o - P)%nat with (i * P + o)%nat by nia.
    apply IH; auto. lia.
Qed.

Lemma nth_tab {A} shape (f : list nat -> A) idx d :
  valid shape idx -> nth (offset shape idx) (tab shape f) d = f idx.
Proof.
  intro H. revert f. induction H as [|n i ss is_ Hi Hv IH]; intro f; simpl; auto.
  assert (Ho : (offset ss is_ < prod ss)%nat).
  { clear - Hv. induction Hv as [|n i ss is_ Hi Hv IH]; simpl; [lia|]. nia. }
  rewrite (nth_flat_map_block _ (prod ss) _ i _ 0%nat d); auto.
  - rewrite seq_nth; auto. simpl. apply IH.
  - intro x. apply tab_length.
  - rewrite seq_length. exact Hi.
Qed.

Lemma offset_lt shape idx : valid shape idx -> (offset shape idx < prod shape)%nat.
Proof. intro Hv. induction Hv as [|n i ss is_ Hi Hv IH]; simpl; [lia|]. nia. Qed.

Lemma offset_inj shape i1 i2 :
  valid shape i1 -> valid shape i2 -> offset shape i1 = offset shape i2 -> i1 = i2.
Proof.
  intro H1. revert i2. induction H1 as [|n a ss as_ Ha Hv IH]; intros i2 H2 E.
  - inversion H2. reflexivity.
  - inversion H2 as [|n' b ss' bs Hb Hv2]; subst. simpl in E.
    pose proof (offset_lt _ _ Hv) as L1. pose proof (offset_lt _ _ Hv2) as L2.
    assert (a = b) by nia. subst b.
    f_equal. apply IH; auto. nia.
Qed.

Lemma upd_length {A} n (x : A) l : len (upd n x l) = len l.
Proof. revert n; induction l as [|y l IH]; intros [|n]; simpl; auto. Qed.

Lemma nth_upd_same {A} n (x : A) l d : (n < len l)%nat -> nth n (upd n x l) d = x.
Proof. revert n; induction l as [|y l IH]; intros [|n] H; simpl in *; try lia; auto. apply IH. lia. Qed.

Lemma nth_upd_other {A} n k (x : A) l d : n <> k -> nth k (upd n x l) d = nth k l d.
Proof.
  revert n k; induction l as [|y l IH]; intros [|n] [|k] H; simpl; auto; try congruence.
Qed.

(* ================================================================== list.index *)
Lemma index_of_some x l i : index_of x l = Some i -> (i < len l)%nat /\ nth i l 0 = x.
Proof.
  revert i; induction l as [|y l IH]; intros i H; simpl in *; [discriminate|].
  destruct (Z.eqb x y) eqn:E.
  - inversion H; subst. apply Z.eqb_eq in E. split; [lia|auto].
  - destruct (index_of x l) as [j|]; simpl in H; [|discriminate]. inversion H; subst.
    destruct (IH j eq_refl). split; [lia|auto].
Qed.

Lemma index_of_in x l : In x l -> exists i, index_of x l = Some i.
Proof.
  induction l as [|y l IH]; intro H; simpl in *; [contradiction|].
  destruct (Z.eqb x y) eqn:E; [eauto|].
  destruct H as [H|H]; [subst; rewrite Z.eqb_refl in E; discriminate|].
  destruct (IH H) as [i Hi]. rewrite Hi. simpl. eauto.
Qed.

Lemma index_of_none x l : index_of x l = None -> ~ In x l.
Proof. intros H Hin. destruct (index_of_in _ _ Hin) as [i Hi]. congruence. Qed.

Lemma index_of_inj l x y i : index_of x l = Some i -> index_of y l = Some i -> x = y.
Proof. intros Hx Hy. apply index_of_some in Hx, Hy. destruct Hx, Hy. congruence. Qed.

(* ================================================================== assignments *)
Definition covers (dims : list var) (a : assignment) : Prop :=
  forall v, In v dims -> exists x, zlookup (v_name v) a = Some x /\ In x (v_dom v).
Definition agree_on (dims : list var) (a b : assignment) : Prop :=
  forall v, In v dims -> zlookup (v_name v) a = zlookup (v_name v) b.
Definition lk_eq (a b : assignment) : Prop := forall k, zlookup k a = zlookup k b.
Definition keys_in (a : assignment) (dims : list var) : Prop :=
  forall k, In k (map fst a) -> In k (names dims).

Lemma Zeqb_iff : forall a b : Z, Z.eqb a b = true <-> a = b.
Proof. intros; apply Z.eqb_eq. Qed.

Lemma lk_eq_agree dims a b : lk_eq a b -> agree_on dims a b.
Proof. intros H v _. apply H. Qed.

Lemma agree_on_sym dims a b : agree_on dims a b -> agree_on dims b a.
Proof. intros H v Hv. symmetry. auto. Qed.

Lemma agree_on_incl d1 d2 a b : (forall v, In v d1 -> In v d2) -> agree_on d2 a b -> agree_on d1 a b.
Proof. intros Hi H v Hv. auto. Qed.

Lemma covers_agree dims a b : agree_on dims a b -> covers dims a -> covers dims b.
Proof. intros Ha Hc v Hv. destruct (Hc v Hv) as [x [H1 H2]]. exists x. rewrite <- (Ha v Hv). auto. Qed.

Lemma covers_incl d1 d2 a : (forall v, In v d1 -> In v d2) -> covers d2 a -> covers d1 a.
Proof. intros Hi H v Hv. auto. Qed.

Lemma idx_of_agree dims a b : agree_on dims a b -> idx_of dims a = idx_of dims b.
Proof.
  induction dims as [|v ds IH]; intro H; simpl; auto.
  rewrite <- (H v (or_introl eq_refl)). rewrite IH; auto.
  intros w Hw. apply H. now right.
Qed.

Lemma sem_agree r a b : agree_on (r_dims r) a b -> sem r a = sem r b.
Proof. intro H. unfold sem. now rewrite (idx_of_agree _ _ _ H). Qed.

Lemma sem_lk_eq r a b : lk_eq a b -> sem r a = sem r b.
Proof. intro H. apply sem_agree. now apply lk_eq_agree. Qed.

Lemma idx_of_covers dims a : covers dims a ->
  exists idx, idx_of dims a = Some idx /\ valid (shape_of dims) idx.
Proof.
  induction dims as [|v ds IH]; intro H; simpl.
  - exists []. split; auto. constructor.
  - destruct (H v (or_introl eq_refl)) as [x [Hx Hin]]. rewrite Hx.
    destruct (index_of_in _ _ Hin) as [i Hi]. rewrite Hi.
    destruct IH as [idx [E Hv]]. { intros w Hw. apply H. now right. }
    rewrite E. exists (i :: idx). split; auto. constructor; auto.
    apply index_of_some in Hi. unfold dsize. tauto.
Qed.

(* two covering assignments select the same cell iff they agree on the scope *)
Lemma idx_of_eq_agree dims a b ia :
  idx_of dims a = Some ia -> idx_of dims b = Some ia -> agree_on dims a b.
Proof.
  revert ia. induction dims as [|v ds IH]; intros ia Ha Hb w Hw; simpl in *; [contradiction|].
  destruct (zlookup (v_name v) a) as [x|] eqn:Ex; [|discriminate].
  destruct (zlookup (v_name v) b) as [y|] eqn:Ey; [|discriminate].
  destruct (index_of x (v_dom v)) as [i|] eqn:Ei; [|discriminate].
  destruct (index_of y (v_dom v)) as [j|] eqn:Ej; [|discriminate].
  destruct (idx_of ds a) as [ra|] eqn:Ea; [|discriminate].
  destruct (idx_of ds b) as [rb|] eqn:Eb; [|discriminate].
  inversion Ha; subst. inversion Hb; subst.
  destruct Hw as [Hw|Hw].
  - subst w. rewrite Ex, Ey. f_equal. eapply index_of_inj; eauto.
  - eapply IH; eauto.
Qed.

Lemma lookup_app k (a b : assignment) :
  zlookup k (a ++ b) = match zlookup k a with Some x => Some x | None => zlookup k b end.
Proof.
  unfold zlookup. induction a as [|[k' v] a IH]; simpl; auto. destruct (Z.eqb k k'); auto.
Qed.

Lemma lookup_none_keys k (a : assignment) : zlookup k a = None <-> ~ In k (map fst a).
Proof.
  unfold zlookup. induction a as [|[k' v] a IH]; simpl.
  - tauto.
  - destruct (Z.eqb k k') eqn:E.
    + apply Z.eqb_eq in E. subst. split; [discriminate|]. intro H. exfalso. apply H. now left.
    + apply Z.eqb_neq in E. rewrite IH. split; intro H; [intros [H1|H1]; [congruence|auto]|tauto].
Qed.

Lemma lookup_some_keys k (a : assignment) x : zlookup k a = Some x -> In k (map fst a).
Proof.
  intro H. destruct (in_dec Z.eq_dec k (map fst a)); auto.
  apply lookup_none_keys in n. congruence.
Qed.

Lemma zl_set_same k v (a : assignment) : zlookup k (dict_set Z.eqb k v a) = Some v.
Proof. apply lookup_dict_set_same. apply Zeqb_iff. Qed.

Lemma zl_set_other k k2 v (a : assignment) :
  k2 <> k -> zlookup k2 (dict_set Z.eqb k v a) = zlookup k2 a.
Proof. apply lookup_dict_set_other. apply Zeqb_iff. Qed.

Lemma dict_set_keys k v (a : assignment) j :
  In j (map fst (dict_set Z.eqb k v a)) <-> j = k \/ In j (map fst a).
Proof.
  induction a as [|[k' v'] a IH]; simpl.
  - split; intros [H|[]]; auto.
  - destruct (Z.eqb k k') eqn:E; simpl.
    + apply Z.eqb_eq in E. subst. intuition auto.
    + rewrite IH. tauto.
Qed.

Lemma lk_eq_set k v a b :
  (forall j, j <> k -> zlookup j a = zlookup j b) ->
  lk_eq (dict_set Z.eqb k v a) (dict_set Z.eqb k v b).
Proof.
  intros H j. destruct (Z.eq_dec j k) as [->|Hn].
  - now rewrite !zl_set_same.
  - rewrite !zl_set_other; auto.
Qed.

Lemma in_names v dims : In v dims -> In (v_name v) (names dims).
Proof. intro H. unfold names. now apply in_map. Qed.

(* ================================================================== _slice_matrix *)
(* what _slice_matrix computes, stated with dict lookups *)
Fixpoint sel_of (ds : list var) (pa : assignment) : res (list (option nat)) :=
  match ds with
  | [] => Ok []
  | v :: r =>
      match zlookup (v_name v) pa with
      | Some val =>
          match index_of val (v_dom v) with
          | None => Err ErrValue
          | Some vi => rest <- sel_of r pa ;; Ok (Some vi :: rest)
          end
      | None => rest <- sel_of r pa ;; Ok (None :: rest)
      end
  end.

Lemma index_nth_lookup n (pa : assignment) :
  match index_of n (map fst pa) with
  | Some i => nth_error (map snd pa) i = zlookup n pa /\ zlookup n pa <> None
  | None => zlookup n pa = None
  end.
Proof.
  unfold zlookup. induction pa as [|[k v] pa IH]; simpl; auto.
  destruct (Z.eqb n k) eqn:E; simpl.
  - split; [reflexivity|discriminate].
  - destruct (index_of n (map fst pa)) as [i|]; simpl; auto.
Qed.

Lemma slice_sel_dict ds pa : slice_sel ds (map fst pa) (map snd pa) = sel_of ds pa.
Proof.
  induction ds as [|v r IH]; simpl; auto.
  pose proof (index_nth_lookup (v_name v) pa) as H.
  destruct (index_of (v_name v) (map fst pa)) as [i|].
  - destruct H as [H1 H2]. rewrite H1. destruct (zlookup (v_name v) pa) as [val|]; [|congruence].
    now rewrite IH.
  - rewrite H. now rewrite IH.
Qed.

Lemma sel_of_agree ds a b : agree_on ds a b -> sel_of ds a = sel_of ds b.
Proof.
  induction ds as [|v r IH]; intro H; simpl; auto.
  rewrite <- (H v (or_introl eq_refl)). rewrite IH; auto.
  intros w Hw. apply H. now right.
Qed.

Lemma sel_of_covers ds a idx : idx_of ds a = Some idx -> sel_of ds a = Ok (map Some idx).
Proof.
  revert idx. induction ds as [|v r IH]; intros idx H; simpl in *.
  - inversion H. reflexivity.
  - destruct (zlookup (v_name v) a) as [x|]; [|discriminate].
    destruct (index_of x (v_dom v)) as [i|]; [|discriminate].
    destruct (idx_of r a) as [rest|]; [|discriminate]. inversion H; subst.
    rewrite (IH rest eq_refl). reflexivity.
Qed.

Lemma kept_all_some ds idx : kept ds (map Some idx) = [].
Proof. revert idx; induction ds as [|v r IH]; intros [|i idx]; simpl; auto. Qed.

Lemma merge_all_some idx l : merge (map Some idx) l = idx.
Proof. induction idx as [|i idx IH]; simpl; auto. now rewrite IH. Qed.

Lemma forallb_keys_in (a : assignment) dims :
  keys_in a dims -> forallb (fun n => zmem n (names dims)) (map fst a) = true.
Proof.
  intro H. apply forallb_forall. intros k Hk. apply zmem_In. auto.
Qed.

Lemma wf_nil_dims r : wf_rel r -> r_dims r = [] -> exists c, r_data r = [c].
Proof.
  unfold wf_rel. intros H E. rewrite E in H. simpl in H.
  destruct (r_data r) as [|c [|c2 l]]; simpl in H; try discriminate. eauto.
Qed.

(* get_value_for_assignment(dict) on an assignment of exactly (a subset of keys being) the
   scope: the code's answer is [sem] *)
Lemma get_dict_total r a :
  wf_rel r -> keys_in a (r_dims r) -> covers (r_dims r) a -> get_dict r a = Ok (sem r a).
Proof.
  intros Hwf Hk Hc. destruct (idx_of_covers _ _ Hc) as [idx [Hi Hv]].
  unfold get_dict, slice, sem. rewrite Hi.
  destruct a as [|p a'].
  - simpl. destruct (r_dims r) as [|v ds] eqn:Ed.
    + destruct (wf_nil_dims r Hwf Ed) as [c Hd]. unfold item. rewrite Hd.
      simpl in Hi. inversion Hi. unfold cell. rewrite Ed, Hd. reflexivity.
    + destruct (Hc v (or_introl eq_refl)) as [x [Hx _]]. discriminate.
  - remember (p :: a') as a. unfold slice_matrix.
    rewrite (forallb_keys_in a _ Hk). rewrite slice_sel_dict, (sel_of_covers _ _ _ Hi).
    simpl. unfold slice_with, item. simpl. rewrite kept_all_some. simpl.
    rewrite merge_all_some. reflexivity.
Qed.

Lemma call_kw_total r a :
  wf_rel r -> keys_in a (r_dims r) -> covers (r_dims r) a -> call_kw r a = Ok (sem r a).
Proof.
  intros Hwf Hk Hc. unfold call_kw. destruct a as [|p a'].
  - unfold get_list. simpl. rewrite combine_nil. simpl. now apply get_dict_total.
  - now apply get_dict_total.
Qed.

(* ================================================================== set_value_for_assignment *)
Definition set_at (r : rel) (ia : list nat) (c : ecost) : rel :=
  mkRel (r_dims r) (upd (offset (shape_of (r_dims r)) ia) c (r_data r)).

Lemma wf_set_at r ia c : wf_rel r -> wf_rel (set_at r ia c).
Proof. unfold wf_rel, set_at. simpl. now rewrite upd_length. Qed.

Lemma names_self_in dims : forallb (fun n => zmem n (names dims)) (names dims) = true.
Proof. apply forallb_forall. intros k Hk. now apply zmem_In. Qed.

Lemma combine_fst_snd (ks vs : list Z) : len ks = len vs ->
  map fst (combine ks vs) = ks /\ map snd (combine ks vs) = vs.
Proof.
  revert vs; induction ks as [|k ks IH]; intros [|v vs] H; simpl in *; try discriminate; auto.
  destruct (IH vs) as [H1 H2]; [lia|]. now rewrite H1, H2.
Qed.

Lemma map_unsome (idx : list nat) :
  map (fun o : option nat => match o with Some i => i | None => 0%nat end) (map Some idx) = idx.
Proof. induction idx; simpl; congruence. Qed.

(* list form, stated through the dict {name_i: val_i} *)
Lemma set_list_ok r vals c ia :
  len vals = len (r_dims r) ->
  idx_of (r_dims r) (combine (names (r_dims r)) vals) = Some ia ->
  set_list r vals c = Ok (set_at r ia c).
Proof.
  intros Hl Hi. unfold set_list, slice_matrix. rewrite names_self_in.
  destruct (combine_fst_snd (names (r_dims r)) vals) as [H1 H2].
  { unfold names. rewrite map_length. auto. }
  assert (E : slice_sel (r_dims r) (names (r_dims r)) vals
              = sel_of (r_dims r) (combine (names (r_dims r)) vals)).
  { rewrite <- slice_sel_dict. rewrite H1, H2. reflexivity. }
  rewrite E, (sel_of_covers _ _ _ Hi). simpl. rewrite map_unsome. reflexivity.
Qed.

Lemma dict_values_ok dims a : covers dims a ->
  exists vals, dict_values dims a = Ok vals /\ len vals = len dims /\
               (NoDup (names dims) -> agree_on dims (combine (names dims) vals) a).
Proof.
  induction dims as [|v ds IH]; intro Hc; simpl.
  - exists []. repeat split; auto. intros _ w [].
  - destruct (Hc v (or_introl eq_refl)) as [x [Hx _]]. rewrite Hx.
    destruct IH as [vals [E [L A]]]. { intros w Hw. apply Hc. now right. }
    rewrite E. simpl. exists (x :: vals). repeat split; simpl; auto.
    intros Hnd w Hw. inversion Hnd as [|n l Hnotin Hnd']; subst.
    unfold zlookup. simpl. destruct Hw as [Hw|Hw].
    + subst w. rewrite Z.eqb_refl. now symmetry.
    + destruct (Z.eqb (v_name w) (v_name v)) eqn:E2.
      * apply Z.eqb_eq in E2. exfalso. apply Hnotin. rewrite <- E2. now apply in_names.
      * apply (A Hnd' w Hw).
Qed.

(* dict form *)
Lemma set_dict_ok r a c ia :
  NoDup (names (r_dims r)) -> covers (r_dims r) a -> idx_of (r_dims r) a = Some ia ->
  set_dict r a c = Ok (set_at r ia c).
Proof.
  intros Hnd Hc Hi. unfold set_dict.
  destruct (dict_values_ok _ _ Hc) as [vals [E [L A]]]. rewrite E. simpl.
  apply set_list_ok; auto. rewrite (idx_of_agree _ _ _ (A Hnd)). exact Hi.
Qed.

Lemma sem_set_same r ia c b :
  wf_rel r -> idx_of (r_dims r) b = Some ia -> valid (shape_of (r_dims r)) ia ->
  sem (set_at r ia c) b = c.
Proof.
  intros Hwf Hi Hv. unfold sem, set_at, cell. simpl. rewrite Hi.
  apply nth_upd_same. rewrite Hwf. now apply offset_lt.
Qed.

Lemma sem_set_other r ia c b ib :
  idx_of (r_dims r) b = Some ib -> ib <> ia ->
  valid (shape_of (r_dims r)) ia -> valid (shape_of (r_dims r)) ib ->
  sem (set_at r ia c) b = sem r b.
Proof.
  intros Hi Hne Hva Hvb. unfold sem, set_at, cell. simpl. rewrite Hi.
  apply nth_upd_other. intro E. apply Hne. symmetry. eapply offset_inj; eauto.
Qed.

(* ================================================================== generate_assignment_as_dict *)
Lemma gen_rev_sound l : NoDup (names l) -> forall a, In a (gen_assign_rev l) ->
  covers l a /\ (forall k, In k (map fst a) <-> In k (names l)).
Proof.
  induction l as [|v rest IH]; intros Hnd a Ha; simpl in *.
  - destruct Ha as [<-|[]]. split; [intros w []|]. simpl. tauto.
  - inversion Hnd as [|n l' Hnotin Hnd']; subst.
    apply in_flat_map in Ha as [d [Hd Ha]]. apply in_map_iff in Ha as [a' [<- Ha']].
    destruct (IH Hnd' a' Ha') as [Hc Hk]. split.
    + intros w [->|Hw].
      * exists d. split; auto. apply zl_set_same.
      * destruct (Hc w Hw) as [x [Hx Hin]]. exists x. split; auto.
        rewrite zl_set_other; auto. intro E. apply Hnotin. rewrite <- E. now apply in_names.
    + intro k. rewrite dict_set_keys, Hk. intuition auto.
Qed.

Lemma gen_rev_complete l : NoDup (names l) -> forall b, covers l b ->
  exists a, In a (gen_assign_rev l) /\ agree_on l a b.
Proof.
  induction l as [|v rest IH]; intros Hnd b Hc; simpl in *.
  - exists []. split; auto. intros w [].
  - inversion Hnd as [|n l' Hnotin Hnd']; subst.
    destruct (Hc v (or_introl eq_refl)) as [x [Hx Hin]].
    destruct (IH Hnd' b) as [a' [Ha' Hag]]. { intros w Hw. apply Hc. now right. }
    exists (dict_set Z.eqb (v_name v) x a'). split.
    + apply in_flat_map. exists x. split; auto. apply in_map_iff. eauto.
    + intros w [->|Hw].
      * rewrite zl_set_same. now symmetry.
      * rewrite zl_set_other; auto. intro E. apply Hnotin. rewrite <- E. now apply in_names.
Qed.

Lemma names_rev l : names (rev l) = rev (names l).
Proof. unfold names. apply map_rev. Qed.

Lemma NoDup_names_rev l : NoDup (names l) -> NoDup (names (rev l)).
Proof. intro H. rewrite names_rev. now apply NoDup_rev. Qed.

Lemma gen_assign_covers dims a : NoDup (names dims) -> In a (gen_assign dims) -> covers dims a.
Proof.
  intros Hnd Ha. destruct (gen_rev_sound _ (NoDup_names_rev _ Hnd) a Ha) as [Hc _].
  intros v Hv. apply Hc. now apply in_rev in Hv.
Qed.

Lemma gen_assign_keys dims a : NoDup (names dims) -> In a (gen_assign dims) ->
  forall k, In k (map fst a) <-> In k (names dims).
Proof.
  intros Hnd Ha k. destruct (gen_rev_sound _ (NoDup_names_rev _ Hnd) a Ha) as [_ Hk].
  rewrite Hk, names_rev. symmetry. apply in_rev.
Qed.

Lemma gen_assign_complete dims b : NoDup (names dims) -> covers dims b ->
  exists a, In a (gen_assign dims) /\ agree_on dims a b.
Proof.
  intros Hnd Hc. destruct (gen_rev_complete _ (NoDup_names_rev _ Hnd) b) as [a [Ha Hag]].
  - intros v Hv. apply Hc. now apply in_rev.
  - exists a. split; auto. intros v Hv. apply Hag. now apply in_rev in Hv.
Qed.

(* ================================================================== the "enumerate and set" loop *)
Lemma fold_left_ext {A B} (f g : A -> B -> A) l a :
  (forall x y, f x y = g x y) -> fold_left f l a = fold_left g l a.
Proof. intro H. revert a. induction l as [|y l IH]; intro a; simpl; auto. rewrite H. apply IH. Qed.

Lemma fold_set_spec dims (F : assignment -> res ecost) (g : assignment -> ecost) L r0 :
  NoDup (names dims) -> r_dims r0 = dims -> wf_rel r0 ->
  (forall a, In a L -> covers dims a /\ F a = Ok (g a)) ->
  (forall a b, agree_on dims a b -> g a = g b) ->
  exists r', fold_left (fun acc a => uj <- acc ;; c <- F a ;; set_dict uj a c) L (Ok r0) = Ok r' /\
     r_dims r' = dims /\ wf_rel r' /\
     forall b, covers dims b -> (exists a, In a L /\ agree_on dims a b) -> sem r' b = g b.
Proof.
  intros Hnd Hd Hwf. induction L as [|a L IH] using rev_ind; intros HL Hg.
  - exists r0. simpl. repeat split; auto. intros b _ [a [[] _]].
  - destruct IH as [rL [EL [DL [WL SL]]]]; auto.
    { intros a0 Ha0. apply HL. apply in_or_app. now left. }
    destruct (HL a) as [Hca HFa]. { apply in_or_app. right. now left. }
    rewrite <- DL in Hca. destruct (idx_of_covers _ _ Hca) as [ia [Hia Hva]].
    exists (set_at rL ia (g a)). rewrite fold_left_app. simpl. rewrite EL. simpl. rewrite HFa. simpl.
    split. { apply set_dict_ok; auto. now rewrite DL. }
    split. { simpl. exact DL. }
    split. { now apply wf_set_at. }
    intros b Hcb [a0 [Ha0 Hag]].
    rewrite <- DL in Hcb. destruct (idx_of_covers _ _ Hcb) as [ib [Hib Hvb]].
    destruct (list_eq_dec Nat.eq_dec ib ia) as [->|Hne].
    + rewrite (sem_set_same rL ia (g a) b); auto. apply Hg. rewrite <- DL.
      eapply idx_of_eq_agree; eauto.
    + rewrite (sem_set_other rL ia (g a) b ib); auto.
      apply SL. { now rewrite <- DL. }
      apply in_app_or in Ha0 as [Ha0|[<-|[]]]; [eauto|].
      exfalso. apply Hne. rewrite <- DL in Hag. rewrite (idx_of_agree _ _ _ Hag) in Hia. congruence.
Qed.

(* ================================================================== Variable equality *)
Lemma pair_ze_spec (p q : Z * ecost) : pair_eqb Z.eqb ec_same p q = true <-> p = q.
Proof.
  destruct p as [a b], q as [c d]. unfold pair_eqb. simpl. rewrite andb_true_iff, Z.eqb_eq, ec_same_eq.
  split; [intros [-> ->]; reflexivity | intro H; inversion H; auto].
Qed.

Lemma var_eqb_eq a b : var_eqb a b = true <-> a = b.
Proof.
  destruct a as [n1 d1 c1], b as [n2 d2 c2]. unfold var_eqb. simpl.
  rewrite !andb_true_iff, Z.eqb_eq, (list_eqb_spec Z.eqb Zeqb_iff),
    (list_eqb_spec (pair_eqb Z.eqb ec_same) pair_ze_spec).
  split; [intros [[-> ->] ->]; reflexivity | intro H; inversion H; auto].
Qed.

Lemma var_mem_In v l : var_mem v l = true <-> In v l.
Proof.
  unfold var_mem. rewrite existsb_exists. split.
  - intros [w [Hw E]]. apply var_eqb_eq in E. now subst.
  - intro H. exists v. split; auto. now apply var_eqb_eq.
Qed.

(* ================================================================== join *)
Lemma join_dims_spec d2 : forall d1, exists extra,
  join_dims d1 d2 = d1 ++ extra /\ (forall v, In v extra -> In v d2) /\
  (forall v, In v d2 -> In v (d1 ++ extra)).
Proof.
  unfold join_dims. induction d2 as [|d d2 IH]; intro d1; simpl.
  - exists []. rewrite app_nil_r. repeat split; auto. intros v [].
  - destruct (var_mem d d1) eqn:E.
    + destruct (IH d1) as [extra [H1 [H2 H3]]]. exists extra. repeat split; auto.
      intros v [<-|Hv]; auto. apply in_or_app. left. now apply var_mem_In.
    + destruct (IH (d1 ++ [d])) as [extra [H1 [H2 H3]]]. exists (d :: extra).
      rewrite H1, <- app_assoc. simpl. repeat split; auto.
      * intros v [<-|Hv]; auto.
      * intros v [<-|Hv]. { apply in_or_app. right. now left. }
        specialize (H3 v Hv). rewrite <- app_assoc in H3. exact H3.
Qed.

Lemma filter_asg_lookup a targets k :
  In k (names targets) -> zlookup k (filter_asg a targets) = zlookup k a.
Proof.
  intro Hk. unfold filter_asg, zlookup. induction a as [|[k' v] a IH]; simpl; auto.
  destruct (zmem k' (names targets)) eqn:E; simpl.
  - destruct (Z.eqb k k'); auto.
  - destruct (Z.eqb k k') eqn:E2; auto. apply Z.eqb_eq in E2. subst.
    apply zmem_In in Hk. congruence.
Qed.

Lemma filter_asg_keys a targets : keys_in (filter_asg a targets) targets.
Proof.
  intros k Hk. unfold filter_asg in Hk. apply in_map_iff in Hk as [[k' v] [<- Hin]].
  apply filter_In in Hin as [_ Hm]. simpl in *. now apply zmem_In.
Qed.

Lemma filter_asg_agree a targets : agree_on targets (filter_asg a targets) a.
Proof. intros v Hv. apply filter_asg_lookup. now apply in_names. Qed.

Lemma call_filtered u dims a :
  wf_rel u -> (forall v, In v (r_dims u) -> In v dims) -> covers dims a ->
  call_kw u (filter_asg a (r_dims u)) = Ok (sem u a).
Proof.
  intros Hwf Hi Hc.
  rewrite call_kw_total; auto.
  - f_equal. apply sem_agree. apply filter_asg_agree.
  - apply filter_asg_keys.
  - eapply covers_agree. { apply agree_on_sym. apply filter_asg_agree. }
    eapply covers_incl; eauto.
Qed.

Lemma zero_rel_wf dims : wf_rel (zero_rel dims).
Proof. unfold wf_rel, zero_rel. simpl. apply repeat_length. Qed.

Theorem join_ok u1 u2 :
  wf_rel u1 -> wf_rel u2 ->
  let dims := join_dims (r_dims u1) (r_dims u2) in
  NoDup (names dims) ->
  exists j, join u1 u2 = Ok j /\ r_dims j = dims /\ wf_rel j /\
    forall b, covers dims b -> sem j b = ec_add (sem u1 b) (sem u2 b).
Proof.
  intros W1 W2 dims Hnd.
  destruct (join_dims_spec (r_dims u2) (r_dims u1)) as [extra [Hd [_ Hin2]]].
  fold dims in Hd.
  assert (I1 : forall v, In v (r_dims u1) -> In v dims).
  { intros v Hv. rewrite Hd. apply in_or_app. now left. }
  assert (I2 : forall v, In v (r_dims u2) -> In v dims).
  { intros v Hv. rewrite Hd. now apply Hin2. }
  set (F := fun ass => a <- call_kw u1 (filter_asg ass (r_dims u1)) ;;
                       b <- call_kw u2 (filter_asg ass (r_dims u2)) ;; Ok (ec_add a b)).
  set (g := fun ass => ec_add (sem u1 ass) (sem u2 ass)).
  destruct (fold_set_spec dims F g (gen_assign dims) (zero_rel dims)) as [j [EJ [DJ [WJ SJ]]]]; auto.
  - apply zero_rel_wf.
  - intros a Ha. pose proof (gen_assign_covers _ _ Hnd Ha) as Hc. split; auto.
    unfold F, g. rewrite (call_filtered u1 dims a), (call_filtered u2 dims a); auto.
  - intros a b Hag. unfold g. f_equal; apply sem_agree; eapply agree_on_incl; eauto.
  - exists j. repeat split; auto.
    + unfold join. fold dims. rewrite <- EJ. apply fold_left_ext.
      intros acc ass. unfold join_step, F. destruct acc as [uj|e]; simpl; auto.
      destruct (call_kw u1 _); simpl; auto. destruct (call_kw u2 _); simpl; auto.
    + intros b Hb. apply SJ; auto. now apply gen_assign_complete.
Qed.

(* ================================================================== slice *)
Definition unset (pa : assignment) (v : var) : bool :=
  match zlookup (v_name v) pa with None => true | Some _ => false end.

Lemma sel_of_ok dims pa :
  (forall v, In v dims -> forall val, zlookup (v_name v) pa = Some val -> In val (v_dom v)) ->
  exists sel, sel_of dims pa = Ok sel /\ kept dims sel = filter (unset pa) dims.
Proof.
  induction dims as [|v ds IH]; intro H; simpl.
  - exists []. auto.
  - destruct IH as [rest [E K]]. { intros w Hw. apply H. now right. }
    unfold unset at 1. destruct (zlookup (v_name v) pa) as [val|] eqn:Ev.
    + destruct (index_of_in val (v_dom v)) as [i Hi]. { apply (H v); auto. now left. }
      rewrite Hi, E. simpl. exists (Some i :: rest). split; auto.
    + rewrite E. simpl. exists (None :: rest). split; auto. simpl. now rewrite K.
Qed.

Lemma idx_merge dims pa b : forall sel idx',
  sel_of dims pa = Ok sel -> idx_of (kept dims sel) b = Some idx' ->
  idx_of dims (pa ++ b) = Some (merge sel idx').
Proof.
  induction dims as [|v ds IH]; intros sel idx' Hs Hi; simpl in *.
  - inversion Hs; subst. reflexivity.
  - rewrite lookup_app. destruct (zlookup (v_name v) pa) as [val|] eqn:Ev.
    + destruct (index_of val (v_dom v)) as [vi|]; [|discriminate].
      destruct (sel_of ds pa) as [rest|] eqn:Er; [|discriminate]. simpl in Hs. inversion Hs; subst.
      simpl in Hi. rewrite (IH rest idx' eq_refl Hi). reflexivity.
    + destruct (sel_of ds pa) as [rest|] eqn:Er; [|discriminate]. simpl in Hs. inversion Hs; subst.
      simpl in Hi. destruct (zlookup (v_name v) b) as [x|]; [|discriminate].
      destruct (index_of x (v_dom v)) as [i|]; [|discriminate].
      destruct (idx_of (kept ds rest) b) as [t|] eqn:Et; [|discriminate]. inversion Hi; subst.
      rewrite (IH rest t eq_refl Et). reflexivity.
Qed.

Lemma filter_all_true {A} (p : A -> bool) l : (forall x, In x l -> p x = true) -> filter p l = l.
Proof.
  induction l as [|x l IH]; intro H; simpl; auto. rewrite (H x (or_introl eq_refl)).
  f_equal. apply IH. intros y Hy. apply H. now right.
Qed.

Lemma filter_all_false {A} (p : A -> bool) l : (forall x, In x l -> p x = false) -> filter p l = [].
Proof.
  induction l as [|x l IH]; intro H; simpl; auto. rewrite (H x (or_introl eq_refl)).
  apply IH. intros y Hy. apply H. now right.
Qed.

Theorem slice_ok r pa :
  wf_rel r -> keys_in pa (r_dims r) ->
  (forall v, In v (r_dims r) -> forall val, zlookup (v_name v) pa = Some val -> In val (v_dom v)) ->
  exists sl, slice r pa = Ok sl /\ r_dims sl = filter (unset pa) (r_dims r) /\ wf_rel sl /\
    forall b, covers (r_dims sl) b -> sem sl b = sem r (pa ++ b).
Proof.
  intros Hwf Hk Hval. destruct pa as [|p pa'].
  - exists r. simpl. repeat split; auto.
    symmetry. apply filter_all_true. intros. reflexivity.
  - remember (p :: pa') as pa. destruct (sel_of_ok _ _ Hval) as [sel [Es Ek]].
    exists (slice_with r sel). unfold slice. rewrite Heqpa. rewrite <- Heqpa.
    unfold slice_matrix. rewrite (forallb_keys_in pa _ Hk), slice_sel_dict, Es. simpl.
    split; auto. split; [exact Ek|]. split.
    { unfold wf_rel, slice_with. simpl. apply tab_length. }
    intros b Hb. destruct (idx_of_covers _ _ Hb) as [idx' [Hi Hv]].
    change (r_dims (slice_with r sel)) with (kept (r_dims r) sel) in Hi, Hv.
    unfold sem at 1. change (r_dims (slice_with r sel)) with (kept (r_dims r) sel). rewrite Hi.
    unfold cell at 1. change (r_dims (slice_with r sel)) with (kept (r_dims r) sel).
    change (r_data (slice_with r sel))
      with (tab (shape_of (kept (r_dims r) sel)) (fun idx => cell r (merge sel idx))).
    rewrite nth_tab; auto.
    unfold sem. rewrite (idx_merge _ _ _ _ _ Es Hi). reflexivity.
Qed.

(* ================================================================== the optimisation loop *)
Definition arg_opt (m : mode) (f : Z -> ecost) (dom : list Z) : list Z * ecost :=
  fold_left (fun a v => arg_opt_step m a v (f v)) dom ([], worst m).
Definition opt_cost (m : mode) (f : Z -> ecost) (dom : list Z) : ecost := snd (arg_opt m f dom).

(* b is the optimum of f over dom *)
Definition is_opt (m : mode) (f : Z -> ecost) (dom : list Z) (b : ecost) : Prop :=
  (exists v, In v dom /\ f v = b) /\ forall v, In v dom -> no_worse m b (f v) = true.

Lemma no_worse_not_better m a b : no_worse m a b = true -> better m b a = false.
Proof.
  unfold no_worse. intro H. apply orb_true_iff in H as [H|H].
  - now apply better_asym.
  - apply ec_eqb_eq in H. subst. apply better_irrefl.
Qed.

Lemma better_no_worse m a b : better m a b = true -> no_worse m a b = true.
Proof. intro H. unfold no_worse. now rewrite H. Qed.

Lemma is_nan_eqb_false a b : is_nan a = true -> ec_eqb a b = false.
Proof. destruct a; simpl; intro; try discriminate. reflexivity. Qed.

Definition opt_inv (m : mode) (f : Z -> ecost) (done : list Z) (acc : list Z * ecost) : Prop :=
  is_nan (snd acc) = false /\
  (forall v, In v done -> no_worse m (snd acc) (f v) = true) /\
  fst acc = filter (fun v => ec_eqb (f v) (snd acc)) done /\
  (snd acc = worst m \/ exists v, In v done /\ f v = snd acc).

Lemma opt_inv_step m f done acc v :
  is_nan (f v) = false -> opt_inv m f done acc ->
  opt_inv m f (done ++ [v]) (arg_opt_step m acc v (f v)).
Proof.
  intros Hn [Hb [Hall [Hl Hex]]]. destruct acc as [l b]. simpl in *.
  unfold arg_opt_step. simpl. destruct (better m (f v) b) eqn:Eb; simpl.
  - split; auto. split; [|split].
    + intros w Hw. apply in_app_or in Hw as [Hw|[<-|[]]].
      * eapply no_worse_trans; [apply better_no_worse; eauto | auto].
      * now apply no_worse_refl.
    + rewrite filter_app. simpl. rewrite (ec_eqb_refl _ Hn).
      rewrite filter_all_false; auto. intros w Hw.
      destruct (ec_eqb (f w) (f v)) eqn:E; auto. apply ec_eqb_eq in E.
      specialize (Hall w Hw). rewrite E in Hall. apply no_worse_not_better in Hall. congruence.
    + right. exists v. split; auto. apply in_or_app. right. now left.
  - destruct (ec_eqb (f v) b) eqn:Ee; simpl.
    + pose proof (ec_eqb_eq _ _ Ee) as Ee'. split; auto. split; [|split].
      * intros w Hw. apply in_app_or in Hw as [Hw|[<-|[]]]; auto.
        rewrite Ee'. now apply no_worse_refl.
      * rewrite filter_app. simpl. rewrite Ee. now rewrite Hl.
      * destruct Hex as [Hex|[w [Hw Ew]]]; auto. right. exists w. split; auto.
        apply in_or_app. now left.
    + split; auto. split; [|split].
      * intros w Hw. apply in_app_or in Hw as [Hw|[<-|[]]]; auto.
        now apply not_better_no_worse.
      * rewrite filter_app. simpl. rewrite Ee. now rewrite app_nil_r.
      * destruct Hex as [Hex|[w [Hw Ew]]]; auto. right. exists w. split; auto.
        apply in_or_app. now left.
Qed.

Lemma opt_inv_fold m f dom : forall done acc,
  (forall v, In v dom -> is_nan (f v) = false) -> opt_inv m f done acc ->
  opt_inv m f (done ++ dom) (fold_left (fun a v => arg_opt_step m a v (f v)) dom acc).
Proof.
  induction dom as [|v dom IH]; intros done acc Hn Hi; simpl.
  - now rewrite app_nil_r.
  - replace (done ++ v :: dom) with ((done ++ [v]) ++ dom) by (rewrite <- app_assoc; reflexivity).
    apply IH. { intros w Hw. apply Hn. now right. }
    apply opt_inv_step; auto. apply Hn. now left.
Qed.

(* find_arg_optimal's loop: returned cost = optimum over the domain, returned list = exactly
   the domain values attaining it, in domain order *)
Theorem arg_opt_spec m f dom :
  dom <> [] -> (forall v, In v dom -> is_nan (f v) = false) ->
  is_opt m f dom (snd (arg_opt m f dom)) /\
  fst (arg_opt m f dom) = filter (fun v => ec_eqb (f v) (snd (arg_opt m f dom))) dom.
Proof.
  intros Hne Hn. unfold arg_opt.
  destruct (opt_inv_fold m f dom [] ([], worst m) Hn) as [Hb [Hall [Hl Hex]]].
  { unfold opt_inv. simpl. split; [apply worst_not_nan|]. split; [intros v []|]. split; auto. }
  simpl in *. split; [|exact Hl]. split; [|exact Hall].
  destruct Hex as [Hex|Hex]; auto.
  destruct dom as [|v dom]; [congruence|]. exists v. split; [now left|].
  apply (no_worse_antisym m).
  - rewrite Hex. apply worst_is_worst. apply Hn. now left.
  - apply Hall. now left.
Qed.

Lemma arg_opt_ext m f f' dom : (forall v, In v dom -> f v = f' v) -> arg_opt m f dom = arg_opt m f' dom.
Proof.
  unfold arg_opt. generalize (@nil Z, worst m). induction dom as [|v dom IH]; intros acc H; simpl; auto.
  rewrite (H v (or_introl eq_refl)). apply IH. intros w Hw. apply H. now right.
Qed.

Lemma fold_res_ok {S} (G : Z -> res ecost) (g : Z -> ecost) (h : S -> Z -> ecost -> S) l : forall s0,
  (forall v, In v l -> G v = Ok (g v)) ->
  fold_left (fun acc v => a <- acc ;; c <- G v ;; Ok (h a v c)) l (Ok s0)
  = Ok (fold_left (fun a v => h a v (g v)) l s0).
Proof.
  induction l as [|v l IH]; intros s0 H; simpl; auto.
  rewrite (H v (or_introl eq_refl)). simpl. apply IH. intros w Hw. apply H. now right.
Qed.

Lemma var_eqb_refl x : var_eqb x x = true.
Proof. now apply var_eqb_eq. Qed.

Lemma get_list_single sl x v :
  r_dims sl = [x] -> wf_rel sl -> In v (v_dom x) -> get_list sl [v] = Ok (sem sl [(v_name x, v)]).
Proof.
  intros Hd Hwf Hv. unfold get_list. rewrite Hd. simpl.
  change (dict_of_list Z.eqb [(v_name x, v)]) with [(v_name x, v)].
  apply get_dict_total; auto; rewrite Hd.
  - intros k [<-|[]]. now left.
  - intros w [<-|[]]. exists v. split; auto. unfold zlookup. simpl. now rewrite Z.eqb_refl.
Qed.

Theorem find_arg_optimal_ok x sl m :
  r_dims sl = [x] -> wf_rel sl ->
  find_arg_optimal x sl m = Ok (arg_opt m (fun v => sem sl [(v_name x, v)]) (v_dom x)).
Proof.
  intros Hd Hwf. unfold find_arg_optimal. rewrite Hd, var_eqb_refl.
  unfold arg_opt. apply (fold_res_ok (fun v => get_list sl [v])).
  intros v Hv. now apply get_list_single.
Qed.

(* ================================================================== projection *)
Lemma remove_first_spec x l : In x l ->
  exists pre post, l = pre ++ x :: post /\ remove_first x l = Ok (pre ++ post).
Proof.
  induction l as [|y l IH]; intro H; simpl in *; [contradiction|].
  destruct (var_eqb y x) eqn:E.
  - apply var_eqb_eq in E. subst. exists [], l. auto.
  - destruct H as [->|H]; [rewrite var_eqb_refl in E; discriminate|].
    destruct (IH H) as [pre [post [E1 E2]]]. exists (y :: pre), post. rewrite E2. simpl.
    split; auto. now rewrite E1.
Qed.

Lemma names_app a b : names (a ++ b) = names a ++ names b.
Proof. unfold names. apply map_app. Qed.

Lemma names_inj dims v w : NoDup (names dims) -> In v dims -> In w dims -> v_name v = v_name w -> v = w.
Proof.
  induction dims as [|d ds IH]; intros Hnd Hv Hw E; simpl in *; [contradiction|].
  inversion Hnd as [|n l Hnotin Hnd']; subst.
  destruct Hv as [->|Hv], Hw as [->|Hw]; auto.
  - exfalso. apply Hnotin. rewrite E. now apply in_names.
  - exfalso. apply Hnotin. rewrite <- E. now apply in_names.
Qed.

Lemma lk_eq_app_cons n v (pa : assignment) :
  zlookup n pa = None -> lk_eq (pa ++ [(n, v)]) ((n, v) :: pa).
Proof.
  intros Hn k. rewrite lookup_app. unfold zlookup at 2 3. simpl.
  destruct (Z.eqb k n) eqn:E.
  - apply Z.eqb_eq in E. subst. now rewrite Hn.
  - fold (@zlookup Z k pa). destruct (zlookup k pa); auto.
Qed.

Theorem projection_ok r x m :
  wf_rel r -> NoDup (names (r_dims r)) -> In x (r_dims r) ->
  exists pj pre post, projection r x m = Ok pj /\
    r_dims r = pre ++ x :: post /\ r_dims pj = pre ++ post /\ wf_rel pj /\
    forall b, covers (pre ++ post) b ->
      sem pj b = opt_cost m (fun v => sem r ((v_name x, v) :: b)) (v_dom x).
Proof.
  intros Hwf Hnd Hin. destruct (remove_first_spec _ _ Hin) as [pre [post [Ed Er]]].
  set (rem := pre ++ post).
  assert (Hnd2 : NoDup (names rem)).
  { rewrite Ed in Hnd. unfold rem. rewrite names_app in *. simpl in Hnd.
    now apply NoDup_remove_1 in Hnd. }
  assert (Hxn : ~ In (v_name x) (names rem)).
  { rewrite Ed in Hnd. unfold rem. rewrite names_app in *. simpl in Hnd.
    now apply NoDup_remove_2 in Hnd. }
  assert (Hsub : forall v, In v rem -> In v (r_dims r)).
  { intros v Hv. rewrite Ed. unfold rem in Hv. apply in_app_or in Hv as [Hv|Hv]; apply in_or_app; auto.
    right. now right. }
  assert (Hsplit : forall v, In v (r_dims r) -> v = x \/ In v rem).
  { intros v Hv. rewrite Ed in Hv. unfold rem. apply in_app_or in Hv as [Hv|[Hv|Hv]]; auto.
    - right. apply in_or_app. auto.
    - right. apply in_or_app. auto. }
  set (F := fun pa => sl <- slice r pa ;; oc <- find_arg_optimal x sl m ;; Ok (snd oc)).
  set (g := fun pa => opt_cost m (fun v => sem r ((v_name x, v) :: pa)) (v_dom x)).
  destruct (fold_set_spec rem F g (gen_assign rem) (zero_rel rem)) as [pj [EJ [DJ [WJ SJ]]]]; auto.
  - apply zero_rel_wf.
  - intros pa Hpa. pose proof (gen_assign_covers _ _ Hnd2 Hpa) as Hc.
    pose proof (gen_assign_keys _ _ Hnd2 Hpa) as Hk. split; auto.
    assert (Hxu : zlookup (v_name x) pa = None).
    { apply lookup_none_keys. intro H. apply Hxn. now apply Hk. }
    destruct (slice_ok r pa Hwf) as [sl [Es [Ds [Ws Ss]]]].
    + intros k Hkk. apply Hk in Hkk. unfold names in *. apply in_map_iff in Hkk as [w [<- Hw]].
      apply in_map. auto.
    + intros v Hv val Hl. apply lookup_some_keys in Hl as Hkk. apply Hk in Hkk.
      unfold names in Hkk. apply in_map_iff in Hkk as [w [En Hw]].
      assert (w = v) by (apply (names_inj (r_dims r)); auto). subst w.
      destruct (Hc v Hw) as [x' [Hx' Hi']]. congruence.
    + assert (Dx : r_dims sl = [x]).
      { rewrite Ds, Ed, filter_app. simpl. unfold unset at 2. rewrite Hxu.
        rewrite !filter_all_false; auto.
        - intros w Hw. unfold unset. destruct (Hc w) as [y [Hy _]].
          { unfold rem. apply in_or_app. now right. } now rewrite Hy.
        - intros w Hw. unfold unset. destruct (Hc w) as [y [Hy _]].
          { unfold rem. apply in_or_app. now left. } now rewrite Hy. }
      unfold F. rewrite Es. simpl. rewrite (find_arg_optimal_ok x sl m Dx Ws). simpl.
      unfold g, opt_cost. f_equal. f_equal. apply arg_opt_ext. intros v Hv.
      rewrite Ss.
      * apply sem_lk_eq. now apply lk_eq_app_cons.
      * rewrite Dx. intros w [<-|[]]. exists v. split; auto. unfold zlookup. simpl.
        now rewrite Z.eqb_refl.
  - intros a b Hag. unfold g, opt_cost. f_equal. apply arg_opt_ext. intros v _.
    apply sem_agree. intros w Hw. unfold zlookup. simpl.
    destruct (Z.eqb (v_name w) (v_name x)) eqn:E; auto.
    destruct (Hsplit w Hw) as [->|Hr]; [rewrite Z.eqb_refl in E; discriminate|].
    apply (Hag w Hr).
  - exists pj, pre, post. repeat split; auto.
    + unfold projection. rewrite Er. simpl. fold rem. rewrite <- EJ. apply fold_left_ext.
      intros acc pa. unfold proj_step, F. destruct acc as [uj|e]; simpl; auto.
      destruct (slice r pa); simpl; auto. destruct (find_arg_optimal x a m); simpl; auto.
    + intros b Hb. apply SJ; auto. now apply gen_assign_complete.
Qed.

(* with nan-free costs the projected value is the optimum over x *)
Theorem opt_cost_spec m f dom :
  dom <> [] -> (forall v, In v dom -> is_nan (f v) = false) -> is_opt m f dom (opt_cost m f dom).
Proof. intros H1 H2. apply (arg_opt_spec m f dom H1 H2). Qed.

Lemma is_opt_unique m f dom b1 b2 : is_opt m f dom b1 -> is_opt m f dom b2 -> b1 = b2.
Proof.
  intros [[v1 [I1 E1]] A1] [[v2 [I2 E2]] A2]. apply (no_worse_antisym m).
  - rewrite <- E2. now apply A1.
  - rewrite <- E1. now apply A2.
Qed.

(* the returned list is the FULL set of optimal values *)
Theorem arg_opt_values m f dom v :
  dom <> [] -> (forall w, In w dom -> is_nan (f w) = false) ->
  (In v (fst (arg_opt m f dom)) <-> In v dom /\ is_opt m f dom (f v)).
Proof.
  intros Hne Hn. destruct (arg_opt_spec m f dom Hne Hn) as [Ho Hl]. rewrite Hl, filter_In. split.
  - intros [Hi E]. split; auto. apply ec_eqb_eq in E. now rewrite E.
  - intros [Hi Hv]. split; auto. rewrite (is_opt_unique _ _ _ _ _ Hv Ho).
    apply ec_eqb_refl. destruct Ho as [[w [Hw <-]] _]. now apply Hn.
Qed.

(* ================================================================== assignment_cost / find_optimal *)
Definition sum_sem (cs : list rel) (a : assignment) : ecost :=
  fold_left (fun acc c => ec_add acc (sem c a)) cs (Fin 0).

Lemma ac_dims_false a dims : forall cost seen filt,
  NoDup (names dims) -> covers dims a ->
  exists filt', ac_dims a false dims (cost, seen, filt) = Ok (cost, seen, filt') /\
    (forall k, In k (map fst filt') <-> In k (map fst filt) \/ In k (names dims)) /\
    (forall v, In v dims -> zlookup (v_name v) filt' = zlookup (v_name v) a).
Proof.
  induction dims as [|v ds IH]; intros cost seen filt Hnd Hc; simpl.
  - exists filt. split; [reflexivity|]. split; [|intros w []]. intro k. simpl. tauto.
  - destruct (Hc v (or_introl eq_refl)) as [x [Hx _]]. rewrite Hx.
    inversion Hnd as [|n l Hnotin Hnd']; subst.
    destruct (IH cost seen (dict_set Z.eqb (v_name v) x filt) Hnd') as [filt' [E [K L]]].
    { intros w Hw. apply Hc. now right. }
    exists filt'. split; auto. split.
    + intro k. rewrite K, dict_set_keys. intuition auto.
    + intros w [<-|Hw]; auto.
      assert (Hk : forall f0 : assignment, forall ds0 cost0 seen0 r0,
                 ac_dims a false ds0 (cost0, seen0, f0) = Ok r0 -> ~ In (v_name v) (names ds0) ->
                 zlookup (v_name v) (snd r0) = zlookup (v_name v) f0).
      { intros f0 ds0. revert f0. induction ds0 as [|d ds0 IHd]; intros f0 c0 s0 r0 Hr Hni; simpl in *.
        - inversion Hr. reflexivity.
        - destruct (zlookup (v_name d) a) as [y|]; [|discriminate].
          rewrite (IHd _ _ _ _ Hr); [|tauto]. apply zl_set_other. intro E2. apply Hni. now left. }
      pose proof (Hk _ _ _ _ _ E Hnotin) as Hk1. simpl in Hk1. rewrite Hk1.
      rewrite zl_set_same. now symmetry.
Qed.

Definition cons_ok (a : assignment) (c : rel) : Prop :=
  wf_rel c /\ NoDup (names (r_dims c)) /\ covers (r_dims c) a.

Lemma ac_loop_ok a cs : forall cost seen,
  (forall c, In c cs -> cons_ok a c) ->
  ac_loop a false cs (cost, seen) = Ok (fold_left (fun acc c => ec_add acc (sem c a)) cs cost).
Proof.
  induction cs as [|c cs IH]; intros cost seen H; simpl; auto.
  destruct (H c (or_introl eq_refl)) as [Hwf [Hnd Hc]].
  destruct (ac_dims_false a (r_dims c) cost seen [] Hnd Hc) as [filt [E [K L]]].
  unfold assignment in *. rewrite E. simpl.
  rewrite (call_kw_total c filt); auto.
  - simpl. rewrite (sem_agree c filt a L). apply IH. intros c' Hc'. apply H. now right.
  - intros k Hk. apply K in Hk as [[]|Hk]. exact Hk.
  - eapply covers_agree; [|exact Hc]. apply agree_on_sym. exact L.
Qed.

Theorem assignment_cost_ok a cs :
  (forall c, In c cs -> cons_ok a c) -> assignment_cost a cs false = Ok (sum_sem cs a).
Proof. intro H. unfold assignment_cost, sum_sem. now apply ac_loop_ok. Qed.

Lemma cons_ok_lk_eq a b c : lk_eq a b -> cons_ok a c -> cons_ok b c.
Proof.
  intros H [H1 [H2 H3]]. repeat split; auto. eapply covers_agree; eauto. now apply lk_eq_agree.
Qed.

Lemma sum_sem_lk_eq cs a b : lk_eq a b -> sum_sem cs a = sum_sem cs b.
Proof.
  intro H. unfold sum_sem. generalize (Fin 0). induction cs as [|c cs IH]; intro acc; simpl; auto.
  rewrite (sem_lk_eq c a b H). apply IH.
Qed.

Lemma opt_step_eq m acc v c : opt_step m acc v c = arg_opt_step m acc v c.
Proof.
  unfold opt_step, arg_opt_step. destruct (ec_eqb c (snd acc)) eqn:E.
  - destruct (better m c (snd acc)) eqn:B; auto. apply better_not_eq in B. congruence.
  - reflexivity.
Qed.

(* the local cost find_optimal minimises: constraints + own cost *)
Definition local_cost (x : var) (a : assignment) (cs : list rel) (v : Z) : ecost :=
  ec_add (sum_sem cs (dict_set Z.eqb (v_name x) v a)) (cost_for_val x v).
Definition cs_ok (x : var) (a : assignment) (cs : list rel) : Prop :=
  forall v, In v (v_dom x) -> forall c, In c cs -> cons_ok (dict_set Z.eqb (v_name x) v a) c.

Lemma find_optimal_fold x a cs m dom : forall ak acc,
  (forall j, j <> v_name x -> zlookup j ak = zlookup j a) ->
  (forall v, In v dom -> forall c, In c cs -> cons_ok (dict_set Z.eqb (v_name x) v a) c) ->
  exists ak',
    fold_left (fun st v =>
                 s <- st ;;
                 let a1 := dict_set Z.eqb (v_name x) v (fst s) in
                 c <- assignment_cost a1 cs false ;;
                 Ok (a1, opt_step m (snd s) v (ec_add c (cost_for_val x v))))
              dom (Ok (ak, acc))
    = Ok (ak', fold_left (fun s v => arg_opt_step m s v (local_cost x a cs v)) dom acc).
Proof.
  induction dom as [|v dom IH]; intros ak acc Hak Hok; simpl.
  - eauto.
  - pose proof (lk_eq_set (v_name x) v ak a Hak) as Hlk.
    rewrite (assignment_cost_ok (dict_set Z.eqb (v_name x) v ak) cs).
    + simpl. rewrite opt_step_eq, (sum_sem_lk_eq cs _ _ Hlk).
      apply IH.
      * intros j Hj. rewrite zl_set_other; auto.
      * intros w Hw. apply Hok. now right.
    + intros c Hc. eapply cons_ok_lk_eq. { intro k. symmetry. apply Hlk. }
      apply Hok; auto. now left.
Qed.

Theorem find_optimal_ok x a cs m :
  cs_ok x a cs -> find_optimal x a cs m = Ok (arg_opt m (local_cost x a cs) (v_dom x)).
Proof.
  intro H. unfold find_optimal.
  destruct (find_optimal_fold x a cs m (v_dom x) a ([], worst m)) as [ak' E]; auto.
  unfold assignment in *. rewrite E. reflexivity.
Qed.

(* ================================================================== optimal_cost_value *)
Lemma ocv_fold m (f : Z -> ecost) rest : forall done cb vb,
  (forall v, In v rest -> is_nan (f v) = false) -> is_nan cb = false ->
  In vb done -> cb = f vb -> (forall w, In w done -> no_worse m cb (f w) = true) ->
  let best := fold_left (fun b v =>
                 let it := (f v, v) in
                 if (match m with Min => tuple_lt it b | Max => tuple_lt b it end) then it else b)
              rest (cb, vb) in
  In (snd best) (done ++ rest) /\ fst best = f (snd best) /\
  forall w, In w (done ++ rest) -> no_worse m (fst best) (f w) = true.
Proof.
  induction rest as [|v rest IH]; intros done cb vb Hn Hcb Hin Hc Hall; simpl.
  - rewrite app_nil_r. auto.
  - assert (Hnv : is_nan (f v) = false) by (apply Hn; now left).
    assert (Hn' : forall w, In w rest -> is_nan (f w) = false) by (intros; apply Hn; now right).
    replace (done ++ v :: rest) with ((done ++ [v]) ++ rest) by (rewrite <- app_assoc; reflexivity).
    match goal with |- context [fold_left _ rest ?st] => destruct st as [cb' vb'] eqn:Est end.
    assert (Hstep : is_nan cb' = false /\ In vb' (done ++ [v]) /\ cb' = f vb' /\
                    forall w, In w (done ++ [v]) -> no_worse m cb' (f w) = true).
    { assert (Hnew : (forall w, In w done -> no_worse m (f v) (f w) = true) ->
                     (cb', vb') = (f v, v) ->
                     is_nan cb' = false /\ In vb' (done ++ [v]) /\ cb' = f vb' /\
                     forall w, In w (done ++ [v]) -> no_worse m cb' (f w) = true).
      { intros Hbetter E. inversion E; subst. split; auto. split; [apply in_or_app; right; now left|].
        split; auto. intros w Hw. apply in_app_or in Hw as [Hw|[<-|[]]]; auto. now apply no_worse_refl. }
      assert (Hold : no_worse m cb (f v) = true -> (cb', vb') = (cb, vb) ->
                     is_nan cb' = false /\ In vb' (done ++ [v]) /\ cb' = f vb' /\
                     forall w, In w (done ++ [v]) -> no_worse m cb' (f w) = true).
      { intros Hnw E. inversion E; subst. split; auto. split; [apply in_or_app; now left|].
        split; auto. intros w Hw. apply in_app_or in Hw as [Hw|[<-|[]]]; auto. }
      unfold tuple_lt in Est. simpl in Est. destruct m.
      - destruct (ec_eqb (f v) cb) eqn:Ee.
        + pose proof (ec_eqb_eq _ _ Ee) as Ee'.
          destruct (Z.ltb v vb); [apply Hnew | apply Hold]; auto.
          * intros w Hw. rewrite Ee'. auto.
          * rewrite Ee'. now apply no_worse_refl.
        + destruct (ec_ltb (f v) cb) eqn:El; [apply Hnew | apply Hold]; auto.
          * intros w Hw. eapply no_worse_trans; [apply (better_no_worse Min); exact El | auto].
          * apply not_better_no_worse; auto.
      - destruct (ec_eqb cb (f v)) eqn:Ee.
        + pose proof (ec_eqb_eq _ _ Ee) as Ee'.
          destruct (Z.ltb vb v); [apply Hnew | apply Hold]; auto.
          * intros w Hw. rewrite <- Ee'. auto.
          * rewrite <- Ee'. now apply no_worse_refl.
        + destruct (ec_ltb cb (f v)) eqn:El; [apply Hnew | apply Hold]; auto.
          * intros w Hw. eapply no_worse_trans; [apply (better_no_worse Max); exact El | auto].
          * apply (not_better_no_worse Max); auto. }
    destruct Hstep as [S1 [S2 [S3 S4]]]. apply IH; auto.
Qed.

Theorem optimal_cost_value_ok x m :
  v_dom x <> [] -> (forall v, In v (v_dom x) -> is_nan (cost_for_val x v) = false) ->
  exists v c, optimal_cost_value x m = Ok (v, c) /\ In v (v_dom x) /\ c = cost_for_val x v /\
    forall w, In w (v_dom x) -> no_worse m c (cost_for_val x w) = true.
Proof.
  intros Hne Hn. unfold optimal_cost_value. destruct (v_dom x) as [|d rest] eqn:Ed; [congruence|].
  pose proof (ocv_fold m (cost_for_val x) rest [d] (cost_for_val x d) d) as H. simpl in H.
  match type of H with _ -> _ -> _ -> _ -> _ -> ?P => assert (HP : P) end.
  { apply H; auto.
    - intros v Hv. apply Hn. now right.
    - apply Hn. now left.
    - intros w [<-|[]]. apply no_worse_refl. apply Hn. now left. }
  destruct HP as [H1 [H2 H3]].
  match goal with |- context [fold_left ?F rest ?st] => set (best := fold_left F rest st) in * end.
  exists (snd best), (fst best). repeat split; auto.
Qed.

(* ================================================================== DSA value choice *)
Lemma remove_z_In c l v : In v (remove_z c l) -> In v l.
Proof.
  induction l as [|y l IH]; simpl; auto. destruct (Z.eqb y c); simpl; intro H.
  - now right.
  - destruct H as [H|H]; [now left | right; auto].
Qed.

Lemma dsa_choice_in vr viol cur cc best d p v :
  dsa_choice vr viol cur cc best d p = Ok (Some v) -> In v (fst best).
Proof.
  unfold dsa_choice.
  set (trimmed := if Nat.ltb 1 (len (fst best)) then remove_z cur (fst best) else fst best).
  assert (Ht : forall w, In w trimmed -> In w (fst best)).
  { unfold trimmed. destruct (Nat.ltb 1 (len (fst best))); auto. intros w. apply remove_z_In. }
  assert (Hc : forall cands, (forall w, In w cands -> In w (fst best)) ->
               (if d then match cands with [] => Err ErrIndex | _ => Ok (nth_error cands p) end
                else Ok None) = Ok (Some v) -> In v (fst best)).
  { intros cands Hs H. destruct d; [|discriminate]. destruct cands as [|c0 cands]; [discriminate|].
    inversion H as [H1]. apply Hs. eapply nth_error_In; eauto. }
  destruct (ec_ltb (Fin 0) (delta cc (snd best))).
  - apply Hc. auto.
  - destruct (ec_eqb (delta cc (snd best)) (Fin 0)); [|discriminate].
    destruct vr; try discriminate.
    + destruct viol; [|discriminate]. now apply Hc.
    + now apply Hc.
Qed.

Theorem dsa_selects_best x vr m a cs cur viol d p v :
  dsa_evaluate x vr m a cs cur viol d p = Ok (Some v) ->
  exists best, find_optimal x (dict_set Z.eqb (v_name x) cur a) cs m = Ok best /\ In v (fst best).
Proof.
  unfold dsa_evaluate. intro H.
  destruct (find_optimal x (dict_set Z.eqb (v_name x) cur a) cs m) as [best|e]; [|discriminate].
  simpl in H. destruct (assignment_cost _ cs false) as [cc|e]; [|discriminate]. simpl in H.
  exists best. split; auto. eapply dsa_choice_in; eauto.
Qed.

Theorem dsatuto_selects_best x m a cs cur d v :
  dsatuto_evaluate x m a cs cur d = Ok (Some v) ->
  exists best, find_optimal x (dict_set Z.eqb (v_name x) cur a) cs m = Ok best /\ In v (fst best).
Proof.
  unfold dsatuto_evaluate. intro H.
  destruct (assignment_cost _ cs false) as [cc|e]; [|discriminate]. simpl in H.
  destruct (find_optimal x (dict_set Z.eqb (v_name x) cur a) cs m) as [best|e]; [|discriminate].
  simpl in H. exists best. split; auto.
  match type of H with (if ?c then _ else _) = _ => destruct c end; [|discriminate].
  destruct (fst best); simpl in *; [discriminate|]. inversion H. now left.
Qed.

(* ================================================================== statements used by Prop_C12 / Prop_C06 *)
Lemma set_at_spec r a c ia :
  wf_rel r -> idx_of (r_dims r) a = Some ia -> valid (shape_of (r_dims r)) ia ->
  forall b, covers (r_dims r) b ->
    (agree_on (r_dims r) a b -> sem (set_at r ia c) b = c) /\
    (~ agree_on (r_dims r) a b -> sem (set_at r ia c) b = sem r b).
Proof.
  intros Hwf Hia Hva b Hb. destruct (idx_of_covers _ _ Hb) as [ib [Hib Hvb]]. split; intro H.
  - apply sem_set_same; auto. rewrite <- (idx_of_agree _ _ _ H). exact Hia.
  - apply (sem_set_other r ia c b ib); auto. intros ->. apply H. eapply idx_of_eq_agree; eauto.
Qed.

Theorem set_value_dict_spec_l : forall r a c,
  wf_rel r -> NoDup (names (r_dims r)) -> covers (r_dims r) a ->
  exists r', set_dict r a c = Ok r' /\ r_dims r' = r_dims r /\ wf_rel r' /\
    forall b, covers (r_dims r) b ->
      (agree_on (r_dims r) a b -> sem r' b = c) /\
      (~ agree_on (r_dims r) a b -> sem r' b = sem r b).
Proof.
  intros r a c Hwf Hnd Hc. destruct (idx_of_covers _ _ Hc) as [ia [Hia Hva]].
  exists (set_at r ia c). split; [now apply set_dict_ok|]. split; [reflexivity|].
  split; [now apply wf_set_at|]. now apply set_at_spec.
Qed.

Lemma covers_combine dims vals :
  NoDup (names dims) -> Forall2 (fun v x => In x (v_dom v)) dims vals ->
  covers dims (combine (names dims) vals).
Proof.
  intros Hnd H. induction H as [|v x ds vs Hx HF IH]; simpl.
  - intros w [].
  - inversion Hnd as [|n l Hnotin Hnd']; subst. intros w [<-|Hw].
    + exists x. split; auto. unfold zlookup. simpl. now rewrite Z.eqb_refl.
    + destruct (IH Hnd' w Hw) as [y [Hy Hi]]. exists y. split; auto.
      unfold zlookup. simpl. destruct (Z.eqb (v_name w) (v_name v)) eqn:E; auto.
      apply Z.eqb_eq in E. exfalso. apply Hnotin. rewrite <- E. now apply in_names.
Qed.

Theorem set_value_list_spec_l : forall r vals c,
  wf_rel r -> NoDup (names (r_dims r)) ->
  Forall2 (fun v x => In x (v_dom v)) (r_dims r) vals ->
  let a := combine (names (r_dims r)) vals in
  exists r', set_list r vals c = Ok r' /\ r_dims r' = r_dims r /\ wf_rel r' /\
    forall b, covers (r_dims r) b ->
      (agree_on (r_dims r) a b -> sem r' b = c) /\
      (~ agree_on (r_dims r) a b -> sem r' b = sem r b).
Proof.
  intros r vals c Hwf Hnd HF a.
  pose proof (covers_combine _ _ Hnd HF) as Hc. fold a in Hc.
  destruct (idx_of_covers _ _ Hc) as [ia [Hia Hva]].
  exists (set_at r ia c). split.
  { apply set_list_ok; auto. clear - HF. induction HF; simpl; auto. }
  split; [reflexivity|]. split; [now apply wf_set_at|]. now apply set_at_spec.
Qed.

Lemma dict_values_forall2 dims a vals :
  dict_values dims a = Ok vals -> Forall2 (fun v x => zlookup (v_name v) a = Some x) dims vals.
Proof.
  revert vals. induction dims as [|v ds IH]; intros vals H; simpl in *.
  - inversion H. constructor.
  - destruct (zlookup (v_name v) a) as [x|] eqn:E; [|discriminate].
    destruct (dict_values ds a) as [rest|]; [|discriminate]. simpl in H. inversion H; subst.
    constructor; auto.
Qed.

(* the dict form IS the list form on the values read off the dict in scope order *)
Theorem set_value_forms_agree_l : forall r a c, covers (r_dims r) a ->
  exists vals, Forall2 (fun v x => zlookup (v_name v) a = Some x) (r_dims r) vals /\
               set_dict r a c = set_list r vals c.
Proof.
  intros r a c Hc. destruct (dict_values_ok _ _ Hc) as [vals [E _]]. exists vals.
  split; [now apply dict_values_forall2|]. unfold set_dict. now rewrite E.
Qed.

Lemma join_dims_scope d2 : forall d1, exists extra,
  join_dims d1 d2 = d1 ++ extra /\
  (forall v, In v extra -> In v d2 /\ ~ In v d1) /\
  (forall v, In v d2 -> In v (d1 ++ extra)).
Proof.
  unfold join_dims. induction d2 as [|d d2 IH]; intro d1; simpl.
  - exists []. rewrite app_nil_r. split; [reflexivity|]. split; intros v [].
  - destruct (var_mem d d1) eqn:E.
    + destruct (IH d1) as [extra [H1 [H2 H3]]]. exists extra. split; [exact H1|]. split.
      * intros v Hv. destruct (H2 v Hv). split; auto.
      * intros v [<-|Hv]; auto. apply in_or_app. left. now apply var_mem_In.
    + destruct (IH (d1 ++ [d])) as [extra [H1 [H2 H3]]]. exists (d :: extra).
      split. { rewrite H1, <- app_assoc. reflexivity. } split.
      * intros v [<-|Hv].
        -- split; [now left|]. intro Hin. apply var_mem_In in Hin. congruence.
        -- destruct (H2 v Hv) as [A B]. split; [now right|]. intro Hin. apply B.
           apply in_or_app. now left.
      * intros v [<-|Hv]. { apply in_or_app. right. now left. }
        specialize (H3 v Hv). rewrite <- app_assoc in H3. exact H3.
Qed.

Theorem join_scope_l : forall u1 u2, exists extra,
  join_dims (r_dims u1) (r_dims u2) = r_dims u1 ++ extra /\
  (forall v, In v extra -> In v (r_dims u2) /\ ~ In v (r_dims u1)) /\
  (forall v, In v (r_dims u2) -> In v (r_dims u1 ++ extra)).
Proof. intros u1 u2. apply join_dims_scope. Qed.

Theorem projection_spec_l : forall r x m,
  wf_rel r -> NoDup (names (r_dims r)) -> In x (r_dims r) -> v_dom x <> [] ->
  exists pj pre post, projection r x m = Ok pj /\
    r_dims r = pre ++ x :: post /\ r_dims pj = pre ++ post /\ wf_rel pj /\
    forall b, covers (pre ++ post) b ->
      sem pj b = opt_cost m (fun v => sem r ((v_name x, v) :: b)) (v_dom x) /\
      ((forall v, In v (v_dom x) -> is_nan (sem r ((v_name x, v) :: b)) = false) ->
       is_opt m (fun v => sem r ((v_name x, v) :: b)) (v_dom x) (sem pj b)).
Proof.
  intros r x m Hwf Hnd Hin Hne.
  destruct (projection_ok r x m Hwf Hnd Hin) as [pj [pre [post [E [D1 [D2 [W S]]]]]]].
  exists pj, pre, post. split; [exact E|]. split; [exact D1|]. split; [exact D2|]. split; [exact W|].
  intros b Hb. split; [now apply S|]. intro Hn. rewrite (S b Hb). now apply opt_cost_spec.
Qed.

Theorem generate_assignment_complete_l : forall dims, NoDup (names dims) ->
  (forall a, In a (gen_assign dims) ->
     covers dims a /\ forall k, In k (map fst a) <-> In k (names dims)) /\
  (forall b, covers dims b -> exists a, In a (gen_assign dims) /\ agree_on dims a b).
Proof.
  intros dims Hnd. split.
  - intros a Ha. split; [now apply gen_assign_covers | now apply gen_assign_keys].
  - intros b Hb. now apply gen_assign_complete.
Qed.

Theorem find_arg_optimal_spec_l : forall x r m,
  r_dims r = [x] -> wf_rel r -> v_dom x <> [] ->
  let f := fun v => sem r [(v_name x, v)] in
  (forall v, In v (v_dom x) -> is_nan (f v) = false) ->
  exists l b, find_arg_optimal x r m = Ok (l, b) /\ is_opt m f (v_dom x) b /\
    l = filter (fun v => ec_eqb (f v) b) (v_dom x) /\
    forall v, In v l <-> In v (v_dom x) /\ is_opt m f (v_dom x) (f v).
Proof.
  intros x r m Hd Hwf Hne f Hn.
  exists (fst (arg_opt m f (v_dom x))), (snd (arg_opt m f (v_dom x))).
  destruct (arg_opt_spec m f (v_dom x) Hne Hn) as [Ho Hl]. split.
  { rewrite (find_arg_optimal_ok x r m Hd Hwf). fold f. now destruct (arg_opt m f (v_dom x)). }
  split; auto. split; auto. intro v. now apply arg_opt_values.
Qed.

Theorem find_optimal_spec_l : forall x a cs m,
  cs_ok x a cs -> v_dom x <> [] ->
  let f := local_cost x a cs in
  (forall v, In v (v_dom x) -> is_nan (f v) = false) ->
  exists l b, find_optimal x a cs m = Ok (l, b) /\ is_opt m f (v_dom x) b /\
    l = filter (fun v => ec_eqb (f v) b) (v_dom x) /\
    forall v, In v l <-> In v (v_dom x) /\ is_opt m f (v_dom x) (f v).
Proof.
  intros x a cs m Hok Hne f Hn.
  exists (fst (arg_opt m f (v_dom x))), (snd (arg_opt m f (v_dom x))).
  destruct (arg_opt_spec m f (v_dom x) Hne Hn) as [Ho Hl]. split.
  { rewrite (find_optimal_ok x a cs m Hok). fold f. now destruct (arg_opt m f (v_dom x)). }
  split; auto. split; auto. intro v. now apply arg_opt_values.
Qed.

Theorem dsa_moves_within_best_l : forall x vr m a cs cur viol d p v,
  let a1 := dict_set Z.eqb (v_name x) cur a in
  let f := local_cost x a1 cs in
  cs_ok x a1 cs -> v_dom x <> [] -> (forall w, In w (v_dom x) -> is_nan (f w) = false) ->
  dsa_evaluate x vr m a cs cur viol d p = Ok (Some v) ->
  In v (v_dom x) /\ is_opt m f (v_dom x) (f v).
Proof.
  intros x vr m a cs cur viol d p v a1 f Hok Hne Hn H.
  destruct (dsa_selects_best _ _ _ _ _ _ _ _ _ _ H) as [best [E Hin]].
  fold a1 in E. rewrite (find_optimal_ok x a1 cs m Hok) in E. inversion E; subst.
  now apply (arg_opt_values m f (v_dom x) v Hne Hn).
Qed.

Theorem dsatuto_moves_within_best_l : forall x m a cs cur d v,
  let a1 := dict_set Z.eqb (v_name x) cur a in
  let f := local_cost x a1 cs in
  cs_ok x a1 cs -> v_dom x <> [] -> (forall w, In w (v_dom x) -> is_nan (f w) = false) ->
  dsatuto_evaluate x m a cs cur d = Ok (Some v) ->
  In v (v_dom x) /\ is_opt m f (v_dom x) (f v).
Proof.
  intros x m a cs cur d v a1 f Hok Hne Hn H.
  destruct (dsatuto_selects_best _ _ _ _ _ _ _ H) as [best [E Hin]].
  fold a1 in E. rewrite (find_optimal_ok x a1 cs m Hok) in E. inversion E; subst.
  now apply (arg_opt_values m f (v_dom x) v Hne Hn).
Qed.

(* ================================================================== interface aliases
   (same facts in the "given the result" form, convenient for later developments) *)
Lemma dims_join u1 u2 j :
  wf_rel u1 -> wf_rel u2 -> NoDup (names (join_dims (r_dims u1) (r_dims u2))) ->
  join u1 u2 = Ok j -> r_dims j = join_dims (r_dims u1) (r_dims u2) /\ wf_rel j.
Proof.
  intros W1 W2 Hnd E. destruct (join_ok u1 u2 W1 W2 Hnd) as [j' [E' [D [W _]]]].
  rewrite E in E'. inversion E'; subst. auto.
Qed.

Lemma sem_join u1 u2 j b :
  wf_rel u1 -> wf_rel u2 -> NoDup (names (join_dims (r_dims u1) (r_dims u2))) ->
  join u1 u2 = Ok j -> covers (join_dims (r_dims u1) (r_dims u2)) b ->
  sem j b = ec_add (sem u1 b) (sem u2 b).
Proof.
  intros W1 W2 Hnd E Hb. destruct (join_ok u1 u2 W1 W2 Hnd) as [j' [E' [_ [_ S]]]].
  rewrite E in E'. inversion E'; subst. now apply S.
Qed.

Lemma dims_projection r x m pj :
  wf_rel r -> NoDup (names (r_dims r)) -> In x (r_dims r) -> projection r x m = Ok pj ->
  exists pre post, r_dims r = pre ++ x :: post /\ r_dims pj = pre ++ post /\ wf_rel pj.
Proof.
  intros W Hnd Hin E. destruct (projection_ok r x m W Hnd Hin) as [pj' [pre [post [E' [D1 [D2 [W' _]]]]]]].
  rewrite E in E'. inversion E'; subst. eauto.
Qed.

Lemma sem_projection r x m pj b :
  wf_rel r -> NoDup (names (r_dims r)) -> In x (r_dims r) -> projection r x m = Ok pj ->
  covers (r_dims pj) b ->
  sem pj b = opt_cost m (fun v => sem r ((v_name x, v) :: b)) (v_dom x).
Proof.
  intros W Hnd Hin E Hb. destruct (projection_ok r x m W Hnd Hin) as [pj' [pre [post [E' [D1 [D2 [W' S]]]]]]].
  rewrite E in E'. inversion E'; subst. apply S. now rewrite <- D2.
Qed.

Lemma sem_slice r pa sl b :
  wf_rel r -> keys_in pa (r_dims r) ->
  (forall v, In v (r_dims r) -> forall val, zlookup (v_name v) pa = Some val -> In val (v_dom v)) ->
  slice r pa = Ok sl -> covers (r_dims sl) b -> sem sl b = sem r (pa ++ b).
Proof.
  intros W Hk Hv E Hb. destruct (slice_ok r pa W Hk Hv) as [sl' [E' [_ [_ S]]]].
  rewrite E in E'. inversion E'; subst. now apply S.
Qed.

Lemma dims_slice r pa sl :
  wf_rel r -> keys_in pa (r_dims r) ->
  (forall v, In v (r_dims r) -> forall val, zlookup (v_name v) pa = Some val -> In val (v_dom v)) ->
  slice r pa = Ok sl -> r_dims sl = filter (unset pa) (r_dims r) /\ wf_rel sl.
Proof.
  intros W Hk Hv E. destruct (slice_ok r pa W Hk Hv) as [sl' [E' [D [W' _]]]].
  rewrite E in E'. inversion E'; subst. auto.
Qed.

Lemma NoDup_snoc {A} (l : list A) x : NoDup l -> ~ In x l -> NoDup (l ++ [x]).
Proof.
  induction l as [|y l IH]; intros Hn Hx; simpl.
  - repeat constructor; auto.
  - inversion Hn; subst. constructor.
    + intro Hin. apply in_app_or in Hin as [Hin|[<-|[]]]; auto. apply Hx. now left.
    + apply IH; auto. intro. apply Hx. now right.
Qed.

(* names of a joined scope are distinct when both scopes have distinct names and a name
   denotes the same variable in both *)
Lemma join_dims_nodup d2 : forall d1,
  NoDup (names d1) -> NoDup (names d2) ->
  (forall v w, In v d1 -> In w d2 -> v_name v = v_name w -> v = w) ->
  NoDup (names (join_dims d1 d2)).
Proof.
  unfold join_dims. induction d2 as [|d d2 IH]; intros d1 N1 N2 Hc; simpl; auto.
  inversion N2 as [|n l Hnotin N2']; subst. destruct (var_mem d d1) eqn:Em.
  - apply IH; auto; intros v w Hv Hw; apply Hc; auto; now right.
  - apply IH; [| exact N2' |].
    + rewrite names_app. simpl. apply NoDup_snoc; auto. intro Hin.
      unfold names in Hin. apply in_map_iff in Hin as [v [En Hv]].
      assert (v = d) by (apply Hc; auto; now left). subst v.
      apply var_mem_In in Hv. congruence.
    + intros v w Hv Hw En. apply in_app_or in Hv as [Hv|[<-|[]]].
      * apply Hc; auto. now right.
      * exfalso. apply Hnotin. rewrite En. now apply in_names.
Qed.
