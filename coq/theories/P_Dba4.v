(* P_Dba4.v -- C09 deepening 2: the dba_end flood and the finished() calls of one computation.

   [end_flood]    once some computation has called finished(), in every QUIESCENT configuration (all
                  channels empty, every variable of a constraint started) every computation connected to
                  it has called finished() too and is in mode 'finished': the dba_end message reaches
                  everyone, nobody waits forever.  Invariant [FL]: for neighbours a, b with a finished,
                  a dba_end of a is in the channel a->b, or in b's pre-start buffer, or b is in mode
                  'finished'; and mode 'finished' implies a finished() call in the past.
   [finished_kinds] / [end_is_last]
                  every finished() of a computation n is produced by the delivery of a message to n:
                  either an ok?/improve message (stop_condition fired in _send_ok; n is NOT left in mode
                  'finished' - the quirk) or a dba_end message (n is left in mode 'finished'); the dba_end
                  kind happens at most once, calls finished() exactly once, and after it n never produces
                  any event again.  So the finished() calls of n are: (stop_condition firings)* followed by
                  at most one dba_end call.  *)
From PyDcop Require Import Base Net M_Dba P_Dba M_Dba2 P_Dba2 P_Dba3.
From Coq Require Import ZifyBool.

Local Notation length := List.length.

Ltac noev := let H := fresh "H" in simpl; intros H; repeat (destruct H as [H|H]; [discriminate|]); try contradiction.

Section Flood.
  Variable cs : list constr.
  Variable ncs : node -> list nat.
  Variable dom : node -> list Z.
  Variable infinity maxd : Z.
  Variable orc0 : node -> list Z.

  Notation nbrs := (nbrs cs ncs).
  Notation to_all := (to_all cs ncs).
  Notation do_improve := (do_improve cs ncs dom infinity).
  Notation send_ok := (send_ok cs ncs maxd).
  Notation ok_step := (ok_step cs ncs dom infinity).
  Notation imp_step := (imp_step cs ncs maxd).
  Notation go_ok := (go_ok cs ncs dom infinity).
  Notation go_imp := (go_imp cs ncs maxd).
  Notation dba_recv := (dba_recv cs ncs dom infinity maxd).
  Notation dba_start := (dba_start cs ncs dom infinity).
  Notation dba_init := (dba_init ncs orc0).
  Notation P := (dba_proto cs ncs dom infinity maxd orc0).
  Notation cfg := (config dst dmsg).

  (* ---------------------------------------------------------------- node level *)
  (* finished() comes with a dba_end to every neighbour *)
  Definition fl (d : node) (o : list (node * dmsg)) (e : list dev) : Prop :=
    In (EvFinished d) e -> forall t, In t (nbrs d) -> In (t, MEnd) o.
  (* mode 'finished' is not entered *)
  Definition nf (s s' : dst) : Prop := d_mode s' = FinM -> d_mode s = FinM.
  Definition hres (d : node) (s : dst) (r : res) : Prop :=
    let '(s', o, e, _) := r in fl d o e /\ nf s s'.

  Lemma fl_noev d o e : ~ In (EvFinished d) e -> fl d o e.
  Proof. intros H Hin. contradiction. Qed.
  Lemma fl_app d o1 e1 o2 e2 : fl d o1 e1 -> fl d o2 e2 -> fl d (o1 ++ o2) (e1 ++ e2).
  Proof.
    intros H1 H2 Hin t Ht. apply in_or_app. apply in_app_or in Hin as [Hin|Hin]; [left; now apply H1 | right; now apply H2].
  Qed.
  Lemma nf_mode s s' : d_mode s' = d_mode s -> nf s s'.
  Proof. unfold nf. congruence. Qed.
  Lemma nf_via s s1 s2 : d_mode s1 <> FinM -> nf s1 s2 -> nf s s2.
  Proof. unfold nf. intros H1 H2 H. exfalso. auto. Qed.
  Lemma nf_trans s s1 s2 : nf s s1 -> nf s1 s2 -> nf s s2.
  Proof. unfold nf. auto. Qed.

  Lemma replay_h {M} d (h : dst -> node -> M -> res) l :
    (forall s src m, hres d s (h s src m)) -> forall s, hres d s (replay h s l).
  Proof.
    intros Hh. induction l as [|[src m] l IH]; intros s; simpl.
    - split; [apply fl_noev; intros [] | now apply nf_mode].
    - specialize (Hh s src m). destruct (h s src m) as [[[s1 o1] e1] r1]. destruct Hh as [F1 N1].
      destruct r1; [split; auto|].
      specialize (IH s1). destruct (replay h s1 l) as [[[s2 o2] e2] r2]. destruct IH as [F2 N2].
      split; [now apply fl_app | now apply (nf_trans s s1 s2)].
  Qed.

  Lemma guard_pok_h d s : hres d s (guard_pok d s).
  Proof.
    unfold M_Dba.guard_pok. destruct (d_pok s); (split; [apply fl_noev; noev | now apply nf_mode]).
  Qed.
  Lemma guard_pimp_h d s : hres d s (guard_pimp d s).
  Proof.
    unfold M_Dba.guard_pimp. destruct (d_pimp s); (split; [apply fl_noev; noev | now apply nf_mode]).
  Qed.

  Lemma to_all_in d m t : In t (nbrs d) -> In (t, m) (to_all d m).
  Proof. intros H. unfold M_Dba.to_all. apply in_map_iff. now exists t. Qed.

  Lemma send_ok_h d s : fl d (snd (fst (send_ok d s))) (snd (send_ok d s)).
  Proof.
    unfold M_Dba.send_ok.
    destruct (match d_cons s with Some true => true | _ => false end); simpl.
    - destruct (d_tc s + 1 =? maxd); simpl.
      + intros _ t Ht. now apply to_all_in.
      + apply fl_noev. destruct (d_can s && _); noev.
    - apply fl_noev. destruct (d_can s && _); noev.
  Qed.

  Lemma imp_step_h d nested s src m :
    (forall s0, hres d s0 (nested s0)) -> hres d s (imp_step d nested s src m).
  Proof.
    intros Hn. unfold M_Dba.imp_step.
    destruct (imp_core_frame d s src m) as [Im _].
    destruct (Nat.eqb _ _).
    - pose proof (send_ok_h d (imp_core d s src m)) as F2.
      destruct (send_ok d (imp_core d s src m)) as [[s2 o2] e2]. simpl in F2.
      specialize (Hn (set_mode OkM (clear_view s2))).
      destruct (nested (set_mode OkM (clear_view s2))) as [[[s3 o3] e3] r3]. destruct Hn as [F3 N3].
      split; [now apply fl_app|]. apply (nf_via s (set_mode OkM (clear_view s2)) s3); [simpl; discriminate | exact N3].
    - split; [apply fl_noev; intros [] | now apply nf_mode].
  Qed.

  Lemma ok_step_h d nested s src v :
    (forall s0, hres d s0 (nested s0)) -> hres d s (ok_step d nested s src v).
  Proof.
    intros Hn. unfold M_Dba.ok_step.
    set (s1 := set_nvals (dict_set Z.eqb src v (d_nvals s)) s).
    destruct (Nat.eqb _ _).
    - destruct (do_improve_frame cs ncs dom infinity d s1) as [Fm _].
      destruct (do_improve d s1) as [[s2 o2] raised]. simpl in Fm. destruct raised.
      + split; [apply fl_noev; noev | apply nf_mode; now rewrite Fm].
      + specialize (Hn (set_mode ImpM s2)).
        destruct (nested (set_mode ImpM s2)) as [[[s3 o3] e3] r3]. destruct Hn as [F3 N3].
        split.
        * intros Hin t Ht. apply in_or_app. right. now apply F3.
        * apply (nf_via s (set_mode ImpM s2) s3); [simpl; discriminate | exact N3].
    - split; [apply fl_noev; intros [] | now apply nf_mode].
  Qed.

  Lemma go_imp_h d s : hres d s (go_imp d s).
  Proof.
    unfold M_Dba.go_imp.
    pose proof (replay_h d (imp_step d (guard_pok d)) (d_pimp s)
                  (fun s0 src m => imp_step_h d (guard_pok d) s0 src m (guard_pok_h d)) s) as H.
    destruct (replay _ s (d_pimp s)) as [[[s1 o] e] r]. destruct H as [F N]. destruct r; split; auto.
  Qed.

  Lemma go_ok_h d s : hres d s (go_ok d s).
  Proof.
    unfold M_Dba.go_ok.
    pose proof (replay_h d (ok_step d (guard_pimp d)) (d_pok s)
                  (fun s0 src m => ok_step_h d (guard_pimp d) s0 src m (guard_pimp_h d)) s) as H.
    destruct (replay _ s (d_pok s)) as [[[s1 o] e] r]. destruct H as [F N]. destruct r; split; auto.
  Qed.

  (* the message handler *)
  Lemma recv_h d s src m :
    let '(s', o, e) := dba_recv d s src m in
    fl d o e
    /\ (d_mode s' = FinM -> d_mode s = FinM \/ In (EvFinished d) e)
    /\ (m = MEnd -> d_mode s' = FinM /\ (d_mode s <> FinM -> e = [EvFinished d]))
    /\ (m <> MEnd -> d_mode s' = FinM -> d_mode s = FinM)
    /\ (d_mode s = FinM -> d_mode s' = FinM /\ o = [] /\ e = []).
  Proof.
    destruct m as [v|mi me mtc|]; unfold M_Dba.dba_recv.
    - destruct (d_mode s) eqn:Mo;
        try (simpl; rewrite Mo; split; [apply fl_noev; intros []|]; split; [auto|]; split; [discriminate|]; split; auto; fail).
      pose proof (ok_step_h d (go_imp d) s src v (go_imp_h d)) as H.
      destruct (ok_step d (go_imp d) s src v) as [[[s' o] e] r]. destruct H as [F N]. simpl.
      split; [exact F|]. unfold nf in N. rewrite Mo in N.
      split; [intros H; apply N in H; discriminate|]. split; [discriminate|].
      split; [intros _; exact N | discriminate].
    - destruct (d_mode s) eqn:Mo;
        try (simpl; rewrite Mo; split; [apply fl_noev; intros []|]; split; [auto|]; split; [discriminate|]; split; auto; fail).
      pose proof (imp_step_h d (go_ok d) s src (mi, me, mtc) (go_ok_h d)) as H.
      destruct (imp_step d (go_ok d) s src (mi, me, mtc)) as [[[s' o] e] r]. destruct H as [F N]. simpl.
      split; [exact F|]. unfold nf in N. rewrite Mo in N.
      split; [intros H; apply N in H; discriminate|]. split; [discriminate|].
      split; [intros _; exact N | discriminate].
    - destruct (d_mode s) eqn:Mo; simpl;
        try (split; [intros _ t Ht; now apply to_all_in|]; split; [right; now left|]; split; [auto|];
             split; [congruence | discriminate]).
      rewrite Mo. split; [apply fl_noev; intros []|]. split; [auto|]. split; [split; [auto | congruence]|].
      split; auto.
  Qed.

  Lemma start_h d :
    let '(s', o, e) := dba_start d (dba_init d) in
    d_mode s' <> FinM /\ forall m, ~ In (EvFinished m) e.
  Proof.
    pose proof (start_no_finish cs ncs dom infinity orc0 d) as Hnf.
    destruct (dba_start d (dba_init d)) as [[s' o] e] eqn:E. simpl in Hnf. split; [|exact Hnf].
    unfold M_Dba.dba_start in E. change (d_orc (dba_init d)) with (orc0 d) in E.
    destruct (pick (orc0 d) (dom d)) as [[v|] o1].
    - match type of E with context [go_ok d ?x] =>
        pose proof (go_ok_h d x) as H; destruct (go_ok d x) as [[[s2 o2] e2] r] end.
      inversion E; subst. destruct H as [_ N]. intros Em. apply N in Em. simpl in Em. discriminate.
    - inversion E; subst. simpl. discriminate.
  Qed.

  (* ---------------------------------------------------------------- network level *)
  Record FL (cf : cfg) (evs : list dev) : Prop := {
    L_flood : forall a b, In b (nbrs a) -> In (EvFinished a) evs ->
      In MEnd (chan cf a b) \/ In (a, MEnd) (w_held (nodes cf b))
      \/ (w_running (nodes cf b) = true /\ d_mode (st cf b) = FinM);
    L_fin : forall b, w_running (nodes cf b) = true -> d_mode (st cf b) = FinM -> In (EvFinished b) evs;
    L_held : forall b, w_running (nodes cf b) = true -> w_held (nodes cf b) = [];
    L_idle : forall b, w_running (nodes cf b) = false -> w_st (nodes cf b) = dba_init b
  }.

  Lemma FL_init : FL (init P) [].
  Proof. constructor; simpl; auto; try discriminate; try (intros a b _ []). Qed.

  Lemma send_all_keeps (c : node -> node -> list dmsg) src outs x y m :
    In m (c x y) -> In m (send_all c src outs x y).
  Proof. intros H. rewrite send_all_spec. destruct (Z.eqb x src); auto. apply in_or_app. now left. Qed.

  Lemma FL_step cf evs a : FL cf evs -> FL (fst (step P cf a)) (evs ++ snd (step P cf a)).
  Proof.
    intros HL. destruct a as [n0|a0 b0]; simpl.
    - (* start() *)
      destruct (w_running (nodes cf n0)) eqn:Ru; [simpl; now rewrite app_nil_r|].
      rewrite (L_idle cf evs HL n0 Ru).
      pose proof (start_h n0) as Hs.
      destruct (dba_start n0 (dba_init n0)) as [[s' o] e]. destruct Hs as [Hmode Hnf]. simpl.
      assert (Hch : forall x y m, In m (chan cf x y) ->
                In m (reinject_all (send_all (chan cf) n0 o) n0 (reinject (w_held (nodes cf n0))) x y)).
      { intros x y m H. rewrite reinject_all_spec.
        pose proof (send_all_keeps (chan cf) n0 o x y m H). destruct (Z.eqb y n0); auto. apply in_or_app. now right. }
      constructor; simpl.
      + intros a b Hab Hin. apply in_app_or in Hin as [Hin|Hin]; [|exfalso; now apply (Hnf a)].
        destruct (L_flood cf evs HL a b Hab Hin) as [H|[H|[H1 H2]]].
        * left. now apply Hch.
        * rewrite upd_node_at. destruct (Z.eqb_spec b n0) as [->|Hne]; [|auto].
          left. rewrite reinject_all_spec, Z.eqb_refl. apply in_or_app. left. unfold reinject. now apply in_fromH.
        * right. right. unfold st in *. simpl. rewrite upd_node_at.
          destruct (Z.eqb_spec b n0) as [->|Hne]; [congruence | auto].
      + intros b. unfold st. simpl. rewrite upd_node_at. destruct (Z.eqb_spec b n0) as [->|Hne]; simpl.
        * intros _ E. contradiction.
        * intros R E. apply in_or_app. left. now apply (L_fin cf evs HL b).
      + intros b. rewrite upd_node_at. destruct (Z.eqb b n0); simpl; auto. apply (L_held cf evs HL).
      + intros b. rewrite upd_node_at. destruct (Z.eqb b n0); simpl; [discriminate|]. apply (L_idle cf evs HL).
    - destruct (chan cf a0 b0) as [|m q] eqn:Hc; [simpl; now rewrite app_nil_r|].
      destruct (w_running (nodes cf b0)) eqn:Ru.
      + (* a message handled by a started computation *)
        pose proof (recv_h b0 (w_st (nodes cf b0)) a0 m) as Hh.
        pose proof (dba_recv_ok cs ncs dom infinity maxd orc0 b0 (w_st (nodes cf b0)) a0 m) as Hg.
        destruct (dba_recv b0 (w_st (nodes cf b0)) a0 m) as [[s' o] e].
        destruct Hh as [Hfl [Hfin [Hend [Hnend Habs]]]]. destruct Hg as [[Hown _] _].
        rewrite Forall_forall in Hown. simpl.
        constructor; simpl.
        * intros a b Hab Hin. apply in_app_or in Hin as [Hin|Hin].
          -- destruct (L_flood cf evs HL a b Hab Hin) as [H|[H|[H1 H2]]].
             ++ destruct (Z.eq_dec a a0) as [->|Ha]; [destruct (Z.eq_dec b b0) as [->|Hb]|].
                ** rewrite Hc in H. destruct H as [->|H].
                   --- right. right. unfold st. simpl. rewrite upd_node_at, Z.eqb_refl. simpl.
                       split; auto. now destruct (Hend eq_refl).
                   --- left. apply send_all_keeps. unfold upd_chan. now rewrite !Z.eqb_refl.
                ** left. apply send_all_keeps. unfold upd_chan. apply Z.eqb_neq in Hb. now rewrite Hb, andb_false_r.
                ** left. apply send_all_keeps. unfold upd_chan. apply Z.eqb_neq in Ha. now rewrite Ha.
             ++ right. left. rewrite upd_node_at. destruct (Z.eqb_spec b b0) as [->|]; auto.
             ++ right. right. unfold st in *. simpl. rewrite upd_node_at.
                destruct (Z.eqb_spec b b0) as [->|]; auto. simpl. split; auto. now apply Habs.
          -- pose proof (Hown _ Hin) as E. simpl in E. subst a.
             left. rewrite send_all_spec, Z.eqb_refl. apply in_or_app. right. apply in_fromH. now apply Hfl.
        * intros b. unfold st. simpl. rewrite upd_node_at. destruct (Z.eqb_spec b b0) as [->|Hne]; simpl.
          -- intros _ E. apply in_or_app. destruct (Hfin E) as [H|H]; [left | now right].
             now apply (L_fin cf evs HL b0).
          -- intros R E. apply in_or_app. left. now apply (L_fin cf evs HL b).
        * intros b. rewrite upd_node_at. destruct (Z.eqb_spec b b0) as [->|]; simpl;
            [intros _; now apply (L_held cf evs HL b0) | apply (L_held cf evs HL)].
        * intros b. rewrite upd_node_at. destruct (Z.eqb b b0); simpl; [discriminate|]. apply (L_idle cf evs HL).
      + (* buffered by a computation that has not started *)
        simpl. rewrite app_nil_r. constructor; simpl.
        * intros a b Hab Hin. destruct (L_flood cf evs HL a b Hab Hin) as [H|[H|[H1 H2]]].
          -- unfold upd_chan. destruct (Z.eqb_spec a a0) as [->|Ha]; [destruct (Z.eqb_spec b b0) as [->|Hb]|]; simpl; auto.
             rewrite Hc in H. destruct H as [<-|H]; auto.
             right. left. rewrite upd_node_at, Z.eqb_refl. simpl. apply in_or_app. right. now left.
          -- right. left. rewrite upd_node_at. destruct (Z.eqb_spec b b0) as [->|]; auto. simpl. apply in_or_app. now left.
          -- right. right. unfold st in *. simpl. rewrite upd_node_at.
             destruct (Z.eqb_spec b b0) as [->|]; auto. congruence.
        * intros b. unfold st. simpl. rewrite upd_node_at. destruct (Z.eqb_spec b b0) as [->|Hne]; simpl; [discriminate|].
          apply (L_fin cf evs HL b).
        * intros b. rewrite upd_node_at. destruct (Z.eqb_spec b b0) as [->|]; simpl; [discriminate|]. apply (L_held cf evs HL).
        * intros b. rewrite upd_node_at. destruct (Z.eqb_spec b b0) as [->|]; simpl; [intros _|]; now apply (L_idle cf evs HL).
  Qed.

  Lemma FL_exec sched : forall cf evs, FL cf evs -> FL (fst (exec P cf sched)) (evs ++ snd (exec P cf sched)).
  Proof.
    induction sched as [|a r IH]; intros cf evs HL; simpl; [now rewrite app_nil_r|].
    pose proof (FL_step cf evs a HL) as H1. destruct (step P cf a) as [cf1 e1]. simpl in H1.
    specialize (IH cf1 (evs ++ e1) H1). destruct (exec P cf1 r) as [cf2 e2]. simpl in *.
    now rewrite app_assoc.
  Qed.

  Theorem run_FL sched : FL (fst (run P sched)) (snd (run P sched)).
  Proof. apply (FL_exec sched (init P) [] FL_init). Qed.

  (* liveness of the dba_end flood, in quiescence form *)
  Theorem end_flood sched :
    wf_problem cs ncs ->
    let cf := fst (run P sched) in
    let evs := snd (run P sched) in
    (forall a b, chan cf a b = []) ->
    (forall y, occurs cs y -> w_running (nodes cf y) = true) ->
    forall a, In (EvFinished a) evs ->
    forall k x, within cs ncs k a x ->
      In (EvFinished x) evs /\ (nbrs x <> [] -> d_mode (st cf x) = FinM).
  Proof.
    intros Hwf cf evs Hq Hrun.
    pose proof (run_FL sched) as HL. fold cf evs in HL.
    pose proof (wf_sym cs ncs Hwf) as Hsym.
    (* one hop *)
    assert (Hop : forall a b, In (EvFinished a) evs -> In b (nbrs a) ->
              d_mode (st cf b) = FinM /\ In (EvFinished b) evs).
    { intros a b Ha Hab.
      destruct (nbr_occurs cs ncs Hwf b a Hab) as [Hob _].
      pose proof (Hrun b Hob) as Rb.
      destruct (L_flood cf evs HL a b Hab Ha) as [H|[H|[_ H]]].
      - rewrite Hq in H. destruct H.
      - rewrite (L_held cf evs HL b Rb) in H. destruct H.
      - split; auto. now apply (L_fin cf evs HL b). }
    assert (Hself : forall a, In (EvFinished a) evs -> nbrs a <> [] -> d_mode (st cf a) = FinM).
    { intros a Ha Hne. destruct (nbrs a) as [|b l] eqn:E; [congruence|].
      assert (Hab : In b (nbrs a)) by (rewrite E; now left).
      destruct (Hop a b Ha Hab) as [_ Hb]. apply (Hop b a Hb). now apply Hsym. }
    intros a Ha k x W. revert Ha. induction W as [k n|k n m x Hm W IH]; intros Ha.
    - split; auto.
    - destruct (Hop n m Ha Hm) as [_ Hfm]. now apply IH.
  Qed.

  (* ---------------------------------------------------------------- the finished() calls of one computation *)
  (* a computation in mode 'finished' never produces an event again *)
  Lemma finm_silent sched : forall cf n,
    w_running (nodes cf n) = true -> d_mode (st cf n) = FinM ->
    (forall e, In e (snd (exec P cf sched)) -> ev_node e <> n)
    /\ d_mode (st (fst (exec P cf sched)) n) = FinM /\ w_running (nodes (fst (exec P cf sched)) n) = true.
  Proof.
    induction sched as [|a r IH]; intros cf n Ru Mo; simpl; [split; [intros e []|auto]|].
    assert (S1 : (forall e, In e (snd (step P cf a)) -> ev_node e <> n)
                 /\ d_mode (st (fst (step P cf a)) n) = FinM /\ w_running (nodes (fst (step P cf a)) n) = true).
    { destruct a as [n0|a0 b0]; simpl.
      - destruct (w_running (nodes cf n0)) eqn:R0; [simpl; split; [intros e []|auto]|].
        assert (Hne : n <> n0) by (intros ->; congruence).
        pose proof (dba_start_ok cs ncs dom infinity orc0 n0 (w_st (nodes cf n0))) as Hg.
        destruct (dba_start n0 (w_st (nodes cf n0))) as [[s' o] e]. destruct Hg as [[Hown _] _].
        rewrite Forall_forall in Hown. simpl. unfold st. simpl. rewrite upd_node_at.
        apply Z.eqb_neq in Hne. rewrite Hne. split; [|auto].
        intros e0 He0. rewrite (Hown _ He0). apply Z.eqb_neq in Hne. congruence.
      - destruct (chan cf a0 b0) as [|m q]; [simpl; split; [intros e []|auto]|].
        destruct (w_running (nodes cf b0)) eqn:R0.
        + pose proof (recv_h b0 (w_st (nodes cf b0)) a0 m) as Hh.
          pose proof (dba_recv_ok cs ncs dom infinity maxd orc0 b0 (w_st (nodes cf b0)) a0 m) as Hg.
          destruct (dba_recv b0 (w_st (nodes cf b0)) a0 m) as [[s' o] e].
          destruct Hh as [_ [_ [_ [_ Habs]]]]. destruct Hg as [[Hown _] _].
          rewrite Forall_forall in Hown. simpl. unfold st. simpl. rewrite upd_node_at.
          destruct (Z.eqb_spec n b0) as [->|Hne]; simpl.
          * destruct (Habs Mo) as [M' [_ ->]]. split; [intros e []|auto].
          * split; [|auto]. intros e0 He0. rewrite (Hown _ He0). congruence.
        + simpl. unfold st. simpl. rewrite upd_node_at.
          destruct (Z.eqb_spec n b0) as [->|Hne]; [congruence|]. split; [intros e []|auto]. }
    destruct (step P cf a) as [cf1 e1]. simpl in S1. destruct S1 as [E1 [M1 R1]].
    specialize (IH cf1 n R1 M1). destruct (exec P cf1 r) as [cf2 e2]. simpl in *.
    destruct IH as [E2 [M2 R2]]. split; [|auto].
    intros e He. apply in_app_or in He as [He|He]; auto.
  Qed.

  (* the two kinds of finished() calls *)
  Theorem finished_kinds cf a n :
    reachable P cf ->
    In (EvFinished n) (snd (step P cf a)) ->
    exists s m q, a = Deliver s n /\ chan cf s n = m :: q /\ w_running (nodes cf n) = true
      /\ d_mode (st cf n) <> FinM
      /\ ((m = MEnd /\ snd (step P cf a) = [EvFinished n] /\ d_mode (st (fst (step P cf a)) n) = FinM)
          \/ (m <> MEnd /\ d_mode (st (fst (step P cf a)) n) <> FinM)).
  Proof.
    intros Hreach Hin. destruct a as [n0|a0 b0]; simpl in Hin.
    - destruct (w_running (nodes cf n0)) eqn:Ru; [destruct Hin|].
      rewrite (reachable_unstarted cs ncs dom infinity maxd orc0 cf Hreach n0 Ru) in Hin.
      pose proof (start_h n0) as Hs.
      destruct (dba_start n0 (dba_init n0)) as [[s' o] e]. destruct Hs as [_ Hnf]. simpl in Hin.
      exfalso. now apply (Hnf n).
    - simpl. destruct (chan cf a0 b0) as [|m q] eqn:Hc; [destruct Hin|].
      destruct (w_running (nodes cf b0)) eqn:Ru; [|destruct Hin].
      pose proof (recv_h b0 (w_st (nodes cf b0)) a0 m) as Hh.
      pose proof (dba_recv_ok cs ncs dom infinity maxd orc0 b0 (w_st (nodes cf b0)) a0 m) as Hg.
      destruct (dba_recv b0 (w_st (nodes cf b0)) a0 m) as [[s' o] e] eqn:Er.
      destruct Hh as [_ [_ [Hend [Hnend Habs]]]]. destruct Hg as [[Hown _] _].
      rewrite Forall_forall in Hown. simpl in Hin. pose proof (Hown _ Hin) as E. simpl in E. subst b0.
      assert (Hnf : d_mode (st cf n) <> FinM).
      { intros Mo. destruct (Habs Mo) as [_ [_ ->]]. destruct Hin. }
      exists a0, m, q. split; [reflexivity|]. split; [exact Hc|]. split; [exact Ru|]. split; [exact Hnf|].
      unfold st. simpl. rewrite upd_node_at, Z.eqb_refl. simpl.
      destruct m as [v|x y z|].
      + right. split; [discriminate|]. intros Mo. apply Hnf. apply Hnend; [discriminate | exact Mo].
      + right. split; [discriminate|]. intros Mo. apply Hnf. apply Hnend; [discriminate | exact Mo].
      + left. destruct (Hend eq_refl) as [M' He]. split; [reflexivity|]. split; [now apply He | exact M'].
  Qed.

  (* after the dba_end kind no event of n ever follows *)
  Theorem end_is_last cf s n q rest :
    chan cf s n = MEnd :: q -> w_running (nodes cf n) = true ->
    forall e, In e (snd (exec P (fst (step P cf (Deliver s n))) rest)) -> ev_node e <> n.
  Proof.
    intros Hc Ru.
    assert (H1 : w_running (nodes (fst (step P cf (Deliver s n))) n) = true
                 /\ d_mode (st (fst (step P cf (Deliver s n))) n) = FinM).
    { simpl. rewrite Hc, Ru.
      pose proof (recv_h n (w_st (nodes cf n)) s MEnd) as Hh.
      destruct (dba_recv n (w_st (nodes cf n)) s MEnd) as [[s' o] e].
      destruct Hh as [_ [_ [Hend _]]]. simpl. unfold st. simpl. rewrite upd_node_at, Z.eqb_refl. simpl.
      split; auto. now apply Hend. }
    destruct H1 as [R1 M1]. apply (finm_silent rest _ n R1 M1).
  Qed.

  (* ---------------------------------------------------------------- counting *)
  Definition count_fin (n : node) (evs : list dev) : nat := length (filter (is_finished_by n) evs).

  Lemma count_fin_app n e1 e2 : count_fin n (e1 ++ e2) = (count_fin n e1 + count_fin n e2)%nat.
  Proof. unfold count_fin. now rewrite filter_app, app_length. Qed.

  Lemma count_fin_none n e : (forall x, In x e -> ev_node x <> n) -> count_fin n e = 0%nat.
  Proof.
    unfold count_fin. induction e as [|x e IH]; simpl; intros H; auto.
    assert (IH' : length (filter (is_finished_by n) e) = 0%nat) by (apply IH; intros y Hy; apply H; now right).
    destruct x; simpl; auto. destruct (Z.eqb_spec n0 n) as [->|Hne]; auto.
    exfalso. apply (H (EvFinished n)); [now left | reflexivity].
  Qed.

  (* the number of finished() calls of a computation n in a whole run = the number made before the first
     dba_end it handles, plus exactly one for that dba_end (nothing if n is already in mode 'finished');
     whatever the rest of the schedule does, it adds none *)
  Theorem finished_count_partial sched s n q rest :
    chan (fst (run P sched)) s n = MEnd :: q -> w_running (nodes (fst (run P sched)) n) = true ->
    count_fin n (snd (run P (sched ++ Deliver s n :: rest)))
    = (count_fin n (snd (run P sched))
       + match d_mode (st (fst (run P sched)) n) with FinM => 0 | _ => 1 end)%nat.
  Proof.
    intros Hc Ru. set (cf := fst (run P sched)) in *.
    pose proof (end_is_last cf s n q rest Hc Ru) as Hlast.
    assert (He1 : snd (step P cf (Deliver s n))
                  = match d_mode (st cf n) with FinM => [] | _ => [EvFinished n] end).
    { simpl. rewrite Hc, Ru.
      pose proof (recv_h n (w_st (nodes cf n)) s MEnd) as Hh.
      destruct (dba_recv n (w_st (nodes cf n)) s MEnd) as [[s' o] e].
      destruct Hh as [_ [_ [Hend [_ Habs]]]]. simpl. unfold st.
      destruct (Hend eq_refl) as [_ He].
      destruct (d_mode (w_st (nodes cf n))) eqn:Mo; try (apply He; discriminate).
      now destruct (Habs eq_refl) as [_ [_ ->]]. }
    assert (Hs : snd (run P (sched ++ Deliver s n :: rest))
                 = snd (run P sched) ++ snd (exec P cf (Deliver s n :: rest)))
      by (unfold run; rewrite exec_app; reflexivity).
    rewrite Hs. clear Hs.
    assert (Ex : exec P cf (Deliver s n :: rest)
                 = let '(cf1, e1) := step P cf (Deliver s n) in
                   let '(cf2, e2) := exec P cf1 rest in (cf2, e1 ++ e2)) by reflexivity.
    rewrite Ex. clear Ex.
    destruct (step P cf (Deliver s n)) as [cf1 e1]. simpl in He1, Hlast.
    destruct (exec P cf1 rest) as [cf2 e2]. simpl in *.
    rewrite !count_fin_app, (count_fin_none n e2 Hlast). subst e1.
    destruct (d_mode (st cf n)); unfold count_fin; simpl; rewrite ?Z.eqb_refl; simpl; lia.
  Qed.
End Flood.

(* ---------------------------------------------------------------------- non-vacuity: the two-variable
   instance of P_Dba.v run to quiescence.  Both computations stop through stop_condition (each calls
   finished() a first time), then each handles the other's dba_end (second finished() call, mode
   'finished'); the last two dba_end messages are dropped. *)
Definition ex_sched_q : list (@action) := ex_sched ++ [Deliver 0 1; Deliver 1 0].

Lemma ex_all_conn : forall y x, occurs ex_cs y -> occurs ex_cs x -> within ex_cs ex_ncs (Z.to_nat 1) y x.
Proof.
  intros y x [c [[<-|[]] Hy]] Hx. simpl in Hy. destruct Hy as [<-|[<-|[]]]; [now apply ex_conn | now apply ex_conn1].
Qed.

Lemma ex_quiescent :
  let r := run (dba_proto ex_cs ex_ncs ex_dom 10000 1 ex_orc) ex_sched_q in
  forallb (fun a => forallb (fun b => match chan (fst r) a b with [] => true | _ => false end) [0; 1]) [0; 1] = true
  /\ count_fin 0 (snd r) = 2%nat /\ count_fin 1 (snd r) = 2%nat
  /\ d_mode (st (fst r) 0) = FinM /\ d_mode (st (fst r) 1) = FinM
  /\ satisfyingb ex_cs 10000 (held (fst r)) = true
  /\ ex_sched_q = firstn 8 ex_sched ++ Deliver 0 1 :: (skipn 9 ex_sched ++ [Deliver 0 1; Deliver 1 0]).
Proof. vm_compute. repeat split. Qed.
