(* M_MaxSum.v -- executable model of pydcop/algorithms/maxsum.py (synchronous Max-Sum, hosted by the
   SynchronousComputationMixin model of M_SyncMixin.v) and pydcop/algorithms/amaxsum.py (asynchronous
   A-Max-Sum, a [proto] of Net.v).  Models only, no proofs (C05).

   Conventions: computations are [node] ids (Z); the domain of a variable is [0 .. v_dom-1] (domain
   indices); a message / cost table is positional over the domain ([list Q], every message of the code
   is built by iterating over the whole domain); costs are exact rationals.  Dicts are association
   lists in insertion order.  [Qred] only keeps representations small: every comparison is [Qeq]. *)
From Coq Require Import QArith Qabs.
From PyDcop Require Import Base Net M_SyncMixin.
Local Open Scope Z_scope.

Definition table := list Q.
Definition tget (t : table) (i : nat) : Q := nth i t 0%Q.

Record vdef := mkV {
  v_dom : nat;                 (* len(variable.domain) *)
  v_unary : list Q;            (* cost_for_val per domain index; [] = plain Variable (cost 0) *)
  v_init : option nat          (* variable.initial_value *)
}.
Record fdef := mkF {
  f_scope : list node;         (* factor.dimensions *)
  f_cost : list nat -> Q       (* factor called on an assignment, values in scope order *)
}.
Record params := mkPar {
  p_max : bool;                (* mode == "max" *)
  p_stab : Q;                  (* stability *)
  p_damp : Q;                  (* damping *)
  p_damp_vars : bool;          (* damping_nodes in [vars, both] *)
  p_damp_facs : bool;          (* damping_nodes in [factors, both] *)
  p_start : nat                (* start_messages: 0 leafs, 1 leafs_vars, 2 all *)
}.
Record dcop := mkD { d_vars : list (node * vdef); d_facs : list (node * fdef) }.

Definition SAME_COUNT : nat := 4.

(* ------------------------------------------------------------------ pure helpers of maxsum.py *)
Definition Qltb (a b : Q) : bool := negb (Qle_bool b a).

(* optimal_value = +-inf is [None]; "optimal_value > current_val and min or optimal_value < current_val and max" *)
Definition better (mx : bool) (cur : option Q) (v : Q) : option Q :=
  match cur with
  | None => Some v
  | Some c => if (if mx then Qltb c v else Qltb v c) then Some v else Some c
  end.

(* generate_assignment_as_dict: last variable outermost, first variable innermost *)
Fixpoint assigns (doms : list nat) : list (list nat) :=
  match doms with
  | [] => [[]]
  | n :: r => flat_map (fun a => map (fun d => d :: a) (seq 0 n)) (assigns r)
  end.

Fixpoint index_of (x : node) (l : list node) : nat :=
  match l with
  | [] => 0%nat
  | y :: r => if Z.eqb x y then 0%nat else S (index_of x r)
  end.
Definition remove_at {A} (i : nat) (l : list A) : list A := firstn i l ++ skipn (S i) l.
Definition insert_at {A} (i : nat) (d : A) (l : list A) : list A := firstn i l ++ d :: skipn i l.

Fixpoint qsum (l : list Q) : Q := match l with [] => 0%Q | x :: r => (x + qsum r)%Q end.

(* sum of the costs received from the other variables for one assignment of them *)
Definition recv_cost (recv : list (node * table)) (y : node) (val : nat) : Q :=
  match zlookup y recv with
  | Some t => if Nat.ltb val (List.length t) then tget t val else 0%Q    (* "var_value not in recv_costs[..]: continue" *)
  | None => 0%Q                                                      (* nothing received yet from y *)
  end.
Definition sum_recv (recv : list (node * table)) (others : list node) (a : list nat) : Q :=
  qsum (map (fun yv => recv_cost recv (fst yv) (snd yv)) (combine others a)).

Definition odefault (o : option Q) : Q := match o with Some v => v | None => 0%Q end.

(* factor_costs_for_var(factor, variable, recv_costs, mode) *)
Definition fcv_at (D : node -> nat) (mx : bool) (f : fdef) (recv : list (node * table)) (x : node) (d : nat) : option Q :=
  let i := index_of x (f_scope f) in
  let others := remove_at i (f_scope f) in
  fold_left (fun cur a => better mx cur (f_cost f (insert_at i d a) + sum_recv recv others a)%Q)
            (assigns (map D others)) None.
Definition factor_costs_for_var (D : node -> nat) (mx : bool) (f : fdef) (recv : list (node * table)) (x : node) : table :=
  map (fun d => Qred (odefault (fcv_at D mx f recv x d))) (seq 0 (D x)).

Definition unary (vd : vdef) (d : nat) : Q := nth d (v_unary vd) 0%Q.

(* costs_for_factor(variable, factor, factors, costs) *)
Definition cff_others (factors : list node) (costs : list (node * table)) (f : node) : list table :=
  flat_map (fun g => if Z.eqb g f then [] else match zlookup g costs with Some t => [t] | None => [] end) factors.
Definition col (ts : list table) (d : nat) : Q :=
  qsum (map (fun t => if Nat.ltb d (List.length t) then tget t d else 0%Q) ts).
Definition costs_for_factor (vd : vdef) (factors : list node) (costs : list (node * table)) (f : node) : table :=
  let ts := cff_others factors costs f in
  let doms := seq 0 (v_dom vd) in
  let sum_cost := qsum (map (col ts) doms) in
  let avg := (sum_cost / inject_Z (Z.of_nat (v_dom vd)))%Q in
  map (fun d => Qred (unary vd d + col ts d - avg)%Q) doms.

(* select_value(variable, costs, mode): first best value in domain order, with its cost *)
Definition belief (vd : vdef) (costs : list (node * table)) (d : nat) : Q :=
  (unary vd d + qsum (map (fun gt => tget (snd gt) d) costs))%Q.
Definition sel_step (mx : bool) (bf : nat -> Q) (cur : option (nat * Q)) (d : nat) : option (nat * Q) :=
  match cur with
  | None => Some (d, bf d)
  | Some (b, c) => if (if mx then Qltb c (bf d) else Qltb (bf d) c) then Some (d, bf d) else Some (b, c)
  end.
Definition select_value (mx : bool) (vd : vdef) (costs : list (node * table)) : nat * Q :=
  match fold_left (sel_step mx (belief vd costs)) (seq 0 (v_dom vd)) None with
  | Some (d, c) => (d, Qred c)
  | None => (0%nat, 0%Q)          (* empty domain: the code raises ValueError; excluded *)
  end.

(* apply_damping(costs_f, prev_costs, damping), prev_costs not None *)
Definition damp (dm : Q) (t prev : table) : table :=
  map (fun cp => Qred (dm * snd cp + (1 - dm) * fst cp)%Q) (combine t prev).

(* approx_match(costs, prev_costs, stability_coef), prev_costs not None *)
Definition match1 (coef : Q) (c prev_c : Q) : bool :=
  if Qeq_bool prev_c c then true
  else if Qeq_bool (prev_c + c) 0 then false
  else Qltb (2 * Qabs (prev_c - c) / Qabs (prev_c + c))%Q coef.
Definition approx_match (coef : Q) (t prev : table) : bool :=
  forallb (fun cp => match1 coef (fst cp) (snd cp)) (combine t prev).

(* ------------------------------------------------------------------ computation state *)
Record nst := mkN {
  n_costs : list (node * table);               (* costs / _costs : sender -> table *)
  n_prev : list (node * (table * nat));        (* _prev_messages : target -> (table, count) *)
  n_sel : list (nat * option Q);               (* ghost: every value_selection(val, cost) call *)
  n_out : list (node * table)                  (* ghost: every max_sum message posted *)
}.
Definition nst0 : nst := mkN [] [] [] [].

Definition set_costs (st : nst) (c : list (node * table)) : nst := mkN c (n_prev st) (n_sel st) (n_out st).
Definition log_sel (st : nst) (d : nat) (c : option Q) : nst :=
  mkN (n_costs st) (n_prev st) (n_sel st ++ [(d, c)]) (n_out st).
Definition log_out (st : nst) (o : list (node * table)) : nst :=
  mkN (n_costs st) (n_prev st) (n_sel st) (n_out st ++ o).

(* the "damping / approx_match / SAME_COUNT" block shared by the four handlers:
   returns the message to post (if any) and the new _prev_messages *)
Definition emit (P : params) (dampon : bool) (prev : list (node * (table * nat))) (tgt : node) (t : table)
  : option table * list (node * (table * nat)) :=
  match zlookup tgt prev with
  | None => (Some t, dict_set Z.eqb tgt (t, 1%nat) prev)
  | Some (p, c) =>
      let t1 := if dampon then damp (p_damp P) t p else t in
      if negb (approx_match (p_stab P) t1 p) then (Some t1, dict_set Z.eqb tgt (t1, 1%nat) prev)
      else if Nat.ltb c SAME_COUNT then (Some t1, dict_set Z.eqb tgt (t1, S c) prev)
      else (None, prev)
  end.

(* loop "for tgt in targets: compute, emit" *)
Fixpoint emit_all (P : params) (dampon : bool) (compute : node -> table)
         (prev : list (node * (table * nat))) (targets : list node)
  : list (node * table) * list (node * (table * nat)) :=
  match targets with
  | [] => ([], prev)
  | tgt :: r =>
      let '(o, prev1) := emit P dampon prev tgt (compute tgt) in
      let '(os, prev2) := emit_all P dampon compute prev1 r in
      (match o with Some t => (tgt, t) :: os | None => os end, prev2)
  end.

Section Algo.
  Variable P : params.
  Variable G : dcop.

  Definition dom_of (y : node) : nat := match zlookup y (d_vars G) with Some vd => v_dom vd | None => 0%nat end.
  (* find_dependent_relations: the constraints (in dcop order) that have x in their scope *)
  Definition factors_of (x : node) : list node :=
    flat_map (fun gf => if zmem x (f_scope (snd gf)) then [fst gf] else []) (d_facs G).
  Definition nbrs (n : node) : list node :=
    match zlookup n (d_vars G) with
    | Some _ => factors_of n
    | None => match zlookup n (d_facs G) with Some fd => f_scope fd | None => [] end
    end.

  Definition dict_update (c : list (node * table)) (msgs : list (node * table)) : list (node * table) :=
    fold_left (fun d sm => dict_set Z.eqb (fst sm) (snd sm) d) msgs c.

  (* ---- on_start (both algorithms; [sync] only changes the cost logged with an initial value) *)
  Definition var_start (sync : bool) (x : node) (vd : vdef) (st : nst) : nst * list (node * table) :=
    let st1 := match v_init vd with
               | Some i => log_sel st i (if sync then Some 0%Q else None)
               | None => let '(d, c) := select_value (p_max P) vd (n_costs st) in log_sel st d (Some c)
               end in
    let fs := factors_of x in
    let outs :=
      if Nat.eqb (List.length fs) 1 && Nat.eqb (p_start P) 0 then
        map (fun f => (f, costs_for_factor vd fs (n_costs st1) f)) (firstn 1 fs)
      else if Nat.eqb (p_start P) 1 || Nat.eqb (p_start P) 2 then
        map (fun f => (f, costs_for_factor vd fs (n_costs st1) f)) fs
      else [] in
    (log_out st1 outs, outs).

  Definition fac_start (fd : fdef) (st : nst) : nst * list (node * table) :=
    let vs := f_scope fd in
    let outs :=
      if Nat.eqb (List.length vs) 1 && (Nat.eqb (p_start P) 0 || Nat.eqb (p_start P) 1) then
        map (fun v => (v, factor_costs_for_var dom_of (p_max P) fd (n_costs st) v)) vs
      else if Nat.eqb (p_start P) 2 then
        map (fun v => (v, factor_costs_for_var dom_of (p_max P) fd (n_costs st) v)) vs
      else [] in
    (log_out st outs, outs).

  Definition node_start (sync : bool) (n : node) (st : nst) : nst * list (node * table) :=
    match zlookup n (d_vars G) with
    | Some vd => var_start sync n vd st
    | None => match zlookup n (d_facs G) with Some fd => fac_start fd st | None => (st, []) end
    end.

  (* ---- the sending loops; [skip] = targets left out (the sender, in amaxsum) *)
  Definition var_send (x : node) (vd : vdef) (st : nst) (skip : node -> bool) : nst * list (node * table) :=
    let fs := factors_of x in
    let '(outs, prev') := emit_all P (p_damp_vars P) (costs_for_factor vd fs (n_costs st)) (n_prev st)
                                   (filter (fun f => negb (skip f)) fs) in
    (log_out (mkN (n_costs st) prev' (n_sel st) (n_out st)) outs, outs).

  Definition fac_send (fd : fdef) (st : nst) (skip : node -> bool) : nst * list (node * table) :=
    let '(outs, prev') := emit_all P (p_damp_facs P) (factor_costs_for_var dom_of (p_max P) fd (n_costs st)) (n_prev st)
                                   (filter (fun v => negb (skip v)) (f_scope fd)) in
    (log_out (mkN (n_costs st) prev' (n_sel st) (n_out st)) outs, outs).

  Definition var_select (vd : vdef) (st : nst) : nst :=
    let '(d, c) := select_value (p_max P) vd (n_costs st) in log_sel st d (Some c).

  (* ---- maxsum.py on_new_cycle (messages of the round, already without SynchronizationMsg) *)
  Definition ms_cycle (n : node) (st : nst) (k : nat) (msgs : list (node * table))
    : nst * list (node * table) * list (node * table) :=
    let st1 := set_costs st (dict_update (n_costs st) msgs) in
    match zlookup n (d_vars G) with
    | Some vd => let '(st2, outs) := var_send n vd (var_select vd st1) (fun _ => false) in (st2, outs, [])
    | None =>
        match zlookup n (d_facs G) with
        | Some fd => let '(st2, outs) := fac_send fd st1 (fun _ => false) in (st2, outs, [])
        | None => (st1, [], [])
        end
    end.

  Definition maxsum_algo : algo nst table :=
    mkAlgo (fun _ => nst0) (node_start true) ms_cycle.
  Definition maxsum_proto : proto (sst nst table) (wmsg table) (ev table) := sync_proto nbrs maxsum_algo.

  (* ---- amaxsum.py _on_maxsum_msg *)
  Inductive aev := ASel (n : node) (d : nat) (c : option Q).

  Definition sel_events (n : node) (before after : nst) : list aev :=
    map (fun dc => ASel n (fst dc) (snd dc)) (skipn (List.length (n_sel before)) (n_sel after)).

  Definition ams_start (n : node) (st : nst) : nst * list (node * table) * list aev :=
    let '(st1, outs) := node_start false n st in (st1, outs, sel_events n st st1).

  Definition ams_recv (n : node) (st : nst) (src : node) (m : table) : nst * list (node * table) * list aev :=
    match zlookup n (d_vars G) with
    | Some vd =>
        let st1 := var_select vd (set_costs st (dict_set Z.eqb src m (n_costs st))) in
        let '(st2, outs) := var_send n vd st1 (Z.eqb src) in
        (st2, outs, sel_events n st st2)
    | None =>
        match zlookup n (d_facs G) with
        | Some fd =>
            let arity := List.length (f_scope fd) in
            let was_complete := Nat.eqb (List.length (n_costs st)) arity in
            let st1 := set_costs st (dict_set Z.eqb src m (n_costs st)) in
            if Nat.eqb (List.length (n_costs st1)) arity then
              let '(st2, outs) := fac_send fd st1 (fun v => Z.eqb v src && was_complete) in
              (st2, outs, [])
            else (st1, [], [])
        | None => (st, [], [])
        end
    end.

  Definition amaxsum_proto : proto nst table aev := mkProto (fun _ => nst0) ams_start ams_recv.

  (* current_value of a computation state: the value of the last value_selection call *)
  Definition current_value (st : nst) : option nat :=
    match rev (n_sel st) with [] => None | (d, _) :: _ => Some d end.
End Algo.

(* ------------------------------------------------------------------ the vocabulary of property C05
   (executable, so that the hypotheses can be checked on concrete witnesses) *)
(* a full assignment is positional over [d_vars] *)
Definition var_ids (G : dcop) : list node := map fst (d_vars G).
Definition all_nodes (G : dcop) : list node := var_ids G ++ map fst (d_facs G).
Definition val_of (G : dcop) (a : list nat) (x : node) : nat := nth (index_of x (var_ids G)) a 0%nat.
Definition total_cost (G : dcop) (a : list nat) : Q :=
  (qsum (map (fun xv => unary (snd (fst xv)) (snd xv)) (combine (d_vars G) a))
   + qsum (map (fun gf => f_cost (snd gf) (map (val_of G a) (f_scope (snd gf)))) (d_facs G)))%Q.
Definition valid_assignment (G : dcop) (a : list nat) : Prop :=
  Forall2 (fun v n => (v < n)%nat) a (map (fun xv => v_dom (snd xv)) (d_vars G)).
(* a is the unique optimal assignment *)
Definition unique_optimum (mx : bool) (G : dcop) (a : list nat) : Prop :=
  valid_assignment G a /\
  forall a', valid_assignment G a' -> a' <> a ->
             if mx then (total_cost G a' < total_cost G a)%Q else (total_cost G a < total_cost G a')%Q.
Definition unique_optimum_b (mx : bool) (G : dcop) (a : list nat) : bool :=
  let doms := map (fun xv => v_dom (snd xv)) (d_vars G) in
  existsb (list_eqb Nat.eqb a) (assigns doms) &&
  forallb (fun a' => list_eqb Nat.eqb a' a ||
                     (if mx then Qltb (total_cost G a') (total_cost G a) else Qltb (total_cost G a) (total_cost G a')))
          (assigns doms).

(* the factor graph is a forest: deleting edges at nodes of degree 1 again and again deletes every edge *)
Definition fg_edges (G : dcop) : list (node * node) :=
  flat_map (fun gf => map (fun x => (x, fst gf)) (f_scope (snd gf))) (d_facs G).
Definition deg_v (es : list (node * node)) (x : node) : nat := List.length (filter (fun e => Z.eqb (fst e) x) es).
Definition deg_f (es : list (node * node)) (f : node) : nat := List.length (filter (fun e => Z.eqb (snd e) f) es).
Definition prune (es : list (node * node)) : list (node * node) :=
  filter (fun e => negb (Nat.eqb (deg_v es (fst e)) 1 || Nat.eqb (deg_f es (snd e)) 1)) es.
Fixpoint prune_n (k : nat) (es : list (node * node)) : list (node * node) :=
  match k with O => es | S k' => prune_n k' (prune es) end.
Definition forest_b (G : dcop) : bool :=
  match prune_n (List.length (fg_edges G)) (fg_edges G) with [] => true | _ => false end.

(* the same notion by unrolling -- the form the exactness theorems use (P_MaxSum4/5: [others], [SN], [low],
   [forest_ok_b] are these functions; the evaluation order here is lazy so that cyclic graphs are rejected
   quickly): [unroll G h a b] = the computations met behind the directed edge a->b up to depth h,
   [u_closed] = nothing is left to explore, [forest_height_ok G H] = seen from every variable the unrolling to
   depth H+1 is closed and repetition-free, i.e. the factor graph is a forest of height <= H *)
Definition u_others (G : dcop) (a b : node) : list node := filter (fun c => negb (Z.eqb c b)) (nbrs G a).
Fixpoint unroll (G : dcop) (h : nat) (a b : node) : list node :=
  match h with O => [] | S h' => a :: flat_map (fun c => unroll G h' c a) (u_others G a b) end.
Fixpoint lazy_forallb {A} (p : A -> bool) (l : list A) : bool :=
  match l with [] => true | x :: r => if p x then lazy_forallb p r else false end.
Fixpoint u_closed (G : dcop) (h : nat) (a b : node) : bool :=
  match h with
  | O => false
  | S h' => lazy_forallb (fun c => u_closed G h' c a) (u_others G a b)
  end.
Definition forest_height_ok (G : dcop) (H : nat) : bool :=
  lazy_forallb (fun x => if u_closed G (S H) x x then nodupb Z.eqb (unroll G (S H) x x) else false) (var_ids G).
(* distinct computation names, scopes without repetition over declared variables (what load_dcop guarantees) *)
Definition wf_b (G : dcop) : bool :=
  nodupb Z.eqb (all_nodes G) &&
  forallb (fun gf => nodupb Z.eqb (f_scope (snd gf)) && forallb (fun y => zmem y (var_ids G)) (f_scope (snd gf)))
          (d_facs G).

(* every computation runs and no message is in flight *)
Definition quiescent {St Msg} (G : dcop) (cf : config St Msg) : bool :=
  forallb (fun n => w_running (nodes cf n)) (all_nodes G)
  && forallb (fun s => forallb (fun d => match chan cf s d with [] => true | _ => false end) (all_nodes G)) (all_nodes G).

Definition selected_async (G : dcop) (cf : config nst table) : list (option nat) :=
  map (fun x => current_value (w_st (nodes cf x))) (var_ids G).
Definition selected_sync (G : dcop) (cf : config (sst nst table) (wmsg table)) : list (option nat) :=
  map (fun x => current_value (ast (w_st (nodes cf x)))) (var_ids G).
(* every computation that has a neighbour has run at least [r] rounds *)
Definition rounds_done (P : params) (G : dcop) (cf : config (sst nst table) (wmsg table)) (r : nat) : bool :=
  forallb (fun n => w_running (nodes cf n) &&
                    (match nbrs G n with [] => true | _ => Nat.leb r (cur (w_st (nodes cf n))) end)) (all_nodes G).

(* a schedule family used by the witnesses: start everything, then [r] sweeps over all ordered pairs *)
Definition sweep (ns : list node) : list (@action) := flat_map (fun s => map (fun d => Deliver s d) ns) ns.
Definition lockstep (ns : list node) (r : nat) : list (@action) :=
  map Start ns ++ List.concat (repeat (sweep ns) r).

(* ------------------------------------------------------------------ correspondence *)
Definition qm (n d : Z) : Q := Qmake n (Z.to_pos d).
Definition qt (nums : list Z) (den : Z) : table := map (fun n => Qmake n (Z.to_pos den)) nums.

(* row-major table over the scope (first variable of the scope most significant) *)
Definition tab_fun (dims : list nat) (data : list Q) (a : list nat) : Q :=
  nth (fold_left (fun idx nv => (idx * fst nv + snd nv)%nat) (combine dims a) 0%nat) data 0%Q.

Fixpoint list_eqb2 {A B} (e : A -> B -> bool) (a : list A) (b : list B) : bool :=
  match a, b with
  | [], [] => true
  | x :: a', y :: b' => e x y && list_eqb2 e a' b'
  | _, _ => false
  end.

Definition table_eqb (a b : table) : bool := list_eqb Qeq_bool a b.
Definition oq_eqb (a b : option Q) : bool := option_eqb Qeq_bool a b.

Record case := mkCase {
  c_sync : bool;                                         (* maxsum (true) / amaxsum (false) *)
  c_par : params;
  c_vars : list (node * (Z * list Q * option Z));        (* id, (domain size, variable costs, initial value) *)
  c_facs : list (node * (list node * list Q));           (* id, (scope, row-major table) *)
  c_sched : list (@action);
  c_cycles : list (node * Z * list (node * table));      (* on_new_cycle(messages, id) calls, in order *)
  c_selev : list (node * Z * option Q);                  (* amaxsum: value_selection calls, global order *)
  c_sends : list (node * list (node * Z * option table));(* per node: every message posted (target, stamp, body) *)
  c_sels : list (node * list (Z * option Q));            (* per variable: value_selection calls *)
  c_final : list (node * Z);                             (* maxsum: final current_cycle *)
  c_inflight : list (node * node * Z);                   (* non-empty channels at the end: length *)
  c_nodes : list node;
  c_height : Z                                           (* height of the forest computed by the harness; -1 = the factor graph has a cycle *)
}.

Definition case_dcop (c : case) : dcop :=
  let vars := map (fun v => let '(n, (sz, un, ini)) := v in
                            (n, mkV (Z.to_nat sz) un (option_map Z.to_nat ini))) (c_vars c) in
  let dsz := fun y => match zlookup y vars with Some vd => v_dom vd | None => 0%nat end in
  mkD vars (map (fun f => let '(n, (sc, data)) := f in (n, mkF sc (tab_fun (map dsz sc) data))) (c_facs c)).

Definition sel_eqb (a : nat * option Q) (b : Z * option Q) : bool :=
  Z.eqb (Z.of_nat (fst a)) (fst b) && oq_eqb (snd a) (snd b).
Definition msgs_eqb (a b : list (node * table)) : bool := list_eqb (pair_eqb Z.eqb table_eqb) a b.

Definition inflight_ok (c : case) (ch : node -> node -> nat) : bool :=
  forallb (fun s => forallb (fun d =>
        Z.eqb (Z.of_nat (ch s d))
              (match lookup (pair_eqb Z.eqb Z.eqb) (s, d) (map (fun x => let '(a, b, l) := x in ((a, b), l)) (c_inflight c))
               with Some l => l | None => 0 end)) (c_nodes c)) (c_nodes c).

(* the five components of the comparison, separately (for diagnosis) *)
Definition check_sync_parts (c : case) : list bool :=
  let G := case_dcop c in
  let '(cf, evs) := run (maxsum_proto (c_par c) G) (c_sched c) in
  [ list_eqb2 (fun e o => match e with
                       | EvCycle n k m => let '(n', k', m') := o in Z.eqb n n' && Z.eqb (Z.of_nat k) k' && msgs_eqb m m'
                       | EvRaise _ _ => false
                       end) evs (c_cycles c);
    (* per ordered pair (the order of node.neighbors is a set order in the code, so the interleaving of
       messages to different targets is not comparable -- and not observable on per-pair channels) *)
    forallb (fun ns => let st := w_st (nodes cf (fst ns)) in
      forallb (fun d =>
        list_eqb2 (fun a b => let '(k, t, body) := a in let '(t', k', body') := b in
                             Z.eqb t t' && Z.eqb (Z.of_nat k) k' && option_eqb table_eqb body body')
                 (filter (fun a => Z.eqb (snd (fst a)) d) (outlog st))
                 (filter (fun b => Z.eqb (fst (fst b)) d) (snd ns))) (c_nodes c)) (c_sends c);
    forallb (fun ns => list_eqb2 sel_eqb (n_sel (ast (w_st (nodes cf (fst ns))))) (snd ns)) (c_sels c);
    forallb (fun nk => Z.eqb (Z.of_nat (cur (w_st (nodes cf (fst nk))))) (snd nk)) (c_final c);
    inflight_ok c (fun s d => List.length (chan cf s d)) ].

Definition check_async_parts (c : case) : list bool :=
  let G := case_dcop c in
  let '(cf, evs) := run (amaxsum_proto (c_par c) G) (c_sched c) in
  [ list_eqb2 (fun e o => match e with ASel n d q => let '(n', d', q') := o in
                                                  Z.eqb n n' && Z.eqb (Z.of_nat d) d' && oq_eqb q q' end)
           evs (c_selev c);
    forallb (fun ns => let st := w_st (nodes cf (fst ns)) in
        list_eqb2 (fun a b => let '(t', k', body') := b in
                             Z.eqb (fst a) t' && match body' with Some t => table_eqb (snd a) t | None => false end)
                 (n_out st) (snd ns)) (c_sends c);
    forallb (fun ns => list_eqb2 sel_eqb (n_sel (w_st (nodes cf (fst ns)))) (snd ns)) (c_sels c);
    inflight_ok c (fun s d => List.length (chan cf s d)) ].

(* the harness's independent notion of "forest of height H" agrees with the hypotheses of the theorems *)
Definition check_graph (c : case) : bool :=
  let G := case_dcop c in
  wf_b G &&
  (if Z.ltb (c_height c) 0
   then negb (forest_b G) && negb (forest_height_ok G (List.length (all_nodes G)))
   else forest_b G && forest_height_ok G (Z.to_nat (c_height c)) &&
        (Z.eqb (c_height c) 0 || negb (forest_height_ok G (Z.to_nat (c_height c - 1))))).

Definition check_case (c : case) : bool :=
  check_graph c && forallb (fun b => b) (if c_sync c then check_sync_parts c else check_async_parts c).
