(* P_Batch.v -- proofs about M_Batch (C29): sorting facts, the expansion is exactly the set of
   choice functions, its length, absence of repetition, independence of insertion order,
   option rendering. *)
From PyDcop Require Import Base P_Base.
From Coq Require Import Permutation Sorted.

Lemma ascii_compare_lt_trans a b c :
  Ascii.compare a b = Lt -> Ascii.compare b c = Lt -> Ascii.compare a c = Lt.
Proof. unfold Ascii.compare. rewrite !N.compare_lt_iff. lia. Qed.

Lemma string_compare_lt_trans : forall a b c,
  String.compare a b = Lt -> String.compare b c = Lt -> String.compare a c = Lt.
Proof.
  induction a as [|x a IH]; intros [|y b] [|z c]; simpl; try congruence.
  destruct (Ascii.compare x y) eqn:E1; try discriminate;
  destruct (Ascii.compare y z) eqn:E2; try discriminate; intros H1 H2.
  - apply Ascii.compare_eq_iff in E1, E2. subst.
    assert (Ascii.compare z z = Eq) as -> by (unfold Ascii.compare; apply N.compare_refl).
    eauto.
  - apply Ascii.compare_eq_iff in E1. subst. now rewrite E2.
  - apply Ascii.compare_eq_iff in E2. subst. now rewrite E1.
  - now rewrite (ascii_compare_lt_trans _ _ _ E1 E2).
Qed.

Lemma string_compare_refl s : String.compare s s = Eq.
Proof.
  induction s; simpl; auto.
  assert (Ascii.compare a a = Eq) as -> by (unfold Ascii.compare; apply N.compare_refl). auto.
Qed.

Lemma string_leb_trans a b c :
  String.leb a b = true -> String.leb b c = true -> String.leb a c = true.
Proof.
  unfold String.leb.
  destruct (String.compare a b) eqn:E1; try discriminate;
  destruct (String.compare b c) eqn:E2; try discriminate; intros _ _.
  - apply String.compare_eq_iff in E1, E2. subst. now rewrite string_compare_refl.
  - apply String.compare_eq_iff in E1. subst. now rewrite E2.
  - apply String.compare_eq_iff in E2. subst. now rewrite E1.
  - now rewrite (string_compare_lt_trans _ _ _ E1 E2).
Qed.

Lemma string_leb_refl a : String.leb a a = true.
Proof. unfold String.leb. now rewrite string_compare_refl. Qed.

Section SortFacts.
  Context {A : Type} (leb : A -> A -> bool).
  Hypothesis leb_total : forall a b, leb a b = true \/ leb b a = true.
  Hypothesis leb_trans : forall a b c, leb a b = true -> leb b c = true -> leb a c = true.
  Let R a b := leb a b = true.

  Lemma insert_sorted_perm x l : Permutation (insert_sorted leb x l) (x :: l).
  Proof.
    induction l as [|y r IH]; simpl; auto.
    destruct (leb x y); auto.
    rewrite IH. apply perm_swap.
  Qed.

  Lemma isort_perm l : Permutation (isort leb l) l.
  Proof.
    induction l as [|x r IH]; simpl; auto.
    rewrite insert_sorted_perm. now constructor.
  Qed.

  Lemma insert_sorted_sorted x l :
    StronglySorted R l -> StronglySorted R (insert_sorted leb x l).
  Proof.
    induction 1 as [|y r Hs IH Hall]; simpl.
    - repeat constructor.
    - destruct (leb x y) eqn:E.
      + constructor; [constructor; auto|]. constructor; auto.
        eapply Forall_impl; [|exact Hall]. intros z Hz. eapply leb_trans; eauto.
      + constructor; auto.
        assert (Hyx : leb y x = true) by (destruct (leb_total x y); congruence).
        eapply Permutation_Forall; [symmetry; apply insert_sorted_perm|].
        constructor; auto.
  Qed.

  Lemma isort_sorted l : StronglySorted R (isort leb l).
  Proof.
    induction l; simpl; [constructor|]. now apply insert_sorted_sorted.
  Qed.

  (* two sorted permutations of each other are equal when the order is antisymmetric on them *)
  Lemma sorted_perm_unique l : forall l',
    StronglySorted R l -> StronglySorted R l' -> Permutation l l' ->
    (forall a b, In a l -> In b l -> leb a b = true -> leb b a = true -> a = b) ->
    l = l'.
  Proof.
    induction l as [|x r IH]; intros l' Hs Hs' Hp Ha.
    - apply Permutation_nil in Hp. now subst.
    - destruct l' as [|y r']; [apply Permutation_sym, Permutation_nil in Hp; discriminate|].
      inversion Hs as [|? ? Hsr Hxr]; inversion Hs' as [|? ? Hsr' Hyr']; subst.
      assert (x = y) as ->.
      { assert (Hy : In y (x :: r)) by (eapply Permutation_in; [symmetry; eauto|now left]).
        assert (Hx : In x (y :: r')) by (eapply Permutation_in; [eauto|now left]).
        destruct Hy as [|Hy]; auto. destruct Hx as [|Hx]; auto.
        rewrite Forall_forall in Hxr, Hyr'.
        apply Ha; [now left|now right|apply Hxr; auto|apply Hyr'; auto]. }
      f_equal. apply IH; auto.
      + eapply Permutation_cons_inv; eauto.
      + intros a b Ha' Hb'. apply Ha; now right.
  Qed.

  Lemma isort_perm_eq l l' :
    Permutation l l' ->
    (forall a b, In a l -> In b l -> leb a b = true -> leb b a = true -> a = b) ->
    isort leb l = isort leb l'.
  Proof.
    intros Hp Ha. apply sorted_perm_unique; try apply isort_sorted.
    - rewrite !isort_perm. auto.
    - intros a b Hina Hinb. apply Ha; eapply Permutation_in; try apply isort_perm; auto.
  Qed.
End SortFacts.

(* sorting by a key commutes with a map that preserves the key *)
Lemma insert_sorted_map {A B} (la : A -> A -> bool) (lb : B -> B -> bool) (f : A -> B) :
  (forall x y, lb (f x) (f y) = la x y) ->
  forall x l, insert_sorted lb (f x) (map f l) = map f (insert_sorted la x l).
Proof.
  intros H x l; induction l as [|y r IH]; simpl; auto.
  rewrite H. destruct (la x y); simpl; auto. now rewrite IH.
Qed.

Lemma isort_map {A B} (la : A -> A -> bool) (lb : B -> B -> bool) (f : A -> B) :
  (forall x y, lb (f x) (f y) = la x y) ->
  forall l, isort lb (map f l) = map f (isort la l).
Proof.
  intros H l; induction l as [|x r IH]; simpl; auto.
  rewrite IH. now apply insert_sorted_map.
Qed.

(* ======================= batch model ======================= *)
From PyDcop Require Import M_Batch.

(* induction principle for the nested type *)
Section PdefInd.
  Variable P : pdef -> Prop.
  Hypothesis HL : forall l, P (PList l).
  Hypothesis HD : forall d, Forall (fun kv => P (snd kv)) d -> P (PDict d).
  Fixpoint pdef_ind' (v : pdef) : P v :=
    match v with
    | PList l => HL l
    | PDict d =>
        HD d ((fix go (d : list (string * pdef)) : Forall (fun kv => P (snd kv)) d :=
                 match d with
                 | [] => Forall_nil _
                 | kv :: r => Forall_cons kv (pdef_ind' (snd kv)) (go r)
                 end) d)
    end.
End PdefInd.

Lemma expand_PDict d :
  expand (PDict d) = map CDict (parameters_configuration d).
Proof.
  unfold parameters_configuration, expand_items. simpl. do 3 f_equal.
  induction d as [|[k v] r IH]; simpl; auto. now rewrite IH.
Qed.

Lemma expand_PList l : expand (PList l) = map CVal (isort String.leb l).
Proof. reflexivity. Qed.

Lemma key_leb_total {V} (a b : string * V) : key_leb a b = true \/ key_leb b a = true.
Proof. apply String.leb_total. Qed.
Lemma key_leb_trans {V} (a b c : string * V) :
  key_leb a b = true -> key_leb b c = true -> key_leb a c = true.
Proof. apply string_leb_trans. Qed.

(* the code sorts the items and then expands; the model expands and then sorts *)
Lemma isort_expand_items d :
  isort key_leb (expand_items d) = expand_items (isort key_leb d).
Proof. unfold expand_items. apply isort_map. reflexivity. Qed.

(* ---------- kproduct = all choice functions ---------- *)
Definition choice_of {V} (kvs : string * list V) (kx : string * V) : Prop :=
  fst kvs = fst kx /\ In (snd kx) (snd kvs).

Lemma kproduct_spec {V} (l : list (string * list V)) c :
  In c (kproduct l) <-> Forall2 choice_of l c.
Proof.
  revert c; induction l as [|[k vs] r IH]; intros c; simpl.
  - split.
    + intros [<-|[]]. constructor.
    + intros H; inversion H; auto.
  - rewrite in_flat_map. split.
    + intros [v [Hv Hc]]. apply in_map_iff in Hc as [c' [<- Hc']].
      constructor; [split; auto|]. now apply IH.
    + intros H. inversion H as [|? [k' x] ? c' [Hk Hx] Hr]; subst. simpl in *. subst k'.
      exists x. split; auto. apply in_map. now apply IH.
Qed.

Fixpoint zprod (l : list nat) : nat := match l with [] => 1%nat | x :: r => (x * zprod r)%nat end.

Lemma kproduct_length {V} (l : list (string * list V)) :
  List.length (kproduct l) = zprod (map (fun kvs => List.length (snd kvs)) l).
Proof.
  induction l as [|[k vs] r IH]; simpl; auto.
  rewrite <- IH. generalize (kproduct r) as p. intros p.
  induction vs as [|v vs IHv]; simpl; auto.
  rewrite app_length, map_length, IHv. reflexivity.
Qed.

Lemma zprod_perm l l' : Permutation l l' -> zprod l = zprod l'.
Proof. induction 1; simpl; try lia. Qed.

Lemma NoDup_app_intro {A} (a b : list A) :
  NoDup a -> NoDup b -> (forall x, In x a -> ~ In x b) -> NoDup (a ++ b).
Proof.
  induction 1 as [|x r Hx Hr IH]; simpl; intros Hb Hd; auto.
  constructor.
  - rewrite in_app_iff. intros [H|H]; [contradiction|]. apply (Hd x); auto.
  - apply IH; auto.
Qed.

Lemma NoDup_map_inj {A B} (f : A -> B) l :
  (forall x y, In x l -> In y l -> f x = f y -> x = y) -> NoDup l -> NoDup (map f l).
Proof.
  intros Hinj; induction 1 as [|x r Hx Hr IH]; simpl; constructor.
  - rewrite in_map_iff. intros [y [E Hy]]. apply Hinj in E; simpl; auto. now subst.
  - apply IH. intros; apply Hinj; simpl; auto.
Qed.

Lemma NoDup_flat_map {A B} (f : A -> list B) l :
  NoDup l -> (forall a, In a l -> NoDup (f a)) ->
  (forall a a' b, In a l -> In a' l -> In b (f a) -> In b (f a') -> a = a') ->
  NoDup (flat_map f l).
Proof.
  induction 1 as [|x r Hx Hr IH]; simpl; intros Hf Hd; [constructor|].
  apply NoDup_app_intro.
  - apply Hf; auto.
  - apply IH; intros; [apply Hf|eapply Hd]; eauto.
  - intros b Hb Hb'. apply in_flat_map in Hb' as [a' [Ha' Hb']].
    assert (x = a') by (eapply Hd; eauto). now subst.
Qed.

Lemma kproduct_nodup {V} (l : list (string * list V)) :
  Forall (fun kvs => NoDup (snd kvs)) l -> NoDup (kproduct l).
Proof.
  induction 1 as [|[k vs] r Hvs Hr IH]; simpl.
  - repeat constructor. intros [].
  - apply NoDup_flat_map; auto.
    + intros v _. apply NoDup_map_inj; auto. intros x y _ _ E. now inversion E.
    + intros v v' c _ _ H1 H2. apply in_map_iff in H1 as [c1 [<- _]].
      apply in_map_iff in H2 as [c2 [E _]]. now inversion E.
Qed.

(* ---------- specification of the expansion ---------- *)
(* [Choice v x]: x picks one value for every leaf of v; the names of a (sub-)dict appear in
   sorted order *)
Inductive Choice : pdef -> comb -> Prop :=
| ChLeaf l s : In s l -> Choice (PList l) (CVal s)
| ChDict d c :
    Forall2 (fun kv kx => fst kv = fst kx /\ Choice (snd kv) (snd kx)) (isort key_leb d) c ->
    Choice (PDict d) (CDict c).

Definition ChoiceD (d : list (string * pdef)) (c : list (string * comb)) : Prop :=
  Forall2 (fun kv kx => fst kv = fst kx /\ Choice (snd kv) (snd kx)) (isort key_leb d) c.

Lemma Forall_isort {A} (leb : A -> A -> bool) (P : A -> Prop) l :
  Forall P l -> Forall P (isort leb l).
Proof. intros H. eapply Permutation_Forall; [symmetry; apply isort_perm|auto]. Qed.

Lemma expand_spec v : forall x, In x (expand v) <-> Choice v x.
Proof.
  induction v as [l|d IH] using pdef_ind'; intros x.
  - rewrite expand_PList, in_map_iff. split.
    + intros [s [<- Hs]]. constructor.
      eapply Permutation_in; [apply isort_perm|eauto].
    + intros H; inversion H; subst. exists s. split; auto.
      eapply Permutation_in; [symmetry; apply isort_perm|eauto].
  - rewrite expand_PDict, in_map_iff. unfold parameters_configuration.
    rewrite isort_expand_items.
    apply (Forall_isort key_leb) in IH.
    remember (isort key_leb d) as sd eqn:Esd.
    assert (K : forall c, In c (kproduct (expand_items sd)) <->
                Forall2 (fun kv kx => fst kv = fst kx /\ Choice (snd kv) (snd kx)) sd c).
    { clear Esd. intros c. rewrite kproduct_spec. revert c.
      induction IH as [|[k v] r Hv Hr IHr]; intros c; simpl.
      - split; intros H; inversion H; constructor.
      - split; intros H; inversion H as [|? [k' x'] ? c' [Hk Hx] Hrest]; subst; simpl in *.
        + constructor; [split; auto; now apply Hv|]. now apply IHr.
        + constructor; [split; auto; simpl; now apply Hv|]. now apply IHr. }
    split.
    + intros [c [<- Hc]]. constructor. rewrite <- Esd. now apply K.
    + intros H. inversion H as [|? c Hc]; subst. exists c. split; auto.
      apply K. exact Hc.
Qed.

Lemma expansion_complete_l d c :
  In c (parameters_configuration d) <-> ChoiceD d c.
Proof.
  pose proof (expand_spec (PDict d) (CDict c)) as H. rewrite expand_PDict in H.
  unfold ChoiceD. split; intros Hc.
  - assert (Hi : In (CDict c) (map CDict (parameters_configuration d))) by now apply in_map.
    apply H in Hi. now inversion Hi.
  - assert (Hi : Choice (PDict d) (CDict c)) by now constructor.
    apply H in Hi. apply in_map_iff in Hi as [c' [E Hc']]. now inversion E; subst.
Qed.

Lemma isort_keys {V} (d : list (string * V)) :
  map fst (isort key_leb d) = isort String.leb (map fst d).
Proof. symmetry. apply isort_map. reflexivity. Qed.

Lemma expansion_keys_sorted_l d c :
  In c (parameters_configuration d) -> map fst c = isort String.leb (map fst d).
Proof.
  intros H. apply expansion_complete_l in H. unfold ChoiceD in H.
  rewrite <- isort_keys. induction H as [|a b r r' [E _] _ IH]; simpl; auto. now rewrite IH, E.
Qed.

(* ---------- length = product of the value counts ---------- *)
Fixpoint count (v : pdef) : nat :=
  match v with
  | PList l => List.length l
  | PDict d => (fix go (d : list (string * pdef)) : nat :=
                  match d with [] => 1%nat | (_, v') :: r => (count v' * go r)%nat end) d
  end.
Definition count_items (d : list (string * pdef)) : nat := zprod (map (fun kv => count (snd kv)) d).

Lemma count_PDict d : count (PDict d) = count_items d.
Proof. unfold count_items. simpl. induction d as [|[k v] r IH]; simpl; auto. Qed.

Lemma expand_length v : List.length (expand v) = count v.
Proof.
  induction v as [l|d IH] using pdef_ind'.
  - rewrite expand_PList, map_length. apply Permutation_length, isort_perm.
  - rewrite expand_PDict, map_length, count_PDict. unfold parameters_configuration, count_items.
    rewrite kproduct_length, isort_expand_items. unfold expand_items. rewrite map_map. simpl.
    rewrite (zprod_perm (map (fun kv => count (snd kv)) d)
                        (map (fun kv => count (snd kv)) (isort key_leb d)))
      by (apply Permutation_map, Permutation_sym, isort_perm).
    f_equal. apply (Forall_isort key_leb) in IH.
    induction IH as [|kv r Hkv _ IHr]; simpl; auto. now rewrite Hkv, IHr.
Qed.

Lemma expansion_length_l d : List.length (parameters_configuration d) = count_items d.
Proof.
  rewrite <- count_PDict, <- expand_length, expand_PDict. now rewrite map_length.
Qed.

(* ---------- no repetition when the values of every leaf are distinct ---------- *)
Inductive distinct_values : pdef -> Prop :=
| DvLeaf l : NoDup l -> distinct_values (PList l)
| DvDict d : Forall (fun kv => distinct_values (snd kv)) d -> distinct_values (PDict d).

Lemma expand_nodup v : distinct_values v -> NoDup (expand v).
Proof.
  induction v as [l|d IH] using pdef_ind'; intros Hd; inversion Hd as [? Hl|? Hf]; subst.
  - rewrite expand_PList. apply NoDup_map_inj.
    + intros x y _ _ E. now inversion E.
    + eapply Permutation_NoDup; [symmetry; apply isort_perm|auto].
  - rewrite expand_PDict. apply NoDup_map_inj.
    + intros x y _ _ E. now inversion E.
    + unfold parameters_configuration. rewrite isort_expand_items. apply kproduct_nodup.
      unfold expand_items. rewrite Forall_map. simpl.
      apply (Forall_isort key_leb) in IH. apply (Forall_isort key_leb) in Hf.
      rewrite Forall_forall in *. intros kv Hin. apply IH; auto.
Qed.

Lemma expansion_nodup_l d :
  Forall (fun kv => distinct_values (snd kv)) d -> NoDup (parameters_configuration d).
Proof.
  intros H. apply (NoDup_map_inv CDict). rewrite <- expand_PDict.
  apply expand_nodup. now constructor.
Qed.

(* ---------- determinism: insertion order of the dicts and order of the lists are irrelevant *)
Inductive same_def : pdef -> pdef -> Prop :=
| SdLeaf l l' : Permutation l l' -> same_def (PList l) (PList l')
| SdDict d d2 d' :
    Forall2 (fun a b => fst a = fst b /\ same_def (snd a) (snd b)) d d2 ->
    Permutation d2 d' -> same_def (PDict d) (PDict d').

Inductive unique_keys : pdef -> Prop :=
| UkLeaf l : unique_keys (PList l)
| UkDict d : NoDup (map fst d) -> Forall (fun kv => unique_keys (snd kv)) d -> unique_keys (PDict d).

Lemma nodup_keys_inj {V} (l : list (string * V)) a b :
  NoDup (map fst l) -> In a l -> In b l -> fst a = fst b -> a = b.
Proof.
  induction l as [|x r IH]; simpl; intros Hn Ha Hb E; [contradiction|].
  inversion Hn as [|? ? Hx Hr]; subst.
  destruct Ha as [->|Ha], Hb as [->|Hb]; auto.
  - exfalso. apply Hx. rewrite E. now apply in_map.
  - exfalso. apply Hx. rewrite <- E. now apply in_map.
Qed.

Lemma expand_same_def v : forall v', unique_keys v -> same_def v v' -> expand v = expand v'.
Proof.
  induction v as [l|d IH] using pdef_ind'; intros v' Hu Hs; inversion Hs as [? l' Hp|? d2 d' Hf Hp]; subst.
  - rewrite !expand_PList. f_equal.
    apply isort_perm_eq; auto; [apply String.leb_total|apply string_leb_trans|].
    intros a b _ _. apply String.leb_antisym.
  - inversion Hu as [|? Hk Hw]; subst.
    rewrite !expand_PDict. f_equal. unfold parameters_configuration. f_equal.
    assert (E : expand_items d = expand_items d2).
    { clear Hp Hk Hu Hs. induction Hf as [|[k v] [k2 v2] r r2 [Ek Ev] Hr IHr]; simpl; auto.
      simpl in Ek, Ev. subst k2.
      pose proof (Forall_inv IH) as IH1. pose proof (Forall_inv_tail IH) as IH2.
      pose proof (Forall_inv Hw) as Hw1. pose proof (Forall_inv_tail Hw) as Hw2.
      simpl in IH1, Hw1. rewrite (IH1 v2 Hw1 Ev). f_equal. apply IHr; auto. }
    rewrite E.
    apply isort_perm_eq; [apply key_leb_total|apply key_leb_trans| |].
    + now apply Permutation_map.
    + intros a b Ha Hb H1 H2. rewrite <- E in Ha, Hb.
      apply (nodup_keys_inj (expand_items d)); auto.
      * unfold expand_items. rewrite map_map. simpl. exact Hk.
      * apply String.leb_antisym; auto.
Qed.

Lemma expansion_deterministic_l d d' :
  unique_keys (PDict d) -> same_def (PDict d) (PDict d') ->
  parameters_configuration d = parameters_configuration d'.
Proof.
  intros Hu Hs. pose proof (expand_same_def _ _ Hu Hs) as H. rewrite !expand_PDict in H.
  revert H. generalize (parameters_configuration d) (parameters_configuration d').
  induction l as [|x r IHl]; intros [|y r'] H; simpl in H; try discriminate; auto.
  inversion H; subst. f_equal; auto.
Qed.

(* ---------- option rendering ---------- *)
Open Scope string_scope.
(* a chosen leaf: parameter name, sub-parameter name if nested, chosen value *)
Inductive leaf := Leaf (param : string) (sub : option string) (value : string).

Definition render (l : leaf) : string :=
  match l with
  | Leaf p None v => "--" ++ p ++ " " ++ v
  | Leaf p (Some s) v => "--" ++ p ++ " " ++ s ++ ":" ++ v
  end.

Definition sub_leaf (p : string) (kv : string * comb) : list leaf :=
  match snd kv with CVal s => [Leaf p (Some (fst kv)) s] | CDict _ => [] end.
Definition leaves_of (kv : string * comb) : list leaf :=
  match snd kv with
  | CVal s => [Leaf (fst kv) None s]
  | CDict d => flat_map (sub_leaf (fst kv)) d
  end.
Definition leaves (c : list (string * comb)) : list leaf := flat_map leaves_of c.

Definition is_val (x : comb) : bool := match x with CVal _ => true | CDict _ => false end.
Definition one_level (c : list (string * comb)) : bool :=
  forallb (fun kv => match snd kv with
                     | CVal _ => true
                     | CDict d => forallb (fun sk => is_val (snd sk)) d
                     end) c.

Lemma sub_pieces_spec p d :
  forallb (fun sk => is_val (snd sk)) d = true ->
  all_some (map (sub_piece p) d) = Some (map render (flat_map (sub_leaf p) d)).
Proof.
  induction d as [|[k x] r IH]; simpl; auto.
  intros H. apply andb_true_iff in H as [Hx Hr]. destruct x; try discriminate.
  unfold sub_piece at 1. simpl. rewrite (IH Hr). reflexivity.
Qed.

Lemma option_pieces_spec c :
  one_level c = true -> option_pieces c = Some (map render (leaves c)).
Proof.
  unfold option_pieces, leaves.
  induction c as [|[k x] r IH]; simpl; auto.
  intros H. apply andb_true_iff in H as [Hx Hr]. specialize (IH Hr).
  destruct (all_some (map pieces_of r)) as [ls|] eqn:E; [|discriminate].
  inversion IH as [IH']. rewrite map_app. unfold pieces_of at 1, leaves_of at 1. simpl.
  destruct x as [s|d]; simpl.
  - now rewrite IH'.
  - simpl in Hx. rewrite (sub_pieces_spec k d Hx). simpl. now rewrite IH'.
Qed.

Lemma options_render_once_l c :
  one_level c = true ->
  build_option_for_parameters c = Some (join " " (map render (leaves c))).
Proof. intros H. unfold build_option_for_parameters. now rewrite option_pieces_spec. Qed.

(* the leaf parameters of a definition nested at most one level, in the order of the
   expansion, each with its list of values *)
Definition is_list (v : pdef) : bool := match v with PList _ => true | PDict _ => false end.
Definition one_level_def (d : list (string * pdef)) : bool :=
  forallb (fun kv => match snd kv with
                     | PList _ => true
                     | PDict sd => forallb (fun skv => is_list (snd skv)) sd
                     end) d.
Definition sub_param (p : string) (skv : string * pdef) : list (string * option string * list string) :=
  match snd skv with PList l => [(p, Some (fst skv), l)] | PDict _ => [] end.
Definition params_of (kv : string * pdef) : list (string * option string * list string) :=
  match snd kv with
  | PList l => [(fst kv, None, l)]
  | PDict sd => flat_map (sub_param (fst kv)) (isort key_leb sd)
  end.
Definition leaf_params (d : list (string * pdef)) : list (string * option string * list string) :=
  flat_map params_of (isort key_leb d).

Definition leaf_matches (lp : string * option string * list string) (lf : leaf) : Prop :=
  match lf with Leaf p s v => p = fst (fst lp) /\ s = snd (fst lp) /\ In v (snd lp) end.

Lemma forallb_perm {A} (f : A -> bool) l l' :
  Permutation l l' -> forallb f l = true -> forallb f l' = true.
Proof.
  intros Hp H. rewrite forallb_forall in *. intros x Hx. apply H.
  eapply Permutation_in; [symmetry|]; eauto.
Qed.

Lemma sub_choice p sd : forall c,
  forallb (fun skv => is_list (snd skv)) sd = true ->
  Forall2 (fun kv kx => fst kv = fst kx /\ Choice (snd kv) (snd kx)) sd c ->
  forallb (fun sk => is_val (snd sk)) c = true /\
  Forall2 leaf_matches (flat_map (sub_param p) sd) (flat_map (sub_leaf p) c).
Proof.
  induction sd as [|[k v] r IH]; intros c Hl Hc; inversion Hc as [|? [k' x] ? c' [Ek Ex] Hr]; subst; simpl.
  - split; [reflexivity|constructor].
  - simpl in *. apply andb_true_iff in Hl as [Hv Hl]. destruct v as [l|]; try discriminate.
    inversion Ex; subst. destruct (IH c' Hl Hr) as [H1 H2]. split; auto.
    unfold sub_param at 1, sub_leaf at 1. simpl. constructor; auto. simpl. auto.
Qed.

Lemma options_leaves_fixed_l d c :
  one_level_def d = true -> In c (parameters_configuration d) ->
  one_level c = true /\ Forall2 leaf_matches (leaf_params d) (leaves c).
Proof.
  intros Hd Hc. apply expansion_complete_l in Hc. unfold ChoiceD in Hc. unfold leaf_params.
  apply (forallb_perm _ _ (isort key_leb d)) in Hd; [|symmetry; apply isort_perm].
  revert Hd Hc. generalize (isort key_leb d) as sd. unfold one_level_def.
  intros sd; revert c. induction sd as [|[k v] r IH]; intros c Hd Hc;
    inversion Hc as [|? [k' x] ? c' [Ek Ex] Hr]; subst; simpl.
  - split; [reflexivity|constructor].
  - simpl in *. apply andb_true_iff in Hd as [Hv Hd]. destruct (IH c' Hd Hr) as [H1 H2].
    unfold leaves in *. simpl. destruct v as [l|sub]; inversion Ex as [? s Hs|? cs Hcs]; subst.
    + split; auto. unfold params_of at 1, leaves_of at 1. simpl. constructor; simpl; auto.
    + apply (forallb_perm _ _ (isort key_leb sub)) in Hv; [|symmetry; apply isort_perm].
      destruct (sub_choice k' _ _ Hv Hcs) as [G1 G2]. simpl. rewrite G1. split; auto.
      unfold params_of at 1, leaves_of at 1. simpl. apply Forall2_app; auto.
Qed.

(* ---------- the rendered pieces determine the combination ---------- *)
Lemma sapp_inv_head (a b c : string) : a ++ b = a ++ c -> b = c.
Proof. induction a; simpl; intros H; auto. inversion H; auto. Qed.

Lemma app_eq_length {A} (a a' b b' : list A) :
  List.length a = List.length a' -> (a ++ b = a' ++ b')%list -> a = a' /\ b = b'.
Proof.
  revert a'; induction a as [|x r IH]; intros [|y r'] Hl H; simpl in *; try discriminate; auto.
  inversion H; subst. destruct (IH r') as [-> ->]; auto.
Qed.

Lemma render_inj p s v1 v2 : render (Leaf p s v1) = render (Leaf p s v2) -> v1 = v2.
Proof.
  destruct s as [s|]; unfold render; intros H.
  - apply sapp_inv_head, sapp_inv_head, sapp_inv_head, sapp_inv_head, sapp_inv_head in H. exact H.
  - apply sapp_inv_head, sapp_inv_head, sapp_inv_head in H. exact H.
Qed.

Lemma cons_eq_inv {A} (x y : A) l l' : x :: l = y :: l' -> x = y /\ l = l'.
Proof. intros H; inversion H; auto. Qed.

Definition choice_rel (kv : string * pdef) (kx : string * comb) : Prop :=
  fst kv = fst kx /\ Choice (snd kv) (snd kx).

Lemma sub_leaves_length p ssd : forall cs,
  forallb (fun skv => is_list (snd skv)) ssd = true ->
  Forall2 choice_rel ssd cs -> List.length (flat_map (sub_leaf p) cs) = List.length ssd.
Proof.
  induction ssd as [|[k v] r IH]; intros cs Hl Hc; inversion Hc as [|? [k' x] ? cs' [Ek Ex] Hr]; subst; simpl; auto.
  simpl in *. apply andb_true_iff in Hl as [Hv Hl]. destruct v; try discriminate.
  inversion Ex; subst. unfold sub_leaf at 1. simpl. f_equal. auto.
Qed.

Lemma sub_leaves_inj p ssd : forall cs1 cs2,
  forallb (fun skv => is_list (snd skv)) ssd = true ->
  Forall2 choice_rel ssd cs1 -> Forall2 choice_rel ssd cs2 ->
  map render (flat_map (sub_leaf p) cs1) = map render (flat_map (sub_leaf p) cs2) -> cs1 = cs2.
Proof.
  induction ssd as [|[k v] r IH]; intros cs1 cs2 Hl H1 H2 E;
    inversion H1 as [|? [k1 x1] ? r1 [Ek1 Ex1] Hr1]; inversion H2 as [|? [k2 x2] ? r2 [Ek2 Ex2] Hr2]; subst; auto.
  simpl in *. subst k1 k2. apply andb_true_iff in Hl as [Hv Hl]. destruct v; try discriminate.
  inversion Ex1; inversion Ex2; subst.
  cbn [flat_map map app sub_leaf snd fst] in E.
  apply cons_eq_inv in E as [Es Er]. apply render_inj in Es. subst.
  f_equal. eapply IH; eauto.
Qed.

Lemma leaves_inj sd : forall c1 c2,
  one_level_def sd = true ->
  Forall2 choice_rel sd c1 -> Forall2 choice_rel sd c2 ->
  map render (leaves c1) = map render (leaves c2) -> c1 = c2.
Proof.
  unfold leaves, one_level_def.
  induction sd as [|[k v] r IH]; intros c1 c2 Hl H1 H2 E;
    inversion H1 as [|? [k1 x1] ? r1 [Ek1 Ex1] Hr1]; inversion H2 as [|? [k2 x2] ? r2 [Ek2 Ex2] Hr2]; subst; auto.
  simpl in *. subst k1 k2. apply andb_true_iff in Hl as [Hv Hl].
  destruct v as [l|sub].
  - inversion Ex1; inversion Ex2; subst.
    cbn [flat_map map app leaves_of snd fst] in E.
    apply cons_eq_inv in E as [Es Er]. apply render_inj in Es. subst.
    f_equal. eapply IH; eauto.
  - inversion Ex1 as [|? cs1 Hcs1]; inversion Ex2 as [|? cs2 Hcs2]; subst.
    cbn [flat_map leaves_of snd fst] in E. rewrite !map_app in E.
    apply (forallb_perm _ _ (isort key_leb sub)) in Hv; [|symmetry; apply isort_perm].
    apply app_eq_length in E as [Ea Eb].
    + assert (cs1 = cs2) by (eapply sub_leaves_inj; eauto). subst.
      f_equal. eapply IH; eauto.
    + rewrite !map_length. rewrite (sub_leaves_length k _ cs1 Hv Hcs1).
      now rewrite (sub_leaves_length k _ cs2 Hv Hcs2).
Qed.

Lemma options_injective_l d c1 c2 :
  one_level_def d = true ->
  In c1 (parameters_configuration d) -> In c2 (parameters_configuration d) ->
  map render (leaves c1) = map render (leaves c2) -> c1 = c2.
Proof.
  intros Hd H1 H2 E. apply expansion_complete_l in H1, H2. unfold ChoiceD in *.
  apply (forallb_perm _ _ (isort key_leb d)) in Hd; [|symmetry; apply isort_perm].
  eapply leaves_inj; eauto.
Qed.
