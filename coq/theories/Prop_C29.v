(* Prop_C29.v -- C29: batch parameter expansion is an exact cartesian product.
   Only statements; each closed by an exact lemma from P_Batch.
   [pdef] is a regularized definition nested to ANY depth; dicts are association lists. *)
From PyDcop Require Import Base M_Batch P_Batch.
From Coq Require Import Permutation Sorted.
Open Scope string_scope.

(* what "sorted(...)" means in the statements below: a sorted permutation *)
Theorem sorted_is_sorted_permutation : forall l : list string,
  Permutation (isort String.leb l) l /\
  StronglySorted (fun a b => String.leb a b = true) (isort String.leb l).
Proof. exact (fun l => conj (isort_perm String.leb l)
                            (isort_sorted String.leb String.leb_total string_leb_trans l)). Qed.

(* every combination of one value per (leaf) parameter appears, and nothing else:
   [ChoiceD d c] = c has the names of d in sorted order and picks, for each, one of its values
   (recursively a choice of the sub-definition) *)
Theorem expansion_complete : forall d c,
  In c (parameters_configuration d) <-> ChoiceD d c.
Proof. exact expansion_complete_l. Qed.

Theorem expansion_values_complete : forall v x, In x (expand v) <-> Choice v x.
Proof. exact expand_spec. Qed.

Theorem expansion_keys_sorted : forall d c,
  In c (parameters_configuration d) -> map fst c = isort String.leb (map fst d).
Proof. exact expansion_keys_sorted_l. Qed.

(* number of combinations = product of the numbers of values (recursively) *)
Theorem expansion_length : forall d,
  List.length (parameters_configuration d) = count_items d.
Proof. exact expansion_length_l. Qed.

(* "exactly once": no combination is listed twice when the values of each parameter are distinct
   (with a repeated value the code repeats the combinations: see the example below) *)
Theorem expansion_nodup : forall d,
  Forall (fun kv => distinct_values (snd kv)) d -> NoDup (parameters_configuration d).
Proof. exact expansion_nodup_l. Qed.

(* deterministic order: the result does not depend on the insertion order of any dict of the
   definition nor on the order of any value list (dict keys unique at every level) *)
Theorem expansion_deterministic : forall d d',
  unique_keys (PDict d) -> same_def (PDict d) (PDict d') ->
  parameters_configuration d = parameters_configuration d'.
Proof. exact expansion_deterministic_l. Qed.

(* the option string of a combination is the blank-joined rendering of its chosen leaves,
   one piece per leaf, in order (definition nested at most one level) *)
Theorem options_render_once : forall c,
  one_level c = true ->
  build_option_for_parameters c = Some (join " " (map render (leaves c))).
Proof. exact options_render_once_l. Qed.

(* ... and the leaves of any combination of the expansion are, position by position, the leaf
   parameters of the definition, each with one of its own values: every parameter is rendered
   exactly once *)
Theorem options_leaves_fixed : forall d c,
  one_level_def d = true -> In c (parameters_configuration d) ->
  one_level c = true /\ Forall2 leaf_matches (leaf_params d) (leaves c).
Proof. exact options_leaves_fixed_l. Qed.

(* ... so the rendered pieces identify the combination: two combinations of the same definition
   with the same option pieces are the same combination *)
Theorem options_injective : forall d c1 c2,
  one_level_def d = true ->
  In c1 (parameters_configuration d) -> In c2 (parameters_configuration d) ->
  map render (leaves c1) = map render (leaves c2) -> c1 = c2.
Proof. exact options_injective_l. Qed.

(* non-vacuity: a nested definition given in non-sorted insertion order *)
Example c29_nonvacuous :
  let y := [("b", YDict [("x", YList [SStr "v"; SStr "u"]); ("w", YScalar (SInt 3))]);
            ("a", YList [SInt 2; SStr "10"])] in
  let d := regularize y in
  one_level_def d = true /\ count_items d = 4%nat /\
  parameters_configuration d =
    [[("a", CVal "10"); ("b", CDict [("w", CVal "3"); ("x", CVal "u")])];
     [("a", CVal "10"); ("b", CDict [("w", CVal "3"); ("x", CVal "v")])];
     [("a", CVal "2"); ("b", CDict [("w", CVal "3"); ("x", CVal "u")])];
     [("a", CVal "2"); ("b", CDict [("w", CVal "3"); ("x", CVal "v")])]] /\
  map build_option_for_parameters (parameters_configuration d) =
    [Some "--a 10 --b w:3 --b x:u"; Some "--a 10 --b w:3 --b x:v";
     Some "--a 2 --b w:3 --b x:u"; Some "--a 2 --b w:3 --b x:v"] /\
  parameters_configuration [] = [[]] /\
  (* a repeated value repeats the combination: distinctness is needed for expansion_nodup *)
  parameters_configuration [("p", PList ["1"; "1"])] = [[("p", CVal "1")]; [("p", CVal "1")]].
Proof. vm_compute. repeat split; reflexivity. Qed.
