(* P_Ucs5.v -- decidable sufficient conditions for the guards of P_Ucs2/P_Ucs4 (used by the
   non-vacuity example of Prop_C25.v). *)
From PyDcop Require Import Base P_Base Net M_Ucs P_Ucs P_Ucs2 P_Ucs3 P_Ucs4.
From Coq Require Import Lia ZifyBool.

Definition acfg_pos (a : acfg) : bool :=
  (0 <=? a_droute a) && forallb (fun e => 0 <=? snd e) (a_routes a)
  && (0 <=? a_dhost a) && forallb (fun e => 0 <=? snd e) (a_hcosts a).
Definition guards_b (C : cfg) : bool :=
  forallb acfg_pos (c_agents C)
  && forallb (fun a => forallb (fun b => route C a b =? route C b a) (agent_ids C)) (agent_ids C).

Lemma agent_cases C n : agent C n = dflt_agent \/ In (agent C n) (c_agents C).
Proof.
  unfold agent. destruct ((0 <=? n) && (n <? nagents C)) eqn:E; auto.
  right. apply nth_In. unfold nagents in E. lia.
Qed.

Lemma zlookup_In {V} k (v : V) l : zlookup k l = Some v -> In (k, v) l.
Proof. apply (lookup_In Z.eqb Z.eqb_eq). Qed.

Lemma guards_b_sound C : guards_b C = true -> guards C.
Proof.
  unfold guards_b. intros H. apply andb_true_iff in H as [H1 H2]. rewrite forallb_forall in H1.
  assert (POS : forall n, acfg_pos (agent C n) = true).
  { intros n. destruct (agent_cases C n) as [E|E]; [rewrite E; reflexivity|auto]. }
  constructor.
  - intros a b Aa Ab. rewrite forallb_forall in H2. specialize (H2 a (agent_in_ids C a Aa)).
    rewrite forallb_forall in H2. specialize (H2 b (agent_in_ids C b Ab)). lia.
  - intros a b. unfold route. destruct (a =? b); [lia|]. specialize (POS a). unfold acfg_pos in POS.
    apply andb_true_iff in POS as [POS _]. apply andb_true_iff in POS as [POS _]. apply andb_true_iff in POS as [P1 P2].
    destruct (zlookup b (a_routes (agent C a))) as [v|] eqn:E; [|lia].
    apply zlookup_In in E. rewrite forallb_forall in P2. specialize (P2 _ E). simpl in P2. lia.
  - intros a c. unfold hosting_cost. specialize (POS a). unfold acfg_pos in POS.
    apply andb_true_iff in POS as [POS P4]. apply andb_true_iff in POS as [_ P3].
    destruct (zlookup c (a_hcosts (agent C a))) as [v|] eqn:E; [|lia].
    apply zlookup_In in E. rewrite forallb_forall in P4. specialize (P4 _ E). simpl in P4. lia.
Qed.

Definition uniq_b (C : cfg) : bool := nodupb Z.eqb (flat_map (own_names C) (agent_ids C)).

Lemma nodupb_NoDup l : nodupb Z.eqb l = true -> NoDup l.
Proof.
  induction l as [|x r IH]; simpl; intros H; [constructor|]. apply andb_true_iff in H as [H1 H2].
  constructor; auto. intro I. apply zmem_In in I. unfold zmem in I. rewrite I in H1. discriminate.
Qed.

Lemma NoDup_app_inv (l1 l2 : list Z) : NoDup (l1 ++ l2) ->
  NoDup l1 /\ NoDup l2 /\ forall x, In x l1 -> In x l2 -> False.
Proof.
  induction l1 as [|a l1 IH]; simpl; intros H; [split; [constructor|split; auto]|].
  apply NoDup_cons_iff in H as [H1 H2]. destruct (IH H2) as (A & B & D). split; [|split; auto].
  - constructor; auto. intro I. apply H1. apply in_or_app. auto.
  - intros x [->|I] I2; [apply H1; apply in_or_app; auto|eauto].
Qed.

Lemma uniq_b_sound C : uniq_b C = true -> uniq C.
Proof.
  unfold uniq_b. intros H. apply nodupb_NoDup in H.
  assert (NA : forall a, is_agent C a = false -> own_names C a = []).
  { intros a E. unfold own_names, agent. unfold is_agent in E. rewrite E. reflexivity. }
  assert (GEN : forall l, NoDup l -> NoDup (flat_map (own_names C) l) ->
            (forall a, In a l -> NoDup (own_names C a)) /\
            (forall a b c, In a l -> In b l -> In c (own_names C a) -> In c (own_names C b) -> a = b)).
  { induction l as [|x r IH]; simpl; intros NL ND; [split; [intros a []|intros a b c []]|].
    apply NoDup_cons_iff in NL as [N1 N2]. apply NoDup_app_inv in ND as (A & B & D).
    destruct (IH N2 B) as [I1 I2]. split.
    - intros a [<-|Ha]; auto.
    - intros a b c [<-|Ha] [<-|Hb] Ca Cb; auto.
      + exfalso. apply (D c Ca). apply in_flat_map. exists b. auto.
      + exfalso. apply (D c Cb). apply in_flat_map. exists a. auto.
      + eapply I2; eauto. }
  destruct (GEN (agent_ids C) (zrange_from_NoDup _ _) H) as [G1 G2].
  constructor.
  - intros a b c Ha Hb. unfold owns in *. apply zmem_In in Ha, Hb.
    destruct (is_agent C a) eqn:Ea; [|rewrite (NA a Ea) in Ha; destruct Ha].
    destruct (is_agent C b) eqn:Eb; [|rewrite (NA b Eb) in Hb; destruct Hb].
    eapply G2; eauto; apply agent_in_ids; auto.
  - intros a. destruct (is_agent C a) eqn:Ea; [apply G1; apply agent_in_ids; auto|rewrite (NA a Ea); constructor].
Qed.
