(* P_RepairOrch5.v -- C27 deepening, part 4: the directory table of M_RepairOrch2 (string names)
   is the projection on Directory._computations_data of M_Discovery's Directory model (C20, Z
   identifiers, validated against the real Directory with its whole message protocol): for any
   injective naming of the identifiers, dir_register_computation / dir_unregister_computation
   act on g_comps exactly as dir_step acts on the renamed table. *)
From PyDcop Require Import Base P_Base M_Discovery M_RepairOrch2.

Definition zdir_step (t : list (Z * Z)) (o : Z * option Z + Z * Z) : list (Z * Z) :=
  match o with
  | inr (c, a) => zset c a t
  | inl (c, ag) =>
      match ag, zlookup c t with
      | Some g, Some h => if h =? g then zdel c t else t
      | _, _ => zdel c t
      end
  end.

Definition gcomps_of (r : RD) : list (Z * Z) := g_comps (n_dir (fst (fst (fst r)))).

Lemma dir_register_gcomps st c ag addr :
  gcomps_of (dir_register_computation st c ag addr) = zdir_step (g_comps (n_dir st)) (inr (c, ag)).
Proof.
  unfold gcomps_of, dir_register_computation.
  destruct (d_register_computation (n_disc st) c (Some ag) addr false) as [[[d1 o1] e1] x1].
  destruct x1; [reflexivity|].
  destruct (match addr with Some x => Some x | None => _ end); reflexivity.
Qed.

Lemma zdel_absent {V} c (t : list (Z * V)) : zlookup c t = None -> zdel c t = t.
Proof.
  unfold zdel, zlookup. induction t as [|[k v] r IH]; simpl; auto.
  rewrite (Z.eqb_sym k c). destruct (c =? k); [discriminate|]. intros H. simpl. f_equal. auto.
Qed.

Lemma dir_unregister_gcomps st c ag :
  gcomps_of (dir_unregister_computation st c ag) = zdir_step (g_comps (n_dir st)) (inl (c, ag)).
Proof.
  unfold gcomps_of, dir_unregister_computation, stale_unpub, zdir_step, zmemk, mem_key.
  fold (@zlookup Z). 
  destruct ag as [g|]; destruct (zlookup c (g_comps (n_dir st))) as [h|] eqn:E; simpl.
  - destruct (h =? g); simpl; [|reflexivity].
    destruct (d_unregister_computation (n_disc st) c None false) as [[[d1 o1] e1] x1]. reflexivity.
  - now rewrite zdel_absent.
  - destruct (d_unregister_computation (n_disc st) c None false) as [[[d1 o1] e1] x1]. reflexivity.
  - now rewrite zdel_absent.
Qed.

(* ---------- renaming ---------- *)
Section Rename.
  Variable nm : Z -> string.
  Hypothesis nm_inj : forall a b, nm a = nm b -> a = b.

  Definition ren (t : list (Z * Z)) : list (string * string) := map (fun p => (nm (fst p), nm (snd p))) t.
  Definition ren_op (o : Z * option Z + Z * Z) : dirop :=
    match o with
    | inr (c, a) => DReg (nm c) (nm a)
    | inl (c, ag) => DUnreg (nm c) (option_map nm ag)
    end.

  Lemma nm_eqb a b : String.eqb (nm a) (nm b) = (a =? b).
  Proof.
    destruct (a =? b) eqn:E.
    - apply Z.eqb_eq in E. subst. apply String.eqb_refl.
    - apply String.eqb_neq. intros H. apply nm_inj in H. apply Z.eqb_neq in E. contradiction.
  Qed.

  Lemma ren_lookup c t : slookup (nm c) (ren t) = option_map nm (zlookup c t).
  Proof.
    unfold slookup, zlookup, ren. induction t as [|[k v] r IH]; simpl; auto.
    rewrite nm_eqb. destruct (c =? k); auto.
  Qed.

  Lemma ren_set c a t : ren (zset c a t) = dict_set String.eqb (nm c) (nm a) (ren t).
  Proof.
    unfold zset, ren. induction t as [|[k v] r IH]; simpl; auto.
    rewrite nm_eqb. destruct (c =? k); simpl; auto. now rewrite IH.
  Qed.

  Lemma ren_del c t : ren (zdel c t) = dir_del (nm c) (ren t).
  Proof.
    unfold zdel, dir_del, ren. induction t as [|[k v] r IH]; simpl; auto.
    rewrite nm_eqb. destruct (k =? c); simpl; auto. now rewrite IH.
  Qed.

  Lemma ren_step t o : ren (zdir_step t o) = dir_step (ren t) (ren_op o).
  Proof.
    destruct o as [[c ag]|[c a]]; simpl.
    - rewrite ren_lookup. destruct ag as [g|]; simpl.
      + destruct (zlookup c t) as [h|]; simpl.
        * rewrite nm_eqb. destruct (h =? g); auto using ren_del.
        * apply ren_del.
      + destruct (zlookup c t); apply ren_del.
    - apply ren_set.
  Qed.

  (* the table of M_Discovery's Directory after a (un)publication = dir_step on the renamed table *)
  Lemma directory_table_is_dir_step_l st (m : M_Discovery.msg) sender :
    match m with
    | MPubComp c ag addr =>
        ren (gcomps_of (dir_recv st sender m)) = dir_step (ren (g_comps (n_dir st))) (DReg (nm c) (nm ag))
    | MUnpubComp c ag =>
        ren (gcomps_of (dir_recv st sender m))
        = dir_step (ren (g_comps (n_dir st))) (DUnreg (nm c) (option_map nm ag))
    | _ => True
    end.
  Proof.
    destruct m; auto; simpl dir_recv.
    - rewrite dir_register_gcomps. apply (ren_step _ (inr (c, ag))).
    - rewrite dir_unregister_gcomps. apply (ren_step _ (inl (c, ag))).
  Qed.
End Rename.
