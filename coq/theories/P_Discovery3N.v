(* P_Discovery3N.v -- C20 deepening 2, part 3: agreement AFTER REMOVAL (negative agreement).
   "a is subscribed to c, the directory does not list c, nothing travels  ==>  a does not list c"
   is false in general (removal_agreement_refuted).  Here: the exact replay [rx] of the pending
   notifications on a's entry (value / removal / refused removal / cascade of unpublish_agent, each
   with the effect the handler really has), the invariant
       subscribed /\ directory lists nothing  ==>  replay = nothing  \/  a publication of c by a travels
   and the two single-step guards under which it is preserved (plus the address guard):
     GN1  the directory is not about to record a subscription of a for a computation it does not list
          while a's (replayed) entry is not empty            (no answer is sent: the stale entry stays)
     GN2  the directory is not about to tell a a removal naming an agent that a's (replayed) entry
          does not name                     (a's handler raises ValueError and keeps its entry)
   For non-technical computations (c >= 0); the technical ones of an agent are removed by the cascade
   of Directory.unregister_agent, not followed here. *)
From PyDcop Require Import Base Net M_Discovery P_Discovery P_Discovery2 P_Discovery2A P_Discovery2C P_Discovery2T.
From PyDcop Require Import P_Discovery3C P_Discovery3T.
From Coq Require Import Lia.

Local Arguments bind : simpl never.

(* ------------------------------------------------------------------ exact replay *)
Definition txc (c : Z) (m : msg) (v : option Z) : option Z :=
  match m with
  | MPubComp c' g (Some _) => if c' =? c then Some g else v
  | MUnpubComp c' None => if c' =? c then None else v
  | MUnpubComp c' (Some g') =>
      if c' =? c then match v with Some k => if k =? g' then None else v | None => None end else v
  | MUnpubAgent y => match v with Some k => if (0 <=? c) && (k =? y) then None else v | None => None end
  | _ => v
  end.

Fixpoint rx (c : Z) (v : option Z) (l : list msg) : option Z :=
  match l with
  | [] => v
  | m :: q => rx c (txc c m v) q
  end.

Lemma rx_app c v l l' : rx c v (l ++ l') = rx c (rx c v l) l'.
Proof. revert v; induction l; simpl; auto. Qed.

Lemma txc_none c m v : txc c m None = None \/ txc c m None = txc c m v.
Proof.
  destruct m as [o|y ad|l|y|y b|c' g [ad|]|c' [g'|]|c' b|r' g' b|r' b]; simpl; auto;
    destruct (c' =? c); auto.
Qed.

(* an empty entry stays empty unless a value is told *)
Lemma rx_mono c l : forall v, rx c v l = None -> rx c None l = None.
Proof.
  induction l as [|m q IH]; simpl; intros v H; auto.
  destruct (txc_none c m v) as [E|E]; rewrite E; eauto.
Qed.

Definition quiet_none (c : Z) (m : msg) : Prop := txc c m None = None.

Lemma rx_keep_none c l : (forall m, In m l -> quiet_none c m) -> rx c None l = None.
Proof.
  induction l as [|m q IH]; simpl; intros H; auto. rewrite (H m (or_introl eq_refl)). apply IH. intros; apply H; auto.
Qed.

(* a publication of c by a itself: the directory (under the address guard) will list c *)
Definition pendn (c : Z) (m : msg) : bool := match m with MPubComp c' _ _ => c' =? c | _ => false end.

Definition Kn (a : Z) (st : nst) (d : dstate) (N O : list msg) : Prop :=
  forall c, 0 <= c -> In a (Sc st c) -> Dc st c = None ->
    rx c (vc d c) N = None \/ existsb (pendn c) O = true.

(* ------------------------------------------------------------------ the subscriber's side, exactly *)
Lemma unreg_comp_notif_exact s c' ag c :
  vc (rS (d_unregister_computation s c' ag false)) c = txc c (MUnpubComp c' ag) (vc s c).
Proof.
  destruct (Z.eq_dec c' c) as [->|Hne].
  - unfold d_unregister_computation, vc, txc. rewrite Z.eqb_refl.
    destruct (zlookup c (d_comps s)) as [k|] eqn:El.
    + destruct ag as [g'|].
      * destruct (k =? g') eqn:E; simpl; [apply zlookup_zdel_same|exact El].
      * simpl. apply zlookup_zdel_same.
    + simpl. rewrite El. destruct ag; reflexivity.
  - assert (E : (c' =? c) = false) by now apply Z.eqb_neq.
    rewrite unreg_comp_other by congruence. unfold txc. destruct ag; now rewrite E.
Qed.

Lemma agent_exact_c s m c : noaddrnone m = true -> nodupk (d_comps s) ->
  (is_op m = false -> vc (rS (disc_recv s m)) c = txc c m (vc s c)) /\
  (is_op m = true -> vc (rS (disc_recv s m)) c = vc s c \/ vc (rS (disc_recv s m)) c = None \/
                     existsb (pendn c) (rO (disc_recv s m)) = true).
Proof.
  intros Hna Hnd.
  destruct m as [o|y ad|l|y|y b|c' g [ad|]|c' ag|c' b|r' g' b|r' b]; try discriminate;
    (split; [intros Hop; try discriminate|intros Hop; try discriminate]); cbn [disc_recv].
  - destruct (is_subop o) eqn:Es; [left; unfold vc; now rewrite subop_comps|].
    destruct o as [y ad|y|c' g addr|c' g|r' g'|r' g'| | | | | | |]; simpl in *; try discriminate.
    + left. unfold vc. now rewrite reg_agent_comps.
    + left. unfold vc. now rewrite unreg_agent_comps_pub.
    + pose proof (reg_comp_gen s c' g addr true) as H. simpl in H.
      destruct H as [(_ & -> & _)|(_ & _ & Hc & Ho)]; auto.
      destruct (Z.eq_dec c' c) as [->|Hne].
      * right. right. rewrite Ho. simpl. now rewrite Z.eqb_refl.
      * left. unfold vc. rewrite Hc. apply zlookup_zset_other. congruence.
    + destruct (unreg_comp_vc s c' g true c); auto.
    + left. unfold vc. now rewrite reg_rep_comps.
    + left. unfold vc. now rewrite unreg_rep_comps.
  - simpl. unfold vc. now rewrite reg_agent_comps.
  - simpl. unfold vc. now rewrite register_agents_comps.
  - destruct (unpublish_agent_order s y Hnd) as (_ & _ & _ & _ & HV). cbn [disc_recv] in HV. rewrite HV.
    destruct (vc s c) as [k|]; simpl; [destruct ((0 <=? c) && (k =? y)); reflexivity|now rewrite andb_false_r].
  - reflexivity.
  - simpl. destruct (c' =? c) eqn:E.
    + apply Z.eqb_eq in E; subst. apply disc_recv_pub.
    + unfold vc. rewrite reg_comp_comps. apply zlookup_zset_other. apply Z.eqb_neq in E. congruence.
  - apply unreg_comp_notif_exact.
  - reflexivity.
  - simpl. destruct b; cbn [disc_recv]; unfold vc; [now rewrite reg_rep_comps|now rewrite unreg_rep_comps].
  - reflexivity.
Qed.

Lemma Kn_agent a st s m q d N O :
  (s = 0 -> N = m :: q) -> (s <> 0 -> is_op m = true) -> noaddrnone m = true -> nodupk (d_comps d) ->
  Kn a st d N O ->
  Kn a st (rS (disc_recv d m)) (if 0 =? s then q else N) (O ++ rO (disc_recv d m)).
Proof.
  intros H0 Hop Hna Hnd HK c Hc Hs HD.
  destruct (HK c Hc Hs HD) as [H|H]; [|right; rewrite existsb_app, H; auto].
  destruct (agent_exact_c d m c Hna Hnd) as [E1 E2].
  destruct (is_op m) eqn:Eo.
  - assert (HN : rx c (vc d c) (if 0 =? s then q else N) = None).
    { destruct (0 =? s) eqn:E; auto. apply Z.eqb_eq in E. rewrite (H0 (eq_sym E)) in H. simpl in H.
      destruct m; try discriminate. exact H. }
    destruct (E2 eq_refl) as [->|[->|E]]; auto.
    + left. eapply rx_mono; eauto.
    + right. rewrite existsb_app, E. apply orb_true_r.
  - assert (Es : s = 0). { destruct (Z.eq_dec s 0) as [E|E]; auto. discriminate (Hop E). }
    subst s. simpl. rewrite (H0 eq_refl) in H. simpl in H. left. rewrite (E1 eq_refl). exact H.
Qed.

(* ------------------------------------------------------------------ the directory's side *)
Lemma msgs_to_all a l m x : In x (msgs_to a (to_all l m)) -> x = m.
Proof. intros H. apply msgs_to_In in H. apply to_all_In in H as [_ ->]. reflexivity. Qed.

Lemma rx_all_same c m : txc c m None = None -> forall l u, (forall x, In x l -> x = m) -> l <> [] ->
  txc c m u = None -> rx c u l = None.
Proof.
  intros Hq l. induction l as [|x t IH]; intros u Hall Hne Hu; [congruence|]. simpl.
  rewrite (Hall x (or_introl eq_refl)), Hu. apply rx_keep_none. intros y Hy.
  rewrite (Hall y (or_intror Hy)). exact Hq.
Qed.

Lemma agent_computations_tech s y c : agent_computations s y false = [] -> 0 <= c -> ~ In c (agent_computations s y true).
Proof.
  unfold agent_computations. simpl. intros H Hc Hin. apply in_map_iff in Hin as [[c' g] [<- Hp]].
  apply filter_In in Hp as [Hin Hp]. simpl in *. rewrite ?andb_true_r in Hp.
  assert (Hin' : In c' (map fst (filter (fun p => (y =? snd p) && negb (is_technical (fst p))) (d_comps s)))).
  { apply in_map_iff. exists (c', g). split; auto. apply filter_In. split; auto. simpl. rewrite Hp. simpl.
    unfold is_technical. assert (E : (c' <? 0) = false) by now apply Z.ltb_ge. now rewrite E. }
  rewrite H in Hin'. contradiction.
Qed.

Lemma dir_unreg_all_keep l c : ~ In c l -> forall st, I1 st -> Dc (rS (dir_unregister_all st l)) c = Dc st c.
Proof.
  induction l as [|c' t IH]; intros Hn st HI; simpl; auto.
  destruct (dir_unreg_comp_none st c' HI) as (A1 & A2 & _).
  destruct (dir_unreg_comp_spec st c' None) as (_ & AX & _).
  destruct (dir_unregister_computation st c' None) as [[[st1 o1] e1] x1]. simpl in *.
  rewrite (AX eq_refl).
  assert (Hn' : ~ In c t) by tauto. specialize (IH Hn' st1 A1).
  destruct (dir_unregister_all st1 t) as [[[st2 o2] e2] x2]. simpl in *. rewrite IH. apply A2. intros ->. apply Hn. left. reflexivity.
Qed.

Lemma dir_unreg_agent_keep st y c : I1 st -> 0 <= c -> Dc (rS (dir_unregister_agent st y)) c = Dc st c.
Proof.
  intros HI Hc. unfold dir_unregister_agent.
  destruct (agent_computations (n_disc st) y false) eqn:Eac; [|reflexivity].
  pose proof (dir_unreg_all_keep (agent_computations (n_disc st) y true) c (agent_computations_tech _ y c Eac Hc) st HI) as HK.
  destruct (dir_unregister_all st (agent_computations (n_disc st) y true)) as [[[st1 o1] e1] [x1|]]; simpl in *; auto.
  destruct (zmemk y (g_agents (n_dir st1))); simpl; auto.
  destruct (d_unregister_agent (n_disc st1) y false) as [[[d2 o2] e2] x2]. simpl. exact HK.
Qed.

Lemma dir_unpub_told a st s c ag w : 0 < a -> Dc st c = Some w -> In a (Sc st c) ->
  gc (rS (dir_recv st s (MUnpubComp c ag))) = zdel c (gc st) ->
  let L := msgs_to a (rO (dir_recv st s (MUnpubComp c ag))) in
  (forall x, In x L -> x = MUnpubComp c ag) /\ L <> [] /\ (ag = None \/ ag = Some w).
Proof.
  intros Ha HD Hs E1. cbn [dir_recv] in *. unfold dir_unregister_computation, stale_unpub, gc, Dc, Sc in *.
  rewrite HD in *. rewrite (zmemk_some _ _ _ HD) in *.
  assert (Hst : match ag with Some g => negb (w =? g) | None => false end = false).
  { destruct (match ag with Some g => negb (w =? g) | None => false end) eqn:E; auto. exfalso.
    simpl in E1. apply (f_equal (zlookup c)) in E1. rewrite zlookup_zdel_same, HD in E1. discriminate. }
  rewrite Hst in *. clear E1.
  destruct (d_unregister_computation (n_disc st) c None false) as [[[d1 o1] e1] x1]. simpl.
  split; [|split].
  - intros x Hx. apply msgs_to_In in Hx. apply in_app_or in Hx as [Hx|Hx].
    + apply to_self_In in Hx as [Hx _]. lia.
    + apply to_all_In in Hx as [_ ->]. reflexivity.
  - intros HL.
    assert (Hin : In (MUnpubComp c ag) (msgs_to a (to_self o1 ++ to_all (sm_get c (g_sub_comps (n_dir st))) (MUnpubComp c ag)))).
    { apply msgs_to_In. apply in_or_app. right. unfold to_all. apply in_map_iff. exists a. auto. }
    rewrite HL in Hin. contradiction.
  - destruct ag as [g|]; auto. right. apply negb_false_iff in Hst. apply Z.eqb_eq in Hst. congruence.
Qed.

(* the two guards, on the directory's handler *)
Definition gn1 (a : Z) (st : nst) (d : dstate) (N : list msg) (s : node) (m : msg) (O' : list msg) : Prop :=
  forall c, s = a -> m = MSubComp c true -> Dc st c = None ->
    rx c (vc d c) N = None \/ existsb (pendn c) O' = true.
Definition gn2 (a : Z) (st : nst) (d : dstate) (N : list msg) (m : msg) (O' : list msg) : Prop :=
  forall c g', m = MUnpubComp c (Some g') -> Dc st c = Some g' -> In a (Sc st c) ->
    rx c (vc d c) N = None \/ rx c (vc d c) N = Some g' \/ existsb (pendn c) O' = true.

Lemma Kn_dir a st s m q d N O : 0 < a ->
  Binv st -> Dinv st -> (s = a -> O = m :: q) -> addr_ok' (rS (dir_recv st s m)) ->
  gn1 a st d N s m (if a =? s then q else O) -> gn2 a st d N m (if a =? s then q else O) ->
  Kn a st d N O ->
  Kn a (rS (dir_recv st s m)) d (N ++ msgs_to a (rO (dir_recv st s m))) (if a =? s then q else O).
Proof.
  intros Ha HB HDi HO HG G1 G2 HK c Hc.
  (* nothing changes for c, the subscriber is told nothing that fills an empty entry *)
  assert (Frame : (In a (Sc (rS (dir_recv st s m)) c) -> In a (Sc st c)) ->
                  (Dc (rS (dir_recv st s m)) c = None -> Dc st c = None) ->
                  (forall d' m', In (d', m') (rO (dir_recv st s m)) -> d' = a -> quiet_none c m') ->
                  (s = a -> pendn c m = false) ->
                  In a (Sc (rS (dir_recv st s m)) c) -> Dc (rS (dir_recv st s m)) c = None ->
                  rx c (vc d c) (N ++ msgs_to a (rO (dir_recv st s m))) = None \/
                  existsb (pendn c) (if a =? s then q else O) = true).
  { intros F1 F2 F3 F4 Hs HD. destruct (HK c Hc (F1 Hs) (F2 HD)) as [H|H].
    - left. rewrite rx_app, H. apply rx_keep_none. intros m' Hm'. apply msgs_to_In in Hm'. eapply F3; eauto.
    - right. destruct (a =? s) eqn:E; auto. apply Z.eqb_eq in E. symmetry in E.
      rewrite (HO E) in H. eapply existsb_tail_gen; [|exact H]. apply (F4 E). }
  pose proof (dir_recv_comps st s m) as HC.
  unfold Sc, Dc in Frame |- *. fold (gsc (rS (dir_recv st s m))) in *. fold (gc (rS (dir_recv st s m))) in *.
  fold (gsc st) in *. fold (gc st) in *.
  destruct m as [o|y ad|l|y|y b|c' g addr|c' ag|c' b|r' g' b|r' b];
    try (destruct HC as [HC1 HC2]; apply Frame; [rewrite HC2; auto | rewrite HC1; auto | | intros; reflexivity]).
  - intros d' m' Hm' _. apply dir_outs_class in Hm'. contradiction.
  - intros d' m' Hm' _. apply dir_outs_class in Hm'. subst. reflexivity.
  - intros d' m' Hm' _. apply dir_outs_class in Hm'. contradiction.
  - (* unpublish_agent y *)
    destruct (dir_unreg_agent_comps a st y HDi) as (_ & E2 & _ & E3).
    apply Frame.
    + exact (E2 c).
    + change (Dc (rS (dir_unregister_agent st y)) c = None -> Dc st c = None).
      rewrite (dir_unreg_agent_keep st y c (proj1 HDi) Hc). auto.
    + intros d' m' Hm' _. change (In (d', m') (rO (dir_unregister_agent st y))) in Hm'.
      apply E3 in Hm' as [[-> _]|(c2 & [->|(ag & ->)] & _)]; unfold quiet_none; simpl; auto.
      destruct ag; destruct (c2 =? c); reflexivity.
    + intros; reflexivity.
  - intros d' m' Hm' _. apply dir_outs_class in Hm'. destruct b; [|contradiction].
    destruct (y =? STAR); [subst; reflexivity|]. destruct Hm' as (_ & ad & -> & _). reflexivity.
  - (* publish_computation c' *)
    destruct (dir_pubcomp2 st s c' g addr HB HG) as (E1 & E2 & ad & E3).
    destruct (Z.eq_dec c' c) as [->|Hne].
    + intros _ HD. rewrite E1, zlookup_zset_same in HD. discriminate.
    + apply Frame.
      * rewrite E2; auto.
      * rewrite E1. rewrite zlookup_zset_other by congruence. auto.
      * intros d' m' Hm' _. rewrite E3 in Hm'. apply to_all_In in Hm' as [_ ->]. unfold quiet_none. simpl.
        destruct (c' =? c) eqn:E; auto. apply Z.eqb_eq in E. contradiction.
      * intros _. simpl. now apply Z.eqb_neq.
  - (* unpublish_computation c' ag *)
    destruct (dir_unpubcomp2 st s c' ag) as (E2 & [(E1 & E3 & Hst)|(E1 & E3)]).
    + apply Frame; rewrite ?E1, ?E3; auto. intros ? ? [].
    + destruct (Z.eq_dec c' c) as [->|Hne].
      * (* c itself is un-registered: a is told *)
        destruct (zlookup c (gc st)) as [w|] eqn:EDc.
        2:{ apply Frame; [rewrite E2; auto | auto | | intros; reflexivity].
            intros d' m' Hm' _. apply E3 in Hm' as [->|(ag' & ->)]; unfold quiet_none; simpl; auto.
            rewrite Z.eqb_refl. destruct ag'; reflexivity. }
        intros Hs _. rewrite E2 in Hs.
        destruct (dir_unpub_told a st s c ag w Ha EDc Hs E1) as (L1 & L2 & Hag).
        rewrite rx_app.
        assert (Hq : txc c (MUnpubComp c ag) None = None) by (simpl; rewrite Z.eqb_refl; destruct ag; reflexivity).
        destruct Hag as [->| ->].
        -- left. apply (rx_all_same c (MUnpubComp c None) Hq); auto. simpl. now rewrite Z.eqb_refl.
        -- destruct (G2 c w eq_refl EDc Hs) as [Hu|[Hu|Hu]]; [left|left|right; exact Hu];
             apply (rx_all_same c (MUnpubComp c (Some w)) Hq); auto; rewrite Hu; simpl; rewrite !Z.eqb_refl; reflexivity.
      * apply Frame.
        -- rewrite E2; auto.
        -- rewrite E1. rewrite zlookup_zdel_other by congruence. auto.
        -- intros d' m' Hm' _. apply E3 in Hm' as [->|(ag' & ->)]; unfold quiet_none; simpl; auto.
           assert (E : (c' =? c) = false) by now apply Z.eqb_neq. destruct ag'; now rewrite E.
        -- intros; reflexivity.
  - (* subscribe_computation c' from s *)
    destruct b.
    + destruct (dir_subcomp_true st s c') as (E1 & E2 & E3).
      destruct (Z.eq_dec c' c) as [->|Hne]; [destruct (Z.eq_dec s a) as [->|Hsa]|].
      * (* a subscribes to c, which the directory does not list: no answer -- guard GN1 *)
        intros _ HD. rewrite E1 in HD. rewrite E3, HD. unfold msgs_to. simpl. rewrite app_nil_r.
        apply (G1 c eq_refl eq_refl HD).
      * apply Frame.
        -- rewrite E2. intros Hin. apply sm_add_In in Hin as [[_ Hin]|Hin]; auto. congruence.
        -- rewrite E1; auto.
        -- intros d' m' Hm' ->. rewrite E3 in Hm'.
           destruct (zlookup c (gc st)); [|contradiction]. destruct (zlookup z _); [|contradiction].
           destruct Hm' as [Hx|[]]. inversion Hx. congruence.
        -- intros; reflexivity.
      * apply Frame.
        -- rewrite E2. unfold sm_add. rewrite sm_get_put_other; auto.
        -- rewrite E1; auto.
        -- intros d' m' Hm' _. rewrite E3 in Hm'.
           destruct (zlookup c' (gc st)); [|contradiction]. destruct (zlookup z _); [|contradiction].
           destruct Hm' as [Hx|[]]. inversion Hx; subst. unfold quiet_none. simpl.
           destruct (c' =? c) eqn:E; auto. apply Z.eqb_eq in E. contradiction.
        -- intros; reflexivity.
    + destruct (dir_subcomp_false st s c') as (E1 & E2 & E3). apply Frame.
      * rewrite E2. apply sm_del_In.
      * rewrite E1; auto.
      * intros d' m' Hm' _. rewrite E3 in Hm'. contradiction.
      * intros; reflexivity.
  - intros d' m' Hm' _. apply dir_outs_class in Hm'. subst. reflexivity.
  - intros d' m' Hm' _. apply dir_outs_class in Hm'. destruct b; [|contradiction].
    destruct Hm' as (_ & g & -> & _). reflexivity.
Qed.

(* ------------------------------------------------------------------ the network level *)
Section NegNet.
  Variable h : hist_t.
  Variable a : Z.
  Hypothesis a_pos : 0 < a.

  Notation P := (disc_proto h).
  Notation cfg := (config nst msg).

  Definition QN (st : nst) (d : dstate) (N O : list msg) : Prop :=
    Dinv st /\ nodupk (d_comps d) /\ Kn a st d N O.
  Definition IN (cf : cfg) : Prop := Qc a QN cf.

  (* the guard on single steps: the address guard, and for a delivery to the directory GN1 and GN2 *)
  Definition GN (cf : cfg) (act : action) : Prop :=
    addr_ok (fst (step P cf act)) /\
    forall s m q, act = Deliver s 0 -> chan cf s 0 = m :: q ->
      gn1 a (dirst cf) (disc cf a) (chan cf 0 a) s m (if a =? s then q else chan cf a 0) /\
      gn2 a (dirst cf) (disc cf a) (chan cf 0 a) m (if a =? s then q else chan cf a 0).

  Lemma IN_step act cf : Base a cf -> IN cf -> GN cf act -> IN (fst (step P cf act)).
  Proof.
    intros (R0 & Ra & T & B) HI [HG HG2].
    apply (Q_step h a a_pos); auto.
    - intros s m q Ea Hc. subst act. destruct HI as (HD & Hnd & HK).
      assert (HG' : addr_ok' (rS (dir_recv (dirst cf) s m))).
      { unfold addr_ok in HG. rewrite (dirst_deliver0 h cf s m q R0 Hc) in HG. exact HG. }
      destruct (HG2 s m q eq_refl Hc) as [G1 G2].
      split; [apply Dinv_dir; auto|]. split; auto. apply Kn_dir; auto. intros ->. exact Hc.
    - intros s m q Ea Hc Hop. destruct HI as (HD & Hnd & HK). split; auto.
      split; [now apply disc_recv_nodup_comps|]. apply Kn_agent; auto.
      + intros ->. exact Hc.
      + destruct (Z.eq_dec s 0) as [->|Hs].
        * apply (proj1 T 0 a m); [rewrite Hc; left; auto|reflexivity].
        * specialize (Hop Hs). destruct m; try discriminate. reflexivity.
  Qed.

  Lemma IN_init cf : Kinit2 h cf -> IN cf.
  Proof.
    intros HK. destruct (Kinit2_quiet h a a_pos cf HK) as (E1 & E2 & E3).
    unfold IN, Qc, QN. rewrite E1. split; [|split].
    - split; [intros c g H; discriminate|simpl; auto].
    - destruct HK as [Kn0 _]. unfold disc. rewrite (proj2 (Kn0 a)). unfold nodupk.
      change (NoDup [-(100 + a); -1]). constructor; [intros [H|[]]; lia|]. constructor; [intros []|constructor].
    - intros c _ H. simpl in H. contradiction.
  Qed.
End NegNet.

(* Agreement after removal: for every history, subscriber, start order and schedule along which the
   guards hold: when nothing travels between a and the directory, a lists no (non-technical)
   computation it is subscribed to and the directory does not list *)
Lemma disc_removal_inv_l : forall (h : hist_t) (a : Z) (ns : list node) (sched : list (@action)),
  0 < a -> In 0 ns -> In a ns ->
  let P := disc_proto h in
  let cf0 := fst (exec P (init P) (map (@Start) ns)) in
  along h (GN h a) cf0 sched ->
  Base a (fst (exec P cf0 sched)) /\ IN a (fst (exec P cf0 sched)).
Proof.
  intros h a ns sched Ha H0 Hna P cf0 HG.
  destruct (starts_spec2 h ns (init P) (Kinit2_init h)) as [K R].
  apply (I_exec h a (GN h a) (IN a)); auto.
  - intros act cf. apply IN_step; auto.
  - apply (Kinit2_Base h); auto.
  - apply (IN_init h); auto.
Qed.

Lemma disc_removal_converges_l : forall (h : hist_t) (a : Z) (ns : list node) (sched : list (@action)),
  0 < a -> In 0 ns -> In a ns ->
  let P := disc_proto h in
  let cf0 := fst (exec P (init P) (map (@Start) ns)) in
  along h (GN h a) cf0 sched ->
  let cf := fst (exec P cf0 sched) in
  forall c, 0 <= c ->
    In a (sm_get c (g_sub_comps (n_dir (w_st (nodes cf 0))))) ->
    zlookup c (g_comps (n_dir (w_st (nodes cf 0)))) = None ->
    chan cf 0 a = [] -> chan cf a 0 = [] ->
    zlookup c (d_comps (n_disc (w_st (nodes cf a)))) = None.
Proof.
  intros h a ns sched Ha H0 Hna P cf0 HG cf c Hc Hsub HD E1 E2.
  destruct (disc_removal_inv_l h a ns sched Ha H0 Hna HG) as [_ (_ & _ & HK)].
  fold P cf0 cf in HK. specialize (HK c Hc Hsub HD).
  rewrite E1, E2 in HK. simpl in HK. destruct HK as [H|H]; [exact H|discriminate].
Qed.

(* ------------------------------------------------------------------ the guard, computable *)
Definition gn1b (a : Z) (st : nst) (d : dstate) (N : list msg) (s : node) (m : msg) (O' : list msg) : bool :=
  match m with
  | MSubComp c true =>
      if (s =? a) && is_none (Dc st c) then is_none (rx c (vc d c) N) || existsb (pendn c) O' else true
  | _ => true
  end.
Definition gn2b (a : Z) (st : nst) (d : dstate) (N : list msg) (m : msg) (O' : list msg) : bool :=
  match m with
  | MUnpubComp c (Some g') =>
      if option_eqb Z.eqb (Dc st c) (Some g') && zmem a (Sc st c)
      then is_none (rx c (vc d c) N) || option_eqb Z.eqb (rx c (vc d c) N) (Some g') || existsb (pendn c) O'
      else true
  | _ => true
  end.
Definition GNb (h : hist_t) (a : Z) (cf : config nst msg) (act : action) : bool :=
  addr_okb (fst (step (disc_proto h) cf act)) &&
  match act with
  | Deliver s 0 =>
      match chan cf s 0 with
      | m :: q =>
          let O' := if a =? s then q else chan cf a 0 in
          gn1b a (dirst cf) (disc cf a) (chan cf 0 a) s m O' && gn2b a (dirst cf) (disc cf a) (chan cf 0 a) m O'
      | [] => true
      end
  | _ => true
  end.

Lemma is_none_true {A} (o : option A) : is_none o = true -> o = None.
Proof. destruct o; [discriminate|auto]. Qed.
Lemma option_eqb_some (o : option Z) g : option_eqb Z.eqb o (Some g) = true -> o = Some g.
Proof. destruct o as [k|]; simpl; [|discriminate]. intros H. apply Z.eqb_eq in H. now subst. Qed.

Lemma GNb_sound h a cf act : GNb h a cf act = true -> GN h a cf act.
Proof.
  unfold GNb, GN. intros H. apply andb_true_iff in H as [H1 H2]. split; [now apply addr_okb_sound|].
  intros s m q -> Hc. rewrite Hc in H2. apply andb_true_iff in H2 as [G1 G2]. split.
  - intros c -> -> HD. unfold gn1b in G1. rewrite Z.eqb_refl in *. rewrite HD in G1. simpl in G1.
    apply orb_true_iff in G1 as [G1|G1]; [left; now apply is_none_true|right; exact G1].
  - intros c g' -> HD Hs. unfold gn2b in G2. rewrite HD in G2. simpl in G2. rewrite Z.eqb_refl in G2.
    assert (Em : zmem a (Sc (dirst cf) c) = true) by now apply zmem_In.
    rewrite Em in G2. simpl in G2.
    apply orb_true_iff in G2 as [G2|G2]; [|right; right; exact G2].
    apply orb_true_iff in G2 as [G2|G2]; [left; now apply is_none_true|right; left; now apply option_eqb_some].
Qed.

(* non-vacuity: agent 1 registers computation 0, subscriber 2 gets it, agent 1 un-registers it *)
Definition okn_h : hist_t :=
  [(1, [OpRegAgent 1 1001; OpRegComp 0 (Some 1) (Some 1001); OpUnregComp 0 None]);
   (2, [OpSubComp 0 (Some 7) false])].
Definition okn_sched : list (@action) := List.concat (List.repeat drain3 6).
