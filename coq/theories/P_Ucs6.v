(* P_Ucs6.v -- C25 deepening, part 4: placement_inv at full strength.
   For a computation c of a unique owner o: in every reachable configuration the hosts recorded in
   the owner's _replica_hosts[c] are at most k and NO other agent holds a replica of c.
   Invariant K: every agent holding a replica of c is in the hosts list of the (unique) token of c
   in flight; nobody holds one before the owner's replicate order is processed; once c is in
   _replica_hosts the holders are exactly covered by the recorded set. *)
From PyDcop Require Import Base P_Base Net M_Ucs P_Ucs P_Ucs2 P_Ucs3 P_Ucs4.
From Coq Require Import Lia ZifyBool.

(* ================================================================== 1. hosts bookkeeping of a handler *)
Section HostsOut.
  Variable C : cfg.
  Variables (me c : Z).
  Variable s0 : nstate.
  Variable hosts0 : list Z.
  Notation hosted s := (s_hosted s).

  Definition HO (s' : nstate) (hosts' : list Z) : Prop :=
    (forall h, In h hosts0 -> In h hosts') /\
    (mem_key Z.eqb c (hosted s') = true -> mem_key Z.eqb c (hosted s0) = true \/ In me hosts').
  Definition HS1 (s' : nstate) : Prop :=
    forall c', mem_key Z.eqb c' (hosted s') = true -> mem_key Z.eqb c' (hosted s0) = true \/ c' = c.
  Definition cur0 : list Z := match zlookup c (s_rhosts s0) with Some l => l | None => [] end.

  Definition Midh (s : nstate) (hosts : list Z) : Prop :=
    HS1 s /\ HO s hosts /\ s_rhosts s = s_rhosts s0.

  Definition hout (r : hres) : Prop :=
    let '(s', outs, evs, _) := r in
    HS1 s' /\
    (forall d m, In (d, m) outs -> exists t, tok_of m = Some t /\ t_comp t = c /\ HO s' (t_hosts t)) /\
    (s_rhosts s' = s_rhosts s0 \/
     exists hosts', s_rhosts s' = dict_set Z.eqb c (set_union cur0 hosts') (s_rhosts s0)
                    /\ HO s' hosts' /\ In (EvRepl me c hosts') evs).

  Lemma raise_hout s hosts evs k b : Midh s hosts -> hout (s, [], evs ++ [EvRaise me k], b).
  Proof. intros (A & B & D). split; auto. split; [intros d m []|left; auto]. Qed.

  Lemma send_answer_hout s b sp rq paths visited fp count hosts evs :
    Midh s hosts -> hout (send_answer C me s b sp rq paths visited c fp count hosts evs).
  Proof.
    intros M. unfold send_answer. destruct (negb _); [eapply raise_hout; eauto|].
    destruct (rev rq) as [|sd [|tg rest]]; try (eapply raise_hout; eauto).
    destruct (_ || _); [eapply raise_hout; eauto|].
    destruct M as (A & B & D). split; auto. split; [|left; auto].
    intros d m [I|[]]. inversion I; subst. eexists. split; [reflexivity|]. simpl. auto.
  Qed.

  Lemma send_request_hout s b sp tp paths visited fp count hosts evs :
    Midh s hosts -> hout (send_request C me s b sp tp paths visited c fp count hosts evs).
  Proof.
    intros M. unfold send_request. destruct (_ || _); [eapply raise_hout; eauto|].
    destruct M as (A & B & D). split; [exact A|]. split; [|left; exact D].
    intros d m [I|[]]. inversion I; subst. eexists. split; [reflexivity|]. simpl. split; auto.
  Qed.

  Lemma computation_replicated_hout s hosts evs :
    Midh s hosts -> hout (computation_replicated me s c hosts evs).
  Proof.
    intros (A & B & D). unfold computation_replicated. destruct (zlookup c (s_inprog s)) as [v|].
    - split; [exact A|]. split; [intros d m []|]. right. exists hosts. simpl. unfold cur0. rewrite <- D.
      split; [reflexivity|]. split; [exact B|]. apply in_or_app. right. left. reflexivity.
    - split; [exact A|]. split; [intros d m []|left; exact D].
  Qed.

  Lemma visit_loop_hout prefix skip budget spent visited fp : forall fuel i s paths count hosts evs,
    Midh s hosts ->
    match visit_loop C fuel i me prefix skip budget spent visited c fp s paths count hosts evs with
    | LDone r => hout r
    | LCont s' _ _ hosts' _ => Midh s' hosts'
    end.
  Proof.
    induction fuel as [|fuel IH]; intros i s paths count hosts evs M; simpl.
    - apply (raise_hout s hosts _ _ true M).
    - destruct (nth_error paths i) as [[cost p]|]; [|exact M].
      destruct (_ && _); [|apply IH; auto].
      destruct (skipn _ p) as [|x tl]; [apply (raise_hout s hosts _ _ true M)|].
      destruct (match skip with Some sp => _ | None => false end); [apply IH; auto|].
      destruct (x =? HOSTING); [|apply send_request_hout; auto].
      destruct (can_host _ _ _ _ _); [|apply IH; auto].
      set (s1 := set_hosted s _).
      assert (M1 : Midh s1 (hosts ++ [me])).
      { destruct M as (A & (B1 & B2) & D). split; [|split; [split|exact D]].
        - intros c' H. unfold s1 in H. simpl in H. rewrite mem_key_dict_set in H.
          destruct (Z.eqb_spec c' c); auto.
        - intros h Hh. apply in_or_app. auto.
        - intros _. right. apply in_or_app. right. left. reflexivity. }
      destruct (count - 1 =? 0); [apply send_answer_hout; auto|apply IH; auto].
  Qed.

  Lemma on_request_hout s b sp rq paths visited fp count hosts evs :
    Midh s hosts -> hout (on_request C me s b sp rq paths visited c fp count hosts evs).
  Proof.
    intros M. unfold on_request. destruct (negb _); [eapply raise_hout; eauto|].
    match goal with |- context [visit_loop C ?f ?i me rq None b sp ?v c fp s ?p count hosts evs] =>
      pose proof (visit_loop_hout rq None b sp v fp f i s p count hosts evs M) as V end.
    destruct (visit_loop _ _ _ _ _ _ _ _ _ _ _ _ _ _ _ _) as [r|s2 p2 c2 h2 e2]; auto.
    apply send_answer_hout; auto.
  Qed.

  Lemma on_answer_hout s b sp rq paths visited fp count hosts evs :
    Midh s hosts -> hout (on_answer C me s b sp rq paths visited c fp count hosts evs).
  Proof.
    intros M. unfold on_answer. destruct (rev rq) as [|sd [|cur rest]]; try (eapply raise_hout; eauto).
    destruct (count =? 0).
    - destruct (3 <=? _); [apply send_answer_hout; auto|apply computation_replicated_hout; auto].
    - match goal with |- context [visit_loop C ?f ?i me ?pre ?sk b sp visited c fp s paths count hosts evs] =>
        pose proof (visit_loop_hout pre sk b sp visited fp f i s paths count hosts evs M) as V end.
      destruct (visit_loop _ _ _ _ _ _ _ _ _ _ _ _ _ _ _ _) as [r|s2 p2 c2 h2 e2]; auto.
      destruct (3 <=? _); [apply send_answer_hout; auto|].
      destruct p2; [apply computation_replicated_hout; auto|].
      destruct (filter _ _) as [|[c0 q0] r0]; [eapply raise_hout; eauto|apply on_request_hout; auto].
  Qed.
End HostsOut.

(* the handler of a token: summary *)
Lemma recv_hout C n s src m t : is_agent C n = true -> tok_of m = Some t ->
  let '(s', outs, evs) := ucs_recv C n s src m in
  (forall c', mem_key Z.eqb c' (s_hosted s') = true -> mem_key Z.eqb c' (s_hosted s) = true \/ c' = t_comp t) /\
  (forall d m', In (d, m') outs ->
     exists t', tok_of m' = Some t' /\ t_comp t' = t_comp t /\ (forall h, In h (t_hosts t) -> In h (t_hosts t'))
                /\ (mem_key Z.eqb (t_comp t) (s_hosted s') = true ->
                    mem_key Z.eqb (t_comp t) (s_hosted s) = true \/ In n (t_hosts t'))) /\
  (s_rhosts s' = s_rhosts s \/
   exists hosts', s_rhosts s' = dict_set Z.eqb (t_comp t)
                     (set_union (match zlookup (t_comp t) (s_rhosts s) with Some l => l | None => [] end) hosts') (s_rhosts s)
     /\ (forall h, In h (t_hosts t) -> In h hosts')
     /\ (mem_key Z.eqb (t_comp t) (s_hosted s') = true -> mem_key Z.eqb (t_comp t) (s_hosted s) = true \/ In n hosts')
     /\ In (EvRepl n (t_comp t) hosts') evs).
Proof.
  intros A T. unfold ucs_recv. rewrite A. simpl. destruct m as [k|t0|t0]; simpl in T; inversion T; subst t0.
  - assert (M : Midh n (t_comp t) s (t_hosts t) s (t_hosts t)).
    { split; [intros c' H; auto|]. split; [split; auto|reflexivity]. }
    pose proof (on_request_hout C n (t_comp t) s (t_hosts t) s (t_budget t) (t_spent t) (t_path t) (t_paths t) (t_visited t)
                  (t_fp t) (t_count t) (t_hosts t) [] M) as O.
    destruct (on_request _ _ _ _ _ _ _ _ _ _ _ _ _) as [[[s' o] e] b]. simpl.
    destruct O as (H1 & H2 & H3). split; [exact H1|]. split.
    + intros d m' I. destruct (H2 d m' I) as (t' & T' & E & (X1 & X2)). exists t'. auto.
    + destruct H3 as [H3|(hs & R & (X1 & X2) & I)]; [left; exact H3|right; exists hs; auto].
  - set (s1 := set_pending s _).
    assert (M : Midh n (t_comp t) s1 (t_hosts t) s1 (t_hosts t)).
    { split; [intros c' H; auto|]. split; [split; auto|reflexivity]. }
    pose proof (on_answer_hout C n (t_comp t) s1 (t_hosts t) s1 (t_budget t) (t_spent t) (t_path t) (t_paths t) (t_visited t)
                  (t_fp t) (t_count t) (t_hosts t) [] M) as O.
    destruct (on_answer _ _ _ _ _ _ _ _ _ _ _ _ _) as [[[s' o] e] b]. simpl.
    destruct O as (H1 & H2 & H3). split; [exact H1|]. split.
    + intros d m' I. destruct (H2 d m' I) as (t' & T' & E & (X1 & X2)). exists t'. auto.
    + destruct H3 as [H3|(hs & R & (X1 & X2) & I)]; [left; exact H3|right; exists hs; auto].
Qed.

(* ================================================================== 2. replicate never hosts *)
Section NoHost.
  Variable C : cfg.
  Definition nohost (paths : ptable) : Prop := forall e, In e paths -> ~ In HOSTING (snd e).

  Lemma send_answer_hosted me s b sp rq paths visited c fp count hosts evs :
    s_hosted (fst (fst (fst (send_answer C me s b sp rq paths visited c fp count hosts evs)))) = s_hosted s.
  Proof.
    unfold send_answer. destruct (negb _); [reflexivity|].
    destruct (rev rq) as [|sd [|tg rest]]; try reflexivity. destruct (_ || _); reflexivity.
  Qed.
  Lemma send_request_hosted me s b sp tp paths visited c fp count hosts evs :
    s_hosted (fst (fst (fst (send_request C me s b sp tp paths visited c fp count hosts evs)))) = s_hosted s.
  Proof. unfold send_request. destruct (_ || _); reflexivity. Qed.

  Lemma visit_loop_nohost me prefix skip budget spent visited c fp : forall fuel i s paths count hosts evs,
    nohost paths ->
    match visit_loop C fuel i me prefix skip budget spent visited c fp s paths count hosts evs with
    | LDone r => s_hosted (fst (fst (fst r))) = s_hosted s
    | LCont s' _ _ _ _ => s_hosted s' = s_hosted s
    end.
  Proof.
    induction fuel as [|fuel IH]; intros i s paths count hosts evs NH; simpl; [reflexivity|].
    destruct (nth_error paths i) as [[cost p]|] eqn:En; [|reflexivity].
    destruct (is_prefix prefix p && _) eqn:Ec; [|apply IH; auto].
    apply andb_true_iff in Ec as [Epre _].
    destruct (skipn _ p) as [|x tl] eqn:Esk; [reflexivity|].
    destruct (match skip with Some sp => _ | None => false end); [apply IH; auto|].
    destruct (x =? HOSTING) eqn:Ex; [|apply send_request_hosted].
    exfalso. apply Z.eqb_eq in Ex. subst x. apply (NH (cost, p)); [eapply nth_error_In; eauto|].
    simpl. rewrite (is_prefix_split _ _ Epre), Esk. apply in_or_app. right. left. reflexivity.
  Qed.

  Lemma on_request_root_hosted me s b paths visited c fp count hosts evs :
    owns C me c = true -> nohost paths ->
    s_hosted (fst (fst (fst (on_request C me s b 0 [me] paths visited c fp count hosts evs)))) = s_hosted s.
  Proof.
    intros Ho NH. unfold on_request. destruct (negb _); [reflexivity|]. rewrite Ho. cbn [negb]. rewrite andb_false_r.
    assert (NH1 : nohost (remove_path paths [me])).
    { intros e He. apply remove_path_In in He as [He _]. auto. }
    match goal with |- context [visit_loop C ?f ?i me ?rq None b ?sp ?v c fp s ?p count hosts evs] =>
      pose proof (visit_loop_nohost me rq None b sp v c fp f i s p count hosts evs NH1) as V end.
    destruct (visit_loop _ _ _ _ _ _ _ _ _ _ _ _ _ _ _ _) as [r|s2 p2 c2 h2 e2]; auto.
    rewrite send_answer_hosted. exact V.
  Qed.

  Lemma replicate_loop_hosted me k (Hme : 0 <= me) : forall comps s outs evs,
    (forall x, In x comps -> In x (a_comps (agent C me))) ->
    s_hosted (fst (fst (fst (replicate_loop C me k comps s outs evs)))) = s_hosted s.
  Proof.
    induction comps as [|x rest IH]; intros s outs evs Hin; simpl; [reflexivity|].
    set (paths := psort _).
    assert (NH : nohost paths).
    { intros e He. unfold paths in He. apply (proj1 (psort_In _ _)) in He.
      apply in_map_iff in He as [[n r] [<- Hn]]. simpl. apply neighbors_pos in Hn.
      intros [H|[H|[]]]; unfold HOSTING in H; lia. }
    destruct paths as [|[c0 q0] r0] eqn:Ep; [reflexivity|]. rewrite <- Ep in *.
    assert (Ho : owns C me (comp_name x) = true).
    { unfold owns, own_names. apply zmem_In. apply in_map. apply Hin. left; reflexivity. }
    pose proof (on_request_root_hosted me s (min_cost r0 c0) paths [me] (comp_name x) (comp_fp x) k [] evs Ho NH) as R.
    destruct (on_request _ _ _ _ _ _ _ _ _ _ _ _ _) as [[[s1 o1] e1] raised]. simpl in R.
    destruct raised; [exact R|]. rewrite IH; auto. intros y Hy. apply Hin. right; auto.
  Qed.

  Lemma replicate_hosted me s k : 0 <= me -> s_hosted (fst (fst (fst (replicate C me s k)))) = s_hosted s.
  Proof.
    intros Hme. unfold replicate. destruct (a_comps (agent C me)) as [|x0 r0] eqn:Ec; [reflexivity|].
    destruct (neighbors C me); [reflexivity|].
    rewrite replicate_loop_hosted; auto. intros x Hx. rewrite Ec. exact Hx.
  Qed.
End NoHost.

(* ================================================================== 3. the invariant K *)
Lemma set_union_length a : forall b, (List.length (set_union b a) <= List.length b + List.length a)%nat.
Proof.
  unfold set_union. induction a as [|y r IH]; simpl; intros b; [lia|].
  destruct (zmem y b); [specialize (IH b); lia|]. specialize (IH (b ++ [y])). rewrite app_length in IH. simpl in IH. lia.
Qed.

Lemma tok_of_is_tok c m t : tok_of m = Some t -> is_tok c m = (t_comp t =? c).
Proof. destruct m; simpl; intros H; inversion H; reflexivity. Qed.

Lemma is_tok_tok_of c m : is_tok c m = true -> exists t, tok_of m = Some t /\ t_comp t = c.
Proof. destruct m; simpl; intros H; try discriminate; eexists; split; eauto; apply Z.eqb_eq; auto. Qed.

Lemma replicate_outs_own C d s k d1 m1 :
  In (d1, m1) (snd (fst (fst (replicate C d s k)))) -> exists c1, owns C d c1 = true /\ is_tok c1 m1 = true.
Proof.
  destruct (active_dec C d) as [Ac|NA].
  - pose proof (replicate_active C d s k Ac) as R. destruct (replicate C d s k) as [[[s' outs] e] b]. simpl.
    destruct R as (_ & _ & _ & OG). intros I. destruct (OG d1 m1 I) as (c1 & I1 & T). exists c1. split; auto.
    unfold owns. apply zmem_In. exact I1.
  - pose proof (replicate_trivial C d s k NA) as R. destruct (replicate C d s k) as [[[s' outs] e] b]. simpl.
    destruct R as (-> & _). intros [].
Qed.

Section KInv.
  Variable C : cfg.
  Hypothesis WF : wf C.
  Hypothesis UN : uniq C.
  Variables (c o : Z).
  Hypothesis Ho : owns C o c = true.
  Notation P := (ucs_proto C).
  Notation config := (Net.config nstate msg).
  Notation st cf n := (w_st (nodes cf n)).
  Notation fw := (P_Ucs.fw c o).

  Definition holds (cf : config) (h : Z) : bool := mem_key Z.eqb c (s_hosted (st cf h)).
  Definition K (cf : config) : Prop :=
    (forall d m t, InFl C cf d m -> tok_of m = Some t -> t_comp t = c ->
       forall h, is_agent C h = true -> holds cf h = true -> In h (t_hosts t))
    /\ (pre C cf o -> forall h, is_agent C h = true -> holds cf h = false)
    /\ (forall hs, zlookup c (s_rhosts (st cf o)) = Some hs ->
          (forall h, is_agent C h = true -> holds cf h = true -> In h hs) /\ Z.of_nat (List.length hs) <= c_k C).

  Lemma own_o : forall d, owns C d c = true -> d = o.
  Proof. intros d H. eapply (u_own C UN); eauto. Qed.

  Lemma K_transfer cf cf' :
    (forall d m t, InFl C cf' d m -> tok_of m = Some t -> t_comp t = c -> InFl C cf d m) ->
    (pre C cf' o -> pre C cf o) ->
    (forall h, holds cf' h = true -> holds cf h = true) ->
    zlookup c (s_rhosts (st cf' o)) = zlookup c (s_rhosts (st cf o)) ->
    K cf -> K cf'.
  Proof.
    intros F PR HH RH (K1 & K2 & K3). split; [|split].
    - intros d m t IF T E h Ah Hh. eapply K1; eauto.
    - intros Pn h Ah. destruct (holds cf' h) eqn:E; auto. apply HH in E. rewrite (K2 (PR Pn) h Ah) in E. discriminate.
    - intros hs Z0. rewrite RH in Z0. destruct (K3 hs Z0) as [A B]. split; auto.
  Qed.

  Lemma excl_after cf s d m q st' (outs : list (node * msg)) :
    reachable P cf -> chan cf s d = m :: q -> is_agent C d = true -> fw d m = true ->
    forall d1 m1,
      InFl C (mkConfig (upd_node (nodes cf) d (mkWrap true (w_held (nodes cf d)) st')) (send_all (upd_chan (chan cf) s d q) d outs)) d1 m1 ->
      fw d1 m1 = true -> In (d1, m1) outs.
  Proof.
    intros R Ech Ad F d1 m1 (A1 & [(s1 & I)|(s1 & I)]) F1.
    - simpl in I. apply In_send_all in I as [I|[E I]]; auto. exfalso.
      destruct (head_exclusive C c o own_o (u_names C UN o) cf s d m q R Ech (agent_inU C d Ad) F) as (_ & _ & X3 & _).
      rewrite (X3 s1 d1 m1 I (agent_inU C d1 A1)) in F1. discriminate.
    - exfalso. simpl in I. unfold upd_node in I.
      destruct (head_exclusive C c o own_o (u_names C UN o) cf s d m q R Ech (agent_inU C d Ad) F) as (_ & _ & _ & X4).
      assert (I' : In (s1, m1) (w_held (nodes cf d1))) by (destruct (Z.eqb_spec d1 d) as [->|]; simpl in I; auto).
      rewrite (X4 d1 s1 m1 I' (agent_inU C d1 A1)) in F1. discriminate.
  Qed.

  Lemma step_K cf a : reachable P cf -> K cf -> K (fst (step P cf a)).
  Proof.
    intros R HK. pose proof (reachable_inv C WF cf R) as I0.
    pose proof (step_inv C WF cf a I0) as SI.
    destruct a as [n|s d]; simpl in *.
    - (* Start n *)
      destruct (w_running (nodes cf n)) eqn:Er; [exact HK|].
      change (p_start P n (w_st (nodes cf n))) with (ucs_start C n (w_st (nodes cf n))) in *.
      assert (OUTS : forall d m, In (d, m) (snd (fst (ucs_start C n (w_st (nodes cf n))))) -> n = ORCH /\ exists k, m = MReplicate k).
      { unfold ucs_start. destruct (Z.eqb_spec n ORCH); simpl; [|intros d m []].
        intros d m I. apply in_map_iff in I as [a0 [E _]]. inversion E; subst. split; eauto. }
      assert (STS : fst (fst (ucs_start C n (w_st (nodes cf n)))) = w_st (nodes cf n)).
      { unfold ucs_start. destruct (n =? ORCH); reflexivity. }
      clear SI. destruct (ucs_start C n (w_st (nodes cf n))) as [[st' outs] e]. simpl in *. subst st'.
      assert (BACK : forall d m, InFl C (mkConfig (upd_node (nodes cf) n (mkWrap true [] (w_st (nodes cf n))))
                                              (reinject_all (send_all (chan cf) n outs) n (reinject (w_held (nodes cf n))))) d m ->
                     InFl C cf d m \/ In (d, m) outs).
      { intros d m (A & [(s & I)|(s & I)]); simpl in I.
        - apply In_reinject_all in I as [I|[-> I]]; [|left; split; auto; right; exists s; exact I].
          apply In_send_all in I as [I|[-> I]]; [left; split; auto; left; exists s; exact I|right; exact I].
        - unfold upd_node in I. destruct (Z.eqb_spec d n); simpl in I; [contradiction|].
          left. split; auto. right. exists s. exact I. }
      apply (K_transfer cf); auto.
      + intros d m t IF T _. destruct (BACK d m IF) as [H|H]; auto.
        destruct (OUTS d m H) as (_ & k & ->). discriminate.
      + intros [OF|[k IF]].
        * left. simpl in OF. unfold upd_node in OF. destruct (Z.eqb_spec ORCH n) as [<-|]; simpl in OF; [discriminate|exact OF].
        * destruct (BACK o _ IF) as [H|H]; [right; eauto|]. destruct (OUTS _ _ H) as (-> & _). left. exact Er.
      + intros h. unfold holds. simpl. unfold upd_node. destruct (Z.eqb_spec h n) as [->|]; simpl; auto.
      + simpl. unfold upd_node. destruct (Z.eqb_spec o n) as [->|]; simpl; auto.
    - (* Deliver s d *)
      destruct (chan cf s d) as [|m q] eqn:Ech; [exact HK|].
      destruct (w_running (nodes cf d)) eqn:Er.
      2:{ clear SI. simpl. apply (K_transfer cf); auto.
          - intros d1 m1 t (A & [(s1 & I)|(s1 & I)]) _ _; split; auto; simpl in I.
            + left. exists s1. apply In_upd_chan in I as [(-> & -> & I)|I]; auto. rewrite Ech. right. exact I.
            + unfold upd_node in I. destruct (Z.eqb_spec d1 d) as [->|]; simpl in I; [|right; exists s1; exact I].
              apply in_app_or in I as [I|[I|[]]]; [right; exists s1; exact I|].
              injection I as E1 E2. left. exists s. rewrite Ech, <- E2. left. reflexivity.
          - intros [OF|[k (A & [(s1 & I)|(s1 & I)])]].
            + left. simpl in OF. unfold upd_node in OF. destruct (Z.eqb_spec ORCH d) as [<-|]; simpl in OF; auto.
            + right. exists k. split; auto. simpl in I. left. exists s1.
              apply In_upd_chan in I as [(-> & -> & I)|I]; auto. rewrite Ech. right. exact I.
            + right. exists k. split; auto. simpl in I. unfold upd_node in I.
              destruct (Z.eqb_spec o d) as [->|]; simpl in I; [|right; exists s1; exact I].
              apply in_app_or in I as [I|[I|[]]]; [right; exists s1; exact I|].
              injection I as E1 E2. left. exists s. rewrite Ech, <- E2. left. reflexivity.
          - intros h. unfold holds. simpl. unfold upd_node. destruct (Z.eqb_spec h d) as [->|]; simpl; auto.
          - simpl. unfold upd_node. destruct (Z.eqb_spec o d) as [->|]; simpl; auto. }
      change (p_recv P d (w_st (nodes cf d)) s m) with (ucs_recv C d (w_st (nodes cf d)) s m) in *.
      assert (IFm : is_agent C d = true -> InFl C cf d m) by (intros A; split; auto; left; exists s; rewrite Ech; left; reflexivity).
      assert (GEN : forall st' (outs : list (node * msg)),
                let cf' := mkConfig (upd_node (nodes cf) d (mkWrap true (w_held (nodes cf d)) st')) (send_all (upd_chan (chan cf) s d q) d outs) in
                (forall h, h <> d -> st cf' h = st cf h) /\ st cf' d = st' /\ w_running (nodes cf' ORCH) = w_running (nodes cf ORCH)).
      { intros st' outs cf'. split; [|split]; unfold cf'; simpl; unfold upd_node.
        - intros h Hh. destruct (Z.eqb_spec h d); [contradiction|reflexivity].
        - rewrite Z.eqb_refl. reflexivity.
        - destruct (Z.eqb_spec ORCH d) as [<-|]; simpl; auto. }
      destruct (is_agent C d) eqn:Ad.
      2:{ clear SI. unfold ucs_recv. rewrite Ad. simpl. apply (K_transfer cf); auto.
          - intros d1 m1 t IF _ _. destruct (InFl_deliver_back C cf s d m q (w_st (nodes cf d)) [] Ech d1 m1 IF) as [H|[]]. exact H.
          - intros [OF|[k IF]].
            + left. destruct (GEN (w_st (nodes cf d)) []) as (_ & _ & E). rewrite <- E. exact OF.
            + destruct (InFl_deliver_back C cf s d m q (w_st (nodes cf d)) [] Ech _ _ IF) as [H|[]]. right; eauto.
          - intros h. unfold holds. simpl. unfold upd_node. destruct (Z.eqb_spec h d) as [->|]; simpl; auto.
          - simpl. unfold upd_node. destruct (Z.eqb_spec o d) as [->|]; simpl; auto. }
      destruct HK as (K1 & K2 & K3).
      destruct (tok_of m) as [t|] eqn:TK.
      + (* token of c1 = t_comp t *)
        pose proof (recv_hout C d (w_st (nodes cf d)) s m t Ad TK) as RH.
        destruct (ucs_recv C d (w_st (nodes cf d)) s m) as [[st' outs] e].
        cbv beta iota zeta delta [fst snd] in SI |- *.
        destruct SI as (_ & _ & EVOK). destruct RH as (H1 & H2 & H3).
        destruct (GEN st' outs) as (G1 & G2 & G3).
        set (cf' := mkConfig (upd_node (nodes cf) d (mkWrap true (w_held (nodes cf d)) st')) (send_all (upd_chan (chan cf) s d q) d outs)) in *.
        assert (NOREP : forall d1 k, ~ In (d1, MReplicate k) outs).
        { intros d1 k I. destruct (H2 _ _ I) as (t' & T' & _). discriminate. }
        assert (PRB : pre C cf' o -> pre C cf o \/ False).
        { intros [OF|[k IF]]; [left; left; rewrite <- G3; exact OF|].
          destruct (InFl_deliver_back C cf s d m q st' outs Ech _ _ IF) as [H|H]; [left; right; eauto|].
          exfalso. eapply NOREP; eauto. }
        destruct (Z.eq_dec (t_comp t) c) as [Ec|Nc].
        * (* the token of c itself *)
          assert (Fm : fw d m = true) by (unfold P_Ucs.fw; rewrite (tok_of_is_tok c m t TK), Ec, Z.eqb_refl; reflexivity).
          destruct (head_excl C UN cf s d m q c o R Ho Ech Ad Fm) as (X1 & X2 & X3).
          pose proof (excl_after cf s d m q st' outs R Ech Ad Fm) as XA. fold cf' in XA.
          assert (HOLD : forall t', (forall h, In h (t_hosts t) -> In h t') ->
                           (mem_key Z.eqb (t_comp t) (s_hosted st') = true ->
                            mem_key Z.eqb (t_comp t) (s_hosted (w_st (nodes cf d))) = true \/ In d t') ->
                           forall h, is_agent C h = true -> holds cf' h = true -> In h t').
          { intros t' S1 S2 h Ah Hh. unfold holds in Hh. destruct (Z.eq_dec h d) as [->|Hne].
            - rewrite G2 in Hh. rewrite Ec in S2. destruct (S2 Hh) as [S|S]; auto.
              apply S1. eapply (K1 d m t); eauto.
            - rewrite (G1 h Hne) in Hh. apply S1. eapply (K1 d m t); eauto. }
          split; [|split].
          -- intros d1 m1 t1 IF T1 E1 h Ah Hh.
             assert (F1 : fw d1 m1 = true) by (unfold P_Ucs.fw; rewrite (tok_of_is_tok c m1 t1 T1), E1, Z.eqb_refl; reflexivity).
             destruct (H2 d1 m1 (XA d1 m1 IF F1)) as (t' & T' & _ & S1 & S2). rewrite T1 in T'. inversion T'; subst t'.
             eapply HOLD; eauto.
          -- intros Pn. exfalso. destruct Pn as [OF|[k IF]]; [rewrite G3 in OF; congruence|].
             apply (NOREP o k). apply XA; auto. apply fw_rep.
          -- intros hs Z0. destruct (Z.eq_dec o d) as [Eo|Hne]; [|rewrite (G1 o Hne) in Z0; unfold mem_key, zlookup in *; rewrite Z0 in X2; discriminate].
             rewrite Eo in *. rewrite G2 in Z0.
             destruct H3 as [H3|(hosts' & H3 & S1 & S2 & IE)].
             ++ rewrite H3 in Z0. unfold mem_key, zlookup in *. rewrite Z0 in X2. discriminate.
             ++ rewrite H3, Ec in Z0. unfold zlookup in Z0. rewrite (lookup_dict_set_same Z.eqb Z.eqb_eq) in Z0.
                assert (CUR : zlookup c (s_rhosts (w_st (nodes cf d))) = None).
                { unfold mem_key, zlookup in *. destruct (lookup Z.eqb c (s_rhosts (w_st (nodes cf d)))); [discriminate|reflexivity]. }
                unfold zlookup in CUR. rewrite CUR in Z0. inversion Z0; subst hs. split.
                ** intros h Ah Hh. apply set_union_In. right. eapply HOLD; eauto.
                ** rewrite Forall_forall in EVOK. specialize (EVOK _ IE). simpl in EVOK. destruct EVOK as (_ & _ & L).
                   pose proof (set_union_length hosts' []). simpl in *. lia.
        * (* a token of another computation: nothing about c changes *)
          clear EVOK.
          assert (HH : forall h, holds cf' h = true -> holds cf h = true).
          { intros h Hh. unfold holds in *. destruct (Z.eq_dec h d) as [->|Hne]; [|rewrite (G1 h Hne) in Hh; exact Hh].
            rewrite G2 in Hh. destruct (H1 c Hh) as [S|S]; [exact S|congruence]. }
          apply (K_transfer cf cf'); auto; [| | |split; auto].
          -- intros d1 m1 t1 IF T1 E1. destruct (InFl_deliver_back C cf s d m q st' outs Ech d1 m1 IF) as [H|H]; auto.
             exfalso. destruct (H2 _ _ H) as (t' & T' & E' & _). rewrite T1 in T'. inversion T'; subst t'. congruence.
          -- intros Pn. destruct (PRB Pn) as [H|[]]. exact H.
          -- destruct (Z.eq_dec o d) as [Eo|Hne]; [|rewrite (G1 o Hne); reflexivity].
             rewrite Eo, G2. destruct H3 as [H3|(hosts' & H3 & _)]; [rewrite H3; reflexivity|].
             rewrite H3. unfold zlookup. apply (lookup_dict_set_other Z.eqb Z.eqb_eq). congruence.
      + (* the replicate order: nobody hosts anything, the tokens emitted are those of d's computations *)
        clear SI. destruct m as [k|t|t]; simpl in TK; try discriminate.
        unfold ucs_recv. rewrite Ad. cbv beta iota delta [negb].
        assert (Hd : 0 <= d) by (unfold is_agent in Ad; lia).
        pose proof (replicate_hosted C d (w_st (nodes cf d)) k Hd) as RHo.
        pose proof (replicate_rhosts C d (w_st (nodes cf d)) k) as RRh.
        pose proof (replicate_outs_own C d (w_st (nodes cf d)) k) as ROw.
        destruct (replicate C d (w_st (nodes cf d)) k) as [[[st' outs] e] b].
        cbv beta iota delta [fst snd drop_raised] in RHo, RRh, ROw |- *.
        destruct (GEN st' outs) as (G1 & G2 & G3).
        set (cf' := mkConfig (upd_node (nodes cf) d (mkWrap true (w_held (nodes cf d)) st')) (send_all (upd_chan (chan cf) s d q) d outs)) in *.
        assert (HE : forall h, holds cf' h = holds cf h).
        { intros h. unfold holds. destruct (Z.eq_dec h d) as [->|Hne]; [rewrite G2, RHo; reflexivity|rewrite (G1 h Hne); reflexivity]. }
        assert (PRB : pre C cf' o -> pre C cf o).
        { intros [OF|[k0 IF]]; [left; rewrite <- G3; exact OF|].
          destruct (InFl_deliver_back C cf s d _ q st' outs Ech _ _ IF) as [H|H]; [right; eauto|].
          destruct (ROw _ _ H) as (c1 & _ & T). discriminate. }
        split; [|split].
        * intros d1 m1 t1 IF T1 E1 h Ah Hh. rewrite HE in Hh.
          destruct (InFl_deliver_back C cf s d _ q st' outs Ech d1 m1 IF) as [H|H]; [eapply K1; eauto|].
          exfalso. destruct (ROw _ _ H) as (c1 & O1 & T). rewrite (tok_of_is_tok c1 m1 t1 T1) in T.
          apply Z.eqb_eq in T. rewrite E1 in T. subst c1. pose proof (own_o d O1) as Ed. subst d.
          assert (Pn : pre C cf o) by (right; exists k; apply IFm; reflexivity).
          rewrite (K2 Pn h Ah) in Hh. discriminate.
        * intros Pn h Ah. rewrite HE. apply K2; auto.
        * intros hs Z0. assert (Z1 : zlookup c (s_rhosts (st cf o)) = Some hs).
          { destruct (Z.eq_dec o d) as [Eo|Hne]; [|rewrite (G1 o Hne) in Z0; exact Z0].
            rewrite Eo in *. rewrite G2, RRh in Z0. exact Z0. }
          destruct (K3 hs Z1) as [A B]. split; auto. intros h Ah Hh. rewrite HE in Hh. auto.
  Qed.

  Lemma init_K : K (init P).
  Proof.
    split; [|split].
    - intros d m t (_ & [(s & [])|(s & [])]).
    - intros _ h _. reflexivity.
    - intros hs Z0. discriminate.
  Qed.

  Lemma reachable_K cf : reachable P cf -> K cf.
  Proof. induction 1 as [|cf a R IH]; [apply init_K|apply step_K; auto]. Qed.
End KInv.

(* ---- placement_inv at full strength (state form) *)
Lemma placement_inv_full_l C : wf C -> uniq C -> forall cf n c hs,
  reachable (ucs_proto C) cf -> zlookup c (s_rhosts (w_st (nodes cf n))) = Some hs ->
  placed C cf n c hs /\ Z.of_nat (List.length hs) <= c_k C
  /\ forall h, is_agent C h = true -> mem_key Z.eqb c (s_hosted (w_st (nodes cf h))) = true -> In h hs.
Proof.
  intros WF UN cf n c hs R Z0. pose proof (replica_hosts_inv_l C WF cf n c hs R Z0) as PL.
  split; [exact PL|]. destruct PL as (Ho & _).
  destruct (reachable_K C WF UN c n Ho cf R) as (_ & _ & K3). destruct (K3 hs Z0) as [A B]. split; auto.
Qed.
