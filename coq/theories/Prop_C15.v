(* Prop_C15.v -- C15: everything sent between agents survives the wire and process spawn.
   Only statements; each closed by an exact lemma from P_Repr.
   [wire nan v] = from_repr (json.loads (json.dumps (simple_repr v, allow_nan=nan))), the trip of
   HttpCommunicationLayer.send_msg -> MPCHttpHandler.do_POST (nan = false with the installed requests).

   FULL STATEMENT (kept visible): for every value v that pyDCOP transmits -- scalars, lists, tuples,
   string-keyed dicts, namedtuples of scalars, message_type messages, objects of every SimpleRepr
   class (generic mixin or hand-written repr) nested to any depth -- wire false v = Ok v, and
   pickle_rt a = Ok a for every AgentDef a.
   PROVED: generic_roundtrip_partial (all of the above EXCEPT values containing tuples or namedtuples,
   whose decoding sorts the tuple-dict by integer index: missing lemmas are "int (str i) = i",
   "sorting an increasing list is the identity"; they are exercised by the correspondence run and by
   tuple_and_namedtuple_survive), the three link classes for ALL node names, AgentDef pickling for ALL
   field values.  MaxSumMessage / Mgm2OfferMessage / AlgorithmDef / ExpressionFunction / AgentDef /
   VariableWithCostDict / ordered-graph node reprs are in the model and tied to the code by the
   correspondence run; only concrete instances are theorems here.  That each pyDCOP class follows the
   mixin convention ([safe]'s KGeneric condition) is checked class by class by the enumeration run.

   DEEPENING (P_Repr2/3/4.v): the exclusion is removed.  [generic_roundtrip] holds for every value
   satisfying the explicit well-formedness predicate [wf] (P_Repr3.v), which extends [safe] with
   tuples (any length: the tuple-dict decode with int(str i) = i and the sort), namedtuples, the
   generic classes whose constructor converts an argument (Domain.values -> tuple, Link /
   ConstraintLink.nodes -> frozenset) and EVERY hand-written repr, nested to any depth.  One
   corollary per hand-written repr states the round trip for all contents meeting that class's
   condition, and the ComputationDef of each of the four graph models is covered for all variables,
   constraints, links and algorithm definitions that are themselves well-formed. *)
From PyDcop Require Import Base M_AgentDef M_Repr P_Repr P_Repr2 P_Repr3 P_Repr4.
Open Scope string_scope.
Open Scope list_scope.

Theorem generic_roundtrip_partial : forall nan v, safe nan v = true -> wire nan v = Ok v.
Proof. exact generic_roundtrip_partial_l. Qed.

Theorem roundtrip_pseudotree_link : forall nan t s g,
  In t PT_TYPES -> wire nan (pt_link t s g) = Ok (pt_link t s g).
Proof. exact roundtrip_pseudotree_link_l. Qed.

Theorem roundtrip_order_link : forall nan t s g,
  In t ORDER_TYPES -> wire nan (order_link t s g) = Ok (order_link t s g).
Proof. exact roundtrip_order_link_l. Qed.

Theorem roundtrip_factor_graph_link : forall nan s g, wire nan (fg_link s g) = Ok (fg_link s g).
Proof. exact roundtrip_factor_graph_link_l. Qed.

Theorem agentdef_pickle_roundtrip : forall n dr r dh h at_,
  let o := PObj "pydcop.dcop.objects" "AgentDef"
             [("name", n); ("default_route", dr); ("routes", r); ("default_hosting_cost", dh);
              ("hosting_costs", h); ("*attr", at_)] in
  pickle_rt o = Ok o.
Proof. exact agentdef_pickle_any_l. Qed.

Theorem agentdef_pickle_keeps_costs : forall a b,
  pickle_rt (py_of_agent a) = Ok (py_of_agent b) ->
  (forall o, route b o = route a o) /\ (forall c, hosting_cost b c = hosting_cost a c)
  /\ (forall k, getattr b k = getattr a k).
Proof. exact agentdef_pickle_keeps_costs_l. Qed.

(* shapes that do not survive: the generic dict with non-string keys, sets, a tuple inside a
   namedtuple, the offers of a non-offering Mgm2OfferMessage, non-finite floats under the
   strict encoder of the installed requests *)
Theorem int_keyed_dict_refuted :
  exists v, wire false v = Ok (PDict [(PStr "1", PFloat "0.5")]) /\ v = PDict [(PInt 1, PFloat "0.5")].
Proof. exact int_keyed_dict_refuted_l. Qed.

Theorem set_refuted : wire false (PSet [PInt 1; PInt 2]) = Ok (PList [PInt 1; PInt 2]).
Proof. exact set_refuted_l. Qed.

Theorem namedtuple_nested_refuted :
  wire false (PNamed "harness.props.C15" "NTOne" [("v", PTuple [PInt 1])])
  = Ok (PNamed "harness.props.C15" "NTOne" [("v", PList [PInt 1])]).
Proof. exact namedtuple_nested_refuted_l. Qed.

Theorem mgm2_fake_offer_drops_offers_refuted :
  wire false (mgm2_offer [(PTuple [PInt 0; PInt 1], PInt 5)] false) = Ok (mgm2_offer [] false).
Proof. exact mgm2_fake_offer_drops_offers_refuted_l. Qed.

Theorem nonfinite_float_refuted : forall v, In v [PFloat "inf"; PFloat "-inf"; PFloat "nan"] ->
  wire false (PList [v]) = Err "ValueError" /\ wire true (PList [v]) = Ok (PList [v]).
Proof. exact nonfinite_float_refuted_l. Qed.

Theorem tuple_and_namedtuple_survive :
  let v := PList [PTuple [PInt 3; PTuple [PStr "a"; PNone]; PFloat "0.5"];
                  PNamed "harness.props.C15" "NTPair" [("x", PInt 1); ("y", PStr "b")]] in
  wire false v = Ok v.
Proof. exact tuple_and_namedtuple_survive_l. Qed.

Theorem maxsum_int_keys_survive :
  let m := maxsum_msg [(PInt 0, PFloat "1.5"); (PInt 1, PInt 3); (PStr "R", PFloat "0.0")] in
  wire false m = Ok m.
Proof. exact maxsum_int_keys_survive_l. Qed.

Theorem mgm2_offer_survives :
  let m := mgm2_offer [(PTuple [PInt 0; PStr "R"], PFloat "2.5"); (PTuple [PInt 1; PInt 1], PInt 4)] true in
  wire false m = Ok m.
Proof. exact mgm2_offer_survives_l. Qed.

(* non-vacuity: a nested message as the orchestrator sends it is wire-safe, and survives *)
Example c15_nonvacuous :
  let v := PMsg "value_change"
             [("agent", PStr "a1"); ("computation", PStr "v0"); ("value", PInt 2); ("cost", PFloat "12.5");
              ("cycle", PInt 3);
              ("metrics", PDict [(PStr "count_ext_msg", PDict [(PStr "v0", PInt 4)]);
                                 (PStr "obj", PObj "harness.props.C15" "GenA"
                                                [("a", PList [PInt 1; PNone]); ("b", PBool true)])])] in
  safe false v = true /\ wire false v = Ok v.
Proof. vm_compute. split; reflexivity. Qed.

(* ================= deepening: the general theorem ================= *)
(* the two arithmetic facts behind the tuple decode *)
Theorem int_of_str_of_int : forall z, Z_of_str (str_of_Z z) = Some z.
Proof. exact int_of_str_of_int_l. Qed.

Theorem sort_increasing_is_identity : forall (A : Type) (l : list (Z * A)),
  strictly_increasing (map fst l) = true -> isort (fun a b => Z.leb (fst a) (fst b)) l = l.
Proof. exact sort_increasing_is_identity_l. Qed.

(* every well-formed value survives the wire: scalars, lists, tuples, string-keyed dicts, namedtuples,
   message_type messages, generic SimpleRepr classes (incl. Domain / Link / ConstraintLink) and all
   hand-written reprs, nested to any depth and width *)
Theorem generic_roundtrip : forall nan v, wf nan v = true -> wire nan v = Ok v.
Proof. exact generic_roundtrip_l. Qed.

(* it subsumes generic_roundtrip_partial, and tuples / namedtuples are no longer excluded *)
Theorem wf_extends_safe : forall nan v, safe nan v = true -> wf nan v = true.
Proof. exact wf_extends_safe_l. Qed.

Theorem roundtrip_tuple : forall nan l,
  (forall x, In x l -> wf nan x = true) -> wire nan (PTuple l) = Ok (PTuple l).
Proof. exact roundtrip_tuple_l. Qed.

(* ================= one theorem per hand-written repr ================= *)
(* MaxSumMessage: non-empty costs, scalar keys pairwise distinct, JSON-native values *)
Theorem roundtrip_maxsum_message : forall nan costs,
  maxsum_ok nan costs = true -> wire nan (maxsum_msg costs) = Ok (maxsum_msg costs).
Proof. exact roundtrip_maxsum_message_l. Qed.

(* Mgm2OfferMessage: offers keyed by tuples of JSON-native values; non-empty offers only when offering
   (otherwise mgm2_fake_offer_drops_offers_refuted) *)
Theorem roundtrip_mgm2_offer_message : forall nan offers b,
  mgm2_ok nan offers (PBool b) = true -> wire nan (mgm2_offer offers b) = Ok (mgm2_offer offers b).
Proof. exact roundtrip_mgm2_offer_message_l. Qed.

(* AlgorithmDef: params is decoded raw, so it must be JSON-native (string-keyed dict of scalars/lists) *)
Theorem roundtrip_algorithm_def : forall nan algo params mode,
  wf nan algo = true -> plain nan params = true -> wf nan mode = true ->
  wire nan (algo_def algo params mode) = Ok (algo_def algo params mode).
Proof. exact roundtrip_algorithm_def_l. Qed.

Theorem roundtrip_expression_function : forall nan expression source_file fixed_vars,
  wf nan expression = true -> wf nan source_file = true -> plain nan fixed_vars = true ->
  wire nan (expr_fn expression source_file fixed_vars) = Ok (expr_fn expression source_file fixed_vars).
Proof. exact roundtrip_expression_function_l. Qed.

(* AgentDef through the wire (repaired code): extra attribute names distinct from each other, from the
   five named parameters and from the reserved keys *)
Theorem roundtrip_agentdef_wire : forall nan name dr routes dh hosting attrs,
  wf nan name = true -> wf nan dr = true -> wf nan routes = true -> not_none routes = true ->
  wf nan dh = true -> wf nan hosting = true -> not_none hosting = true ->
  names_ok (AGENT_NAMED ++ map fst attrs) = true -> forallb (fun nv => wf nan (snd nv)) attrs = true ->
  wire nan (agent_obj name dr routes dh hosting attrs) = Ok (agent_obj name dr routes dh hosting attrs).
Proof. exact roundtrip_agentdef_wire_l. Qed.

(* ... and the decoded agent of C31's record answers route / hosting_cost / attributes alike *)
Theorem agentdef_wire_keeps_costs : forall nan a b,
  zkeys_ok (a_routes a) = true -> zkeys_ok (a_hosting a) = true ->
  names_ok (AGENT_NAMED ++ map fst (a_attrs a)) = true ->
  wire nan (py_of_agent a) = Ok (py_of_agent b) ->
  (forall o, route b o = route a o) /\ (forall c, hosting_cost b c = hosting_cost a c)
  /\ (forall k, getattr b k = getattr a k).
Proof. exact agentdef_wire_keeps_costs_l. Qed.

(* VariableWithCostDict (repaired code): keys = scalars with pairwise distinct JSON renderings *)
Theorem roundtrip_variable_with_cost_dict : forall nan name domain costs init,
  wf nan name = true -> wf nan domain = true -> wf nan init = true ->
  cost_keys_ok (map fst costs) = true -> forallb (fun kv => wf nan (snd kv)) costs = true ->
  wire nan (var_cost_dict name domain costs init) = Ok (var_cost_dict name domain costs init).
Proof. exact roundtrip_variable_with_cost_dict_l. Qed.

(* ordered-graph node (repaired code): the previous / next links survive *)
Theorem roundtrip_ordered_node : forall nan variable constraints name links,
  wf nan variable = true -> wf nan constraints = true -> wf nan name = true ->
  (forall l, In l links -> In (fst (fst l)) ORDER_TYPES) ->
  wire nan (ordered_node variable constraints name links) = Ok (ordered_node variable constraints name links).
Proof. exact roundtrip_ordered_node_l. Qed.

(* generic classes whose constructor converts an argument *)
Theorem roundtrip_constraint_link : forall nan m name nodes,
  wire nan (constraint_link m name nodes) = Ok (constraint_link m name nodes).
Proof. exact roundtrip_constraint_link_l. Qed.

Theorem roundtrip_domain : forall nan name dtype values,
  wf nan name = true -> wf nan dtype = true -> forallb (wf nan) values = true ->
  wire nan (domain_obj name dtype values) = Ok (domain_obj name dtype values).
Proof. exact roundtrip_domain_l. Qed.

(* ================= computation definitions of the four graph models ================= *)
Theorem roundtrip_computation_def_pseudotree : forall nan variable constraints links name algo,
  wf nan variable = true -> forallb (wf nan) constraints = true -> wf nan name = true ->
  (forall l, In l links -> In (fst (fst l)) PT_TYPES) -> wf nan algo = true ->
  let cd := comp_def (pt_node variable constraints links name) algo in wire nan cd = Ok cd.
Proof. exact roundtrip_computation_def_pseudotree_l. Qed.

Theorem roundtrip_computation_def_factor_graph : forall nan variable constraints_names factor name algo,
  wf nan variable = true -> wf nan factor = true -> wf nan name = true -> wf nan algo = true ->
  let cv := comp_def (fg_variable_node variable constraints_names name) algo in
  let cf := comp_def (fg_factor_node factor name) algo in
  wire nan cv = Ok cv /\ wire nan cf = Ok cf.
Proof. exact roundtrip_computation_def_factor_graph_l. Qed.

Theorem roundtrip_computation_def_hypergraph : forall nan variable constraints name algo,
  wf nan variable = true -> forallb (wf nan) constraints = true -> wf nan name = true -> wf nan algo = true ->
  let cd := comp_def (hg_node variable constraints name) algo in wire nan cd = Ok cd.
Proof. exact roundtrip_computation_def_hypergraph_l. Qed.

Theorem roundtrip_computation_def_ordered_graph : forall nan variable constraints name links algo,
  wf nan variable = true -> wf nan constraints = true -> wf nan name = true ->
  (forall l, In l links -> In (fst (fst l)) ORDER_TYPES) -> wf nan algo = true ->
  let cd := comp_def (ordered_node variable constraints name links) algo in wire nan cd = Ok cd.
Proof. exact roundtrip_computation_def_ordered_graph_l. Qed.

(* two keys with the same JSON rendering (0 and "0"): one entry is lost (last value wins) *)
Theorem colliding_keys_refuted :
  let v := PDict [(PInt 0, PTuple []); (PStr "0", PInt 7); (PStr "a", PInt 1)] in
  wf true v = false /\ wire true v = Ok (PDict [(PStr "0", PInt 7); (PStr "a", PInt 1)]).
Proof. exact colliding_keys_refuted_l. Qed.

(* non-vacuity of the deepened statements: a DPOP computation definition as deployed (variable with an
   int domain held in a tuple, a matrix constraint, pseudo-tree links, AlgorithmDef with params), a
   MaxSumMessage, an offering Mgm2OfferMessage, a VariableWithCostDict with int keys and an AgentDef
   with an extra attribute all meet their hypotheses *)
Example c15_deep_nonvacuous :
  let dom := domain_obj (PStr "d") (PStr "level") [PInt 0; PInt 1; PInt 2] in
  let v0 := variable_obj (PStr "v0") dom (PInt 1) in
  let v1 := variable_obj (PStr "v1") dom PNone in
  let c0 := PObj "pydcop.dcop.relations" "NAryMatrixRelation"
              [("variables", PList [v0; v1]);
               ("matrix", PList [PList [PFloat "0.5"; PInt 1; PInt 2]; PList [PInt 3; PInt 4; PInt 5];
                                 PList [PInt 6; PInt 7; PFloat "8.25"]]);
               ("name", PStr "c0")] in
  let algo := algo_def (PStr "dpop") (PDict []) (PStr "min") in
  let cd := comp_def (pt_node v0 [c0] [("children", "v0", "v1"); ("pseudo_children", "v0", "v2")] (PStr "v0")) algo in
  wf false cd = true /\ wire false cd = Ok cd
  /\ maxsum_ok false [(PInt 0, PFloat "1.5"); (PStr "R", PInt 3)] = true
  /\ mgm2_ok false [(PTuple [PInt 0; PStr "R"], PFloat "2.5")] (PBool true) = true
  /\ wf false (var_cost_dict (PStr "v2") dom [(PInt 0, PFloat "0.5"); (PInt 1, PInt 2)] PNone) = true
  /\ wf false (agent_obj (PStr "a1") (PInt 1) (PDict [(PStr "a2", PInt 5)]) (PInt 0) (PDict [])
                 [("capacity", PInt 100)]) = true.
Proof. vm_compute. repeat split; reflexivity. Qed.
