(* Prop_C15.v -- C15: everything sent between agents survives the wire and process spawn.
   Only statements; each closed by an exact lemma from P_Repr.
   [wire nan v] = from_repr (json.loads (json.dumps (simple_repr v, allow_nan=nan))), the trip of
   HttpCommunicationLayer.send_msg -> MPCHttpHandler.do_POST (nan = false with the installed requests).

   FULL STATEMENT (kept visible): for every value v that pyDCOP transmits -- scalars, lists, tuples,
   string-keyed dicts, namedtuples of scalars, message_type messages, objects of every SimpleRepr
   class (generic mixin or hand-written repr) nested to any depth -- wire false v = Ok v, and
   pickle_rt a = Ok a for every AgentDef a.
   PROVED: generic_roundtrip_partial (all of the above EXCEPT values containing tuples or namedtuples,
   whose decoding sorts the tuple-dict by integer index: missing lemmas are "int (str i) = i",
   "sorting an increasing list is the identity"; they are exercised by the correspondence run and by
   tuple_and_namedtuple_survive), the three link classes for ALL node names, AgentDef pickling for ALL
   field values.  MaxSumMessage / Mgm2OfferMessage / AlgorithmDef / ExpressionFunction / AgentDef /
   VariableWithCostDict / ordered-graph node reprs are in the model and tied to the code by the
   correspondence run; only concrete instances are theorems here.  That each pyDCOP class follows the
   mixin convention ([safe]'s KGeneric condition) is checked class by class by the enumeration run. *)
From PyDcop Require Import Base M_AgentDef M_Repr P_Repr.
Open Scope string_scope.

Theorem generic_roundtrip_partial : forall nan v, safe nan v = true -> wire nan v = Ok v.
Proof. exact generic_roundtrip_partial_l. Qed.

Theorem roundtrip_pseudotree_link : forall nan t s g,
  In t PT_TYPES -> wire nan (pt_link t s g) = Ok (pt_link t s g).
Proof. exact roundtrip_pseudotree_link_l. Qed.

Theorem roundtrip_order_link : forall nan t s g,
  In t ORDER_TYPES -> wire nan (order_link t s g) = Ok (order_link t s g).
Proof. exact roundtrip_order_link_l. Qed.

Theorem roundtrip_factor_graph_link : forall nan s g, wire nan (fg_link s g) = Ok (fg_link s g).
Proof. exact roundtrip_factor_graph_link_l. Qed.

Theorem agentdef_pickle_roundtrip : forall n dr r dh h at_,
  let o := PObj "pydcop.dcop.objects" "AgentDef"
             [("name", n); ("default_route", dr); ("routes", r); ("default_hosting_cost", dh);
              ("hosting_costs", h); ("*attr", at_)] in
  pickle_rt o = Ok o.
Proof. exact agentdef_pickle_any_l. Qed.

Theorem agentdef_pickle_keeps_costs : forall a b,
  pickle_rt (py_of_agent a) = Ok (py_of_agent b) ->
  (forall o, route b o = route a o) /\ (forall c, hosting_cost b c = hosting_cost a c)
  /\ (forall k, getattr b k = getattr a k).
Proof. exact agentdef_pickle_keeps_costs_l. Qed.

(* shapes that do not survive: the generic dict with non-string keys, sets, a tuple inside a
   namedtuple, the offers of a non-offering Mgm2OfferMessage, non-finite floats under the
   strict encoder of the installed requests *)
Theorem int_keyed_dict_refuted :
  exists v, wire false v = Ok (PDict [(PStr "1", PFloat "0.5")]) /\ v = PDict [(PInt 1, PFloat "0.5")].
Proof. exact int_keyed_dict_refuted_l. Qed.

Theorem set_refuted : wire false (PSet [PInt 1; PInt 2]) = Ok (PList [PInt 1; PInt 2]).
Proof. exact set_refuted_l. Qed.

Theorem namedtuple_nested_refuted :
  wire false (PNamed "harness.props.C15" "NTOne" [("v", PTuple [PInt 1])])
  = Ok (PNamed "harness.props.C15" "NTOne" [("v", PList [PInt 1])]).
Proof. exact namedtuple_nested_refuted_l. Qed.

Theorem mgm2_fake_offer_drops_offers_refuted :
  wire false (mgm2_offer [(PTuple [PInt 0; PInt 1], PInt 5)] false) = Ok (mgm2_offer [] false).
Proof. exact mgm2_fake_offer_drops_offers_refuted_l. Qed.

Theorem nonfinite_float_refuted : forall v, In v [PFloat "inf"; PFloat "-inf"; PFloat "nan"] ->
  wire false (PList [v]) = Err "ValueError" /\ wire true (PList [v]) = Ok (PList [v]).
Proof. exact nonfinite_float_refuted_l. Qed.

Theorem tuple_and_namedtuple_survive :
  let v := PList [PTuple [PInt 3; PTuple [PStr "a"; PNone]; PFloat "0.5"];
                  PNamed "harness.props.C15" "NTPair" [("x", PInt 1); ("y", PStr "b")]] in
  wire false v = Ok v.
Proof. exact tuple_and_namedtuple_survive_l. Qed.

Theorem maxsum_int_keys_survive :
  let m := maxsum_msg [(PInt 0, PFloat "1.5"); (PInt 1, PInt 3); (PStr "R", PFloat "0.0")] in
  wire false m = Ok m.
Proof. exact maxsum_int_keys_survive_l. Qed.

Theorem mgm2_offer_survives :
  let m := mgm2_offer [(PTuple [PInt 0; PStr "R"], PFloat "2.5"); (PTuple [PInt 1; PInt 1], PInt 4)] true in
  wire false m = Ok m.
Proof. exact mgm2_offer_survives_l. Qed.

(* non-vacuity: a nested message as the orchestrator sends it is wire-safe, and survives *)
Example c15_nonvacuous :
  let v := PMsg "value_change"
             [("agent", PStr "a1"); ("computation", PStr "v0"); ("value", PInt 2); ("cost", PFloat "12.5");
              ("cycle", PInt 3);
              ("metrics", PDict [(PStr "count_ext_msg", PDict [(PStr "v0", PInt 4)]);
                                 (PStr "obj", PObj "harness.props.C15" "GenA"
                                                [("a", PList [PInt 1; PNone]); ("b", PBool true)])])] in
  safe false v = true /\ wire false v = Ok v.
Proof. vm_compute. split; reflexivity. Qed.
