(* P_Base.v -- lemmas about the shared definitions of Base.v *)
From PyDcop Require Import Base.

Section Dict.
  Context {K V : Type} (keq : K -> K -> bool).
  Hypothesis keq_eq : forall a b, keq a b = true <-> a = b.

  Lemma In_dict_set kv k (v : V) l :
    In kv (dict_set keq k v l) -> kv = (k, v) \/ In kv l.
  Proof.
    induction l as [|[k' v'] r IH]; simpl.
    - intros [H|[]]; auto.
    - destruct (keq k k') eqn:E; simpl.
      + apply keq_eq in E; subst k'. intros [H|H]; auto.
      + intros [H|H]; auto. destruct (IH H); auto.
  Qed.

  Lemma In_dict_of_list_aux kv (l acc : list (K * V)) :
    In kv (fold_left (fun d kv => dict_set keq (fst kv) (snd kv) d) l acc) ->
    In kv l \/ In kv acc.
  Proof.
    revert acc; induction l as [|[k v] r IH]; simpl; intros acc H; auto.
    apply IH in H as [H|H]; auto.
    apply In_dict_set in H as [H|H]; auto.
  Qed.

  Lemma In_dict_of_list kv (l : list (K * V)) : In kv (dict_of_list keq l) -> In kv l.
  Proof. intros H; apply In_dict_of_list_aux in H as [H|[]]; auto. Qed.

  Lemma lookup_fold_keeps k (l acc : list (K * V)) :
    mem_key keq k acc = true ->
    mem_key keq k (fold_left (fun d kv => dict_set keq (fst kv) (snd kv) d) l acc) = true.
  Proof.
    revert acc; induction l as [|[k2 v2] r IH]; simpl; intros acc H; auto.
    apply IH. unfold mem_key in *.
    destruct (keq k k2) eqn:E.
    - apply keq_eq in E; subst. now rewrite lookup_dict_set_same.
    - rewrite lookup_dict_set_other; auto. intros ->.
      assert (keq k2 k2 = true) by now apply keq_eq. congruence.
  Qed.

  Lemma dict_of_list_covers k v (l : list (K * V)) :
    In (k, v) l -> mem_key keq k (dict_of_list keq l) = true.
  Proof.
    unfold dict_of_list. generalize (@nil (K * V)).
    induction l as [|[k2 v2] r IH]; simpl; intros acc H; [contradiction|].
    destruct H as [H|H].
    - inversion H; subst. apply lookup_fold_keeps. unfold mem_key.
      now rewrite lookup_dict_set_same.
    - now apply IH.
  Qed.

  Lemma lookup_In k (v : V) l : lookup keq k l = Some v -> In (k, v) l.
  Proof.
    induction l as [|[k' v'] r IH]; simpl; [discriminate|].
    destruct (keq k k') eqn:E.
    - apply keq_eq in E; subst. intros H; inversion H; auto.
    - auto.
  Qed.
End Dict.

Lemma string_eqb_iff a b : String.eqb a b = true <-> a = b.
Proof. apply String.eqb_eq. Qed.
Lemma Z_eqb_iff a b : Z.eqb a b = true <-> a = b.
Proof. apply Z.eqb_eq. Qed.
