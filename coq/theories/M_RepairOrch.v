(* M_RepairOrch.v -- executable model of the repair bookkeeping (C27):
     orchestrator.py  AgentsMgt._orchestrator_run_computations (state part),
                      _orchestrator_start_replication, _on_computation_replicated_msg,
                      _orchestrator_scenario_event + _agents_removal, _on_repair_ready,
                      _on_repair_done  (dicts _agts_state, _comps_state, counter dist_count,
                      the management messages sent and the status handed to _dump_repair_metrics)
     agents.py        ResilientAgent._on_repair_computation_finished (which candidates an agent
                      activates and reports), removal.py _removal_candidate_computations_for_agt
   What the handlers read from Discovery (registered agents, orphaned computations, candidate
   agents) is an explicit input of the event; the outcome of the repair DCOP (MGM2 on binary
   variables) is an explicit input too (the values).  Models only; proofs in P_RepairOrch.v. *)
From PyDcop Require Import Base.

Inductive astate := SRunning | SReplicating | SReady | SRepairSetup | SRepairReady | SRepairRun
                  | SRepairDone.
Definition astate_eqb (x y : astate) : bool :=
  match x, y with
  | SRunning, SRunning | SReplicating, SReplicating | SReady, SReady | SRepairSetup, SRepairSetup
  | SRepairReady, SRepairReady | SRepairRun, SRepairRun | SRepairDone, SRepairDone => true
  | _, _ => false
  end.

Record rst := mkR {
  r_agts : list (string * astate);            (* _agts_state *)
  r_comps : list (string * option string);    (* _comps_state: None = orphaned, Some a = re-hosted on a *)
  r_dist_count : Z
}.
Definition rinit : rst := mkR [] [] 0.

Inductive rev :=
| RvRun (agents : list string)            (* _orchestrator_run_computations; discovery.agents() *)
| RvReplicate (agents : list string)      (* _orchestrator_start_replication *)
| RvReplicated (a : string)               (* 'replicated' from agent a *)
| RvRemoval (leaving agents orphaned candidates : list string)
     (* scenario event removing [leaving]; agents = discovery.agents(); orphaned =
        _removal_orphaned_computations; candidates = _removal_candidate_agents (a set: the order
        in which the code happens to iterate it is part of the input) *)
| RvRepairReady (a : string)
| RvRepairDone (a : string) (selected : list string) (agents : list string).

Inductive rout :=
| RORun (a : string) | ROReplication (a : string)
| ROPause (a : string) | ROAgentRemoved (a : string) | ROSetupRepair (a : string)
| RORepairRun (a : string) | ROResume (a : string)
| ROStatus (ok : bool).                    (* _dump_repair_metrics("OK" | "KO", ...) *)

Definition set_all (s : astate) (ags : list string) (st : list (string * astate)) :=
  fold_left (fun d a => dict_set String.eqb a s d) ags st.
Definition with_state (s : astate) (st : list (string * astate)) : list string :=
  map fst (filter (fun kv => astate_eqb (snd kv) s) st).
Definition retag (from to : astate) (st : list (string * astate)) : list (string * astate) :=
  map (fun kv => if astate_eqb (snd kv) from then (fst kv, to) else kv) st.

(* end of a repair: status, resume everybody (unless repair_only), next distribution number *)
Definition finish_repair (resume : bool) (agts : list (string * astate))
  (comps : list (string * option string)) (dc : Z) (agents : list string) : rst * list rout :=
  let lost := filter (fun kv => match snd kv with None => true | Some _ => false end) comps in
  (mkR (if resume then set_all SRunning agents agts else agts) comps (dc + 1),
   ROStatus (match lost with [] => true | _ => false end)
   :: (if resume then map ROResume agents else [])).

Definition rstep (repair_only : bool) (st : rst) (e : rev) : rst * list rout :=
  match e with
  | RvRun agents =>
      (mkR (set_all SRunning agents (r_agts st)) (r_comps st) (r_dist_count st),
       if repair_only then [] else map RORun agents)
  | RvReplicate agents =>
      (mkR (set_all SReplicating agents (r_agts st)) (r_comps st) (r_dist_count st),
       map ROReplication agents)
  | RvReplicated a =>
      match slookup a (r_agts st) with
      | Some SReplicating =>
          (mkR (dict_set String.eqb a SReady (r_agts st)) (r_comps st) (r_dist_count st), [])
      | _ => (st, [])
      end
  | RvRemoval leaving agents orphaned candidates =>
      let pre := (if repair_only then [] else map ROPause agents) ++ map ROAgentRemoved leaving in
      match orphaned with
      | [] => (mkR (if repair_only then r_agts st else set_all SRunning agents (r_agts st))
                   (r_comps st) (r_dist_count st + 1),
               pre ++ ROStatus true :: (if repair_only then [] else map ROResume agents))
      | _ => (mkR (set_all SRepairSetup candidates (r_agts st))
                  (fold_left (fun d c => dict_set String.eqb c None d) orphaned (r_comps st))
                  (r_dist_count st),
              pre ++ map ROSetupRepair candidates)
      end
  | RvRepairReady a =>
      match slookup a (r_agts st) with
      | Some SRepairSetup =>
          let agts := dict_set String.eqb a SRepairReady (r_agts st) in
          match with_state SRepairSetup agts with
          | [] => let ready := with_state SRepairReady agts in
                  (mkR (set_all SRepairRun ready agts) (r_comps st) (r_dist_count st),
                   map RORepairRun ready)
          | _ => (mkR agts (r_comps st) (r_dist_count st), [])
          end
      | _ => (st, [])
      end
  | RvRepairDone a selected agents =>
      match slookup a (r_agts st) with
      | Some SRepairRun =>
          let agts := dict_set String.eqb a SRepairDone (r_agts st) in
          let comps := fold_left (fun d c => dict_set String.eqb c (Some a) d) selected (r_comps st) in
          match with_state SRepairRun agts with
          | [] => finish_repair (negb repair_only) (retag SRepairDone SRunning agts) comps
                                (r_dist_count st) agents
          | _ => (mkR agts comps (r_dist_count st), [])
          end
      | _ => (st, [])
      end
  end.

Definition rrun (ro : bool) (st : rst) (tr : list rev) : rst :=
  fold_left (fun s e => fst (rstep ro s e)) tr st.

(* ---------- agent side ---------- *)
(* _removal_candidate_computations_for_agt: the orphaned computations whose replica a holds *)
Definition replica_agents (replicas : list (string * list string)) (c : string) : list string :=
  match slookup c replicas with Some l => l | None => [] end.
Definition setup_candidates (replicas : list (string * list string)) (orphaned : list string)
  (a : string) : list string :=
  filter (fun o => smem a (replica_agents replicas o)) orphaned.
(* ResilientAgent._on_repair_computation_finished: candidates whose binary variable ended at 1
   are deployed from the replica and reported in repair_done *)
Definition agent_selected (values : list (string * Z)) : list string :=
  map fst (filter (fun cv => Z.eqb (snd cv) 1) values).

(* hosting after the repair: survivors keep their computations, every selecting agent adds
   the computations it selected *)
Definition hosts_after (hosting : list (string * string)) (leaving : list string)
  (selections : list (string * list string)) (c : string) : list string :=
  map snd (filter (fun ca => String.eqb (fst ca) c && negb (smem (snd ca) leaving)) hosting)
  ++ map fst (filter (fun asel => smem c (snd asel)) selections).

(* ---------- correspondence ---------- *)
Definition rout_eqb (x y : rout) : bool :=
  match x, y with
  | RORun a, RORun b | ROReplication a, ROReplication b | ROPause a, ROPause b
  | ROAgentRemoved a, ROAgentRemoved b | ROSetupRepair a, ROSetupRepair b
  | RORepairRun a, RORepairRun b | ROResume a, ROResume b => String.eqb a b
  | ROStatus a, ROStatus b => Bool.eqb a b
  | _, _ => false
  end.

Record case := mkCase {
  c_repair_only : bool;
  c_init : list (string * astate);                 (* _agts_state before the first event *)
  c_trace : list (rev * list rout);                (* event, what the real handler sent / dumped *)
  c_agts : list (string * astate);                 (* final _agts_state.items() *)
  c_comps : list (string * option string);         (* final _comps_state.items() *)
  c_dist_count : Z
}.

Fixpoint check_rtrace (ro : bool) (st : rst) (tr : list (rev * list rout)) : option rst :=
  match tr with
  | [] => Some st
  | (e, outs) :: r =>
      let '(st1, o) := rstep ro st e in
      if list_eqb rout_eqb o outs then check_rtrace ro st1 r else None
  end.

Definition check_case (k : case) : bool :=
  match check_rtrace (c_repair_only k) (mkR (c_init k) [] 0) (c_trace k) with
  | None => false
  | Some st =>
      list_eqb (pair_eqb String.eqb astate_eqb) (r_agts st) (c_agts k)
      && list_eqb (pair_eqb String.eqb (option_eqb String.eqb)) (r_comps st) (c_comps k)
      && Z.eqb (r_dist_count st) (c_dist_count k)
  end.
