(* P_DpopBuilt4.v -- C01 x C17: the end-to-end theorem WITHOUT the hypothesis "no constraint has an
   empty scope".  A zero-ary constraint (a constant) is attached to no node by the pseudo-tree
   builder and therefore ignored by DPOP; the cost of the DCOP then differs from the cost DPOP
   optimises by a constant, which does not change which assignments are optimal.
     [ownership_partition0_l] : the filter of DpopAlgo.__init__ keeps every constraint with a
                                non-empty scope at exactly one node, and no other constraint;
     [cost_offset]            : dcop_cost = total_cost + const_cost;
     [dpop_on_built_tree0_l]  : DPOP on the built tree is correct on every schedule for every DCOP
                                with a well-formed constraint graph and non-empty domains. *)
From PyDcop Require Import Base Net M_Dpop P_Dpop M_DpopValid P_Dpop2Net P_Dpop2Tree P_Dpop2Aux P_Dpop2
  P_Dpop2Valid M_PseudoTree M_PseudoTree2 P_PseudoTree P_PseudoTree2 P_PseudoTree3 P_PseudoTree4
  M_DpopBuilt P_DpopBuilt.
From Coq Require Import ZifyBool Permutation.
Local Open Scope list_scope.

(* ---- the all-schedules theorem when the cost DPOP optimises is the dcop's cost up to a constant *)
Theorem all_schedules_offset P K :
  dpop_valid P -> (forall a, dcop_cost P a = total_cost P a + K) -> dpop_correct P.
Proof.
  intros Hv HK sched r.
  split; [apply no_raise_all_schedules; exact Hv|].
  intros Hc. split; [apply (complete_all_finished P sched Hv Hc)|].
  destruct (optimal_at_completion P sched Hv Hc) as [Hdom Hopt]. fold r in Hdom, Hopt.
  cbv zeta. split; [exact Hdom|].
  assert (Hopt' : forall a, in_dom (dsize P) a (tree_ids P) ->
            mle (dc_mode P) (dcop_cost P (assignment P (fst r))) (dcop_cost P a)).
  { intros a Ha. rewrite !HK. specialize (Hopt a Ha). destruct (dc_mode P); simpl in *; lia. }
  split; [exact Hopt'|]. split.
  - destruct Hv as (dep & B & V).
    destruct (ext_complete P (tree_ids P) [] (assignment P (fst r)) Hdom) as (e & He & Hag).
    apply in_map_iff. exists e. split; [|exact He].
    rewrite !HK. f_equal. unfold total_cost. apply cost_in_dep.
    intros d Hd. apply Hag. apply in_sv in Hd. destruct Hd as (y & Hy & Hd). eapply (sv_in P dep B V); eauto.
  - intros c Hc'. apply in_map_iff in Hc'. destruct Hc' as (e & <- & He). apply Hopt'.
    intros d Hd. eapply ext_in_dom; eauto.
Qed.

(* ---- the constant ---- *)
Definition zeroary (r : rel) : bool := match r_dims r with [] => true | _ => false end.
Definition const_cost (P : dcop) : Z :=
  zsum (map (fun kr => eval (snd kr) []) (filter (fun kr => zeroary (snd kr)) (dc_cons P))).
Definition nz_ids (P : dcop) : list Z :=
  map fst (filter (fun kr => negb (zeroary (snd kr))) (dc_cons P)).

Lemma zsum_filter_split {A} (f : A -> Z) (p : A -> bool) l :
  zsum (map f l) = zsum (map f (filter (fun x => negb (p x)) l)) + zsum (map f (filter p l)).
Proof. induction l as [|x r IH]; simpl; auto. destruct (p x); simpl; lia. Qed.

Lemma NoDup_map_filter {A} (p : Z * A -> bool) l : NoDup (map fst l) -> NoDup (map fst (filter p l)).
Proof.
  induction l as [|x r IH]; simpl; intros H; auto. inversion H; subst.
  destruct (p x); simpl; auto. constructor; auto.
  intros Hin. apply H2. apply in_map_iff in Hin. destruct Hin as (y & E & Hy).
  apply filter_In in Hy. apply in_map_iff. exists y. tauto.
Qed.

Lemma cost_offset P a : Permutation (all_owned P) (nz_ids P) -> NoDup (cons_ids P) ->
  dcop_cost P a = total_cost P a + const_cost P.
Proof.
  intros Hperm Hnd. unfold total_cost, cost_in, dcop_cost, local, vc, own_cost, const_cost.
  rewrite zsum_map_add. rewrite <- Z.add_assoc. f_equal.
  rewrite (zsum_flat_map (fun k => eval (con P k) a) (owned P) (tree_ids P)).
  fold (all_owned P). rewrite (zsum_perm _ _ (Permutation_map _ Hperm)).
  rewrite (zsum_filter_split (fun kr => eval (snd kr) a) (fun kr => zeroary (snd kr)) (dc_cons P)).
  f_equal.
  - unfold nz_ids. rewrite map_map. f_equal. apply map_ext_in. intros [k r] Hin. simpl.
    apply filter_In in Hin. destruct Hin as [Hin _].
    unfold con. rewrite (zlookup_nodup _ k r Hnd Hin). reflexivity.
  - f_equal. apply map_ext_in. intros [k r] Hin. simpl. apply filter_In in Hin. destruct Hin as [_ Hz].
    unfold zeroary in Hz. simpl in Hz. unfold eval. destruct (r_dims r); [reflexivity|discriminate].
Qed.

Lemma in_number_from {A} (l : list A) : forall i k x,
  In (k, x) (number_from i l) <-> i <= k /\ nth_error l (Z.to_nat (k - i)) = Some x.
Proof.
  induction l as [|y r IH]; intros i k x; simpl.
  - split; [tauto|]. intros [_ H]. destruct (Z.to_nat (k - i)); discriminate.
  - rewrite IH. split.
    + intros [E|[H1 H2]].
      * inversion E; subst. rewrite Z.sub_diag. simpl. split; [lia|reflexivity].
      * split; [lia|]. replace (Z.to_nat (k - i)) with (S (Z.to_nat (k - (i + 1)))) by lia. exact H2.
    + intros [H1 H2]. destruct (Z.eq_dec k i) as [->|Hne].
      * rewrite Z.sub_diag in H2. simpl in H2. inversion H2. left; reflexivity.
      * right. split; [lia|]. replace (Z.to_nat (k - i)) with (S (Z.to_nat (k - (i + 1)))) in H2 by lia. exact H2.
Qed.

(* ---- the partition, zero-ary constraints allowed ---- *)
Section Built0.
  Variable R : rdcop.
  Variable t : tree.
  Let g := graph_of R.
  Let P := dpop_of_built R t.
  Hypothesis V : PT_valid g t.
  Hypothesis Hscv : forall sc, In sc (g_rels g) -> incl sc (g_vars g).

  Lemma nz_scope k : In k (nz_ids P) <-> exists sc, scope_of g k = Some sc /\ sc <> [].
  Proof.
    unfold nz_ids. rewrite in_map_iff. split.
    - intros ([k' r] & E & Hin). simpl in E. subst k'. apply filter_In in Hin. destruct Hin as [Hin Hz].
      simpl in Hz. unfold P, dpop_of_built in Hin. simpl in Hin. apply in_number_from in Hin.
      destruct Hin as [H0 Hn]. rewrite Z.sub_0_r in Hn. exists (r_dims r). split.
      + unfold scope_of. destruct (k <? 0) eqn:L; [lia|]. unfold g, graph_of. simpl.
        apply map_nth_error. exact Hn.
      + unfold zeroary in Hz. destruct (r_dims r); [discriminate|discriminate].
    - intros (sc & Hsc & Hne). unfold scope_of in Hsc. destruct (k <? 0) eqn:L; [discriminate|].
      unfold g, graph_of in Hsc. simpl in Hsc. apply nth_error_map_inv in Hsc. destruct Hsc as (r & Hn & Hr).
      exists (k, r). split; auto. apply filter_In. split.
      + unfold P, dpop_of_built. simpl. apply in_number_from. rewrite Z.sub_0_r. split; [lia|exact Hn].
      + simpl. unfold zeroary. rewrite Hr. destruct sc; [congruence|reflexivity].
  Qed.

  Theorem ownership_partition0_l : Permutation (all_owned P) (nz_ids P) /\ NoDup (cons_ids P).
  Proof.
    assert (Hnd : NoDup (cons_ids P)) by (unfold P; rewrite b_cons_ids; apply NoDup_number_from).
    split; auto. apply NoDup_Permutation.
    - unfold all_owned. apply NoDup_flat_map.
      + unfold P; rewrite b_ids. apply (ptv_nodup g t V).
      + intros x _. apply (owned_nodup R t V).
      + intros x y k _ _ Hxy Hx Hy. apply Hxy. eapply (owned_unique R t V Hscv); eauto.
    - apply NoDup_map_filter. exact Hnd.
    - intros k. unfold all_owned. rewrite in_flat_map, nz_scope. split.
      + intros (x & _ & Hk). apply (ownership_lowest_l R t V Hscv) in Hk.
        destruct Hk as (sc & Hsc & Hx & _). exists sc. split; auto. intros ->. destruct Hx.
      + intros (sc & Hsc & Hne).
        destruct (scope_in R t k sc Hsc) as [Hin _].
        destruct (pt_valid_scope_chain_l g t V sc Hin Hne) as (a & Ha & Hlow).
        exists a. split.
        * unfold P; rewrite b_ids. apply (ptv_nodes g t V). apply (Hscv sc Hin). exact Ha.
        * apply (ownership_lowest_l R t V Hscv). exists sc. auto.
  Qed.
End Built0.

(* ---- end to end ---- *)
Definition wf_rdcop0 (R : rdcop) : Prop :=
  wf_graph (graph_of R) /\ (forall x, In x (rd_vars R) -> (0 < rd_size R x)%nat).

Theorem built_correct0_l R : wf_rdcop0 R ->
  forall roots t, M_PseudoTree.build (graph_of R) = Some (roots, t) ->
  dpop_valid (dpop_of_built R t) /\
  (forall a, dcop_cost (dpop_of_built R t) a
             = total_cost (dpop_of_built R t) a + const_cost (dpop_of_built R t)) /\
  dpop_correct (dpop_of_built R t).
Proof.
  intros (Wg & Wd) roots t HB.
  pose proof (build_PT_valid_l _ roots t Wg HB) as V.
  assert (Hscv : forall sc, In sc (g_rels (graph_of R)) -> incl sc (g_vars (graph_of R))).
  { destruct Wg as (_ & Wg). intros sc H. apply (Wg sc H). }
  assert (Hv : dpop_valid (dpop_of_built R t)).
  { apply (built_dvalid_l R t V); auto.
    intros a p H. apply (build_parent_shares_constraint_l _ roots t HB a p H). }
  destruct (ownership_partition0_l R t V Hscv) as [Hp Hn].
  assert (HK : forall a, dcop_cost (dpop_of_built R t) a
             = total_cost (dpop_of_built R t) a + const_cost (dpop_of_built R t))
    by (intros a; apply cost_offset; auto).
  split; auto. split; auto. eapply all_schedules_offset; eauto.
Qed.

Theorem dpop_on_built_tree0_l R : wf_rdcop0 R ->
  exists P, dpop_of R = Some P /\
            (forall x, In x (tree_ids P) <-> In x (rd_vars R)) /\ NoDup (tree_ids P) /\
            dpop_correct P.
Proof.
  intros W. pose proof W as (Wg & _).
  destruct (build_valid_l (graph_of R) Wg) as (roots & t & HB & V).
  exists (dpop_of_built R t). unfold dpop_of. rewrite HB. split; auto.
  rewrite b_ids. split; [apply (ptv_nodes _ _ V)|]. split; [apply (ptv_nodup _ _ V)|].
  apply (built_correct0_l R W roots t HB).
Qed.
