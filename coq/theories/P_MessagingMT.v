(* P_MessagingMT.v -- proofs about M_MessagingMT (C18, thread interleavings) *)
From PyDcop Require Import Base M_MessagingMT.
From Coq Require Import Permutation Sorted.

(* ---------- lists ---------- *)
Lemma nth_error_upd_same {A} (x y : A) : forall l i,
  nth_error l i = Some y -> nth_error (upd i x l) i = Some x.
Proof. induction l as [|a l IH]; intros [|i] H; simpl in *; try discriminate; auto. Qed.

Lemma nth_error_upd_other {A} (x : A) : forall l i j,
  i <> j -> nth_error (upd i x l) j = nth_error l j.
Proof.
  induction l as [|a l IH]; intros [|i] [|j] H; simpl; auto; try congruence.
Qed.

Lemma nth_upd_inv {A} (x y : A) l i j :
  nth_error (upd i x l) j = Some y -> (j = i /\ y = x) \/ (j <> i /\ nth_error l j = Some y).
Proof.
  intros H. destruct (Nat.eq_dec j i) as [->|N].
  - left. split; auto. revert i H. induction l as [|a l IH]; intros [|i] H; simpl in *;
      try discriminate; try congruence. eauto.
  - right. split; auto. rewrite nth_error_upd_other in H; auto.
Qed.

Lemma length_upd {A} (x : A) : forall l i, List.length (upd i x l) = List.length l.
Proof. induction l as [|a l IH]; intros [|i]; simpl; auto. Qed.

Lemma map_upd {A B} (f : A -> B) x : forall l i, map f (upd i x l) = upd i (f x) (map f l).
Proof. induction l as [|a l IH]; intros [|i]; simpl; auto. now rewrite IH. Qed.

Lemma upd_nth_same {A} (x : A) : forall l i, nth_error l i = Some x -> upd i x l = l.
Proof.
  induction l as [|a l IH]; intros [|i] H; simpl in *; try discriminate; auto.
  - congruence.
  - now rewrite IH.
Qed.

Lemma SS_snoc {A} (R : A -> A -> Prop) l x :
  StronglySorted R l -> Forall (fun y => R y x) l -> StronglySorted R (l ++ [x]).
Proof.
  induction 1 as [|y r Hs IH Hy]; intros F; simpl.
  - constructor; constructor.
  - inversion F; subst. constructor; auto.
    apply Forall_app; split; auto.
Qed.

Lemma SS_app_l {A} (R : A -> A -> Prop) a b : StronglySorted R (a ++ b) -> StronglySorted R a.
Proof.
  induction a as [|x a IH]; intros H; simpl in *; [constructor|].
  inversion H; subst. constructor; auto. apply Forall_app in H3. tauto.
Qed.

Lemma SS_filter {A} (R : A -> A -> Prop) f l : StronglySorted R l -> StronglySorted R (filter f l).
Proof.
  induction 1 as [|x r Hs IH Hx]; simpl; [constructor|].
  destruct (f x); auto. constructor; auto.
  rewrite Forall_forall in *. intros y Hy. apply filter_In in Hy. apply Hx. tauto.
Qed.

Lemma SS_impl_In {A} (R R' : A -> A -> Prop) l :
  StronglySorted R l -> (forall a b, In a l -> In b l -> R a b -> R' a b) -> StronglySorted R' l.
Proof.
  induction 1 as [|x r Hs IH Hx]; intros H; [constructor|].
  constructor.
  - apply IH. intros a b Ha Hb. apply H; now right.
  - rewrite Forall_forall in *. intros y Hy. apply H; [now left|now right|auto].
Qed.

Lemma SS_map {A B} (f : A -> B) (R : B -> B -> Prop) l :
  StronglySorted (fun a b => R (f a) (f b)) l -> StronglySorted R (map f l).
Proof.
  induction 1 as [|x r Hs IH Hx]; simpl; constructor; auto.
  rewrite Forall_forall in *. intros y Hy. apply in_map_iff in Hy as [z [<- Hz]]. auto.
Qed.

Lemma filter_andb {A} (f g : A -> bool) l :
  filter (fun x => f x && g x) l = filter f (filter g l).
Proof.
  induction l as [|x l IH]; simpl; auto.
  destruct (g x); simpl; rewrite ?andb_true_r, ?andb_false_r; [destruct (f x)|]; now rewrite IH.
Qed.

(* ---------- the queue is sorted by (type, counter, time) ---------- *)
Definition kle (a b : ent) : Prop := key_leb a b = true.

Ltac kb := unfold kle, key_leb in *;
  rewrite ?orb_true_iff, ?orb_false_iff, ?andb_true_iff, ?andb_false_iff,
          ?Z.ltb_lt, ?Z.ltb_ge, ?Z.eqb_eq, ?Z.eqb_neq, ?Z.leb_le, ?Z.leb_gt in *.

Lemma kle_refl a : kle a a.
Proof. kb. lia. Qed.
Lemma kle_trans a b c : kle a b -> kle b c -> kle a c.
Proof. kb. lia. Qed.
Lemma kle_total a b : key_leb a b = false -> kle b a.
Proof. kb. lia. Qed.
Lemma kle_type a b : kle a b -> e_type a <= e_type b.
Proof. kb. lia. Qed.

Lemma Forall_qinsert (P : ent -> Prop) x l : Forall P l -> P x -> Forall P (qinsert x l).
Proof.
  induction 1 as [|y r Hy Hr IH]; intros Hx; simpl; auto.
  destruct (key_leb y x); auto.
Qed.

Lemma qinsert_sorted x l : StronglySorted kle l -> StronglySorted kle (qinsert x l).
Proof.
  induction 1 as [|y r Hs IH Hy]; simpl.
  - constructor; constructor.
  - destruct (key_leb y x) eqn:E.
    + constructor; auto. apply Forall_qinsert; auto.
    + apply kle_total in E. constructor; [constructor; auto|].
      constructor; auto. eapply Forall_impl; [|exact Hy]. intros z Hz. eapply kle_trans; eauto.
Qed.

Lemma qinsert_perm x l : Permutation (qinsert x l) (x :: l).
Proof.
  induction l as [|y r IH]; simpl; auto.
  destruct (key_leb y x); auto.
  eapply perm_trans; [apply perm_skip, IH|]. apply perm_swap.
Qed.

Lemma filter_qinsert_other (f : ent -> bool) x q :
  f x = false -> filter f (qinsert x q) = filter f q.
Proof.
  intros Hx. induction q as [|y r IH]; simpl.
  - now rewrite Hx.
  - destruct (key_leb y x); simpl; [now rewrite IH|]. now rewrite Hx.
Qed.

(* an entry that is above every queued entry of its class goes to the end of the class *)
Lemma filter_qinsert_last (f : ent -> bool) x q :
  StronglySorted kle q -> f x = true ->
  (forall y, In y q -> f y = true -> key_leb x y = false) ->
  filter f (qinsert x q) = filter f q ++ [x].
Proof.
  intros Hs Hx. induction Hs as [|y r Hs IH Hy]; intros H; simpl.
  - now rewrite Hx.
  - destruct (key_leb y x) eqn:E; simpl.
    + rewrite IH; [|intros z Hz; apply H; now right]. now destruct (f y).
    + rewrite Hx. apply kle_total in E.
      assert (Z0 : forall z, In z (y :: r) -> f z = false).
      { intros z Hz. destruct (f z) eqn:Fz; auto. exfalso.
        assert (Kxz : kle x z).
        { destruct Hz as [<-|Hz]; auto. rewrite Forall_forall in Hy.
          eapply kle_trans; [exact E|]. now apply Hy. }
        specialize (H z Hz Fz). unfold kle in Kxz. congruence. }
      rewrite (Z0 y (or_introl eq_refl)).
      assert (Hr : filter f r = []).
      { clear -Z0. induction r as [|z r IH]; simpl; auto.
        rewrite (Z0 z); [|right; now left]. apply IH. intros w [<-|Hw]; apply Z0; [now left|right; now right]. }
      now rewrite Hr.
Qed.

(* ---------- run ---------- *)
Lemma run_snoc c st sched ch : run c st (sched ++ [ch]) = step c (run c st sched) ch.
Proof. unfold run. now rewrite fold_left_app. Qed.

Lemma run_app c st s1 s2 : run c st (s1 ++ s2) = run c (run c st s1) s2.
Proof. unfold run. now rewrite fold_left_app. Qed.

(* ---------- what one step does to the message bookkeeping ---------- *)
Definition pv (t : pth) : list post * nat := (t_prog t, t_seq t).

Definition same_book (st st' : gst) : Prop :=
  map pv (g_thr st') = map pv (g_thr st) /\ g_puts st' = g_puts st /\
  g_handled st' = g_handled st /\ g_queue st' = g_queue st /\ g_dropped st' = g_dropped st.

Inductive step_kind (st st' : gst) : Prop :=
| SK_same : same_book st st' -> (g_shut st = true -> g_shut st' = true) -> step_kind st st'
| SK_drop i p r k :
    nth_error (map pv (g_thr st)) i = Some (p :: r, k) -> g_shut st = true -> g_shut st' = true ->
    map pv (g_thr st') = upd i (r, S k) (map pv (g_thr st)) ->
    g_dropped st' = g_dropped st ++ [(i, k)] ->
    g_puts st' = g_puts st -> g_handled st' = g_handled st -> g_queue st' = g_queue st ->
    step_kind st st'
| SK_put i t p r :
    nth_error (g_thr st) i = Some t -> t_pc t = PPut -> t_prog t = p :: r ->
    map pv (g_thr st') = upd i (r, S (t_seq t)) (map pv (g_thr st)) ->
    g_puts st' = g_puts st ++ [entry_of i t p] ->
    g_queue st' = qinsert (entry_of i t p) (g_queue st) ->
    g_handled st' = g_handled st -> g_dropped st' = g_dropped st -> g_shut st' = g_shut st ->
    step_kind st st'
| SK_pop e r :
    g_queue st = e :: r -> g_queue st' = r -> g_handled st' = g_handled st ++ [e] ->
    map pv (g_thr st') = map pv (g_thr st) -> g_puts st' = g_puts st ->
    g_dropped st' = g_dropped st -> g_shut st' = g_shut st ->
    step_kind st st'.

Lemma same_book_refl st : same_book st st.
Proof. repeat split. Qed.

Lemma pv_upd_same st i t t' :
  nth_error (g_thr st) i = Some t -> pv t' = pv t ->
  map pv (upd i t' (g_thr st)) = map pv (g_thr st).
Proof.
  intros H E. rewrite map_upd, E. apply upd_nth_same. now rewrite nth_error_map, H.
Qed.

Lemma step_kind_of c st ch : step_kind st (step c st ch).
Proof.
  destruct ch as [| | |i]; simpl.
  - apply SK_same; [repeat split|auto].
  - unfold agent_step. destruct (g_adone st); [apply SK_same; [apply same_book_refl|auto]|].
    destruct (c_flagfirst c), (g_astage st); simpl;
      try (apply SK_same; [repeat split|auto]; fail);
      destruct (g_queue st) as [|e r] eqn:Q;
      try (apply SK_same; [repeat split; simpl; auto|auto]; fail);
      try (eapply SK_pop; simpl; eauto; fail).
  - unfold ctl_step. destruct (g_ctl st) as [|[|] r]; apply SK_same; try apply same_book_refl;
      try (repeat split); auto.
  - destruct (nth_error (g_thr st) i) as [t|] eqn:T; [|apply SK_same; [apply same_book_refl|auto]].
    unfold poster_step. destruct (t_pc t) eqn:PC.
    + destruct (t_prog t) as [|p r] eqn:PR; [apply SK_same; [apply same_book_refl|auto]|].
      destruct (g_shut st) eqn:SH.
      * eapply SK_drop with (i := i) (p := p) (r := r) (k := t_seq t); simpl; auto.
        -- rewrite nth_error_map, T. unfold pv. simpl. now rewrite PR.
        -- rewrite map_upd. unfold pv at 1. simpl. now rewrite PR.
      * apply SK_same; [|congruence]. repeat split; simpl; auto. eapply pv_upd_same; eauto.
    + apply SK_same; auto. repeat split; simpl; auto. eapply pv_upd_same; eauto.
    + destruct (g_lock st); [apply SK_same; [apply same_book_refl|auto]|].
      apply SK_same; auto. repeat split; simpl; auto. eapply pv_upd_same; eauto.
    + apply SK_same; auto. repeat split; simpl; auto. eapply pv_upd_same; eauto.
    + apply SK_same; auto. repeat split; simpl; auto. eapply pv_upd_same; eauto.
    + apply SK_same; auto. repeat split; simpl; auto. eapply pv_upd_same; eauto.
    + destruct (t_prog t) as [|p r] eqn:PR; [apply SK_same; [apply same_book_refl|auto]|].
      eapply SK_put with (i := i) (t := t) (p := p) (r := r); simpl; auto.
      rewrite map_upd. unfold pv at 1. simpl. now rewrite PR.
    + apply SK_same; auto. repeat split; simpl; auto. eapply pv_upd_same; eauto.
Qed.

(* ---------- bookkeeping invariant (every configuration, every interleaving) ---------- *)
Lemma skipn_S_tl {A} (p : A) r : forall k l, skipn k l = p :: r -> skipn (S k) l = r.
Proof.
  induction k as [|k IH]; intros [|a l] H; simpl in *; try discriminate.
  - now inversion H.
  - now apply IH.
Qed.

Lemma skipn_head_nth {A} (p : A) r : forall k l, skipn k l = p :: r -> nth_error l k = Some p.
Proof.
  induction k as [|k IH]; intros [|a l] H; simpl in *; try discriminate.
  - now inversion H.
  - now apply IH.
Qed.

Lemma NoDup_snoc {A} (x : A) l : NoDup l -> ~ In x l -> NoDup (l ++ [x]).
Proof.
  intros H N. apply (Permutation_NoDup (l := x :: l)).
  - apply Permutation_cons_append.
  - now constructor.
Qed.

Section Book.
Variable progs : list (list post).

Definition view (st : gst) := map pv (g_thr st).

Record Inv (st : gst) : Prop := mkInv {
  inv_len : List.length (view st) = List.length progs;
  inv_prog : forall i pr k, nth_error (view st) i = Some (pr, k) -> pr = skipn k (nth i progs []);
  inv_putseq : forall e, In e (g_puts st) ->
      exists pr k, nth_error (view st) (e_tid e) = Some (pr, k) /\ (e_seq e < k)%nat;
  inv_dropseq : forall i n, In (i, n) (g_dropped st) ->
      exists pr k, nth_error (view st) i = Some (pr, k) /\ (n < k)%nat;
  inv_nodup : NoDup (map ident (g_puts st) ++ g_dropped st);
  inv_all : forall i pr k n, nth_error (view st) i = Some (pr, k) -> (n < k)%nat ->
      In (i, n) (map ident (g_puts st) ++ g_dropped st);
  inv_perm : Permutation (g_puts st) (g_handled st ++ g_queue st);
  inv_sorted : StronglySorted kle (g_queue st);
  inv_match : forall e, In e (g_puts st) ->
      nth_error (nth (e_tid e) progs []) (e_seq e) = Some (mkPost (e_dest e) (e_type e) (e_id e));
  inv_drop_shut : g_dropped st <> [] -> g_shut st = true
}.

(* thread i goes on to its next post *)
Lemma adv_mono (v : list (list post * nat)) i p r k j pr k0 :
  nth_error v i = Some (p :: r, k) -> nth_error v j = Some (pr, k0) ->
  exists pr' k1, nth_error (upd i (r, S k) v) j = Some (pr', k1) /\ (k0 <= k1)%nat.
Proof.
  intros Hi Hj. destruct (Nat.eq_dec i j) as [->|N].
  - exists r, (S k). split; [eapply nth_error_upd_same; eauto|]. rewrite Hi in Hj. inversion Hj. lia.
  - exists pr, k0. split; [|lia]. now rewrite nth_error_upd_other.
Qed.

Lemma adv_fresh st i p r k :
  Inv st -> nth_error (view st) i = Some (p :: r, k) ->
  ~ In (i, k) (map ident (g_puts st) ++ g_dropped st).
Proof.
  intros I Hi H. apply in_app_or in H as [H|H].
  - apply in_map_iff in H as [e [E He]]. unfold ident in E. inversion E; subst.
    destruct (inv_putseq _ I e He) as [pr [k0 [H1 H2]]]. rewrite Hi in H1. inversion H1; subst. lia.
  - destruct (inv_dropseq _ I _ _ H) as [pr [k0 [H1 H2]]]. rewrite Hi in H1. inversion H1; subst. lia.
Qed.

Lemma Inv_step st st' : step_kind st st' -> Inv st -> Inv st'.
Proof.
  intros K I. destruct K as [[Ht [Hp [Hh [Hq Hd]]]] Hs | i p r k Hi Hs Hs' Ht Hd Hp Hh Hq
                            | i t p r Ti PC PR Ht Hp Hq Hh Hd Hs | e r Q Hq Hh Ht Hp Hd Hs].
  - destruct I. constructor; unfold view in *; rewrite ?Ht, ?Hp, ?Hh, ?Hq, ?Hd; auto.
  - pose proof (adv_fresh _ _ _ _ _ I Hi) as Fresh. destruct I.
    constructor; unfold view in *; rewrite ?Ht, ?Hp, ?Hh, ?Hq, ?Hd; auto.
    + now rewrite length_upd.
    + intros j pr k' H. apply nth_upd_inv in H as [[-> E]|[N H]]; [|eauto].
      inversion E; subst. symmetry. eapply skipn_S_tl. symmetry. eauto.
    + intros e He. destruct (inv_putseq0 e He) as [pr [k0 [H1 H2]]].
      destruct (adv_mono _ _ _ _ _ _ _ _ Hi H1) as [pr' [k1 [H3 H4]]]. exists pr', k1. split; auto. lia.
    + intros j n H. apply in_app_or in H as [H|[H|[]]].
      * destruct (inv_dropseq0 _ _ H) as [pr [k0 [H1 H2]]].
        destruct (adv_mono _ _ _ _ _ _ _ _ Hi H1) as [pr' [k1 [H3 H4]]]. exists pr', k1. split; auto. lia.
      * inversion H; subst. exists r, (S n). split; [eapply nth_error_upd_same; eauto|lia].
    + rewrite app_assoc. apply NoDup_snoc; auto.
    + intros j pr k' n H Hn. rewrite app_assoc. apply nth_upd_inv in H as [[-> E]|[N H]].
      * inversion E; subst. destruct (Nat.eq_dec n k) as [->|Nk].
        -- apply in_or_app. right. now left.
        -- apply in_or_app. left. eapply inv_all0; eauto. lia.
      * apply in_or_app. left. eapply inv_all0; eauto.
  - assert (Hi : nth_error (view st) i = Some (p :: r, t_seq t)).
    { unfold view. rewrite nth_error_map, Ti. unfold pv. simpl. now rewrite PR. }
    pose proof (adv_fresh _ _ _ _ _ I Hi) as Fresh. destruct I.
    constructor; unfold view in *; rewrite ?Ht, ?Hp, ?Hh, ?Hq, ?Hd, ?Hs; auto.
    + now rewrite length_upd.
    + intros j pr k' H. apply nth_upd_inv in H as [[-> E]|[N H]]; [|eauto].
      inversion E; subst. symmetry. eapply skipn_S_tl. symmetry. eauto.
    + intros e He. apply in_app_or in He as [He|[<-|[]]].
      * destruct (inv_putseq0 e He) as [pr [k0 [H1 H2]]].
        destruct (adv_mono _ _ _ _ _ _ _ _ Hi H1) as [pr' [k1 [H3 H4]]]. exists pr', k1. split; auto. lia.
      * simpl. exists r, (S (t_seq t)). split; [eapply nth_error_upd_same; eauto|lia].
    + intros j n H. destruct (inv_dropseq0 _ _ H) as [pr [k0 [H1 H2]]].
      destruct (adv_mono _ _ _ _ _ _ _ _ Hi H1) as [pr' [k1 [H3 H4]]]. exists pr', k1. split; auto. lia.
    + rewrite map_app. simpl. rewrite <- app_assoc. simpl.
      eapply Permutation_NoDup; [apply Permutation_middle|]. constructor; auto.
    + intros j pr k' n H Hn. rewrite map_app, <- app_assoc. simpl.
      apply nth_upd_inv in H as [[-> E]|[N H]].
      * inversion E; subst. destruct (Nat.eq_dec n (t_seq t)) as [->|Nk].
        -- apply in_or_app. right. now left.
        -- assert (In (i, n) (map ident (g_puts st) ++ g_dropped st)) as X
             by (eapply inv_all0; eauto; lia).
           apply in_app_or in X as [X|X]; apply in_or_app; [now left|right; now right].
      * assert (In (j, n) (map ident (g_puts st) ++ g_dropped st)) as X by (eapply inv_all0; eauto).
        apply in_app_or in X as [X|X]; apply in_or_app; [now left|right; now right].
    + eapply perm_trans; [apply Permutation_app_comm|]. simpl.
      eapply perm_trans; [apply perm_skip, inv_perm0|].
      eapply perm_trans; [apply Permutation_middle|].
      apply Permutation_app_head. symmetry. apply qinsert_perm.
    + now apply qinsert_sorted.
    + intros e He. apply in_app_or in He as [He|[<-|[]]]; auto. simpl.
      pose proof (inv_prog0 _ _ _ Hi) as E.
      erewrite skipn_head_nth; [|symmetry; exact E]. now destruct p.
  - destruct I. constructor; unfold view in *; rewrite ?Ht, ?Hp, ?Hh, ?Hq, ?Hd, ?Hs; auto.
    + rewrite <- app_assoc. simpl. now rewrite <- Q.
    + rewrite Q in inv_sorted0. now inversion inv_sorted0.
Qed.

Lemma Inv_init ctl : Inv (init progs ctl).
Proof.
  constructor; unfold view; simpl.
  - now rewrite !map_length.
  - intros i pr k H. rewrite map_map, nth_error_map in H. unfold pv in H. simpl in H.
    destruct (nth_error progs i) eqn:E; simpl in H; inversion H; subst. simpl.
    symmetry. now apply nth_error_nth.
  - intros e [].
  - intros i n [].
  - constructor.
  - intros i pr k n H. rewrite map_map, nth_error_map in H. unfold pv in H. simpl in H.
    destruct (nth_error progs i); simpl in H; inversion H; subst. lia.
  - constructor.
  - constructor.
  - intros e [].
  - intros H. now contradiction H.
Qed.

Lemma Inv_exec c ctl sched : Inv (exec c progs ctl sched).
Proof.
  unfold exec. induction sched as [|ch sched IH] using rev_ind.
  - apply Inv_init.
  - rewrite run_snoc. eapply Inv_step; [apply step_kind_of|exact IH].
Qed.

End Book.

(* ---------- (1) exactly once ---------- *)
Lemma NoDup_app_drop_mid {A} (a b c : list A) : NoDup (a ++ b ++ c) -> NoDup (a ++ c).
Proof.
  induction b as [|x b IH]; simpl; auto. intros H. apply IH. eapply NoDup_remove_1; eauto.
Qed.

Lemma mt_delivered_exactly_once_l c progs ctl sched :
  let st := exec c progs ctl sched in
  NoDup (map ident (g_puts st)) /\
  (forall e, In e (g_puts st) ->
     nth_error (nth (e_tid e) progs []) (e_seq e) = Some (mkPost (e_dest e) (e_type e) (e_id e))) /\
  Permutation (g_puts st) (g_handled st ++ g_queue st) /\
  NoDup (map ident (g_handled st) ++ g_dropped st) /\
  (g_shut st = false -> g_dropped st = []) /\
  (quiescent st = true -> forall i k, (k < List.length (nth i progs []))%nat ->
     In (i, k) (map ident (g_handled st) ++ g_dropped st)).
Proof.
  intros st. pose proof (Inv_exec progs c ctl sched) as I. fold st in I.
  assert (ND : NoDup (map ident (g_handled st) ++ g_dropped st)).
  { pose proof (inv_nodup _ _ I) as N.
    eapply Permutation_NoDup in N;
      [|apply Permutation_app_tail, Permutation_map, (inv_perm _ _ I)].
    rewrite map_app, <- app_assoc in N. eapply NoDup_app_drop_mid; eauto. }
  split; [|split; [|split; [|split; [|split]]]]; auto.
  - pose proof (inv_nodup _ _ I) as N. rewrite <- (app_nil_r (map ident (g_puts st))).
    rewrite <- (app_nil_r (g_dropped st)) in N. rewrite app_assoc in N.
    apply (NoDup_app_drop_mid _ (g_dropped st) []). now rewrite <- app_assoc in *.
  - apply (inv_match _ _ I).
  - apply (inv_perm _ _ I).
  - intros S. destruct (g_dropped st) eqn:D; auto.
    rewrite (inv_drop_shut _ _ I) in S; [discriminate|]. rewrite D. discriminate.
  - intros Q i k Hk. unfold quiescent in Q. apply andb_true_iff in Q as [Q1 Q2].
    destruct (g_queue st) eqn:Qe; [|discriminate].
    assert (Hi : (i < List.length progs)%nat).
    { destruct (Nat.lt_ge_cases i (List.length progs)); auto.
      rewrite nth_overflow in Hk; auto. simpl in Hk. lia. }
    rewrite <- (inv_len _ _ I) in Hi. apply nth_error_Some in Hi.
    destruct (nth_error (view st) i) as [[pr k0]|] eqn:V; [|congruence].
    pose proof (inv_prog _ _ I _ _ _ V) as P.
    unfold view in V. rewrite nth_error_map in V.
    destruct (nth_error (g_thr st) i) as [t|] eqn:T; [|discriminate]. simpl in V.
    rewrite forallb_forall in Q1. pose proof (Q1 t (nth_error_In _ _ T)) as Id.
    unfold idle in Id. unfold pv in V. inversion V; subst.
    destruct (t_prog t) eqn:PR; [|discriminate].
    assert (L : (List.length (nth i progs []) <= t_seq t)%nat).
    { pose proof (skipn_length (t_seq t) (nth i progs [])) as SL. rewrite <- H0 in SL. simpl in SL. lia. }
    assert (X : In (i, k) (map ident (g_puts st) ++ g_dropped st)).
    { eapply (inv_all _ _ I) with (k := t_seq t); [|lia].
      unfold view. rewrite nth_error_map, T. simpl. unfold pv. now rewrite PR. }
    pose proof (inv_perm _ _ I) as Pm. rewrite Qe, app_nil_r in Pm.
    apply in_app_or in X as [X|X]; apply in_or_app; [left|now right].
    eapply Permutation_in; [apply Permutation_map; exact Pm|exact X].
Qed.

(* ---------- (2) priority ---------- *)
Lemma agent_pop c st e :
  g_handled (step c st CAgent) = g_handled st ++ [e] -> exists r, g_queue st = e :: r.
Proof.
  simpl. unfold agent_step.
  assert (N : forall l : list ent, l = l ++ [e] -> False).
  { intros l H. apply (f_equal (@List.length _)) in H. rewrite app_length in H. simpl in H. lia. }
  destruct (g_adone st); [intros H; now apply N in H|].
  destruct (c_flagfirst c), (g_astage st); simpl; try (intros H; now apply N in H);
    destruct (g_queue st) as [|x r]; simpl; try (intros H; now apply N in H);
    intros H; apply app_inv_head in H; inversion H; eauto.
Qed.

Lemma mt_priority_l c progs ctl sched e :
  let st := exec c progs ctl sched in
  g_handled (step c st CAgent) = g_handled st ++ [e] ->
  forall e', In e' (g_puts st) -> ~ In e' (g_handled st) -> kle e e' /\ e_type e <= e_type e'.
Proof.
  intros st H e' Hp Hn. pose proof (Inv_exec progs c ctl sched) as I. fold st in I.
  apply agent_pop in H as [r Q].
  assert (K : kle e e').
  { eapply Permutation_in in Hp; [|apply (inv_perm _ _ I)].
    apply in_app_or in Hp as [Hp|Hp]; [contradiction|].
    pose proof (inv_sorted _ _ I) as S. rewrite Q in S, Hp. inversion S; subst.
    destruct Hp as [<-|Hp]; [apply kle_refl|]. rewrite Forall_forall in H2. auto. }
  split; auto. now apply kle_type.
Qed.

(* ---------- (4) clean shutdown drains ---------- *)
Lemma poster_frame c st i t :
  let st' := poster_step c st i t in
  g_evt st' = g_evt st /\ g_aflag st' = g_aflag st /\ g_adone st' = g_adone st /\
  g_astage st' = g_astage st /\ g_ctl st' = g_ctl st /\ g_handled st' = g_handled st.
Proof.
  unfold poster_step.
  destruct (t_pc t), (t_prog t), (g_shut st), (g_lock st), (c_lock c); simpl; auto 10.
Qed.

Definition AF (st : gst) : Prop :=
  (g_aflag st = true -> g_evt st = true) /\ (g_adone st = true -> g_evt st = true).

Lemma AF_step c st ch : c_flagfirst c = true -> AF st -> AF (step c st ch).
Proof.
  intros F [A1 A2]. destruct ch as [| | |i]; simpl.
  - split; auto.
  - unfold agent_step. destruct (g_adone st) eqn:D; [split; auto|]. rewrite F.
    destruct (g_astage st); simpl; [destruct (g_queue st); simpl|]; split; auto; discriminate.
  - unfold ctl_step. destruct (g_ctl st) as [|[|] r]; split; simpl; auto.
  - destruct (nth_error (g_thr st) i) as [t|]; [|split; auto].
    destruct (poster_frame c st i t) as [E1 [E2 [E3 _]]]. unfold AF. rewrite E1, E2, E3. auto.
Qed.

Lemma AF_exec c progs ctl sched : c_flagfirst c = true -> AF (exec c progs ctl sched).
Proof.
  intros F. unfold exec. induction sched as [|ch sched IH] using rev_ind.
  - split; simpl; discriminate.
  - rewrite run_snoc. now apply AF_step.
Qed.

Lemma done_transition c st ch :
  c_flagfirst c = true -> g_adone st = false -> g_adone (step c st ch) = true -> g_queue st = [].
Proof.
  intros F D. destruct ch as [| | |i]; simpl.
  - congruence.
  - unfold agent_step. rewrite D, F. destruct (g_astage st); simpl; [|discriminate].
    destruct (g_queue st); simpl; auto. discriminate.
  - unfold ctl_step. destruct (g_ctl st) as [|[|] r]; simpl; congruence.
  - destruct (nth_error (g_thr st) i) as [t|]; [|congruence].
    destruct (poster_frame c st i t) as [_ [_ [E3 _]]]. rewrite E3. congruence.
Qed.

Lemma step_monotone c st ch :
  (exists l, g_puts (step c st ch) = g_puts st ++ l) /\
  (exists l, g_handled (step c st ch) = g_handled st ++ l).
Proof.
  destruct (step_kind_of c st ch) as [[Ht [Hp [Hh [Hq Hd]]]] Hs | i p r k Hi Hs Hs' Ht Hd Hp Hh Hq
                            | i t p r Ti PC PR Ht Hp Hq Hh Hd Hs | e r Q Hq Hh Ht Hp Hd Hs];
    rewrite Hp, Hh; split; eauto; exists []; now rewrite app_nil_r.
Qed.

Lemma mt_shutdown_drains_l lk progs ctl sched1 sched2 :
  let c := mkCfg lk true in
  let st1 := exec c progs ctl sched1 in
  let st2 := run c st1 sched2 in
  g_evt st1 = false -> g_adone st2 = true ->
  forall e, In e (g_puts st1) -> In e (g_handled st2).
Proof.
  intros c st1 st2 E. unfold st2. clear st2.
  assert (D1 : g_adone st1 = false).
  { destruct (g_adone st1) eqn:D; auto. pose proof (AF_exec c progs ctl sched1 eq_refl) as [_ A].
    fold st1 in A. rewrite (A D) in E. discriminate. }
  induction sched2 as [|ch sched2 IH] using rev_ind.
  - simpl. congruence.
  - rewrite run_snoc. set (st := run c st1 sched2) in *. intros D e He.
    assert (R : st = exec c progs ctl (sched1 ++ sched2)) by (unfold st, st1, exec; now rewrite run_app).
    destruct (step_monotone c st ch) as [_ [lh Hh]].
    destruct (g_adone st) eqn:Ds.
    + rewrite Hh. apply in_or_app. left. now apply IH.
    + pose proof (done_transition c st ch eq_refl Ds D) as Q.
      pose proof (Inv_exec progs c ctl (sched1 ++ sched2)) as I. rewrite <- R in I.
      pose proof (inv_perm _ _ I) as Pm. rewrite Q, app_nil_r in Pm.
      rewrite Hh. apply in_or_app. left. eapply Permutation_in; [exact Pm|].
      (* puts only grow *)
      clear -He. unfold st. induction sched2 as [|ch2 s2 IH2] using rev_ind; simpl; auto.
      rewrite run_snoc. destruct (step_monotone c (run c st1 s2) ch2) as [[lp Hp] _].
      rewrite Hp. apply in_or_app. now left.
Qed.

(* ---------- (3) FIFO per sender and type, with the post lock ---------- *)
Definition in_cs (pc : ppc) : bool :=
  match pc with PLoad | PStore | PReread | PPut | PRel => true | _ => false end.

Record LInv (st : gst) : Prop := mkL {
  l_excl : forall j t, nth_error (g_thr st) j = Some t -> in_cs (t_pc t) = true -> g_lock st = Some j;
  l_le : Forall (fun e => e_cnt e <= g_cnt st) (g_puts st);
  l_store : forall j t, nth_error (g_thr st) j = Some t -> t_pc t = PStore -> t_tmp t = g_cnt st;
  l_lt : forall j t, nth_error (g_thr st) j = Some t -> t_pc t = PReread \/ t_pc t = PPut ->
         Forall (fun e => e_cnt e < g_cnt st) (g_puts st);
  l_put : forall j t, nth_error (g_thr st) j = Some t -> t_pc t = PPut -> t_c t = g_cnt st
}.

(* two threads cannot both be inside the lock *)
Lemma excl2 st i j ti tj :
  LInv st -> nth_error (g_thr st) i = Some ti -> in_cs (t_pc ti) = true ->
  nth_error (g_thr st) j = Some tj -> in_cs (t_pc tj) = true -> i = j.
Proof.
  intros L Hi Ci Hj Cj. pose proof (l_excl _ L _ _ Hi Ci) as A. pose proof (l_excl _ L _ _ Hj Cj) as B.
  congruence.
Qed.

Ltac other_thread L Ti H :=
  match type of H with
  | nth_error (upd ?i ?x ?l) ?j = Some ?y =>
      apply nth_upd_inv in H as [[-> ->]|[? H]]
  end.

Lemma LInv_poster c st i t :
  c_lock c = true -> LInv st -> nth_error (g_thr st) i = Some t -> LInv (poster_step c st i t).
Proof.
  intros LK L Ti. unfold poster_step. rewrite LK.
  destruct (t_pc t) eqn:PC.
  - (* PCheck *)
    destruct (t_prog t) as [|p r]; auto. destruct (g_shut st).
    + destruct L. constructor; simpl; auto; intros j tj H; other_thread L Ti H; simpl;
        try discriminate; try (intros [?|?]; discriminate); eauto.
    + destruct L. constructor; simpl; auto; intros j tj H; other_thread L Ti H; simpl;
        try discriminate; try (intros [?|?]; discriminate); eauto.
  - (* PClock *)
    destruct L. constructor; simpl; auto; intros j tj H; other_thread L Ti H; simpl;
      try discriminate; try (intros [?|?]; discriminate); eauto.
  - (* PAcq *)
    destruct (g_lock st) eqn:LO; auto.
    constructor; simpl; try apply (l_le _ L); intros j tj H; other_thread L Ti H; simpl;
      try discriminate; try (intros [?|?]; discriminate); auto.
    + intros C. pose proof (l_excl _ L _ _ H C). congruence.
    + apply (l_store _ L _ _ H).
    + apply (l_lt _ L _ _ H).
    + apply (l_put _ L _ _ H).
  - (* PLoad *)
    assert (Ci : in_cs (t_pc t) = true) by now rewrite PC.
    constructor; simpl; try apply (l_le _ L); intros j tj H; other_thread L Ti H; simpl;
      try discriminate; try (intros [?|?]; discriminate); auto.
    + intros _. apply (l_excl _ L _ _ Ti Ci).
    + apply (l_excl _ L _ _ H).
    + apply (l_store _ L _ _ H).
    + apply (l_lt _ L _ _ H).
    + apply (l_put _ L _ _ H).
  - (* PStore *)
    assert (Ci : in_cs (t_pc t) = true) by now rewrite PC.
    pose proof (l_store _ L _ _ Ti PC) as TM.
    assert (X : forall j tj, j <> i -> nth_error (g_thr st) j = Some tj -> in_cs (t_pc tj) = true -> False).
    { intros j tj N Hj Cj. apply N. eapply excl2; eauto. }
    constructor; simpl.
    + intros j tj H. other_thread L Ti H; simpl.
      * intros _. apply (l_excl _ L _ _ Ti Ci).
      * apply (l_excl _ L _ _ H).
    + eapply Forall_impl; [|apply (l_le _ L)]. simpl. intros. lia.
    + intros j tj H. other_thread L Ti H; simpl; [discriminate|].
      intros P. exfalso. eapply X; eauto. now rewrite P.
    + intros j tj H. other_thread L Ti H; simpl.
      * intros _. eapply Forall_impl; [|apply (l_le _ L)]. simpl. intros. lia.
      * intros [P|P]; exfalso; eapply X; eauto; now rewrite P.
    + intros j tj H. other_thread L Ti H; simpl; [discriminate|].
      intros P. exfalso. eapply X; eauto. now rewrite P.
  - (* PReread *)
    assert (Ci : in_cs (t_pc t) = true) by now rewrite PC.
    constructor; simpl; try apply (l_le _ L); intros j tj H; other_thread L Ti H; simpl;
      try discriminate; auto.
    + intros _. apply (l_excl _ L _ _ Ti Ci).
    + apply (l_excl _ L _ _ H).
    + apply (l_store _ L _ _ H).
    + intros _. apply (l_lt _ L _ _ Ti). now left.
    + apply (l_lt _ L _ _ H).
    + apply (l_put _ L _ _ H).
  - (* PPut *)
    destruct (t_prog t) as [|p r] eqn:PR; auto.
    assert (Ci : in_cs (t_pc t) = true) by now rewrite PC.
    assert (X : forall j tj, j <> i -> nth_error (g_thr st) j = Some tj -> in_cs (t_pc tj) = true -> False).
    { intros j tj N Hj Cj. apply N. eapply excl2; eauto. }
    pose proof (l_put _ L _ _ Ti PC) as TC.
    pose proof (l_lt _ L _ _ Ti (or_intror PC)) as LT.
    constructor; simpl.
    + intros j tj H. other_thread L Ti H; simpl.
      * intros _. apply (l_excl _ L _ _ Ti Ci).
      * apply (l_excl _ L _ _ H).
    + apply Forall_app. split.
      * eapply Forall_impl; [|exact LT]. simpl. intros. lia.
      * constructor; [|constructor]. simpl. lia.
    + intros j tj H. other_thread L Ti H; simpl; [discriminate|]. apply (l_store _ L _ _ H).
    + intros j tj H. other_thread L Ti H; simpl.
      * intros [P|P]; discriminate.
      * intros [P|P]; exfalso; eapply X; eauto; now rewrite P.
    + intros j tj H. other_thread L Ti H; simpl; [discriminate|].
      intros P. exfalso. eapply X; eauto. now rewrite P.
  - (* PRel *)
    assert (Ci : in_cs (t_pc t) = true) by now rewrite PC.
    assert (X : forall j tj, j <> i -> nth_error (g_thr st) j = Some tj -> in_cs (t_pc tj) = true -> False).
    { intros j tj N Hj Cj. apply N. eapply excl2; eauto. }
    constructor; simpl; try apply (l_le _ L); intros j tj H; other_thread L Ti H; simpl;
      try discriminate; try (intros [?|?]; discriminate); auto.
    + intros C. exfalso. eapply X; eauto.
    + apply (l_store _ L _ _ H).
    + apply (l_lt _ L _ _ H).
    + apply (l_put _ L _ _ H).
Qed.

Lemma LInv_frame st st' :
  g_thr st' = g_thr st -> g_cnt st' = g_cnt st -> g_lock st' = g_lock st -> g_puts st' = g_puts st ->
  LInv st -> LInv st'.
Proof.
  intros E1 E2 E3 E4 [A B C D E]. constructor; rewrite ?E1, ?E2, ?E3, ?E4; auto.
Qed.

Lemma LInv_step c st ch : c_lock c = true -> LInv st -> LInv (step c st ch).
Proof.
  intros LK L. destruct ch as [| | |i]; simpl.
  - apply (LInv_frame st); auto.
  - unfold agent_step. destruct (g_adone st); auto.
    destruct (c_flagfirst c), (g_astage st); simpl; try destruct (g_queue st); simpl;
      apply (LInv_frame st); auto.
  - unfold ctl_step. destruct (g_ctl st) as [|[|] r]; auto; apply (LInv_frame st); auto.
  - destruct (nth_error (g_thr st) i) as [t|] eqn:T; auto. now apply LInv_poster.
Qed.

Lemma LInv_exec c progs ctl sched : c_lock c = true -> LInv (exec c progs ctl sched).
Proof.
  intros LK. unfold exec. induction sched as [|ch sched IH] using rev_ind.
  - constructor; simpl; auto.
    + intros j t H. rewrite nth_error_map in H. destruct (nth_error progs j); inversion H. discriminate.
    + intros j t H. rewrite nth_error_map in H. destruct (nth_error progs j); inversion H. discriminate.
    + intros j t H. rewrite nth_error_map in H. destruct (nth_error progs j); inversion H. discriminate.
  - rewrite run_snoc. now apply LInv_step.
Qed.

(* with the lock every put draws a counter above all earlier ones *)
Definition cnt_lt (a b : ent) : Prop := e_cnt a < e_cnt b.
Definition ft (ty : Z) (e : ent) : bool := e_type e =? ty.

Record FInv (st : gst) : Prop := mkF {
  f_hq : forall ty, StronglySorted cnt_lt (filter (ft ty) (g_handled st ++ g_queue st));
  f_pw : forall e1 e2, In e1 (g_puts st) -> In e2 (g_puts st) -> e_tid e1 = e_tid e2 ->
         e_cnt e1 < e_cnt e2 -> (e_seq e1 < e_seq e2)%nat
}.

Lemma FInv_step progs st st' :
  step_kind st st' -> Inv progs st -> LInv st -> FInv st -> FInv st'.
Proof.
  intros K I L F. destruct K as [[Ht [Hp [Hh [Hq Hd]]]] Hs | i p r k Hi Hs Hs' Ht Hd Hp Hh Hq
                            | i t p r Ti PC PR Ht Hp Hq Hh Hd Hs | e r Q Hq Hh Ht Hp Hd Hs].
  - destruct F. constructor; rewrite ?Hp, ?Hh, ?Hq; auto.
  - destruct F. constructor; rewrite ?Hp, ?Hh, ?Hq; auto.
  - set (e := entry_of i t p) in *.
    assert (LT : Forall (fun x => e_cnt x < e_cnt e) (g_puts st)).
    { simpl. rewrite (l_put _ L _ _ Ti PC). apply (l_lt _ L _ _ Ti). now right. }
    rewrite Forall_forall in LT.
    assert (InP : forall x, In x (g_handled st ++ g_queue st) -> In x (g_puts st)).
    { intros x Hx. eapply Permutation_in; [symmetry; apply (inv_perm _ _ I)|exact Hx]. }
    destruct F. constructor; rewrite ?Hp, ?Hh, ?Hq.
    + intros ty. rewrite filter_app. destruct (ft ty e) eqn:Fe.
      * rewrite filter_qinsert_last; auto; [|apply (inv_sorted _ _ I)|].
        -- rewrite app_assoc, <- filter_app. apply SS_snoc; auto.
           rewrite Forall_forall. intros x Hx. apply filter_In in Hx as [Hx _]. apply LT. auto.
        -- intros y Hy Fy. assert (C : e_cnt y < e_cnt e) by (apply LT, InP, in_or_app; now right).
           unfold ft in *. apply Z.eqb_eq in Fe, Fy. unfold key_leb.
           rewrite orb_false_iff, andb_false_iff, orb_false_iff, andb_false_iff,
                   Z.ltb_ge, Z.ltb_ge, Z.eqb_neq. split; [lia|]. right. split; [lia|]. left. lia.
      * rewrite filter_qinsert_other; auto. rewrite <- filter_app. auto.
    + intros e1 e2 H1 H2 T C. apply in_app_or in H1 as [H1|[<-|[]]], H2 as [H2|[<-|[]]]; auto.
      * (* old, new *)
        destruct (inv_putseq _ _ I _ H1) as [pr [k [V S]]]. simpl in *. rewrite T in V.
        unfold view in V. rewrite nth_error_map, Ti in V. inversion V; subst. exact S.
      * pose proof (LT _ H2). unfold cnt_lt in *. lia.
      * lia.
  - destruct F. constructor; rewrite ?Hp, ?Hh, ?Hq; auto.
    intros ty. rewrite <- app_assoc. simpl. rewrite <- Q. auto.
Qed.

Lemma FInv_exec c progs ctl sched : c_lock c = true -> FInv (exec c progs ctl sched).
Proof.
  intros LK. induction sched as [|ch sched IH] using rev_ind.
  - constructor; simpl; [constructor|intros _ _ []].
  - unfold exec in *. rewrite run_snoc. eapply FInv_step; eauto.
    + apply step_kind_of.
    + apply Inv_exec.
    + now apply LInv_exec.
Qed.

Lemma mt_fifo_per_sender_type_l ff progs ctl sched i ty :
  let st := exec (mkCfg true ff) progs ctl sched in
  StronglySorted lt
    (map e_seq (filter (fun e => Nat.eqb (e_tid e) i && (e_type e =? ty)) (g_handled st))).
Proof.
  intros st. pose proof (FInv_exec (mkCfg true ff) progs ctl sched eq_refl) as F. fold st in F.
  pose proof (Inv_exec progs (mkCfg true ff) ctl sched) as I. fold st in I.
  rewrite (filter_andb (fun e => Nat.eqb (e_tid e) i) (ft ty)).
  apply SS_map.
  pose proof (f_hq _ F ty) as S. rewrite filter_app in S. apply SS_app_l in S.
  apply (SS_filter _ (fun e => Nat.eqb (e_tid e) i)) in S.
  eapply SS_impl_In; [exact S|].
  intros a b Ha Hb C. apply filter_In in Ha as [Ha Ta], Hb as [Hb Tb].
  apply filter_In in Ha as [Ha _], Hb as [Hb _].
  apply Nat.eqb_eq in Ta, Tb.
  assert (P : forall x, In x (g_handled st) -> In x (g_puts st)).
  { intros x Hx. eapply Permutation_in; [symmetry; apply (inv_perm _ _ I)|]. apply in_or_app. now left. }
  apply (f_pw _ F); auto. congruence.
Qed.

(* ---------- what fails without the two repairs ---------- *)
(* unlocked counter: thread 0 loads the counter (0) and is pre-empted; thread 1 completes three
   posts (counters 1, 2, 3); thread 0 stores 1; thread 1's fourth post draws 2 and overtakes its
   own third one (all of one type, no two equal keys) *)
Definition fifo_witness_progs : list (list post) :=
  [[mkPost 10 20 100]; [mkPost 10 20 1; mkPost 10 20 2; mkPost 10 20 3; mkPost 10 20 4]].
Definition one_post (i : nat) : list choice := repeat (CPost i) 6.
Definition fifo_witness_sched : list choice :=
  [CPost 0; CPost 0; CPost 0]
  ++ (CTick :: one_post 1) ++ (CTick :: one_post 1) ++ (CTick :: one_post 1)
  ++ [CPost 0; CTick] ++ one_post 1 ++ [CPost 0; CPost 0] ++ repeat CAgent 10.

Lemma mt_fifo_unlocked_refuted_l :
  exists progs sched i ty,
    let st := exec (mkCfg false true) progs [] sched in
    g_tie st = false /\
    map e_seq (filter (fun e => Nat.eqb (e_tid e) i && (e_type e =? ty)) (g_handled st))
      = [0; 1; 3; 2]%nat.
Proof.
  exists fifo_witness_progs, fifo_witness_sched, 1%nat, 20. vm_compute. split; reflexivity.
Qed.

(* old agent loop: the get finds the queue empty, a post completes, clean_shutdown sets the
   event, the loop then reads the event and leaves: the message is never handled *)
Lemma mt_shutdown_oldloop_refuted_l :
  exists progs sched1 sched2 e,
    let c := mkCfg true false in
    let st1 := exec c progs [SetEvt; SetShut] sched1 in
    let st2 := run c st1 sched2 in
    g_evt st1 = false /\ In e (g_puts st1) /\ g_adone st2 = true /\ g_handled st2 = [].
Proof.
  exists [[mkPost 10 20 1]], (CAgent :: repeat (CPost 0) 8), [CCtl; CAgent; CCtl],
         (mkE 20 1 0 0 0 10 1).
  vm_compute. repeat split; auto.
Qed.
