(* M_Dsa.v -- executable model of pydcop/algorithms/dsa.py (DsaComputation), C07.
   Handlers on_start / _on_value_msg / evaluate_cycle with the current_cycle / next_cycle
   dictionaries, variants A, B, C, p_mode = fixed, stop_cycle; plugged into Net.v.
   finished() is followed by stop(): a stopped computation stores what it receives
   (MessagePassingComputation.on_message), modelled by [ds_stopped] / [ds_held].

   Randomness: probabilistic_change draws k in [0,1000) (random.random() = k/1000, the
   probability parameter is p/1000) and, when p > k, one more draw for random.choice.
   [fo_vc]: whether relations.find_optimal adds the variable's own cost (it does not on the
   present tree: it tests hasattr(variable, "cost_for_value"), C06); the driver probes it. *)
From PyDcop Require Import Base Net M_Mgm.

Record dst := mkDs {
  ds_cycle : Z;                 (* cycle_count *)
  ds_value : option Z;
  ds_cost : option Z;
  ds_cur : list (Z * Z);        (* current_cycle (neighbours only; the own entry lives for one call) *)
  ds_nxt : list (Z * Z);        (* next_cycle *)
  ds_orc : list Z;
  ds_stopped : bool;            (* stop() called *)
  ds_held : list (Z * Z);       (* _paused_messages_recv after stop *)
  ds_fin : Z                    (* ghost: number of finished() calls *)
}.

Definition dres := (dst * list (node * mmsg) * list mev)%type.

Section Dsa.
  Variable d : dcop.
  Variable stop : Z.
  Variable variant : Z.          (* 0 = A, 1 = B, 2 = C *)
  Variable prob : Z.             (* probability * 1000 *)
  Variable fo_vc : bool.
  Variable orc : node -> list Z.

  Section Node.
  Variable n : node.
  Let nb := nbrs d n.

  Definition dview (cur : list (Z * Z)) (x : Z) : Z -> Z := fun v => if v =? n then x else aget cur v.
  Definition dcons_sum (f : Z -> Z) : Z := zsum (map (fun c => ceval c f) (cons_of d n)).

  (* relations.find_optimum of one constraint: best entry of its table *)
  Definition copt (c : constr) : Z :=
    match map snd (c_tab c) with
    | [] => 0
    | x :: r => fold_left (fun b y => if better (d_max d) y b then y else b) r x
    end.
  Definition exists_violated (cur : list (Z * Z)) (x : Z) : bool :=
    existsb (fun c => negb (ceval c (dview cur x) =? copt c)) (cons_of d n).

  Fixpoint remove_first (x : Z) (l : list Z) : list Z :=
    match l with [] => [] | y :: r => if x =? y then r else y :: remove_first x r end.

  Definition dvalue_selection (s : dst) (v : Z) (c : option Z) : dst * list mev :=
    (mkDs (ds_cycle s) (Some v) c (ds_cur s) (ds_nxt s) (ds_orc s) (ds_stopped s) (ds_held s) (ds_fin s),
     if option_eqb Z.eqb (ds_value s) (Some v) then [] else [EvValue n v c (ds_cycle s)]).

  Definition dcur_value (s : dst) : Z := match ds_value s with Some v => v | None => 0 end.

  Definition probabilistic_change (s : dst) (best_cost : Z) (vals : list Z) : dst * list mev :=
    let '(k, o1) := draw (ds_orc s) in
    if k <? prob then
      let '(x, o2) := draw o1 in
      dvalue_selection (mkDs (ds_cycle s) (ds_value s) (ds_cost s) (ds_cur s) (ds_nxt s) o2 (ds_stopped s) (ds_held s) (ds_fin s))
                       (choose vals x 0) (Some best_cost)
    else (mkDs (ds_cycle s) (ds_value s) (ds_cost s) (ds_cur s) (ds_nxt s) o1 (ds_stopped s) (ds_held s) (ds_fin s), []).

  Definition without_current (s : dst) (vals : list Z) : list Z :=
    if 1 <? zlen vals then remove_first (dcur_value s) vals else vals.

  Definition evaluate_cycle (s : dst) : dres :=
    if zlen (ds_cur s) =? zlen nb then
      let cur := dcur_value s in
      let '(vals, best) := find_arg_optimal (d_max d)
                             (fun x => dcons_sum (dview (ds_cur s) x) + (if fo_vc then vcost d n x else 0))
                             (dom_of d n) in
      let cost := dcons_sum (dview (ds_cur s) cur) in
      let delta := Z.abs (cost - best) in
      let '(s1, e1) :=
        if 0 <? delta then probabilistic_change s best vals
        else if variant =? 0 then (s, [])
        else if variant =? 1 then
          if exists_violated (ds_cur s) cur then probabilistic_change s best (without_current s vals) else (s, [])
        else probabilistic_change s best (without_current s vals) in
      let k := ds_cycle s1 + 1 in
      if negb (stop =? 0) && (stop <=? k) then
        (mkDs k (ds_value s1) (ds_cost s1) (ds_nxt s1) [] (ds_orc s1) true (ds_held s1) (ds_fin s1 + 1),
         [], e1 ++ [EvCycle n k; EvFinished n k])
      else
        (mkDs k (ds_value s1) (ds_cost s1) (ds_nxt s1) [] (ds_orc s1) (ds_stopped s1) (ds_held s1) (ds_fin s1),
         map (fun t => (t, MValue (match ds_value s1 with Some v => v | None => 0 end))) nb,
         e1 ++ [EvCycle n k])
    else (s, [], []).

  Definition dsa_start (s : dst) : dres :=
    match nb with
    | [] =>
        let '(v, c) := optimal_cost_value d n in
        let '(s1, e1) := dvalue_selection s v (Some c) in
        (mkDs (ds_cycle s1) (ds_value s1) (ds_cost s1) (ds_cur s1) (ds_nxt s1) (ds_orc s1) true (ds_held s1) (ds_fin s1 + 1),
         [], e1 ++ [EvFinished n (ds_cycle s1)])
    | _ =>
        let '(x, o) := draw (ds_orc s) in
        let v0 := choose (dom_of d n) x 0 in
        let '(s1, e1) := dvalue_selection (mkDs (ds_cycle s) (ds_value s) (ds_cost s) (ds_cur s) (ds_nxt s) o
                                               (ds_stopped s) (ds_held s) (ds_fin s)) v0 (Some 0) in
        let '(s2, o2, e2) := evaluate_cycle s1 in
        (s2, map (fun t => (t, MValue v0)) nb ++ o2, e1 ++ e2)
    end.

  Definition dsa_recv (s : dst) (src : node) (m : mmsg) : dres :=
    match m with
    | MValue v =>
        if ds_stopped s then
          (mkDs (ds_cycle s) (ds_value s) (ds_cost s) (ds_cur s) (ds_nxt s) (ds_orc s) true (ds_held s ++ [(src, v)]) (ds_fin s), [], [])
        else if mem_key Z.eqb src (ds_cur s) then
          (mkDs (ds_cycle s) (ds_value s) (ds_cost s) (ds_cur s) (dict_set Z.eqb src v (ds_nxt s)) (ds_orc s)
                (ds_stopped s) (ds_held s) (ds_fin s), [], [])
        else
          evaluate_cycle (mkDs (ds_cycle s) (ds_value s) (ds_cost s) (ds_cur s ++ [(src, v)]) (ds_nxt s) (ds_orc s)
                               (ds_stopped s) (ds_held s) (ds_fin s))
    | MGain _ => (s, [], [EvErr n 8])    (* no such message in DSA *)
    end.

  Definition dsa_init : dst := mkDs 0 None None [] [] (orc n) false [] 0.
  End Node.

  Definition dsa_proto : proto dst mmsg mev := mkProto dsa_init dsa_start dsa_recv.
End Dsa.

(* ------------------------------------------------------------------ correspondence *)
Record dobs := mkDO {
  do_cycle : Z; do_value : option Z; do_cost : option Z;
  do_cur : list (Z * Z); do_nxt : list (Z * Z); do_running : bool; do_held : list (Z * Z)
}.
Definition dobs_ok (started : bool) (s : dst) (o : dobs) : bool :=
  (ds_cycle s =? do_cycle o) && oz_eqb (ds_value s) (do_value o) && oz_eqb (ds_cost s) (do_cost o)
  && list_eqb zz_eqb (sort_kv (ds_cur s)) (do_cur o) && list_eqb zz_eqb (sort_kv (ds_nxt s)) (do_nxt o)
  && Bool.eqb (started && negb (ds_stopped s)) (do_running o)
  && (negb (ds_stopped s) || list_eqb zz_eqb (ds_held s) (do_held o)).

Record dcase := mkDCase {
  dk_dcop : dcop; dk_stop : Z; dk_variant : Z; dk_prob : Z; dk_fovc : bool; dk_orc : list (Z * list Z);
  dk_sched : list (@action);
  dk_events : list mev;
  dk_nodes : list (Z * dobs);
  dk_chans : list (Z * Z * list mmsg);
  dk_nbrs : list (Z * list Z)
}.

Definition dcheck_case (c : dcase) : bool :=
  let P := dsa_proto (dk_dcop c) (dk_stop c) (dk_variant c) (dk_prob c) (dk_fovc c) (orc_of (dk_orc c)) in
  let '(cf, evs) := run P (dk_sched c) in
  let ids := map fst (d_vars (dk_dcop c)) in
  list_eqb mev_eqb evs (dk_events c)
  && forallb (fun no => dobs_ok (w_running (nodes cf (fst no))) (w_st (nodes cf (fst no))) (snd no)) (dk_nodes c)
  && forallb (fun s => forallb (fun t => list_eqb mmsg_eqb (chan cf s t) (chan_expected (dk_chans c) s t)) ids) ids
  && forallb (fun nl => list_eqb Z.eqb (nbrs (dk_dcop c) (fst nl)) (snd nl)) (dk_nbrs c).
