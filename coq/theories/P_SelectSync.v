(* P_SelectSync.v -- any invariant of a hosted algorithm's state is an invariant of the synchronous
   mixin protocol of M_SyncMixin.v, for every schedule (used by C10 for maxsum and dsatuto). *)
From Coq Require Import Lia.
From PyDcop Require Import Base Net P_SelectNet M_SyncMixin.

Section SyncAlgoInv.
  Context {A P : Type}.
  Variable nbrs : node -> list node.
  Variable G : algo A P.
  Variable Q : node -> A -> Prop.

  Hypothesis Qinit : forall n, Q n (a_init G n).
  Hypothesis Qstart : forall n a a' outs, Q n a -> a_start G n a = (a', outs) -> Q n a'.
  Hypothesis Qcycle : forall n a k msgs a' posted returned,
    Q n a -> a_cycle G n a k msgs = (a', posted, returned) -> Q n a'.

  Lemma ast_post_list (l : list (node * P)) : forall s : sst A P, ast (fst (post_list s l)) = ast s.
  Proof.
    induction l as [|[t p] r IH]; intros s; [reflexivity|].
    cbn [post_list]. unfold post at 1.
    match goal with |- context [post_list ?s0 r] =>
      specialize (IH s0); destruct (post_list s0 r) as [s2 ms] end.
    exact IH.
  Qed.

  Lemma ast_post_syncs (l : list node) : forall s : sst A P, ast (fst (post_syncs s l)) = ast s.
  Proof.
    induction l as [|t r IH]; intros s; [reflexivity|].
    cbn [post_syncs]. destruct (nmem t (sent s)); [apply IH|].
    unfold post at 1.
    match goal with |- context [post_syncs ?s0 r] =>
      specialize (IH s0); destruct (post_syncs s0 r) as [s2 ms] end.
    exact IH.
  Qed.

  Lemma ast_post_returned (l : list (node * P)) : forall (s : sst A P) rem,
    ast (fst (fst (post_returned s rem l))) = ast s.
  Proof.
    induction l as [|[t p] r IH]; intros s rem; [reflexivity|].
    cbn [post_returned]. unfold post at 1.
    destruct (nmem t rem); [|reflexivity].
    match goal with |- context [post_returned ?s0 ?r0 r] =>
      specialize (IH s0 r0); destruct (post_returned s0 r0 r) as [[s2 ms] rm] end.
    exact IH.
  Qed.

  Lemma ast_sync_start n (s : sst A P) a' outs :
    a_start G n (ast s) = (a', outs) -> ast (fst (fst (sync_start nbrs G n s))) = a'.
  Proof.
    intros E. unfold sync_start. rewrite E.
    match goal with |- context [post_list ?s0 outs] =>
      pose proof (ast_post_list outs s0) as H1; destruct (post_list s0 outs) as [s1 m1] end.
    pose proof (ast_post_syncs (nbrs n) s1) as H2. destruct (post_syncs s1 (nbrs n)) as [s2 m2].
    cbn [fst ast end_cycle] in *. rewrite H2, H1. reflexivity.
  Qed.

  Lemma ast_switch_cycle n (s : sst A P) a' posted returned :
    a_cycle G n (ast s) (cur s) (algo_messages (cyc s)) = (a', posted, returned) ->
    ast (fst (fst (switch_cycle nbrs G n s))) = a'.
  Proof.
    intros E. unfold switch_cycle. rewrite E.
    match goal with |- context [post_list ?s0 posted] =>
      pose proof (ast_post_list posted s0) as H1; destruct (post_list s0 posted) as [s1 m1] end.
    pose proof (ast_post_returned returned s1 (nbrs n)) as H2.
    destruct (post_returned s1 (nbrs n) returned) as [[s2 m2] rem].
    cbn [fst ast] in *.
    destruct rem as [remaining|].
    - pose proof (ast_post_syncs remaining s2) as H3. destruct (post_syncs s2 remaining) as [s3 m3].
      cbn [fst ast end_cycle] in *. rewrite H3, H2, H1. reflexivity.
    - cbn [fst]. rewrite H2, H1. reflexivity.
  Qed.

  Lemma Q_sync_start n (s : sst A P) : Q n (ast s) -> Q n (ast (fst (fst (sync_start nbrs G n s)))).
  Proof.
    intros H. destruct (a_start G n (ast s)) as [a' outs] eqn:E.
    rewrite (ast_sync_start _ _ _ _ E). eapply Qstart; eauto.
  Qed.

  Lemma Q_switch_cycle n (s : sst A P) : Q n (ast s) -> Q n (ast (fst (fst (switch_cycle nbrs G n s)))).
  Proof.
    intros H. destruct (a_cycle G n (ast s) (cur s) (algo_messages (cyc s))) as [[a' po] re] eqn:E.
    rewrite (ast_switch_cycle _ _ _ _ _ E). eapply Qcycle; eauto.
  Qed.

  Lemma Q_sync_recv n (s : sst A P) src m :
    Q n (ast s) -> Q n (ast (fst (fst (sync_recv nbrs G n s src m)))).
  Proof.
    intros H. unfold sync_recv.
    destruct (negb (nmem src (nbrs n))); [exact H|].
    destruct (Nat.eqb (stamp m) (cur s)).
    - destruct (keymem src (cyc s)); [exact H|].
      match goal with |- context [if ?b then _ else _] => destruct b end.
      + apply Q_switch_cycle. exact H.
      + exact H.
    - destruct (Nat.eqb (stamp m) (S (cur s))); exact H.
  Qed.

  Theorem sync_algo_inv : forall sched n,
    Q n (ast (w_st (nodes (fst (run (sync_proto nbrs G) sched)) n))).
  Proof.
    intros sched n.
    apply (net_inv_state (sync_proto nbrs G) (fun n s => Q n (ast s)) (fun _ _ _ => True) (fun _ => True)).
    - intros x. apply Qinit.
    - intros x s s' outs evs Hs E. cbn in E.
      pose proof (Q_sync_start x s Hs) as H. rewrite E in H. cbn [fst] in H.
      split; [exact H|]. split; apply Forall_forall; intros; exact I.
    - intros x s src m s' outs evs Hs _ E. cbn in E.
      pose proof (Q_sync_recv x s src m Hs) as H. rewrite E in H. cbn [fst] in H.
      split; [exact H|]. split; apply Forall_forall; intros; exact I.
  Qed.
End SyncAlgoInv.
