(* P_RelKinds.v -- proofs about M_RelKinds (C11). *)
From PyDcop Require Import Base M_RelKinds.
From Coq Require Import Permutation.
Open Scope Z_scope.

(* ================= generic lemmas ================= *)
Lemma bind_ok {A B} (x : res A) (f : A -> res B) b :
  bind x f = Ok b -> exists a, x = Ok a /\ f a = Ok b.
Proof. destruct x; simpl; intros H; [eauto | discriminate]. Qed.

Lemma zlookup_cons k k' (v : Z) l :
  zlookup k ((k', v) :: l) = if k =? k' then Some v else zlookup k l.
Proof. reflexivity. Qed.

Lemma zlookup_app k (a b : asg) :
  zlookup k (a ++ b) = match zlookup k a with Some x => Some x | None => zlookup k b end.
Proof.
  induction a as [|[k' v] a IH]; simpl; auto.
  unfold zlookup in *; simpl. destruct (k =? k'); auto.
Qed.

Lemma zlookup_None_notin k (l : list (Z * Z)) : zlookup k l = None <-> ~ In k (map fst l).
Proof.
  induction l as [|[k' v] l IH]; simpl.
  - split; auto.
  - unfold zlookup in *; simpl. destruct (k =? k') eqn:E.
    + apply Z.eqb_eq in E; subst. split; [discriminate | intros H; exfalso; apply H; auto].
    + apply Z.eqb_neq in E. rewrite IH. split; intros H; [intros [H1|H1]; auto | auto].
Qed.

Lemma zlookup_In k v (l : list (Z * Z)) : zlookup k l = Some v -> In (k, v) l.
Proof.
  induction l as [|[k' v'] l IH]; simpl; [discriminate|].
  unfold zlookup in *; simpl. destruct (k =? k') eqn:E.
  - apply Z.eqb_eq in E; subst. intros H; inversion H; auto.
  - auto.
Qed.

Lemma In_zlookup k v (l : list (Z * Z)) : NoDup (map fst l) -> In (k, v) l -> zlookup k l = Some v.
Proof.
  induction l as [|[k' v'] l IH]; simpl; [contradiction|].
  intros Hnd [H|H]; inversion Hnd; subst; unfold zlookup in *; simpl.
  - inversion H; subst. now rewrite Z.eqb_refl.
  - destruct (k =? k') eqn:E; auto.
    apply Z.eqb_eq in E; subst. exfalso. apply H2. change k' with (fst (k', v)). now apply in_map.
Qed.

Lemma zlookup_perm (p p' : list (Z * Z)) :
  NoDup (map fst p) -> Permutation p p' -> forall k, zlookup k p = zlookup k p'.
Proof.
  intros Hnd Hp k.
  assert (Hnd' : NoDup (map fst p')) by (eapply Permutation_NoDup; [apply Permutation_map; eauto | auto]).
  destruct (zlookup k p) eqn:E.
  - apply zlookup_In in E. symmetry. apply In_zlookup; auto. eapply Permutation_in; eauto.
  - destruct (zlookup k p') eqn:E'; auto.
    apply zlookup_In in E'. apply Permutation_sym in Hp.
    eapply Permutation_in in E'; eauto. apply In_zlookup in E'; auto. congruence.
Qed.

Lemma has_key_iff k (l : asg) : has_key k l = true <-> In k (map fst l).
Proof.
  unfold has_key, mem_key. fold (@zlookup Z k l).
  destruct (zlookup k l) eqn:E.
  - split; auto. intros _. apply zlookup_In in E. change k with (fst (k, z)). now apply in_map.
  - apply zlookup_None_notin in E. split; [discriminate | contradiction].
Qed.

Lemma has_key_false k (l : asg) : has_key k l = false <-> ~ In k (map fst l).
Proof. rewrite <- has_key_iff. destruct (has_key k l); split; auto; try discriminate. intros H; exfalso; auto. Qed.

Lemma has_key_lookup k (l : asg) : has_key k l = match zlookup k l with Some _ => true | None => false end.
Proof. reflexivity. Qed.

Lemma has_key_app k (a b : asg) : has_key k (a ++ b) = has_key k a || has_key k b.
Proof. rewrite !has_key_lookup, zlookup_app. destruct (zlookup k a); auto. Qed.

Lemma bool_eq_iff (a b : bool) : (a = true <-> b = true) -> a = b.
Proof. destruct a, b; intros [H1 H2]; auto; symmetry; auto. Qed.

Lemma forallb_perm {A} (f : A -> bool) l l' : Permutation l l' -> forallb f l = forallb f l'.
Proof.
  intros H. apply bool_eq_iff. rewrite !forallb_forall. split; intros Hf x Hx; apply Hf.
  - eapply Permutation_in; [apply Permutation_sym|]; eauto.
  - eapply Permutation_in; eauto.
Qed.

Lemma forallb_ext_in {A} (f g : A -> bool) l : (forall x, In x l -> f x = g x) -> forallb f l = forallb g l.
Proof. induction l; simpl; auto. intros H. rewrite H, IHl; auto. Qed.

Lemma filter_ext_in' {A} (f g : A -> bool) l : (forall x, In x l -> f x = g x) -> filter f l = filter g l.
Proof. induction l; simpl; auto. intros H. rewrite H, IHl; auto. Qed.

Lemma is_nil_perm {A} (l l' : list A) : Permutation l l' -> is_nil l = is_nil l'.
Proof.
  intros H. destruct l, l'; auto.
  - apply Permutation_nil in H. discriminate.
  - apply Permutation_sym, Permutation_nil in H. discriminate.
Qed.

Lemma zmem_iff x l : zmem x l = true <-> In x l.
Proof. apply zmem_In. Qed.

Lemma map_fst_filter {A B} (f : A -> bool) (l : list (A * B)) :
  map fst (filter (fun ab => f (fst ab)) l) = filter f (map fst l).
Proof. induction l as [|[a b] l IH]; simpl; auto. destruct (f a); simpl; now rewrite IH. Qed.

Lemma filter_filter {A} (f g : A -> bool) l : filter g (filter f l) = filter (fun x => f x && g x) l.
Proof. induction l; simpl; auto. destruct (f a); simpl; [destruct (g a)|]; now rewrite IHl. Qed.

Lemma NoDup_filter {A} (f : A -> bool) l : NoDup l -> NoDup (filter f l).
Proof.
  induction 1; simpl; [constructor|]. destruct (f x); auto. constructor; auto.
  intros Hin. apply filter_In in Hin. tauto.
Qed.

Lemma NoDup_map_filter {A B} (g : A -> B) (f : A -> bool) l : NoDup (map g l) -> NoDup (map g (filter f l)).
Proof.
  induction l; simpl; auto. intros H; inversion H; subst. destruct (f a); simpl; auto.
  constructor; auto. intros Hin. apply H2. apply in_map_iff in Hin as [x [Hx Hin]].
  apply filter_In in Hin. rewrite <- Hx. apply in_map. tauto.
Qed.

(* forallb over the keys of a dict only depends on the key set *)
Lemma forallb_keys (P : Z -> bool) (l : asg) :
  forallb (fun kv => P (fst kv)) l = true <-> (forall k, has_key k l = true -> P k = true).
Proof.
  rewrite forallb_forall. split.
  - intros H k Hk. apply has_key_iff in Hk. apply in_map_iff in Hk as [[k' v] [E Hin]].
    simpl in E; subst. now apply (H (k, v)).
  - intros H [k v] Hin. simpl. apply H. apply has_key_iff. change k with (fst (k, v)). now apply in_map.
Qed.

Lemma eval_ext env env' e : (forall n, env n = env' n) -> eval env e = eval env' e.
Proof. intros H. induction e; simpl; try rewrite H; try rewrite IHe1, IHe2; try rewrite IHe; auto. Qed.

(* ================= matrix relations ================= *)
Definition mnames (dims : list (var * nat)) : list Z := map (fun vs => vname (fst vs)) dims.

Lemma mat_offset_ext dims p p' :
  (forall k, zlookup k p = zlookup k p') -> mat_offset dims p = mat_offset dims p'.
Proof.
  intros H. induction dims as [|[v s] r IH]; simpl; auto.
  rewrite H. destruct (zlookup (vname v) p'); auto. destruct (index_of z (vdom v)); auto. now rewrite IH.
Qed.

Lemma mat_offset_err dims p e : mat_offset dims p = Err e -> e = EValue.
Proof.
  revert e. induction dims as [|[v s] r IH]; simpl; intros e; [discriminate|].
  destruct (zlookup (vname v) p); auto. destruct (index_of z (vdom v)); [|intros H; now inversion H].
  destruct (mat_offset r p) eqn:E; simpl; [discriminate|]. intros H; inversion H; subst. now apply IH.
Qed.

Lemma has_key_ext p p' : (forall k, zlookup k p = zlookup k p') -> forall k, has_key k p = has_key k p'.
Proof. intros H k. now rewrite !has_key_lookup, H. Qed.

(* matrix_slice_order_irrelevant: the order of the keys of the partial assignment is irrelevant *)
Lemma slice_mat_perm dims data off p p' :
  NoDup (map fst p) -> Permutation p p' -> slice_mat dims data off p = slice_mat dims data off p'.
Proof.
  intros Hnd Hp. unfold slice_mat.
  rewrite (is_nil_perm _ _ Hp). destruct (is_nil p'); auto.
  rewrite (forallb_perm _ _ _ Hp).
  destruct (negb _); auto.
  pose proof (zlookup_perm _ _ Hnd Hp) as Hl.
  rewrite (mat_offset_ext _ _ _ Hl).
  destruct (mat_offset dims p'); simpl; auto.
  f_equal. f_equal. apply filter_ext_in'. intros x _. now rewrite (has_key_ext _ _ Hl).
Qed.

Lemma mat_offset_app dims p c :
  (forall k, In k (map fst p) -> ~ In k (map fst c)) ->
  mat_offset dims (p ++ c) =
  do o1 <- mat_offset dims p;
  do o2 <- mat_offset (filter (fun vs => negb (has_key (vname (fst vs)) p)) dims) c;
  Ok (o1 + o2)%nat.
Proof.
  intros Hdisj. induction dims as [|[v s] r IH]; simpl; auto.
  rewrite zlookup_app, has_key_lookup.
  destruct (zlookup (vname v) p) eqn:E; simpl.
  - destruct (index_of z (vdom v)); simpl; auto.
    rewrite IH. destruct (mat_offset r p); simpl; auto.
    destruct (mat_offset _ c); simpl; auto. f_equal. lia.
  - destruct (zlookup (vname v) c) eqn:Ec; [|now rewrite IH].
    destruct (index_of z (vdom v)); simpl.
    + rewrite IH. destruct (mat_offset r p); simpl; auto.
      destruct (mat_offset _ c); simpl; auto. f_equal. lia.
    + destruct (mat_offset r p) eqn:E1; simpl; auto. apply mat_offset_err in E1. now subst.
Qed.

Lemma slice_mat_is_mat dims data off p b :
  slice_mat dims data off p = Ok b ->
  exists o, b = RMat (filter (fun vs => negb (has_key (vname (fst vs)) p)) dims) data o.
Proof.
  unfold slice_mat. destruct p as [|kv p]; simpl.
  - intros H; inversion H; subst. exists off. f_equal. clear.
    induction dims as [|d ds IH]; simpl; auto. now rewrite <- IH.
  - destruct (negb _); [discriminate|]. destruct (mat_offset dims (kv :: p)); simpl; [|discriminate].
    intros H; inversion H; subst. eauto.
Qed.

(* slicing on p ++ c is slicing on p and then on c: the SAME relation (view) is obtained *)
Lemma slice_mat_app dims data off p c r :
  slice_mat dims data off p = Ok r ->
  (forall k, In k (map fst p) -> ~ In k (map fst c)) ->
  slice_mat dims data off (p ++ c) = bslice r c.
Proof.
  intros Hs Hdisj.
  destruct p as [|kv p]; [simpl in *; inversion Hs; reflexivity|].
  destruct c as [|kc c].
  - rewrite app_nil_r, Hs. apply slice_mat_is_mat in Hs as [o ->]. reflexivity.
  - remember (kv :: p) as P. remember (kc :: c) as C.
    revert Hs. unfold slice_mat at 1 2.
    assert (is_nil (P ++ C) = false) as -> by (subst; reflexivity).
    assert (is_nil P = false) as -> by (subst; reflexivity).
    rewrite forallb_app.
    destruct (forallb _ P) eqn:EP; simpl; [|discriminate].
    rewrite mat_offset_app; auto.
    destruct (mat_offset dims P) eqn:E1; simpl; [|discriminate].
    intros Hs; inversion Hs; subst r; clear Hs.
    simpl bslice. unfold slice_mat. assert (is_nil C = false) as -> by (subst; reflexivity).
    destruct (forallb _ C) eqn:EC; simpl.
    + assert (forallb (fun kv0 => zmem (fst kv0)
                (map (fun vs => vname (fst vs)) (filter (fun vs => negb (has_key (vname (fst vs)) P)) dims))) C = true) as ->.
      { apply forallb_forall. intros [k x] Hk. simpl.
        rewrite forallb_forall in EC. specialize (EC _ Hk). simpl in EC.
        apply zmem_iff in EC. apply zmem_iff.
        apply in_map_iff in EC as [vs [Evs Hvs]]. apply in_map_iff. exists vs. split; auto.
        apply filter_In. split; auto. rewrite Evs.
        destruct (has_key k P) eqn:EPk; auto. apply has_key_iff in EPk.
        exfalso. eapply Hdisj; eauto. change k with (fst (k, x)). now apply in_map. }
      simpl. destruct (mat_offset _ C); simpl; auto.
      f_equal. f_equal; [|lia].
      rewrite filter_filter. apply filter_ext_in'. intros x _.
      rewrite has_key_app. now rewrite negb_orb.
    + assert (forallb (fun kv0 => zmem (fst kv0)
                (map (fun vs => vname (fst vs)) (filter (fun vs => negb (has_key (vname (fst vs)) P)) dims))) C = false) as ->.
      { apply not_true_is_false. intros Ht. rewrite forallb_forall in Ht.
        assert (forallb (fun kv0 => zmem (fst kv0) (map (fun vs => vname (fst vs)) dims)) C = true); [|congruence].
        apply forallb_forall. intros x Hx. specialize (Ht x Hx). apply zmem_iff in Ht. apply zmem_iff.
        apply in_map_iff in Ht as [vs [Evs Hvs]]. apply filter_In in Hvs as [Hvs _].
        apply in_map_iff. eauto. }
      reflexivity.
Qed.

(* ================= well-formed relations ================= *)
(* what the constructors establish (see mk_fun_wf, mk_mat_wf below) *)
Definition wf_fun (f : fn) (vars : list var) (mapping : list (Z * Z)) (fkw : bool) : Prop :=
  NoDup (map vname vars) /\ NoDup (fparams f) /\
  (forall k, In k (map fst (ffixed f)) -> In k (fparams f)) /\
  (if fkw then mapping = ident_mapping vars /\ (forall a, In a (map vname vars) <-> In a (func_args f))
   else mapping = combine (map vname vars) (func_args f) /\ List.length vars = List.length (func_args f)).

Definition wf_b (r : brel) : Prop :=
  match r with
  | RFun f vars mapping fkw => wf_fun f vars mapping fkw
  | RMat dims _ _ => NoDup (mnames dims)
  | RNeutral vars => NoDup (map vname vars)
  | _ => True
  end.

Definition remaining (p : asg) (vs : list var) : list var :=
  filter (fun v => negb (has_key (vname v) p)) vs.

(* ----- matrix ----- *)
Lemma mat_slice_dims dims data off p b :
  slice_mat dims data off p = Ok b -> bdims b = remaining p (map fst dims).
Proof.
  intros H. apply slice_mat_is_mat in H as [o ->]. simpl. unfold remaining.
  apply (map_fst_filter (fun v => negb (has_key (vname v) p))).
Qed.

Lemma mat_slice_value dims data off p c b :
  slice_mat dims data off p = Ok b ->
  (forall k, In k (map fst p) -> ~ In k (map fst c)) ->
  bgv_dict b c = mat_gv_dict dims data off (p ++ c).
Proof.
  intros H Hd. unfold mat_gv_dict. rewrite (slice_mat_app _ _ _ _ _ _ H Hd).
  apply slice_mat_is_mat in H as [o ->]. reflexivity.
Qed.

Lemma zip_names_combine vars l :
  List.length l = List.length vars -> zip_names vars l = Ok (combine (map vname vars) l).
Proof.
  revert vars; induction l as [|x l IH]; intros [|v vs]; simpl; intros H; try discriminate; auto.
  rewrite IH; auto.
Qed.

Lemma map_fst_combine {A B} (a : list A) (b : list B) :
  List.length a = List.length b -> map fst (combine a b) = a.
Proof. revert b; induction a; intros [|y b]; simpl; intros H; try discriminate; auto. f_equal; auto. Qed.

Lemma map_snd_combine {A B} (a : list A) (b : list B) :
  List.length a = List.length b -> map snd (combine a b) = b.
Proof. revert b; induction a; intros [|y b]; simpl; intros H; try discriminate; auto. f_equal; auto. Qed.

Lemma perm_keys_nodup (kw full : asg) :
  NoDup (map fst full) -> Permutation kw full -> NoDup (map fst kw).
Proof. intros H P. eapply Permutation_NoDup; [apply Permutation_map, Permutation_sym; eauto | auto]. Qed.

Lemma mat_call_forms dims data off vals kw :
  NoDup (mnames dims) -> List.length vals = List.length dims ->
  Permutation kw (combine (mnames dims) vals) ->
  bcall_kw (RMat dims data off) kw = bcall_pos (RMat dims data off) vals /\
  bgv_dict (RMat dims data off) kw = bcall_pos (RMat dims data off) vals.
Proof.
  intros Hnd Hlen Hp.
  assert (Hk : NoDup (map fst kw)).
  { eapply perm_keys_nodup; eauto. rewrite map_fst_combine; auto. unfold mnames. now rewrite map_length. }
  assert (E : bgv_dict (RMat dims data off) kw = bcall_pos (RMat dims data off) vals).
  { simpl. unfold mat_gv_list. rewrite zip_names_combine by (now rewrite map_length).
    simpl. unfold mat_gv_dict. rewrite (slice_mat_perm _ _ _ _ _ Hk Hp).
    unfold mnames. now rewrite map_map. }
  split; auto. unfold bcall_kw. destruct kw as [|kv kw]; simpl is_nil; cbv iota; auto.
  apply Permutation_nil in Hp. destruct dims, vals; simpl in *; try discriminate; auto.
Qed.

(* ----- functions ----- *)
Definition gmap (mapping : list (Z * Z)) (kv : Z * Z) : Z * Z :=
  (match zlookup (fst kv) mapping with Some a => a | None => 0 end, snd kv).

Lemma fad_spec mapping d :
  fun_args_dict mapping d =
  if forallb (fun kv => has_key (fst kv) mapping) d then Ok (map (gmap mapping) d) else Err EKey.
Proof.
  induction d as [|[vn x] d IH]; simpl; auto.
  rewrite has_key_lookup. unfold gmap at 1. simpl.
  destruct (zlookup vn mapping); simpl; auto. rewrite IH.
  destruct (forallb _ d); reflexivity.
Qed.

Lemma fal_eq vars mapping l :
  (List.length l <= List.length vars)%nat ->
  fun_args_list vars mapping l = fun_args_dict mapping (combine (map vname vars) l).
Proof.
  revert vars; induction l as [|x l IH]; intros [|v vs]; simpl; intros H; auto; try lia.
  destruct (zlookup (vname v) mapping); auto. rewrite IH; auto. lia.
Qed.

Lemma forallb_keys_ext (P : Z -> bool) (a a' : asg) :
  (forall k, has_key k a = has_key k a') ->
  forallb (fun kv => P (fst kv)) a = forallb (fun kv => P (fst kv)) a'.
Proof.
  intros H. apply bool_eq_iff. rewrite !forallb_keys. split; intros Hf k Hk; apply Hf; congruence.
Qed.

Lemma fn_call_ext f a a' : (forall k, zlookup k a = zlookup k a') -> fn_call f a = fn_call f a'.
Proof.
  intros H. pose proof (has_key_ext _ _ H) as Hh. unfold fn_call. destruct (fk f).
  - rewrite (forallb_ext_in (fun p => has_key p a) (fun p => has_key p a')) by (intros; apply Hh).
    rewrite (forallb_keys_ext (fun k => zmem k (func_args f)) a a' Hh).
    destruct (negb _); auto. destruct (negb _); auto.
    apply eval_ext. intros n. now rewrite H.
  - rewrite (forallb_keys_ext (fun k => zmem k (fparams f)) a a' Hh).
    rewrite (forallb_ext_in (fun p => has_key p a || has_key p (ffixed f))
                            (fun p => has_key p a' || has_key p (ffixed f))) by (intros; now rewrite Hh).
    destruct (negb _); auto. destruct (negb _); auto. destruct (negb _); auto.
    apply eval_ext. intros n. now rewrite H.
Qed.

Lemma NoDup_snd_inj (l : list (Z * Z)) x y a :
  NoDup (map snd l) -> In (x, a) l -> In (y, a) l -> x = y.
Proof.
  induction l as [|[k v] l IH]; simpl; [contradiction|].
  intros Hnd; inversion Hnd as [|? ? Hni Hnd']; subst. intros [Ha|Ha] [Hb|Hb].
  - congruence.
  - inversion Ha; subst. exfalso. apply Hni. change a with (snd (y, a)). now apply in_map.
  - inversion Hb; subst. exfalso. apply Hni. change a with (snd (x, a)). now apply in_map.
  - auto.
Qed.

Lemma NoDup_map_inj_in {A B} (m : A -> B) (l : list A) :
  NoDup l -> (forall x y, In x l -> In y l -> m x = m y -> x = y) -> NoDup (map m l).
Proof.
  induction 1; simpl; intros Hinj; constructor.
  - intros Hin. apply in_map_iff in Hin as [y [E Hy]]. apply H.
    assert (y = x) by (apply Hinj; auto). now subst.
  - apply IHNoDup. intros; apply Hinj; auto.
Qed.

(* the keys of the translated argument dict are distinct when the mapping is injective *)
Lemma gmap_keys_nodup mapping d :
  NoDup (map snd mapping) -> NoDup (map fst d) ->
  forallb (fun kv => has_key (fst kv) mapping) d = true ->
  NoDup (map fst (map (gmap mapping) d)).
Proof.
  intros Hs Hd Hall. rewrite map_map. simpl.
  rewrite <- (map_map fst (fun k => match zlookup k mapping with Some a => a | None => 0 end)).
  apply NoDup_map_inj_in; auto.
  intros x y Hx Hy E.
  pose proof (proj1 (forallb_keys (fun k => has_key k mapping) d) Hall) as Hall'. simpl in Hall'.
  assert (Hx' : has_key x mapping = true) by (apply Hall'; now apply has_key_iff).
  assert (Hy' : has_key y mapping = true) by (apply Hall'; now apply has_key_iff).
  rewrite has_key_lookup in Hx', Hy'.
  destruct (zlookup x mapping) eqn:Ex; [|discriminate].
  destruct (zlookup y mapping) eqn:Ey; [|discriminate]. subst.
  eapply NoDup_snd_inj; eauto using zlookup_In.
Qed.

Lemma fun_gv_dict_perm f mapping d d' :
  NoDup (map snd mapping) -> NoDup (map fst d) -> Permutation d d' ->
  fun_gv_dict f mapping d = fun_gv_dict f mapping d'.
Proof.
  intros Hs Hd Hp. unfold fun_gv_dict. rewrite !fad_spec.
  rewrite <- (forallb_perm _ _ _ Hp).
  destruct (forallb _ d) eqn:E; simpl; auto.
  apply fn_call_ext. apply zlookup_perm.
  - now apply gmap_keys_nodup.
  - now apply Permutation_map.
Qed.

Lemma func_args_nodup f : NoDup (fparams f) -> NoDup (func_args f).
Proof. apply NoDup_filter. Qed.

Lemma ident_fst vars : map fst (ident_mapping vars) = map vname vars.
Proof. unfold ident_mapping. rewrite map_map. reflexivity. Qed.
Lemma ident_snd vars : map snd (ident_mapping vars) = map vname vars.
Proof. unfold ident_mapping. rewrite map_map. reflexivity. Qed.

Lemma wf_fun_facts f vars mapping fkw :
  wf_fun f vars mapping fkw ->
  map fst mapping = map vname vars /\ NoDup (map snd mapping) /\
  (forall a, In a (map snd mapping) <-> In a (func_args f)).
Proof.
  intros (Hn & Hp & Hf & H). destruct fkw.
  - destruct H as [-> H]. rewrite ident_fst, ident_snd. auto.
  - destruct H as [-> H]. rewrite map_fst_combine, map_snd_combine by (now rewrite map_length).
    repeat split; auto. now apply func_args_nodup.
Qed.

Lemma zlookup_ident vars k :
  zlookup k (ident_mapping vars) = if zmem k (map vname vars) then Some k else None.
Proof.
  induction vars as [|v vs IH]; simpl; auto.
  unfold zlookup in *; simpl. unfold zmem in *. simpl.
  destruct (k =? vname v) eqn:E; simpl; auto. apply Z.eqb_eq in E. now subst.
Qed.

Lemma fun_call_forms f vars mapping fkw vals kw :
  wf_fun f vars mapping fkw -> List.length vals = List.length vars ->
  Permutation kw (combine (map vname vars) vals) ->
  bcall_kw (RFun f vars mapping fkw) kw = bcall_pos (RFun f vars mapping fkw) vals /\
  bgv_dict (RFun f vars mapping fkw) kw = bcall_pos (RFun f vars mapping fkw) vals.
Proof.
  intros Hwf Hlen Hp. pose proof (wf_fun_facts _ _ _ _ Hwf) as (Hfst & Hsnd & _).
  destruct Hwf as (Hn & _).
  assert (Hk : NoDup (map fst kw)).
  { eapply perm_keys_nodup; eauto. rewrite map_fst_combine; auto. now rewrite map_length. }
  assert (E : bgv_dict (RFun f vars mapping fkw) kw = bcall_pos (RFun f vars mapping fkw) vals).
  { simpl. unfold fun_gv_list. rewrite fal_eq by lia.
    apply (fun_gv_dict_perm f mapping kw _ Hsnd Hk Hp). }
  split; auto. unfold bcall_kw. destruct kw as [|kv kw']; simpl is_nil; cbv iota; auto.
  apply Permutation_nil in Hp. destruct vars, vals; simpl in *; try discriminate; auto.
Qed.

(* ----- dict_merge ----- *)
Lemma zlookup_merge (b a : asg) n :
  NoDup (map fst b) ->
  zlookup n (dict_merge a b) = match zlookup n b with Some x => Some x | None => zlookup n a end.
Proof.
  unfold dict_merge. revert a. induction b as [|[k v] b IH]; simpl; intros a Hnd; auto.
  inversion Hnd as [|? ? Hni Hnd']; subst. rewrite IH; auto.
  unfold zlookup at 3. simpl. fold (@zlookup Z n b).
  destruct (n =? k) eqn:E.
  - apply Z.eqb_eq in E; subst n.
    assert (zlookup k b = None) as -> by (now apply zlookup_None_notin).
    unfold zlookup. apply lookup_dict_set_same. intros; apply Z.eqb_eq.
  - destruct (zlookup n b); auto.
    unfold zlookup. apply lookup_dict_set_other; [intros; apply Z.eqb_eq|]. now apply Z.eqb_neq.
Qed.

Lemma has_key_merge (b a : asg) n :
  NoDup (map fst b) -> has_key n (dict_merge a b) = has_key n a || has_key n b.
Proof.
  intros H. rewrite !has_key_lookup, zlookup_merge by auto.
  destruct (zlookup n b), (zlookup n a); auto.
Qed.

(* ----- parallel filtering of the variable list and of the argument list ----- *)
Lemma par_filter (P Q : Z -> bool) (ns args : list Z) :
  List.length ns = List.length args ->
  (forall n a, In (n, a) (combine ns args) -> P n = Q a) ->
  combine (filter P ns) (filter Q args) = filter (fun na => P (fst na)) (combine ns args) /\
  List.length (filter P ns) = List.length (filter Q args).
Proof.
  revert args; induction ns as [|n ns IH]; intros [|a args]; simpl; intros Hl Hpq; try discriminate; auto.
  assert (E : P n = Q a) by (apply Hpq; auto).
  destruct (IH args) as [IH1 IH2]; auto.
  rewrite <- E. destruct (P n); simpl; rewrite IH1, IH2; auto.
Qed.

Lemma map_args_combine vars args :
  (List.length args <= List.length vars)%nat ->
  map_args vars args = Ok (combine (map vname vars) args).
Proof.
  revert vars; induction args as [|a args IH]; intros [|v vs]; simpl; intros H; auto; try lia.
  rewrite IH by lia. reflexivity.
Qed.

Lemma map_filter_vname (P : Z -> bool) (vars : list var) :
  map vname (filter (fun v => P (vname v)) vars) = filter P (map vname vars).
Proof. induction vars as [|v vs IH]; simpl; auto. destruct (P (vname v)); simpl; now rewrite IH. Qed.

Lemma fad_ext_in m1 m2 d :
  (forall kv, In kv d -> zlookup (fst kv) m1 = zlookup (fst kv) m2) ->
  fun_args_dict m1 d = fun_args_dict m2 d.
Proof.
  induction d as [|[k x] d IH]; simpl; auto. intros H.
  pose proof (H (k, x) (or_introl eq_refl)) as E. simpl in E. rewrite E.
  destruct (zlookup k m2); auto. rewrite IH; auto.
Qed.

Lemma fad_app mapping p c :
  fun_args_dict mapping (p ++ c) =
  do a <- fun_args_dict mapping p; do b <- fun_args_dict mapping c; Ok (a ++ b).
Proof.
  induction p as [|[k x] p IH]; simpl.
  - destruct (fun_args_dict mapping c); reflexivity.
  - destruct (zlookup k mapping); auto. rewrite IH.
    destruct (fun_args_dict mapping p); simpl; auto. destruct (fun_args_dict mapping c); reflexivity.
Qed.

Lemma zlookup_filter_fst (P : Z -> bool) (l : list (Z * Z)) k :
  P k = true -> zlookup k (filter (fun na => P (fst na)) l) = zlookup k l.
Proof.
  intros HP. induction l as [|[n a] l IH]; simpl; auto.
  destruct (P n) eqn:E; unfold zlookup in *; simpl.
  - destruct (k =? n); auto.
  - destruct (k =? n) eqn:E2; auto. apply Z.eqb_eq in E2. congruence.
Qed.

Lemma remaining_names p vars :
  map vname (remaining p vars) = filter (fun n => negb (has_key n p)) (map vname vars).
Proof. unfold remaining. apply (map_filter_vname (fun n => negb (has_key n p))). Qed.

Lemma gmap_ident_id vars (p : asg) :
  (forall k, In k (map fst p) -> In k (map vname vars)) -> map (gmap (ident_mapping vars)) p = p.
Proof.
  intros H. rewrite <- (map_id p) at 2. apply map_ext_in. intros [k x] Hin. unfold gmap. simpl.
  rewrite zlookup_ident.
  assert (zmem k (map vname vars) = true) as ->; auto.
  apply zmem_iff, H. change k with (fst (k, x)). now apply in_map.
Qed.

Lemma has_key_gmap mapping (p : asg) a :
  forallb (fun kv => has_key (fst kv) mapping) p = true ->
  (has_key a (map (gmap mapping) p) = true <->
   exists k, In k (map fst p) /\ zlookup k mapping = Some a).
Proof.
  intros Hall. rewrite has_key_iff. rewrite forallb_forall in Hall. split.
  - intros Hin. apply in_map_iff in Hin as [[a' x] [E Hin]]. simpl in E; subst a'.
    apply in_map_iff in Hin as [[k y] [E Hin]]. unfold gmap in E. simpl in E.
    specialize (Hall _ Hin). simpl in Hall. rewrite has_key_lookup in Hall.
    destruct (zlookup k mapping) eqn:Ek; [|discriminate]. inversion E; subst.
    exists k. split; auto. change k with (fst (k, x)). now apply in_map.
  - intros [k [Hk Ek]]. apply in_map_iff in Hk as [[k' x] [E Hin]]. simpl in E; subst k'.
    apply in_map_iff. exists (a, x). split; auto. apply in_map_iff. exists (k, x). split; auto.
    unfold gmap. simpl. now rewrite Ek.
Qed.

Lemma func_args_partial f sd :
  NoDup (map fst sd) ->
  func_args (mkFn (fk f) (fparams f) (fbody f) (dict_merge (ffixed f) sd)) =
  filter (fun a => negb (has_key a sd)) (func_args f).
Proof.
  intros Hnd. unfold func_args. simpl. rewrite filter_filter. apply filter_ext_in'. intros x _.
  rewrite has_key_merge by auto. now rewrite negb_orb.
Qed.

Lemma fn_partial_inv f sd f' :
  fn_partial f sd = Ok f' -> f' = mkFn (fk f) (fparams f) (fbody f) (dict_merge (ffixed f) sd).
Proof.
  unfold fn_partial. destruct (fk f); [destruct (forallb _ _)|]; intros H; inversion H; auto.
Qed.

(* what NAryFunctionRelation.slice returns on a non-empty partial assignment *)
Lemma slice_fun_inv f vars mapping fkw p b' :
  wf_fun f vars mapping fkw -> NoDup (map fst p) -> p <> [] ->
  slice_fun f vars mapping fkw p = Ok b' ->
  exists f' mapping',
    b' = RFun f' (remaining p vars) mapping' fkw /\
    f' = mkFn (fk f) (fparams f) (fbody f) (dict_merge (ffixed f) (map (gmap mapping) p)) /\
    forallb (fun kv => has_key (fst kv) mapping) p = true /\
    (forall k, In k (map fst p) -> In k (map vname vars)) /\
    wf_fun f' (remaining p vars) mapping' fkw /\
    (forall n, In n (map vname (remaining p vars)) -> zlookup n mapping' = zlookup n mapping).
Proof.
  intros Hwf Hp Hne. pose proof (wf_fun_facts _ _ _ _ Hwf) as (Hfst & Hsnd & Hargs).
  unfold slice_fun. destruct p as [|kv0 p0]; [congruence|]. remember (kv0 :: p0) as P.
  assert (is_nil P = false) as -> by (subst; reflexivity).
  destruct (_ <? _)%nat; [discriminate|].
  destruct (forallb (fun kv => zmem (fst kv) (map vname vars)) P) eqn:Eknown; simpl; [|discriminate].
  intros H. apply bind_ok in H as [sd [Hsd H]]. apply bind_ok in H as [f' [Hf' Hmk]].
  rewrite fad_spec in Hsd. destruct (forallb (fun kv => has_key (fst kv) mapping) P) eqn:Eall; [|discriminate].
  inversion Hsd; subst sd; clear Hsd.
  apply fn_partial_inv in Hf'.
  change (filter (fun v => negb (has_key (vname v) P)) vars) with (remaining P vars) in Hmk.
  assert (Hin : forall k, In k (map fst P) -> In k (map vname vars)).
  { intros k Hk. apply in_map_iff in Hk as [[k' x] [E Hk]]. simpl in E; subst k'.
    rewrite forallb_forall in Eknown. specialize (Eknown _ Hk). now apply zmem_iff in Eknown. }
  set (sd := map (gmap mapping) P) in *.
  assert (Hsdnd : NoDup (map fst sd)) by (now apply gmap_keys_nodup).
  assert (Hfa : func_args f' = filter (fun a => negb (has_key a sd)) (func_args f))
    by (subst f'; now apply func_args_partial).
  assert (Hsd_sub : forall a, has_key a sd = true -> In a (func_args f)).
  { intros a Ha. apply has_key_gmap in Ha as [k [_ Ek]]; auto.
    apply Hargs. apply zlookup_In in Ek. change a with (snd (k, a)). now apply in_map. }
  destruct Hwf as (Hn & Hpar & Hfix & Hkind).
  assert (Hfix' : forall k, In k (map fst (ffixed f')) -> In k (fparams f')).
  { subst f'. simpl. intros k Hk. apply has_key_iff in Hk. rewrite has_key_merge in Hk by auto.
    apply orb_true_iff in Hk as [Hk|Hk].
    - apply Hfix. now apply has_key_iff.
    - apply Hsd_sub in Hk. unfold func_args in Hk. apply filter_In in Hk. tauto. }
  assert (Hparams' : fparams f' = fparams f) by (subst f'; reflexivity).
  assert (Hnrem : NoDup (map vname (remaining P vars))) by (unfold remaining; now apply NoDup_map_filter).
  destruct fkw.
  - (* keyword mapping *)
    destruct Hkind as [-> Hiff]. simpl in Hmk. inversion Hmk; subst b'; clear Hmk.
    assert (Esd : sd = P) by (unfold sd; now apply gmap_ident_id).
    exists f', (ident_mapping (remaining P vars)). repeat split; auto.
    + rewrite Hparams'; auto.
    + rewrite remaining_names, Hfa. rewrite Esd. intros Ha. apply filter_In in Ha as [Ha1 Ha2].
      apply filter_In. split; auto. now apply Hiff.
    + rewrite remaining_names, Hfa. rewrite Esd. intros Ha. apply filter_In in Ha as [Ha1 Ha2].
      apply filter_In. split; auto. now apply Hiff.
    + intros n Hn'. rewrite !zlookup_ident.
      assert (zmem n (map vname (remaining P vars)) = true) as -> by (now apply zmem_iff).
      rewrite remaining_names in Hn'. apply filter_In in Hn' as [Hn' _].
      assert (zmem n (map vname vars) = true) as -> by (now apply zmem_iff). reflexivity.
  - (* positional mapping *)
    destruct Hkind as [-> Hlen].
    set (Pn := fun n => negb (has_key n P)). set (Q := fun a => negb (has_key a sd)).
    assert (Hpq : forall n a, In (n, a) (combine (map vname vars) (func_args f)) -> Pn n = Q a).
    { intros n a Hna. unfold Pn, Q. f_equal. apply bool_eq_iff. split.
      - intros Hk. apply has_key_gmap; auto. exists n. split; [now apply has_key_iff|].
        apply In_zlookup; auto. now rewrite Hfst.
      - intros Hk. apply has_key_gmap in Hk as [k [Hk Ek]]; auto.
        apply zlookup_In in Ek. assert (k = n) by (eapply NoDup_snd_inj; eauto). subst.
        now apply has_key_iff. }
    destruct (par_filter Pn Q (map vname vars) (func_args f)) as [Hcomb Hl]; auto.
    { now rewrite map_length. }
    assert (Hnames : map vname (remaining P vars) = filter Pn (map vname vars)) by apply remaining_names.
    assert (Hlen' : List.length (remaining P vars) = List.length (func_args f')).
    { rewrite <- (map_length vname), Hnames, Hfa. exact Hl. }
    assert (Hm : exists mapping', mk_fun f' (remaining P vars) false = Ok (RFun f' (remaining P vars) mapping' false)
                 /\ mapping' = combine (map vname (remaining P vars)) (func_args f')).
    { unfold mk_fun. destruct (func_args f') eqn:Efa.
      - destruct (remaining P vars); [|discriminate]. exists []. auto.
      - rewrite map_args_combine by lia. simpl. eauto. }
    destruct Hm as [mapping' [Hm1 Hm2]]. rewrite Hm1 in Hmk. inversion Hmk; subst b'; clear Hmk.
    exists f', mapping'. repeat split; auto.
    + rewrite Hparams'; auto.
    + intros n Hn'. rewrite Hm2, Hnames, Hfa. fold Q. rewrite Hcomb.
      apply zlookup_filter_fst. rewrite Hnames in Hn'. apply filter_In in Hn'. tauto.
Qed.

Lemma forallb_filter {A} (g h : A -> bool) l :
  forallb g (filter h l) = forallb (fun x => negb (h x) || g x) l.
Proof. induction l; simpl; auto. destruct (h a); simpl; now rewrite IHl. Qed.

Lemma zmem_filter (Q : Z -> bool) k l : zmem k (filter Q l) = Q k && zmem k l.
Proof.
  apply bool_eq_iff. rewrite andb_true_iff, !zmem_iff, filter_In. tauto.
Qed.

(* calling the partially applied function = calling the original with the fixed arguments added *)
Lemma fn_call_partial f sd a_c :
  NoDup (map fst sd) ->
  (forall a, has_key a sd = true -> In a (func_args f)) ->
  (forall a, has_key a sd = true -> has_key a a_c = false) ->
  fn_call (mkFn (fk f) (fparams f) (fbody f) (dict_merge (ffixed f) sd)) a_c = fn_call f (sd ++ a_c).
Proof.
  intros Hnd Hsub Hdisj.
  assert (Hfixed : forall a, has_key a sd = true -> has_key a (ffixed f) = false).
  { intros a Ha. apply Hsub in Ha. unfold func_args in Ha. apply filter_In in Ha as [_ Ha].
    now apply negb_true_iff in Ha. }
  assert (Hparams : forall a, has_key a sd = true -> In a (fparams f)).
  { intros a Ha. apply Hsub in Ha. unfold func_args in Ha. apply filter_In in Ha. tauto. }
  assert (Hac : forall k, has_key k a_c = true -> has_key k sd = false).
  { intros k Hk. destruct (has_key k sd) eqn:E; auto. apply Hdisj in E. congruence. }
  unfold fn_call. cbn [fk ffixed fparams fbody].
  destruct (fk f) eqn:Ek.
  - pose proof (func_args_partial f sd Hnd) as Hfp. rewrite Ek in Hfp. rewrite Hfp.
    assert (C1 : forallb (fun p => has_key p a_c) (filter (fun a => negb (has_key a sd)) (func_args f))
                 = forallb (fun p => has_key p (sd ++ a_c)) (func_args f)).
    { rewrite forallb_filter. apply forallb_ext_in. intros x _.
      rewrite has_key_app, negb_involutive. reflexivity. }
    assert (C2 : forallb (fun kv => zmem (fst kv) (filter (fun a => negb (has_key a sd)) (func_args f))) a_c
                 = forallb (fun kv => zmem (fst kv) (func_args f)) (sd ++ a_c)).
    { rewrite forallb_app.
      assert (forallb (fun kv => zmem (fst kv) (func_args f)) sd = true) as ->.
      { apply (forallb_keys (fun k => zmem k (func_args f))). intros k Hk. apply zmem_iff. auto. }
      simpl. apply forallb_ext_in. intros [k x] Hin. simpl. rewrite zmem_filter.
      rewrite Hac; auto. apply has_key_iff. change k with (fst (k, x)). now apply in_map. }
    rewrite C1, C2. destruct (negb _); auto. destruct (negb _); auto.
    apply eval_ext. intros n. rewrite zlookup_merge by auto. rewrite zlookup_app.
    destruct (zlookup n sd) eqn:E; auto.
    assert (has_key n sd = true) as Hk by (now rewrite has_key_lookup, E).
    apply Hfixed in Hk. rewrite has_key_lookup in Hk. destruct (zlookup n (ffixed f)); [discriminate|auto].
  - assert (C1 : forallb (fun kv => zmem (fst kv) (fparams f)) a_c
                 = forallb (fun kv => zmem (fst kv) (fparams f)) (sd ++ a_c)).
    { rewrite forallb_app.
      assert (forallb (fun kv => zmem (fst kv) (fparams f)) sd = true) as ->; auto.
      apply (forallb_keys (fun k => zmem k (fparams f))). intros k Hk. apply zmem_iff. auto. }
    assert (C2 : forallb (fun kv => zmem (fst kv) (fparams f)) (dict_merge (ffixed f) sd)
                 = forallb (fun kv => zmem (fst kv) (fparams f)) (ffixed f)).
    { apply bool_eq_iff.
      rewrite (forallb_keys (fun k => zmem k (fparams f)) (dict_merge (ffixed f) sd)).
      rewrite (forallb_keys (fun k => zmem k (fparams f)) (ffixed f)).
      split; intros H k Hk.
      - apply H. rewrite has_key_merge by auto. now rewrite Hk.
      - rewrite has_key_merge in Hk by auto. apply orb_true_iff in Hk as [Hk|Hk]; auto.
        apply zmem_iff. auto. }
    assert (C3 : forallb (fun p => has_key p a_c || has_key p (dict_merge (ffixed f) sd)) (fparams f)
                 = forallb (fun p => has_key p (sd ++ a_c) || has_key p (ffixed f)) (fparams f)).
    { apply forallb_ext_in. intros x _. rewrite has_key_merge by auto. rewrite has_key_app.
      destruct (has_key x a_c), (has_key x (ffixed f)), (has_key x sd); reflexivity. }
    rewrite C1, C2, C3. destruct (negb _); auto. destruct (negb _); auto. destruct (negb _); auto.
    apply eval_ext. intros n. rewrite zlookup_merge by auto. rewrite zlookup_app.
    destruct (zlookup n sd) eqn:E.
    + assert (has_key n sd = true) as Hk by (now rewrite has_key_lookup, E).
      apply Hdisj in Hk. rewrite has_key_lookup in Hk. destruct (zlookup n a_c); [discriminate|auto].
    + destruct (zlookup n a_c); auto.
Qed.

Lemma fun_slice_value f vars mapping fkw p c b' :
  wf_fun f vars mapping fkw -> NoDup (map fst p) ->
  slice_fun f vars mapping fkw p = Ok b' ->
  (forall k, In k (map fst c) -> In k (bnames b')) ->
  bgv_dict b' c = fun_gv_dict f mapping (p ++ c).
Proof.
  intros Hwf Hp Hs Hc.
  destruct p as [|kv0 p0]; [simpl in Hs; inversion Hs; reflexivity|].
  remember (kv0 :: p0) as P.
  assert (Hne : P <> []) by (subst; discriminate).
  pose proof (wf_fun_facts _ _ _ _ Hwf) as (Hfst & Hsnd & Hargs).
  destruct (slice_fun_inv _ _ _ _ _ _ Hwf Hp Hne Hs) as (f' & mapping' & -> & Hf' & Eall & Hin & Hwf' & Hagree).
  unfold bnames in Hc. simpl in Hc. simpl bgv_dict. unfold fun_gv_dict.
  rewrite (fad_ext_in mapping' mapping c).
  2:{ intros [k x] Hk. simpl. apply Hagree, Hc. change k with (fst (k, x)). now apply in_map. }
  rewrite fad_app. rewrite (fad_spec mapping P), Eall. simpl.
  rewrite (fad_spec mapping c). destruct (forallb (fun kv => has_key (fst kv) mapping) c) eqn:Ec; simpl; auto.
  rewrite Hf'. apply fn_call_partial.
  - now apply gmap_keys_nodup.
  - intros a Ha. apply has_key_gmap in Ha as [k [_ Ek]]; auto.
    apply Hargs. apply zlookup_In in Ek. change a with (snd (k, a)). now apply in_map.
  - intros a Ha. destruct (has_key a (map (gmap mapping) c)) eqn:E; auto. exfalso.
    apply has_key_gmap in Ha as [k [Hk Ek]]; auto.
    apply has_key_gmap in E as [k' [Hk' Ek']]; auto.
    assert (k = k') by (eapply NoDup_snd_inj; eauto using zlookup_In). subst k'.
    apply Hc in Hk'. rewrite remaining_names in Hk'. apply filter_In in Hk' as [_ Hk'].
    apply negb_true_iff in Hk'. apply has_key_false in Hk'. contradiction.
Qed.

(* ================= all non-conditional kinds ================= *)
Lemma remaining_nil vars : remaining [] vars = vars.
Proof. unfold remaining. induction vars as [|v vs IH]; simpl; auto. f_equal. exact IH. Qed.

Lemma mk_fun_dims f vars fkw b : mk_fun f vars fkw = Ok b -> bdims b = vars.
Proof.
  unfold mk_fun. destruct fkw; [intros H; inversion H; reflexivity|].
  destruct (func_args f); [intros H; inversion H; reflexivity|].
  intros H. apply bind_ok in H as [m [_ H]]. inversion H; reflexivity.
Qed.

Lemma slice_fun_dims f vars mapping fkw p b :
  slice_fun f vars mapping fkw p = Ok b -> bdims b = remaining p vars.
Proof.
  unfold slice_fun. destruct p as [|kv p].
  - simpl. intros H; inversion H; subst. simpl. now rewrite remaining_nil.
  - remember (kv :: p) as P. assert (is_nil P = false) as -> by (subst; reflexivity).
    destruct (_ <? _)%nat; [discriminate|]. destruct (negb _); [discriminate|].
    intros H. apply bind_ok in H as [sd [_ H]]. apply bind_ok in H as [f' [_ H]].
    now apply mk_fun_dims in H.
Qed.

(* slice_spec, dimensions: exactly the remaining variables, in the original order *)
Lemma bslice_dims_l b p b' : bslice b p = Ok b' -> bdims b' = remaining p (bdims b).
Proof.
  destruct b; simpl.
  - destruct p; simpl; [|discriminate]. intros H; inversion H; reflexivity.
  - destruct p as [|[k x] [|? ?]]; try discriminate.
    + intros H; inversion H; reflexivity.
    + destruct (k =? vname v) eqn:E; simpl; [|discriminate].
      intros H. apply bind_ok in H as [y [_ H]]. inversion H; subst. simpl.
      unfold has_key, mem_key; simpl. rewrite Z.eqb_sym, E. reflexivity.
  - destruct p as [|[k x] [|? ?]]; try discriminate.
    + intros H; inversion H; reflexivity.
    + destruct (k =? vname v) eqn:E; simpl; [|discriminate].
      intros H. inversion H; subst. simpl.
      unfold has_key, mem_key; simpl. rewrite Z.eqb_sym, E. reflexivity.
  - apply slice_fun_dims.
  - apply mat_slice_dims.
  - intros H; inversion H; reflexivity.
Qed.

Lemma incl_remaining_disjoint p vars (c : asg) :
  (forall k, In k (map fst c) -> In k (map vname (remaining p vars))) ->
  forall k, In k (map fst p) -> ~ In k (map fst c).
Proof.
  intros H k Hp Hc. apply H in Hc. rewrite remaining_names in Hc. apply filter_In in Hc as [_ Hc].
  apply negb_true_iff, has_key_false in Hc. contradiction.
Qed.

(* slice_spec, values: the sliced relation agrees with the original on every completion *)
Lemma bslice_value_l b p b' c :
  wf_b b -> NoDup (map fst p) -> bslice b p = Ok b' ->
  (forall k, In k (map fst c) -> In k (bnames b')) ->
  bgv_dict b' c = bgv_dict b (p ++ c).
Proof.
  intros Hwf Hp Hs Hc. pose proof (bslice_dims_l _ _ _ Hs) as Hd.
  destruct b as [value|v param body|v|f vars mapping fkw|mdims data off|nvars]; simpl in Hs.
  - destruct p; simpl in Hs; [|discriminate]. inversion Hs; reflexivity.
  - destruct p as [|[k x] [|? ?]]; try discriminate.
    + inversion Hs; reflexivity.
    + destruct (k =? vname v) eqn:E; simpl in Hs; [|discriminate].
      apply bind_ok in Hs as [y [Hy Hs]]. inversion Hs; subst b'.
      unfold bnames in Hc; simpl in Hc. destruct c as [|[kc xc] c]; [|exfalso; apply (Hc kc); simpl; auto].
      simpl. unfold zlookup; simpl. rewrite Z.eqb_sym, E. now rewrite Hy.
  - destruct p as [|[k x] [|? ?]]; try discriminate.
    + inversion Hs; reflexivity.
    + destruct (k =? vname v) eqn:E; simpl in Hs; [|discriminate].
      inversion Hs; subst b'.
      unfold bnames in Hc; simpl in Hc. destruct c as [|[kc xc] c]; [|exfalso; apply (Hc kc); simpl; auto].
      simpl. unfold zlookup; simpl. rewrite Z.eqb_sym, E. reflexivity.
  - simpl. eapply fun_slice_value; eauto.
  - simpl. eapply mat_slice_value; eauto.
    unfold bnames in Hc. rewrite Hd in Hc. now apply (incl_remaining_disjoint p (bdims (RMat mdims data off))).
  - inversion Hs; reflexivity.
Qed.

Lemma bslice_wf_l b p b' : wf_b b -> NoDup (map fst p) -> bslice b p = Ok b' -> wf_b b'.
Proof.
  intros Hwf Hp Hs. destruct b; simpl in Hs.
  - destruct p; simpl in Hs; inversion Hs; subst; auto.
  - destruct p as [|[k x] [|? ?]]; try discriminate; [inversion Hs; subst; auto|].
    destruct (negb _); [discriminate|]. apply bind_ok in Hs as [y [_ Hs]]. inversion Hs; simpl; auto.
  - destruct p as [|[k x] [|? ?]]; try discriminate; [inversion Hs; subst; auto|].
    destruct (negb _); [discriminate|]. inversion Hs; simpl; auto.
  - destruct p as [|kv p0]; [simpl in Hs; inversion Hs; subst; auto|].
    assert (Hne : kv :: p0 <> []) by discriminate.
    destruct (slice_fun_inv _ _ _ _ _ _ Hwf Hp Hne Hs) as (f' & m' & -> & _ & _ & _ & Hwf' & _). exact Hwf'.
  - apply slice_mat_is_mat in Hs as [o ->]. simpl in *. unfold mnames in *.
    apply (NoDup_map_filter (fun vs : var * nat => vname (fst vs))); auto.
  - inversion Hs; subst. simpl in *. now apply NoDup_map_filter.
Qed.

(* call_forms_agree for the non-conditional kinds *)
Lemma bcall_forms_agree_l b vals kw :
  wf_b b -> List.length vals = List.length (bdims b) ->
  Permutation kw (combine (bnames b) vals) ->
  bcall_kw b kw = bcall_pos b vals /\ bgv_dict b kw = bcall_pos b vals /\ bgv_list b vals = bcall_pos b vals.
Proof.
  intros Hwf Hlen Hp. destruct b as [value|v param body|v|f vars mapping fkw|mdims data off|nvars]; unfold bnames in Hp; simpl in Hlen, Hp.
  - destruct vals; [|discriminate]. apply Permutation_sym, Permutation_nil in Hp. subst. auto.
  - destruct vals as [|x [|? ?]]; try discriminate. simpl in Hp.
    apply Permutation_sym, Permutation_length_1_inv in Hp. subst kw.
    unfold bcall_kw, bcall_pos, bgv_dict, bgv_list. simpl. unfold zlookup; simpl. rewrite Z.eqb_refl. auto.
  - destruct vals as [|x [|? ?]]; try discriminate. simpl in Hp.
    apply Permutation_sym, Permutation_length_1_inv in Hp. subst kw.
    unfold bcall_kw, bcall_pos, bgv_dict, bgv_list. simpl. unfold zlookup; simpl. rewrite Z.eqb_refl. auto.
  - destruct (fun_call_forms f vars mapping fkw vals kw Hwf Hlen Hp) as [H1 H2]. auto.
  - rewrite map_length in Hlen. rewrite map_map in Hp.
    destruct (mat_call_forms mdims data off vals kw Hwf Hlen Hp) as [H1 H2]. auto.
  - unfold bcall_kw. destruct (is_nil kw); auto.
Qed.

Lemma NoDup_app_inv {A} (a b : list A) : NoDup (a ++ b) -> NoDup a /\ NoDup b.
Proof.
  induction a as [|x a IH]; simpl; intros H; [split; [constructor | auto]|].
  inversion H as [|? ? Hni Hnd]; subst. destruct (IH Hnd) as [Ha Hb]. split; auto.
  constructor; auto. intros Hin. apply Hni. apply in_or_app. auto.
Qed.

(* slice_compose: slicing on p1 then p2 = slicing on p1 ++ p2 (same dimensions, same values) *)
Lemma bslice_compose_l b p1 p2 b1 b2 b12 :
  wf_b b -> NoDup (map fst (p1 ++ p2)) ->
  bslice b p1 = Ok b1 -> bslice b1 p2 = Ok b2 -> bslice b (p1 ++ p2) = Ok b12 ->
  (forall k, In k (map fst p2) -> In k (bnames b1)) ->
  bdims b12 = bdims b2 /\
  forall c, (forall k, In k (map fst c) -> In k (bnames b2)) -> bgv_dict b12 c = bgv_dict b2 c.
Proof.
  intros Hwf Hnd H1 H2 H12 Hp2.
  rewrite map_app in Hnd.
  destruct (NoDup_app_inv _ _ Hnd) as [Hnd1 Hnd2].
  pose proof (bslice_wf_l _ _ _ Hwf Hnd1 H1) as Hwf1.
  pose proof (bslice_dims_l _ _ _ H1) as D1. pose proof (bslice_dims_l _ _ _ H2) as D2.
  pose proof (bslice_dims_l _ _ _ H12) as D12.
  assert (Ed : bdims b12 = bdims b2).
  { rewrite D12, D2, D1. unfold remaining. rewrite filter_filter. apply filter_ext_in'. intros v _.
    rewrite has_key_app. now rewrite negb_orb. }
  split; auto. intros c Hc.
  rewrite (bslice_value_l b (p1 ++ p2) b12 c Hwf); auto.
  2:{ rewrite map_app; auto. }
  2:{ unfold bnames. now rewrite Ed. }
  rewrite (bslice_value_l b1 p2 b2 c Hwf1 Hnd2 H2 Hc).
  rewrite (bslice_value_l b p1 b1 (p2 ++ c) Hwf Hnd1 H1).
  - now rewrite app_assoc.
  - intros k Hk. rewrite map_app in Hk. apply in_app_or in Hk as [Hk|Hk]; auto.
    apply Hc in Hk. unfold bnames in *. rewrite D2 in Hk. rewrite remaining_names in Hk.
    apply filter_In in Hk. tauto.
Qed.

(* the constructors establish well-formedness *)
Lemma mk_fun_wf_l f vars fkw b :
  NoDup (map vname vars) -> NoDup (fparams f) -> ffixed f = [] ->
  (match fkw return Prop with
   | true => forall a, In a (map vname vars) <-> In a (fparams f)
   | false => List.length vars = List.length (fparams f)
   end) ->
  mk_fun f vars fkw = Ok b -> wf_b b.
Proof.
  intros Hn Hp Hf Hk.
  assert (Hfa : func_args f = fparams f).
  { unfold func_args. rewrite Hf. clear. induction (fparams f); simpl; auto. now f_equal. }
  unfold mk_fun. destruct fkw.
  - intros H; inversion H; subst. simpl. split; [auto|]. split; [auto|].
    split; [rewrite Hf; simpl; tauto|]. split; [reflexivity|]. rewrite Hfa. exact Hk.
  - rewrite Hfa. intros H.
    assert (E : b = RFun f vars (combine (map vname vars) (fparams f)) false).
    { destruct (fparams f) eqn:Ep.
      - inversion H; subst. simpl in Hk. destruct vars; [reflexivity|discriminate].
      - rewrite map_args_combine in H by (rewrite Hk; auto). simpl in H. now inversion H. }
    subst b. simpl. split; [auto|]. split; [auto|]. split; [rewrite Hf; simpl; tauto|].
    rewrite Hfa. split; auto.
Qed.

Lemma mk_mat_wf_l vars shape data b :
  NoDup (map vname vars) -> mk_mat vars shape data = Ok b -> wf_b b.
Proof.
  unfold mk_mat. intros Hn. destruct (list_eqb _ _ _) eqn:E; [|discriminate].
  intros H; inversion H; subst. simpl. unfold mnames.
  assert (Hl : List.length vars = List.length (rm_strides shape)).
  { apply list_eqb_spec in E; [|intros; apply Nat.eqb_eq]. subst shape. rewrite <- (map_length (fun v => List.length (vdom v)) vars).
    generalize (map (fun v : var => List.length (vdom v)) vars). clear. induction l; simpl; auto. }
  rewrite <- (map_map fst vname). rewrite map_fst_combine; auto.
Qed.

(* ================= statements at the level of [rel] ================= *)
Lemma call_forms_agree_l b vals kw :
  wf_b b -> List.length vals = List.length (dims (RBase b)) ->
  Permutation kw (combine (names (RBase b)) vals) ->
  call_kw (RBase b) kw = call_pos (RBase b) vals /\
  gv_dict (RBase b) kw = call_pos (RBase b) vals /\
  gv_list (RBase b) vals = call_pos (RBase b) vals /\
  (forall o, call_dictarg (RBase b) kw = Some o -> o = call_pos (RBase b) vals).
Proof.
  intros Hwf Hl Hp. destruct (bcall_forms_agree_l b vals kw Hwf Hl Hp) as (H1 & H2 & H3).
  repeat split; auto. intros o Ho. unfold call_dictarg in Ho.
  destruct b; try discriminate. inversion Ho; subst. exact H1.
Qed.

Lemma slice_spec_l b p r' :
  wf_b b -> NoDup (map fst p) -> slice (RBase b) p = Ok r' ->
  exists b', r' = RBase b' /\ wf_b b' /\
    dims r' = remaining p (dims (RBase b)) /\
    forall c, (forall k, In k (map fst c) -> In k (names r')) ->
              gv_dict r' c = gv_dict (RBase b) (p ++ c).
Proof.
  intros Hwf Hp Hs. simpl in Hs. apply bind_ok in Hs as [b' [Hs E]]. inversion E; subst r'.
  exists b'. split; auto. split; [eapply bslice_wf_l; eauto|]. split; [now apply bslice_dims_l|].
  intros c Hc. simpl. eapply bslice_value_l; eauto.
Qed.

Lemma slice_compose_l b p1 p2 r1 r2 r12 :
  wf_b b -> NoDup (map fst (p1 ++ p2)) ->
  slice (RBase b) p1 = Ok r1 -> slice r1 p2 = Ok r2 -> slice (RBase b) (p1 ++ p2) = Ok r12 ->
  (forall k, In k (map fst p2) -> In k (names r1)) ->
  dims r12 = dims r2 /\
  forall c, (forall k, In k (map fst c) -> In k (names r2)) -> gv_dict r12 c = gv_dict r2 c.
Proof.
  intros Hwf Hnd H1 H2 H12 Hp2. simpl in H1, H12.
  apply bind_ok in H1 as [b1 [H1 E1]]. inversion E1; subst r1. simpl in H2.
  apply bind_ok in H2 as [b2 [H2 E2]]. inversion E2; subst r2.
  apply bind_ok in H12 as [b12 [H12 E12]]. inversion E12; subst r12.
  simpl. eapply bslice_compose_l; eauto.
Qed.

Lemma matrix_slice_order_irrelevant_l mdims data off p p' :
  NoDup (map fst p) -> Permutation p p' ->
  slice (RBase (RMat mdims data off)) p = slice (RBase (RMat mdims data off)) p'.
Proof. intros H1 H2. simpl. now rewrite (slice_mat_perm _ _ _ _ _ H1 H2). Qed.

(* the value of a keyword-mapped expression relation does not depend on the iteration order of
   the expression's variable set *)
Lemma expr_value_set_order_irrelevant_l params params' body vars d :
  Permutation params params' ->
  gv_dict (RBase (RFun (mkFn FExpr params body []) vars (ident_mapping vars) true)) d =
  gv_dict (RBase (RFun (mkFn FExpr params' body []) vars (ident_mapping vars) true)) d.
Proof.
  intros Hp. simpl. unfold fun_gv_dict. destruct (fun_args_dict (ident_mapping vars) d); simpl; auto.
  unfold fn_call. simpl.
  assert (E : forall l, func_args (mkFn FExpr l body []) = l).
  { intros l. unfold func_args. simpl. induction l; simpl; auto. now f_equal. }
  rewrite !E.
  rewrite (forallb_perm _ _ _ Hp).
  assert (forallb (fun kv => zmem (fst kv) params) a = forallb (fun kv => zmem (fst kv) params') a) as ->; auto.
  apply forallb_ext_in. intros x _. apply bool_eq_iff. rewrite !zmem_iff.
  split; intros H; [apply (Permutation_in _ Hp H) | apply (Permutation_in _ (Permutation_sym Hp) H)].
Qed.

(* ----- conditional relations (partial) ----- *)
Lemma bslice_nil b : bslice b [] = Ok b.
Proof.
  destruct b; simpl; auto. f_equal. f_equal. apply (remaining_nil vars).
Qed.

Definition cond_part (b : brel) (p : asg) : asg := filter (fun kv => zmem (fst kv) (bnames b)) p.

Lemma cond_slice_true_l c t rn p cv :
  List.length (cond_part c p) = List.length (bdims c) ->
  bcall_kw c (cond_part c p) = Ok cv -> truthy cv = true ->
  slice (RCond c t rn) p = do s <- bslice t (cond_part t p); Ok (RBase s).
Proof.
  intros Hl Hc Ht. simpl. unfold cond_slice. fold (cond_part c p). fold (cond_part t p).
  rewrite Hl, Nat.eqb_refl, Hc. simpl. rewrite Ht.
  destruct (cond_part t p) eqn:E; simpl is_nil; cbv iota; auto. now rewrite bslice_nil.
Qed.

Lemma cond_slice_true_spec_l c t rn p cv r' :
  wf_b t -> NoDup (map fst p) ->
  List.length (cond_part c p) = List.length (bdims c) ->
  bcall_kw c (cond_part c p) = Ok cv -> truthy cv = true ->
  slice (RCond c t rn) p = Ok r' ->
  dims r' = remaining (cond_part t p) (bdims t) /\
  forall d, (forall k, In k (map fst d) -> In k (names r')) ->
            gv_dict r' d = bgv_dict t (cond_part t p ++ d).
Proof.
  intros Hwf Hnd Hl Hc Ht Hs. rewrite (cond_slice_true_l c t rn p cv Hl Hc Ht) in Hs.
  apply bind_ok in Hs as [s [Hs E]]. inversion E; subst r'.
  assert (Hnd' : NoDup (map fst (cond_part t p))).
  { unfold cond_part. rewrite (map_fst_filter (fun k => zmem k (bnames t))). now apply NoDup_filter. }
  split; [now apply bslice_dims_l|]. intros d Hd. simpl. eapply bslice_value_l; eauto.
Qed.

Lemma cond_slice_false_neutral_l c t p cv :
  List.length (cond_part c p) = List.length (bdims c) ->
  bcall_kw c (cond_part c p) = Ok cv -> truthy cv = false ->
  slice (RCond c t true) p = Ok (RBase (RNeutral (remaining p (bdims t)))).
Proof.
  intros Hl Hc Ht. simpl. unfold cond_slice. fold (cond_part c p).
  rewrite Hl, Nat.eqb_refl, Hc. simpl. now rewrite Ht.
Qed.

(* return_neutral = False and a false condition: ZeroAryRelation, the remaining variables of
   the consequence are lost (known finding C11-cond-false-zeroary) *)
Lemma cond_false_zeroary_refuted_l :
  exists c t p r', wf_b c /\ wf_b t /\ NoDup (map fst p) /\
    slice (RCond c t false) p = Ok r' /\
    names r' <> filter (fun n => negb (has_key n p)) (names (RCond c t false)).
Proof.
  exists (RZero 0), (RMat [((4, [5]), 2%nat); ((3, [1; 2]), 1%nat)] [33; 0] 0%nat), [(4, 5)], (RBase (RZero 0)).
  split; [exact I|]. split; [vm_compute; repeat constructor; simpl; intuition congruence|].
  split; [repeat constructor; simpl; tauto|]. split; [reflexivity|]. vm_compute. discriminate.
Qed.
