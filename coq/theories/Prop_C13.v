(* Prop_C13.v -- C13: solution cost accounting matches the DCOP definition.
   Only statements; each closed by an exact lemma from P_Dcop.

   Vocabulary (P_Dcop.v): [rel_values asg rels ts] = ts are the values of the constraints on
   the assignment, in order; [var_term asg v] = v's own cost for its value; [has_value asg v] =
   v's value is not None; [count_inf inf terms] = number of terms equal (Python ==) to the
   infinity value; [sum_others inf terms] = sum of all the other terms. *)
From PyDcop Require Import Base ECost M_Dcop P_Dcop.

(* For any constraints, variables, infinity value and complete assignment: the result is
   (number of constraint and variable-cost terms equal to infinity, sum of the other terms). *)
Theorem solution_cost_spec : forall rels vars asg infinity ts,
  (forall v, In v vars -> getv asg (v_name v) <> None) ->
  List.length vars = List.length asg ->
  (forall r n, In r rels -> In n (r_scope r) -> getv asg n <> None) ->
  rel_values asg rels ts ->
  let terms := ts ++ map (var_term asg) (filter (has_value asg) vars) in
  solution_cost rels vars asg infinity = ScOk (count_inf infinity terms) (sum_others infinity terms).
Proof. exact solution_cost_spec_l. Qed.

(* an assignment that gives no value to some variable is rejected with the ValueError
   (whatever else it contains; repaired by the fix: commit recorded in known_findings) *)
Theorem solution_cost_incomplete : forall rels vars asg infinity v,
  In v vars -> getv asg (v_name v) = None -> solution_cost rels vars asg infinity = ScIncomplete.
Proof. exact solution_cost_incomplete_l. Qed.

(* so is an assignment whose size differs from the number of variables (e.g. unknown extra keys) *)
Theorem solution_cost_size_mismatch : forall rels vars asg infinity,
  List.length vars <> List.length asg -> solution_cost rels vars asg infinity = ScIncomplete.
Proof. exact solution_cost_size_mismatch_l. Qed.

(* and these are the only rejections *)
Theorem solution_cost_ok_iff : forall rels vars asg infinity,
  solution_cost rels vars asg infinity = ScIncomplete <->
  (exists v, In v vars /\ getv asg (v_name v) = None) \/ List.length vars <> List.length asg.
Proof. exact solution_cost_ok_iff_l. Qed.

(* DCOP.solution_cost: external variables count as variables (with cost 0), their current
   value overrides the assignment, every other value is kept *)
Theorem dcop_solution_cost_external : forall rels vars exts asg infinity,
  dcop_solution_cost rels vars exts asg infinity =
    solution_cost rels (vars ++ map ext_as_var exts) (merge_ext asg exts) infinity /\
  (NoDup (map x_name exts) -> forall x, In x exts ->
     getv (merge_ext asg exts) (x_name x) = Some (VInt (x_value x))) /\
  (forall n, ~ In n (map x_name exts) -> getv (merge_ext asg exts) n = getv asg n) /\
  (forall x a, var_term a (ext_as_var x) = Fin 0).
Proof. exact dcop_solution_cost_external_l. Qed.

Theorem dcop_solution_cost_spec : forall rels vars exts asg infinity ts,
  let full := merge_ext asg exts in
  let allv := vars ++ map ext_as_var exts in
  (forall v, In v allv -> getv full (v_name v) <> None) ->
  List.length allv = List.length full ->
  (forall r n, In r rels -> In n (r_scope r) -> getv full n <> None) ->
  rel_values full rels ts ->
  let terms := ts ++ map (var_term full) (filter (has_value full) allv) in
  dcop_solution_cost rels vars exts asg infinity =
    ScOk (count_inf infinity terms) (sum_others infinity terms).
Proof. exact dcop_solution_cost_spec_l. Qed.

(* sanity of the two numbers, without any hypothesis on the input *)
Theorem solution_cost_hard_bounds : forall rels vars asg infinity h s,
  solution_cost rels vars asg infinity = ScOk h s ->
  0 <= h <= Z.of_nat (List.length rels) + Z.of_nat (List.length vars).
Proof. exact solution_cost_hard_bounds_l. Qed.

Theorem solution_cost_soft_not_infinite : forall rels vars asg h s,
  solution_cost rels vars asg PInf = ScOk h s -> s <> PInf.
Proof. exact solution_cost_soft_not_infinite_l. Qed.

(* assignment_cost = sum of the constraint values, plus (when requested) the own cost of each
   distinct variable of the constraints' scopes ([distinct_spec]: no repetition, same elements) *)
Theorem assignment_cost_spec : forall vcost consider asg kw rels c,
  assignment_cost vcost consider asg kw rels = AcOk c ->
  exists ts, ac_values asg kw rels ts /\
    c = ec_add (esum ts)
          (if consider then esum (map (vc vcost asg) (distinct (flat_map r_scope rels))) else Fin 0).
Proof. exact assignment_cost_spec_l. Qed.

(* it raises KeyError only if a needed value is absent, and returns only if all are present
   (needed: in the assignment, or -- without variable costs -- in the extra keyword values) *)
Theorem assignment_cost_defined_iff : forall vcost consider asg kw rels,
  ((forall n, In n (flat_map r_scope rels) -> present consider asg kw n) ->
     assignment_cost vcost consider asg kw rels <> AcKeyError) /\
  (forall c, assignment_cost vcost consider asg kw rels = AcOk c ->
     forall n, In n (flat_map r_scope rels) -> present consider asg kw n).
Proof. exact assignment_cost_defined_iff_l. Qed.

(* non-vacuity: 2 variables + 1 external, a hard binary constraint, a soft one over the
   external variable, a variable with an infinite own cost *)
Example c13_nonvacuous :
  let x := mk_var 0 [] in
  let y := mk_var 1 [(VInt 0, Fin 5); (VInt 1, PInf)] in
  let m := mk_rel 10 [0; 1] [([VInt 0; VInt 0], Fin 1); ([VInt 0; VInt 1], PInf);
                             ([VInt 1; VInt 0], Fin 4); ([VInt 1; VInt 1], Fin 7)] in
  let g := mk_rel 11 [1; 5] [([VInt 0; VInt 0], Fin 0); ([VInt 0; VInt 1], Fin 3);
                             ([VInt 1; VInt 0], Fin 10); ([VInt 1; VInt 1], Fin 13)] in
  let asg := [(1, VInt 1); (0, VInt 0)] in
  dcop_solution_cost [m; g] [x; y] [mkExt 5 1] asg PInf = ScOk 2 (Fin 13) /\
  dcop_solution_cost [m; g] [x; y] [mkExt 5 1] asg (Fin 10000) = ScOk 0 PInf /\
  dcop_solution_cost [m; g] [x; y] [mkExt 5 1] [(0, VInt 0); (7, VInt 1)] PInf = ScIncomplete /\
  assignment_cost (vcost_of [x; y]) true [(0, VInt 1); (1, VInt 0); (5, VInt 1)] [] [m; g] = AcOk (Fin 12) /\
  assignment_cost (vcost_of [x; y]) true [(0, VInt 1); (1, VInt 0)] [(5, VInt 1)] [m; g] = AcKeyError /\
  assignment_cost (vcost_of [x; y]) false [(0, VInt 1); (1, VInt 0)] [(5, VInt 1)] [m; g] = AcOk (Fin 7) /\
  distinct (flat_map r_scope [m; g]) = [0; 1; 5].
Proof. vm_compute. repeat split; reflexivity. Qed.
