(* P_Yaml2.v -- C14 deepening: round trip of the domains / variables / constraints / agents
   sections of M_Yaml and the whole-DCOP theorem yaml_roundtrip.  Proofs only. *)
From PyDcop Require Import Base P_Base M_AgentDef M_Yaml P_Yaml.
From Coq Require Import Lia Permutation.

(* ====================================================================================== *)
(* generic facts on association lists used as Python dicts                                 *)
(* ====================================================================================== *)
Lemma NoDup_snoc {A} (l : list A) x : NoDup l -> ~ In x l -> NoDup (l ++ [x]).
Proof.
  induction l as [|y r IH]; simpl; intros Hnd Hn.
  - constructor; auto.
  - inversion Hnd; subst. constructor.
    + rewrite in_app_iff. simpl. intros [H|[H|[]]]; auto.
    + apply IH; auto.
Qed.

Lemma fold_left_map {A B S} (f : S -> B -> S) (g : A -> B) l s :
  fold_left (fun s x => f s (g x)) l s = fold_left f (map g l) s.
Proof. revert s; induction l; simpl; auto. Qed.

Section DictGen.
  Context {K V : Type} (keq : K -> K -> bool).
  Hypothesis keq_eq : forall a b, keq a b = true <-> a = b.

  Lemma keq_refl k : keq k k = true.
  Proof. now apply keq_eq. Qed.
  Lemma keq_neq a b : a <> b -> keq a b = false.
  Proof. intros H. destruct (keq a b) eqn:E; auto. apply keq_eq in E. contradiction. Qed.

  Definition set_all (l acc : list (K * V)) : list (K * V) :=
    fold_left (fun d kv => dict_set keq (fst kv) (snd kv) d) l acc.

  Lemma lookup_app k (l1 l2 : list (K * V)) :
    lookup keq k (l1 ++ l2) =
    match lookup keq k l1 with Some v => Some v | None => lookup keq k l2 end.
  Proof.
    induction l1 as [|[k' v'] r IH]; simpl; auto. destruct (keq k k'); auto.
  Qed.

  Lemma lookup_set k k' (v : V) l :
    lookup keq k (dict_set keq k' v l) = if keq k k' then Some v else lookup keq k l.
  Proof.
    destruct (keq k k') eqn:E.
    - apply keq_eq in E; subst. now apply lookup_dict_set_same.
    - apply lookup_dict_set_other; auto. intros ->. rewrite keq_refl in E. discriminate.
  Qed.

  Lemma lookup_set_all k l acc :
    lookup keq k (set_all l acc) =
    match lookup keq k (rev l) with Some v => Some v | None => lookup keq k acc end.
  Proof.
    revert acc; induction l as [|[k' v'] r IH]; intros acc; simpl; auto.
    unfold set_all in IH. rewrite IH, lookup_app, lookup_set. simpl.
    destruct (lookup keq k (rev r)); auto. destruct (keq k k'); auto.
  Qed.

  Lemma lookup_none_notin k (l : list (K * V)) :
    lookup keq k l = None <-> ~ In k (map fst l).
  Proof.
    induction l as [|[k' v'] r IH]; simpl; [tauto|].
    destruct (keq k k') eqn:E.
    - apply keq_eq in E; subst. split; [discriminate|]. intros H; exfalso; auto.
    - rewrite IH. split; [|tauto]. intros H [->|H2]; auto. rewrite keq_refl in E; discriminate.
  Qed.

  Lemma lookup_some_in k v (l : list (K * V)) : lookup keq k l = Some v -> In (k, v) l.
  Proof. apply lookup_In; auto. Qed.

  Lemma in_keys_lookup k (l : list (K * V)) :
    In k (map fst l) -> exists v, lookup keq k l = Some v.
  Proof.
    intros H. destruct (lookup keq k l) eqn:E; eauto. apply lookup_none_notin in E. contradiction.
  Qed.

  (* all bindings of k carry the same value: lookup finds it *)
  Lemma lookup_unique_val k v (l : list (K * V)) :
    In (k, v) l -> (forall v', In (k, v') l -> v' = v) -> lookup keq k l = Some v.
  Proof.
    intros Hin Hu. destruct (in_keys_lookup k l) as [v' E].
    - apply in_map_iff. exists (k, v); auto.
    - rewrite E. f_equal. apply Hu. now apply lookup_some_in.
  Qed.

  Lemma lookup_in_nodup k v (l : list (K * V)) :
    NoDup (map fst l) -> In (k, v) l -> lookup keq k l = Some v.
  Proof.
    induction l as [|[k' v'] r IH]; simpl; intros Hnd Hin; [contradiction|].
    inversion Hnd as [|? ? Hn Hr]; subst. destruct Hin as [E|Hin].
    - inversion E; subst. now rewrite keq_refl.
    - destruct (keq k k') eqn:E; auto. apply keq_eq in E; subst. exfalso. apply Hn.
      apply in_map_iff. exists (k', v); auto.
  Qed.

  Lemma lookup_rev_nodup k (l : list (K * V)) :
    NoDup (map fst l) -> lookup keq k (rev l) = lookup keq k l.
  Proof.
    intros Hnd. destruct (lookup keq k l) eqn:E.
    - apply lookup_in_nodup.
      + rewrite map_rev. now apply NoDup_rev.
      + apply in_rev. rewrite rev_involutive. now apply lookup_some_in.
    - apply lookup_none_notin. apply lookup_none_notin in E. rewrite map_rev, <- in_rev. exact E.
  Qed.

  Lemma dict_set_fresh k (v : V) l : lookup keq k l = None -> dict_set keq k v l = l ++ [(k, v)].
  Proof.
    induction l as [|[k' v'] r IH]; simpl; auto. destruct (keq k k'); [discriminate|].
    intros H. now rewrite IH.
  Qed.

  Lemma set_all_fresh l acc :
    NoDup (map fst l) -> (forall k, In k (map fst l) -> lookup keq k acc = None) ->
    set_all l acc = acc ++ l.
  Proof.
    revert acc; induction l as [|[k v] r IH]; intros acc Hnd Hf; simpl.
    - now rewrite app_nil_r.
    - inversion Hnd as [|? ? Hn Hr]; subst. unfold set_all in IH. simpl in Hf.
      rewrite dict_set_fresh by auto. rewrite IH; auto.
      + now rewrite <- app_assoc.
      + intros k' Hk'. rewrite lookup_app, Hf by auto. simpl.
        rewrite keq_neq; auto. intros ->. contradiction.
  Qed.

  Lemma keys_dict_set k (v : V) l :
    map fst (dict_set keq k v l) = map fst l ++ (if mem_key keq k l then [] else [k]).
  Proof.
    unfold mem_key. induction l as [|[k' v'] r IH]; simpl; auto.
    destruct (keq k k') eqn:E; simpl.
    - now rewrite app_nil_r.
    - now rewrite IH.
  Qed.

  Lemma nodup_dict_set k (v : V) l : NoDup (map fst l) -> NoDup (map fst (dict_set keq k v l)).
  Proof.
    intros H. rewrite keys_dict_set. unfold mem_key. destruct (lookup keq k l) eqn:E.
    - now rewrite app_nil_r.
    - apply lookup_none_notin in E. apply NoDup_snoc; auto.
  Qed.

  Lemma nodup_set_all l acc : NoDup (map fst acc) -> NoDup (map fst (set_all l acc)).
  Proof.
    revert acc; induction l as [|[k v] r IH]; intros acc H; simpl; auto.
    apply IH. now apply nodup_dict_set.
  Qed.

  (* a dict built by successive assignments: keys unique, every entry was assigned, and a key
     that was only ever assigned one value holds it *)
  Lemma dict_built_spec (l : list (K * V)) :
    let d := set_all l [] in
    NoDup (map fst d) /\
    (forall k v, In (k, v) d -> In (k, v) l) /\
    (forall k v, In (k, v) l -> (forall v', In (k, v') l -> v' = v) -> In (k, v) d).
  Proof.
    intros d. split; [|split].
    - apply nodup_set_all. constructor.
    - intros k v H. apply (In_dict_of_list keq keq_eq) in H. exact H.
    - intros k v Hin Hu. apply lookup_some_in. unfold d. rewrite lookup_set_all.
      rewrite (lookup_unique_val k v (rev l)); auto.
      + now apply in_rev in Hin.
      + intros v' H. apply Hu. now apply in_rev.
  Qed.
End DictGen.


Lemma pair_key_eqb_eq a b : pair_key_eqb a b = true <-> a = b.
Proof.
  destruct a as [a1 a2], b as [b1 b2]. unfold pair_key_eqb; simpl.
  rewrite andb_true_iff, !String.eqb_eq. split; [intros [-> ->]; auto | intros H; inversion H; auto].
Qed.

(* ---------- monadic maps ---------- *)
Lemma mapM_map_ok {A B C} (f : B -> result C) (g : A -> B) (h : A -> C) l :
  (forall x, In x l -> f (g x) = Ok (h x)) -> mapM f (map g l) = Ok (map h l).
Proof.
  induction l as [|x r IH]; simpl; intros H; auto.
  rewrite H by auto. simpl. rewrite IH by auto. reflexivity.
Qed.

Lemma mapM_forall2_exists {A B} (f : A -> result B) (R : A -> B -> Prop) l :
  (forall x, In x l -> exists y, f x = Ok y /\ R x y) ->
  exists ys, mapM f l = Ok ys /\ Forall2 R l ys.
Proof.
  induction l as [|x r IH]; simpl; intros H.
  - exists []. split; auto.
  - destruct (H x (or_introl eq_refl)) as [y [Ey Ry]].
    destruct IH as [ys [Eys Rys]]; [intros; apply H; auto|].
    exists (y :: ys). rewrite Ey, Eys. simpl. split; auto.
Qed.

(* ====================================================================================== *)
(* domains section                                                                         *)
(* ====================================================================================== *)
Definition dom_entry (d : domain) : string * ydom :=
  (d_name d, mkYDom (d_values d) (Some (d_type d))).
Definition named_doms (ds : list domain) : list (string * domain) := map (fun d => (d_name d, d)) ds.

(* a one-value domain whose value is a str containing ".." is read as a range *)
Definition dotdot_free (d : domain) : Prop :=
  match d_values d with [VStr s] => has_dotdot s = false | _ => True end.

Lemma yaml_domains_eq ds : NoDup (map d_name ds) -> yaml_domains ds = map dom_entry ds.
Proof.
  intros Hnd. unfold yaml_domains.
  rewrite (fold_left_map (fun acc (e : string * ydom) => sset (fst e) (snd e) acc) dom_entry).
  change (set_all String.eqb (map dom_entry ds) [] = map dom_entry ds).
  rewrite (set_all_fresh String.eqb String.eqb_eq); auto.
  rewrite map_map. exact Hnd.
Qed.

Lemma build_domain_entry d : dotdot_free d -> build_domain (dom_entry d) = Ok (d_name d, d).
Proof.
  destruct d as [n t vs]. unfold dotdot_free, build_domain, dom_entry. simpl. intros H.
  destruct vs as [|[z|s] [|? ?]]; simpl; auto. now rewrite H.
Qed.

Lemma domains_roundtrip_l ds :
  NoDup (map d_name ds) -> Forall dotdot_free ds ->
  mapM build_domain (yaml_domains ds) = Ok (named_doms ds).
Proof.
  intros Hnd Hdd. rewrite yaml_domains_eq by auto. apply mapM_map_ok.
  intros d Hd. apply build_domain_entry. rewrite Forall_forall in Hdd. auto.
Qed.

Lemma named_doms_lookup ds d :
  NoDup (map d_name ds) -> In d ds -> slookup (d_name d) (named_doms ds) = Some d.
Proof.
  intros Hnd Hin. apply (lookup_in_nodup String.eqb String.eqb_eq).
  - unfold named_doms. rewrite map_map. exact Hnd.
  - unfold named_doms. apply in_map_iff. eauto.
Qed.

(* ====================================================================================== *)
(* variables section                                                                       *)
(* ====================================================================================== *)
Definition var_entry (v : variable) : string * yvar :=
  (v_name v, mkYVar (Some (d_name (v_dom v))) (v_init v)).
Definition named_vars (vs : list variable) : list (string * variable) :=
  map (fun v => (v_name v, v)) vs.

(* the variable's domain is one of the DCOP's domains; its initial value (if any) is one of
   the domain's values (Variable.__init__ enforces the latter) *)
Definition var_ok (ds : list domain) (v : variable) : Prop :=
  In (v_dom v) ds /\
  match v_init v with Some iv => In iv (d_values (v_dom v)) | None => True end.

Lemma yaml_variables_eq vs : NoDup (map v_name vs) -> yaml_variables vs = map var_entry vs.
Proof.
  intros Hnd. unfold yaml_variables.
  rewrite (fold_left_map (fun acc (e : string * yvar) => sset (fst e) (snd e) acc) var_entry).
  change (set_all String.eqb (map var_entry vs) [] = map var_entry vs).
  rewrite (set_all_fresh String.eqb String.eqb_eq); auto.
  rewrite map_map. exact Hnd.
Qed.

Lemma in_values_In iv l : In iv l -> in_values iv l = true.
Proof.
  intros H. unfold in_values. apply existsb_exists. exists iv. split; auto. now apply value_eqb_eq.
Qed.

Lemma build_variable_entry ds v :
  NoDup (map d_name ds) -> var_ok ds v ->
  build_variable (named_doms ds) (var_entry v) = Ok (v_name v, v).
Proof.
  intros Hnd [Hd Hi]. destruct v as [n d iv]. unfold build_variable, var_entry. simpl in *.
  rewrite (named_doms_lookup ds d Hnd Hd). simpl.
  destruct iv as [iv|]; simpl; auto. now rewrite (in_values_In _ _ Hi).
Qed.

Lemma variables_roundtrip_l ds vs :
  NoDup (map d_name ds) -> NoDup (map v_name vs) -> Forall (var_ok ds) vs ->
  mapM (build_variable (named_doms ds)) (yaml_variables vs) = Ok (named_vars vs).
Proof.
  intros Hd Hv Hok. rewrite yaml_variables_eq by auto. apply mapM_map_ok.
  intros v Hin. apply build_variable_entry; auto. rewrite Forall_forall in Hok. auto.
Qed.

Lemma named_vars_lookup vs v :
  NoDup (map v_name vs) -> In v vs -> slookup (v_name v) (named_vars vs) = Some v.
Proof.
  intros Hnd Hin. apply (lookup_in_nodup String.eqb String.eqb_eq).
  - unfold named_vars. rewrite map_map. exact Hnd.
  - unfold named_vars. apply in_map_iff. eauto.
Qed.

(* ====================================================================================== *)
(* constraints section                                                                     *)
(* ====================================================================================== *)
(* value of a loaded table constraint on an assignment (NAryMatrixRelation.__call__) *)
Definition lrel_value (dims : list variable) (m : list (tuple * option Z)) (a : list value)
  : option (option Z) :=
  match indices dims a with Some t => lookup tuple_eqb t m | None => None end.

(* "the same constraint": expression constraints carry the same expression text; table
   constraints have the same scope, a matrix with exactly the positions of the shape, and the
   original value at every position *)
Definition cons_equiv (c : constraint) (lc : lcons) : Prop :=
  match c, lc with
  | CInt _ e, LInt e' => e' = e
  | CExt _ dims table, LExt dims' m =>
      dims' = dims /\ map fst m = all_tuples (shape_of dims) /\
      (forall t, In t (all_tuples (shape_of dims)) ->
                 lookup tuple_eqb t m = option_map Some (lookup tuple_eqb t table))
  | _, _ => False
  end.

Definition cons_ok (vs : list variable) (c : constraint) : Prop :=
  match c with
  | CInt _ _ => True
  | CExt _ dims table =>
      ext_wf dims table /\ Forall (fun v => In v vs) dims /\
      Forall (fun v => d_values (v_dom v) <> []) dims
  end.

Lemma scope_lookup vs dims :
  NoDup (map v_name vs) -> Forall (fun v => In v vs) dims ->
  mapM (fun s => of_opt EKey (slookup s (named_vars vs))) (map v_name dims) = Ok dims.
Proof.
  intros Hnd Hin. rewrite <- (map_id dims) at 2. apply mapM_map_ok.
  intros v Hv. rewrite Forall_forall in Hin. rewrite named_vars_lookup; auto.
Qed.

Lemma no_empty_scope dims :
  Forall (fun v => d_values (v_dom v) <> []) dims ->
  existsb (fun v => is_nil (d_values (v_dom v))) dims = false.
Proof.
  induction 1 as [|v r Hv Hr IH]; simpl; auto. rewrite IH.
  destruct (d_values (v_dom v)); [congruence|reflexivity].
Qed.

Lemma constraint_roundtrip_l vs c :
  NoDup (map v_name vs) -> cons_ok vs c ->
  exists y lc, yaml_constraint c = Ok y /\
    build_constraint (named_vars vs) (c_name c, y) = Ok (c_name c, lc) /\ cons_equiv c lc.
Proof.
  intros Hnd Hok. destruct c as [n dims table|n e].
  - destruct Hok as [Hwf [Hin Hne]].
    destruct (extensional_table_roundtrip_l dims table None Hwf) as [vals [m [E1 [E2 [E3 E4]]]]].
    eexists; exists (LExt dims m). split; [|split].
    + unfold yaml_constraint. rewrite E1. simpl. reflexivity.
    + unfold build_constraint. cbn [yc_type yc_function yc_variables yc_values yc_default c_name].
      change (String.eqb "extensional" "intention") with false.
      change (String.eqb "extensional" "extensional") with true. cbv iota.
      cbn [of_opt bind]. rewrite (scope_lookup vs dims Hnd Hin). cbn [bind].
      destruct Hwf as [Hd _]. destruct dims as [|v0 dr]; [congruence|].
      cbn [is_nil orb]. rewrite (no_empty_scope _ Hne). rewrite E2. reflexivity.
    + simpl. auto.
  - exists (mkYCons (Some "intention"%string) (Some e) None None None), (LInt e).
    split; [reflexivity|]. split; reflexivity.
Qed.

(* on every assignment of the scope the loaded table gives the value of the original *)
Lemma cons_equiv_values n dims table m a :
  ext_wf dims table -> cons_equiv (CExt n dims table) (LExt dims m) ->
  in_doms a (dim_values dims) ->
  exists c, rel_value dims table a = Ok c /\ lrel_value dims m a = Some (Some c).
Proof.
  intros [Hne [Hok [Hcl Hfull]]] [_ [_ Hm]] Ha.
  destruct (indices_spec dims a Hok Ha) as [t [E1 [_ E3]]].
  destruct (Hfull t E3) as [c Ec]. exists c. unfold rel_value, lrel_value. rewrite E1. simpl.
  rewrite Ec, (Hm t E3), Ec. auto.
Qed.

Lemma yaml_constraints_fold cs ys : mapM yaml_constraint cs = Ok ys ->
  forall acc, foldM (fun acc c => do y <- yaml_constraint c; Ok (sset (c_name c) y acc)) cs acc
              = Ok (set_all String.eqb (combine (map c_name cs) ys) acc).
Proof.
  revert ys; induction cs as [|c r IH]; simpl; intros ys H acc.
  - inversion H; reflexivity.
  - destruct (yaml_constraint c) as [y|] eqn:E; simpl in H; [|discriminate].
    destruct (mapM yaml_constraint r) as [ys'|] eqn:E2; simpl in H; [|discriminate].
    inversion H; subst. simpl. apply IH. reflexivity.
Qed.

Definition cons_rel (c : constraint) (e : string * lcons) : Prop :=
  fst e = c_name c /\ cons_equiv c (snd e).

Lemma constraints_roundtrip_l vs cs :
  NoDup (map v_name vs) -> NoDup (map c_name cs) -> Forall (cons_ok vs) cs ->
  exists ycs lcs, yaml_constraints cs = Ok ycs /\
    mapM (build_constraint (named_vars vs)) ycs = Ok lcs /\ Forall2 cons_rel cs lcs.
Proof.
  intros Hv Hc Hok.
  assert (G : exists ys lcs, mapM yaml_constraint cs = Ok ys /\
            mapM (build_constraint (named_vars vs)) (combine (map c_name cs) ys) = Ok lcs /\
            Forall2 cons_rel cs lcs).
  { clear Hc. induction cs as [|c r IH].
    - exists [], []. simpl. auto.
    - inversion Hok as [|? ? Hc0 Hr]; subst.
      destruct (constraint_roundtrip_l vs c Hv Hc0) as [y [lc [E1 [E2 E3]]]].
      destruct (IH Hr) as [ys [lcs [F1 [F2 F3]]]].
      exists (y :: ys), ((c_name c, lc) :: lcs). split; [|split].
      + cbn [mapM]. rewrite E1, F1. reflexivity.
      + cbn [map combine mapM]. rewrite E2. cbn [bind]. rewrite F2. reflexivity.
      + constructor; auto. split; auto. }
  destruct G as [ys [lcs [G1 [G2 G3]]]].
  exists (combine (map c_name cs) ys), lcs. split; [|split]; auto.
  unfold yaml_constraints. rewrite (yaml_constraints_fold cs ys G1).
  rewrite (set_all_fresh String.eqb String.eqb_eq); auto.
  apply mapM_ok_forall2, forall2_length in G1.
  assert (E : map fst (combine (map c_name cs) ys) = map c_name cs).
  { clear - G1. revert ys G1. induction cs; intros [|y ys] H; simpl in *; try congruence.
    f_equal. apply IHcs. congruence. }
  now rewrite E.
Qed.

(* ====================================================================================== *)
(* agents section: load side of the routes mapping                                          *)
(* ====================================================================================== *)
Lemma lookup_rev_functional {K V} (keq : K -> K -> bool)
  (keq_eq : forall a b, keq a b = true <-> a = b) k (l : list (K * V)) :
  (forall v v', In (k, v) l -> In (k, v') l -> v = v') -> lookup keq k (rev l) = lookup keq k l.
Proof.
  intros Hf. destruct (lookup keq k l) eqn:E.
  - apply (lookup_some_in keq keq_eq) in E. apply (lookup_unique_val keq keq_eq).
    + now apply in_rev in E.
    + intros v' H. apply in_rev in H. eauto.
  - apply (lookup_none_notin keq keq_eq). apply (lookup_none_notin keq keq_eq) in E.
    rewrite map_rev, <- in_rev. exact E.
Qed.

Lemma option_ext {A} (x y : option A) : (forall c, x = Some c <-> y = Some c) -> x = y.
Proof.
  intros H. destruct x as [a|], y as [b|]; auto.
  - symmetry. now apply H.
  - discriminate (proj1 (H a) eq_refl).
  - discriminate (proj2 (H b) eq_refl).
Qed.

Definition rinner (AL : list (string * list (string * Z))) (a1 : string) :=
  fun (routes : list ((string * string) * Z)) (q : string * Z) =>
    let (a2, c) := q in
    if negb (mem_key String.eqb a2 AL) then Err EFormat
    else
      do _ <- (if mem_key pair_key_eqb (a2, a1) routes || mem_key pair_key_eqb (a1, a2) routes
               then match plookup (a2, a1) routes with
                    | None => Err EKey
                    | Some v => if Z.eqb v c then Ok tt else Err EFormat
                    end
               else Ok tt);
      Ok (dict_set pair_key_eqb (a1, a2) c routes).

Lemma routes_step_table AL dr R a1 tb :
  a1 <> default_s -> mem_key String.eqb a1 AL = true ->
  routes_step AL (dr, R) (a1, YRTable tb) = do R' <- foldM (rinner AL a1) tb R; Ok (dr, R').
Proof.
  intros Hd Hm. unfold routes_step. rewrite (keq_neq String.eqb String.eqb_eq _ _ Hd), Hm.
  reflexivity.
Qed.

Lemma routes_step_default AL dr R z :
  routes_step AL (dr, R) (default_s, YRScalar z) = Ok (z, R).
Proof. reflexivity. Qed.

Section RoutesLoad.
  Variable AL : list (string * list (string * Z)).
  (* Rt a b c: "agent a has the route (b, c)" *)
  Variable Rt : string -> string -> Z -> Prop.
  Hypothesis Rt_sym : forall a b c, Rt a b c -> Rt b a c.
  Hypothesis Rt_fun : forall a b c c', Rt a b c -> Rt a b c' -> c = c'.
  Hypothesis Rt_agent : forall a b c, Rt a b c -> mem_key String.eqb b AL = true.

  Lemma rinner_ok a1 : forall tb R,
    NoDup (map fst tb) ->
    (forall b c, In (b, c) tb -> Rt a1 b c) ->
    (forall b, In b (map fst tb) -> plookup (a1, b) R = None) ->
    (forall a b c, plookup (a, b) R = Some c -> Rt a b c) ->
    NoDup (map fst R) ->
    exists R', foldM (rinner AL a1) tb R = Ok R' /\ NoDup (map fst R') /\
      forall a b c, plookup (a, b) R' = Some c <->
                    plookup (a, b) R = Some c \/ (a = a1 /\ In (b, c) tb).
  Proof.
    induction tb as [|[a2 c] r IH]; intros R Hnd Htb Hfresh HR HndR.
    - exists R. simpl. split; auto. split; auto. intros; tauto.
    - inversion Hnd as [|? ? Hn2 Hndr]; subst.
      assert (Hrt : Rt a1 a2 c) by (apply Htb; now left).
      assert (Hstep : rinner AL a1 R (a2, c) = Ok (dict_set pair_key_eqb (a1, a2) c R)).
      { unfold rinner. rewrite (Rt_agent _ _ _ Hrt). simpl negb. cbv iota.
        assert (Hf : plookup (a1, a2) R = None) by (apply Hfresh; now left).
        unfold mem_key at 2. unfold plookup in Hf. rewrite Hf, orb_false_r.
        unfold mem_key. unfold plookup.
        destruct (lookup pair_key_eqb (a2, a1) R) as [v|] eqn:E; simpl; auto.
        apply HR in E. apply Rt_sym in Hrt. rewrite (Rt_fun _ _ _ _ E Hrt), Z.eqb_refl. reflexivity. }
      set (R1 := dict_set pair_key_eqb (a1, a2) c R) in *.
      assert (L1 : forall a b, plookup (a, b) R1 =
                     if pair_key_eqb (a, b) (a1, a2) then Some c else plookup (a, b) R).
      { intros. unfold plookup, R1. apply (lookup_set pair_key_eqb pair_key_eqb_eq). }
      destruct (IH R1) as [R' [E [Hnd' HR']]]; auto.
      + intros b c' H. apply Htb. now right.
      + intros b Hb. rewrite L1. rewrite (keq_neq pair_key_eqb pair_key_eqb_eq).
        * apply Hfresh. now right.
        * intros H. inversion H; subst. contradiction.
      + intros a b c'. rewrite L1. destruct (pair_key_eqb (a, b) (a1, a2)) eqn:Ek.
        * apply pair_key_eqb_eq in Ek. inversion Ek; subst. intros H; inversion H; subst. exact Hrt.
        * apply HR.
      + apply (nodup_dict_set pair_key_eqb pair_key_eqb_eq). exact HndR.
      + exists R'. cbn [foldM]. rewrite Hstep. cbn [bind]. split; [exact E|]. split; [exact Hnd'|].
        intros a b c'. rewrite HR', L1. destruct (pair_key_eqb (a, b) (a1, a2)) eqn:Ek.
        * apply pair_key_eqb_eq in Ek. inversion Ek; subst. split.
          -- intros [H|[_ H]]; [inversion H; subst; right; split; auto; now left|].
             right; split; auto; now right.
          -- intros [H|[_ [H|H]]].
             ++ rewrite (Hfresh a2) in H by (now left). discriminate.
             ++ inversion H; subst. now left.
             ++ right; auto.
        * split.
          -- intros [H|[-> H]]; [now left|]. right; split; auto. now right.
          -- intros [H|[-> [H|H]]]; [now left| |right; auto].
             inversion H; subst. rewrite (keq_refl pair_key_eqb pair_key_eqb_eq) in Ek. discriminate.
  Qed.

  Variable dr : Z.

  Definition rentry_ok (k : string) (y : yroute) : Prop :=
    (k = default_s /\ y = YRScalar dr) \/
    (k <> default_s /\ mem_key String.eqb k AL = true /\
     exists tb, y = YRTable tb /\ NoDup (map fst tb) /\ forall b c, In (b, c) tb -> Rt k b c).

  Lemma routes_fold_ok : forall ys dr0 R0,
    NoDup (map fst ys) ->
    (forall k y, In (k, y) ys -> rentry_ok k y) ->
    (forall a b c, plookup (a, b) R0 = Some c -> ~ In a (map fst ys) /\ Rt a b c) ->
    NoDup (map fst R0) ->
    exists dr1 R, foldM (routes_step AL) ys (dr0, R0) = Ok (dr1, R) /\ NoDup (map fst R) /\
      (In default_s (map fst ys) -> dr1 = dr) /\ (~ In default_s (map fst ys) -> dr1 = dr0) /\
      forall a b c, plookup (a, b) R = Some c <->
        plookup (a, b) R0 = Some c \/ exists tb, In (a, YRTable tb) ys /\ In (b, c) tb.
  Proof.
    induction ys as [|[k y] r IH]; intros dr0 R0 Hnd Hok HR0 HndR.
    - exists dr0, R0. simpl. repeat split; auto; try tauto.
      intros [H|[tb [[] _]]]; auto.
    - inversion Hnd as [|? ? Hnk Hndr]; subst.
      destruct (Hok k y (or_introl eq_refl)) as [[-> ->]|[Hkd [Hmem [tb [-> [Hndtb Htb]]]]]].
      + (* default route *)
        destruct (IH dr R0) as [dr1 [R [E [HndR' [D1 [D2 HR]]]]]]; auto.
        * intros; apply Hok; now right.
        * intros a b c H. destruct (HR0 a b c H) as [H1 H2]. split; auto.
          intros Hin; apply H1; simpl; auto.
        * exists dr1, R. cbn [foldM]. rewrite routes_step_default. cbn [bind].
          split; [exact E|]. split; [exact HndR'|]. split; [|split].
          -- intros _. destruct (in_dec string_dec default_s (map fst r)); auto.
          -- intros H. exfalso. apply H. simpl; auto.
          -- intros a b c. rewrite HR. split.
             ++ intros [H|[tb [H1 H2]]]; [now left|]. right. exists tb. split; auto. now right.
             ++ intros [H|[tb [[H1|H1] H2]]]; [now left|discriminate|]. right; eauto.
      + (* a table *)
        destruct (rinner_ok k tb R0) as [R1 [E1 [HndR1 HR1]]]; auto.
        { intros b Hb. destruct (plookup (k, b) R0) eqn:E; auto.
          destruct (HR0 _ _ _ E) as [H _]. exfalso. apply H. simpl; auto. }
        { intros a b c H. now apply HR0. }
        destruct (IH dr0 R1) as [dr1 [R [E [HndR' [D1 [D2 HR]]]]]]; auto.
        * intros; apply Hok; now right.
        * intros a b c H. apply HR1 in H as [H|[-> H]].
          -- destruct (HR0 a b c H) as [H1 H2]. split; auto. intros Hin; apply H1; simpl; auto.
          -- split; auto.
        * exists dr1, R. cbn [foldM]. rewrite routes_step_table by auto. rewrite E1. cbn [bind].
          split; [exact E|]. split; [exact HndR'|]. split; [|split].
          -- intros [H|H]; [simpl in H; congruence|auto].
          -- intros H. apply D2. intros Hin. apply H. now right.
          -- intros a b c. rewrite HR, HR1. split.
             ++ intros [[H|[-> H]]|[tb' [H1 H2]]]; [now left| |].
                ** right. exists tb. split; auto. now left.
                ** right. exists tb'. split; auto. now right.
             ++ intros [H|[tb' [[H1|H1] H2]]]; [left; now left| |right; eauto].
                inversion H1; subst. left; right; auto.
  Qed.
End RoutesLoad.

(* ---------- routes_of / hosting_of: the per-agent views of the pair-keyed dicts ---------- *)
Lemma string_eqb_sym a b : String.eqb a b = String.eqb b a.
Proof.
  destruct (String.eqb a b) eqn:E.
  - apply String.eqb_eq in E; subst. symmetry. apply String.eqb_refl.
  - symmetry. apply (keq_neq String.eqb String.eqb_eq). intros ->. rewrite String.eqb_refl in E. discriminate.
Qed.

Lemma lookup_by_first a o (R : list ((string * string) * Z)) :
  slookup o (map (fun q => (snd (fst q), snd q)) (filter (fun q => String.eqb (fst (fst q)) a) R))
  = plookup (a, o) R.
Proof.
  induction R as [|[[x y] v] r IH]; simpl; auto.
  unfold plookup, pair_key_eqb in *. simpl. rewrite (string_eqb_sym a x).
  destruct (String.eqb x a) eqn:E; simpl; auto. unfold slookup in *. simpl. rewrite IH. reflexivity.
Qed.

Lemma lookup_by_second a o (R : list ((string * string) * Z)) :
  slookup o (map (fun q => (fst (fst q), snd q)) (filter (fun q => String.eqb (snd (fst q)) a) R))
  = plookup (o, a) R.
Proof.
  induction R as [|[[x y] v] r IH]; simpl; auto.
  unfold plookup, pair_key_eqb in *. simpl. rewrite (string_eqb_sym a y).
  destruct (String.eqb y a) eqn:E; simpl.
  - unfold slookup in *. simpl. rewrite IH, andb_true_r. reflexivity.
  - rewrite andb_false_r. exact IH.
Qed.

Lemma routes_of_lookup a o R :
  NoDup (map fst R) ->
  slookup o (routes_of a R) =
  match plookup (o, a) R with Some c => Some c | None => plookup (a, o) R end.
Proof.
  intros Hnd. unfold routes_of.
  set (r1 := map (fun q : string * string * Z => (snd (fst q), snd q))
                 (filter (fun q => String.eqb (fst (fst q)) a) R)).
  set (r2 := map (fun q : string * string * Z => (fst (fst q), snd q))
                 (filter (fun q => String.eqb (snd (fst q)) a) R)).
  enough (G : slookup o (set_all String.eqb r2 (set_all String.eqb r1 [])) =
              match plookup (o, a) R with Some c => Some c | None => plookup (a, o) R end) by exact G.
  unfold slookup. rewrite !(lookup_set_all String.eqb String.eqb_eq). simpl.
  assert (F1 : forall v v', In (o, v) r1 -> In (o, v') r1 -> v = v').
  { intros v v' H1 H2. unfold r1 in *. apply in_map_iff in H1 as [[[x y] w] [E1 H1]].
    apply in_map_iff in H2 as [[[x' y'] w'] [E2 H2]]. simpl in *.
    apply filter_In in H1 as [H1 F]. apply filter_In in H2 as [H2 F']. simpl in *.
    apply String.eqb_eq in F, F'. inversion E1; inversion E2; subst.
    apply (lookup_in_nodup pair_key_eqb pair_key_eqb_eq _ _ _ Hnd) in H1, H2. congruence. }
  assert (F2 : forall v v', In (o, v) r2 -> In (o, v') r2 -> v = v').
  { intros v v' H1 H2. unfold r2 in *. apply in_map_iff in H1 as [[[x y] w] [E1 H1]].
    apply in_map_iff in H2 as [[[x' y'] w'] [E2 H2]]. simpl in *.
    apply filter_In in H1 as [H1 F]. apply filter_In in H2 as [H2 F']. simpl in *.
    apply String.eqb_eq in F, F'. inversion E1; inversion E2; subst.
    apply (lookup_in_nodup pair_key_eqb pair_key_eqb_eq _ _ _ Hnd) in H1, H2. congruence. }
  rewrite (lookup_rev_functional String.eqb String.eqb_eq o r1 F1).
  rewrite (lookup_rev_functional String.eqb String.eqb_eq o r2 F2).
  pose proof (lookup_by_first a o R) as L1. pose proof (lookup_by_second a o R) as L2.
  fold r1 in L1. fold r2 in L2. unfold slookup in L1, L2. rewrite L1, L2.
  destruct (plookup (o, a) R); auto. destruct (plookup (a, o) R); auto.
Qed.

Lemma hosting_of_lookup a c costs : slookup c (hosting_of a costs) = plookup (a, c) costs.
Proof. apply lookup_by_first. Qed.

(* ---------- load side of the hosting_costs mapping ---------- *)
Definition hentry (a : agentdef) : string * yhost :=
  (a_name a, YHTable (Some (a_default_hosting a)) (Some (a_hosting a))).

Lemma lookup_pair_map a n c (l : list (string * Z)) :
  plookup (n, c) (map (fun q => ((a, fst q), snd q)) l) =
  if String.eqb n a then slookup c l else None.
Proof.
  induction l as [|[k v] r IH]; simpl.
  - now destruct (String.eqb n a).
  - unfold plookup, pair_key_eqb in *. simpl. destruct (String.eqb n a) eqn:E; simpl.
    + unfold slookup. simpl. destruct (String.eqb c k); auto.
    + exact IH.
Qed.

Lemma hosting_step_entry AL st a :
  a_name a <> default_s -> mem_key String.eqb (a_name a) AL = true ->
  hosting_step AL st (hentry a) =
  Ok (mkH (h_default st) (sset (a_name a) (a_default_hosting a) (h_agt st))
          (set_all pair_key_eqb (map (fun q => ((a_name a, fst q), snd q)) (a_hosting a)) (h_costs st))).
Proof.
  intros Hd Hm. unfold hosting_step, hentry.
  rewrite (keq_neq String.eqb String.eqb_eq _ _ Hd), Hm. cbn [negb olist]. f_equal. f_equal.
  unfold set_all.
  apply (fold_left_map (fun cs (kv : (string * string) * Z) => dict_set pair_key_eqb (fst kv) (snd kv) cs)
                       (fun q : string * Z => ((a_name a, fst q), snd q))).
Qed.

Lemma hosting_fold_ok AL : forall L st,
  (forall a, In a L -> a_name a <> default_s /\ mem_key String.eqb (a_name a) AL = true /\
                       NoDup (map fst (a_hosting a))) ->
  NoDup (map a_name L) ->
  exists hs, foldM (hosting_step AL) (map hentry L) st = Ok hs /\ h_default hs = h_default st /\
    (forall a, In a L ->
       slookup (a_name a) (h_agt hs) = Some (a_default_hosting a) /\
       forall c, plookup (a_name a, c) (h_costs hs) =
                 match slookup c (a_hosting a) with
                 | Some z => Some z | None => plookup (a_name a, c) (h_costs st) end) /\
    (forall n, ~ In n (map a_name L) ->
       slookup n (h_agt hs) = slookup n (h_agt st) /\
       forall c, plookup (n, c) (h_costs hs) = plookup (n, c) (h_costs st)).
Proof.
  induction L as [|A r IH]; intros st Hok Hnd.
  - exists st. simpl. split; auto. split; auto. split; [intros ? []|auto].
  - inversion Hnd as [|? ? Hn Hndr]; subst.
    destruct (Hok A (or_introl eq_refl)) as [Hd [Hm Hk]].
    set (st1 := mkH (h_default st) (sset (a_name A) (a_default_hosting A) (h_agt st))
                  (set_all pair_key_eqb (map (fun q => ((a_name A, fst q), snd q)) (a_hosting A)) (h_costs st))).
    assert (C1 : forall n c, plookup (n, c) (h_costs st1) =
              if String.eqb n (a_name A)
              then match slookup c (a_hosting A) with Some z => Some z | None => plookup (n, c) (h_costs st) end
              else plookup (n, c) (h_costs st)).
    { intros n c. unfold st1, plookup. cbn [h_costs].
      rewrite (lookup_set_all pair_key_eqb pair_key_eqb_eq), <- map_rev.
      pose proof (lookup_pair_map (a_name A) n c (rev (a_hosting A))) as L. unfold plookup in L. rewrite L.
      destruct (String.eqb n (a_name A)); auto.
      unfold slookup. rewrite (lookup_rev_nodup String.eqb String.eqb_eq); auto. }
    assert (A1 : forall n, slookup n (h_agt st1) =
              if String.eqb n (a_name A) then Some (a_default_hosting A) else slookup n (h_agt st)).
    { intros n. unfold st1, slookup, sset. cbn [h_agt]. apply (lookup_set String.eqb String.eqb_eq). }
    destruct (IH st1) as [hs [E [Hdf [H1 H2]]]]; auto.
    { intros a Ha. apply Hok. now right. }
    exists hs. cbn [map foldM]. rewrite hosting_step_entry by auto. cbn [bind]. fold st1.
    split; [exact E|]. split; [rewrite Hdf; reflexivity|]. split.
    + intros a [<-|Ha].
      * destruct (H2 (a_name A) Hn) as [G1 G2]. rewrite G1, A1, String.eqb_refl. split; auto.
        intros c. rewrite G2, C1, String.eqb_refl. reflexivity.
      * destruct (H1 a Ha) as [G1 G2]. split; auto. intros c. rewrite G2, C1.
        rewrite (keq_neq String.eqb String.eqb_eq); auto.
        intros E2. apply Hn. rewrite <- E2. now apply in_map.
    + intros n Hnn. simpl in Hnn. destruct (H2 n) as [G1 G2]; [tauto|].
      assert (Hne : String.eqb n (a_name A) = false).
      { apply (keq_neq String.eqb String.eqb_eq). intros ->. tauto. }
      split.
      * rewrite G1, A1, Hne. reflexivity.
      * intros c. rewrite G2, C1, Hne. reflexivity.
Qed.

(* ====================================================================================== *)
(* agents section: dump side and round trip                                                 *)
(* ====================================================================================== *)
Lemma fold_left_ext {A S} (f g : S -> A -> S) l s :
  (forall s x, f s x = g s x) -> fold_left f l s = fold_left g l s.
Proof. intros H; revert s; induction l; simpl; intros; auto. rewrite H. auto. Qed.

Lemma fold_left_filter {A S} (c : A -> bool) (f : S -> A -> S) l s :
  fold_left (fun s x => if c x then f s x else s) l s = fold_left f (filter c l) s.
Proof. revert s; induction l as [|x r IH]; simpl; intros; auto. destruct (c x); simpl; auto. Qed.

Lemma NoDup_map_filter {A B} (f : A -> B) (c : A -> bool) l :
  NoDup (map f l) -> NoDup (map f (filter c l)).
Proof.
  induction l as [|x r IH]; simpl; intros H; auto. inversion H; subst.
  destruct (c x); simpl; auto. constructor; auto.
  intros Hin. apply H2. apply in_map_iff in Hin as [y [E Hy]]. apply filter_In in Hy as [Hy _].
  rewrite <- E. now apply in_map.
Qed.

Lemma set_all_flat_map {K V A} (keq : K -> K -> bool) (g : A -> list (K * V)) l acc :
  fold_left (fun acc a => set_all keq (g a) acc) l acc = set_all keq (flat_map g l) acc.
Proof.
  revert acc; induction l as [|x r IH]; simpl; intros; auto.
  rewrite IH. unfold set_all. now rewrite fold_left_app.
Qed.

Lemma Forall2_map_r {A B} (R : A -> B -> Prop) (f : A -> B) l :
  (forall x, In x l -> R x (f x)) -> Forall2 R l (map f l).
Proof. induction l; simpl; intros H; constructor; auto. Qed.

Definition aentry (a : agentdef) : string * list (string * Z) := (a_name a, agent_entry a).
Definition hcond (a : agentdef) : bool :=
  negb (Z.eqb (a_default_hosting a) 0) || negb (is_nil (a_hosting a)).
Definition rentries (a : agentdef) : list (string * yroute) :=
  (if negb (is_nil (a_routes a)) then [(a_name a, YRTable (a_routes a))] else [])
  ++ [(default_s, YRScalar (a_default_route a))].

Lemma yaml_agents_agents_eq ags :
  NoDup (map a_name ags) -> yaml_agents_agents ags = map aentry ags.
Proof.
  intros Hnd. unfold yaml_agents_agents.
  rewrite (fold_left_map (fun acc (e : string * list (string * Z)) => sset (fst e) (snd e) acc) aentry).
  change (set_all String.eqb (map aentry ags) [] = map aentry ags).
  rewrite (set_all_fresh String.eqb String.eqb_eq); auto. rewrite map_map. exact Hnd.
Qed.

Lemma yaml_agents_hosting_eq ags :
  NoDup (map a_name ags) -> yaml_agents_hosting ags = map hentry (filter hcond ags).
Proof.
  intros Hnd. unfold yaml_agents_hosting.
  rewrite (fold_left_filter hcond
             (fun acc a => sset (a_name a) (YHTable (Some (a_default_hosting a)) (Some (a_hosting a))) acc)).
  rewrite (fold_left_map (fun acc (e : string * yhost) => sset (fst e) (snd e) acc) hentry).
  change (set_all String.eqb (map hentry (filter hcond ags)) [] = map hentry (filter hcond ags)).
  rewrite (set_all_fresh String.eqb String.eqb_eq); auto. rewrite map_map.
  apply (NoDup_map_filter a_name hcond). exact Hnd.
Qed.

Lemma yaml_agents_routes_eq ags :
  yaml_agents_routes ags = set_all String.eqb (flat_map rentries ags) [].
Proof.
  unfold yaml_agents_routes. rewrite <- set_all_flat_map. apply fold_left_ext.
  intros acc a. unfold rentries. destruct (negb (is_nil (a_routes a))); reflexivity.
Qed.

(* what "expressible" means for the agents: names unique and none is called "default" (a
   reserved key of the routes / hosting_costs mappings); one default route for all agents (the
   format has a single routes.default); route tables are dicts (unique keys), only mention
   agents of the DCOP and are symmetric (the loader symmetrises); hosting tables are dicts *)
Definition agents_wf (ags : list agentdef) : Prop :=
  NoDup (map a_name ags) /\
  ~ In default_s (map a_name ags) /\
  (forall a b, In a ags -> In b ags -> a_default_route a = a_default_route b) /\
  (forall a, In a ags -> NoDup (map fst (a_routes a)) /\ NoDup (map fst (a_hosting a))) /\
  (forall a o c, In a ags -> In (o, c) (a_routes a) ->
     exists b, In b ags /\ a_name b = o /\ In (a_name a, c) (a_routes b)).

(* the property's equivalence on one agent: same name, same capacity, same route to every
   agent name, same hosting cost for every computation name *)
Definition agent_rel (a : agentdef) (e : string * agentdef) : Prop :=
  fst e = a_name a /\ a_name (snd e) = a_name a /\
  getattr (snd e) capacity_s = getattr a capacity_s /\
  (forall o, route (snd e) o = route a o) /\
  (forall c, hosting_cost (snd e) c = hosting_cost a c).

Lemma name_inj ags a b :
  NoDup (map a_name ags) -> In a ags -> In b ags -> a_name a = a_name b -> a = b.
Proof.
  induction ags as [|x r IH]; simpl; intros Hnd Ha Hb E; [contradiction|].
  inversion Hnd as [|? ? Hn Hr]; subst. destruct Ha as [->|Ha], Hb as [->|Hb]; auto.
  - exfalso. apply Hn. rewrite E. now apply in_map.
  - exfalso. apply Hn. rewrite <- E. now apply in_map.
Qed.

Lemma capacity_kept a : slookup capacity_s (agent_entry a) = getattr a capacity_s.
Proof.
  unfold agent_entry. destruct (getattr a capacity_s) eqn:E; reflexivity.
Qed.

Lemma agents_roundtrip_l ags t :
  agents_wf ags ->
  agents_list t = yaml_agents_agents ags ->
  olist (y_routes t) = yaml_agents_routes ags ->
  olist (y_hosting t) = yaml_agents_hosting ags ->
  exists las, build_agents t = Ok las /\ Forall2 agent_rel ags las.
Proof.
  intros [Hnd [Hndef [Hdr [Hkeys Hsym]]]] EA ER EH.
  unfold build_agents. rewrite EA, ER, EH.
  rewrite yaml_agents_agents_eq, yaml_agents_hosting_eq, yaml_agents_routes_eq by auto.
  set (AL := map aentry ags).
  set (Rt := fun a b c => exists A, In A ags /\ a_name A = a /\ In (b, c) (a_routes A)).
  set (dr := match ags with a :: _ => a_default_route a | [] => 1 end).
  assert (Hmem : forall A, In A ags -> mem_key String.eqb (a_name A) AL = true).
  { intros A HA. unfold mem_key.
    destruct (in_keys_lookup String.eqb String.eqb_eq (a_name A) AL) as [v ->]; auto.
    unfold AL. rewrite map_map. simpl. now apply in_map. }
  assert (Rt_sym : forall a b c, Rt a b c -> Rt b a c).
  { intros a b c [A [HA [<- Hin]]]. destruct (Hsym A b c HA Hin) as [B [HB [EB HinB]]].
    exists B. auto. }
  assert (Rt_fun : forall a b c c', Rt a b c -> Rt a b c' -> c = c').
  { intros a b c c' [A [HA [EA1 H1]]] [A' [HA' [EA2 H2]]].
    assert (A' = A) by (apply (name_inj ags); auto; congruence). subst A'.
    destruct (Hkeys A HA) as [Hk _].
    apply (lookup_in_nodup String.eqb String.eqb_eq _ _ _ Hk) in H1, H2. congruence. }
  assert (Rt_agent : forall a b c, Rt a b c -> mem_key String.eqb b AL = true).
  { intros a b c H. apply Rt_sym in H as [B [HB [<- _]]]. now apply Hmem. }
  set (Lr := flat_map rentries ags).
  destruct (dict_built_spec String.eqb String.eqb_eq Lr) as [Y1 [Y2 Y3]].
  set (ys := set_all String.eqb Lr []) in *.
  assert (HLr : forall k y, In (k, y) Lr ->
            exists A, In A ags /\
              ((k = a_name A /\ y = YRTable (a_routes A) /\ a_routes A <> []) \/
               (k = default_s /\ y = YRScalar dr))).
  { intros k y H. unfold Lr in H. apply in_flat_map in H as [A [HA H]]. exists A. split; auto.
    unfold rentries in H. apply in_app_iff in H as [H|[H|[]]].
    - left. destruct (a_routes A) eqn:E; simpl in H; [contradiction|].
      destruct H as [H|[]]. inversion H; subst. repeat split; auto. discriminate.
    - right. inversion H; subst. split; auto. f_equal. unfold dr.
      destruct ags as [|a0 r]; [contradiction|]. apply Hdr; simpl; auto. }
  assert (Hname_nd : forall A, In A ags -> a_name A <> default_s).
  { intros A HA E. apply Hndef. rewrite <- E. now apply in_map. }
  destruct (routes_fold_ok AL Rt Rt_sym Rt_fun Rt_agent dr ys 1 [])
    as [dr1 [R [Efold [HndR [D1 [_ HR]]]]]].
  { exact Y1. }
  { intros k y H. apply Y2 in H. destruct (HLr k y H) as [A [HA [[-> [-> Hne]]|[-> ->]]]].
    - right. split; [now apply Hname_nd|]. split; [now apply Hmem|].
      exists (a_routes A). split; auto. split; [apply Hkeys; auto|].
      intros b c Hin. exists A. auto.
    - left. auto. }
  { intros a b c H. discriminate. }
  { constructor. }
  rewrite Efold. cbn [bind].
  (* the routes dict holds exactly the agents' routes *)
  assert (HR' : forall a b c, plookup (a, b) R = Some c <-> Rt a b c).
  { intros a b c. rewrite HR. split.
    - intros [H|[tb [H1 H2]]]; [discriminate|]. apply Y2 in H1.
      destruct (HLr _ _ H1) as [A [HA [[-> [E _]]|[_ E]]]]; [|discriminate].
      inversion E; subst. exists A. auto.
    - intros [A [HA [<- Hin]]]. right. exists (a_routes A). split; auto. apply Y3.
      + unfold Lr. apply in_flat_map. exists A. split; auto. unfold rentries.
        apply in_app_iff. left. destruct (a_routes A); [contradiction|]. simpl. auto.
      + intros y' H. destruct (HLr _ _ H) as [A' [HA' [[E1 [-> _]]|[E1 _]]]].
        * assert (A' = A) by (apply (name_inj ags); auto). now subst.
        * exfalso. now apply (Hname_nd A HA). }
  (* hosting *)
  destruct (hosting_fold_ok AL (filter hcond ags) (mkH 0 [] [])) as [hs [Eh [Hdf [H1 H2]]]].
  { intros A HA. apply filter_In in HA as [HA _]. split; [now apply Hname_nd|].
    split; [now apply Hmem|]. now apply Hkeys. }
  { now apply NoDup_map_filter. }
  rewrite Eh. cbn [bind]. eexists. split; [reflexivity|].
  unfold AL. rewrite map_map. apply Forall2_map_r. intros A HA.
  unfold agent_rel, aentry. cbn [fst snd a_name]. split; auto. split; auto. split.
  { unfold getattr at 1. cbn [a_attrs]. apply capacity_kept. }
  split.
  - (* routes *)
    intros o. unfold route. cbn [a_name a_routes a_default_route].
    destruct (String.eqb (a_name A) o) eqn:Eo; auto.
    assert (Edr : dr1 = a_default_route A).
    { rewrite D1.
      - unfold dr. destruct ags as [|a0 r]; [contradiction|]. apply Hdr; simpl; auto.
      - apply in_map_iff. exists (default_s, YRScalar dr). split; auto. apply Y3.
        + unfold Lr. apply in_flat_map. exists A. split; auto. unfold rentries.
          apply in_app_iff. right. left. f_equal. f_equal. unfold dr.
          destruct ags as [|a0 r]; [contradiction|]. apply Hdr; simpl; auto.
        + intros y' H. destruct (HLr _ _ H) as [A' [HA' [[E1 _]|[_ E1]]]]; auto.
          exfalso. apply (Hname_nd A' HA'). auto. }
    rewrite Edr.
    assert (Es : slookup o (routes_of (a_name A) R) = slookup o (a_routes A)).
    { rewrite routes_of_lookup by auto.
      assert (Em : match plookup (o, a_name A) R with Some c => Some c | None => plookup (a_name A, o) R end
                   = plookup (a_name A, o) R).
      { destruct (plookup (o, a_name A) R) eqn:E; auto.
        apply HR' in E. apply Rt_sym in E. apply HR' in E. now rewrite E. }
      rewrite Em. apply option_ext. intros c. rewrite HR'. split.
      - intros [A' [HA' [E1 Hin]]]. assert (A' = A) by (apply (name_inj ags); auto). subst.
        apply (lookup_in_nodup String.eqb String.eqb_eq); auto. apply Hkeys; auto.
      - intros H. apply (lookup_some_in String.eqb String.eqb_eq) in H. exists A. auto. }
    rewrite Es. reflexivity.
  - (* hosting costs *)
    intros c. unfold hosting_cost. cbn [a_hosting a_default_hosting].
    rewrite hosting_of_lookup.
    destruct (hcond A) eqn:Ec.
    + destruct (H1 A) as [G1 G2]; [apply filter_In; auto|].
      rewrite G1, G2. cbn [h_costs]. unfold plookup at 1. simpl lookup.
      destruct (slookup c (a_hosting A)); reflexivity.
    + assert (Hnot : ~ In (a_name A) (map a_name (filter hcond ags))).
      { intros Hin. apply in_map_iff in Hin as [A' [E HA']]. apply filter_In in HA' as [HA' Ec'].
        assert (A' = A) by (apply (name_inj ags); auto). subst. congruence. }
      destruct (H2 (a_name A) Hnot) as [G1 G2]. rewrite G1, G2, Hdf. cbn [h_agt h_costs h_default].
      unfold hcond in Ec. apply orb_false_iff in Ec as [E1 E2].
      apply negb_false_iff in E1, E2. apply Z.eqb_eq in E1.
      destruct (a_hosting A); [|discriminate]. simpl. now rewrite E1.
Qed.

(* ====================================================================================== *)
(* the whole DCOP                                                                           *)
(* ====================================================================================== *)
Local Open Scope string_scope.

(* expressibility: what the proofs need for a DCOP object to be written in the format
   without loss (each conjunct is discussed in design_notes/C14.md) *)
Definition wf (d : dcop) : Prop :=
  (dc_objective d = "min" \/ dc_objective d = "max") /\
  NoDup (map d_name (dc_domains d)) /\ Forall dotdot_free (dc_domains d) /\
  NoDup (map v_name (dc_variables d)) /\ Forall (var_ok (dc_domains d)) (dc_variables d) /\
  NoDup (map c_name (dc_constraints d)) /\ Forall (cons_ok (dc_variables d)) (dc_constraints d) /\
  agents_wf (dc_agents d).

(* the property's equivalence between the DCOP written and the DCOP loaded *)
Definition equiv (d : dcop) (l : loaded) : Prop :=
  l_name l = dc_name d /\ l_objective l = dc_objective d /\
  l_domains l = named_doms (dc_domains d) /\
  l_variables l = named_vars (dc_variables d) /\
  Forall2 cons_rel (dc_constraints d) (l_constraints l) /\
  Forall2 agent_rel (dc_agents d) (l_agents l).

Lemma olist_some_if_nonempty {A} (l : list A) : olist (some_if_nonempty l) = l.
Proof. destruct l; reflexivity. Qed.

Theorem yaml_roundtrip_l d : wf d ->
  exists t l, to_tree d = Ok t /\ of_tree t = Ok l /\ equiv d l.
Proof.
  destruct d as [name obj ds vs cs ags]. unfold wf. cbn [dc_name dc_objective dc_domains dc_variables dc_constraints dc_agents].
  intros [Hobj [Hd1 [Hd2 [Hv1 [Hv2 [Hc1 [Hc2 Hag]]]]]]].
  destruct (constraints_roundtrip_l vs cs Hv1 Hc1 Hc2) as [ycs [lcs [C1 [C2 C3]]]].
  set (t := mkTree (Some name) (Some obj) (Some (yaml_domains ds)) (Some (yaml_variables vs)) (Some ycs)
              (option_map YAMap (some_if_nonempty (yaml_agents_agents ags)))
              (some_if_nonempty (yaml_agents_routes ags))
              (some_if_nonempty (yaml_agents_hosting ags))).
  destruct (agents_roundtrip_l ags t Hag) as [las [A1 A2]].
  { unfold agents_list, t. cbn [y_agents]. destruct (yaml_agents_agents ags); reflexivity. }
  { unfold t. cbn [y_routes]. apply olist_some_if_nonempty. }
  { unfold t. cbn [y_hosting]. apply olist_some_if_nonempty. }
  exists t, (mkLoaded name obj (named_doms ds) (named_vars vs) lcs las).
  split; [|split].
  - unfold to_tree. cbn [dc_name dc_objective dc_domains dc_variables dc_constraints dc_agents].
    rewrite C1. reflexivity.
  - unfold of_tree. cbn [y_name y_objective of_opt bind t].
    assert (Eo : negb (String.eqb obj "min" || String.eqb obj "max") = false).
    { destruct Hobj as [-> | ->]; reflexivity. }
    rewrite Eo. unfold build_domains, build_variables, build_constraints.
    cbn [y_domains y_variables y_constraints olist t].
    rewrite (domains_roundtrip_l ds Hd1 Hd2). cbn [bind].
    rewrite (variables_roundtrip_l ds vs Hd1 Hv1 Hv2). cbn [bind].
    rewrite C2. cbn [bind]. fold t. rewrite A1. reflexivity.
  - unfold equiv. cbn. repeat split; auto.
Qed.

(* ---------- several files ---------- *)
Definition sec_kind (s : section) : nat :=
  match s with
  | SecName _ => 0 | SecObjective _ => 1 | SecDomains _ => 2 | SecVariables _ => 3
  | SecConstraints _ => 4 | SecAgents _ => 5 | SecRoutes _ => 6 | SecHosting _ => 7
  end%nat.

Lemma set_section_comm t s1 s2 : sec_kind s1 <> sec_kind s2 ->
  set_section (set_section t s1) s2 = set_section (set_section t s2) s1.
Proof. destruct s1, s2; simpl; intros H; try reflexivity; congruence. Qed.

Lemma sections_perm l l' : Permutation l l' -> NoDup (map sec_kind l) ->
  forall t, fold_left set_section l t = fold_left set_section l' t.
Proof.
  induction 1 as [|x l l' Hp IH|x y l|l l' l'' H1 IH1 H2 IH2]; intros Hnd t; simpl; auto.
  - inversion Hnd; subst. auto.
  - inversion Hnd as [|? ? Hn _]; subst. rewrite set_section_comm; auto.
    intros E. apply Hn. simpl. auto.
  - rewrite IH1 by auto. apply IH2.
    eapply Permutation_NoDup; [|exact Hnd]. now apply Permutation_map.
Qed.

Lemma tree_of_sections_of t : tree_of_sections (sections_of t) = t.
Proof.
  destruct t as [[a|] [b|] [c|] [d|] [e|] [f|] [g|] [h|]]; reflexivity.
Qed.

Lemma sections_of_kinds t : NoDup (map sec_kind (sections_of t)).
Proof.
  destruct t as [[a|] [b|] [c|] [d|] [e|] [f|] [g|] [h|]]; cbv;
    repeat (constructor; [cbv; intuition congruence|]); constructor.
Qed.

(* loading a document split into several files, its top-level sections distributed over the
   files in ANY order, is loading the document *)
Theorem multi_file_split_l t files :
  Permutation (List.concat files) (sections_of t) -> load_files files = of_tree t.
Proof.
  intros Hp. unfold load_files. f_equal.
  transitivity (tree_of_sections (sections_of t)); [|apply tree_of_sections_of].
  unfold tree_of_sections. symmetry.
  apply sections_perm; [now apply Permutation_sym|apply sections_of_kinds].
Qed.

Theorem yaml_roundtrip_files_l d : wf d ->
  exists t l, to_tree d = Ok t /\ equiv d l /\
    forall files, Permutation (List.concat files) (sections_of t) -> load_files files = Ok l.
Proof.
  intros H. destruct (yaml_roundtrip_l d H) as [t [l [E1 [E2 E3]]]].
  exists t, l. split; auto. split; auto. intros files Hp. now rewrite (multi_file_split_l t files Hp).
Qed.

(* ---------- non-vacuity and the necessity of two guard conjuncts ---------- *)
Definition ex_d1 := mkDom "d1" "" [VInt 1; VInt 2].
Definition ex_d2 := mkDom "d2" "" [VStr "a"; VStr "b"].
Definition ex_v1 := mkVar "v1" ex_d1 None.
Definition ex_v2 := mkVar "v2" ex_d2 (Some (VStr "a")).
Definition ex_v3 := mkVar "v3" ex_d1 (Some (VInt 2)).
Definition ex_table : list (tuple * Z) :=
  [([0;0]%nat, 5); ([0;1]%nat, 7); ([1;0]%nat, 7); ([1;1]%nat, 5)].
Definition ex_dcop : dcop :=
  mkDcop "t1" "max" [ex_d1; ex_d2] [ex_v1; ex_v2; ex_v3]
    [CExt "c1" [ex_v1; ex_v2] ex_table; CInt "c2" "v1 + v3"]
    [mkAgent "a1" 3 [("a2", 7)] 0 [] [("capacity", 10)];
     mkAgent "a2" 3 [("a1", 7)] 5 [("v1", 2)] [("foo", 1)]].

Ltac nodup_strings := repeat (constructor; [simpl; intuition discriminate|]); constructor.

Lemma ex_dcop_wf : wf ex_dcop.
Proof.
  unfold wf, ex_dcop. cbn [dc_objective dc_domains dc_variables dc_constraints dc_agents].
  split; [now right|]. split; [nodup_strings|]. split; [repeat constructor|].
  split; [nodup_strings|]. split.
  { constructor; [|constructor; [|constructor; [|constructor]]]; split; simpl; auto. }
  split; [nodup_strings|]. split.
  { constructor; [|constructor; [exact I|constructor]].
    split; [exact (proj1 c14_nonvacuous_l)|]. split.
    - constructor; [|constructor; [|constructor]]; simpl; auto.
    - constructor; [|constructor; [|constructor]]; simpl; discriminate. }
  unfold agents_wf. split; [nodup_strings|]. split; [simpl; intuition discriminate|].
  split; [|split].
  - intros a b [<-|[<-|[]]] [<-|[<-|[]]]; reflexivity.
  - intros a [<-|[<-|[]]]; simpl; split; nodup_strings.
  - intros a o c [<-|[<-|[]]] [H|[]]; inversion H; subst; simpl.
    + eexists. split; [right; left; reflexivity|]. simpl. auto.
    + eexists. split; [left; reflexivity|]. simpl. auto.
Qed.

Lemma ex_dcop_loaded :
  bind (to_tree ex_dcop) of_tree =
  Ok (mkLoaded "t1" "max" [("d1", ex_d1); ("d2", ex_d2)]
        [("v1", ex_v1); ("v2", ex_v2); ("v3", ex_v3)]
        [("c1", LExt [ex_v1; ex_v2]
                  [([0;0]%nat, Some 5); ([0;1]%nat, Some 7); ([1;0]%nat, Some 7); ([1;1]%nat, Some 5)]);
         ("c2", LInt "v1 + v3")]
        [("a1", mkAgent "a1" 3 [("a2", 7)] 0 [] [("capacity", 10)]);
         ("a2", mkAgent "a2" 3 [("a1", 7)] 5 [("v1", 2)] [])]).
Proof. vm_compute. reflexivity. Qed.

(* agents with different default routes: the format has one routes.default, the last agent's
   value is written and the other agents' routes change *)
Lemma default_route_guard_refuted_l : exists d t l,
  to_tree d = Ok t /\ of_tree t = Ok l /\
  exists a e o, In a (dc_agents d) /\ In e (l_agents l) /\ fst e = a_name a /\
                route (snd e) o <> route a o.
Proof.
  exists (mkDcop "t" "min" [] [] [] [mkAgent "a1" 2 [] 0 [] []; mkAgent "a2" 5 [] 0 [] []]).
  eexists. eexists. split; [vm_compute; reflexivity|]. split; [vm_compute; reflexivity|].
  exists (mkAgent "a1" 2 [] 0 [] []), ("a1", mkAgent "a1" 5 [] 0 [] []), "a2".
  split; [simpl; auto|]. split; [simpl; auto|]. split; [reflexivity|]. vm_compute. discriminate.
Qed.

(* a variable whose domain is not one of dcop.domains: the file is written, loading it fails
   (KeyError) *)
Lemma unregistered_domain_guard_refuted_l : exists d t,
  to_tree d = Ok t /\ of_tree t = Err EKey.
Proof.
  exists (mkDcop "t" "min" [] [ex_v1] [] []). eexists.
  split; vm_compute; reflexivity.
Qed.

(* ---------- the "values" mapping of a table constraint may be read in any order ---------- *)
Lemma ext_values_order_independent_l dims table dflt vals vals' :
  ext_wf dims table -> ext_values dims table = Ok vals -> Permutation vals vals' ->
  exists m, foldM (ext_load_one dims) vals' (assignment_matrix dims dflt) = Ok m /\
    map fst m = all_tuples (shape_of dims) /\
    forall t, In t (all_tuples (shape_of dims)) ->
              lookup tuple_eqb t m = option_map Some (lookup tuple_eqb t table).
Proof.
  intros Hwf Ev Hp. rewrite (ext_values_ok dims table Hwf) in Ev. inversion Ev as [Ev']. clear Ev.
  rewrite <- Ev' in Hp. apply Permutation_sym in Hp.
  apply Permutation_map_inv in Hp as [G' [-> HG]].
  set (F := fun g : Z * list (list value) => (fst g, AStr (join bar_sep (map enc (snd g))))).
  set (m0 := assignment_matrix dims dflt).
  set (W := gflat G').
  set (ws := map (fun p : Z * list value => (idx dims (snd p), fst p)) W).
  assert (HinG : forall g, In g G' -> In g (group (aps dims table))).
  { intros g Hg. eapply Permutation_in; [apply Permutation_sym; exact HG|exact Hg]. }
  assert (HW : forall p, In p W -> In (snd p) (gen_assign dims) /\ fst p = cost dims table (snd p)).
  { intros p Hp. unfold W, gflat in Hp. apply in_flat_map in Hp as [g [Hg Hp]].
    apply in_map_iff in Hp as [a [<- Ha]]. simpl.
    assert (Hin : In (fst g, a) (gflat (group (aps dims table)))).
    { unfold gflat. apply in_flat_map. exists g. split; [now apply HinG|]. apply in_map_iff; eauto. }
    apply (proj1 (group_in _ _)) in Hin. unfold aps in Hin. apply in_map_iff in Hin as [a' [E Hin]].
    inversion E; subst. auto. }
  assert (Hkeys : map fst m0 = all_tuples (shape_of dims)).
  { unfold m0, assignment_matrix. rewrite map_map. simpl. apply map_id. }
  exists (fold_left wstep ws m0).
  assert (Hfold : foldM (ext_load_one dims) (map F G') m0 = Ok (fold_left wstep ws m0)).
  { rewrite <- (foldM_map (ext_load_one dims) F).
    rewrite (foldM_ext _ (fun m g => foldM (load_step dims) (map (fun a => (fst g, a)) (snd g)) m))
      by (intros; apply (load_group dims table Hwf); auto).
    rewrite (foldM_flat_map (load_step dims) (fun g : Z * list (list value) => map (fun a => (fst g, a)) (snd g))).
    fold (gflat G'). fold W. apply foldM_pure. unfold ws.
    assert (G : forall l, (forall p, In p l -> In p W) ->
              Forall2 (fun x y => forall s, load_step dims s x = Ok (wstep s y)) l
                      (map (fun p : Z * list value => (idx dims (snd p), fst p)) l)).
    { induction l as [|p r IH]; intros Hl; simpl; constructor.
      - destruct (HW p (Hl p (or_introl eq_refl))) as [Ha Ek].
        destruct (assignment_ok dims table Hwf _ Ha) as [t [E1 [E2 _]]].
        intros s. unfold load_step, wstep, idx. rewrite E2, E1. reflexivity.
      - apply IH. intros; apply Hl; now right. }
    apply G; auto. }
  split; [exact Hfold|].
  destruct (writes_consistent table ws m0) as [K1 K2].
  { intros t k Hin. unfold ws in Hin. apply in_map_iff in Hin as [p [E Hp]].
    inversion E; subst. destruct (HW p Hp) as [Ha Ek].
    destruct (assignment_ok dims table Hwf _ Ha) as [t [E1 [_ [E3 [E4 _]]]]].
    unfold idx. rewrite E1, Hkeys, Ek. auto. }
  split; [congruence|]. intros t Ht. rewrite K2.
  destruct Hwf as [Hne [Hok Hrest]].
  destruct (indices_cover dims t Hok Ht) as [a [Ha Ea]]. apply gen_assign_spec in Ha.
  assert (Hex : existsb (fun w : tuple * Z => tuple_eqb (fst w) t) ws = true).
  { apply existsb_exists. exists (idx dims a, cost dims table a). split.
    - unfold ws. apply in_map_iff. exists (cost dims table a, a). split; auto.
      assert (Hin : In (cost dims table a, a) (gflat (group (aps dims table)))).
      { apply group_in. unfold aps. apply in_map_iff. eauto. }
      unfold W. unfold gflat in *. apply in_flat_map in Hin as [g [Hg Hin]].
      apply in_flat_map. exists g. split; auto. eapply Permutation_in; [exact HG|exact Hg].
    - simpl. unfold idx. rewrite Ea. now apply tuple_eqb_eq. }
  now rewrite Hex.
Qed.

(* ====================================================================================== *)
(* invariance under a re-ordering of the keys of every mapping of the tree (yaml.dump sorts  *)
(* the keys of every mapping: the tree that is read is a key re-ordering of the tree that    *)
(* was written)                                                                              *)
(* ====================================================================================== *)
Lemma Forall2_perm_r {A B} (R : A -> B -> Prop) l1 l2 l2' :
  Forall2 R l1 l2 -> Permutation l2 l2' ->
  exists l1', Permutation l1 l1' /\ Forall2 R l1' l2'.
Proof.
  intros HF Hp. revert l1 HF. induction Hp as [|y l2 l2' Hp IH|x y l2|l2 l2' l2'' H1 IH1 H2 IH2]; intros l1 HF.
  - inversion HF; subst. exists []. split; auto.
  - inversion HF as [|a b l1r ? Hab Hr]; subst. destruct (IH _ Hr) as [l1' [P F]].
    exists (a :: l1'). split; auto.
  - inversion HF as [|a b l1r ? Hab Hr]; subst. inversion Hr as [|a2 b2 l1r2 ? Hab2 Hr2]; subst.
    exists (a2 :: a :: l1r2). split; [apply perm_swap|]. repeat constructor; auto.
  - destruct (IH1 _ HF) as [l1' [P1 F1]]. destruct (IH2 _ F1) as [l1'' [P2 F2]].
    exists l1''. split; auto. eapply perm_trans; eauto.
Qed.

Lemma Forall2_trans_rel {A B C} (R : A -> B -> Prop) (Q : B -> C -> Prop) l1 l2 l3 :
  Forall2 R l1 l2 -> Forall2 Q l2 l3 -> Forall2 (fun a c => exists b, R a b /\ Q b c) l1 l3.
Proof.
  intros H; revert l3; induction H; intros l3 H2; inversion H2; subst; constructor; eauto.
Qed.

Lemma Forall2_in_l {A B} (R : A -> B -> Prop) l l' x :
  Forall2 R l l' -> In x l -> exists y, In y l' /\ R x y.
Proof.
  induction 1; simpl; intros Hin; [contradiction|]. destruct Hin as [->|Hin]; eauto.
  destruct (IHForall2 Hin) as [y' [H1 H2]]. eauto.
Qed.

Lemma Forall2_in_r {A B} (R : A -> B -> Prop) l l' y :
  Forall2 R l l' -> In y l' -> exists x, In x l /\ R x y.
Proof.
  induction 1; simpl; intros Hin; [contradiction|]. destruct Hin as [->|Hin]; eauto.
  destruct (IHForall2 Hin) as [x' [H1 H2]]. eauto.
Qed.

Lemma mapM_forall2_rel {A B C} (f : B -> result C) (P : A -> B -> Prop) (R : A -> C -> Prop) l l' :
  Forall2 P l l' -> (forall a b, In a l -> P a b -> exists c, f b = Ok c /\ R a c) ->
  exists cs, mapM f l' = Ok cs /\ Forall2 R l cs.
Proof.
  induction 1 as [|a b l l' Hab Hl IH]; intros H.
  - exists []. split; auto.
  - destruct (H a b (or_introl eq_refl) Hab) as [c [Ec Rc]].
    destruct IH as [cs [Ecs Rcs]]; [intros; eapply H; eauto; now right|].
    exists (c :: cs). simpl. rewrite Ec, Ecs. split; auto.
Qed.

(* a mapping re-ordered, its values related entry by entry by [vp] *)
Definition assoc_perm {V} (vp : V -> V -> Prop) (l l' : list (string * V)) : Prop :=
  exists l'', Permutation l l'' /\ Forall2 (fun e e' => fst e = fst e' /\ vp (snd e) (snd e')) l'' l'.
Definition oassoc_perm {V} (vp : V -> V -> Prop) (o o' : option (list (string * V))) : Prop :=
  match o, o' with
  | Some l, Some l' => assoc_perm vp l l'
  | None, None => True
  | _, _ => False
  end.

Lemma assoc_perm_eq {V} (l l' : list (string * V)) : assoc_perm eq l l' -> Permutation l l'.
Proof.
  intros [l'' [Hp HF]]. assert (l'' = l').
  { clear Hp. induction HF as [|[k v] [k' v'] r r' [E1 E2] _ IH]; auto. simpl in *. subst. reflexivity. }
  now subst.
Qed.

Definition ycons_perm (y y' : ycons) : Prop :=
  yc_type y = yc_type y' /\ yc_function y = yc_function y' /\ yc_variables y = yc_variables y' /\
  yc_default y = yc_default y' /\
  match yc_values y, yc_values y' with
  | Some v, Some v' => Permutation v v'
  | None, None => True
  | _, _ => False
  end.

Lemma constraint_roundtrip_perm_l vs c y y' :
  NoDup (map v_name vs) -> cons_ok vs c -> yaml_constraint c = Ok y -> ycons_perm y y' ->
  exists lc, build_constraint (named_vars vs) (c_name c, y') = Ok (c_name c, lc) /\ cons_equiv c lc.
Proof.
  intros Hnd Hok Ey Hp. destruct c as [n dims table|n e].
  - destruct Hok as [Hwf [Hin Hne]]. unfold yaml_constraint in Ey.
    destruct (ext_values dims table) as [vals|] eqn:Ev; simpl in Ey; [|discriminate].
    inversion Ey; subst y. clear Ey.
    destruct y' as [ty fn vr vl df]. destruct Hp as [E1 [E2 [E3 [E4 E5]]]]. simpl in *. subst.
    destruct vl as [vals'|]; [|contradiction].
    destruct (ext_values_order_independent_l dims table None vals vals' Hwf Ev E5) as [m [F1 [F2 F3]]].
    exists (LExt dims m). split; [|simpl; auto].
    unfold build_constraint. cbn [yc_type yc_function yc_variables yc_values yc_default c_name].
    change (String.eqb "extensional" "intention") with false.
    change (String.eqb "extensional" "extensional") with true. cbv iota.
    cbn [of_opt bind]. rewrite (scope_lookup vs dims Hnd Hin). cbn [bind].
    destruct Hwf as [Hd _]. destruct dims as [|v0 dr]; [congruence|].
    cbn [is_nil orb]. rewrite (no_empty_scope _ Hne). rewrite F1. reflexivity.
  - simpl in Ey. inversion Ey; subst y. clear Ey.
    destruct y' as [ty fn vr vl df]. destruct Hp as [E1 [E2 [E3 [E4 E5]]]]. simpl in *. subst.
    exists (LInt e). split; reflexivity.
Qed.

Lemma yaml_constraints_spec vs cs :
  NoDup (map v_name vs) -> NoDup (map c_name cs) -> Forall (cons_ok vs) cs ->
  exists ycs, yaml_constraints cs = Ok ycs /\
    Forall2 (fun c e => fst e = c_name c /\ yaml_constraint c = Ok (snd e)) cs ycs.
Proof.
  intros Hv Hc Hok.
  assert (G : exists ys, mapM yaml_constraint cs = Ok ys /\
                         Forall2 (fun c y => yaml_constraint c = Ok y) cs ys).
  { apply mapM_forall2_exists. intros c Hin. rewrite Forall_forall in Hok.
    destruct (constraint_roundtrip_l vs c Hv (Hok c Hin)) as [y [_ [E _]]]. eauto. }
  destruct G as [ys [G1 G2]]. exists (combine (map c_name cs) ys). split.
  - unfold yaml_constraints. rewrite (yaml_constraints_fold cs ys G1).
    rewrite (set_all_fresh String.eqb String.eqb_eq); auto.
    apply forall2_length in G2.
    assert (E : map fst (combine (map c_name cs) ys) = map c_name cs).
    { clear - G2. revert ys G2. induction cs; intros [|y ys] H; simpl in *; try congruence.
      f_equal. apply IHcs. congruence. }
    now rewrite E.
  - clear - G2. induction G2; simpl; constructor; auto.
Qed.

Lemma lookup_perm_nodup {K V} (keq : K -> K -> bool) (keq_eq : forall a b, keq a b = true <-> a = b)
  k (l l' : list (K * V)) :
  NoDup (map fst l) -> Permutation l l' -> lookup keq k l' = lookup keq k l.
Proof.
  intros Hnd Hp. assert (Hnd' : NoDup (map fst l')).
  { eapply Permutation_NoDup; [|exact Hnd]. now apply Permutation_map. }
  apply option_ext. intros v. split; intros H.
  - apply (lookup_some_in keq keq_eq) in H. apply (lookup_in_nodup keq keq_eq); auto.
    eapply Permutation_in; [apply Permutation_sym; exact Hp|exact H].
  - apply (lookup_some_in keq keq_eq) in H. apply (lookup_in_nodup keq keq_eq); auto.
    eapply Permutation_in; [exact Hp|exact H].
Qed.

Lemma Forall2_keys {V} (vp : V -> V -> Prop) (l l' : list (string * V)) :
  Forall2 (fun e e' => fst e = fst e' /\ vp (snd e) (snd e')) l l' -> map fst l = map fst l'.
Proof. induction 1 as [|e e' r r' [E _] _ IH]; simpl; congruence. Qed.

Definition yroute_perm (y y' : yroute) : Prop :=
  match y, y' with
  | YRScalar a, YRScalar b => a = b
  | YRTable t, YRTable t' => Permutation t t'
  | _, _ => False
  end.
Definition yhost_perm (y y' : yhost) : Prop :=
  match y, y' with
  | YHScalar a, YHScalar b => a = b
  | YHTable d c, YHTable d' c' =>
      d = d' /\ match c, c' with
                | Some l, Some l' => Permutation l l'
                | None, None => True
                | _, _ => False
                end
  | _, _ => False
  end.

Lemma host_perm_agents : forall L2 hs',
  Forall2 (fun e e' : string * yhost => fst e = fst e' /\ yhost_perm (snd e) (snd e')) (map hentry L2) hs' ->
  exists L', hs' = map hentry L' /\
    Forall2 (fun A A' => a_name A' = a_name A /\ a_default_hosting A' = a_default_hosting A /\
                         Permutation (a_hosting A) (a_hosting A')) L2 L'.
Proof.
  induction L2 as [|A r IH]; intros hs' H; inversion H as [|e e' l l' [E1 E2] Hr]; subst.
  - exists []. split; auto.
  - destruct (IH _ Hr) as [L' [-> F]]. destruct e' as [k y']. simpl in E1, E2. subst k.
    destruct y' as [z|d' c']; [contradiction|]. destruct E2 as [<- E2].
    destruct c' as [comps'|]; [|contradiction].
    exists (mkAgent (a_name A) 0 [] (a_default_hosting A) comps' [] :: L'). split; [reflexivity|].
    constructor; auto.
Qed.

Lemma agents_load_perm_l ags ags1 t' :
  agents_wf ags -> Permutation ags ags1 ->
  agents_list t' = map aentry ags1 ->
  assoc_perm yroute_perm (yaml_agents_routes ags) (olist (y_routes t')) ->
  assoc_perm yhost_perm (yaml_agents_hosting ags) (olist (y_hosting t')) ->
  exists las, build_agents t' = Ok las /\ Forall2 agent_rel ags1 las.
Proof.
  intros [Hnd [Hndef [Hdr [Hkeys Hsym]]]] Hperm EA [ys2 [PR FR]] [hs2 [PH FH]].
  unfold build_agents. rewrite EA.
  set (ys' := olist (y_routes t')) in *. set (hs' := olist (y_hosting t')) in *.
  rewrite yaml_agents_hosting_eq in PH by auto. rewrite yaml_agents_routes_eq in PR.
  set (AL := map aentry ags1).
  set (Rt := fun a b c => exists A, In A ags /\ a_name A = a /\ In (b, c) (a_routes A)).
  set (dr := match ags with a :: _ => a_default_route a | [] => 1 end).
  assert (Hmem : forall A, In A ags -> mem_key String.eqb (a_name A) AL = true).
  { intros A HA. unfold mem_key.
    destruct (in_keys_lookup String.eqb String.eqb_eq (a_name A) AL) as [v ->]; auto.
    unfold AL. rewrite map_map. simpl. apply in_map. eapply Permutation_in; eauto. }
  assert (Rt_sym : forall a b c, Rt a b c -> Rt b a c).
  { intros a b c [A [HA [<- Hin]]]. destruct (Hsym A b c HA Hin) as [B [HB [EB HinB]]].
    exists B. auto. }
  assert (Rt_fun : forall a b c c', Rt a b c -> Rt a b c' -> c = c').
  { intros a b c c' [A [HA [EA1 H1]]] [A' [HA' [EA2 H2]]].
    assert (A' = A) by (apply (name_inj ags); auto; congruence). subst A'.
    destruct (Hkeys A HA) as [Hk _].
    apply (lookup_in_nodup String.eqb String.eqb_eq _ _ _ Hk) in H1, H2. congruence. }
  assert (Rt_agent : forall a b c, Rt a b c -> mem_key String.eqb b AL = true).
  { intros a b c H. apply Rt_sym in H as [B [HB [<- _]]]. now apply Hmem. }
  set (Lr := flat_map rentries ags) in *.
  destruct (dict_built_spec String.eqb String.eqb_eq Lr) as [Y1 [Y2 Y3]].
  set (ys := set_all String.eqb Lr []) in *.
  assert (HLr : forall k y, In (k, y) Lr ->
            exists A, In A ags /\
              ((k = a_name A /\ y = YRTable (a_routes A) /\ a_routes A <> []) \/
               (k = default_s /\ y = YRScalar dr))).
  { intros k y H. unfold Lr in H. apply in_flat_map in H as [A [HA H]]. exists A. split; auto.
    unfold rentries in H. apply in_app_iff in H as [H|[H|[]]].
    - left. destruct (a_routes A) eqn:E; simpl in H; [contradiction|].
      destruct H as [H|[]]. inversion H; subst. repeat split; auto. discriminate.
    - right. inversion H; subst. split; auto. f_equal. unfold dr.
      destruct ags as [|a0 r]; [contradiction|]. apply Hdr; simpl; auto. }
  assert (Hname_nd : forall A, In A ags -> a_name A <> default_s).
  { intros A HA E. apply Hndef. rewrite <- E. now apply in_map. }
  (* entries of the re-ordered routes mapping come from entries of the written one *)
  assert (Hback : forall k y', In (k, y') ys' -> exists y, In (k, y) ys /\ yroute_perm y y').
  { intros k y' H. destruct (Forall2_in_r _ _ _ _ FR H) as [[k0 y] [Hin [E1 E2]]]. simpl in *. subst k0.
    exists y. split; auto. eapply Permutation_in; [apply Permutation_sym; exact PR|exact Hin]. }
  assert (Hforth : forall k y, In (k, y) ys -> exists y', In (k, y') ys' /\ yroute_perm y y').
  { intros k y H. assert (H2 : In (k, y) ys2) by (eapply Permutation_in; eauto).
    destruct (Forall2_in_l _ _ _ _ FR H2) as [[k0 y'] [Hin [E1 E2]]]. simpl in *. subst k0. eauto. }
  assert (Hkeys' : Permutation (map fst ys) (map fst ys')).
  { rewrite <- (Forall2_keys _ _ _ FR). now apply Permutation_map. }
  destruct (routes_fold_ok AL Rt Rt_sym Rt_fun Rt_agent dr ys' 1 [])
    as [dr1 [R [Efold [HndR [D1 [_ HR]]]]]].
  { eapply Permutation_NoDup; [exact Hkeys'|exact Y1]. }
  { intros k y' H. destruct (Hback k y' H) as [y [Hy Hyy]]. apply Y2 in Hy.
    destruct (HLr k y Hy) as [A [HA [[-> [-> Hne]]|[-> ->]]]].
    - right. split; [now apply Hname_nd|]. split; [now apply Hmem|].
      destruct y' as [z|tb']; [contradiction|]. simpl in Hyy.
      exists tb'. split; auto. split.
      + eapply Permutation_NoDup; [apply Permutation_map; exact Hyy|]. apply Hkeys; auto.
      + intros b c Hin. exists A. split; auto. split; auto.
        eapply Permutation_in; [apply Permutation_sym; exact Hyy|exact Hin].
    - left. destruct y' as [z|tb']; [|contradiction]. simpl in Hyy. subst. auto. }
  { intros a b c H. discriminate. }
  { constructor. }
  rewrite Efold. cbn [bind].
  assert (HR' : forall a b c, plookup (a, b) R = Some c <-> Rt a b c).
  { intros a b c. rewrite HR. split.
    - intros [H|[tb' [H1 H2]]]; [discriminate|].
      destruct (Hback _ _ H1) as [y [Hy Hyy]]. apply Y2 in Hy.
      destruct (HLr _ _ Hy) as [A [HA [[-> [-> _]]|[_ ->]]]]; [|contradiction].
      simpl in Hyy. exists A. split; auto. split; auto.
      eapply Permutation_in; [apply Permutation_sym; exact Hyy|exact H2].
    - intros [A [HA [<- Hin]]]. right.
      assert (Hy : In (a_name A, YRTable (a_routes A)) ys).
      { apply Y3.
        + unfold Lr. apply in_flat_map. exists A. split; auto. unfold rentries.
          apply in_app_iff. left. destruct (a_routes A); [contradiction|]. simpl. auto.
        + intros y' H. destruct (HLr _ _ H) as [A' [HA' [[E1 [-> _]]|[E1 _]]]].
          * assert (A' = A) by (apply (name_inj ags); auto). now subst.
          * exfalso. now apply (Hname_nd A HA). }
      destruct (Hforth _ _ Hy) as [y' [Hy' Hyy]]. destruct y' as [z|tb']; [contradiction|].
      exists tb'. split; auto. eapply Permutation_in; [exact Hyy|exact Hin]. }
  (* hosting *)
  apply Permutation_sym in PH. apply Permutation_map_inv in PH as [L2 [-> PL2]].
  destruct (host_perm_agents L2 hs' FH) as [L' [Ehs FL]].
  assert (HL2 : forall A, In A L2 -> In A ags /\ hcond A = true).
  { intros A HA. apply filter_In. eapply Permutation_in; [apply Permutation_sym; exact PL2|exact HA]. }
  assert (Enames : map a_name L' = map a_name L2).
  { clear - FL. induction FL as [|A A' r r' [E _] _ IH]; simpl; congruence. }
  destruct (hosting_fold_ok AL L' (mkH 0 [] [])) as [hs [Eh [Hdf [H1 H2]]]].
  { intros A' HA'. destruct (Forall2_in_r _ _ _ _ FL HA') as [A [HA [E1 [E2 E3]]]].
    destruct (HL2 A HA) as [HAg _]. rewrite E1. split; [now apply Hname_nd|].
    split; [now apply Hmem|].
    eapply Permutation_NoDup; [apply Permutation_map; exact E3|]. apply Hkeys; auto. }
  { rewrite Enames. eapply Permutation_NoDup; [apply Permutation_map; exact PL2|].
    now apply NoDup_map_filter. }
  rewrite Ehs, Eh. cbn [bind]. eexists. split; [reflexivity|].
  unfold AL. rewrite map_map. apply Forall2_map_r. intros A HA1.
  assert (HA : In A ags) by (eapply Permutation_in; [apply Permutation_sym; exact Hperm|exact HA1]).
  unfold agent_rel, aentry. cbn [fst snd a_name]. split; auto. split; auto. split.
  { unfold getattr at 1. cbn [a_attrs]. apply capacity_kept. }
  split.
  - intros o. unfold route. cbn [a_name a_routes a_default_route].
    destruct (String.eqb (a_name A) o) eqn:Eo; auto.
    assert (Edr : dr1 = a_default_route A).
    { rewrite D1.
      - unfold dr. destruct ags as [|a0 r]; [contradiction|]. apply Hdr; simpl; auto.
      - eapply Permutation_in; [exact Hkeys'|].
        apply in_map_iff. exists (default_s, YRScalar dr). split; auto. apply Y3.
        + unfold Lr. apply in_flat_map. exists A. split; auto. unfold rentries.
          apply in_app_iff. right. left. f_equal. f_equal. unfold dr.
          destruct ags as [|a0 r]; [contradiction|]. apply Hdr; simpl; auto.
        + intros y' H. destruct (HLr _ _ H) as [A' [HA' [[E1 _]|[_ E1]]]]; auto.
          exfalso. apply (Hname_nd A' HA'). auto. }
    rewrite Edr.
    assert (Es : slookup o (routes_of (a_name A) R) = slookup o (a_routes A)).
    { rewrite routes_of_lookup by auto.
      assert (Em : match plookup (o, a_name A) R with Some c => Some c | None => plookup (a_name A, o) R end
                   = plookup (a_name A, o) R).
      { destruct (plookup (o, a_name A) R) eqn:E; auto.
        apply HR' in E. apply Rt_sym in E. apply HR' in E. now rewrite E. }
      rewrite Em. apply option_ext. intros c. rewrite HR'. split.
      - intros [A' [HA' [E1 Hin]]]. assert (A' = A) by (apply (name_inj ags); auto). subst.
        apply (lookup_in_nodup String.eqb String.eqb_eq); auto. apply Hkeys; auto.
      - intros H. apply (lookup_some_in String.eqb String.eqb_eq) in H. exists A. auto. }
    rewrite Es. reflexivity.
  - intros c. unfold hosting_cost. cbn [a_hosting a_default_hosting].
    rewrite hosting_of_lookup.
    destruct (hcond A) eqn:Ec.
    + assert (HAL2 : In A L2).
      { eapply Permutation_in; [exact PL2|]. apply filter_In. auto. }
      destruct (Forall2_in_l _ _ _ _ FL HAL2) as [A' [HA' [E1 [E2 E3]]]].
      destruct (H1 A' HA') as [G1 G2]. rewrite E1 in G1, G2.
      rewrite G1, G2. cbn [h_costs]. unfold plookup at 1. simpl lookup.
      unfold slookup. rewrite <- (lookup_perm_nodup String.eqb String.eqb_eq c _ _ (proj2 (Hkeys A HA)) E3).
      rewrite E2. destruct (lookup String.eqb c (a_hosting A')); reflexivity.
    + assert (Hnot : ~ In (a_name A) (map a_name L')).
      { rewrite Enames. intros Hin. apply in_map_iff in Hin as [A' [E HA']].
        destruct (HL2 A' HA') as [HA'g Ec'].
        assert (A' = A) by (apply (name_inj ags); auto). subst. congruence. }
      destruct (H2 (a_name A) Hnot) as [G1 G2]. rewrite G1, G2, Hdf. cbn [h_agt h_costs h_default].
      unfold hcond in Ec. apply orb_false_iff in Ec as [E1 E2].
      apply negb_false_iff in E1, E2. apply Z.eqb_eq in E1.
      destruct (a_hosting A); [|discriminate]. simpl. now rewrite E1.
Qed.

Definition yagents_perm (a a' : option yagents) : Prop :=
  match a, a' with
  | None, None => True
  | Some (YAMap l), Some (YAMap l') => assoc_perm eq l l'   (* an agent entry has at most one key *)
  | _, _ => False
  end.

(* t' is t with the entries of every mapping re-ordered (what yaml.dump's key sorting does) *)
Definition tperm (t t' : ytree) : Prop :=
  y_name t = y_name t' /\ y_objective t = y_objective t' /\
  oassoc_perm eq (y_domains t) (y_domains t') /\
  oassoc_perm eq (y_variables t) (y_variables t') /\
  oassoc_perm ycons_perm (y_constraints t) (y_constraints t') /\
  yagents_perm (y_agents t) (y_agents t') /\
  oassoc_perm yroute_perm (y_routes t) (y_routes t') /\
  oassoc_perm yhost_perm (y_hosting t) (y_hosting t').

(* the same DCOP with its four dicts iterated in another order *)
Definition dperm (d d' : dcop) : Prop :=
  dc_name d = dc_name d' /\ dc_objective d = dc_objective d' /\
  Permutation (dc_domains d) (dc_domains d') /\ Permutation (dc_variables d) (dc_variables d') /\
  Permutation (dc_constraints d) (dc_constraints d') /\ Permutation (dc_agents d) (dc_agents d').

Lemma Forall_perm {A} (P : A -> Prop) l l' : Forall P l -> Permutation l l' -> Forall P l'.
Proof.
  intros H Hp. rewrite Forall_forall in *. intros x Hx. apply H.
  eapply Permutation_in; [apply Permutation_sym; exact Hp|exact Hx].
Qed.

Lemma var_ok_perm ds ds' v : Permutation ds ds' -> var_ok ds v -> var_ok ds' v.
Proof. intros Hp [H1 H2]. split; auto. eapply Permutation_in; eauto. Qed.

Lemma cons_ok_perm vs vs' c : Permutation vs vs' -> cons_ok vs c -> cons_ok vs' c.
Proof.
  intros Hp. destruct c as [n dims table|n e]; simpl; auto. intros [H1 [H2 H3]].
  split; auto. split; auto. eapply Forall_impl; [|exact H2]. intros v Hv. eapply Permutation_in; eauto.
Qed.

Lemma oassoc_olist {V} (vp : V -> V -> Prop) l o' :
  oassoc_perm vp (some_if_nonempty l) o' -> assoc_perm vp l (olist o').
Proof.
  destruct l as [|x r]; destruct o' as [l'|]; simpl; try contradiction; auto.
  intros _. exists []. split; auto.
Qed.

Theorem yaml_roundtrip_any_key_order_l d t t' :
  wf d -> to_tree d = Ok t -> tperm t t' ->
  exists d' l, dperm d d' /\ of_tree t' = Ok l /\ equiv d' l.
Proof.
  destruct d as [name obj ds vs cs ags]. unfold wf.
  cbn [dc_name dc_objective dc_domains dc_variables dc_constraints dc_agents].
  intros [Hobj [Hd1 [Hd2 [Hv1 [Hv2 [Hc1 [Hc2 Hag]]]]]]] Et Hp.
  destruct (yaml_constraints_spec vs cs Hv1 Hc1 Hc2) as [ycs [C1 C2]].
  unfold to_tree in Et. cbn [dc_name dc_objective dc_domains dc_variables dc_constraints dc_agents] in Et.
  rewrite C1 in Et. cbn [bind] in Et. inversion Et; subst t. clear Et.
  destruct t' as [n' o' dm' vr' cn' ag' rt' hc'].
  destruct Hp as [P1 [P2 [P3 [P4 [P5 [P6 [P7 P8]]]]]]].
  cbn [y_name y_objective y_domains y_variables y_constraints y_agents y_routes y_hosting] in *.
  subst n' o'.
  (* domains *)
  destruct dm' as [dl'|]; [|contradiction]. simpl in P3. apply assoc_perm_eq in P3.
  rewrite yaml_domains_eq in P3 by auto. apply Permutation_sym, Permutation_map_inv in P3 as [ds' [-> Pd]].
  assert (Hd1' : NoDup (map d_name ds')).
  { eapply Permutation_NoDup; [apply Permutation_map; exact Pd|exact Hd1]. }
  (* variables *)
  destruct vr' as [vl'|]; [|contradiction]. simpl in P4. apply assoc_perm_eq in P4.
  rewrite yaml_variables_eq in P4 by auto. apply Permutation_sym, Permutation_map_inv in P4 as [vs' [-> Pv]].
  assert (Hv1' : NoDup (map v_name vs')).
  { eapply Permutation_NoDup; [apply Permutation_map; exact Pv|exact Hv1]. }
  (* constraints *)
  destruct cn' as [cl'|]; [|contradiction]. simpl in P5. destruct P5 as [cl2 [Pc Fc]].
  destruct (Forall2_perm_r _ _ _ _ C2 Pc) as [cs' [Pcs Fcs]].
  pose proof (Forall2_trans_rel _ _ _ _ _ Fcs Fc) as Fcc.
  destruct (mapM_forall2_rel (build_constraint (named_vars vs')) _ cons_rel _ _ Fcc) as [lcs [Elcs Rlcs]].
  { intros c [k' y'] Hc [[k y] [[E1 E2] [E3 E4]]]. simpl in *. subst k k'.
    destruct (constraint_roundtrip_perm_l vs' c y y' Hv1') as [lc [G1 G2]]; auto.
    - apply (cons_ok_perm vs); auto. rewrite Forall_forall in Hc2. apply Hc2.
      eapply Permutation_in; [apply Permutation_sym; exact Pcs|exact Hc].
    - exists (c_name c, lc). split; auto. split; auto. }
  (* agents *)
  rewrite yaml_agents_agents_eq in P6 by (apply Hag).
  assert (HA : exists ags1, Permutation ags ags1 /\
            agents_list (mkTree (Some name) (Some obj) (Some (map dom_entry ds')) (Some (map var_entry vs'))
                                (Some cl') ag' rt' hc') = map aentry ags1).
  { unfold agents_list. cbn [y_agents]. destruct ags as [|a0 ar].
    - simpl in P6. destruct ag' as [[l'|l']|]; try contradiction. exists []. split; auto.
    - simpl in P6. destruct ag' as [[l'|l']|]; try contradiction. apply assoc_perm_eq in P6.
      change (aentry a0 :: map aentry ar) with (map aentry (a0 :: ar)) in P6.
      apply Permutation_sym, Permutation_map_inv in P6 as [ags1 [-> Pa]]. exists ags1. auto. }
  destruct HA as [ags1 [Pa EA]].
  destruct (agents_load_perm_l ags ags1 _ Hag Pa EA) as [las [A1 A2]].
  { cbn [y_routes]. now apply oassoc_olist. }
  { cbn [y_hosting]. now apply oassoc_olist. }
  exists (mkDcop name obj ds' vs' cs' ags1), (mkLoaded name obj (named_doms ds') (named_vars vs') lcs las).
  split; [|split].
  - unfold dperm. cbn. repeat split; auto.
  - unfold of_tree. cbn [y_name y_objective of_opt bind].
    assert (Eo : negb (String.eqb obj "min" || String.eqb obj "max") = false).
    { destruct Hobj as [-> | ->]; reflexivity. }
    rewrite Eo. unfold build_domains, build_variables, build_constraints.
    cbn [y_domains y_variables y_constraints olist].
    rewrite <- (yaml_domains_eq ds' Hd1').
    rewrite (domains_roundtrip_l ds' Hd1' (Forall_perm _ _ _ Hd2 Pd)). cbn [bind].
    rewrite <- (yaml_variables_eq vs' Hv1').
    rewrite (variables_roundtrip_l ds' vs' Hd1' Hv1').
    2:{ eapply Forall_perm; [|exact Pv]. eapply Forall_impl; [|exact Hv2].
        intros v. now apply var_ok_perm. }
    cbn [bind]. rewrite Elcs. cbn [bind].
    rewrite (yaml_domains_eq ds' Hd1'), (yaml_variables_eq vs' Hv1'). rewrite A1. reflexivity.
  - unfold equiv. cbn. repeat split; auto.
Qed.

(* the whole pipeline: write, let the YAML layer re-order the keys of every mapping, distribute
   the top-level sections over files in any order, load *)
Theorem yaml_roundtrip_pipeline_l d t t' files :
  wf d -> to_tree d = Ok t -> tperm t t' ->
  Permutation (List.concat files) (sections_of t') ->
  exists d' l, dperm d d' /\ load_files files = Ok l /\ equiv d' l.
Proof.
  intros Hwf Et Hp Hf. destruct (yaml_roundtrip_any_key_order_l d t t' Hwf Et Hp) as [d' [l [H1 [H2 H3]]]].
  exists d', l. split; auto. split; auto. now rewrite (multi_file_split_l t' files Hf).
Qed.

Lemma tperm_nonvacuous_l :
  exists t t', to_tree ex_dcop = Ok t /\ tperm t t' /\ t <> t'.
Proof.
  eexists. eexists. split; [vm_compute; reflexivity|].
  (* the key-sorted tree: routes {a1, a2, default}, values {5, 7} swapped to show a real re-ordering *)
  instantiate (1 := mkTree (Some "t1") (Some "max")
     (Some [("d2", mkYDom [VStr "a"; VStr "b"] (Some "")); ("d1", mkYDom [VInt 1; VInt 2] (Some ""))])
     (Some [("v3", mkYVar (Some "d1") (Some (VInt 2))); ("v1", mkYVar (Some "d1") None);
            ("v2", mkYVar (Some "d2") (Some (VStr "a")))])
     (Some [("c2", mkYCons (Some "intention") (Some "v1 + v3") None None None);
            ("c1", mkYCons (Some "extensional") None (Some (YVList ["v1"; "v2"]))
                     (Some [(7, AStr "2 a | 1 b"); (5, AStr "1 a | 2 b")]) None)])
     (Some (YAMap [("a2", []); ("a1", [("capacity", 10)])]))
     (Some [("a1", YRTable [("a2", 7)]); ("a2", YRTable [("a1", 7)]); ("default", YRScalar 3)])
     (Some [("a2", YHTable (Some 5) (Some [("v1", 2)]))])).
  split; [|discriminate].
  unfold tperm. cbn [y_name y_objective y_domains y_variables y_constraints y_agents y_routes y_hosting].
  split; [reflexivity|]. split; [reflexivity|].
  assert (SW : forall (A : Type) (x y : A), Permutation [x; y] [y; x]) by (intros; apply perm_swap).
  split; [|split; [|split; [|split; [|split]]]].
  - eexists. split; [apply SW|]. repeat constructor.
  - eexists. split; [apply Permutation_sym, (Permutation_cons_append [_; _] _)|]. repeat constructor.
  - eexists. split; [apply SW|]. constructor; [|constructor; [|constructor]].
    + simpl. repeat split.
    + simpl. repeat split. apply SW.
  - simpl. eexists. split; [apply SW|]. repeat constructor.
  - eexists. split; [apply (perm_skip _ (SW _ _ _))|]. simpl.
    constructor; [|constructor; [|constructor; [|constructor]]]; simpl; split; auto.
  - eexists. split; [apply Permutation_refl|]. constructor; [|constructor]. simpl. split; auto.
Qed.
