(* [deepened: mgm_refines_rounds / mgm_async_monotone and, for MGM2, mgm2_refines_rounds / mgm2_async_* are theorems, see the deepening sections below] *)
(* Prop_C03.v -- C03: MGM (and MGM2) never worsen the global cost between cycles.
   Only statements; each closed by an exact lemma from P_Mgm / P_Mgm2.

   Full statement of the property: for every DCOP, objective, oracle and every schedule of starts
   and per-channel-FIFO deliveries of [mgm_proto], at every instant where all computations have
   completed k and then k+1 cycles, the global cost (constraints + variables' own costs) of the
   held assignment after cycle k+1 is not worse than after cycle k, and no two constraint-sharing
   variables both changed value in cycle k+1.

   Proved here, for all inputs: exactly that statement about ONE COMPLETE CYCLE AS A FUNCTION
   ([mgm_next]: every node computes from its neighbours' values of the cycle start and the gains
   computed from them) -- hence the suffix _partial.  What is not a theorem is the refinement
   "the asynchronous handlers compute mgm_next at every cycle boundary under every FIFO schedule"
   (mgm_refines_rounds); it is checked on every run by M_Mgm.rcheck_case, which replays
   [round_exec] against the cycle-boundary assignments of the real asynchronous executions. *)
From PyDcop Require Import Base Net M_Mgm P_Mgm M_Mgm2 P_Mgm2 P_Mgm3 P_Mgm3c P_Mgm3b M_Mgm2r P_Mgm2r.

(* no two variables sharing a constraint both move in the same cycle (strict best signed gain
   among neighbours, lexical tie-break) *)
Theorem mgm_movers_independent_partial : forall d a n m,
  r_moves d a n = true -> r_moves d a m = true -> In m (nbrs d n) -> False.
Proof. exact movers_independent. Qed.

(* one cycle never worsens the global cost, for min and max, with variables' own costs, n-ary
   constraints, any draws *)
Theorem mgm_round_monotone_partial : forall d, wf_dcop d = true -> forall a dr,
  if d_max d then gcost d a <= gcost d (mgm_next d a dr) else gcost d (mgm_next d a dr) <= gcost d a.
Proof. exact mgm_round_monotone_lemma. Qed.

(* any number of cycles, any draws per cycle *)
Theorem mgm_rounds_monotone_partial : forall d, wf_dcop d = true -> forall drs a,
  if d_max d then gcost d a <= gcost d (fold_left (mgm_next d) drs a)
  else gcost d (fold_left (mgm_next d) drs a) <= gcost d a.
Proof. exact mgm_rounds_monotone_lemma. Qed.

(* ------------------------------------------------------------------ deepening (P_Mgm3*.v)
   mgm_refines_rounds is now a THEOREM: in every reachable configuration of the asynchronous
   handlers (any schedule of starts and FIFO deliveries), a started computation whose cycle counter
   is c holds the value of the synchronous reference run after c-1 rounds ([RA d orc j] = the j-fold
   iteration of M_Mgm.mgm_next from the start values, every node using its own draws) -- so the
   _partial round theorems above ARE statements about real executions at cycle boundaries. *)
Theorem mgm_refines_rounds : forall d stop orc cf n, 0 <= stop ->
  reachable (mgm_proto d stop orc) cf -> w_running (nodes cf n) = true ->
  m_value (w_st (nodes cf n)) = Some (RA d orc (Z.to_nat (m_cycle (w_st (nodes cf n)) - 1)) n).
Proof. exact mgm_refines_rounds_closed. Qed.

(* C03 for asynchronous executions: [at_boundary d cf j] = every variable is started and those that
   take part in cycles have completed exactly j of them; between ANY reachable configuration at
   boundary j and ANY at boundary j+1 the global cost of the held assignment does not get worse *)
Theorem mgm_async_monotone : forall d stop orc, 0 <= stop -> forall cf1 cf2 j, wf_dcop d = true ->
  reachable (mgm_proto d stop orc) cf1 -> reachable (mgm_proto d stop orc) cf2 ->
  at_boundary d cf1 j -> at_boundary d cf2 (S j) ->
  if d_max d then gcost d (held cf1) <= gcost d (held cf2) else gcost d (held cf2) <= gcost d (held cf1).
Proof. exact mgm_async_monotone_l. Qed.

(* ... and no two constraint-sharing variables both changed their value in that cycle *)
Theorem mgm_async_movers_independent : forall d stop orc, 0 <= stop -> forall cf1 cf2 j n m,
  reachable (mgm_proto d stop orc) cf1 -> reachable (mgm_proto d stop orc) cf2 ->
  at_boundary d cf1 j -> at_boundary d cf2 (S j) -> In n (ids d) -> In m (ids d) ->
  held cf2 n <> held cf1 n -> held cf2 m <> held cf1 m -> In m (nbrs d n) -> False.
Proof. exact mgm_async_movers_independent_l. Qed.

(* MGM2: the statement is FALSE of the code as it is (known finding C03-mgm2-coordinated-gain:
   _find_best_offer counts the current cost of the constraints shared with the offerer as gain; the
   formula is pinned by the baseline tests test_find_best_offer_min_mode_one_offerer etc.).  Witness: an execution of the
   asynchronous MGM2 model (two variables, min mode, no variable cost) in which both partners move
   together and the global cost goes from 5 to 6.  No monotonicity theorem is claimed for MGM2. *)
Theorem mgm2_monotone_refuted :
  let evs := snd (run w03_proto w03_sched) in
  d_max w03_d = false
  /\ (forall n, In n [0; 1] -> 2 <= cycles_reached evs n)
  /\ map (val_at evs 0) [0; 1] = [0; 0] /\ map (val_at evs 1) [0; 1] = [1; 1]
  /\ gcost w03_d (val_at evs 0) = 5 /\ gcost w03_d (val_at evs 1) = 6.
Proof. exact mgm2_monotone_refuted_l. Qed.

(* ------------------------------------------------------------------ deepening 2 (M_Mgm2r.v / P_Mgm2r.v)
   MGM2 at ROUND level: [mgm2_next d thr favor a orc] = one complete MGM2 cycle of all computations as a
   function on assignments (offerer draws, offers, _find_best_offer, commitment, answers, gains, go / no-go),
   every node drawing from its own stream in the order of the handlers.  Positive, guarded statements, for
   every well-formed DCOP (n-ary constraints, own costs), min and max, every threshold, favor mode and draws.
   Suffix _partial: the refinement "asynchronous MGM2 handlers = mgm2_next at every cycle boundary, every
   schedule" (mgm2_refines_rounds) is NOT proved; it is checked on every run by M_Mgm2r.r2check_case, which
   iterates the round function from the observed initial assignment with the observed per-node draws and
   compares with the assignment at every cycle boundary of the real asynchronous executions.

   Full statement that is NOT claimed (false, see mgm2_monotone_refuted): gcost never gets worse in any round. *)

(* guard: no node committed to a coordinated move in this round.  Then the round never worsens the global
   cost (it IS an MGM round: every potential gain is the unilateral signed gain, the move rule is MGM's) *)
Theorem mgm2_unilateral_monotone_partial : forall d thr favor a orc, wf_dcop d = true ->
  (forall n, In n (ids d) -> r2_committed d thr favor a orc n = false) ->
  if d_max d then gcost d a <= gcost d (mgm2_next d thr favor a orc)
  else gcost d (mgm2_next d thr favor a orc) <= gcost d a.
Proof. exact mgm2_unilateral_monotone_l. Qed.

(* ... and no two constraint-sharing variables both move *)
Theorem mgm2_unilateral_movers_independent_partial : forall d thr favor a orc, wf_dcop d = true ->
  (forall n, In n (ids d) -> r2_committed d thr favor a orc n = false) ->
  forall n m, r2_moves d thr favor a orc n = true -> r2_moves d thr favor a orc m = true ->
  In m (nbrs d n) -> False.
Proof. exact mgm2_unilateral_movers_independent_l. Qed.

(* known finding C03-mgm2-coordinated-gain, QUANTIFIED, for all inputs: the "global gain" _find_best_offer
   attributes to the offer (vo, vp) of the offerer o -- [r2_claimed] = p's FULL current local cost (shared
   constraints and own cost included) - p's constraints not shared with o under the new values + o's local
   gain [r2_offer_gain] -- exceeds the true decrease of the global cost when exactly o and p move by
   EXACTLY the current cost of the constraints p shares with o plus p's own cost of its new value *)
Theorem mgm2_coordinated_gain_error : forall d a, wf_dcop d = true -> forall o p vo vp,
  In o (ids d) -> In p (ids d) -> o <> p ->
  r2_claimed d a p o vo vp (r2_offer_gain d a o p vo vp)
  = (gcost d a - gcost d (fupd (fupd a o vo) p vp)) + cost_at (shared_cons d p o) a + vcost d p vp.
Proof. exact mgm2_coordinated_gain_error_l. Qed.

(* hence the cost after the pair's move: it is WORSE than before by shared(a) + vcost p vp - claimed
   whenever that is positive (min mode) *)
Theorem mgm2_coordinated_worsening_bound : forall d a, wf_dcop d = true -> forall o p vo vp,
  In o (ids d) -> In p (ids d) -> o <> p ->
  gcost d (fupd (fupd a o vo) p vp)
  = gcost d a - r2_claimed d a p o vo vp (r2_offer_gain d a o p vo vp) + cost_at (shared_cons d p o) a + vcost d p vp.
Proof. exact mgm2_coordinated_worsening_bound_l. Qed.

(* the same inside the round function: when the non-offerer p accepts the offer (vo, vp) of o, both are
   committed to each other, hold vo / vp as potential values and announce the SAME gain = the claimed gain *)
Theorem mgm2_pair_state_partial : forall d thr favor a orc p o vo vp,
  r2_acc d thr favor a orc p = Some (vo, vp, o) ->
  In o (nbrs d p) /\ r2_offerer thr orc o = true /\ r2_offerer thr orc p = false
  /\ r2_committed d thr favor a orc p = true /\ r2_committed d thr favor a orc o = true
  /\ r2_partner d thr favor a orc p = Some o /\ r2_partner d thr favor a orc o = Some p
  /\ r2_pval d thr favor a orc p = vp /\ r2_pval d thr favor a orc o = vo
  /\ r2_pgain d thr favor a orc p = r2_claimed d a p o vo vp (r2_offer_gain d a o p vo vp)
  /\ r2_pgain d thr favor a orc o = r2_pgain d thr favor a orc p.
Proof. exact mgm2_pair_state_l. Qed.

(* ... and if the pair moves (both GO) and no other variable changes, the round takes the global cost to
   gcost a - announced gain + shared(a) + vcost p vp *)
Theorem mgm2_pair_move_cost_partial : forall d thr favor a orc p o vo vp,
  r2_acc d thr favor a orc p = Some (vo, vp, o) -> wf_dcop d = true ->
  r2_moves d thr favor a orc o = true -> r2_moves d thr favor a orc p = true ->
  (forall v, In v (ids d) -> v <> o -> v <> p -> mgm2_next d thr favor a orc v = a v) ->
  gcost d (mgm2_next d thr favor a orc)
  = gcost d a - r2_pgain d thr favor a orc p + cost_at (shared_cons d p o) a + vcost d p vp.
Proof. exact mgm2_pair_move_cost_l. Qed.

(* non-vacuity of the MGM2 round theorems.  (1) the instance of mgm2_monotone_refuted as ONE round: v1 is
   offerer (366 < 500) and offers to v0, v0 accepts (1, 1) with claimed gain 1; both move; shared(a) = 2, so
   the cost goes 5 -> 5 - 1 + 2 + 0 = 6.  (2) a round without commitment on a 3-chain (nobody offers):
   v1 moves alone, 12 -> 6 *)
Definition ex2_d : dcop :=
  mkD [(0, mkV [0; 1] None []); (1, mkV [0; 1] None [(0, 3); (1, 0)]); (2, mkV [0; 1] None [])]
      [mkC [0; 1] [([0; 0], 1); ([0; 1], 0); ([1; 0], 0); ([1; 1], 2)];
       mkC [1; 2] [([0; 0], 8); ([0; 1], 4); ([1; 0], 6); ([1; 1], 3)]] false.
Example c03_mgm2_round_nonvacuous :
  let a := fun _ : Z => 0 in
  let orc := orc_of w03_orc in
  let nx := mgm2_next w03_d 500 0 a orc in
  wf_dcop w03_d = true /\ r2_acc w03_d 500 0 a orc 0 = Some (1, 1, 1)
  /\ map (r2_moves w03_d 500 0 a orc) [0; 1] = [true; true] /\ map nx [0; 1] = [1; 1]
  /\ r2_pgain w03_d 500 0 a orc 0 = 1 /\ cost_at (shared_cons w03_d 0 1) a = 2 /\ vcost w03_d 0 1 = 0
  /\ gcost w03_d a = 5 /\ gcost w03_d nx = 6
  /\ (let orc2 := fun _ : Z => [700; 0; 0] in
      wf_dcop ex2_d = true /\ map (r2_committed ex2_d 500 0 a orc2) [0; 1; 2] = [false; false; false]
      /\ map (mgm2_next ex2_d 500 0 a orc2) [0; 1; 2] = [0; 1; 0]
      /\ gcost ex2_d a = 12 /\ gcost ex2_d (mgm2_next ex2_d 500 0 a orc2) = 6).
Proof. vm_compute. repeat split; reflexivity. Qed.

(* non-vacuity: v0 - v1 - v2 chain, min mode, own cost on v1; one cycle moves v1 only (gain 5
   beats the others) and takes the global cost from 12 to 6; the next cycle moves v2 *)
Definition ex_d : dcop :=
  mkD [(0, mkV [0; 1] None []); (1, mkV [0; 1] None [(0, 3); (1, 0)]); (2, mkV [0; 1] None [])]
      [mkC [0; 1] [([0; 0], 1); ([0; 1], 0); ([1; 0], 0); ([1; 1], 2)];
       mkC [1; 2] [([0; 0], 8); ([0; 1], 4); ([1; 0], 6); ([1; 1], 3)]] false.
Example c03_nonvacuous :
  let a := fun _ : Z => 0 in
  let a1 := mgm_next ex_d a (fun _ => 0) in
  wf_dcop ex_d = true /\ gcost ex_d a = 12 /\ map a1 [0; 1; 2] = [0; 1; 0] /\ gcost ex_d a1 = 6
  /\ map (mgm_next ex_d a1 (fun _ => 0)) [0; 1; 2] = [0; 1; 1].
Proof. vm_compute. repeat split; reflexivity. Qed.

(* the hypotheses of mgm_async_monotone are met by real runs: on ex_d with stop_cycle 3, after
   "start all, deliver every value then every gain" the three computations are at boundary 1, the
   initial configuration after the starts is at boundary 0, and the held assignments are those of
   c03_nonvacuous *)
Definition ex_orc : node -> list Z := fun _ => [0; 0; 0].
Definition ex_s0 : list (@action) := [Start 0; Start 1; Start 2].
Definition ex_s1 : list (@action) :=
  ex_s0 ++ [Deliver 0 1; Deliver 1 0; Deliver 1 2; Deliver 2 1; Deliver 0 1; Deliver 1 0; Deliver 1 2; Deliver 2 1].
Example c03_async_nonvacuous :
  let c0 := fst (run (mgm_proto ex_d 3 ex_orc) ex_s0) in
  let c1 := fst (run (mgm_proto ex_d 3 ex_orc) ex_s1) in
  map (fun n => (w_running (nodes c0 n), m_cycle (w_st (nodes c0 n)), held c0 n)) [0; 1; 2]
    = [(true, 1, 0); (true, 1, 0); (true, 1, 0)]
  /\ map (fun n => (w_running (nodes c1 n), m_cycle (w_st (nodes c1 n)), held c1 n)) [0; 1; 2]
    = [(true, 2, 0); (true, 2, 1); (true, 2, 0)]
  /\ gcost ex_d (held c0) = 12 /\ gcost ex_d (held c1) = 6.
Proof. vm_compute. repeat split; reflexivity. Qed.

(* ------------------------------------------------------------------ deepening 3 (P_Mgm2pA/B/C.v)
   mgm2_refines_rounds is now a THEOREM.  The MGM2 barrier invariant (P_Mgm2x..z.v, C07) is extended with PAYLOADS:
   in every reachable configuration of the asynchronous MGM2 handlers (M_Mgm2x.mgm2_proto_f, any schedule of
   starts and deliveries, FIFO or not, any fuel >= 10 * degree + 2 for the nested re-dispatch), every started
   computation in cycle c holds exactly what the round function M_Mgm2r.mgm2_next computes from the reference
   assignment / draws of round c - 1 ([RA2] / [RO2] = iteration of mgm2_next / mgm2_next_orc from the start
   values, every node spending its own draws): value, neighbour values, offers received, local cost, offerer
   flag, partner, unilateral gain / value, commitment, announced gain, potential value, go flag, remaining draws
   ([pay]); and every value / offer / answer / gain / go message in flight, buffered before start or postponed is
   the reference message of the cycle read off the sender's position ([refmsg] at index [sidx]).
   Hence the guarded round-level MGM2 theorems above ARE statements about real executions at cycle boundaries. *)
From PyDcop Require Import M_Mgm2x P_Mgm2y P_Mgm2z P_Mgm2pA P_Mgm2pB P_Mgm2pC.

Theorem mgm2_refines_rounds : forall d stop thr favor orc fuel cf n, fuel_ok d fuel ->
  reachable (mgm2_proto_f d stop thr favor orc fuel) cf -> w_running (nodes cf n) = true ->
  t_value (w_st (nodes cf n)) = Some (RA2 d thr favor orc (Z.to_nat (cyc2 cf n - 1)) n).
Proof. exact mgm2_refines_rounds_closed. Qed.

(* the whole state of a computation, not only its value *)
Theorem mgm2_payload_invariant : forall d stop thr favor orc fuel cf n, fuel_ok d fuel ->
  reachable (mgm2_proto_f d stop thr favor orc fuel) cf -> w_running (nodes cf n) = true -> nbrs d n <> [] ->
  pay d thr favor (AC d thr favor orc (cyc2 cf n)) (OC d thr favor orc (cyc2 cf n)) n (w_st (nodes cf n)).
Proof. exact mgm2_payload_invariant_closed. Qed.

(* every pending message (pre-start buffer ++ channel ++ postponed lists of the receiver) *)
Theorem mgm2_messages_refine : forall d stop thr favor orc fuel cf x y m, fuel_ok d fuel ->
  reachable (mgm2_proto_f d stop thr favor orc fuel) cf -> In m (pend cf x y) ->
  refmsg d thr favor (AC d thr favor orc (sidx (w_st (nodes cf x)) m (cyc2 cf y)))
                     (OC d thr favor orc (sidx (w_st (nodes cf x)) m (cyc2 cf y))) x y m.
Proof. exact mgm2_messages_refine_closed. Qed.

(* C03 for asynchronous MGM2 executions, cycles in which no computation commits to a coordinated move
   ([at_boundary2 d cf j]: every variable started, those with a neighbour have completed exactly j cycles): between
   ANY reachable configuration at boundary j and ANY at boundary j+1 the global cost does not get worse ... *)
Theorem mgm2_async_unilateral_monotone : forall d stop thr favor orc fuel cf1 cf2 j, fuel_ok d fuel -> wf_dcop d = true ->
  reachable (mgm2_proto_f d stop thr favor orc fuel) cf1 -> reachable (mgm2_proto_f d stop thr favor orc fuel) cf2 ->
  at_boundary2 d cf1 j -> at_boundary2 d cf2 (S j) ->
  (forall n, In n (ids d) -> r2_committed d thr favor (RA2 d thr favor orc j) (RO2 d thr favor orc j) n = false) ->
  if d_max d then gcost d (held2 cf1) <= gcost d (held2 cf2) else gcost d (held2 cf2) <= gcost d (held2 cf1).
Proof. exact mgm2_async_unilateral_monotone_closed. Qed.

(* ... and no two constraint-sharing variables both changed their value *)
Theorem mgm2_async_unilateral_movers : forall d stop thr favor orc fuel cf1 cf2 j n m, fuel_ok d fuel -> wf_dcop d = true ->
  reachable (mgm2_proto_f d stop thr favor orc fuel) cf1 -> reachable (mgm2_proto_f d stop thr favor orc fuel) cf2 ->
  at_boundary2 d cf1 j -> at_boundary2 d cf2 (S j) ->
  (forall n, In n (ids d) -> r2_committed d thr favor (RA2 d thr favor orc j) (RO2 d thr favor orc j) n = false) ->
  In n (ids d) -> In m (ids d) -> held2 cf2 n <> held2 cf1 n -> held2 cf2 m <> held2 cf1 m -> In m (nbrs d n) -> False.
Proof. exact mgm2_async_unilateral_movers_closed. Qed.

(* cycles with a coordinated move: when exactly the two partners of the accepted offer (vo, vp) of o to p changed
   their value, the global cost moved by - announced gain + current cost of the constraints p shares with o
   + p's own cost of its new value (finding C03-mgm2-coordinated-gain, now about real executions; combine with
   mgm2_coordinated_gain_error / mgm2_coordinated_worsening_bound) *)
Theorem mgm2_async_pair_move_cost : forall d stop thr favor orc fuel cf1 cf2 j p o vo vp, fuel_ok d fuel -> wf_dcop d = true ->
  reachable (mgm2_proto_f d stop thr favor orc fuel) cf1 -> reachable (mgm2_proto_f d stop thr favor orc fuel) cf2 ->
  at_boundary2 d cf1 j -> at_boundary2 d cf2 (S j) ->
  r2_acc d thr favor (RA2 d thr favor orc j) (RO2 d thr favor orc j) p = Some (vo, vp, o) ->
  In o (ids d) -> In p (ids d) -> held2 cf2 o <> held2 cf1 o -> held2 cf2 p <> held2 cf1 p ->
  (forall v, In v (ids d) -> v <> o -> v <> p -> held2 cf2 v = held2 cf1 v) ->
  gcost d (held2 cf2) = gcost d (held2 cf1) - r2_pgain d thr favor (RA2 d thr favor orc j) (RO2 d thr favor orc j) p
                        + cost_at (shared_cons d p o) (RA2 d thr favor orc j) + vcost d p vp.
Proof. exact mgm2_async_pair_move_cost_closed. Qed.

(* cycles WITH commitments: two constraint-sharing variables that both changed their value between boundary j and
   boundary j+1 are the two partners of ONE committed pair of round j, and both said go -- the second sentence of the
   property ("no two constraint-sharing variables change value in the same cycle unless they are the two partners of one
   coordinated MGM2 move"), full, for every schedule (no guard).  By mgm2_payload_invariant the r2_* values are the
   committed / partner / can_move fields of the real computations in that cycle *)
From PyDcop Require Import P_Mgm2pD.
Theorem mgm2_async_movers : forall d stop thr favor orc fuel cf1 cf2 j n m, fuel_ok d fuel ->
  reachable (mgm2_proto_f d stop thr favor orc fuel) cf1 -> reachable (mgm2_proto_f d stop thr favor orc fuel) cf2 ->
  at_boundary2 d cf1 j -> at_boundary2 d cf2 (S j) ->
  In n (ids d) -> In m (ids d) -> held2 cf2 n <> held2 cf1 n -> held2 cf2 m <> held2 cf1 m -> In m (nbrs d n) ->
  let a := RA2 d thr favor orc j in let o := RO2 d thr favor orc j in
  r2_committed d thr favor a o n = true /\ r2_partner d thr favor a o n = Some m /\
  r2_committed d thr favor a o m = true /\ r2_partner d thr favor a o m = Some n /\
  r2_go d thr favor a o n = true /\ r2_go d thr favor a o m = true.
Proof. exact mgm2_async_movers_closed. Qed.

(* the hypotheses are met by real runs.  (1) ex2_d, stop_cycle 2, every node draws 0 for its start value and 700
   (not an offerer) in its first cycle: after the starts the run is at boundary 0, after "deliver round-robin" at
   boundary 1; nobody commits in round 0; the cost goes 12 -> 6.  (2) the refutation instance w03: boundary 0 / 1,
   v0 accepts the offer (1, 1) of v1, the cost goes 5 -> 6 *)
Definition ex2_orc : node -> list Z := fun _ => [0; 700; 0; 0].
Definition ex2_s0 : list (@action) := [Start 0; Start 1; Start 2].
Definition ex2_s1 : list (@action) :=
  ex2_s0 ++ List.concat (repeat [Deliver 0 1; Deliver 1 0; Deliver 1 2; Deliver 2 1] 8%nat).
Example c03_mgm2_async_nonvacuous :
  (let P := mgm2_proto_f ex2_d 2 500 0 ex2_orc 60 in
   let c0 := fst (run P ex2_s0) in let c1 := fst (run P ex2_s1) in
   at_boundary2b ex2_d c0 0 = true /\ at_boundary2b ex2_d c1 1 = true
   /\ map (r2_committed ex2_d 500 0 (RA2 ex2_d 500 0 ex2_orc 0) (RO2 ex2_d 500 0 ex2_orc 0)) [0; 1; 2] = [false; false; false]
   /\ map (held2 c0) [0; 1; 2] = [0; 0; 0] /\ map (held2 c1) [0; 1; 2] = [0; 1; 0]
   /\ gcost ex2_d (held2 c0) = 12 /\ gcost ex2_d (held2 c1) = 6)
  /\ (let P := mgm2_proto_f w03_d 2 500 0 (orc_of w03_orc) 60 in
      let c0 := fst (run P [Start 1; Start 0]) in let c1 := fst (run P w03_sched) in
      at_boundary2b w03_d c0 0 = true /\ at_boundary2b w03_d c1 1 = true
      /\ r2_acc w03_d 500 0 (RA2 w03_d 500 0 (orc_of w03_orc) 0) (RO2 w03_d 500 0 (orc_of w03_orc) 0) 0 = Some (1, 1, 1)
      /\ map (held2 c0) [0; 1] = [0; 0] /\ map (held2 c1) [0; 1] = [1; 1]
      /\ gcost w03_d (held2 c0) = 5 /\ gcost w03_d (held2 c1) = 6).
Proof. vm_compute. repeat split; reflexivity. Qed.
