(* M_Params.v -- executable model of algorithm-parameter preparation (C28):
   pydcop/algorithms/__init__.py : is_of_type_by_str, check_param_value, prepare_algo_params
   pydcop/commands/_utils.py     : build_algo_def (name:value split, double preparation, _error)
   Models only; proofs are in P_Params.v.

   Python's int(str) / float(str) are external behaviour: explicit arguments [int_of_str],
   [float_of_str] (the harness supplies, per case, the table of what the interpreter answers for
   the strings of the case).  float(int) is exact for |z| <= 2^53 (the generated range). *)
From PyDcop Require Import Base.
Open Scope string_scope.

(* ---------- Python values a parameter can take ---------- *)
(* a float is an exact dyadic rational num/den in lowest terms (float.as_integer_ratio), or
   an infinity / nan *)
Inductive fl := FFin (num : Z) (den : positive) | FInf (neg : bool) | FNan.

Inductive pyval :=
| VInt (z : Z) | VFloat (f : fl) | VStr (s : string) | VBool (b : bool) | VNone
| VOther (cls : string) (id : Z).          (* any other object: class name, identity *)

(* value.__class__.__name__ *)
Definition class_name (v : pyval) : string :=
  match v with
  | VInt _ => "int" | VFloat _ => "float" | VStr _ => "str" | VBool _ => "bool"
  | VNone => "NoneType" | VOther c _ => c
  end.

(* the exception classes the code can raise / exit with *)
Inductive err := EValue | EType | EOverflow | EExit (* SystemExit from _error *) | EOracle.
Inductive res (A : Type) := Ok (a : A) | Err (e : err).
Arguments Ok {A} a. Arguments Err {A} e.

Definition res_map {A B} (f : A -> B) (r : res A) : res B :=
  match r with Ok a => Ok (f a) | Err e => Err e end.

(* ---------- Python == on these values (used by [param_val in param_def.values]) ---------- *)
Definition fl_eqb (a b : fl) : bool :=
  match a, b with
  | FFin n d, FFin n' d' => Z.eqb (n * Zpos d') (n' * Zpos d)
  | FInf s, FInf s' => Bool.eqb s s'
  | _, _ => false                       (* nan == anything is False *)
  end.

Definition as_number (v : pyval) : option fl :=
  match v with
  | VInt z => Some (FFin z 1)
  | VBool b => Some (FFin (if b then 1 else 0) 1)
  | VFloat f => Some f
  | _ => None
  end.

Definition py_eqb (a b : pyval) : bool :=
  match as_number a, as_number b with
  | Some x, Some y => fl_eqb x y
  | None, None =>
      match a, b with
      | VStr s, VStr s' => String.eqb s s'
      | VNone, VNone => true
      | VOther c i, VOther c' i' => String.eqb c c' && Z.eqb i i'
      | _, _ => false
      end
  | _, _ => false
  end.

(* ---------- parameter definitions ---------- *)
(* AlgoParameterDef(name, type, values, default_value) *)
Record pdef := mkDef {
  p_name : string;
  p_type : string;
  p_values : option (list pyval);
  p_default : pyval
}.

Section WithOracles.
  Variable int_of_str : string -> res Z.      (* int(s) for a str s *)
  Variable float_of_str : string -> res fl.   (* float(s) for a str s *)

  (* int(v) *)
  Definition py_int (v : pyval) : res Z :=
    match v with
    | VInt z => Ok z
    | VBool b => Ok (if b then 1 else 0)
    | VFloat (FFin n d) => Ok (Z.quot n (Zpos d))      (* truncation towards zero *)
    | VFloat (FInf _) => Err EOverflow
    | VFloat FNan => Err EValue
    | VStr s => int_of_str s
    | VNone | VOther _ _ => Err EType
    end.

  (* float(v) *)
  Definition py_float (v : pyval) : res fl :=
    match v with
    | VInt z => Ok (FFin z 1)
    | VBool b => Ok (FFin (if b then 1 else 0) 1)
    | VFloat f => Ok f
    | VStr s => float_of_str s
    | VNone | VOther _ _ => Err EType
    end.

  (* the conversion step of check_param_value *)
  Definition convert (v : pyval) (ty : string) : res pyval :=
    if String.eqb (class_name v) ty then Ok v                 (* is_of_type_by_str *)
    else if String.eqb ty "int" then res_map VInt (py_int v)
    else if String.eqb ty "float" then res_map VFloat (py_float v)
    else Err EValue.

  (* [if param_def.values:] -- None and [] are both falsy *)
  Definition allowed (v : pyval) (values : option (list pyval)) : bool :=
    match values with
    | None | Some [] => true
    | Some l => existsb (py_eqb v) l
    end.

  Definition check_param_value (v : pyval) (d : pdef) : res pyval :=
    match convert v (p_type d) with
    | Err e => Err e
    | Ok v' => if allowed v' (p_values d) then Ok v' else Err EValue
    end.

  (* {param_def.name: param_def for param_def in parameters_definitions}: a repeated name keeps
     its first position and its LAST definition *)
  Definition defs_dict (defs : list pdef) : list (string * pdef) :=
    dict_of_list String.eqb (map (fun d => (p_name d, d)) defs).

  Definition sdict_set {V} := @dict_set string V String.eqb.
  Definition smem_key {V} := @mem_key string V String.eqb.

  (* first loop: every user parameter must be declared and valid *)
  Fixpoint check_all (all : list (string * pdef)) (params : list (string * pyval))
           (sel : list (string * pyval)) : res (list (string * pyval)) :=
    match params with
    | [] => Ok sel
    | (k, v) :: r =>
        match slookup k all with
        | None => Err EValue                                   (* Unknown parameter *)
        | Some d =>
            match check_param_value v d with
            | Err e => Err e
            | Ok v' => check_all all r (sdict_set k v' sel)
            end
        end
    end.

  (* second loop: set(all_algo_params) - set(params) get their default (the iteration order of
     a set is unspecified; the model uses declaration order, results are compared as dicts) *)
  Fixpoint fill_missing (all : list (string * pdef)) (params : list (string * pyval))
           (sel : list (string * pyval)) : list (string * pyval) :=
    match all with
    | [] => sel
    | (k, d) :: r =>
        fill_missing r params (if smem_key k params then sel else sdict_set k (p_default d) sel)
    end.

  Definition prepare_algo_params (params : list (string * pyval)) (defs : list pdef)
    : res (list (string * pyval)) :=
    let all := defs_dict defs in
    match check_all all params [] with
    | Err e => Err e
    | Ok sel => Ok (fill_missing all params sel)
    end.

  (* ---------- build_algo_def ---------- *)
  (* str.split(":") *)
  Fixpoint split_colon_aux (s : string) (cur : string) : list string :=
    match s with
    | EmptyString => [cur]
    | String c r =>
        if Ascii.eqb c ":"%char then cur :: split_colon_aux r EmptyString
        else split_colon_aux r (cur ++ String c EmptyString)
    end.
  Definition split_colon (s : string) : list string := split_colon_aux s EmptyString.

  (* for p in cli_params: p, v = p.split(":"); params[p] = v   (ValueError unless 2 pieces) *)
  Fixpoint cli_dict (cli : list string) (acc : list (string * pyval)) : res (list (string * pyval)) :=
    match cli with
    | [] => Ok acc
    | p :: r =>
        match split_colon p with
        | [k; v] => cli_dict r (sdict_set k (VStr v) acc)
        | _ => Err EValue
        end
    end.

  (* build_algo_def(algo_module, algo_name, objective, cli_params):
     [mod_defs] = algo_module.algo_params, None if the module has no such attribute;
     [name_defs] = load_algorithm_module(algo_name).algo_params, used by the second preparation
     inside AlgorithmDef.build_with_default_param (the same list when algo_module is the module
     of algo_name, as in every command);
     the split happens outside the try block: its ValueError propagates; every exception of the
     two preparations ends in _error -> sys.exit(2). *)
  Definition build_algo_def (mod_defs : option (list pdef)) (name_defs : list pdef)
             (cli : option (list string)) : res (list (string * pyval)) :=
    match mod_defs with
    | Some defs =>
        match cli_dict (match cli with Some l => l | None => [] end) [] with
        | Err e => Err e
        | Ok params =>
            match prepare_algo_params params defs with
            | Err _ => Err EExit
            | Ok p1 =>
                match prepare_algo_params p1 name_defs with
                | Err _ => Err EExit
                | Ok p2 => Ok p2
                end
            end
        end
    | None =>
        match cli with
        | Some (_ :: _) => Err EExit          (* "does not support any parameter" *)
        | _ => Ok []                          (* AlgorithmDef(algo_name, {}, mode=objective) *)
        end
    end.
End WithOracles.

(* ---------- correspondence ---------- *)
Definition fl_same (a b : fl) : bool :=      (* same float object value, nan = nan *)
  match a, b with
  | FFin n d, FFin n' d' => Z.eqb n n' && Pos.eqb d d'
  | FInf s, FInf s' => Bool.eqb s s'
  | FNan, FNan => true
  | _, _ => false
  end.

Definition pyval_same (a b : pyval) : bool :=
  match a, b with
  | VInt x, VInt y => Z.eqb x y
  | VFloat x, VFloat y => fl_same x y
  | VStr x, VStr y => String.eqb x y
  | VBool x, VBool y => Bool.eqb x y
  | VNone, VNone => true
  | VOther c i, VOther c' i' => String.eqb c c' && Z.eqb i i'
  | _, _ => false
  end.

Definition err_eqb (a b : err) : bool :=
  match a, b with
  | EValue, EValue | EType, EType | EOverflow, EOverflow | EExit, EExit | EOracle, EOracle => true
  | _, _ => false
  end.

Definition res_eqb {A} (e : A -> A -> bool) (a b : res A) : bool :=
  match a, b with
  | Ok x, Ok y => e x y
  | Err x, Err y => err_eqb x y
  | _, _ => false
  end.

(* dicts are compared as dicts: same size, every observed item present with the same value *)
Definition dict_same (model obs : list (string * pyval)) : bool :=
  Nat.eqb (List.length model) (List.length obs)
  && forallb (fun kv => match slookup (fst kv) model with
                        | Some v => pyval_same v (snd kv)
                        | None => false
                        end) obs.

(* what the interpreter answered for int(s) / float(s) on the strings of the case *)
Record tabs := mkTabs { t_int : list (string * res Z); t_float : list (string * res fl) }.
Definition tab_int (t : tabs) (s : string) : res Z :=
  match slookup s (t_int t) with Some r => r | None => Err EOracle end.
Definition tab_float (t : tabs) (s : string) : res fl :=
  match slookup s (t_float t) with Some r => r | None => Err EOracle end.

Inductive case :=
| CCheck (t : tabs) (v : pyval) (d : pdef) (obs : res pyval)
| CPrepare (t : tabs) (params : list (string * pyval)) (defs : list pdef)
           (obs : res (list (string * pyval)))
| CBuild (t : tabs) (mod_defs : option (list pdef)) (name_defs : list pdef)
         (cli : option (list string)) (obs : res (list (string * pyval)))
| CSplit (s : string) (obs : list string).

Definition check_case (c : case) : bool :=
  match c with
  | CCheck t v d obs =>
      res_eqb pyval_same (check_param_value (tab_int t) (tab_float t) v d) obs
  | CPrepare t params defs obs =>
      res_eqb dict_same (prepare_algo_params (tab_int t) (tab_float t) params defs) obs
  | CBuild t md nd cli obs =>
      res_eqb dict_same (build_algo_def (tab_int t) (tab_float t) md nd cli) obs
  | CSplit s obs => list_eqb String.eqb (split_colon s) obs
  end.
