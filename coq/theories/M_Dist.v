(* M_Dist.v -- executable model of pydcop.distribution.{oneagent,gh_cgdp,heur_comhost,adhoc}
   (property C23).  Models only; proofs are in P_Dist.v.

   Encoding.  Computation and agent names are Z ids.  A computation graph is what the
   distribution methods can see of it: the node list (cg.nodes order) with, per node, its
   kind, its footprint (computation_memory) and its links (each link = the list of its node
   names).  Randomness is an explicit oracle: [rnd] is the list of values random.random()
   returns (numerators, any Z), [shuf] the successive results of shuffle(nodes), [choices]
   the indices picked by choice().  The float expression
       RATIO_HOST_COMM * comm_cost + (1 - RATIO_HOST_COMM) * hosting_cost
   that ranks candidate agents is a PARAMETER [cle] (cost of (comm,host) pair <= cost of
   another pair): the theorems hold for every ranking, the correspondence instantiates it
   with binary64 arithmetic (PrimFloat) exactly as CPython computes it. *)
From PyDcop Require Import Base.
From Coq Require Floats Uint63.

Record node := mkNode { n_id : Z; n_kind : Z (* 0 variable, 1 factor, 2 other *);
                        n_fp : Z; n_links : list (list Z) }.
Record agent := mkAg { g_id : Z; g_cap : Z; g_dhost : Z; g_host : list (Z * Z);
                       g_droute : Z; g_routes : list (Z * Z) }.
Record inst := mkInst { i_nodes : list node; i_agents : list agent;
                        i_load : list ((Z * Z) * Z); i_dload : Z;
                        i_must : list (Z * list Z);      (* agent -> computations *)
                        i_with : list (Z * list Z) }.    (* DistributionHints._host_with *)

Definition zz_eqb (a b : Z * Z) : bool := (fst a =? fst b) && (snd a =? snd b).

(* AgentDef.hosting_cost / route (see M_AgentDef for the string-keyed originals) *)
Definition hosting_cost (a : agent) (c : Z) : Z :=
  match zlookup c (g_host a) with Some x => x | None => g_dhost a end.
Definition route (a : agent) (o : Z) : Z :=
  if g_id a =? o then 0
  else match zlookup o (g_routes a) with Some x => x | None => g_droute a end.
(* communication_load(node, target) of the driver: a table with a default *)
Definition load (I : inst) (src dst : Z) : Z :=
  match lookup zz_eqb (src, dst) (i_load I) with Some x => x | None => i_dload I end.

(* result of distribute(): the computation -> agent pairs of the returned Distribution,
   ImpossibleDistributionException, another exception (code), or fuel exhausted *)
Inductive result := Ok (m : list (Z * Z)) | Impossible | Crash (code : Z) | OutOfFuel.

(* ------------------------------------------------------------------ oneagent *)
Definition oneagent (I : inst) : result :=
  if Nat.ltb (List.length (i_agents I)) (List.length (i_nodes I)) then Impossible
  else Ok (combine (map n_id (i_nodes I)) (map g_id (i_agents I))).

(* ------------------------------------------------------------------ gh_cgdp / heur_comhost *)
(* fixed_mapping: computations with a zero hosting cost go to the FIRST such agent *)
Definition fixed_mapping (I : inst) : list (Z * (Z * Z)) :=
  flat_map (fun nd =>
    match find (fun a => hosting_cost a (n_id nd) =? 0) (i_agents I) with
    | Some a => [(n_id nd, (g_id a, n_fp nd))]
    | None => []
    end) (i_nodes I).

Definition fixed_load (fixed : list (Z * (Z * Z))) (a : Z) : Z :=
  zsum (map (fun e => if fst (snd e) =? a then snd (snd e) else 0) fixed).

(* a level of the search = one entry of `computations`: (footprint, node, candidates) *)
Record level := mkLevel { l_fp : Z; l_node : node }.

(* footprint already placed on agent [a] by current_mapping; [done] = the placed levels,
   most recent first, each with its remaining candidates and the selected agent *)
Definition used (done : list (level * list Z * Z)) (a : Z) : Z :=
  zsum (map (fun e => if snd e =? a then l_fp (fst (fst e)) else 0) done).

Definition mapping_of (done : list (level * list Z * Z)) : list (Z * Z) :=
  map (fun e => (n_id (l_node (fst (fst e))), snd e)) done.

Section Greedy.
  Variable cle : Z * Z -> Z * Z -> bool.   (* float cost of (comm,host) <= float cost of (comm',host') *)
  Variable I : inst.
  Variable fixed : list (Z * (Z * Z)).

  (* key (cost, r) <= key (cost', r') as Python compares the tuples *)
  Definition key_le (x y : (Z * Z) * Z * Z) : bool :=
    let '(cx, rx, _) := x in let '(cy, ry, _) := y in
    if cle cx cy then (if cle cy cx then rx <=? ry else true) else false.

  Definition comm_cost (nd : node) (agt : agent) (mapping : list (Z * Z)) : Z :=
    zsum (map (fun l => zsum (map (fun n =>
      match zlookup n mapping with
      | Some a => load I (n_id nd) n * route agt a
      | None => 0
      end) l)) (n_links nd)).

  Fixpoint attach_rnd {A} (l : list A) (rnd : list Z) : list (A * Z) * list Z :=
    match l with
    | [] => ([], rnd)
    | x :: r => let '(r', rnd') := attach_rnd r (tl rnd) in ((x, hd 0 rnd) :: r', rnd')
    end.

  (* candidate_hosts: agents with enough remaining capacity, in the order candidates.pop()
     will return them (ascending (cost, r); equal keys: the later agent first) *)
  Definition candidate_hosts (L : level) (done : list (level * list Z * Z)) (rnd : list Z)
    : list Z * list Z :=
    let ok := filter (fun agt =>
      negb (g_cap agt - used done (g_id agt) - fixed_load fixed (g_id agt) <? l_fp L)) (i_agents I) in
    let costs := map (fun agt =>
      ((comm_cost (l_node L) agt (mapping_of done), hosting_cost agt (n_id (l_node L))), g_id agt)) ok in
    let '(withr, rnd') := attach_rnd costs rnd in
    let keyed := map (fun e => (fst (fst e), snd e, snd (fst e))) withr in
    (map (fun e => snd e) (isort key_le (rev keyed)), rnd').

  (* one turn of the while loop.  computations[0..i) = rev done, computations[i..] = todo *)
  Inductive st :=
  | Running (done : list (level * list Z * Z)) (todo : list (level * option (list Z))) (rnd : list Z)
  | Final (r : result).

  Definition step (done : list (level * list Z * Z)) (todo : list (level * option (list Z)))
    (rnd : list Z) : st :=
    match todo with
    | [] => Final (Ok (rev (mapping_of done) ++ map (fun e => (fst e, fst (snd e))) fixed))
    | (L, cands) :: rest =>
        let '(cl, rnd') := match cands with
                           | Some l => (l, rnd)
                           | None => candidate_hosts L done rnd
                           end in
        match cl with
        | [] => match done with
                | [] => Final Impossible
                | (L', cl', _) :: done' => Running done' ((L', Some cl') :: (L, Some []) :: rest) rnd'
                end
        | a :: cl' => Running ((L, cl', a) :: done) rest rnd'
        end
    end.

  Fixpoint run (fuel : nat) (done : list (level * list Z * Z))
    (todo : list (level * option (list Z))) (rnd : list Z) : result :=
    match fuel with
    | O => OutOfFuel
    | S f => match step done todo rnd with
             | Final r => r
             | Running d t r => run f d t r
             end
    end.
End Greedy.

(* computations sorted by (footprint, r) descending, ties keep cg.nodes order *)
Definition comp_ge (x y : (Z * Z) * node) : bool :=
  let '(fx, rx, _) := x in let '(fy, ry, _) := y in
  if fy <? fx then true else if fx <? fy then false else ry <=? rx.

Definition sorted_levels (nds : list node) (rnd : list Z) : list (level * option (list Z)) * list Z :=
  let '(withr, rnd') := attach_rnd nds rnd in
  (map (fun e => (mkLevel (fst (fst e)) (snd e), None))
       (isort comp_ge (map (fun e => (n_fp (fst e), snd e, fst e)) withr)), rnd').

Definition greedy_fuel (I : inst) : nat :=
  S (2 * (List.length (i_nodes I) * List.length (i_agents I)) + 2 * List.length (i_nodes I)).

(* gh_cgdp.distribute (after the capacity test on pinned computations was added) *)
Definition gh_cgdp (cle : Z * Z -> Z * Z -> bool) (I : inst) (rnd : list Z) : result :=
  let fixed := fixed_mapping I in
  if existsb (fun a => g_cap a <? fixed_load fixed (g_id a)) (i_agents I) then Impossible
  else
    let free := filter (fun nd => negb (mem_key Z.eqb (n_id nd) fixed)) (i_nodes I) in
    let '(todo, rnd') := sorted_levels free rnd in
    run cle I fixed (greedy_fuel I) [] todo rnd'.

(* heur_comhost.distribute: the same search without pinning *)
Definition heur_comhost (cle : Z * Z -> Z * Z -> bool) (I : inst) (rnd : list Z) : result :=
  let '(todo, rnd') := sorted_levels (i_nodes I) rnd in
  run cle I [] (greedy_fuel I) [] todo rnd'.

(* ------------------------------------------------------------------ adhoc *)
(* adhoc._distribute_try after the fixes (must-host capacity test, `return` of the retry,
   host_with looked up through var_hosted).  agents_capa / var_hosted are dicts, mapping is a
   dict of sets (a list without duplicates here; its order is never observable). *)
Definition capa_get (caps : list (Z * Z)) (a : Z) : Z :=
  match zlookup a caps with Some c => c | None => 0 end.
Definition capa_sub (caps : list (Z * Z)) (a f : Z) : list (Z * Z) :=
  dict_set Z.eqb a (capa_get caps a - f) caps.
Definition set_add (x : Z) (l : list Z) : list Z := if zmem x l then l else l ++ [x].
Definition map_get (m : list (Z * list Z)) (a : Z) : list Z :=
  match zlookup a m with Some l => l | None => [] end.
Definition map_add (m : list (Z * list Z)) (a x : Z) : list (Z * list Z) :=
  dict_set Z.eqb a (set_add x (map_get m a)) m.

Record astate := mkA { s_caps : list (Z * Z); s_map : list (Z * list Z);
                       s_hosted : list (Z * Z); s_choices : list nat }.
Inductive ares := AOk (s : astate) | AImpossible | ACrash (code : Z) | ANoCandidate.

Definition hints_must (I : inst) (a : Z) : list Z :=
  match zlookup a (i_must I) with Some l => l | None => [] end.
Definition hints_with (I : inst) (c : Z) : list Z :=
  match zlookup c (i_with I) with Some l => l | None => [] end.
Definition node_of (I : inst) (c : Z) : option node := find (fun nd => n_id nd =? c) (i_nodes I).

(* for a in agents_capa: for c in hints.must_host(a): ... ; if agents_capa[a] < 0: raise *)
Fixpoint must_comps (I : inst) (a : Z) (cs : list Z) (s : astate) : ares :=
  match cs with
  | [] => AOk s
  | c :: r =>
      match node_of I c with
      | None => ACrash 1                       (* KeyError from cg.computation(c) *)
      | Some nd => must_comps I a r
          (mkA (capa_sub (s_caps s) a (n_fp nd)) (map_add (s_map s) a c)
               (dict_set Z.eqb c a (s_hosted s)) (s_choices s))
      end
  end.
Fixpoint must_phase (I : inst) (ags : list Z) (s : astate) : ares :=
  match ags with
  | [] => AOk s
  | a :: r => match must_comps I a (hints_must I a) s with
              | AOk s' => if capa_get (s_caps s') a <? 0 then AImpossible else must_phase I r s'
              | e => e
              end
  end.

(* n.factor.dimensions: the other ends of a factor's links, in order *)
Definition dims (nd : node) : list Z :=
  flat_map (fun l => filter (fun x => negb (x =? n_id nd)) l) (n_links nd).

(* first loop: "mimic original secp adhoc behavior" *)
Definition secp_step (I : inst) (nd : node) (s : astate) : ares :=
  if mem_key Z.eqb (n_id nd) (s_hosted s) then AOk s else
  match hints_with I (n_id nd) with
  | [h] =>
      if negb (n_kind nd =? 1) then AOk s else
      match node_of I h with
      | None => ACrash 1
      | Some hn =>
          if negb (n_kind hn =? 0) then AOk s else
          let keys := map fst (s_caps s) in
          let cands := filter (fun a => existsb (fun x => zmem x (dims nd)) (map_get (s_map s) a)) keys in
          let pick := match cands with
                      | a :: _ => Some (a, s_choices s)
                      | [] => match keys with
                              | [] => None
                              | _ => Some (nth (hd 0%nat (s_choices s)) keys 0, tl (s_choices s))
                              end
                      end in
          match pick with
          | None => ACrash 2                   (* choice([]) : IndexError *)
          | Some (sel, ch) =>
              AOk (mkA (capa_sub (s_caps s) sel (n_fp nd))
                       (map_add (map_add (s_map s) sel (n_id nd)) sel h)
                       (dict_set Z.eqb h sel (dict_set Z.eqb (n_id nd) sel (s_hosted s))) ch)
          end
      end
  | _ => AOk s
  end.

Fixpoint aloop (f : node -> astate -> ares) (nds : list node) (s : astate) : ares :=
  match nds with
  | [] => AOk s
  | nd :: r => match f nd s with AOk s' => aloop f r s' | e => e end
  end.

Fixpoint dedup (l : list Z) : list Z :=
  match l with [] => [] | x :: r => if zmem x r then dedup r else x :: dedup r end.

(* (count, capacity, agent) > as Python compares tuples *)
Definition score_lt (x y : Z * Z * Z) : bool :=
  let '(c1, k1, a1) := x in let '(c2, k2, a2) := y in
  if c1 <? c2 then true else if c2 <? c1 then false
  else if k1 <? k2 then true else if k2 <? k1 then false else a1 <? a2.
Definition best_score (l : list (Z * Z * Z)) : option (Z * Z * Z) :=
  fold_left (fun acc x => match acc with
                          | None => Some x
                          | Some b => if score_lt b x then Some x else Some b
                          end) l None.

(* second loop *)
Definition place_step (I : inst) (nd : node) (s : astate) : ares :=
  if mem_key Z.eqb (n_id nd) (s_hosted s) then AOk s else
  let fp := n_fp nd in
  let hinted := dedup (flat_map (fun c => match zlookup c (s_hosted s) with Some a => [a] | None => [] end)
                                (hints_with I (n_id nd))) in
  let c1 := filter (fun ca => fp <? fst ca) (map (fun a => (capa_get (s_caps s) a, a)) hinted) in
  let cands := match c1 with
               | [] => filter (fun ca => fp <? fst ca) (map (fun ac => (snd ac, fst ac)) (s_caps s))
               | _ => c1
               end in
  let scores := map (fun ca =>
      (zsum (map (fun l => Z.of_nat (List.length (filter (fun x => zmem x (map_get (s_map s) (snd ca))) l)))
                 (n_links nd)), fst ca, snd ca)) cands in
  match best_score scores with
  | None => ANoCandidate
  | Some (_, _, sel) =>
      AOk (mkA (capa_sub (s_caps s) sel fp) (map_add (s_map s) sel (n_id nd))
               (dict_set Z.eqb (n_id nd) sel (s_hosted s)) (s_choices s))
  end.

(* Distribution({a: list(mapping[a])}) : ValueError when a computation is in two sets *)
Definition dist_of (m : list (Z * list Z)) : result :=
  let pairs := flat_map (fun al => map (fun c => (c, fst al)) (snd al)) m in
  if nodupb Z.eqb (map fst pairs) then Ok pairs else Crash 3.

Definition order_nodes (I : inst) (order : list Z) : list node :=
  flat_map (fun c => match node_of I c with Some nd => [nd] | None => [] end) order.

(* attempts 0..3; [shuf] = the successive results of shuffle(nodes) *)
Fixpoint adhoc_try (fuel : nat) (I : inst) (shuf : list (list Z)) (choices : list nat) : result :=
  match fuel with
  | O => Impossible                              (* attempt > 2 *)
  | S f =>
      let nodes := order_nodes I (hd (map n_id (i_nodes I)) shuf) in
      let s0 := mkA (dict_of_list Z.eqb (map (fun a => (g_id a, g_cap a)) (i_agents I))) [] [] choices in
      match must_phase I (map fst (s_caps s0)) s0 with
      | AOk s1 =>
          match aloop (secp_step I) nodes s1 with
          | AOk s2 =>
              match aloop (place_step I) nodes s2 with
              | AOk s3 => dist_of (s_map s3)
              | ANoCandidate => adhoc_try f I (tl shuf) (s_choices s2)
              | AImpossible => Impossible
              | ACrash k => Crash k
              end
          | AImpossible => Impossible
          | ACrash k => Crash k
          | ANoCandidate => Crash 9
          end
      | AImpossible => Impossible
      | ACrash k => Crash k
      | ANoCandidate => Crash 9
      end
  end.
Definition adhoc (I : inst) (shuf : list (list Z)) (choices : list nat) : result :=
  adhoc_try 4 I shuf choices.

(* ------------------------------------------------------------------ what "valid mapping" means *)
From Coq Require Import Permutation.
Definition fp_of (I : inst) (c : Z) : Z :=
  match find (fun nd => n_id nd =? c) (i_nodes I) with Some nd => n_fp nd | None => 0 end.
(* total footprint of the computations a mapping hosts on agent [a] *)
Definition hosted_fp (I : inst) (m : list (Z * Z)) (a : Z) : Z :=
  zsum (map (fun e => if snd e =? a then fp_of I (fst e) else 0) m).

(* names are unique (they are dict keys in pyDCOP) *)
Definition wf (I : inst) : Prop :=
  NoDup (map n_id (i_nodes I)) /\ NoDup (map g_id (i_agents I)).
(* every computation of the graph is hosted exactly once, nothing else is hosted *)
Definition hosts_once (I : inst) (m : list (Z * Z)) : Prop :=
  Permutation (map fst m) (map n_id (i_nodes I)).
Definition agents_declared (I : inst) (m : list (Z * Z)) : Prop :=
  forall c a, In (c, a) m -> In a (map g_id (i_agents I)).
Definition within_capacity (I : inst) (m : list (Z * Z)) : Prop :=
  forall ag, In ag (i_agents I) -> hosted_fp I m (g_id ag) <= g_cap ag.
Definition must_host_honoured (I : inst) (m : list (Z * Z)) : Prop :=
  forall a cs c, In (a, cs) (i_must I) -> In c cs -> In (c, a) m.

(* ------------------------------------------------------------------ correspondence *)
Module F.
  Import Floats Uint63.
  Definition f_of_Z (z : Z) : float :=
    if z <? 0 then PrimFloat.opp (PrimFloat.of_uint63 (Uint63.of_Z (- z)))
    else PrimFloat.of_uint63 (Uint63.of_Z z).
  (* RATIO_HOST_COMM = 0.8 ; the literal denotes the same binary64 value as Python's 0.8 *)
  Definition ratio : float := 0x1.999999999999ap-1%float.
  Definition cost (p : Z * Z) : float :=
    PrimFloat.add (PrimFloat.mul ratio (f_of_Z (fst p)))
                  (PrimFloat.mul (PrimFloat.sub 1%float ratio) (f_of_Z (snd p))).
  Definition cle (p q : Z * Z) : bool := PrimFloat.leb (cost p) (cost q).
End F.

Inductive method := MOneAgent | MGhCgdp | MHeurComhost | MAdhoc.
Inductive obs := OMap (m : list (Z * Z)) | OImpossible | OError.

Definition pair_le (a b : Z * Z) : bool := fst a <=? fst b.
Definition canon (r : result) : obs :=
  match r with
  | Ok m => OMap (isort pair_le m)
  | Impossible => OImpossible
  | _ => OError
  end.
Definition obs_eqb (a b : obs) : bool :=
  match a, b with
  | OMap x, OMap y => list_eqb zz_eqb x y
  | OImpossible, OImpossible => true
  | OError, OError => true
  | _, _ => false
  end.

Record case := mkCase { c_method : method; c_inst : inst; c_rnd : list Z;
                        c_shuf : list (list Z); c_choices : list nat; c_obs : obs }.

Definition run_method (c : case) : result :=
  match c_method c with
  | MOneAgent => oneagent (c_inst c)
  | MGhCgdp => gh_cgdp F.cle (c_inst c) (c_rnd c)
  | MHeurComhost => heur_comhost F.cle (c_inst c) (c_rnd c)
  | MAdhoc => adhoc (c_inst c) (c_shuf c) (c_choices c)
  end.

Definition check_case (c : case) : bool := obs_eqb (canon (run_method c)) (c_obs c).
