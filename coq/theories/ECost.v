(* ECost.v -- extended costs: the numbers pyDCOP's cost tables hold.
   Python ints and integer-valued floats are [Fin z]; float('inf'), -float('inf') and nan are
   [PInf], [NInf], [NaN].  Addition and comparisons are those Python's float gives them
   (every comparison with NaN is False, inf - inf = nan).  Definitions and their basic
   order lemmas on the NaN-free fragment.  Stdlib only. *)
From PyDcop Require Import Base.
From Coq Require Import ZifyBool.

Inductive ecost := Fin (z : Z) | PInf | NInf | NaN.

Definition ec_add (a b : ecost) : ecost :=
  match a, b with
  | NaN, _ | _, NaN => NaN
  | Fin x, Fin y => Fin (x + y)
  | PInf, NInf | NInf, PInf => NaN
  | PInf, _ | _, PInf => PInf
  | NInf, _ | _, NInf => NInf
  end.

(* Python's [a < b] *)
Definition ec_ltb (a b : ecost) : bool :=
  match a, b with
  | NaN, _ | _, NaN => false
  | Fin x, Fin y => x <? y
  | NInf, NInf => false
  | NInf, _ => true
  | _, NInf => false
  | PInf, _ => false
  | Fin _, PInf => true
  end.

(* Python's [a == b]: nan != nan *)
Definition ec_eqb (a b : ecost) : bool :=
  match a, b with
  | Fin x, Fin y => x =? y
  | PInf, PInf | NInf, NInf => true
  | _, _ => false
  end.

(* structural equality (used only to compare a model output with an observation) *)
Definition ec_same (a b : ecost) : bool :=
  match a, b with
  | NaN, NaN => true
  | _, _ => ec_eqb a b
  end.

Definition is_nan (a : ecost) : bool := match a with NaN => true | _ => false end.
Definition ec_leb (a b : ecost) : bool := ec_ltb a b || ec_eqb a b.

Inductive mode := Min | Max.
Definition mode_eqb (a b : mode) : bool :=
  match a, b with Min, Min | Max, Max => true | _, _ => false end.

(* [better m a b]: a is strictly better than b in mode m *)
Definition better (m : mode) (a b : ecost) : bool :=
  match m with Min => ec_ltb a b | Max => ec_ltb b a end.
(* a is at least as good as b *)
Definition no_worse (m : mode) (a b : ecost) : bool := better m a b || ec_eqb a b.
(* the worst possible cost: the start value of the optimisation loops *)
Definition worst (m : mode) : ecost := match m with Min => PInf | Max => NInf end.

(* ---------- order facts ---------- *)
Lemma ec_same_eq a b : ec_same a b = true <-> a = b.
Proof.
  destruct a, b; simpl; split; intro H; try discriminate; try reflexivity;
    try (apply Z.eqb_eq in H; now subst); try (inversion H; apply Z.eqb_refl).
Qed.

Lemma ec_eqb_eq a b : ec_eqb a b = true -> a = b.
Proof. destruct a, b; simpl; intro H; try discriminate; auto. apply Z.eqb_eq in H. now subst. Qed.

Lemma ec_eqb_refl a : is_nan a = false -> ec_eqb a a = true.
Proof. destruct a; simpl; intro; try discriminate; auto. apply Z.eqb_refl. Qed.

Lemma ec_ltb_irrefl a : ec_ltb a a = false.
Proof. destruct a; simpl; auto. apply Z.ltb_irrefl. Qed.

Lemma ec_ltb_trans a b c : ec_ltb a b = true -> ec_ltb b c = true -> ec_ltb a c = true.
Proof. destruct a, b, c; simpl; intros; try discriminate; auto. lia. Qed.

Lemma ec_ltb_asym a b : ec_ltb a b = true -> ec_ltb b a = false.
Proof. destruct a, b; simpl; intros; try discriminate; auto. lia. Qed.

Lemma ec_trichotomy a b : is_nan a = false -> is_nan b = false ->
  ec_ltb a b = true \/ ec_eqb a b = true \/ ec_ltb b a = true.
Proof. destruct a, b; simpl; intros; try discriminate; auto. lia. Qed.

Lemma ec_lt_not_eq a b : ec_ltb a b = true -> ec_eqb a b = false.
Proof. destruct a, b; simpl; intros; try discriminate; auto. lia. Qed.

Lemma better_irrefl m a : better m a a = false.
Proof. destruct m; apply ec_ltb_irrefl. Qed.

Lemma better_trans m a b c : better m a b = true -> better m b c = true -> better m a c = true.
Proof. destruct m; simpl; intros; eapply ec_ltb_trans; eauto. Qed.

Lemma better_asym m a b : better m a b = true -> better m b a = false.
Proof. destruct m; simpl; apply ec_ltb_asym. Qed.

Lemma better_not_eq m a b : better m a b = true -> ec_eqb a b = false.
Proof.
  destruct m; simpl; intro H.
  - now apply ec_lt_not_eq.
  - apply ec_lt_not_eq in H. destruct a, b; simpl in *; auto. now rewrite Z.eqb_sym.
Qed.

Lemma better_total m a b : is_nan a = false -> is_nan b = false ->
  better m a b = true \/ ec_eqb a b = true \/ better m b a = true.
Proof.
  intros Ha Hb. destruct (ec_trichotomy a b Ha Hb) as [H|[H|H]]; destruct m; simpl; auto.
Qed.

Lemma no_worse_refl m a : is_nan a = false -> no_worse m a a = true.
Proof. intro H. unfold no_worse. rewrite (ec_eqb_refl a H). apply orb_true_r. Qed.

Lemma no_worse_trans m a b c :
  no_worse m a b = true -> no_worse m b c = true -> no_worse m a c = true.
Proof.
  unfold no_worse. intros H1 H2.
  apply orb_true_iff in H1 as [H1|H1]; apply orb_true_iff in H2 as [H2|H2].
  - rewrite (better_trans m a b c H1 H2). reflexivity.
  - apply ec_eqb_eq in H2. subst. rewrite H1. reflexivity.
  - apply ec_eqb_eq in H1. subst. rewrite H2. reflexivity.
  - apply ec_eqb_eq in H1. subst. rewrite H2. apply orb_true_r.
Qed.

Lemma worst_is_worst m a : is_nan a = false -> no_worse m a (worst m) = true.
Proof. destruct m, a; simpl; intro; try discriminate; reflexivity. Qed.

Lemma worst_not_nan m : is_nan (worst m) = false.
Proof. now destruct m. Qed.

Lemma not_better_no_worse m a b : is_nan a = false -> is_nan b = false ->
  better m a b = false -> no_worse m b a = true.
Proof.
  intros Ha Hb H. unfold no_worse. destruct (better_total m a b Ha Hb) as [E|[E|E]].
  - congruence.
  - apply ec_eqb_eq in E. subst. rewrite (ec_eqb_refl b Hb). apply orb_true_r.
  - rewrite E. reflexivity.
Qed.

Lemma no_worse_antisym m a b : no_worse m a b = true -> no_worse m b a = true -> a = b.
Proof.
  unfold no_worse. intros H1 H2.
  apply orb_true_iff in H1 as [H1|H1]; [|now apply ec_eqb_eq].
  apply orb_true_iff in H2 as [H2|H2]; [|symmetry; now apply ec_eqb_eq].
  apply better_asym in H1. congruence.
Qed.

Lemma ec_add_nan_free_fin x b : is_nan b = false -> is_nan (ec_add (Fin x) b) = false.
Proof. destruct b; simpl; auto. Qed.

Lemma ec_add_0_l a : ec_add (Fin 0) a = a.
Proof. destruct a; simpl; auto. Qed.
