(* M_IlpRows.v -- the constraint ROWS and the linear objective that oilp_cgdp.ilp_cgdp and
   ilp_fgdp.factor_graph_lp_model hand to PuLP (property C24, deepening of M_Ilp).
   Models only; proofs are in P_IlpRows.v (oilp_cgdp) and P_IlpRows2.v (ilp_fgdp).

   One [lrow] per `pb += ...` constraint statement, in posting order: coefficients over the
   binaries x_<c>_<a> / f_<c>_<a> / b_<c1>_<a1>_<c2>_<a2> / a_(<i>,_<j>)_<k>, sense and right-hand
   side (PuLP stores  expr + constant (sense) 0 ; rhs = -constant).  The correspondence run
   compares this list row by row with `pb.constraints` of the problem captured at solve()
   (coefficient lists compared as sets, zero coefficients dropped) and the objective
   coefficient by coefficient. *)
From PyDcop Require Import Base M_Dist M_Ilp.

Inductive lvar :=
| VX (c a : Z)              (* x_<c>_<a> *)
| VF (c a : Z)              (* f_<c>_<a>           (ilp_fgdp: factor computations) *)
| VB (c1 a1 c2 a2 : Z)      (* b_<c1>_<a1>_<c2>_<a2>   (oilp_cgdp) *)
| VA (i j k : Z)            (* a_('<i>',_'<j>')_<k>    (ilp_fgdp) *)
| VOther (n : Z).           (* a variable the harness cannot name: never produced by the model *)

Definition lvar_eqb (u v : lvar) : bool :=
  match u, v with
  | VX c a, VX c' a' => (c =? c') && (a =? a')
  | VF c a, VF c' a' => (c =? c') && (a =? a')
  | VB c1 a1 c2 a2, VB d1 b1 d2 b2 => (c1 =? d1) && (a1 =? b1) && (c2 =? d2) && (a2 =? b2)
  | VA i j k, VA i' j' k' => (i =? i') && (j =? j') && (k =? k')
  | VOther n, VOther n' => n =? n'
  | _, _ => false
  end.

(* sense: -1 is <=, 0 is ==, 1 is >=  (pulp.LpConstraintLE / EQ / GE) *)
Record lrow := mkLRow { lr_coefs : list (lvar * Z); lr_sense : Z; lr_rhs : Z }.

Definition assignment := lvar -> bool.
Definition b2z (b : bool) : Z := if b then 1 else 0.
Definition lin_eval (s : assignment) (l : list (lvar * Z)) : Z :=
  zsum (map (fun p => snd p * b2z (s (fst p))) l).
Definition row_sat (s : assignment) (r : lrow) : bool :=
  let v := lin_eval s (lr_coefs r) in
  if lr_sense r =? 0 then v =? lr_rhs r
  else if lr_sense r <? 0 then v <=? lr_rhs r else lr_rhs r <=? v.
Definition rows_sat (s : assignment) (rows : list lrow) : bool := forallb (row_sat s) rows.

Definition zzmem (p : Z * Z) (l : list (Z * Z)) : bool := existsb (zz_eqb p) l.
Definition agent_ids (I : inst) : list Z := map g_id (i_agents I).
Definition node_ids (I : inst) : list Z := map n_id (i_nodes I).

(* ================================================================== oilp_cgdp.ilp_cgdp *)
(* the pinning loop: for agent, for comp: hosting cost 0 => x[comp,agent] == 1 and
   x[comp,other] == 0 for every other agent (compared by name).  Entry = (comp, agent, to-1?) *)
Definition pin_entries (I : inst) : list (Z * Z * bool) :=
  flat_map (fun g => flat_map (fun nd =>
    if hosting_cost g (n_id nd) =? 0
    then (n_id nd, g_id g, true)
         :: map (fun o => (n_id nd, g_id o, false))
                (filter (fun o => negb (g_id o =? g_id g)) (i_agents I))
    else []) (i_nodes I)) (i_agents I).
Definition pin_row (e : Z * Z * bool) : lrow :=
  let '(c, a, one) := e in mkLRow [(VX c a, 1)] 0 (if one then 1 else 0).
Definition fixed1 (I : inst) : list (Z * Z) :=      (* x_fixed_to_1 *)
  map (fun e => (fst (fst e), snd (fst e))) (filter (fun e => snd e) (pin_entries I)).
Definition fixed0 (I : inst) : list (Z * Z) :=      (* x_fixed_to_0 *)
  map (fun e => (fst (fst e), snd (fst e))) (filter (fun e => negb (snd e)) (pin_entries I)).

(* the beta loop.  key (c1,a1,c2,a2) = variable b_c1_a1_c2_a2 *)
Definition key := (Z * Z * Z * Z)%type.
Definition key_eqb (k k' : key) : bool :=
  let '(c1, a1, c2, a2) := k in let '(d1, b1, d2, b2) := k' in
  (c1 =? d1) && (a1 =? b1) && (c2 =? d2) && (a2 =? b2).
Definition swap_key (k : key) : key := let '(c1, a1, c2, a2) := k in (c1, a2, c2, a1).
(* for a1, a2 in combinations(agt_names, 2): for l in cg.links: for c1, c2 in combinations(l.nodes, 2) *)
Definition beta_cands (G : ginst) : list key :=
  flat_map (fun ap => map (fun cp => (fst cp, fst ap, snd cp, snd ap)) (link_pairs G))
           (pairs (agent_ids (g_inst G))).
(* `if (c1, a1, c2, a2) in betas: continue`, else both orientations are created; the flag says
   "second orientation" (its three linearisation rows are posted in another order) *)
Fixpoint beta_loop (cands seen : list key) : list (key * bool) :=
  match cands with
  | [] => []
  | k :: r => if existsb (key_eqb k) seen then beta_loop r seen
              else (k, false) :: (swap_key k, true) :: beta_loop r (swap_key k :: k :: seen)
  end.
Definition beta_keys (G : ginst) : list (key * bool) := beta_loop (beta_cands G) [].

Definition beta_rows (f0 f1 : list (Z * Z)) (kb : key * bool) : list lrow :=
  let '((c1, a1, c2, a2), second) := kb in
  let b := VB c1 a1 c2 a2 in
  if zzmem (c1, a1) f0 || zzmem (c2, a2) f0 then [mkLRow [(b, 1)] 0 0]
  else if zzmem (c1, a1) f1 then [mkLRow [(b, 1); (VX c2 a2, -1)] 0 0]
  else if zzmem (c2, a2) f1 then [mkLRow [(b, 1); (VX c1 a1, -1)] 0 0]
  else if second
  then [mkLRow [(b, 1); (VX c2 a2, -1)] (-1) 0; mkLRow [(b, 1); (VX c1 a1, -1)] (-1) 0;
        mkLRow [(b, 1); (VX c1 a1, -1); (VX c2 a2, -1)] 1 (-1)]
  else [mkLRow [(b, 1); (VX c1 a1, -1)] (-1) 0; mkLRow [(b, 1); (VX c2 a2, -1)] (-1) 0;
        mkLRow [(b, 1); (VX c2 a2, -1); (VX c1 a1, -1)] 1 (-1)].

Definition cap_row (I : inst) (g : agent) : lrow :=
  mkLRow (map (fun nd => (VX (n_id nd) (g_id g), n_fp nd)) (i_nodes I)) (-1) (g_cap g).
Definition hosted_row (I : inst) (nd : node) : lrow :=
  mkLRow (map (fun g => (VX (n_id nd) (g_id g), 1)) (i_agents I)) 0 1.

Definition oilp_rows (G : ginst) : list lrow :=
  let I := g_inst G in
  map pin_row (pin_entries I)
  ++ flat_map (beta_rows (fixed0 I) (fixed1 I)) (beta_keys G)
  ++ map (cap_row I) (i_agents I)
  ++ map (hosted_row I) (i_nodes I).

(* _objective: RATIO * sum route(a1,a2)*msg_load(c1,c2)*beta  +  (1-RATIO) * sum hosting(a,c)*x[c,a]
   kept as the two integer coefficient lists (communication, hosting) *)
Definition key_coef (I : inst) (k : key) : Z :=
  let '(c1, a1, c2, a2) := k in route_f I a1 a2 * msg_load I c1 c2.
Definition key_var (k : key) : lvar := let '(c1, a1, c2, a2) := k in VB c1 a1 c2 a2.
Definition oilp_comm_coefs (G : ginst) : list (lvar * Z) :=
  map (fun kb => (key_var (fst kb), key_coef (g_inst G) (fst kb))) (beta_keys G).
Definition oilp_host_coefs (G : ginst) : list (lvar * Z) :=
  flat_map (fun nd => map (fun g => (VX (n_id nd) (g_id g), hosting_f (g_inst G) (g_id g) (n_id nd)))
                          (i_agents (g_inst G))) (i_nodes (g_inst G)).
(* value of the objective, as the exact pair (communication, hosting) *)
Definition oilp_lin_obj (G : ginst) (s : assignment) : Z * Z :=
  (lin_eval s (oilp_comm_coefs G), lin_eval s (oilp_host_coefs G)).

(* reading a distribution off the x part of an assignment, and back *)
Definition decode_agent (I : inst) (s : assignment) (c : Z) : Z :=
  match find (fun g => s (VX c (g_id g))) (i_agents I) with Some g => g_id g | None => -1 end.
Definition oilp_decode (G : ginst) (s : assignment) : list (Z * Z) :=
  map (fun nd => (n_id nd, decode_agent (g_inst G) s (n_id nd))) (i_nodes (g_inst G)).
Definition oilp_encode (D : list (Z * Z)) : assignment :=
  fun v => match v with
           | VX c a => dget D c =? a
           | VB c1 a1 c2 a2 => (dget D c1 =? a1) && (dget D c2 =? a2)
           | _ => false
           end.

(* ================================================================== ilp_fgdp.factor_graph_lp_model *)
(* must_host[agent] = computations with a zero hosting cost, in cg.node_names() order *)
Definition must_host_of (I : inst) (g : agent) : list Z :=
  map n_id (filter (fun nd => hosting_cost g (n_id nd) =? 0) (i_nodes I)).
Definition fixed_pairs (I : inst) : list (Z * Z) :=     (* fixed_dist: (computation, agent) *)
  flat_map (fun g => map (fun c => (c, g_id g)) (must_host_of I g)) (i_agents I).
(* Distribution(must_host) raises ValueError: a computation listed for two agents *)
Definition fixed_conflict (I : inst) : bool := negb (nodupb Z.eqb (map fst (fixed_pairs I))).
Definition is_fixed (I : inst) (c : Z) : bool := zmem c (map fst (fixed_pairs I)).
Definition fixed_agent (I : inst) (c : Z) : Z :=
  match zlookup c (fixed_pairs I) with Some a => a | None => -1 end.
Definition vars_to_host (I : inst) : list Z :=
  map n_id (filter (fun nd => (n_kind nd =? 0) && negb (is_fixed I (n_id nd))) (i_nodes I)).
Definition facs_to_host (I : inst) : list Z :=
  map n_id (filter (fun nd => (n_kind nd =? 1) && negb (is_fixed I (n_id nd))) (i_nodes I)).
Definition fp_of (I : inst) (c : Z) : Z :=
  match node_of I c with Some nd => n_fp nd | None => 0 end.

Definition lin_rows (I : inst) (l : list Z) (k : Z) : list lrow :=
  let '(i, j) := orient I l in
  let a := VA i j k in
  let vi := zmem i (vars_to_host I) in
  let fj := zmem j (facs_to_host I) in
  if vi && fj then [mkLRow [(a, 1); (VX i k, -1)] (-1) 0; mkLRow [(a, 1); (VF j k, -1)] (-1) 0;
                    mkLRow [(a, 1); (VX i k, -1); (VF j k, -1)] 1 (-1)]
  else if vi then (if fixed_agent I j =? k then [mkLRow [(a, 1); (VX i k, -1)] 0 0]
                   else [mkLRow [(a, 1)] 0 0])
  else if fj then (if fixed_agent I i =? k then [mkLRow [(a, 1); (VF j k, -1)] 0 0]
                   else [mkLRow [(a, 1)] 0 0])
  else (if (fixed_agent I i =? k) && (fixed_agent I j =? k) then [mkLRow [(a, 1)] 0 1]
        else [mkLRow [(a, 1)] 0 0]).

Definition fgdp_rows_of (G : ginst) : list lrow :=
  let I := g_inst G in
  let vs := vars_to_host I in
  let fs := facs_to_host I in
  map (fun i => mkLRow (map (fun g => (VX i (g_id g), 1)) (i_agents I)) 0 1) vs
  ++ map (fun j => mkLRow (map (fun g => (VF j (g_id g), 1)) (i_agents I)) 0 1) fs
  ++ map (fun g => mkLRow (map (fun i => (VX i (g_id g), 1)) vs ++ map (fun j => (VF j (g_id g), 1)) fs) 1 1)
         (filter (fun g => match must_host_of I g with [] => true | _ => false end) (i_agents I))
  ++ map (fun g => mkLRow (map (fun i => (VX i (g_id g), fp_of I i)) vs
                           ++ map (fun j => (VF j (g_id g), fp_of I j)) fs)
                          (-1) (g_cap g - zsum (map (fp_of I) (must_host_of I g))))
         (i_agents I)
  ++ flat_map (fun l => flat_map (fun g => lin_rows I l (g_id g)) (i_agents I)) (g_links G).

(* None = no ILP is built (conflicting zero hosting costs -> ImpossibleDistributionException) *)
Definition fgdp_rows (G : ginst) : option (list lrow) :=
  if fixed_conflict (g_inst G) then None else Some (fgdp_rows_of G).

(* _objective_function: - communication_load(variable, factor) * alpha, per link and agent *)
Definition fgdp_comm_coefs (G : ginst) : list (lvar * Z) :=
  flat_map (fun l => let '(i, j) := orient (g_inst G) l in
                     map (fun g => (VA i j (g_id g), - load (g_inst G) i j)) (i_agents (g_inst G)))
           (g_links G).
Definition fgdp_lin_obj (G : ginst) (s : assignment) : Z := lin_eval s (fgdp_comm_coefs G).

Definition fgdp_decode_agent (I : inst) (s : assignment) (nd : node) : Z :=
  if is_fixed I (n_id nd) then fixed_agent I (n_id nd)
  else match find (fun g => if n_kind nd =? 0 then s (VX (n_id nd) (g_id g)) else s (VF (n_id nd) (g_id g)))
                  (i_agents I) with
       | Some g => g_id g | None => -1 end.
Definition fgdp_decode (G : ginst) (s : assignment) : list (Z * Z) :=
  map (fun nd => (n_id nd, fgdp_decode_agent (g_inst G) s nd)) (i_nodes (g_inst G)).
Definition fgdp_encode (D : list (Z * Z)) : assignment :=
  fun v => match v with
           | VX c a => dget D c =? a
           | VF c a => dget D c =? a
           | VA i j k => (dget D i =? k) && (dget D j =? k)
           | _ => false
           end.

(* ================================================================== correspondence *)
(* comparison of a modelled row with a captured one: same sense and rhs, coefficient lists equal
   as sets once zero coefficients are dropped (PuLP keeps or drops them depending on how the
   expression was built) *)
Definition nz (l : list (lvar * Z)) : list (lvar * Z) := filter (fun p => negb (snd p =? 0)) l.
Definition coef_in (p : lvar * Z) (l : list (lvar * Z)) : bool :=
  existsb (fun q => lvar_eqb (fst p) (fst q) && (snd p =? snd q)) l.
Definition coefs_eqb (l1 l2 : list (lvar * Z)) : bool :=
  let a := nz l1 in let b := nz l2 in
  (Nat.eqb (List.length a) (List.length b)) && forallb (fun p => coef_in p b) a
  && forallb (fun p => coef_in p a) b.
Definition lrow_eqb (r1 r2 : lrow) : bool :=
  (lr_sense r1 =? lr_sense r2) && (lr_rhs r1 =? lr_rhs r2) && coefs_eqb (lr_coefs r1) (lr_coefs r2).

Record ilp_obs := mkObs { o_rows : list lrow; o_comm : list (lvar * Z); o_host : list (lvar * Z) }.
Record case := mkCaseR { c_base : M_Ilp.case; c_ilp : option ilp_obs }.

Definition model_ilp (m : ilp_method) (G : ginst) : option ilp_obs :=
  match m with
  | MOilp => Some (mkObs (oilp_rows G) (oilp_comm_coefs G) (oilp_host_coefs G))
  | MFgdp => match fgdp_rows G with
             | Some r => Some (mkObs r (fgdp_comm_coefs G) [])
             | None => None
             end
  end.

Definition obs_eqb (a b : ilp_obs) : bool :=
  list_eqb lrow_eqb (o_rows a) (o_rows b) && coefs_eqb (o_comm a) (o_comm b)
  && coefs_eqb (o_host a) (o_host b).

(* the guards of the row-level theorems (Prop_C24: NoDup agent names, links_wf; fg_wf, fg_links_wf),
   as booleans evaluated on every generated instance: the theorems apply to the tested population
   (soundness of the booleans: P_IlpRows3) *)
Definition links_wfb (G : ginst) : bool :=
  forallb (fun l => forallb (fun c => zmem c (node_ids (g_inst G))) l) (g_links G).
Definition oilp_guardsb (G : ginst) : bool :=
  nodupb Z.eqb (agent_ids (g_inst G)) && links_wfb G.
Definition fg_linkb (I : inst) (l : list Z) : bool :=
  match l with [_; _] => true | _ => false end
  && existsb (fun nd => (n_id nd =? fst (orient I l)) && (n_kind nd =? 0)) (i_nodes I)
  && existsb (fun nd => (n_id nd =? snd (orient I l)) && (n_kind nd =? 1)) (i_nodes I).
Definition fgdp_guardsb (G : ginst) : bool :=
  nodupb Z.eqb (agent_ids (g_inst G)) && nodupb Z.eqb (node_ids (g_inst G))
  && forallb (fun nd => (n_kind nd =? 0) || (n_kind nd =? 1)) (i_nodes (g_inst G))
  && forallb (fg_linkb (g_inst G)) (g_links G).
Definition guardsb (m : ilp_method) (G : ginst) : bool :=
  match m with MOilp => oilp_guardsb G | MFgdp => fgdp_guardsb G end.

(* c_ilp = None: no problem reached solve() *)
Definition check_case (c : case) : bool :=
  M_Ilp.check_case (c_base c)
  && option_eqb obs_eqb (model_ilp (c_method (c_base c)) (c_G (c_base c))) (c_ilp c)
  && guardsb (c_method (c_base c)) (c_G (c_base c)).
