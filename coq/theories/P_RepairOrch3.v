(* P_RepairOrch3.v -- C27 deepening, part 2: the whole repair DCOP, built by every candidate
   agent from what the orchestrator sends it (M_Repair.candidate_agt_info on the orchestrator's
   Discovery), has no violated hard constraint iff the outcome is a valid re-hosting. *)
From PyDcop Require Import Base P_Base M_Repair P_Repair M_RepairOrch2 P_RepairOrch2.
From Coq Require Import Permutation.

Lemma mapM_ok {A B} (f : A -> res B) l : forall r, mapM f l = Ok r ->
  (forall b, In b r <-> exists a, In a l /\ f a = Ok b) /\ List.length r = List.length l.
Proof.
  induction l as [|a t IH]; simpl; intros r H.
  - inversion H; subst. split; auto. intros b; split; [intros []|intros [a [[] _]]].
  - destruct (f a) as [b0|e] eqn:E; simpl in H; [|discriminate].
    destruct (mapM f t) as [r0|e] eqn:E0; simpl in H; [|discriminate].
    inversion H; subst. destruct (IH r0 eq_refl) as [IH1 IH2]. split; [|simpl; congruence].
    intros b. simpl. rewrite IH1. split.
    + intros [<-|[a' [Ha' Hf]]]; [exists a; auto|exists a'; auto].
    + intros [a' [[<-|Ha'] Hf]]; [left; congruence|right; exists a'; auto].
Qed.

Lemma agt_info_loop_nodup departed g d cs : forall acc l,
  agt_info_loop cs departed g d acc = Ok l -> NoDup (map fst acc) -> NoDup (map fst l).
Proof.
  induction cs as [|c r IH]; simpl; intros acc l H Hnd.
  - inversion H; subst; auto.
  - destruct (computation_info c departed g d) as [i|e]; simpl in H; [|discriminate].
    apply (IH _ _ H). apply dict_set_keys_nodup; auto. apply string_eqb_iff.
Qed.

Lemma candidate_agt_info_nodup agt departed g d l :
  candidate_agt_info agt departed g d = Ok l -> NoDup (map fst l).
Proof.
  unfold candidate_agt_info.
  destruct (candidate_computations_for_agt agt (orphaned departed d) d) as [cs|e]; simpl; [|discriminate].
  intros H. apply (agt_info_loop_nodup _ _ _ _ _ _ H). constructor.
Qed.

(* ---------- specification ---------- *)
(* a surviving agent that holds a replica of c *)
Definition holder (s : scen) (c a : string) : Prop :=
  In a (replicas_of (s_disc s) c) /\ ~ In a (s_departed s).
Definition orph (s : scen) : list string := orphaned (s_departed s) (s_disc s).
(* the agents the orchestrator sends setup_repair to (M_Repair.candidate_agents, any order) *)
Definition is_candidates (s : scen) (cands : list string) : Prop :=
  forall a, In a cands <-> (~ In a (s_departed s) /\ exists o, In o (orph s) /\ In a (replicas_of (s_disc s) o)).

Definition binary_outcome (s : scen) (x : bkey -> Z) : Prop :=
  forall c a, In c (orph s) -> holder s c a -> x (c, a) = 0 \/ x (c, a) = 1.

(* valid re-hosting: every orphaned computation that still has a replica holder is selected by
   exactly one of its surviving replica holders, and what every candidate agent selects fits
   its remaining capacity *)
Definition valid_rehosting (s : scen) (cands : list string) (x : bkey -> Z) : Prop :=
  (forall c, In c (orph s) -> (exists a, holder s c a) ->
     exists a, holder s c a /\ x (c, a) = 1 /\ forall a', holder s c a' -> x (c, a') = 1 -> a' = a) /\
  (forall a cs, In a cands -> NoDup cs ->
     (forall c, In c cs <-> In c (orph s) /\ In a (replicas_of (s_disc s) c)) ->
     load (tbl_fun (s_fp s)) x a cs <= tbl_fun (s_remaining s) a).

(* ---------- what a candidate agent receives is well formed ---------- *)
Lemma agent_info_wf s cands a l :
  is_candidates s cands -> In a cands ->
  candidate_agt_info a (s_departed s) (s_graph s) (s_disc s) = Ok l ->
  wf_info a l /\
  (forall c, In c (map fst l) <-> In c (orph s) /\ In a (replicas_of (s_disc s) c)) /\
  (forall ci a', In ci l -> (In a' (cands_of ci) <-> holder s (fst ci) a')).
Proof.
  intros Hc Ha Hl. destruct (agt_info_keys_exact_l _ _ _ _ _ Hl) as [Hk Hi].
  assert (Hci : forall ci, In ci l ->
            NoDup (cands_of ci) /\ forall a', In a' (cands_of ci) <-> holder s (fst ci) a').
  { intros [c [[cand fixed] cn]] Hin. specialize (Hi _ _ Hin).
    destruct (info_candidates_exact_l _ _ _ _ _ _ _ Hi) as [[Hnd Hmem] _]. simpl. split; auto. }
  split; [|split; auto].
  - split; [eapply candidate_agt_info_nodup; eauto|].
    intros ci Hin. destruct (Hci ci Hin) as [Hnd Hmem]. split; auto. apply Hmem.
    assert (In (fst ci) (map fst l)) as Hkk by now apply in_map.
    apply Hk in Hkk as [_ Hr]. split; auto. apply Hc in Ha. tauto.
  - intros ci a' Hin. now apply Hci.
Qed.

Lemma agent_dcop_inv s a rd : agent_dcop s a = Ok rd ->
  exists l, candidate_agt_info a (s_departed s) (s_graph s) (s_disc s) = Ok l /\
            setup_repair a (tbl_fun (s_remaining s) a) (tbl_fun (s_fp s)) l = Ok rd.
Proof.
  unfold agent_dcop. destruct (candidate_agt_info _ _ _ _) as [l|e]; simpl; [|discriminate].
  intros H. exists l. auto.
Qed.

Lemma all_dcops_in s cands ds : all_dcops s cands = Ok ds ->
  forall a rd, In (a, rd) ds <-> In a cands /\ agent_dcop s a = Ok rd.
Proof.
  unfold all_dcops. intros H a rd. destruct (mapM_ok _ _ _ H) as [Hm _]. rewrite Hm. split.
  - intros [a' [Ha' Hf]]. destruct (agent_dcop s a') as [rd'|e] eqn:Ed; simpl in Hf; [|discriminate].
    inversion Hf; subst. auto.
  - intros [Ha Hf]. exists a. split; auto. now rewrite Hf.
Qed.

Lemma all_dcops_agents s cands ds : all_dcops s cands = Ok ds -> map fst ds = cands.
Proof.
  unfold all_dcops. revert ds. induction cands as [|a t IH]; simpl; intros ds H.
  - inversion H; auto.
  - destruct (agent_dcop s a) as [rd|e]; simpl in H; [|discriminate].
    destruct (mapM _ t) as [r0|e] eqn:E0; simpl in H; [|discriminate].
    inversion H; subst. simpl. f_equal. now apply IH.
Qed.

(* the orchestrator's information never makes setup_repair fail *)
Lemma all_dcops_defined s cands :
  is_candidates s cands ->
  (forall a, In a cands -> exists l, candidate_agt_info a (s_departed s) (s_graph s) (s_disc s) = Ok l) ->
  exists ds, all_dcops s cands = Ok ds.
Proof.
  intros Hc Hinfo. unfold all_dcops.
  assert (H : forall a, In a cands -> exists rd, agent_dcop s a = Ok rd).
  { intros a Ha. destruct (Hinfo a Ha) as [l Hl]. unfold agent_dcop. rewrite Hl. simpl.
    destruct (agent_info_wf s cands a l Hc Ha Hl) as [Hwf _].
    rewrite setup_repair_ok by auto. eauto. }
  clear Hc Hinfo. induction cands as [|a t IH]; simpl; [eauto|].
  destruct (H a (or_introl eq_refl)) as [rd ->]. simpl.
  destruct IH as [ds ->]; [intros; apply H; simpl; auto|]. simpl. eauto.
Qed.

(* ---------- main theorem ---------- *)
Lemma agent_zero_iff s cands x a rd :
  is_candidates s cands -> binary_outcome s x -> In a cands -> agent_dcop s a = Ok rd ->
  (exists v, agent_hard rd x = Ok v /\ 0 <= v) /\
  (agent_hard rd x = Ok 0 <->
   exists l, candidate_agt_info a (s_departed s) (s_graph s) (s_disc s) = Ok l /\
     (forall ci, In ci l -> exactly_one x (fst ci) (cands_of ci)) /\
     load (tbl_fun (s_fp s)) x a (map fst l) <= tbl_fun (s_remaining s) a).
Proof.
  intros Hc Hb Ha Hd. destruct (agent_dcop_inv _ _ _ Hd) as [l [Hl Hs]].
  destruct (agent_info_wf s cands a l Hc Ha Hl) as [Hwf [Hk Hm]].
  assert (Hbin : binary_on x l).
  { intros ci a' Hin Ha'. apply Hb.
    - apply (Hk (fst ci)). now apply in_map.
    - now apply Hm. }
  destruct (agent_hard_zero_iff _ _ _ _ _ x Hwf Hbin Hs) as [Hex Hiff]. split; auto.
  rewrite Hiff. split.
  - intros [H1 H2]. exists l. auto.
  - intros [l' [Hl' [H1 H2]]]. rewrite Hl in Hl'. inversion Hl'; subst. auto.
Qed.

Lemma repair_zero_hard_cost_iff_valid_l s cands ds x :
  is_candidates s cands -> binary_outcome s x -> all_dcops s cands = Ok ds ->
  (total_hard ds x = Ok 0 <-> valid_rehosting s cands x).
Proof.
  intros Hc Hb Hds. unfold total_hard.
  match goal with |- context [sum_res ?l] => destruct (sum_res_zero_iff l) as [_ Hiff] end.
  { intros r Hr. apply in_map_iff in Hr as [[a rd] [<- Hin]]. simpl.
    apply (all_dcops_in _ _ _ Hds) in Hin as [Ha Hd].
    destruct (agent_zero_iff s cands x a rd Hc Hb Ha Hd) as [Hex _]. exact Hex. }
  rewrite Hiff. clear Hiff. split.
  - intros Hall.
    assert (Hag : forall a, In a cands -> exists l,
              candidate_agt_info a (s_departed s) (s_graph s) (s_disc s) = Ok l /\
              (forall ci, In ci l -> exactly_one x (fst ci) (cands_of ci)) /\
              load (tbl_fun (s_fp s)) x a (map fst l) <= tbl_fun (s_remaining s) a).
    { intros a Ha. assert (In a (map fst ds)) as Hin by now rewrite (all_dcops_agents _ _ _ Hds).
      apply in_map_iff in Hin as [[a' rd] [E Hin]]. simpl in E; subst a'.
      pose proof Hin as Hin'. apply (all_dcops_in _ _ _ Hds) in Hin' as [_ Hd].
      apply (agent_zero_iff s cands x a rd Hc Hb Ha Hd). apply Hall.
      apply in_map_iff. exists (a, rd). auto. }
    split.
    + intros c Hco [a0 Hh]. assert (Ha0 : In a0 cands).
      { apply Hc. destruct Hh. split; auto. exists c. auto. }
      destruct (Hag a0 Ha0) as [l [Hl [Hone _]]].
      destruct (agent_info_wf s cands a0 l Hc Ha0 Hl) as [_ [Hk Hm]].
      assert (In c (map fst l)) as Hcl by (apply Hk; destruct Hh; auto).
      apply in_map_iff in Hcl as [ci [<- Hci]].
      destruct (Hone ci Hci) as [a [Ha [Hx Hu]]]. exists a. split; [now apply (Hm ci)|]. split; auto.
      intros a' Ha' Hx'. apply Hu; auto. now apply (Hm ci).
    + intros a cs Ha Hnd Hcs. destruct (Hag a Ha) as [l [Hl [_ Hload]]].
      destruct (agent_info_wf s cands a l Hc Ha Hl) as [[Hndl _] [Hk _]].
      rewrite (load_perm _ _ _ cs (map fst l)); auto.
      apply NoDup_Permutation; auto. intros c. rewrite Hcs, Hk. tauto.
  - intros [Hone Hload] r Hr. apply in_map_iff in Hr as [[a rd] [<- Hin]]. simpl.
    apply (all_dcops_in _ _ _ Hds) in Hin as [Ha Hd].
    apply (agent_zero_iff s cands x a rd Hc Hb Ha Hd).
    destruct (agent_dcop_inv _ _ _ Hd) as [l [Hl _]]. exists l. split; auto.
    destruct (agent_info_wf s cands a l Hc Ha Hl) as [[Hndl Hown] [Hk Hm]]. split.
    + intros ci Hci. assert (Hco : In (fst ci) (orph s)) by (apply Hk; now apply in_map).
      destruct (Hone (fst ci) Hco) as [a1 [Hh [Hx Hu]]].
      { exists a. apply (Hm ci); auto. apply Hown; auto. }
      exists a1. split; [now apply (Hm ci)|]. split; auto.
      intros a' Ha' Hx'. apply Hu; auto. now apply (Hm ci).
    + apply Hload; auto.
Qed.

(* ---------- what the agents then activate ---------- *)
(* in a valid outcome every orphaned computation with a replica holder is selected (deployed
   and reported) by exactly one candidate agent, which holds its replica and has not left *)
Lemma selections_spec s cands ds x :
  is_candidates s cands -> all_dcops s cands = Ok ds ->
  map fst (selections ds x) = cands /\
  forall a sel c, In (a, sel) (selections ds x) ->
    (In c sel <-> In c (orph s) /\ holder s c a /\ x (c, a) = 1).
Proof.
  intros Hc Hds. split.
  - unfold selections. rewrite map_map. simpl. exact (all_dcops_agents _ _ _ Hds).
  - intros a sel c Hin. unfold selections in Hin. apply in_map_iff in Hin as [[a' rd] [E Hin]].
    simpl in E. inversion E; subst a' sel; clear E.
    apply (all_dcops_in _ _ _ Hds) in Hin as [Ha Hd].
    destruct (agent_dcop_inv _ _ _ Hd) as [l [Hl Hs]].
    destruct (agent_info_wf s cands a l Hc Ha Hl) as [Hwf [Hk Hm]].
    rewrite setup_repair_ok in Hs by auto. inversion Hs; subst rd; clear Hs. simpl.
    destruct Hwf as [Hnd Hown]. rewrite agent_outcome_in by auto. rewrite Hk. split.
    + intros [[H1 H2] H3]. repeat split; auto. apply Hc in Ha. tauto.
    + intros [H1 [[H2 _] H3]]. auto.
Qed.

Lemma valid_selected_once s cands ds x :
  is_candidates s cands -> all_dcops s cands = Ok ds -> valid_rehosting s cands x ->
  forall c, In c (orph s) -> (exists a, holder s c a) ->
  exists a sel, In (a, sel) (selections ds x) /\ In c sel /\ holder s c a /\
    forall a' sel', In (a', sel') (selections ds x) -> In c sel' -> a' = a.
Proof.
  intros Hc Hds [Hone _] c Hco Hex. destruct (selections_spec s cands ds x Hc Hds) as [Hags Hsel].
  destruct (Hone c Hco Hex) as [a [Hh [Hx Hu]]].
  assert (Ha : In a cands) by (apply Hc; destruct Hh; split; auto; exists c; auto).
  rewrite <- Hags in Ha. apply in_map_iff in Ha as [[a' sel] [E Hin]]. simpl in E; subst a'.
  exists a, sel. split; auto. split; [apply (Hsel a sel c Hin); auto|]. split; auto.
  intros a' sel' Hin' Hc'. apply (Hsel a' sel' c Hin') in Hc' as [_ [Hh' Hx']]. now apply Hu.
Qed.
