(* M_Repair2.v -- executable model of the assembly of the repair DCOP
   (ResilientAgent.setup_repair in pydcop/infrastructure/agents.py: the binary variables
   x_{c,a} built by create_binary_variables('B', ([c], agents)), the dicts orphaned_binvars /
   candidate_binvars, and which of the four constraint constructors of reparation/__init__.py
   is called on which of them), and of the whole repair DCOP = the constraints of every
   candidate agent.  Models only; proofs in P_Repair2.v. *)
From PyDcop Require Import Base M_Repair.

(* create_binary_variables('B', ([c], agts)):  name = 'B' + '_'.join((c, a)) *)
Definition bname (k : bkey) : string := ("B" ++ fst k ++ "_" ++ snd k)%string.
Definition mk_binvars (c : string) (agts : list string) : binvars :=
  dict_of_list bkey_eqb (map (fun a => ((c, a), bname (c, a))) agts).
(* d.update(new) *)
Definition bv_update (d new : binvars) : binvars :=
  fold_left (fun d kv => dict_set bkey_eqb (fst kv) (snd kv) d) new d.

(* the first loop of setup_repair over repair_info.items() *)
Fixpoint setup_loop (own : string) (ri : list (string * info)) (obv cbv : binvars)
  (hosted : list (string * relation)) : res (binvars * binvars * list (string * relation)) :=
  match ri with
  | [] => Ok (obv, cbv, hosted)
  | (comp, (agts, fixed, cn)) :: r =>
      let v := mk_binvars comp agts in
      let obv1 := bv_update obv v in
      match lookup bkey_eqb (comp, own) v with       (* v_binvar[(candidate_comp, own_name)] *)
      | None => Err EKey
      | Some var =>
          let cbv1 := dict_set bkey_eqb (comp, own) var cbv in
          let hosted1 := dict_set String.eqb comp (create_hosted comp v) hosted in
          let obv2 := fold_left (fun d na => bv_update d (mk_binvars (fst na) (snd na))) cn obv1 in
          setup_loop own r obv2 cbv1 hosted1
      end
  end.

(* what the agent knows about itself *)
Record aparams := mkAP {
  ap_remaining : Z;                  (* capacity - footprints of the hosted computations *)
  ap_footprint : string -> Z;        (* footprint of a replica *)
  ap_hosting : string -> Z;          (* agent_def.hosting_cost *)
  ap_comm : commfn }.                (* comm_func *)

(* the second loop: one communication constraint per candidate variable *)
Fixpoint comm_loop (ri : list (string * info)) (comm : commfn) (obv : binvars) (keys : list bkey)
  : res (list relation) :=
  match keys with
  | [] => Ok []
  | (comp, agt) :: r =>
      match slookup comp ri with                   (* repair_info[comp] *)
      | None => Err EKey
      | Some i =>
          bind (create_comm agt comp i comm obv) (fun c =>
          bind (comm_loop ri comm obv r) (fun t => Ok (c :: t)))
      end
  end.

Record agent_dcop := mkAD {
  ad_obv : binvars;                     (* orphaned_binvars *)
  ad_cbv : binvars;                     (* candidate_binvars *)
  ad_hosted : list (string * relation); (* hosted_cs *)
  ad_capacity : relation; ad_hosting : relation;
  ad_comm : list relation }.

Definition setup_repair (own : string) (ri : list (string * info)) (p : aparams) : res agent_dcop :=
  bind (setup_loop own ri [] [] []) (fun r =>
    let '(obv, cbv, hosted) := r in
    bind (comm_loop ri (ap_comm p) obv (map fst cbv)) (fun comms =>
    Ok (mkAD obv cbv hosted
             (create_capacity own (ap_remaining p) (ap_footprint p) cbv)
             (create_hosting own (ap_hosting p) cbv)
             comms))).

Definition ad_hard (d : agent_dcop) : list relation := map snd (ad_hosted d) ++ [ad_capacity d].
Definition ad_soft (d : agent_dcop) : list relation := ad_hosting d :: ad_comm d.

(* the repair DCOP: the constraints of every candidate agent.  [ri a], [p a]: the repair info
   sent to agent a and its parameters. *)
Fixpoint repair_dcop (agents : list string) (ri : string -> list (string * info))
  (p : string -> aparams) : res (list agent_dcop) :=
  match agents with
  | [] => Ok []
  | a :: r => bind (setup_repair a (ri a) (p a)) (fun d =>
              bind (repair_dcop r ri p) (fun t => Ok (d :: t)))
  end.

(* value of a constraint under a global assignment x of the binary variables [gbv]: the
   assignment is filtered on the scope (filter_assignment_dict) and passed as keywords *)
Definition gasg (bv : binvars) (x : bkey -> Z) : asg := map (fun kv => (snd kv, x (fst kv))) bv.
Definition eval (gbv : binvars) (x : bkey -> Z) (r : relation) : res Z :=
  rel_call r (filter (fun kv => smem (fst kv) (r_scope r)) (gasg gbv x)).
Fixpoint eval_sum (gbv : binvars) (x : bkey -> Z) (rs : list relation) : res Z :=
  match rs with
  | [] => Ok 0
  | r :: t => bind (eval gbv x r) (fun v => bind (eval_sum gbv x t) (fun s => Ok (v + s)))
  end.
Definition hard_cost gbv x (ds : list agent_dcop) : res Z := eval_sum gbv x (flat_map ad_hard ds).
Definition soft_cost gbv x (ds : list agent_dcop) : res Z := eval_sum gbv x (flat_map ad_soft ds).

(* ---------- correspondence: the constraints one agent builds ---------- *)
Record setup_case := mkSetup {
  sc_own : string; sc_ri : list (string * info);
  sc_obs : res (list (string * list string))     (* names and scopes: hosted..., capacity, hosting, comm... *)
}.
Definition sig_eqb := list_eqb (pair_eqb String.eqb (list_eqb String.eqb)).
Definition check_setup (c : setup_case) : bool :=
  let p := mkAP 0 (fun _ => 0) (fun _ => 0) (fun _ _ _ => 0) in
  res_eqb sig_eqb
    (bind (setup_repair (sc_own c) (sc_ri c) p) (fun d =>
       Ok (map (fun r => (r_name r, r_scope r)) (ad_hard d ++ ad_soft d))))
    (sc_obs c).

(* the whole repair DCOP (every candidate agent, same parameter tables for all of them) under
   global assignments: observed sums of the hard and of the soft constraints *)
Record global_case := mkGlobal {
  gl_agents : list string; gl_ri : list (string * list (string * info));
  gl_rem : Z; gl_fp : list (string * Z); gl_host : list (string * Z);
  gl_comm : list (string * string * string * Z); gl_dflt : Z;
  gl_bv : binvars;                               (* all binary variables, key -> name *)
  gl_evals : list (list Z * res Z * res Z)       (* values of gl_bv in order, hard sum, soft sum *)
}.
Definition check_global (c : global_case) : bool :=
  let RI := fun a => match slookup a (gl_ri c) with Some l => l | None => [] end in
  let P := fun _ : string => mkAP (gl_rem c) (tbl_fun (gl_fp c)) (tbl_fun (gl_host c))
                                  (comm_tbl (gl_comm c) (gl_dflt c)) in
  match repair_dcop (gl_agents c) RI P with
  | Err _ => false
  | Ok ds =>
      forallb (fun q => let '(vals, h, s) := q in
        let tbl := combine (map fst (gl_bv c)) vals in
        let x := fun k => match lookup bkey_eqb k tbl with Some v => v | None => 0 end in
        res_eqb Z.eqb (hard_cost (gl_bv c) x ds) h && res_eqb Z.eqb (soft_cost (gl_bv c) x ds) s)
      (gl_evals c)
  end.

Inductive atom2 := A1 (a : atom) | ASetup (c : setup_case) | AGlobal (c : global_case).
Definition case := list atom2.
Definition check_atom2 (a : atom2) : bool :=
  match a with A1 x => check_atom x | ASetup c => check_setup c | AGlobal c => check_global c end.
Definition check_case (c : case) : bool := forallb check_atom2 c.
