(* P_DpopBuilt3.v -- C01 x C17: the executable checker dpop_check accepts the DPOP instance built
   on the output of the pseudo-tree builder model, for every well-formed DCOP (P_DpopBuilt +
   completeness of the checker, P_DpopBuilt2).  Hence what the correspondence evaluates per case
   (dpop_check of the tree pydcop built) is a theorem about the model of the builder. *)
From PyDcop Require Import Base Net M_Dpop M_DpopValid P_Dpop2Tree M_PseudoTree M_DpopBuilt P_DpopBuilt P_DpopBuilt2.

Theorem built_check_l R : wf_rdcop R -> forall roots t, M_PseudoTree.build (graph_of R) = Some (roots, t) ->
  dpop_check (dpop_of_built R t) = true.
Proof.
  intros W roots t HB. destruct (built_partition_l R W roots t HB) as (Hp & Hn & _).
  destruct (built_valid_l R W roots t HB) as (dep & B & V).
  eapply dpop_check_complete_l; eauto.
Qed.
