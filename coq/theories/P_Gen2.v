(* P_Gen2.v -- C30 deepening: decimal rendering is injective (str_of_N, zero-padded names,
   the Ising f-string names), the unconditional graph-colouring theorem, and the link between
   the constraint dict built by generate_ising and the factor-graph distribution. *)
From PyDcop Require Import Base P_Base M_AgentDef M_Gen P_Gen.
From Coq Require Import Permutation ZifyBool DecimalString DecimalN DecimalPos Nnat FinFun Ascii.

(* ================= decimal rendering ================= *)
(* int(s) for a string of digits (leading zeros allowed); 0 for anything else *)
Definition parse_dec (s : string) : N :=
  match NilEmpty.uint_of_string s with Some d => N.of_uint d | None => 0%N end.

Lemma to_uint_nonnil n : N.to_uint n <> Decimal.Nil.
Proof. destruct n as [|p]; simpl; [discriminate|apply DecimalPos.Unsigned.to_uint_nonnil]. Qed.

Lemma str_of_N_nilempty n : str_of_N n = NilEmpty.string_of_uint (N.to_uint n).
Proof.
  unfold str_of_N, NilZero.string_of_uint. pose proof (to_uint_nonnil n) as H.
  destruct (N.to_uint n); auto. congruence.
Qed.

Lemma parse_str_of_N n : parse_dec (str_of_N n) = n.
Proof.
  unfold parse_dec. rewrite str_of_N_nilempty, NilEmpty.usu. apply DecimalN.Unsigned.of_to.
Qed.

Lemma parse_zeros k s : parse_dec (zeros k ++ s) = parse_dec s.
Proof.
  unfold parse_dec. induction k as [|k IH]; simpl; auto.
  destruct (NilEmpty.uint_of_string (zeros k ++ s)) as [d|];
    destruct (NilEmpty.uint_of_string s) as [d'|]; simpl in *; auto.
Qed.

(* f"{n:0{w}d}" can be read back: zero padding never merges two numbers *)
Lemma parse_zero_pad w n : parse_dec (zero_pad w n) = n.
Proof. unfold zero_pad. now rewrite parse_zeros, parse_str_of_N. Qed.

Lemma zero_pad_inj w1 w2 a b : zero_pad w1 a = zero_pad w2 b -> a = b.
Proof. intros H. apply (f_equal parse_dec) in H. now rewrite !parse_zero_pad in H. Qed.

Lemma var_name_inj i j : var_name i = var_name j -> i = j.
Proof.
  unfold var_name. intros H. inversion H as [H']. apply zero_pad_inj in H'. now apply Nat2N.inj.
Qed.
Lemma agt_name_inj i j : agt_name i = agt_name j -> i = j.
Proof.
  unfold agt_name. intros H. inversion H as [H']. apply zero_pad_inj in H'. now apply Nat2N.inj.
Qed.

Lemma str_of_Z_inj a b : 0 <= a -> 0 <= b -> str_of_Z a = str_of_Z b -> a = b.
Proof. unfold str_of_Z. intros Ha Hb H. apply str_of_N_inj in H. lia. Qed.

(* ================= graph colouring, no hypothesis on the rendering ================= *)
Lemma gc_variables_and_colours_l2 colors kind soft intentional noagents nodes edges rnd o :
  NoDup nodes ->
  gc_generate_checked colors kind soft intentional noagents nodes edges rnd = GOk o ->
  (colors <= 8)%nat /\ gc_domain o = firstn colors COLORS /\ List.length (gc_domain o) = colors /\
  gc_vars o = map var_name (seq 0 (List.length nodes)) /\ NoDup (gc_vars o) /\
  List.length (gc_vars o) = List.length nodes.
Proof. apply gc_variables_and_colours_l. exact var_name_inj. Qed.

Lemma length_enumerate_from {A} i (l : list A) : List.length (enumerate_from i l) = List.length l.
Proof. revert i; induction l; simpl; intros; auto. Qed.

Lemma gc_variables_length nodes : NoDup nodes -> List.length (gc_variables nodes) = List.length nodes.
Proof.
  intros Hnd. unfold gc_variables.
  set (s := isort Z.leb nodes).
  assert (Hs : NoDup s) by (eapply Permutation_NoDup; [apply Permutation_sym, isort_perm|auto]).
  rewrite dict_of_list_nodup_g; [|apply Z.eqb_eq|].
  - rewrite map_length, length_enumerate_from. apply Permutation_length, isort_perm.
  - rewrite map_map. simpl. now rewrite enumerate_from_snd.
Qed.

(* one agent a00 .. a<n-1> per variable (none with --noagents), pairwise distinct *)
Lemma gc_agents_exact_l colors kind soft intentional noagents nodes edges rnd o :
  NoDup nodes ->
  gc_generate_checked colors kind soft intentional noagents nodes edges rnd = GOk o ->
  gc_agents o = (if noagents then [] else map agt_name (seq 0 (List.length nodes))) /\
  NoDup (gc_agents o).
Proof.
  intros Hnd. unfold gc_generate_checked.
  destruct (Nat.ltb (List.length COLORS) colors); [discriminate|]. unfold gc_generate.
  match goal with |- context [match ?c with GErr e => _ | GOk cs => _ end] => destruct c as [cs|]; [|discriminate] end.
  intros H. inversion H; subst o; clear H. cbn [gc_agents].
  destruct noagents; [split; [reflexivity|constructor]|].
  assert (Hn : map fst (map (fun p : nat * (Z * string) => (agt_name (fst p), tt))
                          (enumerate_from 0 (gc_variables nodes)))
               = map agt_name (seq 0 (List.length nodes))).
  { rewrite map_map. simpl. rewrite <- (map_map fst agt_name), enumerate_from_fst.
    now rewrite gc_variables_length. }
  assert (Hnd2 : NoDup (map agt_name (seq 0 (List.length nodes)))).
  { apply FinFun.Injective_map_NoDup; [intros a b; apply agt_name_inj|apply seq_NoDup]. }
  rewrite dict_of_list_nodup_g; [|apply String.eqb_eq|now rewrite Hn].
  rewrite Hn. auto.
Qed.

(* ================= the Ising names ================= *)
Fixpoint no_char (c : ascii) (s : string) : Prop :=
  match s with EmptyString => True | String a r => a <> c /\ no_char c r end.

Lemma string_of_uint_digits d : no_char "_" (NilEmpty.string_of_uint d).
Proof. induction d; simpl; auto; split; auto; discriminate. Qed.

Lemma str_of_N_no_us n : no_char "_" (str_of_N n).
Proof. rewrite str_of_N_nilempty. apply string_of_uint_digits. Qed.

Lemma sapp_assoc (a b c : string) : ((a ++ b) ++ c = a ++ (b ++ c))%string.
Proof. induction a; simpl; auto. now rewrite IHa. Qed.

(* s1 + "_" + t1 = s2 + "_" + t2 with no "_" in s1, s2 splits in one way only *)
Lemma sep_inj s1 : forall s2 t1 t2, no_char "_" s1 -> no_char "_" s2 ->
  (s1 ++ String "_" t1 = s2 ++ String "_" t2)%string -> s1 = s2 /\ t1 = t2.
Proof.
  induction s1 as [|a r IH]; intros [|b r2] t1 t2 H1 H2 H; simpl in *.
  - injection H as Ht. auto.
  - injection H as Hh Ht. destruct H2 as [H2 _]. congruence.
  - injection H as Hh Ht. destruct H1 as [H1 _]. congruence.
  - injection H as Hh Ht. destruct H1 as [_ H1], H2 as [_ H2].
    destruct (IH _ _ _ H1 H2 Ht) as [-> ->]. subst. auto.
Qed.

Definition nonneg_node (n : node) : Prop := 0 <= fst n /\ 0 <= snd n.
Definition nonneg_name (n : iname) : Prop :=
  match n with
  | NV x | NCU x | NA x => nonneg_node x
  | NCB (x, y) => nonneg_node x /\ nonneg_node y
  end.

Lemma render_node_inj x y : nonneg_node x -> nonneg_node y -> render_node x = render_node y -> x = y.
Proof.
  destruct x as [r c], y as [r' c']. unfold render_node, nonneg_node, str_of_Z. simpl.
  intros [H1 H2] [H3 H4] H.
  apply sep_inj in H as [Ha Hb]; try apply str_of_N_no_us.
  apply str_of_N_inj in Ha. apply str_of_N_inj in Hb. f_equal; lia.
Qed.

(* the rendering of the first node of a binary-constraint name is delimited by "_v_" *)
Lemma render_edge_inj x y x' y' :
  nonneg_node x -> nonneg_node y -> nonneg_node x' -> nonneg_node y' ->
  (render_node x ++ "_v_" ++ render_node y = render_node x' ++ "_v_" ++ render_node y')%string ->
  x = x' /\ y = y'.
Proof.
  destruct x as [r c], y as [r2 c2], x' as [r' c'], y' as [r2' c2'].
  unfold render_node, nonneg_node, str_of_Z. cbn [fst snd].
  intros [H1 H2] [H3 H4] [H5 H6] [H7 H8] H.
  rewrite !sapp_assoc in H. cbn [String.append] in H.
  apply sep_inj in H as [Ha H]; try apply str_of_N_no_us.
  apply sep_inj in H as [Hb H]; try apply str_of_N_no_us.
  inversion H as [H']. clear H.
  apply sep_inj in H' as [Hc Hd]; try apply str_of_N_no_us.
  apply str_of_N_inj in Ha, Hb, Hc, Hd.
  split; f_equal; lia.
Qed.

(* f"v_{r}_{c}", f"cu_v_{r}_{c}", f"cb_v_{r1}_{c1}_v_{r2}_{c2}", f"a_{r}_{c}": different
   computations / agents never get the same name (coordinates are >= 0) *)
Lemma ising_names_injective_l a b : nonneg_name a -> nonneg_name b -> render a = render b -> a = b.
Proof.
  destruct a as [x|x|[x y]|x], b as [x'|x'|[x' y']|x']; cbn [render nonneg_name];
    intros Ha Hb H; try discriminate.
  - inversion H as [H']. f_equal. now apply render_node_inj.
  - inversion H as [H']. f_equal. now apply render_node_inj.
  - inversion H as [H']. destruct Ha, Hb. apply render_edge_inj in H' as [-> ->]; auto.
  - inversion H as [H']. f_equal. now apply render_node_inj.
Qed.

(* ================= generate_ising: constraint dict vs factor-graph mapping ================= *)
Lemma idict_set_keys {V} k (v : V) l k' :
  In k' (map fst (idict_set k v l)) <-> k' = k \/ In k' (map fst l).
Proof.
  unfold idict_set. induction l as [|[k0 v0] r IH]; simpl.
  - intuition.
  - destruct (iname_eqb k k0) eqn:E; simpl.
    + apply iname_eqb_iff in E. subst. intuition.
    + rewrite IH. intuition.
Qed.

Lemma idict_set_fresh {V} k (v : V) l :
  ~ In k (map fst l) -> idict_set k v l = l ++ [(k, v)].
Proof. apply dict_set_fresh_g. apply iname_eqb_iff. Qed.

Lemma fold_idict_set_keys {V} (b : list (iname * V)) : forall a k,
  In k (map fst (fold_left (fun d kv => idict_set (fst kv) (snd kv) d) b a))
  <-> In k (map fst a) \/ In k (map fst b).
Proof.
  induction b as [|[k0 v0] r IH]; intros a k; simpl; [tauto|].
  rewrite IH, idict_set_keys. intuition.
Qed.

Lemma fold_idict_set_fresh {V} (b : list (iname * V)) : forall a,
  NoDup (map fst (a ++ b)) ->
  fold_left (fun d kv => idict_set (fst kv) (snd kv) d) b a = a ++ b.
Proof.
  induction b as [|[k v] r IH]; intros a Hnd; simpl; [now rewrite app_nil_r|].
  rewrite idict_set_fresh.
  - rewrite IH; rewrite <- app_assoc; auto.
  - rewrite map_app in Hnd. simpl in Hnd. apply NoDup_remove_2 in Hnd.
    intro Hin. apply Hnd. apply in_or_app. auto.
Qed.

(* generate_unary_constraints: keys cu_<v>, one per variable *)
Lemma unary_loop_keys ext vars : forall rnd acc un rnd',
  unary_loop ext vars rnd acc = GOk (un, rnd') ->
  forall k, In k (map fst un) <-> In k (map fst acc) \/ In k (map NCU vars).
Proof.
  induction vars as [|n r IH]; simpl; intros rnd acc un rnd' H k.
  - inversion H; subst. tauto.
  - destruct rnd as [|value rnd1]; [discriminate|].
    rewrite (IH _ _ _ _ H k), idict_set_keys. intuition.
Qed.

Lemma unary_loop_keys_exact ext vars : forall rnd acc un rnd',
  unary_loop ext vars rnd acc = GOk (un, rnd') ->
  NoDup (map fst acc ++ map NCU vars) ->
  map fst un = map fst acc ++ map NCU vars.
Proof.
  induction vars as [|n r IH]; simpl; intros rnd acc un rnd' H Hnd.
  - inversion H; subst. now rewrite app_nil_r.
  - destruct rnd as [|value rnd1]; [discriminate|].
    assert (Hf : ~ In (NCU n) (map fst acc)).
    { apply NoDup_remove_2 in Hnd. intro Hin. apply Hnd. apply in_or_app. auto. }
    rewrite idict_set_fresh in H by auto.
    rewrite (IH _ _ _ _ H); rewrite map_app; simpl; rewrite <- app_assoc; auto.
Qed.

(* generate_binary_constraints: keys cb_<v1>_<v2> for the sorted ends of every edge *)
Lemma binary_loop_keys ext vars edges : forall rnd acc bin,
  binary_loop ext vars edges rnd acc = GOk bin ->
  forall k, In k (map fst bin) <-> In k (map fst acc) \/ In k (map NCB (sorted_edges edges)).
Proof.
  induction edges as [|[a b] r IH]; simpl; intros rnd acc bin H k.
  - inversion H; subst. tauto.
  - destruct (existsb (node_eqb (fst (sortp a b))) vars && existsb (node_eqb (snd (sortp a b))) vars);
      [|discriminate].
    destruct rnd as [|value rnd1]; [discriminate|].
    rewrite (IH _ _ _ H k), idict_set_keys. intuition.
Qed.

Lemma binary_loop_keys_exact ext vars edges : forall rnd acc bin,
  binary_loop ext vars edges rnd acc = GOk bin ->
  NoDup (map fst acc ++ map NCB (sorted_edges edges)) ->
  map fst bin = map fst acc ++ map NCB (sorted_edges edges).
Proof.
  induction edges as [|[a b] r IH]; simpl; intros rnd acc bin H Hnd.
  - inversion H; subst. now rewrite app_nil_r.
  - destruct (existsb (node_eqb (fst (sortp a b))) vars && existsb (node_eqb (snd (sortp a b))) vars);
      [|discriminate].
    destruct rnd as [|value rnd1]; [discriminate|].
    assert (Hf : ~ In (NCB (sortp a b)) (map fst acc)).
    { apply NoDup_remove_2 in Hnd. intro Hin. apply Hnd. apply in_or_app. auto. }
    rewrite idict_set_fresh in H by auto.
    rewrite (IH _ _ _ H); rewrite map_app; simpl; rewrite <- app_assoc; auto.
Qed.

(* the [bin] argument handed to fg_loop by generate_ising: the edge of every key of the dict
   of binary constraints *)
Definition edge_of_key {V} (kv : iname * V) : edge :=
  match fst kv with NCB e => e | _ => ((0, 0), (0, 0)) end.

Lemma edge_of_keys {V} (bin : list (iname * V)) :
  (forall k, In k (map fst bin) -> exists e, k = NCB e) ->
  forall e, In e (map edge_of_key bin) <-> In (NCB e) (map fst bin).
Proof.
  intros Hk e. rewrite !in_map_iff. split.
  - intros [[k v] [He Hin]]. exists (k, v). split; auto. unfold edge_of_key in He. simpl in *.
    destruct (Hk k) as [e' ->]; [apply in_map_iff; exists (k, v); auto|]. now subst.
  - intros [[k v] [He Hin]]. exists (k, v). simpl in He. subst k. auto.
Qed.

Lemma edge_of_keys_exact {V} (bin : list (iname * V)) es :
  map fst bin = map NCB es -> map edge_of_key bin = es.
Proof.
  revert es. induction bin as [|[k v] r IH]; intros [|e es] H; simpl in *; try discriminate; auto.
  injection H as H1 H2. subst k. f_equal. auto.
Qed.

Lemma In_dedup_nodes nodes x :
  In x (map fst (dict_of_list node_eqb (map (fun n : node => (n, tt)) nodes))) <-> In x nodes.
Proof.
  split.
  - intros H. apply in_map_iff in H as [[y u] [Hy H]]. simpl in Hy. subst y.
    apply (In_dict_of_list node_eqb node_eqb_iff) in H.
    apply in_map_iff in H as [z [Hz H]]. inversion Hz; subst. auto.
  - intros H. pose proof (dict_of_list_covers node_eqb node_eqb_iff x tt
                            (map (fun n : node => (n, tt)) nodes)) as Hc.
    unfold mem_key in Hc.
    destruct (lookup node_eqb x (dict_of_list node_eqb (map (fun n : node => (n, tt)) nodes))) eqn:E.
    + apply (lookup_In node_eqb node_eqb_iff) in E. apply in_map_iff. exists (x, u). auto.
    + exfalso. assert (Hft : false = true); [|discriminate]. apply Hc. apply in_map_iff. exists x; auto.
Qed.

Lemma countb_In n l : In n l <-> countb n l <> 0%nat.
Proof.
  unfold countb. induction l as [|x r IH]; simpl; [intuition|].
  destruct (iname_eqb n x) eqn:E; simpl.
  - apply iname_eqb_iff in E. subst. intuition lia.
  - rewrite <- IH. split; [intros [Hx|H]; auto|auto].
    symmetry in Hx. apply iname_eqb_iff in Hx. congruence.
Qed.

Lemma In_hosted_fg_loop R C bin nodes n :
  In n (hosted (fg_loop R C bin nodes [] [])) <-> In n (fg_emit R C bin nodes []).
Proof.
  rewrite !countb_In, fg_loop_count. change (countb n (hosted [])) with 0%nat. now rewrite Nat.add_0_l.
Qed.

Lemma dedup_nodes_nodup nodes : NoDup nodes ->
  map fst (dict_of_list node_eqb (map (fun n : node => (n, tt)) nodes)) = nodes.
Proof.
  intros H. rewrite dict_of_list_nodup_g; [|apply node_eqb_iff|].
  - rewrite map_map. simpl. apply map_id.
  - rewrite map_map. simpl. now rewrite map_id.
Qed.

(* what generate_ising returns, in terms of its two constraint loops *)
Lemma generate_ising_inv R C ext na fg vd nodes edges rnd o :
  generate_ising R C ext na fg vd nodes edges rnd = GOk o ->
  let vars := map fst (dict_of_list node_eqb (map (fun n : node => (n, tt)) nodes)) in
  exists un rnd' bin,
    unary_loop ext vars rnd [] = GOk (un, rnd') /\
    binary_loop ext vars edges rnd' [] = GOk bin /\
    io_vars o = map NV vars /\
    io_constraints o = fold_left (fun d kv => idict_set (fst kv) (snd kv) d) bin un /\
    io_fg_mapping o = (if fg then fg_loop R C (map edge_of_key bin) nodes [] [] else []).
Proof.
  intros H vars. unfold generate_ising in H. fold vars in H.
  destruct (unary_loop ext vars rnd []) as [[un rnd']|] eqn:E1; [|discriminate].
  destruct (binary_loop ext vars edges rnd' []) as [bin|] eqn:E2; [|discriminate].
  inversion H; subst o; clear H. exists un, rnd', bin. simpl. auto.
Qed.

(* every name the factor-graph distribution maps is a variable or a constraint the generator
   produced (whatever the graph), and on a periodic grid every variable and constraint is
   mapped *)
Lemma ising_fg_mapped_exist_l R C ext na fg vd nodes edges rnd o :
  generate_ising R C ext na fg vd nodes edges rnd = GOk o ->
  forall n, In n (hosted (io_fg_mapping o)) -> In n (io_vars o ++ map fst (io_constraints o)).
Proof.
  intros H n Hn. destruct (generate_ising_inv _ _ _ _ _ _ _ _ _ _ H) as (un & rnd' & bin & E1 & E2 & Hv & Hc & Hf).
  rewrite Hf in Hn. destruct fg; [|destruct Hn].
  apply In_hosted_fg_loop in Hn.
  destruct (fg_emit_spec R C (map edge_of_key bin) nodes []) as (M1 & M2 & M3 & M4 & _).
  pose proof (unary_loop_keys _ _ _ _ _ _ E1) as Hu.
  pose proof (binary_loop_keys _ _ _ _ _ _ E2) as Hb.
  rewrite in_app_iff, Hv, Hc. destruct n as [x|x|e|x].
  - left. apply M1 in Hn. apply in_map. now apply In_dedup_nodes.
  - right. apply fold_idict_set_keys. left. apply Hu. right. apply M2 in Hn.
    apply in_map. now apply In_dedup_nodes.
  - right. apply fold_idict_set_keys. right. apply M4 in Hn as [Hn _].
    apply edge_of_keys in Hn; auto.
    intros k Hk. apply Hb in Hk as [[]|Hk]. apply in_map_iff in Hk as [e' [<- _]]. eauto.
  - exfalso. eapply M3; eauto.
Qed.

Lemma generate_ising_grid R C ext na fg vd nodes edges rnd o :
  grid_ok R C nodes edges = true ->
  generate_ising R C ext na fg vd nodes edges rnd = GOk o ->
  io_vars o = map NV nodes /\
  map fst (io_constraints o) = map NCU nodes ++ map NCB (sorted_edges edges) /\
  NoDup (io_vars o ++ map fst (io_constraints o)) /\
  io_fg_mapping o = (if fg then fg_loop R C (sorted_edges edges) nodes [] [] else []).
Proof.
  intros Hg H. destruct (grid_ok_sound _ _ _ _ Hg) as (Hn & He & _).
  destruct (generate_ising_inv _ _ _ _ _ _ _ _ _ _ H) as (un & rnd' & bin & E1 & E2 & Hv & Hc & Hf).
  rewrite (dedup_nodes_nodup _ Hn) in *.
  assert (NCUinj : NoDup (map NCU nodes)).
  { apply FinFun.Injective_map_NoDup; auto. intros a b Hab. now inversion Hab. }
  assert (NCBinj : NoDup (map NCB (sorted_edges edges))).
  { apply FinFun.Injective_map_NoDup; auto. intros a b Hab. now inversion Hab. }
  assert (NVinj : NoDup (map NV nodes)).
  { apply FinFun.Injective_map_NoDup; auto. intros a b Hab. now inversion Hab. }
  pose proof (unary_loop_keys_exact _ _ _ _ _ _ E1 NCUinj) as Ku. simpl in Ku.
  pose proof (binary_loop_keys_exact _ _ _ _ _ _ E2 NCBinj) as Kb. simpl in Kb.
  assert (Hcc : NoDup (map NCU nodes ++ map NCB (sorted_edges edges))).
  { apply NoDup_app_intro; auto. intros y Hy Hy'.
    apply in_map_iff in Hy as [a [<- _]]. apply in_map_iff in Hy' as [b [Hb _]]. discriminate. }
  assert (Keys : map fst (io_constraints o) = map NCU nodes ++ map NCB (sorted_edges edges)).
  { rewrite Hc, fold_idict_set_fresh; rewrite map_app, Ku, Kb; auto. }
  split; [auto|]. split; [auto|]. split.
  - rewrite Hv, Keys. apply NoDup_app_intro; auto. intros y Hy Hy'.
    apply in_map_iff in Hy as [a [<- _]]. apply in_app_iff in Hy' as [Hy'|Hy'];
      apply in_map_iff in Hy' as [b [Hb _]]; discriminate.
  - rewrite Hf. now rewrite (edge_of_keys_exact _ _ Kb).
Qed.

(* end to end on generate_ising's own output: on a periodic grid (any size >= 1) every
   variable and every constraint of the returned DCOP is hosted exactly once by the returned
   factor-graph distribution, and nothing else is hosted *)
Lemma ising_generate_fg_hosts_once_l R C ext na vd nodes edges rnd o :
  grid_ok R C nodes edges = true ->
  generate_ising R C ext na true vd nodes edges rnd = GOk o ->
  forall n, countb n (hosted (io_fg_mapping o))
            = if existsb (iname_eqb n) (io_vars o ++ map fst (io_constraints o)) then 1%nat else 0%nat.
Proof.
  intros Hg H n. destruct (generate_ising_grid _ _ _ _ _ _ _ _ _ _ Hg H) as (Hv & Hk & _ & Hf).
  rewrite Hv, Hk, Hf. now apply ising_fg_hosts_once_grid.
Qed.

Lemma ising_generate_var_hosts_once_l R C ext na fg nodes edges rnd o :
  NoDup nodes ->
  generate_ising R C ext na fg true nodes edges rnd = GOk o ->
  forall n, countb n (hosted (io_var_mapping o))
            = if existsb (iname_eqb n) (io_vars o) then 1%nat else 0%nat.
Proof.
  intros Hn H n. unfold generate_ising in H.
  destruct (unary_loop _ _ _ _) as [[un rnd']|]; [|discriminate].
  destruct (binary_loop _ _ _ _ _) as [bin|]; [|discriminate].
  inversion H; subst o; clear H. cbn [io_var_mapping io_vars].
  rewrite (dedup_nodes_nodup _ Hn). now apply ising_var_distribution_hosts_once_l.
Qed.

Lemma ising_fg_mapping_uses_existing_constraints_l R C ext na vd nodes edges rnd o :
  generate_ising R C ext na true vd nodes edges rnd = GOk o ->
  (forall n, In n (hosted (io_fg_mapping o)) -> In n (io_vars o ++ map fst (io_constraints o))) /\
  (grid_ok R C nodes edges = true ->
   forall n, In n (io_vars o ++ map fst (io_constraints o)) -> In n (hosted (io_fg_mapping o))).
Proof.
  intros H. split; [now apply (ising_fg_mapped_exist_l _ _ _ _ _ _ _ _ _ _ H)|].
  intros Hg n Hn. apply countb_In. rewrite (ising_generate_fg_hosts_once_l _ _ _ _ _ _ _ _ _ Hg H).
  apply existsb_iname_In in Hn. now rewrite Hn.
Qed.

(* generate_ising succeeds on every periodic grid when random.uniform delivers *)
Lemma unary_loop_total ext vars : forall rnd acc, (List.length vars <= List.length rnd)%nat ->
  exists un, unary_loop ext vars rnd acc = GOk (un, skipn (List.length vars) rnd).
Proof.
  induction vars as [|n r IH]; simpl; intros rnd acc Hl; [eauto|].
  destruct rnd as [|v rnd1]; simpl in *; [lia|]. apply IH. lia.
Qed.

Lemma binary_loop_total ext vars edges : forall rnd acc,
  (forall a b, In (a, b) edges -> In a vars /\ In b vars) ->
  (List.length edges <= List.length rnd)%nat ->
  exists bin, binary_loop ext vars edges rnd acc = GOk bin.
Proof.
  induction edges as [|[a b] r IH]; simpl; intros rnd acc Hin Hl; [eauto|].
  destruct (Hin a b (or_introl eq_refl)) as [Ha Hb].
  assert (Hex : forall x, In x vars -> existsb (node_eqb x) vars = true).
  { intros x Hx. apply existsb_exists. exists x. split; auto. now apply node_eqb_iff. }
  assert (Hs : existsb (node_eqb (fst (sortp a b))) vars && existsb (node_eqb (snd (sortp a b))) vars = true).
  { unfold sortp. destruct (node_leb a b); simpl; rewrite !Hex; auto. }
  rewrite Hs. destruct rnd as [|v rnd1]; simpl in *; [lia|]. apply IH; [|lia].
  intros a' b' H'. apply Hin. auto.
Qed.

Lemma ising_generate_total_l R C ext na fg vd nodes edges rnd :
  grid_ok R C nodes edges = true ->
  (List.length nodes + List.length edges <= List.length rnd)%nat ->
  exists o, generate_ising R C ext na fg vd nodes edges rnd = GOk o.
Proof.
  intros Hg Hl. destruct (grid_ok_sound _ _ _ _ Hg) as (Hn & _ & _).
  unfold generate_ising. rewrite (dedup_nodes_nodup _ Hn).
  assert (Hl1 : (List.length nodes <= List.length rnd)%nat) by lia.
  destruct (unary_loop_total ext nodes rnd [] Hl1) as [un ->].
  destruct (binary_loop_total ext nodes edges (skipn (List.length nodes) rnd) []) as [bin ->]; eauto.
  - intros a b Hab. unfold grid_ok in Hg. rewrite !andb_true_iff in Hg. destruct Hg as [_ Hg].
    rewrite forallb_forall in Hg. specialize (Hg _ Hab). rewrite !andb_true_iff in Hg.
    destruct Hg as [[_ H1] H2]. simpl in *.
    apply existsb_exists in H1 as [x [Hx E]]. apply node_eqb_iff in E. subst x.
    apply existsb_exists in H2 as [y [Hy E]]. apply node_eqb_iff in E. subst y. auto.
  - rewrite skipn_length. assert (Har : forall a b c : nat, (a + b <= c -> b <= c - a)%nat) by (intros; lia). now apply Har.
Qed.
