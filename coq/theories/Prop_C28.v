(* Prop_C28.v -- C28: algorithm parameters are validated and completed exactly.
   Only statements; each closed by an exact lemma from P_Params.
   I, F : what Python's int(s) / float(s) answer on a str s -- arbitrary in every theorem.
   [find_def defs k] = the definition the code uses for name k (a repeated name: the last one). *)
From PyDcop Require Import Base M_Params P_Params.
Open Scope string_scope.

(* the definition in force for a name: declared, and with unique names it is THE declaration *)
Theorem effective_definition : forall defs,
  (forall k d, find_def defs k = Some d -> In d defs /\ p_name d = k) /\
  (forall k, In k (map p_name defs) <-> exists d, find_def defs k = Some d) /\
  (NoDup (map p_name defs) -> forall d, In d defs -> find_def defs (p_name d) = Some d).
Proof. exact effective_definition_l. Qed.

(* preparation yields exactly the parameters the algorithm declares (each once) *)
Theorem prepare_exact_keys : forall I F params defs r,
  prepare_algo_params I F params defs = Ok r ->
  (forall k, In k (map fst r) <-> In k (map p_name defs)) /\ NoDup (map fst r).
Proof. exact prepare_exact_keys_l. Qed.

(* "exactly": the whole result, name by name -- absent if not declared, the converted and checked
   user value if one was given, the declared default otherwise *)
Theorem prepare_exact : forall I F params defs r,
  NoDup (map fst params) -> prepare_algo_params I F params defs = Ok r ->
  forall k, slookup k r = expected_value I F params defs k.
Proof. exact prepare_exact_l. Qed.

(* a user value ends up converted and checked by check_param_value against its definition ... *)
Theorem prepare_user_values_converted_checked : forall I F params defs r k v,
  NoDup (map fst params) -> prepare_algo_params I F params defs = Ok r -> In (k, v) params ->
  exists d v', find_def defs k = Some d /\ check_param_value I F v d = Ok v' /\ slookup k r = Some v'.
Proof. exact prepare_user_values_l. Qed.

(* ... which means: unchanged if already of the declared type, else int(v) / float(v) for the
   declared types int / float; in every case the result has the declared type and is one of the
   allowed values (when a non-empty list of values is declared) *)
Theorem check_param_value_spec : forall I F v d v',
  check_param_value I F v d = Ok v' ->
  ((class_name v = p_type d /\ v' = v) \/
   (class_name v <> p_type d /\ p_type d = "int" /\ exists z, py_int I v = Ok z /\ v' = VInt z) \/
   (class_name v <> p_type d /\ p_type d = "float" /\ exists f, py_float F v = Ok f /\ v' = VFloat f))
  /\ class_name v' = p_type d
  /\ allowed v' (p_values d) = true.
Proof. exact check_spec. Qed.

(* defaults fill the rest *)
Theorem prepare_defaults_fill : forall I F params defs r k d,
  prepare_algo_params I F params defs = Ok r -> ~ In k (map fst params) ->
  find_def defs k = Some d -> slookup k r = Some (p_default d).
Proof. exact prepare_defaults_l. Qed.

(* an unknown parameter is rejected *)
Theorem prepare_rejects_unknown : forall I F params defs k,
  In k (map fst params) -> find_def defs k = None ->
  exists e, prepare_algo_params I F params defs = Err e.
Proof. exact prepare_rejects_unknown_l. Qed.

(* an invalid value (failing conversion or not allowed) is rejected *)
Theorem prepare_rejects_invalid : forall I F params defs k v d e,
  In (k, v) params -> find_def defs k = Some d -> check_param_value I F v d = Err e ->
  exists e', prepare_algo_params I F params defs = Err e'.
Proof. exact prepare_rejects_invalid_l. Qed.

(* and nothing else is: declared names with valid values are accepted *)
Theorem prepare_accepts_valid : forall I F params defs,
  (forall k v, In (k, v) params ->
     exists d v', find_def defs k = Some d /\ check_param_value I F v d = Ok v') ->
  exists r, prepare_algo_params I F params defs = Ok r.
Proof. exact prepare_accepts_valid_l. Qed.

(* preparing a prepared dict again (build_algo_def does, through
   AlgorithmDef.build_with_default_param) changes nothing when the declared defaults are valid *)
Theorem prepare_idempotent : forall I F params defs r,
  NoDup (map fst params) -> defaults_valid I F defs ->
  prepare_algo_params I F params defs = Ok r -> prepare_algo_params I F r defs = Ok r.
Proof. exact prepare_idempotent_l. Qed.

(* 'name:value' : a cli string is accepted iff it has exactly one colon, and splits there *)
Theorem split_colon_spec : forall s k v,
  split_colon s = [k; v] <-> s = k ++ ":" ++ v /\ no_colon k = true /\ no_colon v = true.
Proof. exact split_colon_spec_l. Qed.

Theorem cli_strings_split : forall pairs,
  Forall (fun kv => no_colon (fst kv) = true /\ no_colon (snd kv) = true) pairs ->
  cli_dict (map (fun kv => fst kv ++ ":" ++ snd kv) pairs) [] =
  Ok (fold_left (fun d kv => dict_set String.eqb (fst kv) (VStr (snd kv)) d) pairs []).
Proof. exact cli_strings_split_l. Qed.

Theorem cli_malformed_rejected : forall cli p,
  In p cli -> (forall k v, split_colon p <> [k; v]) -> cli_dict cli [] = Err EValue.
Proof. exact cli_malformed_rejected_l. Qed.

(* build_algo_def = split the cli strings, prepare once, exit on any error *)
Theorem build_algo_def_prepares_cli : forall I F defs cli,
  defaults_valid I F defs ->
  build_algo_def I F (Some defs) defs cli =
  match cli_dict (match cli with Some l => l | None => [] end) [] with
  | Err e => Err e
  | Ok params =>
      match prepare_algo_params I F params defs with
      | Err _ => Err EExit
      | Ok r => Ok r
      end
  end.
Proof. exact build_algo_def_prepares_cli_l. Qed.

(* an algorithm module that declares nothing: no parameter, cli parameters are an error *)
Theorem build_algo_def_no_params : forall I F name_defs cli,
  build_algo_def I F None name_defs cli =
  match cli with Some (_ :: _) => Err EExit | _ => Ok [] end.
Proof. exact build_algo_def_no_params_l. Qed.

(* non-vacuity: dsa's declaration, with int() known on two strings *)
Example c28_nonvacuous :
  let I := fun s => if String.eqb s "10" then Ok 10 else Err EValue in
  let F := fun s : string => @Err fl EValue in
  let dsa := [mkDef "probability" "float" None (VFloat (FFin 3152519739159347 4503599627370496));
              mkDef "p_mode" "str" (Some [VStr "fixed"; VStr "arity"]) (VStr "fixed");
              mkDef "variant" "str" (Some [VStr "A"; VStr "B"; VStr "C"]) (VStr "B");
              mkDef "stop_cycle" "int" None (VInt 0)] in
  build_algo_def I F (Some dsa) dsa (Some ["variant:A"; "stop_cycle:10"]) =
    Ok [("variant", VStr "A"); ("stop_cycle", VInt 10);
        ("probability", VFloat (FFin 3152519739159347 4503599627370496)); ("p_mode", VStr "fixed")] /\
  build_algo_def I F (Some dsa) dsa (Some ["variant:Z"]) = Err EExit /\
  build_algo_def I F (Some dsa) dsa (Some ["stop_cycle:ten"]) = Err EExit /\
  build_algo_def I F (Some dsa) dsa (Some ["foo:1"]) = Err EExit /\
  build_algo_def I F (Some dsa) dsa (Some ["a:b:c"]) = Err EValue /\
  prepare_algo_params I F [("probability", VInt 1); ("stop_cycle", VFloat (FFin (-5) 2))] dsa =
    Ok [("probability", VFloat (FFin 1 1)); ("stop_cycle", VInt (-2));
        ("p_mode", VStr "fixed"); ("variant", VStr "B")] /\
  (forall k d, find_def dsa k = Some d -> check_param_value I F (p_default d) d = Ok (p_default d)).
Proof.
  cbv zeta. repeat (split; [vm_compute; reflexivity|]).
  intros k d H. apply find_def_in in H as [Hin _]. simpl in Hin.
  repeat (destruct Hin as [<-|Hin]; [vm_compute; reflexivity|]). contradiction.
Qed.

(* why [defaults_valid] is a hypothesis of build_algo_def_prepares_cli: the second preparation
   re-checks the defaults too.  A declaration whose default is not valid for its own type (none
   of the shipped algorithms has one) is accepted by prepare_algo_params but makes build_algo_def
   exit, even without any user parameter. *)
Example build_algo_def_rechecks_defaults :
  let I := fun s : string => @Err Z EValue in
  let F := fun s : string => @Err fl EValue in
  let defs := [mkDef "p" "int" None VNone] in
  prepare_algo_params I F [] defs = Ok [("p", VNone)] /\
  build_algo_def I F (Some defs) defs None = Err EExit.
Proof. vm_compute. split; reflexivity. Qed.
