(* Prop_C06.v -- C06: best-response helpers return exactly the optimal values and cost.
   Only statements; each closed by an exact lemma from P_Rel.
   [is_opt m f dom b] = b is attained by f on dom and no value of dom does better in mode m.
   [local_cost x a cs v] = sum of the constraints cs under a[x := v] plus x's own cost of v.
   [cs_ok x a cs] = every constraint is a well-formed table whose scope (distinct names) is
   covered by a[x := v] for every v of x's domain.  Costs range over all of ecost (any Z,
   +inf, -inf); nan is excluded by hypothesis. *)
From PyDcop Require Import Base ECost M_Rel P_Rel.

Theorem find_arg_optimal_spec : forall x r m,
  r_dims r = [x] -> wf_rel r -> v_dom x <> [] ->
  let f := fun v => sem r [(v_name x, v)] in
  (forall v, In v (v_dom x) -> is_nan (f v) = false) ->
  exists l b, find_arg_optimal x r m = Ok (l, b) /\ is_opt m f (v_dom x) b /\
    l = filter (fun v => ec_eqb (f v) b) (v_dom x) /\
    forall v, In v l <-> In v (v_dom x) /\ is_opt m f (v_dom x) (f v).
Proof. exact find_arg_optimal_spec_l. Qed.

Theorem find_optimal_spec : forall x a cs m,
  cs_ok x a cs -> v_dom x <> [] ->
  let f := local_cost x a cs in
  (forall v, In v (v_dom x) -> is_nan (f v) = false) ->
  exists l b, find_optimal x a cs m = Ok (l, b) /\ is_opt m f (v_dom x) b /\
    l = filter (fun v => ec_eqb (f v) b) (v_dom x) /\
    forall v, In v l <-> In v (v_dom x) /\ is_opt m f (v_dom x) (f v).
Proof. exact find_optimal_spec_l. Qed.

(* optimal_cost_value returns ONE optimal value of the variable's own cost, and that cost *)
Theorem optimal_cost_value_spec : forall x m,
  v_dom x <> [] -> (forall v, In v (v_dom x) -> is_nan (cost_for_val x v) = false) ->
  exists v c, optimal_cost_value x m = Ok (v, c) /\ In v (v_dom x) /\ c = cost_for_val x v /\
    forall w, In w (v_dom x) -> no_worse m c (cost_for_val x w) = true.
Proof. exact optimal_cost_value_ok. Qed.

Theorem projection_spec : forall r x m,
  wf_rel r -> NoDup (names (r_dims r)) -> In x (r_dims r) -> v_dom x <> [] ->
  exists pj pre post, projection r x m = Ok pj /\
    r_dims r = pre ++ x :: post /\ r_dims pj = pre ++ post /\ wf_rel pj /\
    forall b, covers (pre ++ post) b ->
      sem pj b = opt_cost m (fun v => sem r ((v_name x, v) :: b)) (v_dom x) /\
      ((forall v, In v (v_dom x) -> is_nan (sem r ((v_name x, v) :: b)) = false) ->
       is_opt m (fun v => sem r ((v_name x, v) :: b)) (v_dom x) (sem pj b)).
Proof. exact projection_spec_l. Qed.

(* whenever a DSA evaluation (any variant, any random draws) selects a value, that value is in
   the domain and attains the optimal local cost for the neighbour values used *)
Theorem dsa_moves_within_best : forall x vr m a cs cur viol d p v,
  let a1 := dict_set Z.eqb (v_name x) cur a in
  let f := local_cost x a1 cs in
  cs_ok x a1 cs -> v_dom x <> [] -> (forall w, In w (v_dom x) -> is_nan (f w) = false) ->
  dsa_evaluate x vr m a cs cur viol d p = Ok (Some v) ->
  In v (v_dom x) /\ is_opt m f (v_dom x) (f v).
Proof. exact dsa_moves_within_best_l. Qed.

Theorem dsatuto_moves_within_best : forall x m a cs cur d v,
  let a1 := dict_set Z.eqb (v_name x) cur a in
  let f := local_cost x a1 cs in
  cs_ok x a1 cs -> v_dom x <> [] -> (forall w, In w (v_dom x) -> is_nan (f w) = false) ->
  dsatuto_evaluate x m a cs cur d = Ok (Some v) ->
  In v (v_dom x) /\ is_opt m f (v_dom x) (f v).
Proof. exact dsatuto_moves_within_best_l. Qed.

(* non-vacuity: costs beyond 32 bits and infinite, a variable with its own costs *)
Example c06_nonvacuous :
  let x := mkVar 0 [3; 1; 7] [(1, Fin 4)] in let y := mkVar 1 [0; 1] [] in
  let c := mkRel [x; y] [Fin 1; Fin 5000000000; Fin 3; Fin 4999999996; Fin 5000000000; PInf] in
  cs_ok x [(1, 1)] [c] /\
  find_optimal x [(1, 1)] [c] Min = Ok ([3; 1], Fin 5000000000) /\
  find_optimal x [(1, 1)] [c] Max = Ok ([7], PInf) /\
  find_arg_optimal y (mkRel [y] [PInf; PInf]) Min = Ok ([0; 1], PInf) /\
  find_arg_optimal y (mkRel [y] [Fin 4294967296; Fin 2147483648]) Min = Ok ([1], Fin 2147483648) /\
  optimal_cost_value x Max = Ok (1, Fin 4) /\
  dsa_evaluate x VB Min [(1, 1)] [c] 7 true true 1 = Ok (Some 1) /\
  dsatuto_evaluate x Min [(1, 1)] [c] 7 true = Ok (Some 3).
Proof.
  split.
  - intros v Hv c0 [<-|[]]. repeat split.
    + repeat constructor; simpl; intuition discriminate.
    + simpl in Hv. intros w [<-|[<-|[]]]; simpl.
      * destruct Hv as [<-|[<-|[<-|[]]]]; vm_compute; eauto 6.
      * exists 1. vm_compute. auto.
  - vm_compute. repeat split; reflexivity.
Qed.
